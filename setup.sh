#!/bin/sh
# Build the framework from files on disk only (offline). Run in /verif.
set -e
cd "$(dirname "$0")"
export GOFLAGS=-mod=mod GOPROXY=off GOSUMDB=off GOTOOLCHAIN=local GOPHERJS_SKIP_VERSION_CHECK=true CGO_ENABLED=0
python3 tools/gen_manifest.py --check
(cd lean && lake build)
if [ -d harness/cmd/gvh ]; then
  cp /repo/go.sum harness/go.sum
  (cd harness && mkdir -p bin && go build -tags verif -o bin/gvh ./cmd/gvh)
fi
