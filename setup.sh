#!/bin/sh
# Build the framework from files on disk only (offline). Run in /verif.
# Every property's Lean targets and harness are built separately: a failure in one of them is reported by that
# property's own check when it runs, it does not stop the others from being set up.
cd "$(dirname "$0")" || exit 1
export GOFLAGS=-mod=mod GOPROXY=off GOSUMDB=off GOTOOLCHAIN=local GOPHERJS_SKIP_VERSION_CHECK=true CGO_ENABLED=0
python3 tools/gen_manifest.py --check || exit 1
mkdir -p .locks evidence replays harness/bin
PROPS=$(python3 -c "import json;print(' '.join(c['property_id'] for c in json.load(open('MANIFEST.json'))['checks']))")
for p in $PROPS; do
  lp=$(echo $p | tr 'A-Z' 'a-z')
  (cd lean && lake build GV.Props.$p gvdriver_$lp) > /tmp/setup_$p.log 2>&1 || { echo "warning: Lean targets of $p do not build (see its check)"; tail -5 /tmp/setup_$p.log; }
done
cp /repo/go.sum harness/go.sum
for d in harness/cmd/*/; do
  n=$(basename $d)
  (cd harness && go build -tags verif -o bin/$n ./cmd/$n) || echo "warning: harness $n does not build (see its check)" >&2
done
exit 0
