#!/bin/sh
# Build the framework from files on disk only (offline). Run in /verif.
set -e
cd "$(dirname "$0")"
export GOFLAGS=-mod=mod GOPROXY=off GOSUMDB=off GOTOOLCHAIN=local GOPHERJS_SKIP_VERSION_CHECK=true CGO_ENABLED=0
python3 tools/gen_manifest.py --check
mkdir -p .locks evidence replays harness/bin
PROPS=$(python3 -c "import json;print(' '.join(c['property_id'] for c in json.load(open('MANIFEST.json'))['checks']))")
TARGETS=""
for p in $PROPS; do
  lp=$(echo $p | tr 'A-Z' 'a-z')
  TARGETS="$TARGETS GV.Props.$p gvdriver_$lp"
done
(cd lean && lake build $TARGETS)
cp /repo/go.sum harness/go.sum
for d in harness/cmd/*/; do
  n=$(basename $d)
  (cd harness && go build -tags verif -o bin/$n ./cmd/$n) || echo "warning: harness $n does not build yet" >&2
done
