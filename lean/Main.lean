import GV.Driver.C14

/-- gvdriver: one operation per input line `<topic> <op> <args…>`, one canonical answer line. -/
def dispatch (line : String) : String :=
  match (line.trimAscii.toString.splitOn " ").filter (· ≠ "") with
  | "utf8" :: rest => GV.Driver.C14.handle rest
  | _ => "bad-topic"

partial def loop (h : IO.FS.Stream) (out : IO.FS.Stream) : IO Unit := do
  let line ← h.getLine
  if line.isEmpty then return ()
  out.putStrLn (dispatch line)
  loop h out

def main : IO Unit := do
  let out ← IO.getStdout
  loop (← IO.getStdin) out
  out.flush
