import GV.Basic.Bits
import GV.Basic.Hex
import GV.Model.Utf8
import GV.Spec.Utf8
import GV.Props.C14
import GV.Driver.C14
import GV.Driver.Loop
