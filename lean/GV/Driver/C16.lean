import GV.Basic.Hex
import GV.Model.Minify
import GV.Model.Names
import GV.Spec.JsTokens

/-
  GV.Driver.C16 — protocol lines of the C16 check. Topics:
    rw x|id <hex>, rw ns <byte>            the model of removeWhitespace / needsSpace
    rw wf <hex>                             evaluates GenWF / SafeAdjacent / token equality on a byte string
    nm new|child|req|cnt|locals|kw|enc      the model of the name allocator (stateful)
-/
namespace GV.Driver.C16
open GV.Hex GV.Minify GV.Names GV.JsTokens

def b2s (b : Bool) : String := if b then "1" else "0"

def nameStr (n : Name) : String := String.ofList (n.map Char.ofNat)

def tokOther : List Tok → Nat
  | [] => 0
  | .other _ :: r => tokOther r + 1
  | _ :: r => tokOther r

/-- answer of `rw wf`: is the string in the language of the theorem, do its hypotheses hold, and (as a run-time
    cross-check of the theorem's conclusion) are tokens / significant items of the model's output the same -/
def wfReport (s : List Nat) : String :=
  match lex s with
  | none => "parse=0"
  | some its =>
    if !(itemsOK its && flatten its == s) then "parse=0 lexer-invalid" else
    let tail := tailOK 0 its
    let safe := safeAdjacent its
    let toks := tokensOf its
    let out := removeWhitespace s true
    let (tokeq, sigeq) :=
      match out with
      | none => (false, false)
      | some o =>
        match lex o with
        | none => (false, false)
        | some its' =>
          (itemsOK its' && flatten its' == o && tokensOf its' == toks, significant its' == significant its)
    s!"parse=1 tail={b2s tail} safe={b2s safe} items={its.length} toks={toks.length} other={tokOther toks} hints={(hintsOf its).length} tokeq={b2s tokeq} sigeq={b2s sigeq}"

def handleRw : List String → String
  | ["x", h] =>
    match parseHex h with
    | some s => match removeWhitespace s true with
      | some o => toHex o
      | none => "panic"
    | none => "bad-op"
  | ["id", h] =>
    match parseHex h with
    | some s => match removeWhitespace s false with
      | some o => toHex o
      | none => "panic"
    | none => "bad-op"
  | ["ns", c] =>
    match c.toNat? with
    | some c => b2s (needsSpace c)
    | none => "bad-op"
  | ["wf", h] =>
    match parseHex h with
    | some s => wfReport s
    | none => "bad-op"
  | ["same", h1, h2] =>    -- do two byte strings have the same tokens / the same significant items?
    match parseHex h1, parseHex h2 with
    | some a, some b =>
      match lex a, lex b with
      | some ia, some ib =>
        if itemsOK ia && flatten ia == a && itemsOK ib && flatten ib == b then
          s!"tok={b2s (tokensOf ia == tokensOf ib)} sig={b2s (significant ia == significant ib)}"
        else "noparse"
      | _, _ => "noparse"
    | _, _ => "bad-op"
  | ["junction", h1, h2] =>   -- raw JavaScript segment, then the (unstripped) generated segment appended after it
    match parseHex h1, parseHex h2 with
    | some raw, some next =>
      match removeWhitespace next true with
      | some o => s!"safe={b2s (junctionSafe raw o)} rawsafe={b2s (rawEndsOutsideLineComment raw)}"
      | none => "panic"
    | _, _ => "bad-op"
  | ["items", h] =>       -- the model's item-level algorithm, for model-vs-spec smoke runs
    match parseHex h with
    | some s => match lex s with
      | some its => match rwItems 0 its with
        | some o => toHex (flatten o)
        | none => "panic"
      | none => "noparse"
    | none => "bad-op"
  | _ => "bad-op"

structure NmState where
  pkgObjs : List (Nat × Name) := []
  minify : Bool := false
  chain : List Scope := []
  ids : List Nat := []
  next : Nat := 0

def popTo (p : Nat) : List Scope → List Nat → Option (List Scope × List Nat)
  | c :: cs, i :: is => if i == p then some (c :: cs, i :: is) else popTo p cs is
  | _, _ => none

def depthOf (s : Nat) : List Nat → Nat → Option Nat
  | [], _ => none
  | i :: is, d => if i == s then some d else depthOf s is (d + 1)

def joinHex (l : List Name) : String :=
  if l.isEmpty then "-" else ",".intercalate (l.map toHex)

def handleNm (st : NmState) : List String → NmState × String
  | ["new", m] => ({ minify := m == "1", chain := [rootScope], ids := [0], next := 1 }, "ok")
  | ["kw"] =>
    (st, ",".intercalate ((reserved.map nameStr).toArray.qsort (· < ·)).toList)
  | ["enc", h] =>
    match parseHex h with
    | some n => (st, toHex (encodeIdent n))
    | none => (st, "bad-op")
  | ["ptr", s, v, h, pk] =>
    match s.toNat?, v.toNat?, parseHex h with
    | some s, some v, some n =>
      match depthOf s st.ids 0 with
      | none => (st, "bad-scope")
      | some d =>
        match varPtrName st.minify v n (pk == "1") (st.chain.drop d) with
        | none => (st, "panic")
        | some (post, nm) => ({ st with chain := st.chain.take d ++ post }, toHex nm)
    | _, _, _ => (st, "bad-op")
  | ["obj", s, o, h, pk] =>
    match s.toNat?, o.toNat?, parseHex h with
    | some s, some o, some n =>
      match depthOf s st.ids 0 with
      | none => (st, "bad-scope")
      | some d =>
        match objectName st.minify o n (pk == "1") st.pkgObjs (st.chain.drop d) with
        | none => (st, "panic")
        | some (post, tbl, nm) => ({ st with chain := st.chain.take d ++ post, pkgObjs := tbl }, toHex nm)
    | _, _, _ => (st, "bad-op")
  | ["child", p, h] =>
    match p.toNat?, parseHex h with
    | some p, some n =>
      match popTo p st.chain st.ids with
      | none => (st, "bad-scope")
      | some (chain, ids) =>
        match newChild st.minify n chain with
        | none => (st, "panic")
        | some (chain', ref) =>
          ({ st with chain := chain', ids := st.next :: ids, next := st.next + 1 }, s!"{st.next} {toHex ref}")
    | _, _ => (st, "bad-op")
  | ["req", s, h, pk] =>
    match s.toNat?, parseHex h with
    | some s, some n =>
      match depthOf s st.ids 0 with
      | none => (st, "bad-scope")
      | some d =>
        match newVariable st.minify n (pk == "1") (st.chain.drop d) with
        | none => (st, "panic")
        | some (post, v) => ({ st with chain := st.chain.take d ++ post }, toHex v)
    | _, _ => (st, "bad-op")
  | ["cnt", s, h] =>
    match s.toNat?, parseHex h with
    | some s, some n =>
      match depthOf s st.ids 0 with
      | none => (st, "bad-scope")
      | some d => match st.chain[d]? with
        | some sc => (st, toString (sc.vars.cnt n))
        | none => (st, "bad-scope")
    | _, _ => (st, "bad-op")
  | ["locals", s] =>
    match s.toNat? with
    | some s =>
      match depthOf s st.ids 0 with
      | none => (st, "bad-scope")
      | some d => match st.chain[d]? with
        | some sc => (st, joinHex sc.locals)
        | none => (st, "bad-scope")
    | none => (st, "bad-op")
  | _ => (st, "bad-op")

def handle (st : NmState) : List String → NmState × String
  | "rw" :: rest => (st, handleRw rest)
  | ["nm", "gchild", p, h] => handleNm st ["child", p, h]   -- the instance kind does not matter to the repaired allocator
  | "nm" :: rest => handleNm st rest
  | _ => (st, "bad-topic")

end GV.Driver.C16
