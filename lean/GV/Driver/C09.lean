import GV.Basic.Hex
import GV.Model.Types
import GV.Spec.GoTypes
import GV.Proofs.MethodSet
import GV.Model.C09Receiver

/-! Driver for topic `types` (C09): `fam <script>` runs the model, `sfam <script>` the specification,
    `dfam <script>` answers the diagnosis flags of every probe. Script grammar: see harness/js/topics/types.js. -/
namespace GV.Driver.C09
open GV.Hex GV.Types GV.Spec.GoTypes

inductive Mode | model | spec | diag | cover
deriving DecidableEq

structure DS where
  st : St
  recs : List (Ctor × Nat)
  names : List (Nat × String)
  byName : List (String × Nat)

def unhex (h : String) : Option Str := (parseHex h).map (·.map Char.ofNat)
def hex (s : Str) : String := toHex (s.map Char.toNat)

def DS.ref (d : DS) (r : String) : Option Nat := d.byName.lookup r
def DS.nameOf (d : DS) (i : Nat) : String := (d.names.lookup i).getD "?"
def DS.bind (d : DS) (k : Nat) (i : Nat) : DS × String :=
  let h := s!"h{k}"
  let d := { d with byName := (h, i) :: d.byName }
  match d.names.lookup i with
  | some n => (d, n)
  | none => ({ d with names := (i, h) :: d.names }, h)

def bool01 (s : String) : Bool := s == "1"

def parseRefs (d : DS) (s : String) : Option (List Nat) :=
  if s == "-" then some [] else (s.splitOn ",").mapM d.ref

def parseMethods (d : DS) (s : String) : Option (List Method) :=
  if s == "-" then some [] else (s.splitOn ",").mapM fun m =>
    match m.splitOn "/" with
    | [p, n, r] => do some { name := ← unhex n, pkg := ← unhex p, typ := ← d.ref r }
    | _ => none

def parseFields (d : DS) (s : String) : Option (List Field) :=
  if s == "-" then some [] else (s.splitOn ",").mapM fun f =>
    match f.splitOn "/" with
    | [n, e, x, r, t] => do some { name := ← unhex n, embedded := bool01 e, exported := bool01 x, typ := ← d.ref r, tag := ← unhex t }
    | _ => none

def parseCtor (d : DS) : List String → Option Ctor
  | ["A", e, n] => do some (.array (← d.ref e) (← n.toNat?))
  | ["C", e, so, ro] => do some (.chan (← d.ref e) (bool01 so) (bool01 ro))
  | ["F", ps, rs, v] => do some (.func (← parseRefs d ps) (← parseRefs d rs) (bool01 v))
  | ["I", ms] => do some (.iface (← parseMethods d ms))
  | ["M", k, e] => do some (.map (← d.ref k) (← d.ref e))
  | ["P", e] => do some (.ptr (← d.ref e))
  | ["S", e] => do some (.slice (← d.ref e))
  | ["T", p, fs] => do some (.struct (← unhex p) (← parseFields d fs))
  | _ => none

/-! values for `E` -/
def splitTop (s : List Char) : List (List Char) :=
  let rec go (l : List Char) (d : Nat) (cur : List Char) (acc : List (List Char)) : List (List Char) :=
    match l with
    | [] => (cur.reverse :: acc).reverse
    | c :: r =>
      if c = '[' then go r (d + 1) (c :: cur) acc
      else if c = ']' then go r (d - 1) (c :: cur) acc
      else if c = '.' ∧ d = 0 then go r d [] (cur.reverse :: acc)
      else go r d (c :: cur) acc
  if s.isEmpty then [] else go s 0 [] []

partial def parsePayload (d : DS) (p : List Char) : Option Val :=
  match p with
  | 'i' :: r => (String.ofList r).toInt?.map .num
  | 's' :: r => (unhex (String.ofList r)).map .str
  | 'p' :: r =>
    match (String.ofList r).splitOn "_" with
    | [a, b] => do some (.pair (← a.toInt?) (← b.toInt?))
    | _ => none
  | 'r' :: r => (String.ofList r).toNat?.map .ref
  | 'f' :: r => if r = ['N'] then some (.flt none) else (String.ofList r).toInt?.map (fun n => .flt (some n))
  | 'c' :: r =>
    let num (x : String) : Option (Option Int) := if x == "N" then some none else x.toInt?.map some
    match (String.ofList r).splitOn "_" with
    | [a, b] => do some (.cplx (← num a) (← num b))
    | _ => none
  | 'w' :: r => parseVal d ((r.dropWhile (· ≠ '[')).drop 1).dropLast      -- `w<k>[val]`: a boxed value shared under key k
  | 't' :: '[' :: r => ((splitTop r.dropLast).mapM (parsePayload d)).map .tuple
  | 'v' :: '[' :: r => parseVal d r.dropLast
  | _ => none
where
  parseVal (d : DS) (v : List Char) : Option Val :=
    if v = ['n'] then some .ifaceNil else
      let t := v.takeWhile (· ≠ '~')
      let p := (v.dropWhile (· ≠ '~')).drop 1
      do some (.iface (← d.ref (String.ofList t)) (← parsePayload d p))

def ltStr : Str → Str → Bool
  | [], [] => false
  | [], _ => true
  | _, [] => false
  | a :: r, b :: q => a.toNat < b.toNat || (a == b && ltStr r q)

def sortMethods (l : List Method) : List Method :=
  l.mergeSort fun a b => ltStr a.name b.name || (a.name == b.name && !ltStr b.pkg a.pkg)

def showMethods (d : DS) (ms : List Method) : String :=
  if ms.isEmpty then "-" else
    ",".intercalate ((sortMethods ms).map fun m => s!"{hex m.pkg}/{hex m.name}/{d.nameOf m.typ}")

def showDiag (g : Diag) : String :=
  let fl := (if g.amb then ["amb"] else []) ++ (if g.fieldhide then ["fieldhide"] else []) ++
    (if g.ptrshadow then ["ptrshadow"] else []) ++ (if g.pkgname then ["pkgname"] else [])
  if fl.isEmpty then "clean" else "+".intercalate fl

def sstOf (d : DS) : SSt := { st := d.st, recs := d.recs }

/-- a canonicalising constructor call -/
def ctorStep (mode : Mode) (d : DS) (k : Nat) (c : List String) : Option (DS × String) := do
  let ct ← parseCtor d c
  if (mode = .model ∨ mode = .cover) then
    let r := canon d.st ct
    let (d, n) := ({ d with st := r.1 }).bind k r.2
    some (d, "=" ++ n)
  else
    let r := canonS (sstOf d) ct
    let (d, n) := ({ d with st := r.1.st, recs := r.1.recs }).bind k r.2
    some (d, "=" ++ n)

/-- one script operation -/
def step (mode : Mode) (d : DS) (k : Nat) (a : List String) : Option (DS × String) :=
  let ptrOf : Nat → Option Nat := if (mode = .model ∨ mode = .cover) then ptrOfM d.st else ptrOfS (sstOf d)
  match a with
  | ["N", kind, str, named, pkg] => do
    let kind ← kind.toNat?
    let str ← unhex str
    let pkg ← unhex pkg
    if (mode = .model ∨ mode = .cover) then
      let r := newType d.st kind str (bool01 named) pkg
      let (d, n) := ({ d with st := r.1 }).bind k r.2
      some (d, "=" ++ n)
    else
      let r := newTypeS (sstOf d) kind str (bool01 named) pkg
      let (d, n) := ({ d with st := r.1.st, recs := r.1.recs }).bind k r.2
      some (d, "=" ++ n)
  | "i" :: r :: rest => do
    let id ← d.ref r
    let c ← parseCtor d rest
    some ({ d with st := initType d.st id c }, "ok")
  | ["m", r, ms] => do
    let id ← d.ref r
    let ms ← parseMethods d ms
    some ({ d with st := setMethods d.st id ms }, "ok")
  | ["s", r] => do some (d, hex (d.st.get (← d.ref r)).str)
  | ["k", r] => do
    let id ← d.ref r
    let b := if (mode = .model ∨ mode = .cover) then comparableM d.st (d.st.size + 1) id else comparableS d.st (d.st.size + 1) id
    some (d, if b then "1" else "0")
  | ["q", r] => do
    let id ← d.ref r
    match mode with
    | .model => some ({ d with st := methodSetSt d.st id }, showMethods d (methodSet d.st id))
    | .spec => some (d, showMethods d (specMethodSet d.st ptrOf id))
    | .diag => some (d, showDiag (diag d.st ptrOf id))
    | .cover => some ({ d with st := methodSetSt d.st id }, if GV.Props.C09.theoremCovers d.st id then "thm" else "-")
  | [op, v, t] =>
    if op == "a" ∨ op == "x" then do
      let dyn ← if v == "n" then some none else (d.ref v).map some
      let t ← d.ref t
      match mode with
      | .model =>
        let r := assertType d.st dyn t
        some ({ d with st := r.1 }, if op == "a" then (if r.2.1 then "1" else "0")
                                     else if r.2.1 then "ok" else "panic." ++ hex r.2.2)
      | .spec =>
        let ok := assertS d.st ptrOf dyn t
        let missing : Str := match dyn with
          | none => []
          | some v => if (d.st.get t).kind = kInterface then
              (firstMissing (specMethodSet d.st ptrOf v) (d.st.get t).methods).getD [] else []
        some (d, if op == "a" then (if ok then "1" else "0") else if ok then "ok" else "panic." ++ hex missing)
      | .cover =>
        let r := assertType d.st dyn t
        some ({ d with st := r.1 }, match dyn with
          | some v => if GV.Props.C09.theoremCovers d.st v then "thm" else "-"
          | none => "-")
      | .diag =>
        match dyn with
        | some v =>
          some (d, showDiag (diag d.st ptrOf v))
        | none => some (d, "clean")
    else if op == "E" then do
      let x ← parsePayload.parseVal d v.toList
      let y ← if t == "=" then some x else parsePayload.parseVal d t.toList      -- `=`: the very same boxed object
      let r := if (mode = .model ∨ mode = .cover) then ifaceEqual d.st x y else ifaceEqS d.st x y
      some (d, match r with | .tt => "true" | .ff => "false" | .panic => "panic")
    else ctorStep mode d k a
  | c => ctorStep mode d k c

def initDS (mode : Mode) : DS :=
  let base := (List.range 21).map fun i => (i, s!"b{i}")
  { st := if (mode = .model ∨ mode = .cover) then GV.Types.init else initS.st,
    recs := if (mode = .model ∨ mode = .cover) then [] else initS.recs,
    names := base, byName := base.map fun p => (p.2, p.1) }

def runFamily (mode : Mode) (script : String) : String :=
  let ops := script.splitOn ";"
  let rec go (d : DS) (k : Nat) (l : List String) (acc : List String) : List String :=
    match l with
    | [] => acc.reverse
    | o :: r =>
      match step mode d k (o.splitOn ":") with
      | some (d', ans) => go d' (k + 1) r (ans :: acc)
      | none => go d (k + 1) r ("bad-op" :: acc)
  ";".intercalate (go (initDS mode) 0 ops [])

/-- topic `types` -/
def handle : List String → String
  | ["fam", s] => runFamily .model s
  | ["sfam", s] => runFamily .spec s
  | ["dfam", s] => runFamily .diag s
  | ["cfam", s] => runFamily .cover s
  | _ => "bad-op"

/-- topic `recv`: `shape <isPointer> <pointerExpected> <s|a|b>` — what `makeReceiver` wraps around the receiver expression -/
def handleRecv : List String → String
  | ["shape", ip, pe, k] =>
    match (match k with | "s" => some GV.Recv.Kind.struct | "a" => some GV.Recv.Kind.array | "b" => some GV.Recv.Kind.basic | _ => none) with
    | some kind =>
      let sh := GV.Recv.makeReceiver (ip == "1") (pe == "1") kind
      s!"clone={if sh.clone then 1 else 0} wrap={if sh.wrap then 1 else 0}"
    | none => "bad-op"
  | _ => "bad-op"

end GV.Driver.C09
