/-
  GV.Driver.C02 — protocol driver for property C02 (topic `c02`).

  A generated program is a list of MiniGo functions over a concrete store (8 int locals, 4 int globals, an
  output trace) with concrete tables for the opaque actions / conditions / call sites:
     prog := <acts>/<conds>/<calls>/<fns>          (`-` = empty table, entries `;`-separated, fields `.`-separated)
     act  := dst.x.y.k.p        dst = (x + 2*y + k) % 1009 ; p=1: println("a", id, dst) ; p=2: only println("t", id, x)   (variable 12 = constant 0;
                                action id 1000+f = call site f whose callee is NOT blocking, i.e. an ordinary action)
     cond := x.k.m.t.p          b = (x + k) % m < t        ; p=1: println("c", id, b)
     call := kind.callee.arg.dst.k    kind 0: leaf  — yield(site=callee); dst = (arg + k) % 1009
                                      kind 1: fn j  — dst = F_j(arg)   (F_j returns its local v1)
                                      kind 2: pure yield statement `yield(site=callee)` (absent from P)
                                      kind 3: dfn j — r1, r2 = D_j(arg); println("D", id, r1, r2); dst = r1
                                      kind 4: call of a local closure whose body is action `callee` (a call through a
                                              function-typed variable: flattened, never suspends)
     fn   := `,`-separated prefix tokens of the body (see `parseStmt`)
     optional 5th/6th sections: <finfo>/<dops>
     finfo := kind.named.nres per function; kind 1 = a function with deferred calls ("D function"): its results are the
              locals 6 and 7 (assigned by ordinary actions right before `R`; for named results local 6/7 ARE the result
              variables), action 2000+d = `defer <closure d>`, action 4000 = `panic("p")`
     dops  := per deferred closure a `,`-separated op list: 1.v.a.b  v = (v*a + b) % 1009 | 2.site  yield(site)
              | 3.id.v  println("d", id, v) | 4  recover() | 5.id  println("s", id)  (a deferred call whose
              arguments were evaluated at the defer statement)
  ops:
     ref  <prog>            → trace of the reference semantics of P (yield statements erased)
     mach <prog> <bits>     → trace of the flattened machines of P′ under the schedule `enabled[site] = bits[site]`
                              followed by ` #susp=<n>`
     skel <prog>            → per function `|`-separated skeleton of `flatten body` (`c<N>` `j<N>` `r<N>` `x`)
     blk  <intr> <edges> <seed>  → sorted blocking set computed by the propagation loop under a seed-permuted order
     box  <blocking> <items>     → `GV.Escape.boxed` for each `site.captured` item
     guard <depth> <pos>         → `GV.RetDefer.guardAnywhere`: `save` / `throw:null` (head of `$callDeferred`)
-/
import GV.Model.Ctrl
import GV.Model.Flat
import GV.Model.Blocking
import GV.Model.RetDefer
import GV.Model.Escape

namespace GV.Driver.C02
open GV.Ctrl GV.Flat

structure ActD where (dst x y k p : Nat) deriving Inhabited
structure CondD where (x k m t p : Nat) deriving Inhabited
structure CallD where (kind callee arg dst k : Nat) deriving Inhabited

inductive DOp where
  | mod (v a b : Nat)
  | yld (site : Nat)
  | prt (id v : Nat)
  | prc (id : Nat)
  | recov
  deriving Inhabited

structure FInfo where (kind named nres : Nat) deriving Inhabited

structure Prog where
  acts : Array ActD
  conds : Array CondD
  calls : Array CallD
  fns : Array Stmt
  finfo : Array FInfo := #[]
  dops : Array (List DOp) := #[]

/-- concrete store: locals 0..7, globals 8..11, trace (reversed), error flag -/
structure St where
  loc : Array Nat
  glob : Array Nat
  out : List String
  err : Bool := false
  pend : List Nat := []          -- `$deferred` of this frame, top first
  panicking : Bool := false
  deriving Inhabited

def St.get (s : St) (v : Nat) : Nat := if v < 8 then s.loc.getD v 0 else s.glob.getD (v - 8) 0
def St.set (s : St) (v : Nat) (x : Nat) : St :=
  if v < 8 then { s with loc := s.loc.setIfInBounds v x } else { s with glob := s.glob.setIfInBounds (v - 8) x }
def St.print (s : St) (l : String) : St := { s with out := l :: s.out }

/-! #### parsing -/

def nums (s : String) : List Nat := (s.splitOn ".").filterMap String.toNat?

def table (s : String) : List (List Nat) :=
  if s == "-" then [] else (s.splitOn ";").map nums

def optNat (s : String) : Option Nat := if s == "-" then none else s.toNat?

/-- prefix tokens: K skip | A n | C n | S s t | I c t e | L lbl cond post body (post: N | a n | c n)
    | W lbl body | B lbl | T lbl | R | { s -/
def parseStmt : Nat → List String → Option (Stmt × List String)
  | 0, _ => none
  | _ + 1, [] => none
  | fuel + 1, tok :: rest =>
    match tok with
    | "K" => some (.skip, rest)
    | "R" => some (.ret, rest)
    | "A" => match rest with
      | n :: rest => n.toNat?.map fun n => (.act n, rest)
      | _ => none
    | "C" => match rest with
      | n :: rest => n.toNat?.map fun n => (.call n, rest)
      | _ => none
    | "B" => match rest with
      | l :: rest => some (.brk (optNat l), rest)
      | _ => none
    | "T" => match rest with
      | l :: rest => some (.cont (optNat l), rest)
      | _ => none
    | "S" => do
      let (s, r1) ← parseStmt fuel rest
      let (t, r2) ← parseStmt fuel r1
      pure (.seq s t, r2)
    | "{" => do
      let (s, r1) ← parseStmt fuel rest
      pure (.block s, r1)
    | "I" => match rest with
      | c :: rest => do
        let c ← c.toNat?
        let (t, r1) ← parseStmt fuel rest
        let (e, r2) ← parseStmt fuel r1
        pure (.ite c t e, r2)
      | _ => none
    | "W" => match rest with
      | l :: rest => do
        let (b, r1) ← parseStmt fuel rest
        pure (.sw (optNat l) b, r1)
      | _ => none
    | "L" => match rest with
      | l :: c :: p :: rest => do
        let (post, rest) ← (match p, rest with
          | "N", rest => some (Simple.none, rest)
          | "a", n :: rest => n.toNat?.map fun n => (Simple.act n, rest)
          | "c", n :: rest => n.toNat?.map fun n => (Simple.call n, rest)
          | _, _ => none)
        let (b, r1) ← parseStmt fuel rest
        pure (.loop (optNat l) (optNat c) post b, r1)
      | _ => none
    | _ => none

def parseFn (s : String) : Option Stmt :=
  let toks := s.splitOn ","
  match parseStmt (toks.length + 1) toks with
  | some (st, []) => some st
  | _ => none

def parseDOp (s : String) : Option DOp :=
  match nums s with
  | [1, v, a, b] => some (.mod v a b)
  | [2, site] => some (.yld site)
  | [3, id, v] => some (.prt id v)
  | [5, id] => some (.prc id)
  | [4] => some .recov
  | _ => none

def parseProg4 (a c k f : String) : Option Prog := do
    let acts ← (table a).mapM fun | [d, x, y, k, p] => some (ActD.mk d x y k p) | _ => none
    let conds ← (table c).mapM fun | [x, k, m, t, p] => some (CondD.mk x k m t p) | _ => none
    let calls ← (table k).mapM fun | [kd, ce, ar, d, k] => some (CallD.mk kd ce ar d k) | _ => none
    let fns ← (if f == "-" then [] else f.splitOn ";").mapM parseFn
    pure { acts := acts.toArray, conds := conds.toArray, calls := calls.toArray, fns := fns.toArray }

def parseProg (s : String) : Option Prog :=
  match s.splitOn "/" with
  | [a, c, k, f] => parseProg4 a c k f
  | [a, c, k, f, fi, d] => do
    let P ← parseProg4 a c k f
    let finfo ← (table fi).mapM fun | [kd, nm, nr] => some (FInfo.mk kd nm nr) | _ => none
    let dops ← (if d == "-" then [] else d.splitOn ";").mapM fun cl =>
      (if cl == "" then [] else cl.splitOn ",").mapM parseDOp
    pure { P with finfo := finfo.toArray, dops := dops.toArray }
  | _ => none

/-! #### concrete primitives -/

def showB (b : Bool) : String := if b then "true" else "false"

def doAct (P : Prog) (a : Nat) (s : St) : St :=
  let d := P.acts.getD a default
  -- p = 2: a traced argument evaluation `tr(id, x)`: println("t", id, x), nothing assigned
  if d.p == 2 then s.print s!"t {a} {s.get d.x}" else
  let v := (s.get d.x + 2 * s.get d.y + d.k) % 1009
  let s := s.set d.dst v
  if d.p == 1 then s.print s!"a {a} {v}" else s

def doCond (P : Prog) (c : Nat) (s : St) : Bool × St :=
  let d := P.conds.getD c default
  let b := decide ((s.get d.x + d.k) % (if d.m == 0 then 1 else d.m) < d.t)
  (b, if d.p == 1 then s.print s!"c {c} {showB b}" else s)

def isYieldStmt (P : Prog) (f : Nat) : Bool := (P.calls.getD f default).kind == 2

/-- P = P′ with the pure yield statements erased (`GV.Ctrl.eraseCalls`, proved semantics-preserving in
    `GV.Props.C02.erase_correct`) -/
def erase (P : Prog) (s : Stmt) : Stmt := eraseCalls (isYieldStmt P) s

def fuelMax : Nat := 200000

/-- result of running function `j`: (result 1, result 2, globals, trace, number of suspensions), `none` = failure -/
abbrev FnRun := Nat → Nat → Array Nat → List String → Option (Nat × Nat × Array Nat × List String × Nat)

def freshLoc (arg : Nat) : Array Nat := #[arg, 0, 0, 0, 0, 0, 0, 0]

/-- JavaScript `undefined` as a result value (never a legal program value: all values are < 1009) -/
def undefVal : Nat := 1000000

def showVal (v : Nat) : String := if v == undefVal then "undefined" else toString v

/-- effect of call site `f` given how callee functions run (`run`) -/
def doCall (P : Prog) (run : FnRun) (f : Nat) (s : St) : St :=
  let d := P.calls.getD f default
  match d.kind with
  | 0 => s.set d.dst ((s.get d.arg + d.k) % 1009)
  | 1 =>
    match run d.callee (s.get d.arg) s.glob s.out with
    | some (r, _, g, o, _) => ({ s with glob := g, out := o }).set d.dst r
    | none => { s with err := true }
  | 4 => doAct P d.callee s
  | 3 =>
    match run d.callee (s.get d.arg) s.glob s.out with
    | some (r1, r2, g, o, _) => (({ s with glob := g, out := o }).print s!"D {f} {showVal r1} {showVal r2}").set d.dst r1
    | none => { s with err := true }
  | _ => s

/-- number of suspensions of call site `f` started in store `s` under the site table `en` -/
def suspOf (P : Prog) (run : FnRun) (en : Nat → Bool) (f : Nat) (s : St) : Nat :=
  let d := P.calls.getD f default
  match d.kind with
  | 1 | 3 => match run d.callee (s.get d.arg) s.glob s.out with
    | some (_, _, _, _, n) => n
    | none => 0
  | 4 => 0
  | _ => if en d.callee then 1 else 0

/-- primitive actions: ordinary table actions; 1000+f = non-blocking call site f; 2000+d = `defer <closure d>`;
    4000 = `panic("p")` -/
def doActX (P : Prog) (run : FnRun) (a : Nat) (s : St) : St :=
  if a ≥ 4000 then { s with panicking := true }
  else if a ≥ 2000 then { s with pend := (a - 2000) :: s.pend }
  else if a ≥ 1000 then doCall P run (a - 1000) s
  else doAct P a s

def mkEnv (P : Prog) (run : FnRun) : Env St := ⟨doActX P run, doCond P, doCall P run⟩

/-- one deferred closure run to completion (its yields have no effect on the store) -/
def doDOp (s : St) : DOp → St
  | .mod v a b => s.set v ((s.get v * a + b) % 1009)
  | .yld _ => s
  | .prt id v => s.print s!"d {id} {s.get v}"
  | .prc id => s.print s!"s {id}"
  | .recov => { s with panicking := false }

def doDeferred (P : Prog) (d : Nat) (s : St) : St := (P.dops.getD d []).foldl doDOp s

/-- deferred calls and the result expression of a D function, for `GV.RetDefer` -/
def dEnv (P : Prog) : GV.RetDefer.DEnv St (Nat × Nat) := ⟨doDeferred P, fun s => (s.get 6, s.get 7)⟩

/-- suspensions of deferred closure `d`: one per enabled yield op -/
def dSusp (P : Prog) (en : Nat → Bool) (d : Nat) : Nat :=
  ((P.dops.getD d []).filter fun | .yld site => en site | _ => false).length

def finfoOf (P : Prog) (j : Nat) : FInfo := P.finfo.getD j ⟨0, 0, 0⟩

/-- reference run of function `j` (P: yields erased), call depth bounded by `d` -/
def runRef (P : Prog) : Nat → FnRun
  | 0 => fun _ _ _ _ => none
  | d + 1 => fun j arg g o =>
    match P.fns[j]? with
    | none => none
    | some body =>
      match evalF (mkEnv P (runRef P d)) fuelMax (erase P body) { loc := freshLoc arg, glob := g, out := o } with
      | some (_, s) =>
        if s.err then none
        else if (finfoOf P j).kind == 1 then
          -- Go: results are fixed by the return statement (locals 6/7), then the deferred calls run LIFO
          let r := GV.RetDefer.goReturn (dEnv P) ((finfoOf P j).named == 1) s.pend s
          if r.2.panicking then none else some (r.1.1, r.1.2, r.2.glob, r.2.out, 0)
        else some (s.get 1, 0, s.glob, s.out, 0)
      | none => none

/-- machine run of function `j` (P′ flattened) under the schedule `en` -/
def runMach (P : Prog) (en : Nat → Bool) : Nat → FnRun
  | 0 => fun _ _ _ _ => none
  | d + 1 => fun j arg g o =>
    match P.fns[j]? with
    | none => none
    | some body =>
      let sub := runMach P en d
      let E := mkEnv P sub
      let code := flatten body
      match runF E id (fun _ f s => suspOf P sub en f s) code fuelMax code { loc := freshLoc arg, glob := g, out := o } none false 0 0 with
      | some (s, _, ns) =>
        if s.err then none
        else if (finfoOf P j).kind == 1 then
          -- `$24r = e; $s = n; case n: return $24r;` + `$callDeferred` with save / restore on every suspension;
          -- a panicking body takes the `catch` path (`$s = -1; return <zero>`), which loses the value on resumption
          let named := (finfoOf P j).named == 1
          let kind : GV.RetDefer.RetKind (Nat × Nat) :=
            if s.panicking then .panicZero (0, 0) (0, 0) else .cached ((dEnv P).retv s)
          match GV.RetDefer.runRetF (dEnv P) id (fun _ dd _ => dSusp P en dd) kind named
              fuelMax s (s.pend.map .fresh) 0 true 0 with
          | some (v, s', ns') =>
            if s'.panicking then none
            else some (v.1, if (finfoOf P j).nres == 1 then 0 else v.2, s'.glob, s'.out, ns + ns')
          | none => none
        else some (s.get 1, 0, s.glob, s.out, ns)
      | none => none

def initGlob : Array Nat := #[1, 2, 3, 5]

def showRun (r : Option (Nat × Nat × Array Nat × List String × Nat)) (withSusp : Bool) : String :=
  match r with
  | none => "model-failure"
  | some (v, _, g, o, ns) =>
    let tr := ";".intercalate (o.reverse ++ [s!"r {v} {g.getD 0 0} {g.getD 1 0} {g.getD 2 0} {g.getD 3 0}"])
    if withSusp then s!"{tr} #susp={ns}" else tr

def bitsEn (bits : String) : Nat → Bool := fun i => bits.toList.getD i '0' == '1'

def lcg (x : Nat) : Nat := (x * 1103515245 + 12345) % 2147483648

/-- seed-driven permutation: rotate and optionally reverse -/
def permOrd (seed : Nat) : Nat → List (Nat × Nat) → List (Nat × Nat) := fun i p =>
  let r := lcg (seed + 7 * i)
  let q := p.rotateLeft (r % (p.length + 1))
  if (r / 64) % 2 == 0 then q else q.reverse

def insertSorted (x : Nat) : List Nat → List Nat
  | [] => [x]
  | y :: r => if x < y then x :: y :: r else if x == y then y :: r else y :: insertSorted x r

def sortDedup (l : List Nat) : List Nat := l.foldl (fun acc x => insertSorted x acc) []

def natsCsv (s : String) : List Nat := if s == "-" then [] else (s.splitOn ",").filterMap String.toNat?

def edgesCsv (s : String) : List (Nat × Nat) :=
  if s == "-" then [] else (s.splitOn ",").filterMap fun e =>
    match e.splitOn ">" with
    | [a, b] => match a.toNat?, b.toNat? with
      | some a, some b => some (a, b)
      | _, _ => none
    | _ => none

def handle : List String → String
  | ["ref", p] =>
    match parseProg p with
    | some P => showRun (runRef P (P.fns.size + 1) 0 0 initGlob []) false
    | none => "bad-prog"
  | ["mach", p, bits] =>
    match parseProg p with
    | some P => showRun (runMach P (bitsEn bits) (P.fns.size + 1) 0 0 initGlob []) true
    | none => "bad-prog"
  | ["skel", p] =>
    match parseProg p with
    | some P => "|".intercalate (P.fns.toList.map fun b => " ".intercalate (skeleton (flatten b)))
    | none => "bad-prog"
  | ["blk", intr, edges, seed] =>
    let g : GV.Blocking.Graph := ⟨natsCsv intr, edgesCsv edges⟩
    let b := GV.Blocking.blocking (permOrd (seed.toNat?.getD 0)) g
    let l := sortDedup b
    if l.isEmpty then "-" else ",".intercalate (l.map toString)
  | ["box", blocking, items] =>
    -- items: `,`-separated `site.captured` (site 0 param, 1 function level, 2 loop header, 3 loop body) → 0/1 per item
    let bl := blocking == "1"
    let site : Nat → GV.Escape.Site := fun n => match n with | 0 => .param | 1 => .funcLevel | 2 => .loopHeader | _ => .loopBody
    let rs := (if items == "-" then [] else items.splitOn ",").map fun it =>
      match nums it with
      | [st, cap] => if GV.Escape.boxed bl (site st) (cap == 1) then "1" else "0"
      | _ => "?"
    if rs.isEmpty then "-" else ",".intercalate rs
  | ["guard", depth, pos] =>
    -- the guard of `$callDeferred` for an asleep goroutine: deferStack of `depth` lists (ids 0 = bottom … depth-1 = top),
    -- the leaving function's own list at index `pos` or `absent` (id 99)
    let n := depth.toNat?.getD 0
    let stack := (List.range n).reverse
    let own := if pos == "absent" then 99 else pos.toNat?.getD 99
    if GV.RetDefer.guardAnywhere stack own then "save" else "throw:null"
  | _ => "bad-op"

end GV.Driver.C02
