import GV.Basic.Hex
import GV.Model.MapKey
import GV.Model.GoMap
import GV.Spec.MapKey
import GV.Model.MapKeyHash

/-
  Driver for C15. Two stateful topics.

  `mapkey` (tie with the real prelude `keyFor` functions under Node):
     reset                              forget `$idCounter`, `$id`s, registry
     deftype <tid> <strhex> <named> <type> <jsid>   dynamic type `tid` has `typ.id = jsid` in the prelude (learned in a pre-pass);
                                        answer = strhex (the JS side answers the real `typ.string`)
     key  <type> <value>                ->  <key>
     pair <type> <value> <value>        ->  <key1> <key2> <model: keys equal 0/1> <spec: Go == 0/1>
  `gomap` (tie with compiled programs): begin / reg / key / op …  (see `GV.Driver.C15.gomap`)

  Value tokens (comma separated, prefix notation):
     b0 b1 | i<int> | l<hi>:<lo> | fn fz+ fz- fi+ fi- fh<twice> | c,<f>,<f> | s<hex> s- | r<obj> z<obj>
     | n | e<tid>,<value> | a<n>,<value>*n | t<n>,<value>*n
-/
namespace GV.Driver.C15
open GV.Hex GV.MapKey GV.GoMap

def parseFlt (t : String) : Option Flt :=
  if t == "fn" then some .nan
  else if t == "fz+" then some (.zero false)
  else if t == "fz-" then some (.zero true)
  else if t == "fi+" then some (.inf false)
  else if t == "fi-" then some (.inf true)
  else if t.startsWith "fh" then (t.drop 2).toString.toInt?.map Flt.fin
  else none

mutual
partial def parseVal : List String → Option (KVal × List String)
  | [] => none
  | t :: rest =>
    if t == "b0" then some (.bool false, rest)
    else if t == "b1" then some (.bool true, rest)
    else if t == "n" then some (.ifaceNil, rest)
    else if t == "c" then
      match rest with
      | a :: b :: rest' => match parseFlt a, parseFlt b with
        | some x, some y => some (.complex x y, rest')
        | _, _ => none
      | _ => none
    else
      let body := (t.drop 1).toString
      match t.front with
      | 'i' => body.toInt?.map fun n => (.int n, rest)
      | 'l' => match body.splitOn ":" with
        | [h, l] => match h.toInt?, l.toNat? with
          | some h, some l => some (.i64 h l, rest)
          | _, _ => none
        | _ => none
      | 'f' => (parseFlt t).map fun f => (.float f, rest)
      | 's' => (parseHex body).map fun s => (.str s, rest)
      | 'r' => body.toNat?.map fun n => (.ref n, rest)
      | 'z' => body.toNat?.map fun n => (.ref n, rest)
      | 'e' => match body.toNat?, parseVal rest with
        | some tid, some (v, rest') => some (.iface tid v, rest')
        | _, _ => none
      | 'a' => match body.toNat? with
        | some n => (parseVals n rest).map fun (vs, rest') => (.tuple true vs, rest')
        | none => none
      | 't' => match body.toNat? with
        | some n => (parseVals n rest).map fun (vs, rest') => (.tuple false vs, rest')
        | none => none
      | _ => none
partial def parseVals : Nat → List String → Option (KVals × List String)
  | 0, rest => some (.nil, rest)
  | n + 1, rest =>
    match parseVal rest with
    | some (v, rest') => (parseVals n rest').map fun (vs, r) => (.cons v vs, r)
    | none => none
end

def parseValue (s : String) : Option KVal :=
  match parseVal (s.splitOn ",") with
  | some (v, []) => some v
  | _ => none

def showKey : JKey → String
  | .num n => s!"n:{n}"
  | .bool b => if b then "b:true" else "b:false"
  | .str s => "s:" ++ toHex s

def b01 (b : Bool) : String := if b then "1" else "0"

/-- protocol type number ↦ the prelude's `typ.id` -/
abbrev Reg := List (Nat × Nat)
def Reg.fn (r : Reg) (tid : Nat) : Nat := (r.lookup tid).getD (1000000 + tid)

mutual
partial def mapTid (f : Nat → Nat) : KVal → KVal
  | .iface tid v => .iface (f tid) (mapTid f v)
  | .tuple a es => .tuple a (mapTids f es)
  | v => v
partial def mapTids (f : Nat → Nat) : KVals → KVals
  | .nil => .nil
  | .cons h t => .cons (mapTid f h) (mapTids f t)
end

/-! ### topic gomap: state of one compiled-program case -/

structure Case where
  univ : Array KVal := #[]
  ms : MSt := MSt.init

structure DSt where
  reg : Reg := []
  kst : KSt := KSt.init
  cs : Case := {}

def findIdx (univ : Array KVal) (k : KVal) : Int :=
  match univ.findIdx? (fun u => GV.Spec.MapKey.goEq u k) with
  | some j => j
  | none => -1

/-- what `dig(m)` of the generated program prints; performs the same lookups (they call `keyFor`) -/
def digest (c : Case) : String × Case := Id.run do
  let mut ms := c.ms
  let mut look := ""
  for i in [0:c.univ.size] do
    let r := step halfFs ms (.commaOk c.univ[i]!)
    ms := r.1
    match r.2 with
    | .valOk v true => look := look ++ s!"{i}={v};"
    | _ => pure ()
  let len := match ms.m with | some jm => jm.size | none => 0
  let mut cnt := 0
  let mut un := 0
  let mut sum : Int := 0
  let mut ws : Int := 0
  match ms.m with
  | none => pure ()
  | some jm =>
    -- `for k, v := range m` without mutation: every live entry once (GV.Props.C15.range_readonly)
    let l := range halfFs (fun _ u => ([], u)) jm ms.st ()
    for (_, (k, v)) in l.visited do
      let j := findIdx c.univ k
      cnt := cnt + 1
      if j < 0 then un := un + 1
      sum := sum + v
      ws := ws + (j + 2) * v
  let lookS := if look.isEmpty then "-" else look
  return (s!"{len} {lookS} {cnt} {un} {sum} {ws}", { c with ms := ms })

structure RangeBook where
  visits : Array Nat
  dead : Array Bool
  gone : Array Bool
  nanVisits : Nat := 0
  viol : Nat := 0
  stepNo : Nat := 0

/-- what `rng(m, t, del, ins, w)` of the generated program prints -/
def rangeMut (c : Case) (t : Nat) (del ins : List Nat) (w : Int) : String × Case := Id.run do
  let n := c.univ.size
  let mut ms := c.ms
  let mut init : Array Bool := #[]
  let mut rep : Array Int := #[]
  for i in [0:n] do
    let r := step halfFs ms (.commaOk c.univ[i]!)
    ms := r.1
    init := init.push (match r.2 with | .valOk _ true => true | _ => false)
    rep := rep.push (findIdx c.univ c.univ[i]!)
  match ms.m with
  | none => return ("R 0 0 0", { c with ms := ms })
  | some jm =>
    let l0 := range halfFs (fun _ u => ([], u)) jm ms.st ()
    let nanInit := (l0.visited.filter fun (_, (k, _)) => findIdx c.univ k < 0).length
    let univ := c.univ
    let body : Body RangeBook := fun e b =>
      let j := findIdx univ e.1
      let b := if j < 0 then { b with nanVisits := b.nanVisits + 1 }
        else
          let ji := j.toNat
          let b := { b with visits := b.visits.modify ji (· + 1) }
          if b.dead[ji]! then { b with viol := b.viol + 1 } else b
      if b.stepNo == t then
        let b := del.foldl (fun b d =>
          let r := rep[d]!
          if r ≥ 0 then
            let b := { b with gone := b.gone.set! r.toNat true }
            if b.visits[r.toNat]! == 0 then { b with dead := b.dead.set! r.toNat true } else b
          else b) b
        (del.map (fun d => Mut.delete univ[d]!) ++ ins.map (fun i => Mut.store univ[i]! w),
          { b with stepNo := b.stepNo + 1 })
      else ([], { b with stepNo := b.stepNo + 1 })
    let l := range halfFs body jm ms.st
      { visits := Array.replicate n 0, dead := Array.replicate n false, gone := Array.replicate n false }
    let b := l.user
    let mut need := 0
    let mut once := 0
    let mut viol := b.viol
    for i in [0:n] do
      if init[i]! && rep[i]! == (i : Int) && !b.gone[i]! then
        need := need + 1
        if b.visits[i]! == 1 then once := once + 1
    for i in [0:n] do
      if b.visits[i]! > 1 then viol := viol + 1
    let nanIns := (ins.filter fun i => rep[i]! < 0).length
    if b.nanVisits < nanInit || b.nanVisits > nanInit + nanIns then viol := viol + 1
    return (s!"R {need} {once} {viol}", { c with ms := ⟨some l.jm, l.st⟩ })

/-- grid types: i s e sl mp fn | a<n>,<t> | st<n>,(N|B|M),<t>,... -/
partial def parseGrid : List String → Option (GV.Spec.GoComparable.Ty × List String)
  | [] => none
  | t :: rest =>
    if t == "i" then some (.int, rest)
    else if t == "s" then some (.str, rest)
    else if t == "e" then some (.iface, rest)
    else if t == "sl" then some (.slice, rest)
    else if t == "mp" then some (.map, rest)
    else if t == "fn" then some (.func, rest)
    else if t.startsWith "st" then
      match (t.drop 2).toString.toNat? with
      | some n =>
        let rec fields : Nat → List String → Option (GV.Spec.GoComparable.Fields × List String)
          | 0, r => some (.nil, r)
          | k + 1, kd :: r =>
            let kind : Option GV.Spec.GoComparable.FieldKind :=
              if kd == "N" then some .named else if kd == "B" then some .blank else if kd == "M" then some .embedded else none
            match kind, parseGrid r with
            | some kind, some (ft, r') => (fields k r').map fun (fs, r'') => (.cons kind ft fs, r'')
            | _, _ => none
          | _, [] => none
        (fields n rest).map fun (fs, r) => (.struct fs, r)
      | none => none
    else if t.startsWith "a" then
      match (t.drop 1).toString.toNat?, parseGrid rest with
      | some n, some (e, r) => some (.arr n e, r)
      | _, _ => none
    else none

def parseForm (f : String) : Option RangeForm :=
  if f == "kv" then some .keyValue
  else if f == "k" then some .keyOnly
  else if f == "v" then some .valueOnly
  else if f == "bk" || f == "bb" || f == "none" then some .unbound
  else none

/-- what `rngc_<form>(del, ins, w)` of the generated program prints: a range of the given binding form whose body
    deletes `del` and inserts `ins` in its first run and counts its runs -/
def rangeCount (c : Case) (form : RangeForm) (del ins : List Nat) (w : Int) : String × Case := Id.run do
  let n := c.univ.size
  let mut ms := c.ms
  let rep : Array Int := c.univ.map (findIdx c.univ)
  let n0 := match ms.m with | some jm => jm.size | none => 0
  let mut mark : Array Bool := Array.replicate n false
  let mut nd := 0
  for d in del do
    let r := rep[d]!
    if r ≥ 0 && !mark[r.toNat]! then
      mark := mark.set! r.toNat true
      let q := step halfFs ms (.commaOk c.univ[r.toNat]!)
      ms := q.1
      match q.2 with
      | .valOk _ true => nd := nd + 1
      | _ => pure ()
  let mut mark2 : Array Bool := Array.replicate n false
  let mut ni := 0
  for i in ins do
    let r := rep[i]!
    if r < 0 then ni := ni + 1
    else if !mark2[r.toNat]! then
      mark2 := mark2.set! r.toNat true
      let q := step halfFs ms (.commaOk c.univ[r.toNat]!)
      ms := q.1
      match q.2 with
      | .valOk _ true => pure ()
      | _ => ni := ni + 1
  let univ := c.univ
  let body : FBody Nat := fun _ _ cnt =>
    if cnt == 0 then
      (del.map (fun d => Mut.delete univ[d]!) ++ ins.map (fun i => Mut.store univ[i]! w), cnt + 1)
    else ([], cnt + 1)
  let (cnt, ms') := match ms.m with
    | none => (0, ms)
    | some jm =>
      let l := rangeForm halfFs form body jm ms.st 0
      (l.user, (⟨some l.jm, l.st⟩ : MSt))
  let rem := n0 - nd
  let lo := if n0 == 0 then 0 else max rem 1
  let hi := if n0 == 0 then 0 else rem + (if nd ≥ 1 then 1 else 0) + ni
  let ok := if lo ≤ cnt && cnt ≤ hi then "1" else "0"
  let ex := if lo == hi then toString cnt else "-"
  return (s!"C {lo} {hi} {ok} {ex}", { c with ms := ms' })

def parsePairs (s : String) : Option (List (Nat × Int)) :=
  if s == "-" then some [] else
  (s.splitOn ",").mapM fun p => match p.splitOn "=" with
    | [a, b] => match a.toNat?, b.toInt? with
      | some a, some b => some (a, b)
      | _, _ => none
    | _ => none

def gomapOp (c : Case) : List String → String × Case
  | ["set", i, v] =>
    match i.toNat?, v.toInt? with
    | some i, some v =>
      let r := step halfFs c.ms (.store c.univ[i]! v)
      let tag := match r.2 with | .panicNilMap => "PN" | _ => "S"
      let d := digest { c with ms := r.1 }
      (s!"{tag} {d.1}", d.2)
    | _, _ => ("bad-op", c)
  | ["del", i] =>
    match i.toNat? with
    | some i =>
      let r := step halfFs c.ms (.delete c.univ[i]!)
      let d := digest { c with ms := r.1 }
      (s!"X {d.1}", d.2)
    | _ => ("bad-op", c)
  | ["get", i] =>
    match i.toNat? with
    | some i =>
      let r := step halfFs c.ms (.index c.univ[i]!)
      let v := match r.2 with | .val v => v | _ => 0
      let d := digest { c with ms := r.1 }
      (s!"G{v} {d.1}", d.2)
    | _ => ("bad-op", c)
  | ["make"] =>
    let r := step halfFs c.ms .make
    let d := digest { c with ms := r.1 }
    (s!"M {d.1}", d.2)
  | ["nil"] =>
    let r := step halfFs c.ms .setNil
    let d := digest { c with ms := r.1 }
    (s!"N {d.1}", d.2)
  | ["unh"] =>
    let r := step halfFs c.ms .unhashable
    let tag := match r.2 with | .panicUnhashable => "U1" | _ => "U0"
    let d := digest { c with ms := r.1 }
    (s!"{tag} {d.1}", d.2)
  | ["lit", ps] =>
    match parsePairs ps with
    | some ps =>
      let r := step halfFs c.ms (.literal (ps.map fun (i, v) => (c.univ[i]!, v)))
      let d := digest { c with ms := r.1 }
      (s!"L {d.1}", d.2)
    | none => ("bad-op", c)
  | ["rngc", form, del, ins, w] =>
    match parseForm form, parseNatList del, parseNatList ins, w.toInt? with
    | some form, some del, some ins, some w =>
      let r := rangeCount c form del ins w
      let d := digest r.2
      (s!"{r.1} {d.1}", d.2)
    | _, _, _, _ => ("bad-op", c)
  | ["rng", t, del, ins, w] =>
    match t.toNat?, parseNatList del, parseNatList ins, w.toInt? with
    | some t, some del, some ins, some w =>
      let r := rangeMut c t del ins w
      let d := digest r.2
      (s!"{r.1} {d.1}", d.2)
    | _, _, _, _ => ("bad-op", c)
  | _ => ("bad-op", c)

def handle (s : DSt) : List String → DSt × String
  | "mapkey" :: args =>
    match args with
    | ["reset"] => ({ s with reg := [], kst := KSt.init }, "ok")
    | ["deftype", tid, strhex, _, _, jsid] =>
      match tid.toNat?, parseHex strhex, jsid.toNat? with
      | some tid, some str, some jsid => ({ s with reg := (tid, jsid) :: s.reg }, toHex str)
      | _, _, _ => (s, "bad-op")
    | ["hash", ty] =>
      -- `typ.comparable` and the outcome of a map operation keyed (directly / inside a struct key / inside an array key) by
      -- an interface holding a value of this dynamic type
      match parseGrid (ty.splitOn ",") with
      | some (t, []) =>
        let o := match GV.MapKeyHash.ifaceKeyOutcome t with | .key => "key" | .panicUnhashable => "panic"
        (s, s!"{b01 (GV.MapKeyHash.typComparable t)} {o} {o} {o}")
      | _ => (s, "bad-op")
    | ["enum", arity, maxlen, _] =>
      -- all tuples of `arity` strings over {$,\,a} up to length `maxlen`: `GV.Props.C15.join_esc_injective` (+ the `"$"`
      -- prefix of string keys) says distinct tuples get distinct keys, so the model's answer is just the count
      match arity.toNat?, maxlen.toNat? with
      | some ar, some ml => (s, s!"ok {(((3 ^ (ml + 1) - 1) / 2) ^ ar)}")
      | _, _ => (s, "bad-op")
    | ["key", _, v] =>
      match parseValue v with
      | some v => let r := keyFor halfFs (mapTid s.reg.fn v) s.kst; ({ s with kst := r.2 }, showKey r.1)
      | none => (s, "bad-op")
    | ["pair", _, a, b] =>
      match parseValue a, parseValue b with
      | some a, some b =>
        let a := mapTid s.reg.fn a
        let b := mapTid s.reg.fn b
        let r1 := keyFor halfFs a s.kst
        let r2 := keyFor halfFs b r1.2
        ({ s with kst := r2.2 },
          s!"{showKey r1.1} {showKey r2.1} {b01 (r1.1 == r2.1)} {b01 (GV.Spec.MapKey.goEq a b)}")
      | _, _ => (s, "bad-op")
    | _ => (s, "bad-op")
  | "gomap" :: args =>
    match args with
    | ["begin"] => ({ s with reg := [], cs := {} }, "ok")
    | ["reg", _, _] => (s, "ok")      -- type names no longer matter: a dynamic type is its id
    | ["key", v] =>
      match parseValue v with
      | some v => ({ s with cs := { s.cs with univ := s.cs.univ.push v } }, "ok")
      | none => (s, "bad-op")
    | "op" :: rest =>
      let r := gomapOp s.cs rest
      ({ s with cs := r.2 }, r.1)
    | _ => (s, "bad-op")
  | _ => (s, "bad-topic")

end GV.Driver.C15
