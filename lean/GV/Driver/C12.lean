import GV.Model.Augment
import GV.Spec.Augment

/-
  GV.Driver.C12 — line protocol for the overlay-merge model.
  A file pair travels as a blank-separated token stream (see `harness/cmd/gvh_c12/project.go`, which
  prints exactly the same encoding from real `*ast.File`s):

    file  := F <cms doc> <cms comments> <n> decl*n
    decl  := N | f <id> <name> <dirs> <cms doc> <sigid> <recvKey|-> <sigsels> <sigcms> <bsels> <bcms>
               | g <i|c|t|v> <dirs> <cms> <n> spec*n
    spec  := N | t <id> <name> <dirs> <sels> <cms>
               | v <dirs> <tsels> <cms> <n> (<id>:<name>|N)*n <m> (<id>:<a>:<b>:<sels>|N)*m
               | i <id> <name|-> <path> <dirs> <cms>
    lists := "-" or comma separated; cms := "-" or a string over o,l,e,b
-/
namespace GV.Driver.C12
open GV.Augment

abbrev P (α : Type) := List String → Option (α × List String)

def strList (s : String) : List String := if s == "-" then [] else s.splitOn ","
def showList (l : List String) : String := if l.isEmpty then "-" else ",".intercalate l

def cmOf (c : Char) : Option Cm :=
  match c with
  | 'o' => some ⟨false, false⟩
  | 'l' => some ⟨true, false⟩
  | 'e' => some ⟨false, true⟩
  | 'b' => some ⟨true, true⟩
  | _ => none

def cmsOf (s : String) : Option (List Cm) := if s == "-" then some [] else s.toList.mapM cmOf

def showCm (c : Cm) : Char :=
  match c.linkname, c.embed with
  | false, false => 'o'
  | true, false => 'l'
  | false, true => 'e'
  | true, true => 'b'

def showCms (l : List Cm) : String := if l.isEmpty then "-" else String.ofList (l.map showCm)

def optStr (s : String) : String := if s == "-" then "" else s
def showOpt (s : String) : String := if s == "" then "-" else s

def pMany {α : Type} (p : P α) : Nat → P (List α)
  | 0, ts => some ([], ts)
  | n + 1, ts =>
    match p ts with
    | some (a, ts') =>
      match pMany p n ts' with
      | some (l, ts'') => some (a :: l, ts'')
      | none => none
    | none => none

def pName : P (Option Name)
  | "N" :: ts => some (none, ts)
  | t :: ts =>
    match t.splitOn ":" with
    | [i, n] => i.toNat?.map fun i => (some ⟨i, n⟩, ts)
    | _ => none
  | [] => none

def pVal : P (Option Val)
  | "N" :: ts => some (none, ts)
  | t :: ts =>
    match t.splitOn ":" with
    | [i, a, b, s] =>
      match i.toNat?, a.toNat?, b.toNat? with
      | some i, some a, some b => some (some ⟨i, a, b, strList s⟩, ts)
      | _, _, _ => none
    | _ => none
  | [] => none

def pSpec : P (Option Spec)
  | "N" :: ts => some (none, ts)
  | "t" :: id :: name :: dirs :: sels :: cms :: ts =>
    match id.toNat?, cmsOf cms with
    | some id, some cms => some (some (.type id name (strList dirs) (strList sels) cms), ts)
    | _, _ => none
  | "i" :: id :: name :: path :: dirs :: cms :: ts =>
    match id.toNat?, cmsOf cms with
    | some id, some cms =>
      some (some (.imp ⟨id, if name == "-" then none else some name, path, strList dirs, cms⟩), ts)
    | _, _ => none
  | "v" :: dirs :: tsels :: cms :: n :: ts =>
    match cmsOf cms, n.toNat? with
    | some cms, some n =>
      match pMany pName n ts with
      | some (names, m :: ts') =>
        match m.toNat? with
        | some m =>
          match pMany pVal m ts' with
          | some (vals, ts'') => some (some (.value names vals (strList dirs) (strList tsels) cms), ts'')
          | none => none
        | none => none
      | _ => none
    | _, _ => none
  | _ => none

def tokOf : String → Option Tok
  | "i" => some .imp
  | "c" => some .const
  | "t" => some .type
  | "v" => some .var
  | _ => none

def showTok : Tok → String
  | .imp => "i"
  | .const => "c"
  | .type => "t"
  | .var => "v"

def pDecl : P (Option Decl)
  | "N" :: ts => some (none, ts)
  | "f" :: id :: name :: dirs :: doc :: sid :: rk :: ssels :: scms :: bsels :: bcms :: ts =>
    match id.toNat?, sid.toNat?, cmsOf doc, cmsOf scms, cmsOf bcms with
    | some id, some sid, some doc, some scms, some bcms =>
      some (some (.func ⟨id, name, strList dirs, doc, ⟨sid, optStr rk, strList ssels, scms⟩, strList bsels, bcms⟩), ts)
    | _, _, _, _, _ => none
  | "g" :: tok :: dirs :: doc :: n :: ts =>
    match tokOf tok, cmsOf doc, n.toNat? with
    | some tok, some doc, some n =>
      match pMany pSpec n ts with
      | some (specs, ts') => some (some (.gen tok (strList dirs) doc specs), ts')
      | none => none
    | _, _, _ => none
  | _ => none

def pFile : P File
  | "F" :: doc :: cms :: n :: ts =>
    match cmsOf doc, cmsOf cms, n.toNat? with
    | some doc, some cms, some n =>
      match pMany pDecl n ts with
      | some (decls, ts') => some (⟨doc, cms, decls⟩, ts')
      | none => none
    | _, _, _ => none
  | _ => none

/-- `<importPath> <nOverlay> <nOriginal> file*` -/
def pInput : List String → Option (String × List File × List File)
  | ip :: a :: b :: ts =>
    match a.toNat?, b.toNat? with
    | some a, some b =>
      match pMany pFile a ts with
      | some (ovs, ts') =>
        match pMany pFile b ts' with
        | some (origs, []) => some (ip, ovs, origs)
        | _ => none
      | none => none
    | _, _ => none
  | _ => none

/-! printing -/

def showName : Option Name → String
  | none => "N"
  | some n => s!"{n.id}:{n.n}"

def showVal : Option Val → String
  | none => "N"
  | some v => s!"{v.id}:{v.a}:{v.b}:{showList v.sels}"

def showSpec : Option Spec → List String
  | none => ["N"]
  | some (.type id name dirs sels cms) => ["t", toString id, name, showList dirs, showList sels, showCms cms]
  | some (.imp i) => ["i", toString i.id, i.name.getD "-", i.path, showList i.dirs, showCms i.cms]
  | some (.value names vals dirs tsels cms) =>
    ["v", showList dirs, showList tsels, showCms cms, toString names.length] ++ names.map showName ++
      [toString vals.length] ++ vals.map showVal

def showDecl : Option Decl → List String
  | none => ["N"]
  | some (.func f) =>
    ["f", toString f.id, f.name, showList f.dirs, showCms f.doc, toString f.sig.id, showOpt f.sig.recvKey,
     showList f.sig.sels, showCms f.sig.cms, showList f.bsels, showCms f.bcms]
  | some (.gen tok dirs doc specs) =>
    ["g", showTok tok, showList dirs, showCms doc, toString specs.length] ++ specs.flatMap showSpec

def showFile (f : File) : List String :=
  ["F", showCms f.doc, showCms f.comments, toString f.decls.length] ++ f.decls.flatMap showDecl

def insertSorted (p : String × Info) : List (String × Info) → List (String × Info)
  | [] => [p]
  | q :: qs => if p.1 < q.1 then p :: q :: qs else q :: insertSorted p qs

def sortOv (m : Overrides) : Overrides := m.foldl (fun acc p => insertSorted p acc) []

def b01 (b : Bool) : String := if b then "1" else "0"

def showOv (m : Overrides) : List String :=
  ["O", toString m.length] ++ (sortOv m).map fun p =>
    s!"{p.1}:{b01 p.2.keep}:{b01 p.2.purge}:{match p.2.oversig with | some s => toString s.id | none => "-"}"

def showKind : Kind → String
  | .func => "func"
  | .type => "type"
  | .var => "var"
  | .const => "const"

def showEntry (e : Entry) : String :=
  match e.kind with
  | .func => s!"func:{e.name}:{e.id}:{e.aux}"
  | .type => s!"type:{e.name}:{e.id}"
  | .var => s!"var:{e.name}:{e.id}:{match e.init with | some (v, k) => s!"{v}#{k}" | none => "-"}"
  | .const => s!"const:{e.name}:{e.id}"

def showEntries (fs : List (List Entry)) : String :=
  " | ".intercalate (fs.map fun es => if es.isEmpty then "-" else " ".intercalate (es.map showEntry))

def showImport (i : ImportSpec) : String := s!"{i.name.getD "-"}={i.path}"

def showConsts (all : List Entry) : String :=
  let es := all.filter (fun e => e.kind == .const && e.name != "_")
  if es.isEmpty then "-" else
  " ".intercalate (es.map fun e => s!"{e.name}={match e.cval with | some v => toString v | none => "!"}")

/-- topic `aug` -/
def handle : List String → String
  | "merge" :: rest =>
    match pInput rest with
    | some (ip, ovs, origs) =>
      let r := merge ip ovs origs
      " ".intercalate ([toString r.1.length] ++ r.1.flatMap showFile ++ showOv r.2)
    | none => "bad-op"
  | "entries" :: rest =>            -- declared entries of the model's merge result, per file
    match pInput rest with
    | some (ip, ovs, origs) => showEntries ((merge ip ovs origs).1.map fun f => (entries f).filter GV.Spec.Augment.notBlank)
    | none => "bad-op"
  | "spec" :: rest =>               -- the same, computed by the specification (documented rules)
    match pInput rest with
    | some (_, ovs, origs) => showEntries (GV.Spec.Augment.expected ovs origs)
    | none => "bad-op"
  | "imports" :: rest =>            -- surviving imports per file (model)
    match pInput rest with
    | some (ip, ovs, origs) =>
      " | ".intercalate ((merge ip ovs origs).1.map fun f => showList ((importsOf f).map showImport))
    | none => "bad-op"
  | "consts" :: rest =>             -- constant values after the merge (model)
    match pInput rest with
    | some (ip, ovs, origs) => showConsts ((merge ip ovs origs).1.flatMap entries)
    | none => "bad-op"
  | "consts0" :: rest =>            -- constant values of the surviving original names before the merge
    match pInput rest with
    | some (_, ovs, origs) => showConsts (GV.Spec.Augment.expected ovs origs).flatten
    | none => "bad-op"
  | _ => "bad-op"

end GV.Driver.C12
