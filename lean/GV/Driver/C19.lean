import GV.Basic.Hex
import GV.Model.SrcMap
import GV.Spec.SrcMap
import GV.Model.SrcMapPath
import GV.Spec.SrcMapPath

/-!
  Driver for C19 (topic `srcmap`). Byte strings in hex, chunk lists comma-separated (`.` = no chunk).
-/
namespace GV.Driver.C19
open GV.Hex GV.SrcMap

def parseChunks (s : String) : Option (List Bytes) :=
  if s == "." then some [] else (s.splitOn ",").mapM parseHex

/-- `k=v,k=v` -/
def parseDict (s : String) : List (String × String) :=
  if s == "-" then [] else
  (s.splitOn ",").filterMap fun kv =>
    match kv.splitOn "=" with
    | [k, v] => some (k, v)
    | _ => none

def lookup (d : List (String × String)) (k : String) : String :=
  match d.find? (·.1 == k) with
  | some kv => kv.2
  | none => "?" ++ k

def showMaps (d : List (String × String)) (ms : List Mapping) : String :=
  if ms.isEmpty then "-" else
  ";".intercalate (ms.map fun m => s!"{m.line}:{m.column}:{lookup d (toHex m.payload)}")

/-- the harness' loop over chunks: one `write` per chunk, collecting the returned n's -/
def runChunks (st : St) (out : Bytes) (maps : List Mapping) (ns : List Nat) : List Bytes → St × Bytes × List Mapping × List Nat × Option ReadErr
  | [] => (st, out, maps, ns, none)
  | c :: cs =>
    let r := write st c
    match r.err with
    | some e => (r.st, out ++ r.out, maps ++ r.maps, ns, some e)
    | none => runChunks r.st (out ++ r.out) (maps ++ r.maps) (ns ++ [r.n]) cs

def parseJS (s : String) : Option (List JSMapping) :=
  if s == "-" then some [] else
  (s.splitOn ";").mapM fun e =>
    match e.splitOn ":" with
    | l :: c :: rest =>
      match l.toNat?, c.toNat? with
      | some l, some c => some ⟨l, c, ":".intercalate rest⟩
      | _, _ => none
    | _ => none

def showJS (ms : List JSMapping) : String :=
  if ms.isEmpty then "-" else ";".intercalate (ms.map fun m => s!"{m.genLine}:{m.genColumn}:{m.orig}")

partial def parseOps : List String → List Op × List String
  | [] => ([], [])
  | ")" :: tl => ([], tl)
  | t :: tl =>
    let body (k : List Op → Op) : List Op × List String :=
      let (b, rest) := parseOps tl
      let (more, rest2) := parseOps rest
      (k b :: more, rest2)
    if t == "I(" then body Op.indented
    else if t == "D(" then body Op.delayed
    else if t.startsWith "C" then body (Op.catch ((t.drop 1).dropEnd 1).toString.toNat!)
    else
      let arg := (t.drop 1).toString
      let op : Op :=
        if t.startsWith "S" then Op.setPos arg.toNat!
        else if t.startsWith "W" then Op.write ((parseHex arg).getD [])
        else if t.startsWith "F" then Op.printf ((parseHex arg).getD [])
        else Op.use arg.toNat!
      let (more, rest) := parseOps tl
      (op :: more, rest)

def handle : List String → String
  | ["find", h] =>
    match parseHex h with
    | some b => match findHint b with | some i => toString i | none => "-1"
    | none => "bad-op"
  | ["read", h] =>
    match parseHex h with
    | some b =>
      match readHint b with
      | .ok (pl, n) => s!"{toHex pl} {n}"
      | .error e => e.toString
    | none => "bad-op"
  | ["writeto", h] =>
    match parseHex h with
    | some b => match writeTo b with | some e => toHex e | none => "panic:too-long"
    | none => "bad-op"
  | ["writelen", n, fill] =>
    match n.toNat?, fill.toNat? with
    | some n, some fill =>
      let pl := List.replicate n fill
      match writeTo pl with
      | none => "panic:too-long"
      | some e =>
        match readHint (e ++ [0x41]) with
        | .ok (p2, l2) => s!"{toHex (e.take 3)} {e.length} {l2} {decide (p2 = pl)}"
        | .error er => er.toString
    | _, _ => "bad-op"
  | "filter" :: mode :: cs :: rest =>
    match parseChunks cs with
    | some chunks =>
      let d := parseDict (rest.headD "-")
      let (_, out, maps, ns, err) := runChunks init [] [] [] chunks
      match err with
      | some e => s!"{e.toString} {toHex out}"
      | none => s!"{toHex out} {natList ns} {if mode == "rec" then showMaps d maps else "-"}"
    | none => "bad-op"
  | ["js", pre, _js, _path, _min, iso] =>
    match parseChunks pre, parseJS iso with
    | some chunks, some ms =>
      let r := writeAll init chunks
      showJS (ms.map (offsetJS r.st))
    | _, _ => "bad-op"
  | ["jsspec", pre, _js, _path, _min, iso] =>
    match parseChunks pre, parseJS iso with
    | some chunks, some ms =>
      let r := writeAll init chunks
      showJS (ms.map fun m =>
        let p := GV.Spec.SrcMap.placeAt (GV.Spec.SrcMap.posOf r.out) (m.genLine, m.genColumn)
        { m with genLine := p.1, genColumn := p.2 })
    | _, _ => "bad-op"
  | ["fsseq", segs, dict] =>
    let d := parseDict dict
    let decode : Bytes → Nat := fun pl => (lookup d (toHex pl)).toNat?.getD 0
    let parseFs (x : String) : FileSetSpec :=
      (x.splitOn "/").filterMap fun f =>
        match f.splitOn ":" with
        | [n, sz, stp] => some ⟨n, sz.toNat?.getD 0, stp.toNat?.getD 1⟩
        | _ => none
    let segl : List (FileSetSpec × List Bytes) := (segs.splitOn ";").filterMap fun sg =>
      match sg.splitOn "@" with
      | [fs, cs] => (parseChunks cs).map fun c => (parseFs fs, c)
      | _ => none
    let r := writeSeq decode init segl
    let showO (o : Orig) : String := match o with
      | some (f, l, c) => s!"{f}:{l}:{c}"
      | none => "-:0:0"
    let ms := if r.2.isEmpty then "-" else ";".intercalate (r.2.map fun m => s!"{m.line}:{m.column}:{showO m.orig}")
    s!"{toHex r.1} {ms}"
  | "ctx" :: dict :: toks =>
    let d := parseDict dict
    let pack : Nat → Bytes := fun p => (parseHex (lookup d (toString p))).getD [0xEE]
    let (ops, _) := parseOps toks
    let (c, caps) := Ctx.run pack Ctx.empty [] ops
    let pend := if c.posAvail then s!"1:{c.pos}" else "0"
    let cs := if caps.isEmpty then "-" else ",".intercalate (caps.map toHex)
    s!"{toHex c.output} {pend} {cs}"
  | [op, gr, gp, fl, lm] =>
    match parseHex gr, parseHex gp, parseHex fl with
    | some goroot, some gopath, some file =>
      let strip (n : Bytes) : Bytes := n.dropWhile (· = 47)
      let show_ (raw : Bool) (n : Bytes) : String :=
        if n.isEmpty || (!raw && (strip n).isEmpty) then "nosource" else s!"name {toHex (if raw then n else strip n)}"
      if op == "normraw" || op == "norm" then
        show_ (op == "normraw") (GV.SrcMapPath.normalizePath (lm == "1") goroot gopath file)
      else if op == "normold" then       -- the scheme before the repair c63a0c1 (regression witnesses)
        match GV.SrcMapPath.normalizePathOld (lm == "1") goroot gopath file with
        | some n => show_ false n
        | none => "panic:slice-bounds"
      else if op == "normspec" then
        if lm == "1" then show_ false file
        else
          let roots := (GV.SrcMapPath.splitList gopath ++ [goroot]).map GV.PathClean.clean
          show_ false (GV.Spec.SrcMapPath.name roots file)
      else "bad-op"
    | _, _, _ => "bad-op"
  | _ => "bad-op"

end GV.Driver.C19
