import GV.Basic.Hex
import GV.Model.Utf8
import GV.Spec.Utf8
import GV.Model.StrLit

namespace GV.Driver.C14
open GV.Hex GV.Utf8

def pairs (l : List (Nat × Nat)) : String :=
  if l.isEmpty then "-" else ",".intercalate (l.map fun p => s!"{p.1}:{p.2}")

/-- topic `utf8` -/
def handle : List String → String
  | ["decode", h, p] =>
    match parseHex h, p.toNat? with
    | some s, some pos => let d := decodeRune s pos; s!"{d.1} {d.2}"
    | _, _ => "bad-op"
  | ["sdecode", h, p] =>           -- the specification, for model-vs-spec smoke runs
    match parseHex h, p.toNat? with
    | some s, some pos => let d := GV.Spec.Utf8.decode s pos; s!"{d.1} {d.2}"
    | _, _ => "bad-op"
  | ["encode", r] =>
    match r.toInt? with
    | some r => toHex (encodeRune r)
    | none => "bad-op"
  | ["runes", h] =>
    match parseHex h with
    | some s => natList (stringToRunes s)
    | none => "bad-op"
  | ["range", h] =>
    match parseHex h with
    | some s => pairs (rangeString s)
    | none => "bad-op"
  | ["fromrunes", l] =>
    match parseIntList l with
    | some rs => toHex (runesToString rs)
    | none => "bad-op"
  | ["substring", h, lo, hi] =>
    match parseHex h, lo.toInt?, hi.toInt? with
    | some s, some lo, some hi =>
      match substring s lo hi with
      | some r => toHex r
      | none => "panic:slice-bounds"
    | _, _, _ => "bad-op"
  | ["substringopen", h, lo] =>
    match parseHex h, lo.toInt? with
    | some s, some lo =>
      match substringOpen s lo with
      | some r => toHex r
      | none => "panic:slice-bounds"
    | _, _ => "bad-op"
  | ["copy", n, h] =>
    match n.toNat?, parseHex h with
    | some n, some s => let r := copyString n s; s!"{r.1} {toHex r.2}"
    | _, _ => "bad-op"
  | ["bytes2str", h, off, len] =>
    match parseHex h, off.toNat?, len.toNat? with
    | some a, some o, some l => toHex (bytesToString a o l)
    | _, _, _ => "bad-op"
  | ["sbytes2str", h, off, len] =>       -- specification: the bytes of the slice window
    match parseHex h, off.toNat?, len.toNat? with
    | some a, some o, some l => toHex ((a.drop o).take l)
    | _, _, _ => "bad-op"
  | ["str2bytes", h] =>
    match parseHex h with
    | some s => toHex (stringToBytes s)
    | none => "bad-op"
  | ["index", h, i] =>
    match parseHex h, i.toInt? with
    | some s, some i => match indexString s i with
      | some b => toString b
      | none => "panic:index"
    | _, _ => "bad-op"
  | ["conv", k, v] =>             -- string(x), x of integer kind k holding v
    match IntKind.parse k, v.toInt? with
    | some k, some v => if k.holds v then toHex (intToString k v) else "bad-op"
    | _, _ => "bad-op"
  | ["sconv", _, v] =>            -- specification: the encoding of the VALUE, whatever its kind
    match v.toInt? with
    | some v => toHex (GV.Spec.Utf8.encode v)
    | none => "bad-op"
  | ["convshape", k] =>
    match IntKind.parse k with
    | some k => convShape k
    | none => "bad-op"
  | ["encstr", h] =>              -- the literal text emitted for a Go string
    match parseHex h with
    | some s => toHex (GV.StrLit.encodeString s)
    | none => "bad-op"
  | ["jslit", h] =>               -- ECMAScript string value of a literal text
    match parseHex h with
    | some l => match GV.StrLit.jsStringValue l with
      | some v => toHex v
      | none => "reject"
    | none => "bad-op"
  | _ => "bad-op"

end GV.Driver.C14
