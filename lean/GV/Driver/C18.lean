import GV.Model.BuildTags

namespace GV.Driver.C18
open GV.BuildTags

def parseTag (s : String) : Option Tag :=
  if s.startsWith "t:" then some (.named (s.drop 2).toString)
  else if s.startsWith "r:" then (s.drop 2).toString.toNat?.map Tag.rel
  else none

def parseTags (s : String) : Option (List Tag) :=
  if s == "-" then some [] else (s.splitOn ",").mapM parseTag

/-- comma-separated RPN: `t:x`, `r:n`, `!`, `&`, `|` -/
def parseExpr (s : String) : Option Expr :=
  let rec go : List String → List Expr → Option Expr
    | [], [e] => some e
    | [], _ => none
    | "!" :: tl, e :: st => go tl (.not e :: st)
    | "&" :: tl, b :: a :: st => go tl (.and a b :: st)
    | "|" :: tl, b :: a :: st => go tl (.or a b :: st)
    | tok :: tl, st => match parseTag tok with
      | some t => go tl (.tag t :: st)
      | none => none
  go (s.splitOn ",") []

def parseParts (s : String) : Option (List String) :=
  if s == "none" then none else some ((s.splitOn ",").map fun p => if p == "~" then "" else p)

def b01 (s : String) : Bool := s == "1"

/-- topic `bt` -/
def handle : List String → String
  | ["sel", kind, tags, _name, hidden, isGo, isInc, isTest, parts, importsC, gob, plus] =>
    match parseTags tags with
    | none => "bad-op"
    | some u =>
      let ctx := if kind == "std" then stdCtx documented u else userCtx documented u
      let gb : Option (Option Expr) := if gob == "-" then some none else (parseExpr gob).map some
      let pl : Option (List Expr) := if plus == "-" then some [] else (plus.splitOn ";").mapM parseExpr
      match gb, pl with
      | some gb, some pl =>
        let f : SrcFile := { hidden := b01 hidden, isGo := b01 isGo, isIncJS := b01 isInc, isTest := b01 isTest,
                             parts := parseParts parts, goBuild := gb, plusBuild := pl, importsC := b01 importsC }
        s!"go={if selectedGo ctx f then 1 else 0} js={if selectedIncJS f then 1 else 0}"
      | _, _ => "bad-op"
  | ["match", kind, tags, tag] =>
    match parseTags tags, parseTag tag with
    | some u, some t =>
      let ctx := if kind == "std" then stdCtx documented u else userCtx documented u
      if matchTag ctx t then "1" else "0"
    | _, _ => "bad-op"
  | ["ctxtags", tags] =>          -- the context `goCtx` builds for a user tag list (text form of the tags)
    match parseTags tags with
    | some u =>
      let c := userCtx documented u
      let render : Tag → String := fun t => match t with | .named s => s | .rel n => s!"go1.{n}"
      let bt := c.buildTags.map render
      s!"{if bt.isEmpty then "-" else ",".intercalate bt} rel={c.releaseTags.length} cgo={c.cgoEnabled} {c.goos}/{c.goarch}/{c.compiler}"
    | none => "bad-op"
  | _ => "bad-op"

end GV.Driver.C18
