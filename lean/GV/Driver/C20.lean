import GV.Basic.Hex
import GV.Model.PathClean
import GV.Model.Cache

namespace GV.Driver.C20
open GV.Hex GV.PathClean GV.Cache

/-- the driver's instance of the abstract environment: the file name IS the key (an injective
    "hash"; the check applies SHA-256 to it before comparing with the real file name), the envelope
    is a sign/magnitude header followed by the payload. -/
def env : Env Bytes where
  h := id
  sealE := fun (t, pl) => (if t < 0 then 1 else 0) :: t.natAbs :: pl
  openE := fun
    | s :: a :: pl => some (if s = 1 then -(a : Int) else (a : Int), pl)
    | _ => none

def parseTags (s : String) : Option (Option (List Str)) :=
  if s == "nil" then some none
  else if s == "e" then some (some [])
  else ((s.splitOn ",").mapM parseHex).map some

def parseCfg : List String → Option Cfg
  | [a, b, c, d, t, v] =>
    match parseHex a, parseHex b, parseHex c, parseHex d, parseTags t, parseHex v with
    | some a, some b, some c, some d, some t, some v => some ⟨a, b, c, d, t, v⟩
    | _, _, _, _, _, _ => none
  | _ => none

/-- topic `cache` -/
def handle (fs : FS) : List String → FS × String
  | ["reset"] => (FS.empty, "ok")
  | ["clean", h] =>
    match parseHex h with
    | some s => (fs, toHex (clean s) ++ " " ++ toHex (cleanBytes s))
    | none => (fs, "bad-op")
  | ["quote", h] =>
    match parseHex h with
    | some s => (fs, toHex (quote s))
    | none => (fs, "bad-op")
  | ["key", a, b, c, d, t, v, p] =>
    match parseCfg [a, b, c, d, t, v], parseHex p with
    | some cfg, some p => (fs, toHex (packageKey cfg p))
    | _, _ => (fs, "bad-op")
  | ["store", a, b, c, d, t, v, tested, p, tm, pl] =>
    match parseCfg [a, b, c, d, t, v], parseHex tested, parseHex p, tm.toInt?, parseHex pl with
    | some cfg, some tested, some p, some tm, some pl =>
      let bc : BuildCache := ⟨cfg, tested⟩
      if isTestPackage bc p then (fs, "skipped")
      else (store env bc p tm pl fs, "stored " ++ toHex (cachedPath env cfg p))
    | _, _, _, _, _ => (fs, "bad-op")
  | ["load", a, b, c, d, t, v, tested, p, tm] =>
    match parseCfg [a, b, c, d, t, v], parseHex tested, parseHex p, tm.toInt? with
    | some cfg, some tested, some p, some tm =>
      match load env ⟨cfg, tested⟩ p tm fs with
      | some pl => (fs, "hit " ++ toHex pl)
      | none => (fs, "miss")
    | _, _, _, _ => (fs, "bad-op")
  | _ => (fs, "bad-op")

end GV.Driver.C20
