import GV.Basic.Hex
import GV.Model.PathClean
import GV.Model.Cache

namespace GV.Driver.C20
open GV.Hex GV.PathClean GV.Cache

/-- the driver's instance of the abstract environment: the file name IS the key (an injective
    "hash"; the check applies SHA-256 to it before comparing with the real file name), the envelope
    is a sign/magnitude header followed by the payload; `np` = the runes ≥ 0x80 for which Go's
    `unicode.IsPrint` is false (a parameter of the theorems; supplied by the check from Go's tables). -/
def env (np : List Nat) : Env Bytes where
  isPrint := fun r => !np.contains r
  h := id
  sealE := fun (t, pl) => (if t < 0 then 1 else 0) :: t.natAbs :: pl
  openE := fun
    | s :: a :: pl => some (if s = 1 then -(a : Int) else (a : Int), pl)
    | _ => none

def parseTags (s : String) : Option (Option (List Str)) :=
  if s == "nil" then some none
  else if s == "e" then some (some [])
  else ((s.splitOn ",").mapM parseHex).map some

def parseCfg : List String → Option Cfg
  | [a, b, c, d, t, v] =>
    match parseHex a, parseHex b, parseHex c, parseHex d, parseTags t, parseHex v with
    | some a, some b, some c, some d, some t, some v => some ⟨a, b, c, d, t, v⟩
    | _, _, _, _, _, _ => none
  | _ => none

structure St where
  fs : FS
  np : List Nat

def St.init : St := ⟨FS.empty, []⟩

/-- topic `cache` -/
def handle (st : St) : List String → St × String
  | ["reset"] => ({ st with fs := FS.empty }, "ok")
  | ["nonprint", l] =>
    match parseNatList l with
    | some np => ({ st with np := np }, "ok")
    | none => (st, "bad-op")
  | ["clean", h] =>
    match parseHex h with
    | some s => (st, toHex (clean s) ++ " " ++ toHex (cleanBytes s))
    | none => (st, "bad-op")
  | ["quote", h] =>
    match parseHex h with
    | some s => (st, toHex (quote (env st.np).isPrint s))
    | none => (st, "bad-op")
  | ["key", a, b, c, d, t, v, p] =>
    match parseCfg [a, b, c, d, t, v], parseHex p with
    | some cfg, some p => (st, toHex (packageKey (env st.np).isPrint cfg p))
    | _, _ => (st, "bad-op")
  | ["store", a, b, c, d, t, v, tested, p, tm, pl] =>
    match parseCfg [a, b, c, d, t, v], parseHex tested, parseHex p, tm.toInt?, parseHex pl with
    | some cfg, some tested, some p, some tm, some pl =>
      let bc : BuildCache := ⟨cfg, tested⟩
      if isTestPackage bc p then (st, "skipped")
      else ({ st with fs := store (env st.np) bc p tm pl st.fs }, "stored " ++ toHex (cachedPath (env st.np) cfg p))
    | _, _, _, _, _ => (st, "bad-op")
  | ["load", a, b, c, d, t, v, tested, p, tm] =>
    match parseCfg [a, b, c, d, t, v], parseHex tested, parseHex p, tm.toInt? with
    | some cfg, some tested, some p, some tm =>
      match load (env st.np) ⟨cfg, tested⟩ p tm st.fs with
      | some pl => (st, "hit " ++ toHex pl)
      | none => (st, "miss")
    | _, _, _, _ => (st, "bad-op")
  | _ => (st, "bad-op")

end GV.Driver.C20
