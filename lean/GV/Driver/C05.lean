import GV.Model.Dce
import GV.Spec.Dce

namespace GV.Driver.C05
open GV.Dce

def parseName (s : String) : Name := if s == "-" then "" else s

/-- `<alive 0/1><link 0/1>:<obj>:<meth>:<dep>,<dep>…` (names interned by the harness, "-" = empty) -/
def parseDecl (id : Nat) (tok : String) : Option Decl :=
  match tok.splitOn ":" with
  | [flags, obj, meth, deps] =>
    match flags.toList with
    | [a, l] =>
      if (a == '0' || a == '1') && (l == '0' || l == '1') then
        some { id := id, alive := a == '1', link := l == '1', obj := parseName obj, meth := parseName meth,
               deps := if deps == "-" then [] else deps.splitOn "," }
      else none
    | _ => none
  | _ => none

def parseDecls : Nat → List String → Option (List Decl)
  | _, [] => some []
  | n, t :: ts =>
    match parseDecl n t, parseDecls (n + 1) ts with
    | some d, some ds => some (d :: ds)
    | _, _ => none

def parsePick : String → Option Pick
  | "lifo" => some lifo
  | "fifo" => some fifo
  | "mid" => some fun p => p.length / 2
  | "alt" => some fun p => if p.length % 2 == 0 then 0 else p.length - 1
  | _ => none

def rotate (k : Nat) (l : List Decl) : List Decl :=
  let k := if l.length == 0 then 0 else k % l.length
  l.drop k ++ l.take k

/-- interleave: even positions first, then odd positions reversed -/
def weave (l : List Decl) : List Decl :=
  let ev := l.filter (fun d => d.id % 2 == 0)
  let od := l.filter (fun d => d.id % 2 == 1)
  ev ++ od.reverse

def parseOrder (o : String) (l : List Decl) : Option (List Decl) :=
  if o == "fwd" then some l
  else if o == "rev" then some l.reverse
  else if o == "weave" then some (weave l)
  else match o.splitOn "=" with
    | ["rot", k] => k.toNat?.map fun k => rotate k l
    | _ => none

def render (n : Nat) (sel : List Decl) : String :=
  let ids := (List.range n).filter fun i => sel.any fun d => d.id == i
  if ids.isEmpty then "-" else ",".intercalate (ids.map toString)

/-- topic `dce` -/
def handle : List String → String
  | "select" :: order :: pick :: toks =>
    match parseDecls 0 toks, parsePick pick with
    | some ds, some pk =>
      match parseOrder order ds with
      | some ods => render ds.length (select pk ods)
      | none => "bad-op"
    | _, _ => "bad-op"
  | "lfp" :: toks =>
    match parseDecls 0 toks with
    | some ds => render ds.length (GV.Spec.Dce.lfpExec ds)
    | none => "bad-op"
  | _ => "bad-op"

end GV.Driver.C05
