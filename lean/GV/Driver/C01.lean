/-
  GV.Driver.C01 — protocol driver for property C01.

  topic `c01`: a generated program is a list of MiniGo functions (`GV.Ctrl.Stmt`) over a concrete store
  (8 int locals, 4 int globals, 16 cells = arr[4] · mp[4] · sv.x[4] · sl[4], a list of closures, an output trace)
  with concrete tables for the opaque actions / conditions / call sites:
     prog := <acts>/<conds>/<calls>/<fns>     (`-` = empty table, entries `;`-separated, fields `.`-separated)
     act  := kind.a.b.c.d.e       (see `doAct`; values are Go `int`s kept far below 2^31)
     cond := x.k.m.t.p            b = (x + k) % m < t (Go `%`) ; p=1: println("c", id, b)
     call := callee.arg.dst       dst = F_callee(arg)   (F_j returns its local v1)
     fn   := `,`-separated prefix tokens of the body (`parseStmt`, same grammar as the C02 driver)
  variables: 0..7 locals · 8..11 globals · 12 constant 0 · 13..28 cells (read only in expressions)
  ops:
     ref  <prog>   → trace of the reference semantics (`GV.Ctrl.evalF`)
     js   <prog>   → trace of the MiniJS semantics of `direct body` (`GV.Direct.evalJF`)
     skel <prog>   → per function `|`-separated skeleton of `direct body`
     ds   <lv> <wi> <wb> <op>  → desugaring of `lv op= rhs` (lvalue form, index-operand wrapper, base-operand wrapper):
                     temp names, and whether every opaque operand is hoisted exactly once (`GV.Desugar`)
  topic `nm`: the name allocator protocol of the C16 driver (model `GV.Names`), reused; `nm new` additionally seeds the
     root context with `GV.NamesPlain.reservedGlobals`.
-/
import GV.Model.Ctrl
import GV.Model.Direct
import GV.Model.Desugar
import GV.Driver.C16
import GV.Model.NamesPlain

namespace GV.Driver.C01
open GV.Ctrl GV.Direct

structure Prog where
  acts : Array (List Nat)
  conds : Array (List Nat)
  calls : Array (List Nat)
  fns : Array Stmt

structure St where
  loc : Array Int
  glob : Array Int
  cells : Array Int
  /-- heap of loop-header variables and body-declared captured variables: Go 1.20 semantics — the variables a `for` /
      `range` header declares are created once per EXECUTION of the statement (shared by its iterations, fresh when an
      enclosing loop runs the statement again); a variable declared in a loop body is fresh in every iteration -/
  hp : Array Int := #[]
  /-- per frame: heap index of header variable K (slots 0..2), V (3..5) and the hidden range index (6..8) by loop depth -/
  hdr : Array Nat := #[0, 0, 0, 0, 0, 0, 0, 0, 0]
  /-- closures `func() int { v += step; return v }`: (heap index of the captured variable, step) -/
  fs : List (Nat × Int)
  /-- pointers `&v` -/
  ps : List Nat := []
  out : List String
  err : Bool := false
  deriving Inhabited

/-- variables 4..6 are the header variables K of the loops at depth 0..2, 29..31 their range values V, 32..34 the hidden
    range indices: they live in the heap -/
def hdrSlot (v : Nat) : Option Nat :=
  if 4 ≤ v && v ≤ 6 then some (v - 4) else if 29 ≤ v && v ≤ 31 then some (3 + v - 29) else if 32 ≤ v && v ≤ 34 then some (6 + v - 32)
  else none

def St.get (s : St) (v : Nat) : Int :=
  match hdrSlot v with
  | some k => s.hp.getD (s.hdr.getD k 0) 0
  | none =>
    if v < 8 then s.loc.getD v 0 else if v < 12 then s.glob.getD (v - 8) 0 else if v == 12 then 0 else s.cells.getD (v - 13) 0

def St.set (s : St) (v : Nat) (x : Int) : St :=
  match hdrSlot v with
  | some k => { s with hp := s.hp.setIfInBounds (s.hdr.getD k 0) x }
  | none =>
  if v < 8 then { s with loc := s.loc.setIfInBounds v x }
  else if v < 12 then { s with glob := s.glob.setIfInBounds (v - 8) x }
  else if v == 12 then s else { s with cells := s.cells.setIfInBounds (v - 13) x }

def St.print (s : St) (l : String) : St := { s with out := l :: s.out }

/-! #### parsing (grammar shared with the C02 driver) -/

def nums (s : String) : List Nat := (s.splitOn ".").filterMap String.toNat?

def table (s : String) : List (List Nat) :=
  if s == "-" then [] else (s.splitOn ";").map nums

def optNat (s : String) : Option Nat := if s == "-" then none else s.toNat?

def parseStmt : Nat → List String → Option (Stmt × List String)
  | 0, _ => none
  | _ + 1, [] => none
  | fuel + 1, tok :: rest =>
    match tok with
    | "K" => some (.skip, rest)
    | "R" => some (.ret, rest)
    | "A" => match rest with
      | n :: rest => n.toNat?.map fun n => (.act n, rest)
      | _ => none
    | "C" => match rest with
      | n :: rest => n.toNat?.map fun n => (.call n, rest)
      | _ => none
    | "B" => match rest with
      | l :: rest => some (.brk (optNat l), rest)
      | _ => none
    | "T" => match rest with
      | l :: rest => some (.cont (optNat l), rest)
      | _ => none
    | "S" => do
      let (s, r1) ← parseStmt fuel rest
      let (t, r2) ← parseStmt fuel r1
      pure (.seq s t, r2)
    | "{" => do
      let (s, r1) ← parseStmt fuel rest
      pure (.block s, r1)
    | "I" => match rest with
      | c :: rest => do
        let c ← c.toNat?
        let (t, r1) ← parseStmt fuel rest
        let (e, r2) ← parseStmt fuel r1
        pure (.ite c t e, r2)
      | _ => none
    | "W" => match rest with
      | l :: rest => do
        let (b, r1) ← parseStmt fuel rest
        pure (.sw (optNat l) b, r1)
      | _ => none
    | "L" => match rest with
      | l :: c :: p :: rest => do
        let (post, rest) ← (match p, rest with
          | "N", rest => some (Simple.none, rest)
          | "a", n :: rest => n.toNat?.map fun n => (Simple.act n, rest)
          | "c", n :: rest => n.toNat?.map fun n => (Simple.call n, rest)
          | _, _ => none)
        let (b, r1) ← parseStmt fuel rest
        pure (.loop (optNat l) (optNat c) post b, r1)
      | _ => none
    | _ => none

def parseFn (s : String) : Option Stmt :=
  let toks := s.splitOn ","
  match parseStmt (toks.length + 1) toks with
  | some (st, []) => some st
  | _ => none

def parseProg (s : String) : Option Prog :=
  match s.splitOn "/" with
  | [a, c, k, f] => do
    let fns ← (if f == "-" then [] else f.splitOn ";").mapM parseFn
    pure ⟨(table a).toArray, (table c).toArray, (table k).toArray, fns.toArray⟩
  | _ => none

/-! #### concrete primitives -/

def showB (b : Bool) : String := if b then "true" else "false"

/-- Go `x & 3` on a two's complement int -/
def and3 (x : Int) : Nat := (x.emod 4).toNat

/-- cell index of the op-assign target of lvalue form `lv` at index `j` (13.. = cells, 8.. = globals) -/
def lvTarget (lv : Nat) (x j : Nat) : Nat :=
  match lv with
  | 0 => 13 + j          -- arr[ix(id,x)]
  | 1 => 8 + j           -- *pg(id,x)
  | 2 => 17 + j          -- mp[ix(id,x)]
  | 3 => 21 + j          -- sv.x[ix(id,x)]
  | 4 => 25 + j          -- sl[ix(id,x)]
  | 5 => 21 + j          -- ps(id).x[ix(id,x)]
  | _ => x               -- the variable itself

/-- Go bitwise operators on `int` values that fit 32 bits (two's complement) -/
def bit32 (f : Nat → Nat → Nat) (a b : Int) : Int :=
  let r := f (a.emod 4294967296).toNat (b.emod 4294967296).toNat
  if r ≥ 2147483648 then (r : Int) - 4294967296 else (r : Int)

def lvTrace (lv id j : Nat) (s : St) : St :=
  match lv with
  | 1 => s.print s!"p {id} {j}"
  | 5 => (s.print s!"s {id}").print s!"i {id} {j}"
  | 6 => s
  | _ => s.print s!"i {id} {j}"

/-! #### unsigned arithmetic at the 32-bit boundary (act kind 14) -/

/-- bit width of the operand type: 0 uint32 · 1 uint · 2 uintptr (32 bits in the target; values stay below 2^32) · 3 uint8 ·
    4 uint16 -/
def uWidth (ty : Nat) : Nat := match ty with | 3 => 8 | 4 => 16 | _ => 32

/-- boundary constants for width `w`: top bit, all ones, top bit clear, upper half, upper nibble, 1, 0x55…, 0xAA… -/
def uConst (w ci : Nat) : Nat :=
  let m := 2 ^ w
  match ci % 8 with
  | 0 => m / 2
  | 1 => m - 1
  | 2 => m / 2 - 1
  | 3 => m - 2 ^ (w / 2)
  | 4 => 15 * 2 ^ (w - 4)
  | 5 => 1
  | 6 => (m - 1) / 3
  | _ => (m - 1) / 3 * 2

def uShift (w ci : Nat) : Nat := match ci % 4 with | 0 => 1 | 1 => w - 1 | 2 => w / 2 | _ => 3

/-- Go semantics of `a op b` on an unsigned type of width `w` (wrap-around; `&^`; shifts by `b`) -/
def uOp (w op a b : Nat) : Nat :=
  let m := 2 ^ w
  match op with
  | 0 => a &&& b
  | 1 => a ||| b
  | 2 => a ^^^ b
  | 3 => a &&& (m - 1 - b)
  | 4 => (a + b) % m
  | 5 => (a + m - b) % m
  | 6 => (a * b) % m
  | 7 => a / b
  | 8 => a % b
  | 9 => (a * 2 ^ b) % m
  | _ => a / 2 ^ b

/-- `runfs(id)`: call every stored closure in order; closures that captured the same variable see each other's writes -/
def runFs (id : Nat) (s : St) : St :=
  s.fs.foldl (fun (s : St) (f : Nat × Int) =>
    let v := s.hp.getD f.1 0 + f.2
    { s with hp := s.hp.setIfInBounds f.1 v, out := s!"f {id} {v}" :: s.out }) s

/-- `runps(id)`: `*p += 1; println("q", id, *p)` for every stored pointer -/
def runPs (id : Nat) (s : St) : St :=
  s.ps.foldl (fun (s : St) (r : Nat) =>
    let v := s.hp.getD r 0 + 1
    { s with hp := s.hp.setIfInBounds r v, out := s!"q {id} {v}" :: s.out }) s

def doAct (P : Prog) (id : Nat) (s : St) : St :=
  match P.acts.getD id [] with
  | [0, dst, x, y, k, p] =>
    let v := (s.get x + 2 * s.get y + k).tmod 1009
    let s := s.set dst v
    if p == 1 then s.print s!"a {id} {v}" else s
  | [1, lv, x, op, y, _] =>
    let j := and3 (s.get x)
    let s := lvTrace lv id j s
    let tgt := lvTarget lv x j
    let yv := s.get y
    let s := if op == 2 || op == 3 then s else s.print s!"t {id} {yv}"
    let old := s.get tgt
    let new := match op with
      | 0 => old + yv
      | 1 => old - yv
      | 2 => old + 1
      | 3 => old - 1
      | 4 => old.tmod (yv.emod 8 + 1)
      | 5 => old * ((yv.emod 2) * 2 - 1)
      | 6 => old.tdiv (yv.emod 4 + 1)
      | 7 => bit32 (· ||| ·) old (yv.emod 1024)
      | 8 => bit32 (· &&& ·) old (yv.emod 1024)
      | 9 => bit32 (· ^^^ ·) old (yv.emod 1024)
      | 10 => bit32 (fun a b => a &&& (4294967295 - b)) old (yv.emod 1024)
      | 11 => old >>> (yv.emod 4).toNat
      | _ => old          -- `<<= 0`
    s.set tgt new
  | [2, grp, i, j, _, _] =>
    let a := 13 + 4 * grp + and3 (s.get i)
    let b := 13 + 4 * grp + and3 (s.get j)
    let va := s.get a
    let vb := s.get b
    (s.set a vb).set b va
  | [3, a, b, c, _, _] =>
    let va := s.get a
    let vb := s.get b
    let vc := s.get c
    ((s.set a vb).set b vc).set c va
  | [4, dst, x, y, z, form] =>
    let xv := s.get x
    let yv := s.get y
    let zv := s.get z
    let (s, v) := match form with
      | 0 =>
        let s := ((s.print s!"t {id} {xv}").print s!"t {id + 1000} {yv}").print s!"t {id + 2000} {zv}"
        (s, (xv - (yv.emod 64) * (zv.emod 64)).tmod 1009)
      | 1 =>
        let s := ((s.print s!"t {id} {xv}").print s!"t {id + 1000} {yv}").print s!"t {id + 2000} {zv}"
        (s, (xv + 2 * yv + 3 * zv).tmod 1009)
      | 2 =>
        let s := ((s.print s!"s {id}").print s!"t {id} {xv}").print s!"t {id + 1000} {yv}"
        (s, (xv + 3 * yv + s.get 21).tmod 1009)
      | 3 =>
        let s := (s.print s!"t {id} {xv}").print s!"t {id + 1000} {yv}"
        (s, (xv + 5 * yv).tmod 1009)
      | _ =>
        let s := (s.print s!"t {id} {xv}").print s!"t {id + 1000} {yv}"
        (s, (xv + 7 * yv + zv).tmod 1009)
    (s.set dst v).print s!"a {id} {v}"
  | [5, x, k, _, _, _] =>
    -- `{ j := x; push(id, func() int { j += k; return j }) }`: a body-declared variable, fresh every time
    if s.fs.length < 12 then { s with hp := s.hp.push (s.get x), fs := s.fs ++ [(s.hp.size, (k : Int))] } else s
  | [6, _, _, _, _, _] => runFs id s
  | [10, ld, k0, isRange, _, _] =>
    -- the header of a loop statement is executed: fresh header variables for this execution
    let n := s.hp.size
    let s := { s with hp := ((s.hp.push k0).push 0).push 0,
                      hdr := ((s.hdr.setIfInBounds ld n).setIfInBounds (3 + ld) (n + 1)).setIfInBounds (6 + ld) (n + 2) }
    if isRange == 1 then s else s
  | [11, v, step, _, _, _] =>
    -- `push(id, func() int { H += step; return H })` capturing header variable `v` (4..6 K, 29..31 V)
    match hdrSlot v with
    | some k => if s.fs.length < 12 then { s with fs := s.fs ++ [(s.hdr.getD k 0, (step : Int))] } else s
    | none => { s with err := true }
  | [12, v, _, _, _, _] =>
    -- `ppush(id, &H)`
    match hdrSlot v with
    | some k => if s.ps.length < 12 then { s with ps := s.ps ++ [s.hdr.getD k 0] } else s
    | none => { s with err := true }
  | [13, _, _, _, _, _] => runPs id s
  | [15, k, _site, x, _, _] =>
    -- sk<k>_<site>(id, x): the value `val_k(x)` reaches an interface-typed target through an IMPLICIT conversion at
    -- assignability site `site`; `obs` prints its dynamic type (type switch), a number read back from it, and whether the
    -- type assertion / `== interface{}(val)` hold. Whatever the site, Go boxes the value: the line only depends on k and x.
    let n := s.get x
    let (kind, v) : String × Int := match k with
      | 0 => ("int", n)
      | 1 => ("string", n.emod 4 + 1)
      | 2 => ("bool", n.emod 2)
      | 3 => ("float64", n)
      | 4 => ("myInt", n)
      | 5 => ("uint8", n.emod 256)
      | 6 => ("arr", n)
      | 7 => ("map", n)
      | 8 => ("fn", 0)
      | 9 => ("chan", 2)
      | 10 => ("P", n)
      | _ => ("ptrS", n)
    s.print s!"v {id} {kind} {v} true"
  | [14, dst, x, op, cs, ty] =>
    -- { u := T(uint32(x)*2654435761 + 0x9E3779B9); r := u op C (or C op u); useT(id, r, C); dst = int(r % 251) }
    let w := uWidth ty
    let m := 2 ^ w
    let u := (((s.get x).emod 4294967296).toNat * 2654435761 + 2654435769) % 4294967296 % m
    let ci := cs / 2
    let side := cs % 2
    let c := uConst w ci
    let r :=
      if op == 9 || op == 10 then
        (if side == 0 then uOp w op u (uShift w ci) else uOp w op c (u % 8))
      else if op == 7 || op == 8 then
        (if side == 0 then uOp w op u (c ||| 1) else uOp w op c (u ||| 1))
      else (if side == 0 then uOp w op u c else uOp w op c u)
    let sw := if r == c then "k" else if r == 0 then "z" else "d"
    let s := s.print s!"u {id} {r} {showB (r == c)} {showB (decide (r > m / 2 - 1))} {r / 3} {r / (m / 2)} {showB (decide (r ≥ m / 2))} {sw}"
    s.set dst (r % 251 : Nat)
  | [7, dst, x, k, _, _] =>
    let v := ((s.get x + 1) * 2 + k).tmod 1009
    (s.set dst v).print s!"a {id} {v}"
  | [9, d1, d2, x, y, _] =>
    let xv := s.get x
    let yv := s.get y
    let s := (s.print s!"t {id} {xv}").print s!"t {id + 1000} {yv}"
    (s.set d1 yv).set d2 xv
  | _ => { s with err := true }

def doCond (P : Prog) (c : Nat) (s : St) : Bool × St :=
  match P.conds.getD c [] with
  | [x, k, m, t, p] =>
    let b := decide ((s.get x + k).tmod (if m == 0 then 1 else m) < t)
    (b, if p == 1 then s.print s!"c {c} {showB b}" else s)
  | _ => (false, { s with err := true })

def fuelMax : Nat := 400000

/-- result of running function `j` on an argument: (return value, store with the callee's globals / cells / trace) -/
abbrev FnRun := Nat → Int → St → Option (Int × St)

def freshLoc (arg : Int) : Array Int := #[arg, 0, 0, 0, 0, 0, 0, 0]

def doCall (P : Prog) (run : FnRun) (f : Nat) (s : St) : St :=
  match P.calls.getD f [] with
  | [callee, arg, dst] =>
    match run callee (s.get arg) s with
    | some (r, s') => ({ s' with loc := s.loc, hdr := s.hdr }).set dst r
    | none => { s with err := true }
  | _ => { s with err := true }

def mkEnv (P : Prog) (run : FnRun) : Env St := ⟨doAct P, doCond P, doCall P run⟩

/-- run function `j` with the evaluator `ev` (reference or MiniJS), call depth bounded by `d` -/
def runWith (P : Prog) (ev : Env St → Stmt → St → Option (Sig × St)) : Nat → FnRun
  | 0 => fun _ _ _ => none
  | d + 1 => fun j arg s =>
    match P.fns[j]? with
    | none => none
    | some body =>
      match ev (mkEnv P (runWith P ev d)) body { s with loc := freshLoc arg, hdr := #[0, 0, 0, 0, 0, 0, 0, 0, 0] } with
      | some (_, s') => if s'.err then none else some (s'.get 1, s')
      | none => none

def evRef (E : Env St) (b : Stmt) (s : St) : Option (Sig × St) := evalF E fuelMax b s
def evJs (E : Env St) (b : Stmt) (s : St) : Option (Sig × St) := evalJF E fuelMax [] (direct Ctx.top b) s

def initSt : St :=
  { loc := freshLoc 0, glob := #[1, 2, 3, 5], cells := #[10, 20, 30, 40, 0, 0, 0, 0, 3, 1, 4, 1, 5, 9, 2, 6], fs := [], out := [] }

def showRun (r : Option (Int × St)) : String :=
  match r with
  | none => "model-failure"
  | some (v, s) =>
    let cells := " ".intercalate (s.cells.toList.map toString)
    let s1 := { s with out := s!"r {v} {s.glob.getD 0 0} {s.glob.getD 1 0} {s.glob.getD 2 0} {s.glob.getD 3 0}" :: s.out }
    -- main: runfs(0); runps(0); runfs(1) — after all loops have ended
    let s2 := runFs 1 (runPs 0 (runFs 0 s1))
    ";".intercalate (s2.out.reverse ++ [s!"m {cells}"])

def wfProg (P : Prog) : Bool := P.fns.all wf

def handleProg : List String → String
  | ["ref", p] =>
    match parseProg p with
    | some P => showRun (runWith P evRef (P.fns.size + 1) 0 0 initSt)
    | none => "bad-prog"
  | ["js", p] =>
    match parseProg p with
    | some P => if wfProg P then showRun (runWith P evJs (P.fns.size + 1) 0 0 initSt) else "not-wf"
    | none => "bad-prog"
  | ["skel", p] =>
    match parseProg p with
    | some P => "|".intercalate (P.fns.toList.map fun b => " ".intercalate (skel (direct Ctx.top b)))
    | none => "bad-prog"
  | ["ds", lv, wi, wb, op] => GV.Desugar.describe lv wi wb op
  | _ => "bad-op"

def handle (st : GV.Driver.C16.NmState) : List String → GV.Driver.C16.NmState × String
  | "c01" :: rest => (st, handleProg rest)
  | "nm" :: "new" :: rest =>
    -- newRootCtx also seeds the reserved globals (package.go:148-150, `GV.NamesPlain.seedExtra`)
    let (st', a) := GV.Driver.C16.handleNm st ("new" :: rest)
    ({ st' with chain := st'.chain.map (GV.NamesPlain.seedExtra GV.NamesPlain.reservedGlobals) }, a)
  | "nm" :: rest => GV.Driver.C16.handleNm st rest
  | _ => (st, "bad-topic")

end GV.Driver.C01
