import GV.Basic.Hex
import GV.Model.Bits32
import GV.Model.CaseMap
import GV.Model.Atomic
import GV.Model.NoSync
import GV.Model.FloatBits
import GV.Spec.SyncSeq
import GV.Generated.CaseRanges

namespace GV.Driver.C13
open GV.Hex

/-! topic `bits` -/
def bits : List String → String
  | ["mul32", x, y] =>
    match x.toNat?, y.toNat? with
    | some x, some y => let r := GV.Bits32.mul32 x y; s!"{r.1} {r.2}"
    | _, _ => "bad-op"
  | ["add32", x, y, c] =>
    match x.toNat?, y.toNat?, c.toNat? with
    | some x, some y, some c => let r := GV.Bits32.add32 x y c; s!"{r.1} {r.2}"
    | _, _, _ => "bad-op"
  | ["div32", h, l, y] =>
    match h.toNat?, l.toNat?, y.toNat? with
    | some h, some l, some y =>
      match GV.Bits32.div32 h l y with
      | .ok q r => s!"{q} {r}"
      | .divideError => "panic:divide"
      | .overflowError => "panic:overflow"
      | .fuel => "model-fuel"
    | _, _, _ => "bad-op"
  | ["sdiv32", h, l, y] =>           -- the specification: mathematical quotient and remainder
    match h.toNat?, l.toNat?, y.toNat? with
    | some h, some l, some y =>
      if y = 0 then "panic:divide" else if y ≤ h then "panic:overflow"
      else s!"{(h * 4294967296 + l) / y} {(h * 4294967296 + l) % y}"
    | _, _, _ => "bad-op"
  | ["rem32", h, l, y] =>
    match h.toNat?, l.toNat?, y.toNat? with
    | some h, some l, some y =>
      match GV.Bits32.rem32 h l y with
      | .ok r => s!"{r}"
      | .divideError => "panic:divide"
      | .fuel => "model-fuel"
    | _, _, _ => "bad-op"
  | _ => "bad-op"

/-! topic `cm` -/
def cmOut (r : Int × Bool) : String := s!"{r.1} {r.2}"

/-- unicode.To / unicode.SpecialCase.ToUpper… expose the mapped rune only -/
def special (c : Int) (r : Int) (sp t : Array GV.CaseMap.CaseRange) : Int :=
  let r1 := GV.CaseMap.to c r sp
  if r1.1 = r ∧ !r1.2 then (GV.CaseMap.to c r t).1 else r1.1

def caseTable : Array GV.CaseMap.CaseRange := GV.Generated.caseRanges.toArray
def turkTable : Array GV.CaseMap.CaseRange := GV.Generated.turkishCase.toArray

/-- FNV-style digest of `to(c, r)` over a block of runes (one line answers 3 × n evaluations) -/
def blockDigest (t : Array GV.CaseMap.CaseRange) (start n : Nat) : Nat := Id.run do
  let mut h : Nat := 2166136261
  for i in [0:n] do
    for c in [0:3] do
      let r := GV.CaseMap.to c ((start + i : Nat) : Int) t
      h := ((h * 16777619) % 4294967296) ^^^ (r.1.toNat % 4294967296)
  return h

def cm : List String → String
  | ["to", c, r] =>
    match c.toInt?, r.toInt? with
    | some c, some r => cmOut (GV.CaseMap.to c r caseTable)
    | _, _ => "bad-op"
  | ["scan", c, r] =>
    match c.toInt?, r.toInt? with
    | some c, some r => cmOut (GV.CaseMap.toSpec c r GV.Generated.caseRanges)
    | _, _ => "bad-op"
  | ["turk", c, r] =>          -- unicode.TurkishCase.ToUpper/ToLower/ToTitle (letters.go SpecialCase)
    match c.toInt?, r.toInt? with
    | some c, some r => toString (special c r turkTable caseTable)
    | _, _ => "bad-op"
  | ["rune", c, r] =>          -- unicode.To(c, r)
    match c.toInt?, r.toInt? with
    | some c, some r => toString (GV.CaseMap.to c r caseTable).1
    | _, _ => "bad-op"
  | ["block", s, n] =>
    match s.toNat?, n.toNat? with
    | some s, some n => toString (blockDigest caseTable s n)
    | _, _ => "bad-op"
  | _ => "bad-op"

/-! topic `at` -/
def parseIface (s : String) : Option GV.Atomic.Iface :=
  if s == "nil" then some none
  else match s.splitOn "." with
    | [t, v] => match t.toNat?, v.toInt? with
      | some t, some v => some (some (t, v))
      | _, _ => none
    | _ => none

def showIface : GV.Atomic.Iface → String
  | none => "nil"
  | some (t, v) => s!"{t}.{v}"

def showVOut : GV.Atomic.VOut → String
  | .ok => "ok"
  | .val x => "v=" ++ showIface x
  | .bool b => toString b
  | .panic .nilValue => "panic:nil"
  | .panic .typed => "panic:typed"

def valueStep (spec : Bool) (v : GV.Atomic.Iface) (op : String) : Option (GV.Atomic.Iface × GV.Atomic.VOut) :=
  match op.splitOn ":" with
  | ["ld"] => some (GV.Atomic.vLoad v)
  | ["st", x] => (parseIface x).map fun x => if spec then GV.Atomic.specStore v x else GV.Atomic.vStore v x
  | ["sw", x] => (parseIface x).map fun x => if spec then GV.Atomic.specSwap v x else GV.Atomic.vSwap v x
  | ["cas", o, n] =>
    match parseIface o, parseIface n with
    | some o, some n => some (if spec then GV.Atomic.specCas v o n else GV.Atomic.vCas v o n)
    | _, _ => none
  | _ => none

def valueRun (spec : Bool) : GV.Atomic.Iface → List String → List String
  | _, [] => []
  | v, op :: ops =>
    match valueStep spec v op with
    | some (v', o) => showVOut o :: valueRun spec v' ops
    | none => ["bad-op"]

def cellOp (w : Nat) : List String → String
  | ["swap", c, n] =>
    match c.toNat?, n.toNat? with
    | some c, some n => let r := GV.Atomic.swap (BitVec.ofNat w c) (BitVec.ofNat w n); s!"{r.1.toNat} {r.2.toNat}"
    | _, _ => "bad-op"
  | ["cas", c, o, n] =>
    match c.toNat?, o.toNat?, n.toNat? with
    | some c, some o, some n =>
      let r := GV.Atomic.cas (BitVec.ofNat w c) (BitVec.ofNat w o) (BitVec.ofNat w n); s!"{r.1.toNat} {r.2}"
    | _, _, _ => "bad-op"
  | ["add", c, d] =>
    match c.toNat?, d.toNat? with
    | some c, some d => let r := GV.Atomic.add (BitVec.ofNat w c) (BitVec.ofNat w d); s!"{r.1.toNat} {r.2.toNat}"
    | _, _ => "bad-op"
  | ["load", c] =>
    match c.toNat? with
    | some c => let r := GV.Atomic.load (BitVec.ofNat w c); s!"{r.1.toNat} {r.2.toNat}"
    | _ => "bad-op"
  | ["store", c, v] =>
    match c.toNat?, v.toNat? with
    | some c, some v => s!"{(GV.Atomic.store (BitVec.ofNat w c) (BitVec.ofNat w v)).toNat} -"
    | _, _ => "bad-op"
  | _ => "bad-op"

def at_ : List String → String
  | ["v", h] => ";".intercalate (valueRun false none (h.splitOn ";"))
  | ["vs", h] => ";".intercalate (valueRun true none (h.splitOn ";"))
  | "32" :: rest => cellOp 32 rest
  | "64" :: rest => cellOp 64 rest
  | _ => "bad-op"

/-! topic `fl` — float64 bit patterns travel as decimal naturals; NaN results print as `nan` -/
open GV.FloatBits in
def showF (b : Nat) : String := if isNaN b then "nan" else toString b

open GV.FloatBits in
def showModf (o : ModfOut) : String :=
  s!"{showF o.int} {if o.fracNaN then "nan" else s!"{o.fracSign}:{if o.fracZero then 0 else 1}"}"

open GV.FloatBits in
def fl : List String → String
  | ["inf", sg] =>
    match sg.toInt? with
    | some sg => toString (inf sg)
    | _ => "bad-op"
  | [f, a] =>
    match a.toNat? with
    | none => "bad-op"
    | some a =>
      match f with
      | "bits" => toString (float64bits (float64frombits a))
      | "signbit" => toString (signbit a)
      | "isnan" => toString (isNaNJS a)
      | "abs" => showF (abs a)
      | "trunc" => showF (trunc a)
      | "strunc" => showF (truncGo a)
      | "floor" => showF (floorJS a)
      | "sfloor" => showF (floorGo a)
      | "ceil" => showF (ceilJS a)
      | "sceil" => showF (ceilGo a)
      | "frexp" => let r := frexp a; s!"{showF r.1} {r.2}"
      | "modf" => showModf (modf a)
      | "smodf" => showModf (modfGo a)
      | _ => "bad-op"
  | ["copysign", x, y] =>
    match x.toNat?, y.toNat? with
    | some x, some y => showF (copysign x y)
    | _, _ => "bad-op"
  | ["ldexp", x, e] =>
    match x.toNat?, e.toInt? with
    | some x, some e => match ldexp x e with
      | some b => showF b
      | none => "-"
    | _, _ => "bad-op"
  | ["sldexp", x, e] =>
    match x.toNat?, e.toInt? with
    | some x, some e => match ldexpGo x e with
      | some b => showF b
      | none => "-"
    | _, _ => "bad-op"
  | ["isinf", x, sg] =>
    match x.toNat?, sg.toInt? with
    | some x, some sg => toString (isInfJS x sg)
    | _, _ => "bad-op"
  | _ => "bad-op"

/-! topic `ns` -/
open GV.NoSync in
def parseOp (s : String) : Option Op :=
  match s.splitOn ":" with
  | ["m.L"] => some .mLock
  | ["m.U"] => some .mUnlock
  | ["rw.L"] => some .rwLock
  | ["rw.U"] => some .rwUnlock
  | ["rw.RL"] => some .rwRLock
  | ["rw.RU"] => some .rwRUnlock
  | ["wg.A", d] => d.toInt?.map .wgAdd
  | ["wg.D"] => some .wgDone
  | ["wg.W"] => some .wgWait
  | ["o.D", "ok"] => some (.onceDo .ok)
  | ["o.D", "panic"] => some (.onceDo .panic)
  | ["o.D", "nest"] => some (.onceDo .nest)
  | ["mp.Ld", k] => k.toInt?.map .mapLoad
  | ["mp.St", k, v] => match k.toInt?, v.toInt? with | some k, some v => some (.mapStore k v) | _, _ => none
  | ["mp.LS", k, v] => match k.toInt?, v.toInt? with | some k, some v => some (.mapLoadOrStore k v) | _, _ => none
  | ["mp.Del", k] => k.toInt?.map .mapDelete
  | ["mp.Rg", n] => n.toInt?.map .mapRange
  | ["p.Put", x] => x.toInt?.map fun x => .poolPut (if x = 0 then none else some x)
  | ["p.Get", n] => n.toInt?.map fun n => .poolGet (if n = 0 then none else some (-n))
  | _ => none

def showOpt : Option Int → String
  | none => "nil"
  | some x => toString x

open GV.NoSync in
def showVal : Val → String
  | .unit => "ok"
  | .ran n => s!"ok:{n}"
  | .loaded v ok => s!"ok:{showOpt (if v = some 0 then none else v)},{ok}"     -- value code 0 = the nil interface
  | .pairs l => "ok:" ++ (if l.isEmpty then "-" else ",".intercalate (l.map fun p => s!"{p.1}={p.2}"))
  | .calls n => s!"ok:calls={n}"
  | .item x => s!"ok:{showOpt x}"

def showOut : GV.NoSync.Out → String
  | .ok v => showVal v
  | .panic _ => "panic"

def showSOut : GV.Spec.SyncSeq.SOut → String
  | .ok v => showVal v
  | .panic => "panic"
  | .block => "block"
  | .fatal => "fatal"

/-- parse an observed outcome back (for `accepts`) by matching against the outcomes the specification offers -/
def acceptsStr : GV.Spec.SyncSeq.Spec → List GV.NoSync.Op → List String → Bool
  | _, [], [] => true
  | t, op :: ops, o :: os =>
    (GV.Spec.SyncSeq.step t op).any fun p =>
      showSOut p.1 == o && (if p.1.terminal then os.isEmpty else acceptsStr p.2 ops os)
  | _, _, _ => false

def ns : List String → String
  | ["hist", h] =>
    match (h.splitOn ";").mapM parseOp with
    | some ops => ";".intercalate ((GV.NoSync.run {} ops).map showOut)
    | none => "bad-op"
  | ["accepts", h, o] =>
    match (h.splitOn ";").mapM parseOp with
    | some ops =>
      let os := o.splitOn ";"
      -- a history cut by block/fatal has fewer outcomes than operations
      toString (acceptsStr {} (ops.take os.length) os)
    | none => "bad-op"
  | _ => "bad-op"

end GV.Driver.C13
