import GV.Model.JSInt
import GV.Model.Num64
import GV.Model.NumScheme
import GV.Spec.Num
import GV.Model.NumOpTable

/-! Driver for C06 (topic `num`): answers helper-level and scheme-level operation lines with the Lean model
    (`num <op> …`) or with the `BitVec` specification (`num spec <op> …`). -/
namespace GV.Driver.C06
open GV.JSInt GV.Num64 GV.NumScheme GV.Spec.Num

inductive Ty where
  | small (τ : ITy)
  | big (signed : Bool)

def parseTy : String → Option Ty
  | "int8" => some (.small .int8) | "int16" => some (.small .int16) | "int32" => some (.small .int32)
  | "int" => some (.small .int) | "uint8" => some (.small .uint8) | "uint16" => some (.small .uint16)
  | "uint32" => some (.small .uint32) | "uint" => some (.small .uint) | "uintptr" => some (.small .uintptr)
  | "int64" => some (.big true) | "uint64" => some (.big false)
  | _ => none

def Ty.bits : Ty → Nat
  | .small τ => τ.bits
  | .big _ => 64
def Ty.signed : Ty → Bool
  | .small τ => τ.signed
  | .big s => s

def parseBin : String → Option BinOp
  | "add" => some .add | "sub" => some .sub | "mul" => some .mul | "quo" => some .quo | "rem" => some .rem
  | "and" => some .and | "or" => some .or | "xor" => some .xor | "andnot" => some .andNot | _ => none
def parseSh : String → Option ShOp
  | "shl" => some .shl | "shr" => some .shr | _ => none
def parseUn : String → Option UnOp
  | "neg" => some .neg | "not" => some .not | _ => none
def parseCmp : String → Option CmpOp
  | "eql" => some .eql | "neq" => some .neq | "lss" => some .lss | "leq" => some .leq
  | "gtr" => some .gtr | "geq" => some .geq | _ => none
def parseSign : String → Option Bool
  | "s" => some true | "u" => some false | _ => none

def r64 (x : W64) : String := s!"{x.high}:{x.low}"
def o64 : Option W64 → String
  | some x => r64 x
  | none => "panic"

/-- rendering of a spec value of a type: decimal for JS-number types, `high:low` for 64-bit types -/
def renderSpec (t : Ty) {w : Nat} (a : BitVec w) : String :=
  match t with
  | .small τ => toString (valOf τ.signed a)
  | .big s => let v := valOf s a; s!"{v / 4294967296}:{v % 4294967296}"

def specBinStr (t : Ty) (op : BinOp) (x y : Int) : String :=
  match specBin t.signed op (BitVec.ofInt t.bits x) (BitVec.ofInt t.bits y) with
  | some r => renderSpec t r
  | none => "panic"

/-- shift counts are clamped to the width before the spec is *executed* (a `Nat` shift by 2^63 cannot be computed);
    `GV.Props.C06.specShift_clamp` proves that this does not change the spec's value. -/
def clamp (w n : Nat) : Nat := if n ≥ w then w else n

def ints (l : List String) : Option (List Int) := l.mapM String.toInt?

/-- model answers -/
def model : List String → String
  | ["mk64", s, h, l] =>
    match parseSign s, h.toInt?, l.toInt? with
    | some s, some h, some l => r64 (mk64 s h l)
    | _, _, _ => "bad-op"
  | ["mul64", s, a, b, c, d] =>
    match parseSign s, ints [a, b, c, d] with
    | some s, some [a, b, c, d] => r64 (mul64 s ⟨a, b⟩ ⟨c, d⟩)
    | _, _ => "bad-op"
  | ["div64", s, m, a, b, c, d] =>
    match parseSign s, ints [a, b, c, d] with
    | some s, some [a, b, c, d] => o64 (div64 s ⟨a, b⟩ ⟨c, d⟩ (m == "r"))
    | _, _ => "bad-op"
  | ["shl64", s, a, b, n] =>
    match parseSign s, ints [a, b, n] with
    | some s, some [a, b, n] => r64 (shiftLeft64 s ⟨a, b⟩ n)
    | _, _ => "bad-op"
  | ["shr64", s, a, b, n] =>
    match parseSign s, ints [a, b, n] with
    | some s, some [a, b, n] => r64 (if s then shiftRightInt64 ⟨a, b⟩ n else shiftRightUint64 ⟨a, b⟩ n)
    | _, _ => "bad-op"
  | ["flatten64", a, b] =>
    match ints [a, b] with
    | some [a, b] => toString (flatten64 ⟨a, b⟩)
    | _ => "bad-op"
  | ["imul", a, b] =>
    match ints [a, b] with
    | some [a, b] => toString (imul a b)
    | _ => "bad-op"
  | ["imulfb", a, b] =>
    match ints [a, b] with
    | some [a, b] => toString (imulFallback a b)
    | _ => "bad-op"
  | ["bin", ty, op, x, y] =>
    match parseTy ty, parseBin op, ints [x, y] with
    | some (.small τ), some op, some [x, y] => (schemeBin τ op x y).render
    | some (.big s), some op, some [x, y] => o64 (scheme64Bin s op (ofInt s x) (ofInt s y))
    | _, _, _ => "bad-op"
  | ["un", ty, op, x] =>
    match parseTy ty, parseUn op, x.toInt? with
    | some (.small τ), some op, some x => (schemeUn τ op x).render
    | some (.big s), some op, some x => r64 (scheme64Un s op (ofInt s x))
    | _, _, _ => "bad-op"
  | ["sh", ty, op, c, x, n] =>
    match parseTy ty, parseSh op, ints [x, n] with
    | some (.small τ), some op, some [x, n] => toString (schemeShift τ op (c == "c") x n)
    | some (.big s), some op, some [x, n] => r64 (scheme64Shift s op (ofInt s x) n)
    | _, _, _ => "bad-op"
  | ["cmp", ty, op, x, y] =>
    match parseTy ty, parseCmp op, ints [x, y] with
    | some (.small _), some op, some [x, y] => toString (schemeCmp op x y)
    | some (.big s), some op, some [x, y] => toString (scheme64Cmp op (ofInt s x) (ofInt s y))
    | _, _, _ => "bad-op"
  | ["conv", f, t, x] =>
    match parseTy f, parseTy t, x.toInt? with
    | some (.small _), some (.small τ), some x => toString (conv τ x)
    | some (.big fs), some (.small τ), some x => toString (conv64to fs τ (ofInt fs x))
    | some (.small _), some (.big s), some x => r64 (convTo64 s x)
    | some (.big fs), some (.big s), some x => r64 (conv64to64 s (ofInt fs x))
    | _, _, _ => "bad-op"
  | _ => "bad-op"

def bv64 (a b : Int) : BitVec 64 := BitVec.ofInt 64 (a * 4294967296 + b)

/-- specification answers for the same operation lines -/
def spec : List String → String
  | ["mk64", s, h, l] =>
    match parseSign s, h.toInt?, l.toInt? with
    | some s, some h, some l => renderSpec (.big s) (bv64 h l)
    | _, _, _ => "bad-op"
  | ["mul64", s, a, b, c, d] =>
    match parseSign s, ints [a, b, c, d] with
    | some s, some [a, b, c, d] => renderSpec (.big s) (bv64 a b * bv64 c d)
    | _, _ => "bad-op"
  | ["div64", s, m, a, b, c, d] =>
    match parseSign s, ints [a, b, c, d] with
    | some s, some [a, b, c, d] =>
      match specBin s (if m == "r" then .rem else .quo) (bv64 a b) (bv64 c d) with
      | some r => renderSpec (.big s) r
      | none => "panic"
    | _, _ => "bad-op"
  | ["shl64", s, a, b, n] =>
    match parseSign s, ints [a, b, n] with
    | some s, some [a, b, n] => renderSpec (.big s) (specShift s .shl (bv64 a b) (clamp 64 n.toNat))
    | _, _ => "bad-op"
  | ["shr64", s, a, b, n] =>
    match parseSign s, ints [a, b, n] with
    | some s, some [a, b, n] => renderSpec (.big s) (specShift s .shr (bv64 a b) (clamp 64 n.toNat))
    | _, _ => "bad-op"
  | ["flatten64", a, b] =>
    match ints [a, b] with
    | some [a, b] => toString (a * 4294967296 + b)
    | _ => "bad-op"
  | ["imul", a, b] =>
    match ints [a, b] with
    | some [a, b] => toString (BitVec.ofInt 32 a * BitVec.ofInt 32 b).toInt
    | _ => "bad-op"
  | ["imulfb", a, b] =>
    match ints [a, b] with
    | some [a, b] => toString (BitVec.ofInt 32 a * BitVec.ofInt 32 b).toInt
    | _ => "bad-op"
  | ["bin", ty, op, x, y] =>
    match parseTy ty, parseBin op, ints [x, y] with
    | some t, some op, some [x, y] => specBinStr t op x y
    | _, _, _ => "bad-op"
  | ["un", ty, op, x] =>
    match parseTy ty, parseUn op, x.toInt? with
    | some t, some op, some x => renderSpec t (specUn op (BitVec.ofInt t.bits x))
    | _, _, _ => "bad-op"
  | ["sh", ty, op, _, x, n] =>
    match parseTy ty, parseSh op, ints [x, n] with
    | some t, some op, some [x, n] =>
      if n < 0 then "panic" else renderSpec t (specShift t.signed op (BitVec.ofInt t.bits x) (clamp t.bits n.toNat))
    | _, _, _ => "bad-op"
  | ["cmp", ty, op, x, y] =>
    match parseTy ty, parseCmp op, ints [x, y] with
    | some t, some op, some [x, y] => toString (specCmp t.signed op (BitVec.ofInt t.bits x) (BitVec.ofInt t.bits y))
    | _, _, _ => "bad-op"
  | ["conv", f, t, x] =>
    match parseTy f, parseTy t, x.toInt? with
    | some f, some t, some x => renderSpec t (specConv f.signed (BitVec.ofInt f.bits x) t.bits)
    | _, _, _ => "bad-op"
  | _ => "bad-op"

/-- the known operator table (GV.Model.NumOpTable), one entry per line: `num optable count`, `num optable <i>` -/
def optable : List String → String
  | ["count"] => toString GV.NumOpTable.knownEntries.length
  | [i] =>
    match i.toNat? with
    | some i => match GV.NumOpTable.known[i]? with
      | some (e, a) => GV.NumOpTable.render e ++ "\t" ++ a
      | none => "bad-op"
    | none => "bad-op"
  | _ => "bad-op"

/-- topic `num` -/
def handle : List String → String
  | "optable" :: rest => optable rest
  | "spec" :: rest => spec rest
  | rest => model rest

end GV.Driver.C06
