/-
  GV.Driver.C11 — line protocol for the Go ↔ JavaScript conversion model.
  Values and types travel as small S-expressions without blanks: `name` or `name(arg,arg,…)`.

  types   Tb Ti Ti8 Ti16 Ti32 Tu Tu8 Tu16 Tu32 Tup TI64 TU64 Tf32 Tf64 Ts TS(τ) TA(n,τ) TM(τ) TP(τ) TE TO
          TT(x<hexname>,τ,y<hexname>,τ,…)  (x = exported, y = unexported)   TF(v0|v1,TL(τ…),TL(τ…))
  numbers n<int> nz nan pinf ninf q<tok>_<trunc>_<0|1>
  JS      u null t f <number> w<4 hex per unit>|w- ta_<cls>(<number>…) ja(…) jo(w…,v,w…,v,…) jf<id> gf<id> wr<id>
  Go      t f <number> L<hi>_<lo> s<hex>|s- nil sl(…) ar(…) mp(s…,v,…) st(…) pt(v) if(τ,v) fn<id> jfn(js) ob(js) op<id>
  Objects and maps are rendered with their keys sorted.
-/
import GV.Basic.Hex
import GV.Model.JsConv
import GV.Model.CbGuard
import GV.Model.CbHist
import GV.Model.JsSlice
import GV.Spec.JsTable

namespace GV.Driver.C11
open GV.Hex GV.JsConv GV.Utf16

inductive Sx where
  | node (name : String) (args : List Sx)
  deriving Inhabited

def isSep (c : Char) : Bool := c == '(' || c == ')' || c == ','

mutual
partial def parseSx (cs : List Char) : Option (Sx × List Char) :=
  let name := cs.takeWhile (fun c => !isSep c)
  let rest := cs.dropWhile (fun c => !isSep c)
  match rest with
  | '(' :: ')' :: r => some (.node (String.ofList name) [], r)
  | '(' :: r =>
    match parseArgs r [] with
    | some (args, r') => some (.node (String.ofList name) args, r')
    | none => none
  | _ => some (.node (String.ofList name) [], rest)

partial def parseArgs (cs : List Char) (acc : List Sx) : Option (List Sx × List Char) :=
  match parseSx cs with
  | some (a, ',' :: r) => parseArgs r (a :: acc)
  | some (a, ')' :: r) => some ((a :: acc).reverse, r)
  | _ => none
end

def parse (s : String) : Option Sx :=
  match parseSx s.toList with
  | some (x, []) => some x
  | _ => none

/-! ### hex helpers for UTF-16 strings -/

def hex4 (n : Nat) : String := byteToHex (n / 256 % 256) ++ byteToHex (n % 256)

def units16 (u : List Nat) : String := if u.isEmpty then "-" else String.join (u.map hex4)

def parseUnits (s : String) : Option (List Nat) :=
  match parseHex s with
  | some bs =>
    let rec go : List Nat → List Nat → Option (List Nat)
      | [], acc => some acc.reverse
      | [_], _ => none
      | a :: b :: t, acc => go t ((a * 256 + b) :: acc)
    go bs []
  | none => none

def dropPrefix (s : String) (n : Nat) : String := String.ofList (s.toList.drop n)

/-! ### parsing -/

def parseNum (s : String) : Option Num :=
  if s == "nz" then some .negZero
  else if s == "nan" then some .nan
  else if s == "pinf" then some .pinf
  else if s == "ninf" then some .ninf
  else if s.startsWith "n" then (dropPrefix s 1).toInt?.map .int
  else if s.startsWith "q" then
    match (dropPrefix s 1).splitOn "_" with
    | [a, b, c] =>
      match a.toNat?, b.toInt? with
      | some tok, some tr => some (.frac tok tr (c == "1"))
      | _, _ => none
    | _ => none
  else none

def parseTA (s : String) : Option TA :=
  match s with
  | "i8" => some .i8 | "i16" => some .i16 | "i32" => some .i32
  | "u8" => some .u8 | "u16" => some .u16 | "u32" => some .u32
  | "f32" => some .f32 | "f64" => some .f64
  | _ => none

mutual
partial def toTy : Sx → Option Ty
  | .node "Tb" [] => some .bool
  | .node "Ti" [] => some (.int .int)
  | .node "Ti8" [] => some (.int .i8)
  | .node "Ti16" [] => some (.int .i16)
  | .node "Ti32" [] => some (.int .i32)
  | .node "Tu" [] => some (.int .uint)
  | .node "Tu8" [] => some (.int .u8)
  | .node "Tu16" [] => some (.int .u16)
  | .node "Tu32" [] => some (.int .u32)
  | .node "Tup" [] => some (.int .uptr)
  | .node "TI64" [] => some .i64
  | .node "TU64" [] => some .u64
  | .node "Tf32" [] => some .f32
  | .node "Tf64" [] => some .f64
  | .node "Ts" [] => some .str
  | .node "TE" [] => some .iface
  | .node "TO" [] => some .jsobj
  | .node "TS" [e] => (toTy e).map .slice
  | .node "TM" [e] => (toTy e).map .map
  | .node "TP" [e] => (toTy e).map .ptr
  | .node "TA" [.node n [], e] =>
    match n.toNat?, toTy e with
    | some n, some e => some (.arr n e)
    | _, _ => none
  | .node "TT" fs =>
    match toFields fs with
    | some (flds, tys) => some (.struct flds tys)
    | none => none
  | .node "TF" [.node v [], .node "TL" ps, .node "TL" rs] =>
    match ps.mapM toTy, rs.mapM toTy with
    | some ps, some rs => some (.func ps rs (v == "v1"))
    | _, _ => none
  | _ => none

partial def toFields : List Sx → Option (List Fld × List Ty)
  | [] => some ([], [])
  | .node nm [] :: t :: rest =>
    match parseHex (dropPrefix nm 1), toTy t, toFields rest with
    | some name, some ty, some (fl, tl) => some (⟨name, nm.startsWith "x"⟩ :: fl, ty :: tl)
    | _, _, _ => none
  | _ => none
end

mutual
partial def toJs : Sx → Option JsVal
  | .node "u" [] => some .undef
  | .node "null" [] => some .null
  | .node "t" [] => some (.bool true)
  | .node "f" [] => some (.bool false)
  | .node "ja" es => (es.mapM toJs).map .arr
  | .node "jo" kvs =>
    match toJsPairs kvs with
    | some (ks, vs) => some (.obj ks vs)
    | none => none
  | .node nm args =>
    if nm.startsWith "ta_" then
      match parseTA (dropPrefix nm 3), args.mapM (fun a => match a with | .node s [] => parseNum s | _ => none) with
      | some c, some xs => some (.typed c xs)
      | _, _ => none
    else if !args.isEmpty then none
    else if nm.startsWith "wr" then (dropPrefix nm 2).toNat?.map .wrapper
    else if nm.startsWith "w" then (parseUnits (dropPrefix nm 1)).map .str
    else if nm.startsWith "jf" then (dropPrefix nm 2).toNat?.map .jsfun
    else if nm.startsWith "gf" then (dropPrefix nm 2).toNat?.map .gofun
    else (parseNum nm).map .num

partial def toJsPairs : List Sx → Option (List (List Nat) × List JsVal)
  | [] => some ([], [])
  | .node k [] :: v :: rest =>
    match (if k.startsWith "w" then parseUnits (dropPrefix k 1) else none), toJs v, toJsPairs rest with
    | some k, some v, some (ks, vs) => some (k :: ks, v :: vs)
    | _, _, _ => none
  | _ => none
end

mutual
partial def toGo : Sx → Option GoVal
  | .node "t" [] => some (.bool true)
  | .node "f" [] => some (.bool false)
  | .node "nil" [] => some .nil
  | .node "sl" es => (es.mapM toGo).map .slice
  | .node "ar" es => (es.mapM toGo).map .arr
  | .node "st" es => (es.mapM toGo).map .struct
  | .node "pt" [v] => (toGo v).map .ptr
  | .node "if" [t, v] =>
    match toTy t, toGo v with
    | some t, some v => some (.iface t v)
    | _, _ => none
  | .node "ob" [j] => (toJs j).map .jsobj
  | .node "jfn" [j] => (toJs j).map .jsfunc
  | .node "mp" kvs =>
    match toGoPairs kvs with
    | some (ks, vs) => some (.map ks vs)
    | none => none
  | .node nm args =>
    if !args.isEmpty then none
    else if nm.startsWith "L" then
      match (dropPrefix nm 1).splitOn "_" with
      | [a, b] =>
        match a.toInt?, b.toNat? with
        | some hi, some lo => some (.i64 hi lo)
        | _, _ => none
      | _ => none
    else if nm.startsWith "s" then (parseHex (dropPrefix nm 1)).map .str
    else if nm.startsWith "fn" then (dropPrefix nm 2).toNat?.map .func
    else if nm.startsWith "op" then (dropPrefix nm 2).toNat?.map .opaque
    else (parseNum nm).map .num

partial def toGoPairs : List Sx → Option (List (List Nat) × List GoVal)
  | [] => some ([], [])
  | .node k [] :: v :: rest =>
    match (if k.startsWith "s" then parseHex (dropPrefix k 1) else none), toGo v, toGoPairs rest with
    | some k, some v, some (ks, vs) => some (k :: ks, v :: vs)
    | _, _, _ => none
  | _ => none
end

/-! ### rendering -/

def showNum : Num → String
  | .int n => s!"n{n}"
  | .negZero => "nz"
  | .nan => "nan"
  | .pinf => "pinf"
  | .ninf => "ninf"
  | .frac tok tr neg => s!"q{tok}_{tr}_{if neg then 1 else 0}"

def showTA : TA → String
  | .i8 => "i8" | .i16 => "i16" | .i32 => "i32" | .u8 => "u8" | .u16 => "u16" | .u32 => "u32" | .f32 => "f32" | .f64 => "f64"

def showIK : IK → String
  | .int => "Ti" | .i8 => "Ti8" | .i16 => "Ti16" | .i32 => "Ti32" | .uint => "Tu" | .u8 => "Tu8" | .u16 => "Tu16"
  | .u32 => "Tu32" | .uptr => "Tup"

def call (name : String) (args : List String) : String := name ++ "(" ++ ",".intercalate args ++ ")"

partial def showTy : Ty → String
  | .bool => "Tb"
  | .int k => showIK k
  | .i64 => "TI64"
  | .u64 => "TU64"
  | .f32 => "Tf32"
  | .f64 => "Tf64"
  | .str => "Ts"
  | .slice e => call "TS" [showTy e]
  | .arr n e => call "TA" [toString n, showTy e]
  | .map e => call "TM" [showTy e]
  | .struct flds tys =>
    call "TT" ((flds.zip tys).foldr (fun p acc => ((if p.1.exported then "x" else "y") ++ toHex p.1.name) :: showTy p.2 :: acc) [])
  | .ptr e => call "TP" [showTy e]
  | .iface => "TE"
  | .func ps rs v => call "TF" [if v then "v1" else "v0", call "TL" (ps.map showTy), call "TL" (rs.map showTy)]
  | .jsobj => "TO"

def ltList : List Nat → List Nat → Bool
  | [], [] => false
  | [], _ :: _ => true
  | _ :: _, [] => false
  | a :: as, b :: bs => a < b || (a == b && ltList as bs)

def insertSorted (p : List Nat × String) : List (List Nat × String) → List (List Nat × String)
  | [] => [p]
  | q :: t => if ltList p.1 q.1 then p :: q :: t else q :: insertSorted p t

def sortPairs (ps : List (List Nat × String)) : List (List Nat × String) := ps.foldr insertSorted []

partial def showJs : JsVal → String
  | .undef => "u"
  | .null => "null"
  | .bool b => if b then "t" else "f"
  | .num x => showNum x
  | .str u => "w" ++ units16 u
  | .typed c xs => call ("ta_" ++ showTA c) (xs.map showNum)
  | .arr es => call "ja" (es.map showJs)
  | .obj ks vs =>
    call "jo" ((sortPairs (ks.zip (vs.map showJs))).foldr (fun p acc => ("w" ++ units16 p.1) :: p.2 :: acc) [])
  | .jsfun id => s!"jf{id}"
  | .gofun id => s!"gf{id}"
  | .wrapper id => s!"wr{id}"

partial def showGo : GoVal → String
  | .bool b => if b then "t" else "f"
  | .num x => showNum x
  | .i64 hi lo => s!"L{hi}_{lo}"
  | .str s => "s" ++ toHex s
  | .nil => "nil"
  | .slice es => call "sl" (es.map showGo)
  | .arr es => call "ar" (es.map showGo)
  | .map ks vs =>
    call "mp" ((sortPairs (ks.zip (vs.map showGo))).foldr (fun p acc => ("s" ++ toHex p.1) :: p.2 :: acc) [])
  | .struct fs => call "st" (fs.map showGo)
  | .ptr v => call "pt" [showGo v]
  | .iface τ v => call "if" [showTy τ, showGo v]
  | .func id => s!"fn{id}"
  | .jsfunc j => call "jfn" [showJs j]
  | .jsobj j => call "ob" [showJs j]
  | .opaque id => s!"op{id}"

def showErr : Err → String
  | .cannotExternalize => "err:cannot-externalize"
  | .cannotInternalize => "err:cannot-internalize"
  | .wrongSize => "err:wrong-size"
  | .typeError => "err:type-error"
  | .illTyped => "err:ill-typed"
  | .unmodelled => "err:unmodelled"

def showR (f : α → String) : R α → String
  | .ok a => f a
  | .error e => showErr e

open GV.Spec.JsTable in
def showClass : JsClass → String
  | .boolean => "Boolean" | .number => "Number" | .string => "String"
  | .typedArray c => "TypedArray:" ++ showTA c
  | .array => "Array" | .function => "Function" | .object => "Object" | .null => "null" | .undefined => "undefined"

def tyOfGo : GoVal → Option Ty
  | .iface τ _ => some τ
  | _ => none

/-! ### the callback guard script -/

open GV.CbGuard in
def showOut : Out → String
  | .done => "done" | .value v => s!"value:{v}" | .zero => "zero" | .blocked => "blocked"
  | .selected i => s!"sel:{i}" | .selectedValue i v => s!"sel:{i}:value:{v}" | .selectedZero i => s!"sel:{i}:zero"
  | .errCannotBlock => "err:cannot-block" | .errSendClosed => "err:send-closed"
  | .typeErrorNotAFunction => "typeerror:not-a-function" | .resumed g => s!"resumed:{g}" | .idle => "idle"

open GV.CbGuard in
def showGid : Gid → String
  | none => "cb"
  | some g => toString g

open GV.CbGuard in
def showSt (s : St) : String :=
  let j (l : List String) := if l.isEmpty then "-" else ",".intercalate l
  s!"buf={j (s.chan.buffer.map toString)} sq={s.chan.sendQ.length} rq={s.chan.recvQ.length} sched={j (s.scheduled.map showGid)}"

open GV.CbGuard in
def parseEv (s : String) : Option Ev :=
  let gid (g : String) : Option Gid := if g == "cb" then some none else g.toNat?.map some
  match s.splitOn "_" with
  | ["send", g, v] =>
    match gid g, v.toNat? with
    | some g, some v => some (.send g v)
    | _, _ => none
  | ["recv", g] => (gid g).map .recv
  | ["sel", g, pick, cases] =>
    let cs := (cases.splitOn ".").mapM fun c =>
      if c == "r" then some Case.recv else if c == "d" then some Case.dflt
      else if c.startsWith "s" then (dropPrefix c 1).toNat?.map Case.send else none
    match gid g, pick.toNat?, cs with
    | some g, some p, some cs => some (.select g p cs)
    | _, _, _ => none
  | ["dequeue"] => some .dequeue
  | _ => none

open GV.CbGuard in
def runGuard (cap : Nat) (evs : List Ev) : String :=
  let rec go (s : St) : List Ev → List String
    | [] => []
    | e :: es => let r := step s e; (showOut r.1 ++ " " ++ showSt r.2) :: go r.2 es
  "|".intercalate (go (init cap) evs)

/-! ### scheduler histories -/

def parseCase (c : String) : Option GV.CbGuard.Case :=
  if c == "r" then some .recv else if c == "d" then some .dflt
  else if c.startsWith "s" then (dropPrefix c 1).toNat?.map .send else none

open GV.CbHist in
def parseGOp (o : String) : Option GOp :=
  if o == "r" then some .recv else if o == "p" then some .panic else if o == "x" then some .exit
  else if o.startsWith "s" then (dropPrefix o 1).toNat?.map .send
  else if o.startsWith "l" then
    match (dropPrefix o 1).splitOn ":" with
    | [pick, cases] =>
      match pick.toNat?, (cases.splitOn "+").mapM parseCase with
      | some p, some cs => some (.select p cs)
      | _, _ => none
    | _ => none
  else none

open GV.CbHist in
def parseHEv (s : String) : Option HEv :=
  match s.splitOn "_" with
  | ["go", ops] => if ops == "-" then some (.go []) else ((ops.splitOn ".").mapM parseGOp).map .go
  | ["cbsend", v] => v.toNat?.map .cbSend
  | ["cbrecv"] => some .cbRecv
  | ["cbsel", pick, cases] =>
    match pick.toNat?, (cases.splitOn ".").mapM parseCase with
    | some p, some cs => some (.cbSelect p cs)
    | _, _ => none
  | ["tick"] => some .tick
  | _ => none

open GV.CbHist in
def showHOut : HOut → String
  | .op o => showOut o
  | .threw => "threw"
  | .ok => "ok"
  | .idle => "idle"

open GV.CbHist in
def showHSt (h : HSt) : String :=
  let j (l : List String) := if l.isEmpty then "-" else ",".intercalate l
  let g (x : GV.CbGuard.Gid) := match x with | none => "cb" | some n => s!"g{n}"
  s!"cur={g h.base.cur} buf={j (h.base.chan.buffer.map toString)} sq={h.base.chan.sendQ.length} rq={h.base.chan.recvQ.length} sched={j (h.base.scheduled.map g)} timers={h.timers} awake={h.base.awake} total={h.total}"

open GV.CbHist in
def runHist (cap : Nat) (evs : List HEv) : String :=
  let rec go (h : HSt) : List HEv → List String
    | [] => []
    | e :: es => let r := step h e; (showHOut r.1 ++ " " ++ showHSt r.2) :: go r.2 es
  "|".intercalate (go (init cap) evs)

/-- topic `jsconv` -/
def handle : List String → String
  | ["ext", t, v] =>
    match (parse t).bind toTy, (parse v).bind toGo with
    | some τ, some g => showR showJs (externalize τ g)
    | _, _ => "bad-op"
  | ["int", t, v] =>
    match (parse t).bind toTy, (parse v).bind toJs with
    | some τ, some j => showR showGo (internalize τ j)
    | _, _ => "bad-op"
  | ["rt", t, v] =>
    match (parse t).bind toTy, (parse v).bind toGo with
    | some τ, some g => showR showGo ((externalize τ g).bind (internalize τ))
    | _, _ => "bad-op"
  | ["rtspec", _, v] =>            -- the specification of a round trip: the value itself (canonical rendering)
    match (parse v).bind toGo with
    | some g => showGo g
    | none => "bad-op"
  | ["wrap", t, v] =>              -- the JavaScript wrapper of the Go function `func(x τ) τ { return x }` applied to v
    match (parse t).bind toTy, (parse v).bind toJs with
    | some τ, some j => showR showJs (callWrapper [τ] [τ] false (fun a => .ok a) [j])
    | _, _ => "bad-op"
  | ["mkfunc", v] =>               -- `$makeFunc(fn)` with a Go `fn` returning the interface value v
    match (parse v).bind toGo with
    | some g => showR showJs (callMakeFunc (fun _ _ => g) .undef [])
    | none => "bad-op"
  | ["xstr", h] =>
    match parseHex h with
    | some s => units16 (externalizeString s)
    | none => "bad-op"
  | ["istr", h] =>
    match parseUnits h with
    | some u => toHex (internalizeString u)
    | none => "bad-op"
  | ["tagname", h] =>              -- the JavaScript property name a `js:"…"` tag denotes (tag_key_spec): its UTF-16 form
    match parseHex h with
    | some s => units16 (externalizeString s)
    | none => "bad-op"
  | ["rtstr", h] =>                -- internalize (externalize s)
    match parseHex h with
    | some s => toHex (internalizeString (externalizeString s))
    | none => "bad-op"
  | ["rtstr16", h] =>              -- externalize (internalize u)
    match parseUnits h with
    | some u => units16 (externalizeString (internalizeString u))
    | none => "bad-op"
  | ["slice", t, b, chain] =>      -- a slice built by `new T(array)` and a chain of `$subslice(s, lo, hi, max)`, handed to JavaScript and back
    match (parse t).bind toTy, (parse b).bind toGo with
    | some e, some (.arr backing) =>
      let triples := (chain.splitOn "/").mapM fun c =>
        match (c.splitOn ":").mapM String.toNat? with
        | some [lo, hi, mx] => some (lo, hi, mx)
        | _ => none
      match triples with
      | some ts =>
        let r := ts.foldl (fun (acc : Option (GV.JsSlice.SliceRep GoVal)) (x : Nat × Nat × Nat) =>
          acc.bind (fun s => GV.JsSlice.subslice s x.1 x.2.1 x.2.2)) (some (GV.JsSlice.ofArray backing))
        match r with
        | none => "panic:slice-bounds"
        | some sl =>
          let v := GoVal.slice (GV.JsSlice.sliceToNative sl)
          let ext := externalize (.slice e) v
          s!"ext={showR showJs ext} nat={(GV.JsSlice.sliceToNative sl).length} rt={showR showGo (ext.bind (internalize (.slice e)))}"
      | none => "bad-op"
    | _, _ => "bad-op"
  | ["hist", cap, evs] =>
    match cap.toNat?, (evs.splitOn "|").mapM parseHEv with
    | some c, some es => runHist c es
    | _, _ => "bad-op"
  | ["cls", t, v] =>               -- class of the externalized value (model)
    match (parse t).bind toTy, (parse v).bind toGo with
    | some τ, some g => showR (fun j => showClass (GV.Spec.JsTable.classOf j)) (externalize τ g)
    | _, _ => "bad-op"
  | ["clsspec", t, _] =>           -- the documented class (specification)
    match (parse t).bind toTy with
    | some τ => match GV.Spec.JsTable.docJsClass τ with
      | some c => showClass c
      | none => "undocumented"
    | none => "bad-op"
  | ["back", v] =>                 -- dynamic type produced by Interface() (model)
    match (parse v).bind toJs with
    | some j => showR (fun g => match tyOfGo g with | some τ => showTy τ | none => showGo g) (internIface j)
    | none => "bad-op"
  | ["backspec", v] =>             -- documented dynamic type
    match (parse v).bind toJs with
    | some j => match GV.Spec.JsTable.docBack (GV.Spec.JsTable.classOf j) with
      | some τ => showTy τ
      | none => "undocumented"
    | none => "bad-op"
  | ["cache", h] =>                -- wrapper ids handed out along a history of externalisations
    match parseNatList h with
    | some fs => natList ((runHistory WrapCache.empty fs).map (·.2))
    | none => "bad-op"
  | ["guard", cap, evs] =>
    match cap.toNat?, (evs.splitOn "|").mapM parseEv with
    | some c, some es => runGuard c es
    | _, _ => "bad-op"
  | _ => "bad-op"

end GV.Driver.C11
