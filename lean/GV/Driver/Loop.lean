/-
  GV.Driver.Loop — the line protocol loop shared by the per-property drivers.
  One operation per input line (`<topic> <op> <args…>`, blank-separated), one canonical answer line.
-/
namespace GV.Driver

def words (line : String) : List String :=
  (line.trimAscii.toString.splitOn " ").filter (· ≠ "")

partial def loopAux (h out : IO.FS.Stream) (f : List String → String) : IO Unit := do
  let line ← h.getLine
  if line.isEmpty then return ()
  out.putStrLn (f (words line))
  loopAux h out f

/-- stateless driver: every line answered independently -/
def run (f : List String → String) : IO Unit := do
  let out ← IO.getStdout
  loopAux (← IO.getStdin) out f
  out.flush

partial def loopStateAux {σ : Type} (h out : IO.FS.Stream) (f : σ → List String → σ × String) (s : σ) : IO Unit := do
  let line ← h.getLine
  if line.isEmpty then return ()
  let (s', ans) := f s (words line)
  out.putStrLn ans
  loopStateAux h out f s'

/-- stateful driver: the model state is threaded through the lines -/
def runState {σ : Type} (init : σ) (f : σ → List String → σ × String) : IO Unit := do
  let out ← IO.getStdout
  loopStateAux (← IO.getStdin) out f init
  out.flush

end GV.Driver
