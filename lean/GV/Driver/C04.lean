/-
  GV.Driver.C04 — protocol handler of gvdriver_c04 (topic `inst`).

    inst collect <fuel> <ndefs> {def} <nseeds> {event}
      def   := <pkg> <isSig 0/1> <hasNode 0/1> <mentions 0/1> <nmethods> {m} <nevents> {event}
      event := u <callee> <inScope 0/1> <nargs> {type}  |  l <c>
      type  := b<n> | o<n> | n<n> | f<n> | S<type> | P<type> | C<type> | M<type><type> | N<n>[type,…] | L<n>[type,…][type,…]
    answer: `ok p<k>=<inst>|<inst>… p<k'>=…` (packages ascending, instances in id order), inst := <obj>;<nest,…>;<args,…>
            or `none` when the fuel did not suffice.
    inst subst <nN> {type} <nθ> {type} <type>      answer: the code's substitution and the spec's, blank separated
-/
import GV.Model.Inst
import GV.Spec.Inst

namespace GV.Driver.C04
open GV.Inst

def digits : List Char → Nat → Nat × List Char
  | c :: cs, acc => if c.isDigit then digits cs (acc * 10 + (c.toNat - 48)) else (acc, c :: cs)
  | [], acc => (acc, [])

def listToTy : List Ty → Ty
  | [] => .tnil
  | t :: ts => .tcons t (listToTy ts)

mutual
  /-- parse one type; fuel = remaining characters + 1 -/
  def parseTy : Nat → List Char → Option (Ty × List Char)
    | 0, _ => none
    | fuel + 1, c :: cs =>
      match c with
      | 'b' => let (n, r) := digits cs 0; some (.basic n, r)
      | 'o' => let (n, r) := digits cs 0; some (.own n, r)
      | 'n' => let (n, r) := digits cs 0; some (.nest n, r)
      | 'f' => let (n, r) := digits cs 0; some (.free n, r)
      | 'S' => (parseTy fuel cs).map fun (t, r) => (.slice t, r)
      | 'P' => (parseTy fuel cs).map fun (t, r) => (.ptr t, r)
      | 'C' => (parseTy fuel cs).map fun (t, r) => (.chan t, r)
      | 'M' => (parseTy fuel cs).bind fun (k, r) => (parseTy fuel r).map fun (v, r') => (.map k v, r')
      | 'N' =>
        let (n, r) := digits cs 0
        (parseList fuel r).map fun (l, r') => (.named n (listToTy l), r')
      | 'K' =>
        let (n, r) := digits cs 0
        (parseList fuel r).map fun (l, r') => (.con n (listToTy l), r')
      | 'L' =>
        let (n, r) := digits cs 0
        (parseList fuel r).bind fun (l, r') => (parseList fuel r').map fun (nu, r'') => (.lnamed n (listToTy l) (listToTy nu), r'')
      | _ => none
    | _, [] => none
  /-- `[t,t,…]` -/
  def parseList : Nat → List Char → Option (List Ty × List Char)
    | 0, _ => none
    | fuel + 1, '[' :: ']' :: r => some ([], r)
    | fuel + 1, '[' :: r => parseItems fuel r
    | _, _ => none
  def parseItems : Nat → List Char → Option (List Ty × List Char)
    | 0, _ => none
    | fuel + 1, cs =>
      (parseTy fuel cs).bind fun (t, r) =>
        match r with
        | ',' :: r' => (parseItems fuel r').map fun (ts, r'') => (t :: ts, r'')
        | ']' :: r' => some ([t], r')
        | _ => none
end

def parseType (s : String) : Option Ty :=
  let cs := s.toList
  match parseTy (cs.length + 1) cs with
  | some (t, []) => some t
  | _ => none

def tyToList : Ty → List Ty
  | .tcons h t => h :: tyToList t
  | _ => []

partial def showTy : Ty → String
  | .basic n => s!"b{n}"
  | .own n => s!"o{n}"
  | .nest n => s!"n{n}"
  | .free n => s!"f{n}"
  | .slice t => "S" ++ showTy t
  | .ptr t => "P" ++ showTy t
  | .chan t => "C" ++ showTy t
  | .map k v => "M" ++ showTy k ++ showTy v
  | .named o a => s!"N{o}[" ++ ",".intercalate ((tyToList a).map showTy) ++ "]"
  | .con g a => s!"K{g}[" ++ ",".intercalate ((tyToList a).map showTy) ++ "]"
  | .lnamed o a nu => s!"L{o}[" ++ ",".intercalate ((tyToList a).map showTy) ++ "][" ++ ",".intercalate ((tyToList nu).map showTy) ++ "]"
  | .tnil => "[]"
  | .tcons h t => "[" ++ ",".intercalate ((h :: tyToList t).map showTy) ++ "]"

def showInst (i : Inst) : String :=
  s!"{i.obj};" ++ ",".intercalate (i.nest.map showTy) ++ ";" ++ ",".intercalate (i.args.map showTy)

def takeNats : Nat → List String → Option (List Nat × List String)
  | 0, r => some ([], r)
  | n + 1, w :: r => w.toNat?.bind fun x => (takeNats n r).map fun (l, r') => (x :: l, r')
  | _, [] => none

def takeTys : Nat → List String → Option (List Ty × List String)
  | 0, r => some ([], r)
  | n + 1, w :: r => (parseType w).bind fun x => (takeTys n r).map fun (l, r') => (x :: l, r')
  | _, [] => none

def takeEvents : Nat → List String → Option (List Event × List String)
  | 0, r => some ([], r)
  | n + 1, "u" :: c :: sc :: k :: r =>
    match c.toNat?, sc.toNat?, k.toNat? with
    | some c, some sc, some k =>
      (takeTys k r).bind fun (ts, r') => (takeEvents n r').map fun (es, r'') => (Event.use c ts (sc != 0) :: es, r'')
    | _, _, _ => none
  | n + 1, "l" :: c :: r => c.toNat?.bind fun c => (takeEvents n r).map fun (es, r') => (Event.decl c :: es, r')
  | _, _ => none

def takeDefs : Nat → List String → Option (List Def × List String)
  | 0, r => some ([], r)
  | n + 1, p :: sg :: nd :: mn :: nm :: r =>
    match p.toNat?, sg.toNat?, nd.toNat?, mn.toNat?, nm.toNat? with
    | some p, some sg, some nd, some mn, some nm =>
      (takeNats nm r).bind fun (ms, r1) =>
        match r1 with
        | ne :: r2 =>
          ne.toNat?.bind fun ne => (takeEvents ne r2).bind fun (es, r3) =>
            (takeDefs n r3).map fun (ds, r4) => ({ pkg := p, isSig := sg != 0, hasNode := nd != 0, mentions := mn != 0, methods := ms, events := es } :: ds, r4)
        | [] => none
    | _, _, _, _, _ => none
  | _, _ => none

def parseProg : List String → Option Prog
  | nd :: r =>
    nd.toNat?.bind fun nd => (takeDefs nd r).bind fun (ds, r1) =>
      match r1 with
      | ns :: r2 => ns.toNat?.bind fun ns => (takeEvents ns r2).bind fun (es, r3) =>
          if r3.isEmpty then some { defs := fun n => ds.getD n default, seeds := es } else none
      | [] => none
  | [] => none

def showSt (s : St) : String :=
  let ks := sortedOrder s.keys
  "ok" ++ String.join (ks.map fun p => s!" p{p}=" ++ "|".intercalate ((s.insts p).map showInst))

/-- topic `inst` -/
def handle : List String → String
  | "collect" :: fuel :: rest =>
    match fuel.toNat?, parseProg rest with
    | some fuel, some P =>
      match collect P fuel with
      | some s => showSt s
      | none => "none"
    | _, _ => "bad-op"
  | "collectrev" :: fuel :: rest =>          -- packages visited in descending order (order-independence smoke test)
    match fuel.toNat?, parseProg rest with
    | some fuel, some P =>
      match collectWith P (fun ks => (sortedOrder ks).reverse) fuel with
      | some s => showSt s
      | none => "none"
    | _, _ => "bad-op"
  | "unwrap" :: nia :: rest =>       -- inst unwrap <n> {interface atoms} <nθ> {type} <clause type>  ->  val | iface
    match nia.toNat? with
    | some nia =>
      match takeNats nia rest with
      | some (ias, nθ :: r1) =>
        match nθ.toNat? with
        | some nθ =>
          match takeTys nθ r1 with
          | some (θ, [t]) =>
            match parseType t with
            | some t => if unwrapIn (fun b => ias.contains b) [] θ t then "val" else "iface"
            | none => "bad-op"
          | _ => "bad-op"
        | none => "bad-op"
      | _ => "bad-op"
    | none => "bad-op"
  | "subst" :: nN :: rest =>
    match nN.toNat? with
    | some nN =>
      match takeTys nN rest with
      | some (N, nθ :: r1) =>
        match nθ.toNat? with
        | some nθ =>
          match takeTys nθ r1 with
          | some (θ, [t]) =>
            match parseType t with
            | some t => showTy (t.substC N θ) ++ " " ++ showTy (t.substS N θ)
            | none => "bad-op"
          | _ => "bad-op"
        | none => "bad-op"
      | _ => "bad-op"
    | none => "bad-op"
  | _ => "bad-op"

end GV.Driver.C04
