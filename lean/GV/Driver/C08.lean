import GV.Model.Defer
import GV.Model.Checks
import GV.Spec.Checks

/-! Driver for C08.
    topic `defer`:  `defer emu <prog>` | `defer ref <prog>` → `<events> <outcome>`
      prog  = functions separated by `|`; function = `n:` (named result) or `u:` + statements separated by `,`
      stmt  = c<h><f> | d<h><f>=k<v> | d<h><f>=r | R | p<v> | x<v> | r | t | s<v> | o<v> | g     (h ∈ d m p)
    topic `chk`:    one run-time check on operand values, `m…` = model (transcribed code), `s…` = Go specification. -/
namespace GV.Driver.C08
open GV.Defer

def parseHow (c : String) : Option How :=
  if c == "d" then some .direct else if c == "m" then some .mexpr else if c == "p" then some .pwrap else none

def parseStmt (t : String) : Option Stmt :=
  if t == "R" then some .deferRecover
  else if t == "r" then some .recover
  else if t == "t" then some .ret
  else if t == "g" then some .goexit
  else if t.startsWith "p" then (t.drop 1).toString.toNat?.map .panic
  else if t.startsWith "x" then (t.drop 1).toString.toNat?.map .nilDeref
  else if t.startsWith "s" then (t.drop 1).toString.toNat?.map .setResult
  else if t.startsWith "o" then (t.drop 1).toString.toNat?.map .setOuter
  else if t.startsWith "c" then
    match parseHow ((t.drop 1).toString.take 1).toString, (t.drop 2).toString.toNat? with
    | some h, some f => some (.call h f)
    | _, _ => none
  else if t.startsWith "d" then
    match (t.drop 2).toString.splitOn "=" with
    | [f, a] =>
      match parseHow ((t.drop 1).toString.take 1).toString, f.toNat? with
      | some h, some f =>
        if a == "r" then some (.defer_ h f .res)
        else if a.startsWith "k" then (a.drop 1).toString.toNat?.map fun v => .defer_ h f (.const v)
        else none
      | _, _ => none
    | _ => none
  else none

def parseFunc (t : String) : Option Func :=
  match t.splitOn ":" with
  | [k, body] =>
    let named := k == "n"
    if body == "" then some ⟨named, []⟩
    else (body.splitOn ",").mapM parseStmt |>.map fun b => ⟨named, b⟩
  | _ => none

def parseProg (t : String) : Option Prog := (t.splitOn "|").mapM parseFunc

def showEv : Ev → String
  | .run f a => s!"run{f}:{a}"
  | .recov none => "rec-"
  | .recov (some v) => s!"rec{v}"
  | .result f v => s!"res{f}:{v}"

def showOutcome : Outcome → String
  | .normal => "normal"
  | .panic v => s!"panic{v}"
  | .goexit => "goexit"
  | .oof => "oof"
  | .stuck n => s!"stuck{n}"

def showObs (o : Obs) : String :=
  (if o.trace.isEmpty then "-" else ",".intercalate (o.trace.map showEv)) ++ " " ++ showOutcome o.outcome

def fuel : Nat := 4000

def handleDefer : List String → String
  | ["emu", p] => match parseProg p with | some P => showObs (emu fuel P) | none => "bad-op"
  | ["emustate", p] => match parseProg p with
    | some P => let r := emuState fuel P
                s!"off={r.1} psd={match r.2.1 with | none => "null" | some d => toString d} ps={r.2.2.1} ds={r.2.2.2}"
    | none => "bad-op"
  | ["emuat", d, p] => match d.toNat?, parseProg p with
    | some d, some P => showObs (emuAt fuel d P)
    | _, _ => "bad-op"
  | ["depthprobe", d] => match d.toNat? with   -- $getStackDepth() at nested depth d minus at depth 0
    | some d => toString ((getStackDepth JS.init d - getStackDepth JS.init 0).toNat)
    | none => "bad-op"
  | ["ref", p] => match parseProg p with | some P => showObs (ref fuel P) | none => "bad-op"
  | _ => "bad-op"

/-! ### checks -/
open GV.Checks

def optInt (s : String) : Option (Option Int) := if s == "-" then some none else s.toInt?.map some

def showOpt {α} (f : α → String) : Option α → String
  | none => "panic"
  | some a => f a

def parseChan (s : String) : Option ChanState :=
  if s == "nil" then some .nil else if s == "open" then some .open_ else if s == "closed" then some .closed else none

def toSpecChan : ChanState → GV.Spec.Checks.Chan
  | .nil => .nil | .open_ => .open_ | .closed => .closed

/-- `nil` | `<typ>:<c|u>:<v>` -/
def parseIface (s : String) : Option Iface :=
  if s == "nil" then some .nil else
  match s.splitOn ":" with
  | [t, c, v] => match t.toNat?, v.toNat? with
    | some t, some v => some (.val t (c == "c") v)
    | _, _ => none
  | _ => none

def toSpecIface : Iface → GV.Spec.Checks.Iface
  | .nil => .nil
  | .val t c v => .val t c v

def okIf (p : Prop) [Decidable p] (r : String) : String := if p then r else "panic"

/-! types of the grid language in prefix notation, tokens separated by `,`:
    `i s e S M F` leaves, `A<n>` + type, `T<k>` + k × (`n|b|m`, type) -/
open GV.Spec.GoComparable in
mutual
def parseTy : Nat → List String → Option (Ty × List String)
  | 0, _ => none
  | _+1, [] => none
  | fuel+1, tok :: rest =>
    if tok == "i" then some (.int, rest) else if tok == "s" then some (.str, rest)
    else if tok == "e" then some (.iface, rest) else if tok == "S" then some (.slice, rest)
    else if tok == "M" then some (.map, rest) else if tok == "F" then some (.func, rest)
    else if tok.startsWith "A" then
      match (tok.drop 1).toString.toNat?, parseTy fuel rest with
      | some n, some (e, rest) => some (.arr n e, rest)
      | _, _ => none
    else if tok.startsWith "T" then
      match (tok.drop 1).toString.toNat? with
      | some k => (parseFields fuel k rest).map fun r => (.struct r.1, r.2)
      | none => none
    else none
def parseFields : Nat → Nat → List String → Option (Fields × List String)
  | 0, _, _ => none
  | _+1, 0, rest => some (.nil, rest)
  | fuel+1, k+1, kind :: rest =>
    let fk : Option FieldKind := if kind == "n" then some .named else if kind == "b" then some .blank
      else if kind == "m" then some .embedded else none
    match fk, parseTy fuel rest with
    | some fk, some (t, rest) => (parseFields fuel k rest).map fun r => (.cons fk t r.1, r.2)
    | _, _ => none
  | _+1, _+1, [] => none
end

def parseTyStr (s : String) : Option GV.Spec.GoComparable.Ty :=
  let toks := s.splitOn ","
  match parseTy (toks.length + 1) toks with
  | some (t, []) => some t
  | _ => none

/-- `nil` or `<typ>:<m1.m2…|->` -/
def parseDyn (s : String) : Option Dyn :=
  if s == "nil" then some .nil else
  match s.splitOn ":" with
  | [t, ms] => match t.toNat?, (if ms == "-" then some [] else (ms.splitOn ".").mapM String.toNat?) with
    | some t, some ms => some (.val t ms)
    | _, _ => none
  | _ => none

def parseMs (s : String) : Option (List Nat) := if s == "-" then some [] else (s.splitOn ".").mapM String.toNat?

def showAssertRes : AssertRes → String
  | .value _ => "ok"
  | .tuple _ ok => if ok then "ok=true" else "ok=false"
  | .panic => "panic"

def handleChk : List String → String
  | ["massertiface", st, d, i, form] => match parseMs st, parseDyn d, parseMs i with
    | some st, some d, some i => showAssertRes (runAssert (compileAssert st i (form == "t")) d)
    | _, _, _ => "bad-op"
  | ["sassertiface", _, d, i, form] => match parseDyn d, parseMs i with
    | some d, some i =>
      let sd : GV.Spec.Checks.Dyn := match d with | .nil => .nil | .val t ms => .val t ms
      if form == "t" then (if (GV.Spec.Checks.assertIfaceOk sd i).2 then "ok=true" else "ok=false")
      else (match GV.Spec.Checks.assertIface sd i with | some _ => "ok" | none => "panic")
    | _, _ => "bad-op"
  | ["mcomparable", t] => match parseTyStr t with | some t => toString (tyComparable t) | none => "bad-op"
  | ["scomparable", t] => match parseTyStr t with | some t => toString (GV.Spec.GoComparable.comparable t) | none => "bad-op"
  | ["mifaceeqty", t] => match parseTyStr t with | some t => showOpt toString (ifaceEqSameType t) | none => "bad-op"
  | ["sifaceeqty", t] => match parseTyStr t with
    | some t => if GV.Spec.GoComparable.comparable t then "true" else "panic" | none => "bad-op"
  | ["mkeyfor", t] => match parseTyStr t with | some t => showOpt (fun _ => "ok") (ifaceKeyFor t) | none => "bad-op"
  | ["skeyfor", t] => match parseTyStr t with
    | some t => if GV.Spec.GoComparable.comparable t then "ok" else "panic" | none => "bad-op"
  | ["mindex", len, i] => match len.toInt?, i.toInt? with
    | some len, some i => showOpt toString (indexCheck len i) | _, _ => "bad-op"
  | ["sindex", len, i] => match len.toInt?, i.toInt? with
    | some len, some i => okIf (GV.Spec.Checks.indexOk len i) (toString i) | _, _ => "bad-op"
  | ["msubslice", len, cap, low, high, max] =>
    match len.toInt?, cap.toInt?, low.toInt?, optInt high, optInt max with
    | some len, some cap, some low, some high, some max =>
      showOpt (fun r => s!"{r.1}:{r.2.1}:{r.2.2}") (subslice len cap low high max)
    | _, _, _, _, _ => "bad-op"
  | ["ssubslice", len, cap, low, high, max] =>
    match len.toInt?, cap.toInt?, low.toInt?, optInt high, optInt max with
    | some len, some cap, some low, some high, some max =>
      let h := high.getD len
      let m := max.getD cap
      okIf (GV.Spec.Checks.sliceOk cap low h m) s!"{h - low}:{m - low}:{low}"
    | _, _, _, _, _ => "bad-op"
  | ["msubstring", len, low, high] =>
    match len.toInt?, low.toInt?, optInt high with
    | some len, some low, some high => showOpt toString (substring len low high)
    | _, _, _ => "bad-op"
  | ["ssubstring", len, low, high] =>
    match len.toInt?, low.toInt?, optInt high with
    | some len, some low, some high =>
      let h := high.getD len
      okIf (GV.Spec.Checks.strSliceOk len low h) (toString (h - low))
    | _, _, _ => "bad-op"
  | ["mmakeslice", n, m] => match n.toInt?, optInt m with
    | some n, some m => showOpt (fun r => s!"{r.1}:{r.2}") (makeSlice n m) | _, _ => "bad-op"
  | ["smakeslice", n, m] => match n.toInt?, optInt m with
    | some n, some m => let c := m.getD n; okIf (GV.Spec.Checks.makeOk n c) s!"{n}:{c}" | _, _ => "bad-op"
  | ["mslice2arr", s, a] => match s.toInt?, a.toInt? with
    | some s, some a => showOpt (fun _ => "ok") (sliceToArray s a) | _, _ => "bad-op"
  | ["sslice2arr", s, a] => match s.toInt?, a.toInt? with
    | some s, some a => okIf (GV.Spec.Checks.sliceToArrayOk s a) "ok" | _, _ => "bad-op"
  | ["mquo", x, y] => match x.toInt?, y.toInt? with
    | some x, some y => showOpt toString (quoInt x y) | _, _ => "bad-op"
  | ["squo", x, y] => match x.toInt?, y.toInt? with
    | some x, some y => okIf (GV.Spec.Checks.divOk y) (toString (GV.Spec.Checks.quo x y)) | _, _ => "bad-op"
  | ["mrem", x, y] => match x.toInt?, y.toInt? with
    | some x, some y => showOpt toString (remInt x y) | _, _ => "bad-op"
  | ["srem", x, y] => match x.toInt?, y.toInt? with
    | some x, some y => okIf (GV.Spec.Checks.divOk y) (toString (GV.Spec.Checks.rem x y)) | _, _ => "bad-op"
  | ["mclose", c] => match parseChan c with | some c => showOpt (fun _ => "ok") (closeChan c) | none => "bad-op"
  | ["sclose", c] => match parseChan c with | some c => okIf (GV.Spec.Checks.closeOk (toSpecChan c)) "ok" | none => "bad-op"
  | ["msend", c] => match parseChan c with | some c => showOpt (fun _ => "ok") (sendChan c) | none => "bad-op"
  | ["ssend", c] => match parseChan c with | some c => okIf (GV.Spec.Checks.sendOk (toSpecChan c)) "ok" | none => "bad-op"
  | ["mifaceeq", a, b] => match parseIface a, parseIface b with
    | some a, some b => showOpt toString (interfaceIsEqual a b) | _, _ => "bad-op"
  | ["sifaceeq", a, b] => match parseIface a, parseIface b with
    | some a, some b => showOpt toString (GV.Spec.Checks.ifaceEq (toSpecIface a) (toSpecIface b)) | _, _ => "bad-op"
  | ["massert", a, t] => match parseIface a, t.toNat? with
    | some a, some t => showOpt toString (assertConcrete a t) | _, _ => "bad-op"
  | ["sassert", a, t] => match parseIface a, t.toNat? with
    | some a, some t => showOpt toString (GV.Spec.Checks.assertConcrete (toSpecIface a) t) | _, _ => "bad-op"
  | _ => "bad-op"

end GV.Driver.C08
