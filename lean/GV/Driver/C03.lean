import GV.Basic.Hex
import GV.Model.Sched
import GV.Spec.GoChanRefine
import GV.Model.SchedInv

/-! Driver for C03: topic `chan`.
    `chan reset`                     → fresh runtime state
    `chan ev <event>`                → one `step`; answers observation + state dump
    `chan spec <event>`              → the same step, but the answer is replaced by `SPEC:<reason>` when Go's
                                       channel semantics (GV.Spec.GoChan) does not allow it -/
namespace GV.Driver.C03
open GV.Chan GV.Sched GV.Spec.GoChanRefine

def bit (b : Bool) : String := if b then "1" else "0"

def parseCase (t : String) : Option Case :=
  if t == "d" then some .dflt
  else if t.startsWith "r" then (t.drop 1).toString.toNat?.map Case.recv
  else if t.startsWith "s" then
    match (t.drop 1).toString.splitOn ":" with
    | [c, v] => match c.toNat?, v.toNat? with
      | some c, some v => some (.send c v)
      | _, _ => none
    | _ => none
  else none

def parseCases (t : String) : Option (List Case) :=
  if t == "-" then some [] else (t.splitOn ",").mapM parseCase

def parseEvent : List String → Option Event
  | ["mk", n] => n.toNat?.map .makechan
  | ["go"] => some .spawn
  | ["send", c, v] => match c.toNat?, v.toNat? with | some c, some v => some (.send c v) | _, _ => none
  | ["recv", c] => c.toNat?.map .recv
  | ["close", c] => c.toNat?.map .close
  | ["sel", p, cs] => match p.toNat?, parseCases cs with | some p, some cs => some (.select cs p) | _, _ => none
  | ["after", c] => c.toNat?.map .after
  | ["exit"] => some .exit
  | ["main"] => some .mainDone
  | ["next"] => some .next
  | ["tick"] => some .tick
  | ["fire", i] => i.toNat?.map .fire
  | _ => none

def showPanic : Panic → String
  | .sendClosed => "panic:send-closed"
  | .closeClosed => "panic:close-closed"
  | .closeNil => "panic:close-nil"
  | .nilElem => "panic:nil-elem"

def showWake : Wake → String
  | .none => "none"
  | .recv v ok => s!"recv:{v}:{bit ok}"
  | .sent false => "sent"
  | .sent true => "panic:send-closed"
  | .sel i none => s!"sel:{i}"
  | .sel i (some (v, ok)) => s!"sel:{i}:{v}:{bit ok}"

def showObs : Obs → String
  | .invalid => "invalid"
  | .ok => "ok"
  | .recvd v ok => s!"recv:{v}:{bit ok}"
  | .selected i none => s!"sel:{i}"
  | .selected i (some (v, ok)) => s!"sel:{i}:{v}:{bit ok}"
  | .blocked => "blocked"
  | .panic p => showPanic p
  | .resumed g w => s!"run:{g}:{showWake w}"
  | .idle => "idle"

def join (sep : String) (l : List String) : String := if l.isEmpty then "-" else sep.intercalate l

def showChan (c : Chan) : String :=
  s!"{c.cap}/{join "." (c.buf.map toString)}/{c.sendQ.length}/{c.recvQ.length}/{bit c.closed}"

def showGor (g : Gor) : String := (if g.asleep then "a" else "r") ++ (if g.exit then "x" else "")

def showTimer (t : Nat × TimerKind) : String :=
  match t.2 with
  | .runSched => s!"{t.1}:r"
  | .closeChan c => s!"{t.1}:c{c}"

def dump (s : State) : String :=
  let cur := match s.cur with | some g => toString g | none => "-"
  s!"cur={cur} loop={bit s.inLoop} sched={join "," (s.scheduled.map toString)} awake={s.awake} total={s.total} " ++
  s!"main={bit s.mainFinished} dead={s.deadlocks} timers={join "," (s.timers.map showTimer)} " ++
  s!"ch={join ";" (s.chans.map showChan)} g={join "," (s.gs.map showGor)}"

/-- driver state: model state + "the spec has already been violated in this script" -/
structure DState where
  s : State
  poisoned : Bool

def initD : DState := ⟨GV.Sched.init, false⟩

def handle (d : DState) : List String → DState × String
  | ["reset"] => (initD, "reset")
  | "ev" :: rest =>
    match parseEvent rest with
    | none => (d, "bad-event")
    | some ev => let (s', o) := step d.s ev; ({ d with s := s' }, s!"{showObs o} {dump s'}")
  | "spec" :: rest =>
    match parseEvent rest with
    | none => (d, "bad-event")
    | some ev =>
      let (s', o) := step d.s ev
      let line := s!"{showObs o} {dump s'}"
      if d.poisoned then (⟨s', true⟩, line)
      else match verdict d.s ev o s', deadlockVerdict d.s s' with
        | some m, _ => (⟨s', true⟩, s!"SPEC:{m}")
        | none, some m => (⟨s', true⟩, s!"SPEC:{m}")
        | none, none =>
          if GV.SchedInv.globalInv s' then (⟨s', false⟩, line) else (⟨s', true⟩, "SPEC:global-invariant-broken")
  | _ => (d, "bad-op")

end GV.Driver.C03
