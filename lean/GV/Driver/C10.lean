import GV.Basic.Hex
import GV.Model.Link
import GV.Model.Linkname

/-!
  Driver of property C10. Topics

  `link deps <runtime> <main> <graph>`          order of the packages in the emitted program
  `link inits <runtime> <main> <graph>`         enter/done events of the `$init` protocol (`+p` / `-p`)
  `link machine <runtime> <main> <graph> <k>`   the same by running the small-step machine, every item suspending (i+k) % 3 times
  `link imports <p1,p2,…>`                       `importDecls` order
  `link files <n1,n2,…>`                         `Sources.Sort` order
  `link boot`                                    the tail of `WriteProgramCode`
  `link prog <js|go> <desc>`                     predicted trace of a generated program
  `link allowed <js|go> <desc> <trace>`          is the trace inside the set the property allows
  `ln file <pkghex> <unsafe> (<node> <commenthex>)*`   `ParseGoLinknames` on a file
  `ln ismethod <pkghex> <namehex>`               `symbol.Name.IsMethod`
  `ln sym <pkghex> <recvkind> <typhex> <namehex>` `symbol.New(...).String()`

  graph  = `p=i1,i2;q=;…`  (names without blanks, `=`, `;`, `,`)
  desc   = pkg `|` pkg …;  pkg = path `;` imports `;` file `&` file …;  file = name `^` decl `,` decl …
           decl = `v:name:dep+dep` (variable with initialiser and the same-package variables it depends on)
                | `z:name` (variable without initialiser) | `i` (an init function) | `m` (func main)
           the LAST package is the main package.
  trace tokens: `V:<path>.<name>`, `I:<path>/<file>#<k>`, `M`, each followed by `<` (begin) or `>` (end).
-/
namespace GV.Driver.C10
open GV.Hex GV.Link GV.Linkname

def splitList (s : String) (sep : String) : List String :=
  if s == "-" || s == "" then [] else s.splitOn sep

/-! ### graphs -/

abbrev Graph := List (String × List String)

def parseGraph (s : String) : Graph :=
  (splitList s ";").filterMap fun e =>
    match e.splitOn "=" with
    | [p, is] => some (p, sortImports (splitList is ","))
    | _ => none

def gImports (g : Graph) (p : String) : List String :=
  match g.find? (·.1 == p) with
  | some e => e.2
  | none => []

def showEv : Ev String → String
  | .enter p => "+" ++ p
  | .begin p i => s!"{p}#{i}<"
  | .yield => "~"
  | .fin p i => s!"{p}#{i}>"
  | .done p => "-" ++ p

partial def runMachine (G : Prog String) (sched : String → Nat → Nat) (s : State String) (gas : Nat) : State String :=
  if gas == 0 || s.stack.isEmpty then s else runMachine G sched (step G sched s) (gas - 1)

/-! ### program descriptions -/

inductive Decl where
  | v (name : String) (deps : List String)
  | z (name : String)
  | i
  | m
deriving Repr

structure PFile where
  name : String
  decls : List Decl

structure Pkg where
  path : String
  imports : List String
  files : List PFile

def parseDecl (s : String) : Option Decl :=
  match s.splitOn ":" with
  | ["v", n, d] => some (.v n (splitList d "+"))
  | ["z", n] => some (.z n)
  | ["i"] => some .i
  | ["m"] => some .m
  | _ => none

def parseFile (s : String) : Option PFile :=
  match s.splitOn "^" with
  | [n, ds] => (splitList ds ",").mapM parseDecl |>.map fun d => ⟨n, d⟩
  | _ => none

def parsePkg (s : String) : Option Pkg :=
  match s.splitOn ";" with
  | [p, is, fs] => (splitList fs "&").mapM parseFile |>.map fun f => ⟨p, splitList is ",", f⟩
  | _ => none

def parseProg (s : String) : Option (List Pkg) := (s.splitOn "|").mapM parsePkg

/-- files of a package in the order the toolchain processes them -/
def orderedFiles (mode : String) (p : Pkg) : List PFile :=
  let names := p.files.map (·.name)
  let sorted := if mode == "js" then sortFiles names else (sortFiles names).reverse
  sorted.filterMap fun n => p.files.find? (·.name == n)

/-- variables with an initialiser -/
def fileVars (f : PFile) : List (String × List String) :=
  f.decls.filterMap fun | .v n d => some (n, d) | _ => none

/-- all variables in declaration order; one without initialiser is a node of the dependency graph too (it is
    "initialised" at its place in the order, Go specification, section Package initialization) -/
def fileAllVars (f : PFile) : List (String × List String) :=
  f.decls.filterMap fun | .v n d => some (n, d) | .z n => some (n, []) | _ => none

def countInits (f : PFile) : Nat := (f.decls.filter fun | .i => true | _ => false).length
def hasMain (f : PFile) : Bool := f.decls.any fun | .m => true | _ => false

def item (tok : String) : List String := [tok ++ "<", tok ++ ">"]

/-- trace of one package's body: variables in the specification's order over the declaration order induced by the
    file order, then the init functions file by file, then main.main -/
def pkgTrace (mode : String) (p : Pkg) : List String :=
  let files := orderedFiles mode p
  let vars := files.flatMap fileAllVars
  let inited := (files.flatMap fileVars).map (·.1)
  let depsOf := fun v => match vars.find? (·.1 == v) with | some e => e.2 | none => []
  let order := (specVarOrder depsOf vars.length (vars.map (·.1))).filter inited.contains
  let vs := order.flatMap fun v => item s!"V:{p.path}.{v}"
  let is := files.flatMap fun f => (List.range (countInits f)).flatMap fun k => item s!"I:{p.path}/{f.name}#{k}"
  let mn := if files.any hasMain then item "M" else []
  vs ++ is ++ mn

def progTrace (mode : String) (ps : List Pkg) : List String :=
  match ps.getLast? with
  | none => []
  | some mainP =>
    let g : Graph := ps.map fun p => (p.path, sortImports p.imports)
    let order := importDependencies (gImports g) (ps.length + 2) "runtime" mainP.path
    order.flatMap fun path =>
      match ps.find? (·.path == path) with
      | some p => pkgTrace mode p
      | none => []

/-! ### the allowed set (the property's partial order) -/

def indexOfTok (tr : List String) (t : String) : Option Nat :=
  let rec go : List String → Nat → Option Nat
    | [], _ => none
    | x :: xs, n => if x == t then some n else go xs (n + 1)
  go tr 0

def before (tr : List String) (a b : String) : Bool :=
  match indexOfTok tr a, indexOfTok tr b with
  | some i, some j => i < j
  | _, _ => false

def pkgItems (p : Pkg) : List String :=
  let vs := p.files.flatMap fun f => (fileVars f).map fun v => s!"V:{p.path}.{v.1}"
  let is := p.files.flatMap fun f => (List.range (countInits f)).map fun k => s!"I:{p.path}/{f.name}#{k}"
  let mn := if p.files.any hasMain then ["M"] else []
  vs ++ is ++ mn

def firstBad (checks : List (String × Bool)) : String :=
  match checks.find? (fun c => !c.2) with
  | some c => "bad:" ++ c.1
  | none => "ok"

def allowed (mode : String) (ps0 : List Pkg) (tr : List String) : String :=
  -- only the packages reachable from the main package are part of the program
  let g : Graph := ps0.map fun p => (p.path, sortImports p.imports)
  let reach := match ps0.getLast? with
    | some m => importDependencies (gImports g) (ps0.length + 2) "runtime" m.path
    | none => []
  let ps := ps0.filter fun p => reach.contains p.path
  let all := ps.flatMap pkgItems
  let expected := all.flatMap item
  -- (a) every item begins and ends exactly once, nothing else is in the trace
  let once := expected.all (fun t => tr.count t == 1) && tr.all (fun t => expected.contains t)
  -- (b) nothing overtakes a running (possibly suspended) item: begin is immediately followed by its end
  let rec adj : List String → Bool
    | a :: b :: rest => (a.endsWith "<" && b == (a.dropEnd 1).toString ++ ">") && adj rest
    | [] => true
    | [_] => false
  -- (c) a package's items come after all items of every package it imports
  let afterImports := ps.all fun p => p.imports.all fun q =>
    match ps.find? (·.path == q) with
    | none => true
    | some qp => (pkgItems qp).all fun a => (pkgItems p).all fun b => before tr (a ++ ">") (b ++ "<")
  -- (d) a variable comes after the variables its initialiser depends on
  let varDeps := ps.all fun p => p.files.all fun f => (fileVars f).all fun v =>
    v.2.all fun d => d == v.1 || !((p.files.flatMap fileVars).any (·.1 == d)) || before tr s!"V:{p.path}.{d}>" s!"V:{p.path}.{v.1}<"
  -- (e) variables before init functions before main.main
  let phases := ps.all fun p =>
    let vs := (pkgItems p).filter (·.startsWith "V:")
    let is := (pkgItems p).filter (·.startsWith "I:")
    vs.all (fun a => is.all fun b => before tr (a ++ ">") (b ++ "<"))
  -- (f) init functions: source order within a file, files in the fixed name-based order
  let inits := ps.all fun p =>
    let seq := (orderedFiles mode p).flatMap fun f => (List.range (countInits f)).map fun k => s!"I:{p.path}/{f.name}#{k}"
    let rec chain : List String → Bool
      | a :: b :: rest => before tr (a ++ ">") (b ++ "<") && chain (b :: rest)
      | _ => true
    chain seq
  -- (g) main.main last
  let mainLast := match tr.getLast? with
    | some t => t == "M>" || !(all.contains "M")
    | none => all.isEmpty
  firstBad [("once", once), ("overtake", adj tr), ("after-imports", afterImports), ("var-deps", varDeps),
            ("vars-before-inits", phases), ("init-order", inits), ("main-last", mainLast)]

/-- topic `link` -/
def handleLink : List String → String
  | ["deps", rt, mn, g] =>
    let gr := parseGraph g
    ",".intercalate (importDependencies (gImports gr) (gr.length + 2) rt mn)
  | ["inits", rt, mn, g] =>
    let gr := parseGraph g
    let G : Prog String := { imports := gImports gr, nitems := fun _ => 0 }
    ",".intercalate ((programTrace G (fun _ _ => 0) (gr.length + 2) rt mn).map showEv)
  | ["machine", rt, mn, g, k] =>
    let gr := parseGraph g
    let k := k.toNat?.getD 0
    let G : Prog String := { imports := gImports gr, nitems := fun p => p.length % 3 }
    let sched := fun (p : String) (i : Nat) => (p.length + i + k) % 3
    let s1 := runMachine G sched (bootState G rt) 100000
    let s2 := runMachine G sched (call G s1 mn) 100000
    ",".intercalate (s2.trace.map showEv)
  | ["direct", rt, mn, g, k] =>
    let gr := parseGraph g
    let k := k.toNat?.getD 0
    let G : Prog String := { imports := gImports gr, nitems := fun p => p.length % 3 }
    let sched := fun (p : String) (i : Nat) => (p.length + i + k) % 3
    ",".intercalate ((programTrace G sched (gr.length + 2) rt mn).map showEv)
  | ["closure", root, g] =>
    let gr := parseGraph g
    ",".intercalate (collect (gImports gr) (gr.length + 2) [] root)
  | ["imports", l] => ",".intercalate (sortImports (splitList l ","))
  | ["files", l] => ",".intercalate (sortFiles (splitList l ","))
  | ["boot"] => ",".intercalate ["finishSetup", "synthesizeMethods", "initLinknames", "runtime.$init", "$go(main.$init)"]
  | ["prog", mode, d] =>
    match parseProg d with
    | some ps => let t := progTrace mode ps; if t.isEmpty then "-" else ",".intercalate t
    | none => "bad-desc"
  | ["allowed", mode, d, tr] =>
    match parseProg d with
    | some ps => allowed mode ps (splitList tr ",")
    | none => "bad-desc"
  | _ => "bad-op"

/-! ### linkname -/

/-- hex of the UTF-8 bytes of a text -/
def ofHex (h : String) : Option Text :=
  match parseHex h with
  | some bs => (String.fromUTF8? (ByteArray.mk (bs.map UInt8.ofNat).toArray)).map String.toList
  | none => none
def toHexT (t : Text) : String := toHex ((String.ofList t).toUTF8.toList.map UInt8.toNat)

def parseNode : String → Option Node
  | "missing" => some .missing
  | "func0" => some (.func false)
  | "func1" => some (.func true)
  | "type" => some .typeSpec
  | "value" => some .valueSpec
  | _ => none

def showDecision : Decision → String
  | .skip => "skip"
  | .accept l => s!"accept:{toHexT l.reference.pkg}:{toHexT l.reference.name}:{toHexT l.implementation.pkg}:{toHexT l.implementation.name}"
  | .errUsage => "err:usage"
  | .errUnsafe => "err:unsafe"
  | .errNotFound => "err:notfound"
  | .errNotFunc => "err:notfunc"
  | .errInsert => "err:insert"

/-- `<node> <commenthex>` pairs; the comment's local name (field 1) is looked up as `<node>` -/
def fileDecisions (pkg : Text) (uns : Bool) : List String → Option (List String)
  | [] => some []
  | nd :: c :: rest =>
    match parseNode nd, ofHex c, fileDecisions pkg uns rest with
    | some n, some t, some ds => some (showDecision (GV.Linkname.decide pkg uns (fun _ => n) t) :: ds)
    | _, _, _ => none
  | _ => none

/-- topic `ln` -/
def handleLn : List String → String
  | "file" :: pkg :: uns :: rest =>
    match ofHex pkg, fileDecisions ((ofHex pkg).getD []) (uns == "1") rest with
    | some _, some ds =>
      -- the API returns the accepted directives and the errors as two lists, each in comment order
      let ds := ds.filter (·.startsWith "accept") ++ ds.filter (·.startsWith "err")
      if ds.isEmpty then "-" else " ".intercalate ds
    | _, _ => "bad-op"
  | ["ismethod", pkg, name] =>
    match ofHex pkg, ofHex name with
    | some p, some n =>
      match isMethod ⟨p, n⟩ with
      | some (r, m) => s!"{toHexT r} {toHexT m}"
      | none => "none"
    | _, _ => "bad-op"
  | ["sym", pkg, kind, typ, name] =>
    match ofHex pkg, ofHex typ, ofHex name with
    | some p, some t, some n =>
      let r := match kind with | "value" => Recv.value t | "pointer" => Recv.pointer t | _ => Recv.none
      toHexT (symbolNew p r n).str
    | _, _, _ => "bad-op"
  | ["call", how] =>
    -- the recorded witness: package pa declares `//go:linkname Rev m/pb.revimpl; func Rev(x int) int`
    let ref : Sym := ⟨"m/pa".toList, "Rev".toList⟩
    let impl : Sym := ⟨"m/pb".toList, "revimpl".toList⟩
    match callTarget [⟨ref, impl⟩] [impl, ref] ref (how == "same") with
    | some _ => "resolved"
    | none => "unresolved"
  | ["dotted", form] =>
    -- the recorded witness: package `m/pk.v2` (last path element contains a dot) defines `impl`; package `m` declares
    -- `//go:linkname f m/pk%2ev2.impl` (the spelling gc requires) or `//go:linkname f m/pk.v2.impl`
    let text := if form == "esc" then "//go:linkname f m/pk%2ev2.impl" else "//go:linkname f m/pk.v2.impl"
    let ref : Sym := ⟨"m".toList, "f".toList⟩
    match readLinkname "m".toList text.toList with
    | .link l =>
      match resolve [l] [⟨"m/pk.v2".toList, "impl".toList⟩, ref] ref with
      | some _ => "resolved"
      | none => "unresolved"
    | _ => "no-directive"
  | "pkg" :: pkg :: files =>
    -- files: `name|unsafe|node|commenthex` (at most one directive per file; node `none` = no directive)
    match ofHex pkg with
    | none => "bad-op"
    | some pk =>
      let parsed := files.filterMap fun f =>
        match f.splitOn "|" with
        | [name, uns, node, com] =>
          if node == "none" then some (name, (⟨[], []⟩ : FileResult))
          else match parseNode node, ofHex com with
            | some nd, some c => some (name, parseFileComments pk (uns == "1") (fun _ => nd) [c])
            | _, _ => none
        | _ => none
      if parsed.length != files.length then "bad-op" else
      -- the files are processed in `Sources.Sort` order
      let order := GV.Link.sortFiles (parsed.map (·.1))
      let inOrder := order.filterMap fun n => parsed.find? (·.1 == n)
      let r := parsePackage (inOrder.map (·.2))
      if !packageRejected (inOrder.map (·.2)) then "built"
      else
        let first := match inOrder.find? (fun f => !f.2.errs.isEmpty) with
          | some f => f.1
          | none => "?"
        match r.errs with
        | e :: _ => s!"{showDecision e}@{first} n={r.errs.length}"
        | [] => "built"
  | ["conflict"] =>
    -- package m: `//go:linkname f m/lib.impl1`, `//go:linkname f m/lib.impl2`, `//go:linkname g m/lib.impl3`
    let f : Sym := ⟨"m".toList, "f".toList⟩
    let g : Sym := ⟨"m".toList, "g".toList⟩
    let mk := fun (n : String) => (⟨"m/lib".toList, n.toList⟩ : Sym)
    let r := LinkSet.add ⟨[], []⟩ [⟨f, mk "impl1"⟩, ⟨f, mk "impl2"⟩, ⟨g, mk "impl3"⟩]
    let shw := fun (ref : Sym) => match findImplementation r.1.byReference ref with
      | some i => String.ofList i.name
      | none => "unresolved"
    s!"f={shw f} g={shw g}"
  | ["split", ext] =>
    match ofHex ext with
    | some e => let r := splitTarget e; s!"{toHexT r.1} {toHexT r.2}"
    | none => "bad-op"
  | _ => "bad-op"

end GV.Driver.C10
