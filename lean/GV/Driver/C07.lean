import GV.Basic.Hex
import GV.Model.Slice
import GV.Model.Heap
import GV.Spec.Slice
import GV.Spec.GoValue
import GV.Model.Ptr

/-!
  Line protocol of `gvdriver_c07` (topics `slice` and `heap`); see checks/c07.py for the generator.
  Cells travel as comma separated decimal integers (`-` = empty), absent indices as `_`.
-/
namespace GV.Driver.C07
open GV.Hex GV.Slice

def optInt (s : String) : Option (Option Int) :=
  if s == "_" then some none else (s.toInt?).map some

def kindOf : String → Option Kind
  | "t" => some .typed | "p" => some .plain | "s" => some .spine | _ => none

def hdrOf (arr : Nat) (off len cap nil : String) : Option Hdr :=
  match off.toNat?, len.toNat?, cap.toNat?, nil.toNat? with
  | some o, some l, some c, some n => some { arr := arr, off := o, len := l, cap := c, isNil := n != 0 }
  | _, _, _, _ => none

def b (x : Bool) : String := if x then "1" else "0"

def showHdr (h : Hdr) : String := s!"{h.off} {h.len} {h.cap} {b h.isNil}"

/-- what a Go program can observe of an append: reallocated?, new length, cap ≥ len, the elements, the cells of
    the ORIGINAL backing array afterwards, and whether element objects are shared with the old array -/
def showGrown (A0 : Arrays Int) (s : Hdr) (g : Grown Int) : String :=
  let realloc := g.hdr.arr != s.arr
  s!"realloc={b realloc} len={g.hdr.len} capok={b (decide (g.hdr.len ≤ g.hdr.cap))} view={intList (view g.arrays g.hdr)} old={intList (getArr g.arrays s.arr)} reused={b g.reusedElemObjects} n={A0.length}"

def handleSlice : List String → String
  | ["subslice", off, len, cap, nil, low, high, max] =>
    match hdrOf 0 off len cap nil, low.toInt?, optInt high, optInt max with
    | some h, some lo, some hi, some mx =>
      match subslice h lo hi mx with
      | some r => showHdr r
      | none => "panic:slice-bounds"
    | _, _, _, _ => "bad-op"
  | ["ssubslice", off, len, cap, nil, low, high, max] =>     -- the Go specification
    match hdrOf 0 off len cap nil, low.toInt?, optInt high, optInt max with
    | some h, some lo, some hi, some mx =>
      if GV.Spec.Slice.inRange h.len h.cap lo hi mx then
        let r := GV.Spec.Slice.subslice { arr := 0, start := h.off, len := h.len, cap := h.cap, isNil := h.isNil } lo hi mx
        s!"{r.start} {r.len} {r.cap} {b r.isNil}"
      else "panic:slice-bounds"
    | _, _, _, _ => "bad-op"
  | ["append", k, cells, off, len, cap, nil, vals] =>
    match kindOf k, parseIntList cells, hdrOf 0 off len cap nil, parseIntList vals with
    | some k, some a, some h, some vs => showGrown [a] h (append k 0 [a] h vs)
    | _, _, _, _ => "bad-op"
  | ["sappend", _k, cells, off, len, cap, nil, vals] =>      -- the Go specification
    match parseIntList cells, hdrOf 0 off len cap nil, parseIntList vals with
    | some a, some h, some vs =>
      let n := vs.length
      let realloc := decide (GV.Spec.Slice.mustReallocate h.len h.cap n) && n != 0
      let old := if realloc || n == 0 then a else GV.Spec.Slice.moveCells a vs (h.off + h.len) 0 n
      s!"realloc={b realloc} len={h.len + n} capok=1 view={intList (view [a] h ++ vs)} old={intList old} reused=0 n=1"
    | _, _, _ => "bad-op"
  | ["appendcap", k, cells, off, len, cap, nil, vals] =>      -- implementation-defined growth (model only)
    match kindOf k, parseIntList cells, hdrOf 0 off len cap nil, parseIntList vals with
    | some k, some a, some h, some vs => toString (append k 0 [a] h vs).hdr.cap
    | _, _, _, _ => "bad-op"
  | ["appendslice", k, cells, off, len, cap, nil, same, scells, soff, slen] =>
    match kindOf k, parseIntList cells, hdrOf 0 off len cap nil, parseIntList scells, soff.toNat?, slen.toNat? with
    | some k, some a, some h, some sa, some so, some sl =>
      let A : Arrays Int := if same == "1" then [a] else [a, sa]
      let t : Hdr := { arr := if same == "1" then 0 else 1, off := so, len := sl, cap := sl, isNil := false }
      let g := appendSlice k 0 A h t
      showGrown A h g ++ s!" src={intList (getArr g.arrays t.arr)}"
    | _, _, _, _, _, _ => "bad-op"
  | ["sappendslice", _k, cells, off, len, cap, nil, same, scells, soff, slen] =>
    match parseIntList cells, hdrOf 0 off len cap nil, parseIntList scells, soff.toNat?, slen.toNat? with
    | some a, some h, some sa, some so, some sl =>
      let srcArr := if same == "1" then a else sa
      let vs := (srcArr.drop so).take sl
      let n := vs.length
      let realloc := decide (GV.Spec.Slice.mustReallocate h.len h.cap n) && n != 0
      let old := if realloc || n == 0 then a else GV.Spec.Slice.moveCells a vs (h.off + h.len) 0 n
      let src := if same == "1" then old else sa
      s!"realloc={b realloc} len={h.len + n} capok=1 view={intList (view [a] h ++ vs)} old={intList old} reused=0 n={if same == "1" then 1 else 2} src={intList src}"
    | _, _, _, _, _ => "bad-op"
  | ["copy", k, cells, doff, dlen, same, scells, soff, slen] =>
    match kindOf k, parseIntList cells, doff.toNat?, dlen.toNat?, parseIntList scells, soff.toNat?, slen.toNat? with
    | some k, some a, some d, some dl, some sa, some so, some sl =>
      let A : Arrays Int := if same == "1" then [a] else [a, sa]
      let dst : Hdr := { arr := 0, off := d, len := dl, cap := dl, isNil := false }
      let src : Hdr := { arr := if same == "1" then 0 else 1, off := so, len := sl, cap := sl, isNil := false }
      let r := copySlice k A dst src
      s!"{r.2} {intList (getArr r.1 0)}"
    | _, _, _, _, _, _, _ => "bad-op"
  | ["scopy", _k, cells, doff, dlen, same, scells, soff, slen] =>
    match parseIntList cells, doff.toNat?, dlen.toNat?, parseIntList scells, soff.toNat?, slen.toNat? with
    | some a, some d, some dl, some sa, some so, some sl =>
      let n := GV.Spec.Slice.copyCount dl sl
      let src := if same == "1" then a else sa
      s!"{n} {intList (GV.Spec.Slice.moveCells a src d so n)}"
    | _, _, _, _, _, _ => "bad-op"
  | ["growcap", mn, old] =>
    match mn.toNat?, old.toNat? with
    | some m, some o => toString (calculateNewCapacity m o)
    | _, _ => "bad-op"
  | ["make", len, cap] =>
    match len.toInt?, optInt cap with
    | some l, some c =>
      match makeSlice (0 : Int) [] l c with
      | .ok A s => s!"{s.len} {s.cap} {intList (view A s)}"
      | .panicLen => "panic:makeslice-len"
      | .panicCap => "panic:makeslice-cap"
    | _, _ => "bad-op"
  | ["smake", len, cap] =>
    match len.toInt?, optInt cap with
    | some l, some c =>
      if GV.Spec.Slice.makeOk l c then s!"{l} {c.getD l} {intList (List.replicate l.toNat 0)}"
      else if l < 0 ∨ l > 2147483647 then "panic:makeslice-len" else "panic:makeslice-cap"
    | _, _ => "bad-op"
  | ["toarray", k, off, len, cap, nil, n] =>
    match kindOf k, hdrOf 0 off len cap nil, n.toNat? with
    | some k, some h, some n =>
      match sliceToGoArray k h n with
      | .panicLength => "panic:length"
      | .nilPtr => "nil"
      | .shares _ o => s!"shares {o}"
      | .freshEmpty => "fresh-empty"
      | .unsupported => "panic:unsupported"
    | _, _, _ => "bad-op"
  | _ => "bad-op"


/-! ### slice programs: several slice variables over shared backing arrays ([]int) -/

structure PState where
  arrays : Arrays Int
  vars : List Hdr
  out : List (List Int)

def progStep (σ : PState) (st : String) : Option PState :=
  match st.splitOn ":" with
  | ["mk", len, cap] =>
    match len.toNat?, cap.toNat? with
    | some l, some c =>
      match makeSlice (0 : Int) σ.arrays l (some c) with
      | .ok A h =>
        let a := (List.range c).map fun i => if i < l then ((i : Int) + 1) else 0
        some { σ with arrays := A.set h.arr a, vars := σ.vars ++ [h] }
      | _ => none
    | _, _ => none
  | ["sub", a, lo, hi, mx] =>
    match a.toNat?, lo.toInt?, optInt hi, optInt mx with
    | some a, some lo, some hi, some mx =>
      match σ.vars[a]? with
      | some h => match subslice h lo hi mx with
        | some r => some { σ with vars := σ.vars ++ [r] }
        | none => none
      | none => none
    | _, _, _, _ => none
  | ["clamp", v, n] =>
    match v.toNat?, n.toInt? with
    | some v, some n =>
      match σ.vars[v]? with
      | some h => match subslice h 0 (some n) (some n) with
        | some r => some { σ with vars := σ.vars.set v r }
        | none => none
      | none => none
    | _, _ => none
  | ["app", a, vals] =>
    match a.toNat?, parseIntList vals with
    | some a, some vs =>
      match σ.vars[a]? with
      | some h => let g := append .typed 0 σ.arrays h vs
                  some { σ with arrays := g.arrays, vars := σ.vars ++ [g.hdr] }
      | none => none
    | _, _ => none
  | ["apps", a, b] =>
    match a.toNat?, b.toNat? with
    | some a, some b =>
      match σ.vars[a]?, σ.vars[b]? with
      | some h, some t => let g := appendSlice .typed 0 σ.arrays h t
                          some { σ with arrays := g.arrays, vars := σ.vars ++ [g.hdr] }
      | _, _ => none
    | _, _ => none
  | ["set", a, i, v] =>
    match a.toNat?, i.toNat?, v.toInt? with
    | some a, some i, some v =>
      match σ.vars[a]? with
      | some h => if i < h.len then
                    some { σ with arrays := σ.arrays.set h.arr ((getArr σ.arrays h.arr).set (h.off + i) v) }
                  else none
      | none => none
    | _, _, _ => none
  | ["cpy", a, b] =>
    match a.toNat?, b.toNat? with
    | some a, some b =>
      match σ.vars[a]?, σ.vars[b]? with
      | some d, some s => let r := copySlice .typed σ.arrays d s
                          some { σ with arrays := r.1, out := σ.out ++ [[(r.2 : Int)]] }
      | _, _ => none
    | _, _ => none
  | ["dump", v] =>
    match v.toNat? with
    | some v => match σ.vars[v]? with
      | some h => some { σ with out := σ.out ++ [((h.len : Int)) :: view σ.arrays h] }
      | none => none
    | none => none
  | _ => none

def runSliceProg (p : String) : String :=
  match (p.splitOn ";").foldlM progStep { arrays := [], vars := [], out := [] } with
  | some σ => if σ.out.isEmpty then "none" else ";".intercalate (σ.out.map intList)
  | none => "bad-op"

/-! ### heap topic -/
open GV.Heap

/-- prefix type syntax over '.'-separated tokens: i | p τ | l τ | m | f | sN τ1 … τN | aN τ -/
def parseTy : Nat → List String → Option (Ty × List String)
  | 0, _ => none
  | fuel + 1, tok :: rest =>
    if tok == "i" then some (.int, rest)
    else if tok == "m" then some (.map, rest)
    else if tok == "f" then some (.iface, rest)
    else if tok == "p" then (parseTy fuel rest).map fun (t, r) => (.ptr t, r)
    else if tok == "l" then (parseTy fuel rest).map fun (t, r) => (.slice t, r)
    else if tok.startsWith "a" then
      match (tok.drop 1).toNat?, parseTy fuel rest with
      | some n, some (t, r) => some (.array n t, r)
      | _, _ => none
    else if tok.startsWith "s" then
      match (tok.drop 1).toNat? with
      | some n =>
        let rec fields (k : Nat) (fuel' : Nat) (toks : List String) (acc : List Ty) : Option (List Ty × List String) :=
          match k, fuel' with
          | 0, _ => some (acc.reverse, toks)
          | _, 0 => none
          | k + 1, f + 1 =>
            match parseTy fuel toks with
            | some (t, r) => fields k f r (t :: acc)
            | none => none
        (fields n (n + 1) rest []).map fun (fs, r) => (.struct fs, r)
      | none => none
    else none
  | _, [] => none

def parseType (s : String) : Option Ty :=
  let toks := s.splitOn "."
  match parseTy (toks.length + 1) toks with
  | some (t, []) => some t
  | _ => none

def parsePath (s : String) : Option (List Nat) :=
  if s == "_" then some [] else (s.splitOn ".").mapM String.toNat?

def parseCtx : String → Option Ctx
  | "assign" => some .assign | "define" => some .define | "arg" => some .arg | "result" => some .result
  | "rangeValue" => some .rangeValue | "rangeOperand" => some .rangeOperand | "send" => some .send
  | "recv" => some .recv | "mapStore" => some .mapStore | "mapLoad" => some .mapLoad
  | "elemStore" => some .elemStore | "fieldStore" => some .fieldStore | "ptrStore" => some .ptrStore
  | "litElem" => some .litElem | "box" => some .box | "unbox" => some .unbox
  | "recvValue" => some .recvValue | "methodValue" => some .methodValue
  | "boundCall" => some .boundCall | "ifaceCall" => some .ifaceCall
  | "deferRecv" => some .deferRecv | "goRecv" => some .goRecv | "deref" => some .deref | "conv" => some .conv | _ => none

/-- `ctx>ctx>x/path` -/
def parseExpr (s : String) : Option Expr :=
  match (s.splitOn ">").reverse with
  | last :: ctxs =>
    match last.splitOn "/" with
    | [x, p] =>
      match x.toNat?, parsePath p with
      | some x, some p => ctxs.foldlM (fun e c => (parseCtx c).map fun c => Expr.via c e) (Expr.loc x p)
      | _, _ => none
    | _ => none
  | [] => none

def parseStmt (s : String) : Option Stmt :=
  match s.splitOn ":" with
  | ["decl", t] => (parseType t).map .decl
  | ["bind", c, e] => match parseCtx c, parseExpr e with
    | some c, some e => some (.bind c e)
    | _, _ => none
  | ["store", c, x, p, e] => match parseCtx c, x.toNat?, parsePath p, parseExpr e with
    | some c, some x, some p, some e => some (.store c x p e)
    | _, _, _, _ => none
  | ["set", x, p, n] => match x.toNat?, parsePath p, n.toInt? with
    | some x, some p, some n => some (.setLeaf x p n)
    | _, _, _ => none
  | ["dump", x] => x.toNat?.map .dump
  | _ => none

def parseProg (s : String) : Option (List Stmt) := (s.splitOn ";").mapM parseStmt

def showOut (o : List (List Int)) : String :=
  if o.isEmpty then "none" else ";".intercalate (o.map intList)

def handleHeap : List String → String
  | ["js", p] => match parseProg p with
    | some prog => showOut (runJS cloneAt prog)
    | none => "bad-op"
  | ["go", p] => match parseProg p with
    | some prog => showOut (GV.Spec.GoValue.runGo prog)
    | none => "bad-op"
  | ["clone", t] =>
    -- a value of type t whose k-th cell holds k+1 is cloned: cells of the clone, spine objects fresh?, source cells after
    -- overwriting every cell of the clone with 1000+k
    match parseType t with
    | some t =>
      let (H0, v) := zero t Heap.empty
      let n := size t
      let σ0 : JState := { heap := H0, slots := [(t, v)], out := [] }
      -- fill through the leaf paths is done by the caller-independent helper below
      let paths := leafPaths t
      let σ1 := (paths.zipIdx).foldl (fun σ (p, k) => stepJS cloneAt σ (.setLeaf 0 p (k + 1))) σ0
      let (H2, c) := clone t σ1.heap v
      let sp := spine t H2 c
      let fresh := sp.all (fun id => decide (σ1.heap.next ≤ id)) && decide (sp.length = (spine t H2 v).length)
      let σ2 : JState := { heap := H2, slots := [(t, v), (t, c)], out := [] }
      let σ3 := (paths.zipIdx).foldl (fun σ (p, k) => stepJS cloneAt σ (.setLeaf 1 p (1000 + k))) σ2
      s!"n={n} clone={intList (flat t H2 c)} fresh={b fresh} src={intList (flat t σ3.heap v)} dst={intList (flat t σ3.heap c)}"
    | none => "bad-op"
  | _ => "bad-op"
where
  leafPaths (t : Ty) : List (List Nat) := leafPathsAux (sizeOfTy t + 1) t
  sizeOfTy (t : Ty) : Nat := size t + 50
  leafPathsAux : Nat → Ty → List (List Nat)
    | 0, _ => []
    | fuel + 1, .struct fs => (fs.zipIdx).flatMap fun (f, i) => (leafPathsAux fuel f).map (i :: ·)
    | fuel + 1, .array n t => (List.range n).flatMap fun i => (leafPathsAux fuel t).map (i :: ·)
    | _ + 1, _ => [[]]

/-! ### ptr topic: `$indexPtr` — element pointers of one array (object 0); `off` = start of a second view of the
    same backing store (typed `subarray`), the second pointer is taken through that view -/
open GV.Ptr in
def handlePtr : List String → String
  | ["index", _k, n, off, i, j, v] =>
    match n.toNat?, off.toNat?, i.toNat?, j.toNat?, v.toInt? with
    | some n, some off, some i, some j, some v =>
      let (H, _) := Heap.alloc Heap.empty ((List.range n).map fun (k : Nat) => ((k : Int) + 1))
      let P0 : PHeap := { heap := H, ptrs := [] }
      let (P1, p) := addrCell P0 { obj := 0, slot := i }
      let (P2, q) := addrCell P1 { obj := 0, slot := off + j }
      let P3 := store P2 p v
      let (P4, p') := addrCell P3 { obj := 0, slot := i }
      let g := match load P3 q with | some x => toString x | none => "none"
      s!"eq={b (p == q)} get={g} cell={P3.heap.cell 0 i} again={b (p' == p)} count={P4.ptrs.length}"
    | _, _, _, _, _ => "bad-op"
  | _ => "bad-op"

def handle : List String → String
  | "ptr" :: rest => handlePtr rest
  | ["slice", "prog", p] => runSliceProg p
  | "slice" :: rest => handleSlice rest
  | "heap" :: rest => handleHeap rest
  | _ => "bad-topic"

end GV.Driver.C07
