/-
  GV.Basic.Bits — normal forms for the JS bit expressions that occur in the prelude.
  All values are natural numbers (JS numbers that are non-negative integers < 2^31, where
  `&`, `|`, `<<`, `>>` agree with the mathematical operations below).
-/
namespace GV.Bits

theorem and_mask (c k : Nat) : c &&& (2 ^ k - 1) = c % 2 ^ k :=
  Nat.and_two_pow_sub_one_eq_mod c k

theorem and_3F (c : Nat) : c &&& 0x3F = c % 64 := and_mask c 6
theorem and_1F (c : Nat) : c &&& 0x1F = c % 32 := and_mask c 5
theorem and_0F (c : Nat) : c &&& 0x0F = c % 16 := and_mask c 4
theorem and_07 (c : Nat) : c &&& 0x07 = c % 8 := and_mask c 3

theorem shl_mul (a k : Nat) : a <<< k = a * 2 ^ k := Nat.shiftLeft_eq a k

theorem shr_div (a k : Nat) : a >>> k = a / 2 ^ k := Nat.shiftRight_eq_div_pow a k

/-- `a * 2^k ||| b = a * 2^k + b` when `b < 2^k`. -/
theorem mul_or_add (a b k : Nat) (h : b < 2 ^ k) : (a * 2 ^ k) ||| b = a * 2 ^ k + b := by
  rw [← Nat.shiftLeft_eq]
  exact (Nat.shiftLeft_add_eq_or_of_lt h a).symm

/-- `hi ||| lo = hi + lo` when `hi` is a multiple of `2^k` and `lo < 2^k`. -/
theorem or_add_of_dvd (hi lo k : Nat) (hd : 2 ^ k ∣ hi) (h : lo < 2 ^ k) : hi ||| lo = hi + lo := by
  obtain ⟨q, rfl⟩ := hd
  rw [Nat.mul_comm]
  exact mul_or_add q lo k h

end GV.Bits

namespace GV.Bits
/-- literal-friendly form: `m` is given as a numeral together with `m = 2^k` (closed by `rfl`). -/
theorem mul_or_add' (a b m k : Nat) (hm : m = 2 ^ k) (h : b < m) : (a * m) ||| b = a * m + b := by
  subst hm; exact mul_or_add a b k h

theorem p6 : (64 : Nat) = 2 ^ 6 := by rfl
theorem p12 : (4096 : Nat) = 2 ^ 12 := by rfl
theorem p18 : (262144 : Nat) = 2 ^ 18 := by rfl
theorem shl6 (a : Nat) : a <<< 6 = a * 64 := by rw [shl_mul]
theorem shl12 (a : Nat) : a <<< 12 = a * 4096 := by rw [shl_mul]
theorem shl18 (a : Nat) : a <<< 18 = a * 262144 := by rw [shl_mul]
theorem shr6 (a : Nat) : a >>> 6 = a / 64 := by rw [shr_div]
theorem shr12 (a : Nat) : a >>> 12 = a / 4096 := by rw [shr_div]
theorem shr18 (a : Nat) : a >>> 18 = a / 262144 := by rw [shr_div]
end GV.Bits
