/-
  GV.Basic.Hex — hex and decimal helpers for the driver's line protocol.
  Byte strings travel as lower-case hex (empty string = "-"), integers as decimal.
-/
namespace GV.Hex

def hexDigit (n : Nat) : Char :=
  if n < 10 then Char.ofNat (48 + n) else Char.ofNat (87 + n)

def byteToHex (b : Nat) : String :=
  String.ofList [hexDigit (b / 16 % 16), hexDigit (b % 16)]

def toHex (bs : List Nat) : String :=
  if bs.isEmpty then "-" else String.join (bs.map byteToHex)

def hexVal (c : Char) : Option Nat :=
  if '0' ≤ c ∧ c ≤ '9' then some (c.toNat - 48)
  else if 'a' ≤ c ∧ c ≤ 'f' then some (c.toNat - 87)
  else if 'A' ≤ c ∧ c ≤ 'F' then some (c.toNat - 55)
  else none

def parseHexAux : List Char → List Nat → Option (List Nat)
  | [], acc => some acc.reverse
  | [_], _ => none
  | a :: b :: tl, acc =>
    match hexVal a, hexVal b with
    | some x, some y => parseHexAux tl ((x * 16 + y) :: acc)
    | _, _ => none

def parseHex (s : String) : Option (List Nat) :=
  if s == "-" then some [] else parseHexAux s.toList []

def natList (l : List Nat) : String :=
  if l.isEmpty then "-" else ",".intercalate (l.map toString)

def intList (l : List Int) : String :=
  if l.isEmpty then "-" else ",".intercalate (l.map toString)

def parseIntList (s : String) : Option (List Int) :=
  if s == "-" then some [] else (s.splitOn ",").mapM String.toInt?

def parseNatList (s : String) : Option (List Nat) :=
  if s == "-" then some [] else (s.splitOn ",").mapM String.toNat?

end GV.Hex
