import GV.Basic.Bits
import GV.Model.Utf8
import GV.Spec.Utf8
import GV.Proofs.StrLit
import GV.Proofs.Bytes

namespace GV.Props.C14
open GV.Utf8 GV.Bits

def Bytes (s : Str) : Prop := ∀ b ∈ s, b < 256

theorem charCodeAt_drop (s : Str) (pos k : Nat) : charCodeAt s (pos + k) = (s.drop pos)[k]? := by
  simp [charCodeAt, List.getElem?_drop]

theorem decodeRune_drop (s : Str) (pos : Nat) : decodeRune s pos = decodeRune (s.drop pos) 0 := by
  have h0 := charCodeAt_drop s pos 0
  have h1 := charCodeAt_drop s pos 1
  have h2 := charCodeAt_drop s pos 2
  have h3 := charCodeAt_drop s pos 3
  simp only [Nat.add_zero] at h0
  unfold decodeRune
  rw [h0, h1, h2, h3]
  simp [charCodeAt]

/-- the 2-byte scalar in arithmetic form -/
theorem r2 (c0 c1 : Nat) (h0 : 0xC0 ≤ c0) (h0' : c0 < 0xE0) (h1 : 0x80 ≤ c1) (h1' : c1 < 0xC0) :
    (c0 &&& 0x1F) <<< 6 ||| (c1 &&& 0x3F) = (c0 - 0xC0) * 64 + (c1 - 0x80) := by
  rw [and_1F, and_3F, shl6]
  have k1 : c1 % 64 < 64 := by omega
  rw [mul_or_add' _ _ 64 6 p6 k1]
  omega

theorem r3 (c0 c1 c2 : Nat) (h0 : 0xE0 ≤ c0) (h0' : c0 < 0xF0) (h1 : 0x80 ≤ c1) (h1' : c1 < 0xC0)
    (h2 : 0x80 ≤ c2) (h2' : c2 < 0xC0) :
    (c0 &&& 0x0F) <<< 12 ||| (c1 &&& 0x3F) <<< 6 ||| (c2 &&& 0x3F)
      = (c0 - 0xE0) * 4096 + (c1 - 0x80) * 64 + (c2 - 0x80) := by
  rw [and_0F, and_3F, and_3F, shl12, shl6]
  have k1 : c1 % 64 * 64 < 4096 := by omega
  rw [mul_or_add' _ _ 4096 12 p12 k1]
  have e2 : c0 % 16 * 4096 + c1 % 64 * 64 = (c0 % 16 * 64 + c1 % 64) * 64 := by omega
  have k2 : c2 % 64 < 64 := by omega
  rw [e2, mul_or_add' _ _ 64 6 p6 k2]
  omega

theorem r4 (c0 c1 c2 c3 : Nat) (h0 : 0xF0 ≤ c0) (h0' : c0 < 0xF8) (h1 : 0x80 ≤ c1) (h1' : c1 < 0xC0)
    (h2 : 0x80 ≤ c2) (h2' : c2 < 0xC0) (h3 : 0x80 ≤ c3) (h3' : c3 < 0xC0) :
    (c0 &&& 0x07) <<< 18 ||| (c1 &&& 0x3F) <<< 12 ||| (c2 &&& 0x3F) <<< 6 ||| (c3 &&& 0x3F)
      = (c0 - 0xF0) * 262144 + (c1 - 0x80) * 4096 + (c2 - 0x80) * 64 + (c3 - 0x80) := by
  rw [and_07, and_3F, and_3F, and_3F, shl18, shl12, shl6]
  have k1 : c1 % 64 * 4096 < 262144 := by omega
  have e2 : c0 % 8 * 262144 + c1 % 64 * 4096 = (c0 % 8 * 64 + c1 % 64) * 4096 := by omega
  have k2 : c2 % 64 * 64 < 4096 := by omega
  have e3 : (c0 % 8 * 64 + c1 % 64) * 4096 + c2 % 64 * 64
      = ((c0 % 8 * 64 + c1 % 64) * 64 + c2 % 64) * 64 := by clear e2 k1 k2; omega
  have k3 : c3 % 64 < 64 := by omega
  have fin : ((c0 % 8 * 64 + c1 % 64) * 64 + c2 % 64) * 64 + c3 % 64
      = (c0 - 0xF0) * 262144 + (c1 - 0x80) * 4096 + (c2 - 0x80) * 64 + (c3 - 0x80) := by clear e2 e3 k1 k2 k3; omega
  have s1 := mul_or_add' (c0 % 8) (c1 % 64 * 4096) 262144 18 p18 k1
  have s2 := mul_or_add' (c0 % 8 * 64 + c1 % 64) (c2 % 64 * 64) 4096 12 p12 k2
  have s3 := mul_or_add' ((c0 % 8 * 64 + c1 % 64) * 64 + c2 % 64) (c3 % 64) 64 6 p6 k3
  simp only [s1, e2, s2, e3, s3, fin]

/-! ### `decodeCore` by regions of the lead byte -/

theorem core_ascii (a : Nat) (bo co d : Option Nat) (h : a < 0x80) :
    decodeCore (some a) bo co d = (a, 1) := by simp [decodeCore, h]

theorem core_cont (a : Nat) (bo co d : Option Nat) (h1 : 0x80 ≤ a) (h2 : a < 0xC0) :
    decodeCore (some a) bo co d = (0xFFFD, 1) := by
  have : ¬ a < 0x80 := by omega
  simp [decodeCore, this, h2, RuneError]

theorem core_bad1 (a : Nat) (bo co d : Option Nat) (h1 : 0xC0 ≤ a) (hb : contBad bo = true) :
    decodeCore (some a) bo co d = (0xFFFD, 1) := by
  have : ¬ a < 0x80 := by omega
  have : ¬ a < 0xC0 := by omega
  simp [decodeCore, *, RuneError]

theorem contBad_some (b : Nat) : contBad (some b) = false ↔ (0x80 ≤ b ∧ b < 0xC0) := by
  simp [contBad]

theorem core2 (a b : Nat) (co d : Option Nat) (h1 : 0xC0 ≤ a) (h2 : a < 0xE0)
    (hb : 0x80 ≤ b ∧ b < 0xC0) :
    decodeCore (some a) (some b) co d =
      if (a - 0xC0) * 64 + (b - 0x80) ≤ 0x7F then (0xFFFD, 1) else ((a - 0xC0) * 64 + (b - 0x80), 2) := by
  have n1 : ¬ a < 0x80 := by omega
  have n2 : ¬ a < 0xC0 := by omega
  have cb : contBad (some b) = false := (contBad_some b).2 hb
  simp only [decodeCore, n1, n2, cb, h2, if_true, if_false, Option.getD_some, RuneError,
    r2 a b h1 h2 hb.1 hb.2, Bool.false_eq_true]

theorem core_bad2 (a b : Nat) (co d : Option Nat) (h1 : 0xE0 ≤ a) (hb : 0x80 ≤ b ∧ b < 0xC0)
    (hc : contBad co = true) :
    decodeCore (some a) (some b) co d = (0xFFFD, 1) := by
  have n1 : ¬ a < 0x80 := by omega
  have n2 : ¬ a < 0xC0 := by omega
  have n3 : ¬ a < 0xE0 := by omega
  have cb : contBad (some b) = false := (contBad_some b).2 hb
  simp only [decodeCore, n1, n2, n3, cb, hc, if_true, if_false, RuneError, Bool.false_eq_true]

theorem core3 (a b c : Nat) (d : Option Nat) (h1 : 0xE0 ≤ a) (h2 : a < 0xF0)
    (hb : 0x80 ≤ b ∧ b < 0xC0) (hc : 0x80 ≤ c ∧ c < 0xC0) :
    decodeCore (some a) (some b) (some c) d =
      let r := (a - 0xE0) * 4096 + (b - 0x80) * 64 + (c - 0x80)
      if r ≤ 0x7FF then (0xFFFD, 1) else if 0xD800 ≤ r ∧ r ≤ 0xDFFF then (0xFFFD, 1) else (r, 3) := by
  have n1 : ¬ a < 0x80 := by omega
  have n2 : ¬ a < 0xC0 := by omega
  have n3 : ¬ a < 0xE0 := by omega
  have cb : contBad (some b) = false := (contBad_some b).2 hb
  have cc : contBad (some c) = false := (contBad_some c).2 hc
  simp only [decodeCore, n1, n2, n3, cb, cc, h2, if_true, if_false, Option.getD_some, RuneError,
    r3 a b c h1 h2 hb.1 hb.2 hc.1 hc.2, Bool.false_eq_true, Bool.and_eq_true, decide_eq_true_eq]

theorem core_bad3 (a b c : Nat) (d : Option Nat) (h1 : 0xF0 ≤ a)
    (hb : 0x80 ≤ b ∧ b < 0xC0) (hc : 0x80 ≤ c ∧ c < 0xC0) (hd : contBad d = true) :
    decodeCore (some a) (some b) (some c) d = (0xFFFD, 1) := by
  have n1 : ¬ a < 0x80 := by omega
  have n2 : ¬ a < 0xC0 := by omega
  have n3 : ¬ a < 0xE0 := by omega
  have n4 : ¬ a < 0xF0 := by omega
  have cb : contBad (some b) = false := (contBad_some b).2 hb
  have cc : contBad (some c) = false := (contBad_some c).2 hc
  simp only [decodeCore, n1, n2, n3, n4, cb, cc, hd, if_true, if_false, RuneError, Bool.false_eq_true]

theorem core4 (a b c d : Nat) (h1 : 0xF0 ≤ a) (h2 : a < 0xF8)
    (hb : 0x80 ≤ b ∧ b < 0xC0) (hc : 0x80 ≤ c ∧ c < 0xC0) (hd : 0x80 ≤ d ∧ d < 0xC0) :
    decodeCore (some a) (some b) (some c) (some d) =
      let r := (a - 0xF0) * 262144 + (b - 0x80) * 4096 + (c - 0x80) * 64 + (d - 0x80)
      if r ≤ 0xFFFF ∨ 0x10FFFF < r then (0xFFFD, 1) else (r, 4) := by
  have n1 : ¬ a < 0x80 := by omega
  have n2 : ¬ a < 0xC0 := by omega
  have n3 : ¬ a < 0xE0 := by omega
  have n4 : ¬ a < 0xF0 := by omega
  have cb : contBad (some b) = false := (contBad_some b).2 hb
  have cc : contBad (some c) = false := (contBad_some c).2 hc
  have cd : contBad (some d) = false := (contBad_some d).2 hd
  simp only [decodeCore, n1, n2, n3, n4, cb, cc, cd, h2, if_true, if_false, Option.getD_some, RuneError,
    r4 a b c d h1 h2 hb.1 hb.2 hc.1 hc.2 hd.1 hd.2, Bool.false_eq_true, Bool.or_eq_true, decide_eq_true_eq]

theorem core_F8 (a b c d : Nat) (h1 : 0xF8 ≤ a)
    (hb : 0x80 ≤ b ∧ b < 0xC0) (hc : 0x80 ≤ c ∧ c < 0xC0) (hd : 0x80 ≤ d ∧ d < 0xC0) :
    decodeCore (some a) (some b) (some c) (some d) = (0xFFFD, 1) := by
  have n1 : ¬ a < 0x80 := by omega
  have n2 : ¬ a < 0xC0 := by omega
  have n3 : ¬ a < 0xE0 := by omega
  have n4 : ¬ a < 0xF0 := by omega
  have n5 : ¬ a < 0xF8 := by omega
  have cb : contBad (some b) = false := (contBad_some b).2 hb
  have cc : contBad (some c) = false := (contBad_some c).2 hc
  have cd : contBad (some d) = false := (contBad_some d).2 hd
  simp only [decodeCore, n1, n2, n3, n4, n5, cb, cc, cd, if_false, RuneError, Bool.false_eq_true]

open GV.Spec.Utf8

/-- the specification read on four optional bytes -/
def specO : Option Nat → Option Nat → Option Nat → Option Nat → Nat × Nat
  | none, _, _, _ => (0xFFFD, 1)
  | some a, bo, co, d =>
    if wf1 a then (a, 1) else
    match bo with
    | none => (0xFFFD, 1)
    | some b =>
      if wf2 a b then (v2 a b, 2) else
      match co with
      | none => (0xFFFD, 1)
      | some c =>
        if wf3 a b c then (v3 a b c, 3) else
        match d with
        | none => (0xFFFD, 1)
        | some d => if wf4 a b c d then (v4 a b c d, 4) else (0xFFFD, 1)

theorem decodeL_specO (l : Str) : decodeL l = specO l[0]? l[1]? l[2]? l[3]? := by
  match l with
  | [] => rfl
  | [a] => simp [decodeL, specO]
  | [a, b] => simp [decodeL, specO]
  | [a, b, c] => simp [decodeL, specO]
  | a :: b :: c :: d :: tl => simp [decodeL, specO]

macro "finish_spec" : tactic =>
  `(tactic| (simp only [specO]
             repeat' split
             all_goals first | (exfalso; omega) | (apply Prod.ext <;> (try dsimp only [v2, v3, v4]) <;> omega)))
theorem bad_none : contBad none = true := rfl
theorem bad_some (b : Nat) (h : ¬ (0x80 ≤ b ∧ b < 0xC0)) : contBad (some b) = true := by
  simp only [contBad, Bool.or_eq_true, decide_eq_true_eq]; omega

theorem core_specO (a : Nat) (bo co d : Option Nat) :
    decodeCore (some a) bo co d = specO (some a) bo co d := by
  by_cases h80 : a < 0x80
  · rw [core_ascii a bo co d h80]; finish_spec
  by_cases hC0 : a < 0xC0
  · rw [core_cont a bo co d (by omega) hC0]; finish_spec
  -- second byte
  match bo with
  | none => rw [core_bad1 a none co d (by omega) bad_none]; finish_spec
  | some b =>
  by_cases tb : (0x80 ≤ b ∧ b < 0xC0)
  case neg => rw [core_bad1 a (some b) co d (by omega) (bad_some b tb)]; finish_spec
  by_cases hE0 : a < 0xE0
  · rw [core2 a b co d (by omega) hE0 tb]; split <;> finish_spec
  match co with
  | none => rw [core_bad2 a b none d (by omega) tb bad_none]; finish_spec
  | some c =>
  by_cases tc : (0x80 ≤ c ∧ c < 0xC0)
  case neg => rw [core_bad2 a b (some c) d (by omega) tb (bad_some c tc)]; finish_spec
  by_cases hF0 : a < 0xF0
  · rw [core3 a b c d (by omega) hF0 tb tc]; simp only []; split <;> (try split) <;> finish_spec
  match d with
  | none => rw [core_bad3 a b c none (by omega) tb tc bad_none]; finish_spec
  | some d =>
  by_cases td : (0x80 ≤ d ∧ d < 0xC0)
  case neg => rw [core_bad3 a b c (some d) (by omega) tb tc (bad_some d td)]; finish_spec
  by_cases hF8 : a < 0xF8
  · rw [core4 a b c d (by omega) hF8 tb tc td]; simp only []; split <;> finish_spec
  · rw [core_F8 a b c d (by omega) tb tc td]; finish_spec


/-- **decode_spec** — for every string and every position (inside or past the end) the prelude's
    `$decodeRune` returns exactly what Unicode Table 3-7 + Go's U+FFFD rule prescribe. -/
theorem decode_spec (s : Str) (pos : Nat) : decodeRune s pos = GV.Spec.Utf8.decode s pos := by
  rw [decodeRune_drop]
  unfold decodeRune GV.Spec.Utf8.decode
  rw [decodeL_specO]
  simp only [charCodeAt, Nat.zero_add]
  match h : (List.drop pos s)[0]? with
  | none => simp [decodeCore, specO, RuneError]
  | some a => exact core_specO a _ _ _

theorem decode_width (s : Str) (pos : Nat) : 1 ≤ (decodeRune s pos).2 ∧ (decodeRune s pos).2 ≤ 4 := by
  rw [decode_spec]; unfold GV.Spec.Utf8.decode decodeL
  repeat' split
  all_goals simp

theorem rangeAux_spec (s : Str) (fuel i : Nat) : rangeAux s fuel i = runesAux s fuel i := by
  induction fuel generalizing i with
  | zero => rfl
  | succ n ih => simp only [rangeAux, runesAux, decode_spec, ih]

/-- **range_spec** — `for i, r := range s` visits exactly the (index, rune) pairs of the spec. -/
theorem range_spec (s : Str) : rangeString s = rangeSpec s := rangeAux_spec s _ _

/-! ### encoding -/

theorem or_lit (hi lo m k : Nat) (hm : m = 2 ^ k) (hd : m ∣ hi) (h : lo < m) : hi ||| lo = hi + lo := by
  subst hm; exact or_add_of_dvd hi lo k hd h

theorem encodeNat_spec (r : Nat) (h : r ≤ 0x10FFFF) :
    (if r ≤ 0x7F then [r]
     else if r ≤ 0x7FF then [0xC0 ||| r >>> 6, 0x80 ||| (r &&& 0x3F)]
     else if r ≤ 0xFFFF then [0xE0 ||| r >>> 12, 0x80 ||| (r >>> 6 &&& 0x3F), 0x80 ||| (r &&& 0x3F)]
     else [0xF0 ||| r >>> 18, 0x80 ||| (r >>> 12 &&& 0x3F), 0x80 ||| (r >>> 6 &&& 0x3F), 0x80 ||| (r &&& 0x3F)])
    = encodeScalar r := by
  unfold encodeScalar
  simp only [shr6, shr12, shr18, and_3F]
  have t0 : 0x80 ||| r % 64 = 0x80 + r % 64 := or_lit _ _ 64 6 p6 ⟨2, rfl⟩ (by omega)
  have t1 : 0x80 ||| r / 64 % 64 = 0x80 + r / 64 % 64 := or_lit _ _ 64 6 p6 ⟨2, rfl⟩ (by omega)
  have t2 : 0x80 ||| r / 4096 % 64 = 0x80 + r / 4096 % 64 := or_lit _ _ 64 6 p6 ⟨2, rfl⟩ (by omega)
  by_cases h1 : r ≤ 0x7F
  · have : r < 0x80 := by omega
    simp only [h1, this, if_true]
  have n1 : ¬ r < 0x80 := by omega
  simp only [h1, n1, if_false]
  by_cases h2 : r ≤ 0x7FF
  · have : r < 0x800 := by omega
    have l : r / 64 < 64 := by omega
    have t3 : 0xC0 ||| r / 64 = 0xC0 + r / 64 := or_lit _ _ 64 6 p6 ⟨3, rfl⟩ l
    simp only [h2, this, if_true, t0, t3]
  have n2 : ¬ r < 0x800 := by omega
  simp only [h2, n2, if_false]
  by_cases h3 : r ≤ 0xFFFF
  · have : r < 0x10000 := by omega
    have l : r / 4096 < 16 := by omega
    have t3 : 0xE0 ||| r / 4096 = 0xE0 + r / 4096 := or_lit _ _ 16 4 (by rfl) ⟨14, rfl⟩ l
    simp only [h3, this, if_true, t0, t1, t3]
  have n3 : ¬ r < 0x10000 := by omega
  have l : r / 262144 < 8 := by omega
  have t3 : 0xF0 ||| r / 262144 = 0xF0 + r / 262144 := or_lit _ _ 8 3 (by rfl) ⟨30, rfl⟩ l
  simp only [h3, n3, if_false, t0, t1, t2, t3]

/-- **encode_spec** — `$encodeRune` = UTF-8 encoding of the scalar, U+FFFD for non-scalars
    (negative, surrogate, > 0x10FFFF), for every `Int` (hence every int32 rune). -/
theorem encode_spec (r : Int) : encodeRune r = GV.Spec.Utf8.encode r := by
  unfold encodeRune GV.Spec.Utf8.encode isScalar
  by_cases hs : (r < 0 ∨ r > 0x10FFFF ∨ (0xD800 ≤ r ∧ r ≤ 0xDFFF))
  · have c1 : (decide (r < 0) || decide (r > 0x10FFFF) || (decide (0xD800 ≤ r) && decide (r ≤ 0xDFFF))) = true := by
      simp only [Bool.or_eq_true, Bool.and_eq_true, decide_eq_true_eq]; omega
    have c2 : (decide (0 ≤ r) && decide (r ≤ 0x10FFFF) && !(decide (0xD800 ≤ r) && decide (r ≤ 0xDFFF))) = false := by
      simp only [Bool.and_eq_false_iff, Bool.not_eq_false', Bool.and_eq_true, decide_eq_true_eq, decide_eq_false_iff_not]; omega
    simp only [c1, c2, if_true, Bool.false_eq_true, if_false]
    exact encodeNat_spec RuneError (by decide)
  · have c1 : (decide (r < 0) || decide (r > 0x10FFFF) || (decide (0xD800 ≤ r) && decide (r ≤ 0xDFFF))) = false := by
      simp only [Bool.or_eq_false_iff, Bool.and_eq_false_iff, decide_eq_false_iff_not]; omega
    have c2 : (decide (0 ≤ r) && decide (r ≤ 0x10FFFF) && !(decide (0xD800 ≤ r) && decide (r ≤ 0xDFFF))) = true := by
      simp only [Bool.and_eq_true, Bool.not_eq_true', Bool.and_eq_false_iff, decide_eq_true_eq, decide_eq_false_iff_not]; omega
    simp only [c1, c2, if_true, Bool.false_eq_true, if_false]
    exact encodeNat_spec r.toNat (by omega)

/-- **decode_encode (spec level)** — decoding the encoding of a scalar value, followed by
    arbitrary further bytes, yields that scalar and consumes exactly its encoding. -/
theorem spec_decode_encode (r : Nat) (h1 : r ≤ 0x10FFFF) (h2 : ¬ (0xD800 ≤ r ∧ r ≤ 0xDFFF)) (rest : Str) :
    decodeL (encodeScalar r ++ rest) = (r, (encodeScalar r).length) := by
  unfold encodeScalar
  by_cases c1 : r < 0x80
  · have : r ≤ 0x7F := by omega
    simp [c1, decodeL, this]
  by_cases c2 : r < 0x800
  · simp only [c1, c2, if_true, if_false, List.cons_append, List.nil_append, decodeL, List.length_cons,
      List.length_nil]
    rw [if_neg (by omega), if_pos (by omega)]
    apply Prod.ext <;> dsimp only [v2] <;> omega
  by_cases c3 : r < 0x10000
  · simp only [c1, c2, c3, if_true, if_false, List.cons_append, List.nil_append, decodeL, List.length_cons,
      List.length_nil]
    rw [if_neg (by omega), if_neg (by omega), if_pos (by omega)]
    apply Prod.ext <;> dsimp only [v3] <;> omega
  · simp only [c1, c2, c3, if_false, List.cons_append, List.nil_append, decodeL, List.length_cons,
      List.length_nil]
    rw [if_neg (by omega), if_neg (by omega), if_neg (by omega), if_pos (by omega)]
    apply Prod.ext <;> dsimp only [v4] <;> omega

/-- **decode_encode** — the prelude pair: `$decodeRune($encodeRune(r) + rest, 0) = [r, width]`
    for every Unicode scalar value `r`. -/
theorem decode_encode (r : Int) (hs : isScalar r = true) (rest : Str) :
    decodeRune (encodeRune r ++ rest) 0 = (r.toNat, (encodeRune r).length) := by
  rw [decode_spec, encode_spec]
  unfold GV.Spec.Utf8.decode GV.Spec.Utf8.encode
  simp only [hs, if_true, List.drop_zero]
  unfold isScalar at hs
  simp only [Bool.and_eq_true, Bool.not_eq_true', Bool.and_eq_false_iff, decide_eq_true_eq,
    decide_eq_false_iff_not] at hs
  exact spec_decode_encode r.toNat (by omega) (by omega) rest

/-- non-scalars (negative, surrogates, beyond U+10FFFF) encode as U+FFFD = EF BF BD. -/
theorem encode_nonscalar (r : Int) (hs : isScalar r = false) : encodeRune r = [0xEF, 0xBF, 0xBD] := by
  rw [encode_spec]; unfold GV.Spec.Utf8.encode; simp only [hs, Bool.false_eq_true, if_false]; decide

/-! ### conversions -/

theorem stringToRunesAux_spec (s : Str) (fuel i : Nat) :
    stringToRunesAux s fuel i = (runesAux s fuel i).map (·.2) := by
  induction fuel generalizing i with
  | zero => rfl
  | succ n ih =>
    simp only [stringToRunesAux, runesAux, decode_spec]
    split
    · simp only [List.map_cons, ih]
    · rfl

/-- **runes_spec** — `[]rune(s)` (`$stringToRunes`) is exactly the rune sequence of the range specification. -/
theorem runes_spec (s : Str) : stringToRunes s = (rangeSpec s).map (·.2) := stringToRunesAux_spec s _ _

/-- **runesToString_spec** — `string([]rune)` (`$runesToString`) concatenates the UTF-8 encodings, U+FFFD for non-scalars. -/
theorem runesToString_spec (rs : List Int) : runesToString rs = (rs.map GV.Spec.Utf8.encode).flatten := by
  unfold runesToString
  congr 1
  exact List.map_congr_left (fun r _ => encode_spec r)

/-- **index_spec** — string indexing as emitted after the repair (fix: 365079a): panics (none) exactly when the index is
    outside `[0, len)`, otherwise yields the byte. -/
theorem index_spec (s : Str) (i : Int) :
    indexString s i = (if 0 ≤ i ∧ i < s.length then s[i.toNat]? else none) := by
  unfold indexString charCodeAt
  by_cases h : 0 ≤ i ∧ i < (s.length : Int)
  · have : (decide (i < 0) || decide (i ≥ (s.length : Int))) = false := by
      simp only [Bool.or_eq_false_iff, decide_eq_false_iff_not]; omega
    simp only [this, Bool.false_eq_true, if_false, h, and_self, if_true]
  · have : (decide (i < 0) || decide (i ≥ (s.length : Int))) = true := by
      simp only [Bool.or_eq_true, decide_eq_true_eq]; omega
    simp only [this, if_true, h, if_false]

theorem index_in_range (s : Str) (i : Int) (h0 : 0 ≤ i) (h1 : i < s.length) : (indexString s i).isSome = true := by
  rw [index_spec]; simp only [h0, h1, and_self, if_true]
  have : i.toNat < s.length := by omega
  simp [List.getElem?_eq_getElem this]

/-- **substring_spec** — `$substring` panics exactly when Go's slice expression on a string does
    (`low < 0 ∨ high < low ∨ high > len`), otherwise yields the bytes `[low, high)`. -/
theorem substring_spec (s : Str) (lo hi : Int) :
    substring s lo hi = (if 0 ≤ lo ∧ lo ≤ hi ∧ hi ≤ s.length then some ((s.drop lo.toNat).take (hi.toNat - lo.toNat)) else none) := by
  unfold substring
  by_cases h : 0 ≤ lo ∧ lo ≤ hi ∧ hi ≤ (s.length : Int)
  · have : (decide (lo < 0) || decide (hi < lo) || decide (hi > (s.length : Int))) = false := by
      simp only [Bool.or_eq_false_iff, decide_eq_false_iff_not]; omega
    simp only [this, Bool.false_eq_true, if_false, h, and_self, if_true]
  · have : (decide (lo < 0) || decide (hi < lo) || decide (hi > (s.length : Int))) = true := by
      simp only [Bool.or_eq_true, decide_eq_true_eq]; omega
    simp only [this, if_true, h, if_false]

/-- **substringOpen_spec** — `s[low:]` panics exactly when `low` is outside `[0, len]`, else yields the suffix. -/
theorem substringOpen_spec (s : Str) (lo : Int) :
    substringOpen s lo = (if 0 ≤ lo ∧ lo ≤ s.length then some (s.drop lo.toNat) else none) := by
  unfold substringOpen
  rw [substring_spec]
  by_cases h : 0 ≤ lo ∧ lo ≤ (s.length : Int)
  · have h2 : 0 ≤ lo ∧ lo ≤ (s.length : Int) ∧ (s.length : Int) ≤ s.length := ⟨h.1, h.2, Int.le_refl _⟩
    rw [if_pos h2, if_pos h]
    congr 1
    apply List.take_of_length_le
    simp only [List.length_drop]; omega
  · have h2 : ¬ (0 ≤ lo ∧ lo ≤ (s.length : Int) ∧ (s.length : Int) ≤ s.length) := fun x => h ⟨x.1, x.2.1⟩
    rw [if_neg h2, if_neg h]

/-- **bytesToString_spec** — `string(b)` for a byte slice (`$bytesToString`, which converts in chunks to stay below the
    engine's argument limit): for every backing array, offset, length and every positive chunk size the result is exactly
    the bytes of the slice window — chunking is invisible. (Instance: the code's chunk size 10000.) -/
theorem bytesToString_chunk_spec (c : Nat) (hc : 0 < c) (a : List Nat) (off len : Nat) :
    bytesToStringChunk c a off len = (a.drop off).take len := by
  unfold bytesToStringChunk
  by_cases h0 : len = 0
  · subst h0; simp
  · rw [if_neg h0, aux_spec a off len c hc (len + 1) 0 (by omega) (by omega), subarray_eq]
    simp

theorem bytesToString_spec (a : List Nat) (off len : Nat) : bytesToString a off len = (a.drop off).take len :=
  bytesToString_chunk_spec 10000 (by decide) a off len

/-- `[]byte(s)` (`$stringToBytes`) is the identity on byte strings -/
theorem stringToBytes_spec (s : Str) (hs : Bytes s) : stringToBytes s = s := by
  unfold stringToBytes
  conv => rhs; rw [← List.map_id s]
  exact List.map_congr_left (fun b hb => by simp only [id]; have := hs b hb; omega)

/-! ### `string(x)` of an integer operand of any kind -/

/-- the two words of a 64-bit value recombine exactly -/
theorem flatten64_words (v : Int) : flatten64 (high64 v) (low64 v) = v := by
  unfold flatten64 high64 low64; omega

/-- **intToString_spec** — for EVERY integer kind (signed, unsigned, 8 to 64 bits, int/uint/uintptr, hence every
    named type over them) and every value, `string(x)` is the UTF-8 encoding of the VALUE of x: the encoding of the
    scalar, "\uFFFD" for everything else — in particular for 64-bit values beyond 32 bits. -/
theorem intToString_spec (k : IntKind) (v : Int) : intToString k v = GV.Spec.Utf8.encode v := by
  unfold intToString convArg
  split
  · rw [flatten64_words]; exact encode_spec v
  · exact encode_spec v

/-- the JS double computed by `$flatten64` is exact below 2^53; above, the exact sum is far from the rune range:
    with a non-zero high word it is ≤ -1 or ≥ 2^32 (both doubles), so rounding to nearest cannot make it a scalar. -/
theorem flatten64_margin (hi lo : Int) (hlo : 0 ≤ lo ∧ lo < 4294967296) (hhi : hi ≠ 0) :
    flatten64 hi lo ≤ -1 ∨ 4294967296 ≤ flatten64 hi lo := by
  unfold flatten64; omega

/-- **repaired defect** (fix: string(x) of a 64-bit integer outside the rune range): the code used to pass only
    `x.$low`, so `string(int64(0x100000041))` was "A" where Go gives "\uFFFD". -/
theorem old_conversion_counterexample :
    IntKind.holds .i64 0x100000041 = true ∧
    encodeRune (convArgOld .i64 0x100000041) = [0x41] ∧ GV.Spec.Utf8.encode 0x100000041 = [0xEF, 0xBF, 0xBD] := by
  decide

example : intToString .u8 0xE9 = [0xC3, 0xA9] ∧ intToString .i64 (-4294967231) = [0xEF, 0xBF, 0xBD] := by decide

/-! ### string literals survive compilation -/

open GV.StrLit in
/-- **literal_roundtrip** — for every Go string (any bytes: quotes, backslashes, NUL, control, ≥ 0x7F) the
    literal emitted by `encodeString` is a well-formed ECMAScript double-quoted literal whose string value
    is exactly the original byte sequence. -/
theorem literal_roundtrip (s : List Nat) (hs : ∀ b ∈ s, b < 256) :
    jsStringValue (encodeString s) = some s := by
  unfold jsStringValue encodeString
  simp only [List.cons_append, List.nil_append]
  rw [body s hs [34] []]
  simp [unescapeBody]

open GV.StrLit in
/-- **literal_ascii** — the emitted literal consists of printable ASCII only (no raw newline, control or
    non-ASCII code unit can reach the output file, so byte/UTF-16 column counting agrees on it). -/
theorem literal_ascii (s : List Nat) (hs : ∀ b ∈ s, b < 256) :
    ∀ c ∈ encodeString s, 0x20 ≤ c ∧ c ≤ 0x7E := by
  intro c hc
  unfold encodeString encBody at hc
  simp only [List.cons_append, List.nil_append, List.mem_cons, List.mem_append, List.mem_flatten, List.mem_map,
    List.not_mem_nil, or_false] at hc
  rcases hc with h | ⟨l, ⟨b, hb, rfl⟩, hcl⟩ | h
  · omega
  · exact encByte_ascii b (hs b hb) c hcl
  · omega

example : GV.StrLit.jsStringValue (GV.StrLit.encodeString [34, 92, 0, 10, 255, 65]) = some [34, 92, 0, 10, 255, 65] := by
  decide

end GV.Props.C14
