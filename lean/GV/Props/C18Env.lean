import GV.Props.C18
import GV.Generated.BuildEnv

/-!
  C18 — obligations over facts re-extracted from /repo on every run (GV/Generated/BuildEnv.lean is
  written by checks/c18.py from `build.VerifGoCtx(build.DefaultEnv())` of the current working tree).
  If build/context.go, compiler/version_check.go or build/versionhack change what go/build is
  configured with, these no longer check and the theorems of GV.Props.C18 (stated for `documented`)
  stop applying to the code.
-/
namespace GV.Props.C18
open GV.BuildTags

/-- the configuration the code builds is the documented one -/
theorem env_documented : GV.Generated.buildEnv = documented := by decide

/-- the release tags are exactly go1.1 … go1.20, in text form -/
theorem release_tags_exact :
    GV.Generated.releaseTagNames = (List.range 20).map (fun i => "go1." ++ toString (i + 1)) := by decide

/-- the build tags are the user tags followed by the default tags, nothing else (checked with no user tags) -/
theorem build_tags_exact : GV.Generated.buildTagsNoUser = documented.defaultTags := by decide

theorem tool_tags_empty : GV.Generated.toolTags = [] := by decide

end GV.Props.C18
