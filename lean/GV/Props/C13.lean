import GV.Model.Bits32
import GV.Model.CaseMap
import GV.Model.Atomic
import GV.Model.NoSync
import GV.Model.FloatBits
import GV.Spec.SyncSeq

namespace GV.Props.C13
end GV.Props.C13
