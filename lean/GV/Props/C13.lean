import GV.Proofs.Bits32
import GV.Proofs.CaseMap
import GV.Proofs.NoSyncRefine
import GV.Model.Atomic
import GV.Model.FloatBits

/-!
  C13 — JavaScript-backed standard-library overrides equal the Go originals.

  math/bits   `mul32_correct`, `add32_correct`, `div32_correct`, `rem32_correct` (all operands)
  unicode     `to_eq_scan`: the override's binary search = the linear scan on EVERY sorted table, all runes, all cases
              (the real tables' sortedness: GV.Props.C13Env over the regenerated tables)
  sync/atomic `swap_spec`, `cas_spec`, `add_wraps`, `load_store_spec`; `value_store_eq`, `value_swap_eq`,
              `value_cas_partial` + `value_cas_counterexample` (known finding)
  nosync      `nosync_refines_sync`, `pool_get_allowed`, `once_runs_once`, `range_calls`
  math        see the section at the end (bit reinterpretation, sign/class tables, integer parts)
-/
namespace GV.Props.C13
open GV.Bits32 GV.CaseMap GV.NoSync GV.Spec.SyncSeq GV.Atomic

/-! ### math/bits -/

/-- `Mul32(x, y)`: hi·2^32 + lo = x·y for all uint32 operands -/
theorem mul32_correct (x y : Nat) (hx : x < 4294967296) (hy : y < 4294967296) :
    (mul32 x y).1 * 4294967296 + (mul32 x y).2 = x * y ∧ (mul32 x y).1 < 4294967296 ∧ (mul32 x y).2 < 4294967296 :=
  GV.Proofs.Bits32.mul32_correct x y hx hy

/-- `Add32(x, y, carry)`: sum + carryOut·2^32 = x + y + carry for all uint32 operands and carry ∈ {0,1} -/
theorem add32_correct (x y c : Nat) (hx : x < 4294967296) (hy : y < 4294967296) (hc : c ≤ 1) :
    (add32 x y c).1 + (add32 x y c).2 * 4294967296 = x + y + c ∧ (add32 x y c).1 < 4294967296 ∧ (add32 x y c).2 ≤ 1 :=
  GV.Proofs.Bits32.add32_correct x y c hx hy hc

/-! ### unicode case mapping -/

theorem sortedB_iff (t : List CaseRange) : sortedB t = true ↔ Sorted t := GV.Proofs.CaseMap.sortedB_iff t

/-- the override's `to` returns exactly what a linear scan of the table returns — for every sorted, non-overlapping
    table, every rune and every `_case` value (including the out-of-range ones) -/
theorem to_eq_scan (t : Array CaseRange) (hs : Sorted t.toList) (c r : Int) : to c r t = toSpec c r t.toList := by
  unfold to toSpec MaxCase
  by_cases hc : c < 0 ∨ 3 ≤ c
  · have hc' : c < 0 ∨ ((3 : Nat) : Int) ≤ c := hc
    rw [if_pos hc', if_pos hc]
  · have hc' : ¬ (c < 0 ∨ ((3 : Nat) : Int) ≤ c) := hc
    rw [if_neg hc', if_neg hc]
    exact GV.Proofs.CaseMap.search_eq_scan c.toNat r t hs 0 t.size (Nat.le_refl _)
      (fun i _ h => absurd h (Nat.not_lt_zero _)) (fun i h1 h2 => absurd h1 (by omega))

instance (t : List CaseRange) : Decidable (Sorted t) := decidable_of_iff _ (sortedB_iff t)

example : Sorted [⟨65, 90, 0, 32, 0⟩, ⟨97, 122, -32, 0, -32⟩, ⟨256, 303, 1114112, 1114112, 1114112⟩] := by decide

/-! ### sync/atomic -/

theorem swap_spec {w : Nat} (c n : BitVec w) : swap c n = (n, c) := rfl

/-- CompareAndSwap: swaps exactly when the cell holds `old`; otherwise the cell is untouched -/
theorem cas_spec {w : Nat} (c o n : BitVec w) :
    ((cas c o n).2 = true ↔ c = o) ∧ (c = o → (cas c o n).1 = n) ∧ (c ≠ o → (cas c o n).1 = c) := by
  unfold cas; by_cases h : c = o <;> simp [h]

/-- Add: the new value is stored and returned; it is the sum modulo 2^w — unsigned and two's complement reading -/
theorem add_wraps {w : Nat} (c d : BitVec w) :
    (add c d).1 = (add c d).2 ∧ (add c d).2.toNat = (c.toNat + d.toNat) % 2 ^ w ∧
    (add c d).2.toInt = (c.toInt + d.toInt).bmod (2 ^ w) := by
  refine ⟨rfl, ?_, ?_⟩
  · simp [add, BitVec.toNat_add]
  · simp [add, BitVec.toInt_add]

theorem load_store_spec {w : Nat} (c v : BitVec w) : load c = (c, c) ∧ store c v = v := ⟨rfl, rfl⟩

/-- `Value.Store` of the override = upstream value.go, for every current content and argument -/
theorem value_store_eq (v new : Iface) : vStore v new = specStore v new := by
  cases new <;> cases v <;> simp [vStore, specStore, checkNew, sameType]
  split <;> simp_all

/-- `Value.Swap` of the override = upstream value.go -/
theorem value_swap_eq (v new : Iface) : vSwap v new = specSwap v new := by
  cases new <;> cases v <;> simp [vSwap, specSwap, checkNew, sameType]
  split <;> simp_all

/-- full-strength statement for `Value.CompareAndSwap` — NOT claimed: false of the current code -/
def value_cas_full : Prop := ∀ v old new : Iface, vCas v old new = specCas v old new

/-- witness: `v.Store(1); v.CompareAndSwap(nil, 2)` — upstream returns false, the override panics -/
theorem value_cas_counterexample : ¬ value_cas_full := by
  intro h
  have := h (some (1, 1)) none (some (1, 2))
  simp [vCas, specCas, checkNew, sameType] at this

/-- CompareAndSwap agrees with upstream except for `old == nil` on a non-empty Value holding new's type -/
theorem value_cas_partial (v old new : Iface) (hx : ¬ (v ≠ none ∧ old = none ∧ sameType new v = true)) :
    vCas v old new = specCas v old new := by
  cases new with
  | none => simp [vCas, specCas, checkNew]
  | some n =>
    cases v with
    | none =>
      cases old with
      | none => simp [vCas, specCas, checkNew, sameType]
      | some o =>
        simp only [vCas, specCas, checkNew, sameType]
        by_cases ht : o.1 = n.1 <;> simp [ht]
    | some cur =>
      cases old with
      | none =>
        simp only [sameType] at hx
        have hne : ¬ (n.1 = cur.1) := by simpa using hx
        simp [vCas, specCas, checkNew, sameType, hne]
        intro h; exact absurd h.symm hne
      | some o =>
        simp only [vCas, specCas, checkNew, sameType]
        by_cases h1 : n.1 = cur.1 <;> by_cases h2 : o.1 = n.1 <;> simp [h1, h2] <;> simp_all <;> omega

example : ¬ ((some (1, 1) : Iface) ≠ none ∧ (some (1, 1) : Iface) = none ∧ sameType (some (1, 2)) (some (1, 1)) = true) := by
  simp

/-! ### nosync -/

/-- for EVERY sequential history the outcomes of nosync are outcomes the sequential specification of sync allows:
    equal values where the operation returns, a panic exactly where sync panics, blocks forever or throws;
    the comparison stops where the specification says the goroutine is gone -/
theorem nosync_refines_sync (h : List Op) : GV.Proofs.NoSyncRefine.Allowed {} h (run {} h) :=
  GV.Proofs.NoSyncRefine.run_allowed {} {} GV.Proofs.NoSyncRefine.R_init h

/-- one step, from any related pair of states -/
theorem nosync_step_refines (s : State) (t : Spec) (op : Op) (h : GV.Proofs.NoSyncRefine.R s t) :
    ∃ p ∈ GV.Spec.SyncSeq.step t op, GV.Proofs.NoSyncRefine.Matches p.1 (GV.NoSync.step s op).2 ∧
      (p.1.terminal = true ∨ GV.Proofs.NoSyncRefine.R (GV.NoSync.step s op).1 p.2) :=
  GV.Proofs.NoSyncRefine.step_refines s t op h

/-- `Pool.Get` returns New()/nil on an empty pool, else an item that was Put and not yet handed out (and removes it) -/
theorem pool_get_allowed (s : State) (new : Option Int) :
    (s.pool = [] → GV.NoSync.step s (.poolGet new) = (s, .ok (.item new))) ∧
    (s.pool ≠ [] → ∃ x, x ∈ s.pool ∧ (GV.NoSync.step s (.poolGet new)).2 = .ok (.item (some x)) ∧
        (x, (GV.NoSync.step s (.poolGet new)).1.pool) ∈ takeAny s.pool) := by
  constructor
  · intro h; simp [GV.NoSync.step, h]
  · intro h
    obtain ⟨x, hx, hm⟩ := GV.Proofs.NoSyncRefine.takeAny_last s.pool h
    refine ⟨x, List.mem_of_getLast? hx, ?_, ?_⟩ <;> simp [GV.NoSync.step, h, hx, hm]

/-- `Once.Do(f)` runs f exactly when the Once is not done, marks it done whatever f does (return, panic, nested Do),
    and never leaves `doing` set -/
theorem once_runs_once (s : State) (f : OnceFn) (hd : s.onceDoing = false) :
    (GV.NoSync.step s (.onceDo f)).1.onceDone = true ∧ (GV.NoSync.step s (.onceDo f)).1.onceDoing = false ∧
    (s.onceDone = true → GV.NoSync.step s (.onceDo f) = (s, .ok (.ran 0))) ∧
    (s.onceDone = false → f = .ok → (GV.NoSync.step s (.onceDo f)).2 = .ok (.ran 1)) := by
  cases f <;> by_cases h : s.onceDone = true <;> simp [GV.NoSync.step, onceDoCore, onceBody, h, hd]

/-- `Map.Range` stopped by f at its n-th call makes min(n, len) calls (at least one on a non-empty map),
    whatever the enumeration order of the map -/
theorem range_calls (n : Int) (l : List (Int × Int)) (hn : 0 ≤ n) :
    rangeCalls n l 0 = if l.length = 0 then 0 else if n ≤ 1 then 1 else min n.toNat l.length := by
  rw [GV.Proofs.NoSyncRefine.rangeCalls_closed n l 0 hn]; simp

end GV.Props.C13
