import GV.Proofs.Bits32
import GV.Proofs.Div32
import GV.Proofs.CaseMap
import GV.Proofs.NoSyncRefine
import GV.Proofs.NoSyncMap
import GV.Proofs.FloatRound
import GV.Model.Atomic

/-!
  C13 — JavaScript-backed standard-library overrides equal the Go originals.

  math/bits   `mul32_correct`, `add32_correct` (all operands); `div32_correct` / `div32_relation` / `rem32_correct` (all operands), `div32_panics`,
              `rem32_panics`; `div32_digit` (Knuth-D digit estimate), `div32_no_fuel` (loop budget never exhausted)
  unicode     `to_eq_scan`: the override's binary search = the linear scan on EVERY sorted table, all runes, all cases
              (the real tables' sortedness: GV.Props.C13Env over the regenerated tables)
  sync/atomic `swap_spec`, `cas_spec`, `add_wraps`, `load_store_spec`; `value_store_eq`, `value_swap_eq`, `value_cas_eq`
  nosync      `nosync_refines_sync`, `pool_get_allowed`, `once_runs_once`, `range_calls`
  math        see the section at the end (bit reinterpretation, sign/class tables, integer parts)
-/
namespace GV.Props.C13
open GV.Bits32 GV.CaseMap GV.NoSync GV.Spec.SyncSeq GV.Atomic

/-! ### math/bits -/

/-- `Mul32(x, y)`: hi·2^32 + lo = x·y for all uint32 operands -/
theorem mul32_correct (x y : Nat) (hx : x < 4294967296) (hy : y < 4294967296) :
    (mul32 x y).1 * 4294967296 + (mul32 x y).2 = x * y ∧ (mul32 x y).1 < 4294967296 ∧ (mul32 x y).2 < 4294967296 :=
  GV.Proofs.Bits32.mul32_correct x y hx hy

/-- `Add32(x, y, carry)`: sum + carryOut·2^32 = x + y + carry for all uint32 operands and carry ∈ {0,1} -/
theorem add32_correct (x y c : Nat) (hx : x < 4294967296) (hy : y < 4294967296) (hc : c ≤ 1) :
    (add32 x y c).1 + (add32 x y c).2 * 4294967296 = x + y + c ∧ (add32 x y c).1 < 4294967296 ∧ (add32 x y c).2 ≤ 1 :=
  GV.Proofs.Bits32.add32_correct x y c hx hy hc

/-- `Div32` panics as upstream: divide error on y = 0, overflow error on 0 < y ≤ hi -/
theorem div32_panics (hi lo y : Nat) :
    (y = 0 → div32 hi lo y = .divideError) ∧ (y ≠ 0 → y ≤ hi → div32 hi lo y = .overflowError) :=
  GV.Proofs.Bits32.div32_panics hi lo y

theorem rem32_panics (hi lo y : Nat) (h : y = 0) : rem32 hi lo y = .divideError := GV.Proofs.Bits32.rem32_panics hi lo y h

/-- with a normalised divisor (top digit ≥ 2^15, what `y <<= LeadingZeros32(y)` establishes) each of the two correction
    loops of `Div32` exits within two decrements: the model never runs out of its loop budget -/
theorem div32_no_fuel (q rhat yn1 yn0 un : Nat) (hy : 32768 ≤ yn1) (hy' : yn1 < 65536) (hr : rhat < 65536) :
    corrLoop loopFuel q rhat yn1 yn0 un ≠ none :=
  GV.Proofs.Bits32.corrLoop_terminates q rhat yn1 yn0 un hy hy' hr

/-- the Knuth-D digit estimate, the heart of `Div32` (each of its two correction loops): on a normalised divisor
    y = y1·2^16 + y0 (2^15 ≤ y1 < 2^16), from the initial estimate q = u1 / y1, r = u1 % y1 (u1 < y) the loop — with its
    uint32 wrap-around arithmetic, which is shown not to wrap — returns the TRUE quotient digit of (u1·2^16 + u0) / y,
    for ALL digits, within the model's loop budget. -/
theorem div32_digit (y1 y0 u1 u0 : Nat) (hy1 : 32768 ≤ y1) (hy1' : y1 < 65536) (hy0 : y0 < 65536) (hu0 : u0 < 65536)
    (hu1 : u1 < y1 * 65536 + y0) :
    ∃ q', corrLoop loopFuel (u1 / y1) (u1 % y1) y1 y0 u0 = some q' ∧
      q' * (y1 * 65536 + y0) ≤ u1 * 65536 + u0 ∧ u1 * 65536 + u0 < (q' + 1) * (y1 * 65536 + y0) := by
  have hpos : 0 < y1 := by omega
  have h1 : u1 < 65538 * y1 := by omega
  have hr : u1 % y1 < y1 := Nat.mod_lt _ hpos
  have hdm : u1 / y1 * y1 + u1 % y1 = u1 := by rw [Nat.mul_comm]; exact Nat.div_add_mod u1 y1
  -- the estimate is at most 2^16 + 1 and not below the true digit
  have hq : u1 / y1 ≤ 65537 := by
    have := (Nat.div_lt_iff_lt_mul hpos).mpr h1
    omega
  have hup : u1 * 65536 + u0 < (u1 / y1 + 1) * (y1 * 65536 + y0) := by
    have h2 : u1 < (u1 / y1 + 1) * y1 := by rw [Nat.add_mul]; omega
    have e : (u1 / y1 + 1) * (y1 * 65536 + y0) = (u1 / y1 + 1) * y1 * 65536 + (u1 / y1 + 1) * y0 := by
      rw [Nat.mul_add, Nat.mul_assoc]
    rw [e]
    generalize (u1 / y1 + 1) * y1 = a at *
    generalize (u1 / y1 + 1) * y0 = b at *
    omega
  exact GV.Proofs.Bits32.corrLoop_digit loopFuel (u1 / y1) (u1 % y1) y1 y0 u1 u0 hy1 hy1' hy0 hu0 (by omega) hq hu1 hdm hup
    (by unfold loopFuel; omega)

/-- `Div32(hi, lo, y)` with hi < y returns quotient and remainder of hi·2^32 + lo by y — for ALL uint32 operands:
    the normalisation (`y <<= s`, `hi<<s | lo>>(32-s)`, `lo << s`), both Knuth-D digits with their correction loops, every
    uint32 wrap-around of the code, and the final `>> s` -/
theorem div32_correct (hi lo y : Nat) (hhi : hi < y) (hy : y < 4294967296) (hlo : lo < 4294967296) :
    div32 hi lo y = .ok ((hi * 4294967296 + lo) / y) ((hi * 4294967296 + lo) % y) :=
  GV.Proofs.Div32.div32_correct hi lo y hhi hy hlo

/-- in the form of the property: quo·y + rem = hi·2^32 + lo ∧ rem < y -/
theorem div32_relation (hi lo y : Nat) (hhi : hi < y) (hy : y < 4294967296) (hlo : lo < 4294967296) :
    ∃ q r, div32 hi lo y = .ok q r ∧ q * y + r = hi * 4294967296 + lo ∧ r < y := by
  refine ⟨_, _, div32_correct hi lo y hhi hy hlo, ?_, Nat.mod_lt _ (by omega)⟩
  rw [Nat.mul_comm]; exact Nat.div_add_mod _ _

/-- `Rem32(hi, lo, y)` = (hi·2^32 + lo) mod y for every y ≠ 0 and every hi -/
theorem rem32_correct (hi lo y : Nat) (hy0 : y ≠ 0) (hy : y < 4294967296) (hlo : lo < 4294967296) :
    rem32 hi lo y = .ok ((hi * 4294967296 + lo) % y) := GV.Proofs.Div32.rem32_correct hi lo y hy0 hy hlo

/-! ### unicode case mapping -/

theorem sortedB_iff (t : List CaseRange) : sortedB t = true ↔ Sorted t := GV.Proofs.CaseMap.sortedB_iff t

/-- the override's `to` returns exactly what a linear scan of the table returns — for every sorted, non-overlapping
    table, every rune and every `_case` value (including the out-of-range ones) -/
theorem to_eq_scan (t : Array CaseRange) (hs : Sorted t.toList) (c r : Int) : to c r t = toSpec c r t.toList := by
  unfold to toSpec MaxCase
  by_cases hc : c < 0 ∨ 3 ≤ c
  · have hc' : c < 0 ∨ ((3 : Nat) : Int) ≤ c := hc
    rw [if_pos hc', if_pos hc]
  · have hc' : ¬ (c < 0 ∨ ((3 : Nat) : Int) ≤ c) := hc
    rw [if_neg hc', if_neg hc]
    exact GV.Proofs.CaseMap.search_eq_scan c.toNat r t hs 0 t.size (Nat.le_refl _)
      (fun i _ h => absurd h (Nat.not_lt_zero _)) (fun i h1 h2 => absurd h1 (by omega))

instance (t : List CaseRange) : Decidable (Sorted t) := decidable_of_iff _ (sortedB_iff t)

example : Sorted [⟨65, 90, 0, 32, 0⟩, ⟨97, 122, -32, 0, -32⟩, ⟨256, 303, 1114112, 1114112, 1114112⟩] := by decide

/-! ### sync/atomic -/

theorem swap_spec {w : Nat} (c n : BitVec w) : swap c n = (n, c) := rfl

/-- CompareAndSwap: swaps exactly when the cell holds `old`; otherwise the cell is untouched -/
theorem cas_spec {w : Nat} (c o n : BitVec w) :
    ((cas c o n).2 = true ↔ c = o) ∧ (c = o → (cas c o n).1 = n) ∧ (c ≠ o → (cas c o n).1 = c) := by
  unfold cas; by_cases h : c = o <;> simp [h]

/-- Add: the new value is stored and returned; it is the sum modulo 2^w — unsigned and two's complement reading -/
theorem add_wraps {w : Nat} (c d : BitVec w) :
    (add c d).1 = (add c d).2 ∧ (add c d).2.toNat = (c.toNat + d.toNat) % 2 ^ w ∧
    (add c d).2.toInt = (c.toInt + d.toInt).bmod (2 ^ w) := by
  refine ⟨rfl, ?_, ?_⟩
  · simp [add, BitVec.toNat_add]
  · simp [add, BitVec.toInt_add]

theorem load_store_spec {w : Nat} (c v : BitVec w) : load c = (c, c) ∧ store c v = v := ⟨rfl, rfl⟩

/-- `Value.Store` of the override = upstream value.go, for every current content and argument -/
theorem value_store_eq (v new : Iface) : vStore v new = specStore v new := by
  cases new <;> cases v <;> simp [vStore, specStore, checkNew, sameType]
  split <;> simp_all

/-- `Value.Swap` of the override = upstream value.go -/
theorem value_swap_eq (v new : Iface) : vSwap v new = specSwap v new := by
  cases new <;> cases v <;> simp [vSwap, specSwap, checkNew, sameType]
  split <;> simp_all

/-- `Value.CompareAndSwap` of the override = upstream value.go, for every content, `old` and `new` (full strength since
    fixes/C13-atomic-value-cas.patch) -/
theorem value_cas_eq (v old new : Iface) : vCas v old new = specCas v old new := by
  cases new with
  | none => simp [vCas, specCas, checkNew]
  | some n =>
    cases v with
    | none =>
      cases old with
      | none => simp [vCas, specCas, checkNew, sameType]
      | some o =>
        simp only [vCas, specCas, checkNew, sameType]
        by_cases ht : o.1 = n.1 <;> simp [ht]
    | some cur =>
      cases old with
      | none =>
        simp only [vCas, specCas, checkNew, sameType]
        by_cases h1 : n.1 = cur.1 <;> simp [h1] <;> (try simp_all) <;> (try omega)
      | some o =>
        simp only [vCas, specCas, checkNew, sameType]
        by_cases h1 : n.1 = cur.1 <;> by_cases h2 : o.1 = n.1 <;> simp [h1, h2] <;> (try simp_all) <;> (try omega)

/-- REPAIRED DEFECT: the scheme before the repair panicked on `v.Store(1); v.CompareAndSwap(nil, 2)` (upstream: false) -/
theorem value_cas_old_counterexample : ¬ (∀ v old new : Iface, vCasOld v old new = specCas v old new) := by
  intro h
  have := h (some (1, 1)) none (some (1, 2))
  simp [vCasOld, specCas, checkNew, sameType] at this

/-! ### nosync -/

/-- for EVERY sequential history the outcomes of nosync are outcomes the sequential specification of sync allows:
    equal values where the operation returns, a panic exactly where sync panics, blocks forever or throws;
    the comparison stops where the specification says the goroutine is gone -/
theorem nosync_refines_sync (h : List Op) : GV.Proofs.NoSyncRefine.Allowed {} h (run {} h) :=
  GV.Proofs.NoSyncRefine.run_allowed {} {} GV.Proofs.NoSyncRefine.R_init h

/-- one step, from any related pair of states -/
theorem nosync_step_refines (s : State) (t : Spec) (op : Op) (h : GV.Proofs.NoSyncRefine.R s t) :
    ∃ p ∈ GV.Spec.SyncSeq.step t op, GV.Proofs.NoSyncRefine.Matches p.1 (GV.NoSync.step s op).2 ∧
      (p.1.terminal = true ∨ GV.Proofs.NoSyncRefine.R (GV.NoSync.step s op).1 p.2) :=
  GV.Proofs.NoSyncRefine.step_refines s t op h

/-- nosync.Map against the abstract map `Key → Option Val` (a stored nil value, code 0, is `some 0`, i.e. PRESENT): for
    EVERY history of Load / Store / LoadOrStore / Delete from the empty map, every operation returns what the abstract
    map returns -/
theorem nosync_map_refines_absmap (ops : List GV.Proofs.NoSyncMap.MapOp) :
    run {} (ops.map GV.Proofs.NoSyncMap.MapOp.toOp) = GV.Proofs.NoSyncMap.absRun (fun _ => none) ops :=
  GV.Proofs.NoSyncMap.run_refines {} (fun _ => none) GV.Proofs.NoSyncMap.rel_init ops

/-- `Store(k, nil)` then `LoadOrStore(k, v)`: the key is present — (nil, true) is returned and the entry is left alone -/
theorem present_nil_is_present (s : State) (k v : Int) :
    let s1 := (GV.NoSync.step s (.mapStore k 0)).1
    GV.NoSync.step s1 (.mapLoadOrStore k v) = (s1, .ok (.loaded (some 0) true)) :=
  GV.Proofs.NoSyncMap.present_nil_is_present s k v

/-- the presence test `actual != nil` instead of comma-ok does NOT refine the abstract map (witness:
    `Store(10, nil); LoadOrStore(10, 5)`) -/
theorem ne_nil_test_counterexample :
    (GV.Proofs.NoSyncMap.loadOrStoreNeNil (GV.NoSync.step {} (.mapStore 10 0)).1 10 5).2 ≠
      .ok (GV.Proofs.NoSyncMap.absStep (GV.Proofs.NoSyncMap.absStep (fun _ => none) (.store 10 0)).1 (.loadOrStore 10 5)).2 :=
  GV.Proofs.NoSyncMap.ne_nil_test_counterexample

/-- `Pool.Get` returns New()/nil on an empty pool, else an item that was Put and not yet handed out (and removes it) -/
theorem pool_get_allowed (s : State) (new : Option Int) :
    (s.pool = [] → GV.NoSync.step s (.poolGet new) = (s, .ok (.item new))) ∧
    (s.pool ≠ [] → ∃ x, x ∈ s.pool ∧ (GV.NoSync.step s (.poolGet new)).2 = .ok (.item (some x)) ∧
        (x, (GV.NoSync.step s (.poolGet new)).1.pool) ∈ takeAny s.pool) := by
  constructor
  · intro h; simp [GV.NoSync.step, h]
  · intro h
    obtain ⟨x, hx, hm⟩ := GV.Proofs.NoSyncRefine.takeAny_last s.pool h
    refine ⟨x, List.mem_of_getLast? hx, ?_, ?_⟩ <;> simp [GV.NoSync.step, h, hx, hm]

/-- `Once.Do(f)` runs f exactly when the Once is not done, marks it done whatever f does (return, panic, nested Do),
    and never leaves `doing` set -/
theorem once_runs_once (s : State) (f : OnceFn) (hd : s.onceDoing = false) :
    (GV.NoSync.step s (.onceDo f)).1.onceDone = true ∧ (GV.NoSync.step s (.onceDo f)).1.onceDoing = false ∧
    (s.onceDone = true → GV.NoSync.step s (.onceDo f) = (s, .ok (.ran 0))) ∧
    (s.onceDone = false → f = .ok → (GV.NoSync.step s (.onceDo f)).2 = .ok (.ran 1)) := by
  cases f <;> by_cases h : s.onceDone = true <;> simp [GV.NoSync.step, onceDoCore, onceBody, h, hd]

/-- `Map.Range` stopped by f at its n-th call makes min(n, len) calls (at least one on a non-empty map),
    whatever the enumeration order of the map -/
theorem range_calls (n : Int) (l : List (Int × Int)) (hn : 0 ≤ n) :
    rangeCalls n l 0 = if l.length = 0 then 0 else if n ≤ 1 then 1 else min n.toNat l.length := by
  rw [GV.Proofs.NoSyncRefine.rangeCalls_closed n l 0 hn]; simp

/-! ### math — bit patterns and classes (GV.Model.FloatBits) -/
open GV.FloatBits

/-- `Float64bits ∘ Float64frombits = id` through the typed-array aliasing (word split / join), all 64-bit patterns
    (the engine may canonicalise NaN payloads when the float is loaded: outside the model, excluded in the runs) -/
theorem float64bits_frombits (b : Nat) (h : b < two64) : float64bits (float64frombits b) = b :=
  GV.Proofs.FloatBits.float64bits_frombits b h

theorem float64frombits_bits (f : Nat) (h : f < two64) : float64frombits (float64bits f) = f :=
  GV.Proofs.FloatBits.float64frombits_bits f h

/-- `Signbit(x)` = bit 63 for every non-NaN pattern (`x < 0 || 1/x == negInf`) -/
theorem signbit_spec (b : Nat) (hn : isNaN b = false) : signbit b = (sign b == 1) := GV.Proofs.FloatBits.signbit_spec b hn

/-- `Copysign(x, y)` = magnitude bits of x with the sign bit of y, non-NaN arguments -/
theorem copysign_spec (x y : Nat) (hx : x < two64) (hnx : isNaN x = false) (hny : isNaN y = false) :
    copysign x y = x % two63 + sign y * two63 := GV.Proofs.FloatBits.copysign_spec x y hx hnx hny

theorem isnan_spec (f : Nat) : isNaNJS f = (expo f == 2047 && mant f != 0) := rfl

/-- `IsInf(f, sign)` = upstream's definition at bit level -/
theorem isinf_spec (f : Nat) (sg : Int) :
    isInfJS f sg = decide ((sg ≥ 0 ∧ f = posInf) ∨ (sg ≤ 0 ∧ f = negInf)) := GV.Proofs.FloatBits.isinf_spec f sg

theorem inf_spec (sg : Int) : inf sg = if sg ≥ 0 then posInf else negInf := rfl

/-- `Abs` (upstream, through the overridden reinterpretations) clears bit 63 -/
theorem abs_spec (x : Nat) (h : x < two64) : abs x = x % two63 := GV.Proofs.FloatBits.abs_spec x h

/-- Go's mantissa mask = exact conversion of the truncated magnitude (what ECMAScript's definitions compute) -/
theorem encode_trunc (x : Nat) (hx : x < two64) (h1 : 1023 ≤ expo x) (h2 : expo x < 1075) :
    truncGo x = sign x * two63 + encodeNat (truncMag x) := GV.Proofs.FloatBits.encode_trunc x hx h1 h2

/-- `Floor` = `Math.floor` (ECMAScript definition on the exact value) = upstream `Floor`, ALL bit patterns -/
theorem floor_eq (x : Nat) (hx : x < two64) : floorJS x = floorGo x := GV.Proofs.FloatBits.floor_eq x hx

/-- `Ceil` = `Math.ceil` = upstream `Ceil`, ALL bit patterns (incl. results -0 for -1 < x < 0) -/
theorem ceil_eq (x : Nat) (hx : x < two64) : ceilJS x = ceilGo x := GV.Proofs.FloatBits.ceil_eq x hx

/-- `Trunc` = `Math.trunc` = upstream `Trunc`, ALL bit patterns (full strength since fixes/C13-math-trunc.patch) -/
theorem trunc_eq (x : Nat) (hx : x < two64) : trunc x = truncGo x := GV.Proofs.FloatBits.trunc_eq x hx

/-- `Modf` = upstream `Modf`, ALL bit patterns: integer part bit-exact (signed zeros included), NaN-ness, sign and
    zero-ness of the fraction (full strength since fixes/C13-math-modf.patch) -/
theorem modf_eq (f : Nat) (h : f < two64) : modf f = modfGo f := GV.Proofs.FloatBits.modf_eq f h

/-- `Ldexp` (|exp| < 1024: `frac * Math.pow(2, exp)`): wherever the model decides — ±0, ±Inf, NaN, or a normal operand
    with a normal result, where the product is exact — upstream `ldexp` returns the same bit pattern -/
theorem ldexp_agree (frac : Nat) (e : Int) (b : Nat) (h : ldexp frac e = some b) : ldexpGo frac e = some b :=
  GV.Proofs.FloatBits.ldexp_agree frac e b h

/-- special-case table of `Ldexp`: ±0 → ±0, ±Inf → ±Inf, NaN → NaN -/
theorem ldexp_special (frac : Nat) (e : Int) (hr : -1024 < e ∧ e < 1024) :
    (isZero frac = true → ldexp frac e = some frac) ∧ (isInf frac = true → ldexp frac e = some frac) ∧
    (isNaN frac = true → ldexp frac e = some nanBits) := GV.Proofs.FloatBits.ldexp_special frac e hr

/-- `Frexp` of a normal f (upstream bit manipulation through the overridden reinterpretations): exponent e(f)+1, fraction with
    exponent field 1022, same sign and mantissa -/
theorem frexp_normal (f : Nat) (hf : f < two64) (h1 : expo f ≠ 0) (h2 : expo f ≠ 2047) :
    (frexp f).2 = (expo f : Int) - 1022 ∧ expo (frexp f).1 = 1022 ∧ sign (frexp f).1 = sign f ∧ mant (frexp f).1 = mant f :=
  GV.Proofs.FloatBits.frexp_normal f hf h1 h2

/-- `Ldexp(Frexp(f)) = f` for every normal f below 2^1023 -/
theorem ldexp_frexp (f : Nat) (hf : f < two64) (h1 : expo f ≠ 0) (h2 : expo f < 2046) :
    ldexp (frexp f).1 (frexp f).2 = some f := GV.Proofs.FloatBits.ldexp_frexp f hf h1 h2

/-! #### repaired defects: the schemes before the repairs (`truncOld`, `modfOld`) -/

theorem trunc_old_counterexample_large : ¬ GV.Proofs.FloatBits.truncOld_full := GV.Proofs.FloatBits.truncOld_counterexample_large
theorem trunc_old_counterexample_tiny : truncOld 0x8000000000000001 ≠ truncGo 0x8000000000000001 :=
  GV.Proofs.FloatBits.truncOld_counterexample_tiny
theorem modf_old_counterexample_frac : ¬ GV.Proofs.FloatBits.modfOld_full := GV.Proofs.FloatBits.modfOld_counterexample_frac
theorem modf_old_counterexample_tiny : modfOld 0x8000000000000001 ≠ modfGo 0x8000000000000001 :=
  GV.Proofs.FloatBits.modfOld_counterexample_tiny

end GV.Props.C13
