/-
  GV.Props.C01 — compiled programs behave like the reference Go toolchain: the mechanisms no other property owns.

  (1) structured control flow in its DIRECT (non-resumable) form: `GV.Direct.direct` (statements.go, `flatten = false`)
      against the reference semantics of `GV.Ctrl` — `direct_correct`, for every statement, every interpretation of the
      opaque primitives and every store;
  (2) `x op= y`, `x++`, `x--` desugaring (`GV.Desugar`, filter/assign.go, filter/incdecstmt.go) — `desugar_once`;
  (3) JavaScript identifier allocation with minification OFF (`GV.Names`, utils.go:284-327) — `names_distinct_plain`,
      `encodeIdent_inj`.
  Not modelled (observed on generated programs only): `translateExpr`, "no internal error", "valid JavaScript".
  `goto` is not part of `direct_correct` because the compiler never translates it in direct mode: the analysis marks every
  function that contains a `goto` as flattened (`compiler/internal/analysis/info.go:401-405`, `fi.markFlattened`) and
  `statements.go:319-320` only emits the flattened form `$s = N; continue;` — goto belongs to C02's `flatten_correct`.
-/
import GV.Model.Ctrl
import GV.Model.Direct
import GV.Proofs.DirectCorrect
import GV.Model.Desugar
import GV.Proofs.DesugarOnce
import GV.Model.Names
import GV.Proofs.NamesPlain
import GV.Proofs.EncodeInj

namespace GV.Props.C01
open GV.Ctrl GV.Direct GV.Proofs.Direct

/-! ## Direct translation of control flow -/

/-- **direct_correct** — for EVERY statement `s` that obeys Go's label rule (`wf`: no `continue L` inside `L: switch`),
    every interpretation of the primitives and every store: if the reference semantics of Go gives completion `g` and
    final store `st'` (the store includes the output trace), then the emitted JavaScript — `while (true)` loops with the
    post statement copied in front of every `continue`, `switch (0) { default: … }` wrappers, JS labels — evaluates,
    under ECMAScript completion semantics, to the same completion and the same store. Covers nested labelled loops,
    `continue` in loops with a post statement, `break` inside switch inside loop. -/
theorem direct_correct (E : Env σ) (s : Stmt) (hwf : wf s = true) {st : σ} {g : Sig} {st' : σ}
    (h : Eval E s st g st') : EvalJ E [] (direct Ctx.top s) st g st' := by
  have := direct_sim E h Ctx.top hwf
  have hadj : adj E Ctx.top g st' = st' := by
    cases g with
    | cont x => cases x <;> rfl
    | normal => rfl
    | brk x => rfl
    | ret => rfl
  rw [hadj] at this
  exact this

/-- the JavaScript semantics is deterministic, so the emitted code has NO other behaviour: whatever it evaluates to is
    the Go result (`evalJS (direct s) = evalGo s` on terminating programs). -/
theorem direct_unique (E : Env σ) (s : Stmt) (hwf : wf s = true) {st : σ} {g g' : Sig} {st' st'' : σ}
    (h : Eval E s st g st') (hj : EvalJ E [] (direct Ctx.top s) st g' st'') : g' = g ∧ st'' = st' :=
  evalJ_det E hj (direct_correct E s hwf h)

/-- the general form: inside any enclosing loops / switches (any `flowDatas`), the JavaScript code has, when the Go
    statement completes with `continue`, already run the post statement of the loop the `continue` targets. -/
theorem direct_correct_ctx (E : Env σ) (k : Ctx) (s : Stmt) (hwf : wf s = true) {st : σ} {g : Sig} {st' : σ}
    (h : Eval E s st g st') : EvalJ E [] (direct k s) st g (adj E k g st') :=
  direct_sim E h k hwf

/-- the label rule is needed: in `for ; ; p { L: switch { default: continue L } }` (rejected by go/types) the emitted
    code would run `p` before a `continue L` that no loop accepts. The hypothesis is satisfiable by non-trivial programs: -/
example : wf (.loop (some 1) (some 0) (.act 7)
    (.loop none (some 1) (.act 8) (.sw (some 2) (.ite 2 (.cont (some 1)) (.seq (.brk (some 2)) (.brk none)))))) = true := by
  decide

/-- **interp_sound_js** — the fuel-indexed MiniJS interpreter the driver runs only produces derivable results. -/
theorem interp_sound_js (E : Env σ) (fuel : Nat) (ls : List Nat) (s : JStmt) (st : σ) (g : Sig) (st' : σ)
    (h : evalJF E fuel ls s st = some (g, st')) : EvalJ E ls s st g st' :=
  evalJF_sound E fuel ls s st g st' h

/-- the driver's two runs agree whenever both finish: reference interpreter vs MiniJS interpreter of `direct s` -/
theorem drivers_agree (E : Env σ) (s : Stmt) (hwf : wf s = true) (f1 f2 : Nat) (st : σ) (r1 r2 : Sig × σ)
    (h1 : evalF E f1 s st = some r1) (h2 : evalJF E f2 [] (direct Ctx.top s) st = some r2) : r2 = r1 := by
  obtain ⟨g1, s1⟩ := r1
  obtain ⟨g2, s2⟩ := r2
  have a := evalF_sound E f1 s st g1 s1 h1
  have b := evalJF_sound E f2 [] _ st g2 s2 h2
  obtain ⟨rfl, rfl⟩ := direct_unique E s hwf a b
  rfl


/-! ## Op-assign / inc-dec desugaring -/
section Desugar
open GV.Desugar GV.Proofs.Desugar

/-- **desugar_once** — for EVERY addressable left operand `x` (identifier, `a[i]`, `s.f`, `*p`, map index, nested to any
    depth, with arbitrary side-effecting sub-expressions), every right operand `y`, every interpretation of the
    primitives and every store: the block `{ tmp… ; x' = x' op (y) }` built by `filter.Assign` ends in exactly the store
    the Go specification of `x op= y` prescribes — the operands of `x` are evaluated once and in source order, then `y`,
    then `x op y` is stored. Because the opaque operands are arbitrary functions of the store (they may append to an
    output trace), equality of the final stores says that every side-effecting sub-expression ran exactly once, in
    the same order (see `desugar_trace`). Hypothesis `MemPure`: opaque operands do not write memory that is read —
    where they do, Go itself leaves the order open. -/
theorem desugar_once (E : GV.Desugar.Env σ) (hp : MemPure E) (x y : Ex) (hx : noTmp x = true) (hy : noTmp y = true)
    (ha : addressable x = true) (t : Tmp) (s : σ) :
    execBlock E t (desugar x y) s = specOpAssign E t x y s :=
  desugar_exec E hp x y hx hy ha t s

/-- `x++` / `x--` (incdecstmt.go): the same with the literal 1 as right operand -/
theorem desugar_incdec_once (E : GV.Desugar.Env σ) (hp : MemPure E) (x : Ex) (hx : noTmp x = true)
    (ha : addressable x = true) (t : Tmp) (s : σ) :
    execBlock E t (desugarIncDec x) s = specOpAssign E t x (.lit 1) s :=
  desugar_exec E hp x (.lit 1) hx rfl ha t s

/-- a store that is only a trace of the opaque operands evaluated so far -/
def traceEnv : GV.Desugar.Env (List Nat) :=
  { opq := fun k s => (k, s ++ [k]), var := fun x => x, lit := fun n => n, idx := fun a b => a + b, fld := fun a f => a + f,
    deref := fun a => a, load := fun _ _ => 0, store := fun _ _ s => s, op := fun a b => a + b, cv := fun a => a }

/-- the specification evaluates the opaque operands in source order, each once … -/
theorem spec_trace (x y : Ex) (ha : addressable x = true) (t : Tmp) (s : List Nat) :
    specOpAssign traceEnv t x y s = s ++ opqs x ++ opqs y := by
  have key : ∀ (e : Ex) (s : List Nat), (evalR traceEnv t e s).2 = s ++ opqs e := by
    intro e
    induction e with
    | ident x => intro s; simp [evalR, opqs]
    | lit n => intro s; simp [evalR, opqs]
    | tmp j => intro s; simp [evalR, opqs]
    | index x i ihx ihi => intro s; simp [evalR, opqs, ihx, ihi, List.append_assoc]
    | sel x f ih => intro s; simp [evalR, opqs, ih]
    | star x ih => intro s; simp [evalR, opqs, ih]
    | opq k => intro s; simp [evalR, opqs, traceEnv]
    | bin l r ihl ihr => intro s; simp [evalR, opqs, ihl, ihr, List.append_assoc]
    | conv x ih => intro s; simp [evalR, opqs, ih]
  have keyL : (evalL traceEnv t x s).2 = s ++ opqs x := by
    cases x <;> simp [addressable] at ha <;> simp [evalL, opqs, key, List.append_assoc]
  simp only [specOpAssign, keyL, key]
  rfl

/-- … hence so does the desugared block: **exactly once, in source order** -/
theorem desugar_trace (x y : Ex) (hx : noTmp x = true) (hy : noTmp y = true) (ha : addressable x = true) (t : Tmp)
    (s : List Nat) : execBlock traceEnv t (desugar x y) s = s ++ opqs x ++ opqs y := by
  rw [desugar_once traceEnv (fun _ _ _ => rfl) x y hx hy ha t s, spec_trace x y ha t s]

/-- the naive rewriting `x = x op y` (no temporaries) is NOT correct — it runs the operands of `x` twice; this is what
    the temporaries are for (and what a mutation that drops them would break). -/
theorem naive_rewrite_wrong :
    execAssign traceEnv (fun _ => 0) (.index (.ident 0) (.opq 7)) (.bin (.index (.ident 0) (.opq 7)) (.opq 9)) [] ≠
      specOpAssign traceEnv (fun _ => 0) (.index (.ident 0) (.opq 7)) (.opq 9) [] := by
  decide

/-! ### which operands are treated as pure — and why that is enough -/

/-- an operand `viaTmpVars` keeps in place (identifier, basic literal, temporary) is returned unchanged, without a
    temporary … -/
theorem kept_in_place (e : Ex) (name n : Nat) (h : operandClass e = .keptInPlace) : viaTmp e name n = (e, n, []) := by
  cases e <;> simp [operandClass] at h <;> rfl

/-- … and it really is pure: it contains no opaque operand and evaluating it leaves every store unchanged -/
theorem kept_in_place_pure (E : GV.Desugar.Env σ) (e : Ex) (h : operandClass e = .keptInPlace) (t : Tmp) (s : σ) :
    opqs e = [] ∧ (evalR E t e s).2 = s := by
  cases e <;> simp [operandClass] at h <;> exact ⟨rfl, rfl⟩

/-- EVERYTHING else that is not an index / selector / indirection node — calls, type conversions, unary and binary
    expressions, type assertions, literals called in place — is hoisted: evaluated once into a fresh temporary -/
theorem everything_else_hoisted (e : Ex) (name n : Nat) (h : operandClass e = .hoisted) :
    viaTmp e name n = (.tmp n, n + 1, [⟨n, name, e⟩]) := by
  cases e <;> simp [operandClass] at h <;> rfl

/-- hence the rewritten lvalue never contains an operand that can have an effect: `desugar_once` is true exactly because
    the kept-in-place class is {identifier, literal} and nothing else -/
theorem desugar_residue_pure (x y : Ex) (hx : noTmp x = true) :
    pureEx (desugar x y).lhs = true ∧ opqs (desugar x y).lhs = [] := by
  have h := (viaTmp_spec traceEnv (fun _ _ _ => rfl) x 4 0 (fun _ => 0) [] hx).2.1
  refine ⟨h, ?_⟩
  have key : ∀ e : Ex, pureEx e = true → opqs e = [] := by
    intro e
    induction e with
    | opq k => intro h; simp [pureEx] at h
    | index x i ihx ihi => intro h; simp only [pureEx, Bool.and_eq_true] at h; simp [opqs, ihx h.1, ihi h.2]
    | sel x f ih => intro h; simp only [pureEx] at h; simp [opqs, ih h]
    | star x ih => intro h; simp only [pureEx] at h; simp [opqs, ih h]
    | bin l r ihl ihr => intro h; simp only [pureEx, Bool.and_eq_true] at h; simp [opqs, ihl h.1, ihr h.2]
    | conv x ih => intro h; simp only [pureEx] at h; simp [opqs, ih h]
    | ident x => intro _; rfl
    | lit k => intro _; rfl
    | tmp j => intro _; rfl
  exact key _ h

/-! ### SEEDED CHANGE `C01-conversion-operand-not-hoisted`: "a type conversion has no side effects" -/

/-- Treating a conversion operand as pure (keeping `T(f())` in place without inspecting its argument) is WRONG: in
    `a[T(f())] += g()` the call `f` runs twice — once for the read, once for the write (trace `f f g`, Go: `f g`). -/
theorem conversion_kept_in_place_wrong :
    execBlock traceEnv (fun _ => 0) (desugarConvPure (.index (.ident 0) (.conv (.opq 7))) (.opq 9)) [] = [7, 7, 9] ∧
    specOpAssign traceEnv (fun _ => 0) (.index (.ident 0) (.conv (.opq 7))) (.opq 9) [] = [7, 9] ∧
    execBlock traceEnv (fun _ => 0) (desugar (.index (.ident 0) (.conv (.opq 7))) (.opq 9)) [] = [7, 9] := by
  decide

/-- the same for a pointer conversion `(*T)(p()).f -= …` and for `x[T(f())]++` -/
theorem conversion_kept_in_place_wrong' :
    execBlock traceEnv (fun _ => 0) (desugarConvPure (.sel (.conv (.opq 3)) 0) (.opq 9)) [] ≠
      specOpAssign traceEnv (fun _ => 0) (.sel (.conv (.opq 3)) 0) (.opq 9) [] ∧
    execBlock traceEnv (fun _ => 0) (desugarConvPure (.index (.ident 0) (.conv (.opq 7))) (.lit 1)) [] ≠
      specOpAssign traceEnv (fun _ => 0) (.index (.ident 0) (.conv (.opq 7))) (.lit 1) [] := by
  decide

/-- a conversion of a plain variable is unaffected by that change (why ordinary programs did not notice) -/
example : execBlock traceEnv (fun _ => 0) (desugarConvPure (.index (.ident 0) (.conv (.ident 1))) (.opq 9)) [] =
    specOpAssign traceEnv (fun _ => 0) (.index (.ident 0) (.conv (.ident 1))) (.opq 9) [] := by decide

/-- the hypotheses are satisfiable by a non-trivial statement: `p().f[i()] += g()` -/
example : noTmp (.index (.sel (.opq 1) 0) (.opq 2)) = true ∧ addressable (.index (.sel (.opq 1) 0) (.opq 2)) = true ∧
    execBlock traceEnv (fun _ => 0) (desugar (.index (.sel (.opq 1) 0) (.opq 2)) (.opq 3)) [] = [1, 2, 3] ∧
    (desugar (.index (.sel (.opq 1) 0) (.opq 2)) (.opq 3)).tmps.map (fun d => tmpName d.name) = ["_struct", "_index"] := by
  decide

/-! ### tuple assignment: a recorded defect (known finding `C01-tuple-assign-lhs-after-rhs`) -/

/-- full strength (NOT claimed): the emitted tuple assignment behaves like the specification -/
def tuple_assign_full : Prop :=
  ∀ (ls rs : List Ex) (t : Tmp) (s : List Nat), codeTuple traceEnv t ls rs s = specTuple traceEnv t ls rs s

/-- it fails: in `a[f()], a[g()] = h(), i()` Go calls f, g, h, i — the emitted code calls h, i, f, g -/
theorem tuple_assign_counterexample : ¬ tuple_assign_full := by
  intro h
  have := h [.index (.ident 0) (.opq 1), .index (.ident 0) (.opq 2)] [.opq 3, .opq 4] (fun _ => 0) []
  revert this
  decide

theorem all_cons_ident (e : Ex) (r : List Ex) (h : (e :: r).all isIdent = true) :
    ∃ x, e = .ident x ∧ r.all isIdent = true := by
  simp only [List.all_cons, Bool.and_eq_true] at h
  obtain ⟨h1, h2⟩ := h
  cases e <;> simp [isIdent] at h1
  exact ⟨_, rfl, h2⟩

/-- **tuple_assign_partial** — when every left side is a plain variable (`a, b = b, a`, `x, y, z = y, z, x`,
    `v, ok = …`) the emitted code IS the specification, for every interpretation and every store. -/
theorem tuple_assign_partial (E : GV.Desugar.Env σ) (t : Tmp) (ls rs : List Ex) (hl : ls.all isIdent = true) (s : σ) :
    codeTuple E t ls rs s = specTuple E t ls rs s := by
  have hL : ∀ (ls : List Ex), ls.all isIdent = true → ∀ s, (evalLs E t ls s).2 = s := by
    intro ls
    induction ls with
    | nil => intro _ s; rfl
    | cons e r ih =>
      intro h s
      obtain ⟨x, rfl, h⟩ := all_cons_ident e r h
      simp only [evalLs, evalL]
      exact ih h s
  have hA : ∀ (ls : List Ex), ls.all isIdent = true → ∀ (vs : List Val) (s : σ),
      assignEach E t ls vs s = storeAll E (evalLs E t ls s).1 vs s := by
    intro ls
    induction ls with
    | nil => intro _ vs s; cases vs <;> rfl
    | cons e r ih =>
      intro h vs s
      obtain ⟨x, rfl, h⟩ := all_cons_ident e r h
      cases vs with
      | nil => rfl
      | cons v vs =>
        simp only [assignEach, evalL, evalLs, storeAll]
        rw [ih h vs]
        congr 1
        -- the locations of the remaining variables do not depend on the store
        have hloc : ∀ (r : List Ex), r.all isIdent = true → ∀ s s' : σ, (evalLs E t r s).1 = (evalLs E t r s').1 := by
          intro r
          induction r with
          | nil => intro _ _ _; rfl
          | cons e r ih2 =>
            intro h s s'
            obtain ⟨x, rfl, h⟩ := all_cons_ident e r h
            simp only [evalLs, evalL]
            rw [ih2 h s s']
        exact hloc r h _ _
  simp only [codeTuple, specTuple, hL ls hl]
  rw [hA ls hl]
  congr 1
  have hloc : ∀ (r : List Ex), r.all isIdent = true → ∀ s s' : σ, (evalLs E t r s).1 = (evalLs E t r s').1 := by
    intro r
    induction r with
    | nil => intro _ _ _; rfl
    | cons e r ih2 =>
      intro h s s'
      obtain ⟨x, rfl, h⟩ := all_cons_ident e r h
      simp only [evalLs, evalL]
      rw [ih2 h s s']
  exact hloc ls hl _ _

example : [Ex.ident 1, Ex.ident 2, Ex.ident 3].all isIdent = true := by decide

end Desugar

/-! ## JavaScript identifier allocation, minification off -/
section NamesPlain
open GV.Names GV.NamesPlain GV.Proofs.NamesPlain

/-- encoded names a history asks for (`encodeIdent` of every requested name and of every function reference) -/
def bases (ops : List Op) : List Name := ops.flatMap opBase

/-- **names_distinct_plain** [INV] — for EVERY history of nested function contexts (enter a function literal / leave
    it / allocate a local or package-level name in the innermost context; any scope tree, any names), with minification
    OFF: at every moment the JavaScript names in scope — all package-level names and the locals of all enclosing
    functions, handed out as `name`, `name$1`, `name$2` … from the `allVars` counters that a nested context inherits —
    are pairwise distinct and none is a reserved word. Side condition, exactly what the scheme needs: on the encoded
    names that occur, `(name, n) ↦ name$n` is injective (`RenderInj`: no encoded name is another one followed by
    `$<digits>`); see `renderInj_ascii` / `render_clash` for when it holds / fails. This is the statement
    `GV.Props.C16.names_distinct_plain` left open (there without the side condition, which makes it false). -/
theorem names_distinct_plain (ops : List Op) (st : NState) (hinj : RenderInj (bases ops))
    (h : runOps false initStateG ops = some st) :
    (visible st).Nodup ∧ (∀ n ∈ visible st, n ∉ reservedAll) := by
  have hi := inv_run_plain (bases ops) reservedAll reservedAll_no_dollar hinj ops initStateG st (initP _ reservedGlobals)
    (fun op hop b hb => List.mem_flatMap.mpr ⟨op, hop, hb⟩) h
  exact ⟨hi.nodup, hi.notres⟩

/-- the same from ANY seeding of the root context (e.g. the keyword list alone, the tree before the repair
    `fixes/C01-reserve-globals.patch`): distinct, and never one of the seeded names -/
theorem names_distinct_plain_seeded (extra : List Name) (hx : ∀ r ∈ extra, 36 ∉ r) (ops : List Op) (st : NState)
    (hinj : RenderInj (bases ops)) (h : runOps false (initStateX extra) ops = some st) :
    (visible st).Nodup ∧ (∀ n ∈ visible st, n ∉ reserved ++ extra) := by
  have hR : ∀ r ∈ reserved ++ extra, 36 ∉ r := by
    intro r hr
    simp only [List.mem_append] at hr
    rcases hr with hr | hr
    · exact reserved_no_dollar r hr
    · exact hx r hr
  have hi := inv_run_plain (bases ops) (reserved ++ extra) hR hinj ops (initStateX extra) st (initP _ extra)
    (fun op hop b hb => List.mem_flatMap.mpr ⟨op, hop, hb⟩) h
  exact ⟨hi.nodup, hi.notres⟩

/-- a name handed out is new: it was not in scope before the allocation -/
theorem names_fresh_plain (ops : List Op) (st : NState) (name : Name) (pk : Bool) (c : List Scope) (v : Name)
    (hinj : RenderInj (encodeIdent name :: bases ops)) (h : runOps false initStateG ops = some st)
    (ha : newVariable false name pk st.chain = some (c, v)) : v ∉ visible st := by
  have hi := inv_run_plain (encodeIdent name :: bases ops) reservedAll reservedAll_no_dollar hinj ops initStateG st
    (initP _ reservedGlobals)
    (fun op hop b hb => List.mem_cons_of_mem _ (List.mem_flatMap.mpr ⟨op, hop, hb⟩)) h
  exact (inv_req_plain _ reservedAll reservedAll_no_dollar hinj hi (by simp) ha).2

/-- REPAIRED DEFECT (`fixes/C01-reserve-globals.patch`) — before the repair the root context was seeded with the keywords
    only, and the first `console` of a package was handed out as `console`, the global `println` compiles to: -/
theorem console_was_not_reserved : [99, 111, 110, 115, 111, 108, 101] ∉ reserved ∧
    [99, 111, 110, 115, 111, 108, 101] ∈ reservedAll := by decide

/-- **encodeIdent_inj**, ASCII part — identifiers made of `[A-Za-z0-9_]` (and `.`, `-`, `~`) are left alone by
    `encodeIdent`, contain no `$`, and on such names `name$n` is injective: no clash between names and counters. -/
theorem renderInj_ascii (ops : List Op)
    (hreq : ∀ op ∈ ops, match op with
      | .req name _ => ∀ c ∈ name, unreserved c = true
      | .push fn => ∀ c ∈ fn, unreserved c = true
      | .pop => True
      | .ptr _ _ => False
      | .obj _ name _ => ∀ c ∈ name, unreserved c = true) : RenderInj (bases ops) := by
  apply renderInj_noDollar
  intro b hb
  simp only [bases, List.mem_flatMap] at hb
  obtain ⟨op, hop, hb⟩ := hb
  have := hreq op hop
  cases op with
  | pop => simp [opBase] at hb
  | req name pk =>
    simp only [opBase, List.mem_singleton] at hb
    rw [hb, encodeIdent_ascii name this]
    intro hm
    exact (unreserved_lt 36 (this 36 hm)).2 rfl
  | push fn =>
    simp only [opBase, List.mem_singleton] at hb
    rw [hb]
    exact encodeIdent_dots_noDollar fn this
  | ptr v name => exact absurd this id
  | obj o name pk =>
    simp only [opBase, List.mem_singleton] at hb
    rw [hb, encodeIdent_ascii name this]
    intro hm
    exact (unreserved_lt 36 (this 36 hm)).2 rfl

theorem encodeIdent_ascii_id (name : Name) (h : ∀ c ∈ name, unreserved c = true) : encodeIdent name = name :=
  encodeIdent_ascii name h

/-- corollary: histories over ASCII identifiers need no side condition -/
theorem names_distinct_plain_ascii (ops : List Op) (st : NState)
    (hreq : ∀ op ∈ ops, match op with
      | .req name _ => ∀ c ∈ name, unreserved c = true
      | .push fn => ∀ c ∈ fn, unreserved c = true
      | .pop => True
      | .ptr _ _ => False
      | .obj _ name _ => ∀ c ∈ name, unreserved c = true)
    (h : runOps false initStateG ops = some st) :
    (visible st).Nodup ∧ (∀ n ∈ visible st, n ∉ reservedAll) :=
  names_distinct_plain ops st (renderInj_ascii ops hreq) h

/-- the side condition is needed: a byte that escapes to two DECIMAL hex digits clashes with a counter — the encoded
    name of `"x\x10"` is `x$10`, which is also the eleventh `x`. (Such bytes do not occur in Go identifiers: their
    non-ASCII characters are UTF-8 sequences whose lead byte escapes to `$C2` … `$F4`, never decimal.) -/
theorem render_clash : encodeIdent [120, 16] = [120, 36, 49, 48] ∧ ¬ RenderInj [encodeIdent [120], encodeIdent [120, 16]] := by
  have e1 : encodeIdent [120, 16] = [120, 36, 49, 48] := by
    rw [encodeIdent]; simp [unreserved]
    rw [encodeIdent]; simp [unreserved, hexU]
    rw [encodeIdent]
  have e0 : encodeIdent [120] = [120] := encodeIdent_ascii [120] (by decide)
  refine ⟨e1, ?_⟩
  intro h
  have := h (encodeIdent [120]) (by simp) (encodeIdent [120, 16]) (by simp) 10 0 (by
    rw [e0, e1]
    simp only [render]
    have : decimal 10 = [49, 48] := by decide
    simp [this])
  rw [e0, e1] at this
  exact absurd this.1 (by decide)

open GV.Proofs.EncodeInj in
/-- **encodeIdent_inj_utf8** — `encodeIdent` followed by the `$n` counter suffix is injective on everything the compiler
    asks names for: Go identifiers (ASCII letters, digits, `_`, and UTF-8 encoded non-ASCII letters / digits), dotted
    function references (`main.f`, the dots become middle dots), and the compiler's own `$r`, `x$ptr` (`GV.Proofs.EncodeInj.Valid`:
    unreserved ASCII bytes · `$`+letter · `C2 B7` · a UTF-8 lead byte with exactly the continuation bytes it announces).
    No clash between an escaped byte (`$C3`, `$80` …) and a counter (`$3`, `$80` …): a lead byte escapes to `$C2`…`$F4`,
    never decimal, and a continuation byte — which can escape to decimal digits, `À1` is `$C3$801` — never follows a
    complete name. -/
theorem encodeIdent_inj_utf8 (ops : List Op)
    (hreq : ∀ op ∈ ops, match op with
      | .req name _ => Valid name
      | .push fn => Valid fn
      | .pop => True
      | .ptr _ name => Valid name
      | .obj _ name _ => Valid name) : RenderInj (bases ops) := by
  apply renderInj_valid
  intro b hb
  simp only [bases, List.mem_flatMap] at hb
  obtain ⟨op, hop, hb⟩ := hb
  have := hreq op hop
  cases op with
  | pop => simp [opBase] at hb
  | req name pk =>
    simp only [opBase, List.mem_singleton] at hb
    exact ⟨name, this, hb⟩
  | push fn =>
    simp only [opBase, List.mem_singleton] at hb
    exact ⟨dotsToMidDot fn, valid_dots this, hb⟩
  | ptr v name =>
    simp only [opBase, List.mem_singleton] at hb
    exact ⟨name ++ ptrSuffix, valid_append this valid_ptrSuffix, hb⟩
  | obj o name pk =>
    simp only [opBase, List.mem_singleton] at hb
    exact ⟨name, this, hb⟩

open GV.Proofs.EncodeInj in
/-- **names_distinct_plain for all valid Go identifiers** — no side condition left: for every history whose requested
    names are valid (see `encodeIdent_inj_utf8`), the JavaScript names in scope are pairwise distinct and never a reserved
    keyword or reserved global. -/
theorem names_distinct_plain_valid (ops : List Op) (st : NState)
    (hreq : ∀ op ∈ ops, match op with
      | .req name _ => Valid name
      | .push fn => Valid fn
      | .pop => True
      | .ptr _ name => Valid name
      | .obj _ name _ => Valid name)
    (h : runOps false initStateG ops = some st) :
    (visible st).Nodup ∧ (∀ n ∈ visible st, n ∉ reservedAll) :=
  names_distinct_plain ops st (encodeIdent_inj_utf8 ops hreq) h

open GV.Proofs.EncodeInj in
/-- non-ASCII identifiers are valid names: `é` (C3 A9), `À1` (C3 80 31, whose encoding `$C3$801` ends in `$` + digits),
    `变` (E5 8F 98), and the function reference `main.é` -/
example : Valid [0xC3, 0xA9] ∧ Valid [0xC3, 0x80, 0x31] ∧ Valid [0xE5, 0x8F, 0x98] ∧
    Valid [109, 97, 105, 110, 46, 0xC3, 0xA9] := by
  refine ⟨?_, ?_, ?_, ?_⟩
  · exact .multi 0xC3 [0xA9] [] (by decide) (by decide) (by decide) (by simp [isCont]) (by simp) .nil
  · exact .multi 0xC3 [0x80] [0x31] (by decide) (by decide) (by decide) (by simp [isCont]) (by simp)
      (.ascii 0x31 [] (by decide) .nil)
  · exact .multi 0xE5 [0x8F, 0x98] [] (by decide) (by decide) (by decide) (by simp [isCont]) (by simp) .nil
  · exact .ascii 109 _ (by decide) (.ascii 97 _ (by decide) (.ascii 105 _ (by decide) (.ascii 110 _ (by decide)
      (.ascii 46 _ (by decide) (.multi 0xC3 [0xA9] [] (by decide) (by decide) (by decide) (by simp [isCont]) (by simp) .nil)))))

/-- the hypotheses are satisfiable by a non-trivial history: `x`, `x` again, a nested function `f`, `let` -/
example : RenderInj (bases [.req [120] false, .req [120] false, .push [102], .req [108, 101, 116] false]) := by
  apply renderInj_ascii
  intro op hop
  simp only [List.mem_cons, List.mem_nil_iff, or_false] at hop
  rcases hop with rfl | rfl | rfl | rfl <;> decide

/-- … and histories do run: the first `x` of a package is called `x` -/
example : ∃ st, runOps false (initStateX []) [.req [120] false] = some st ∧ visible st = [[120]] := by
  have e0 : encodeIdent [120] = [120] := encodeIdent_ascii [120] (by decide)
  have h0 : rootScope.vars.cnt [120] = 0 := GV.Proofs.Names.rootScope_free [120] (by decide)
  refine ⟨{ chain := [addLocal rootScope [120] [120]], pkgNames := [] }, ?_, ?_⟩
  · simp [runOps, stepOp, initStateX, seedExtra, newVariable, e0, h0, addLocal]
  · simp [visible, chainLocals, addLocal, rootScope]

end NamesPlain

end GV.Props.C01
