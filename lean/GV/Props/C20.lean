/-
  GV.Props.C20 — the build cache is transparent, never stale and tolerates damage.

  Model: GV.Model.Cache (transcription of build/cache/cache.go WITH the repairs
  fixes/C20-key-without-path-clean.patch and fixes/C20-verify-gzip-checksum-before-decoding.patch).
  NOT modelled (abstract parameters with explicit hypotheses): `unicode.IsPrint` (`ip`, arbitrary),
  SHA-256 (`E.h`: injective on the keys in play, outputs of one fixed length `L`), the gzip+gob envelope
  (`E.sealE`/`E.openE` with `openE (sealE x) = some x`), the OS (rename is one atomic step).

  Full strength now: `key_injective` (all configurations, all byte strings, any IsPrint) and
  `load_provenance` (same configuration and import path, no side condition on the strings).
  That the REAL envelope detects damage is not a theorem (`damage_is_miss` is about the abstract one); it
  is what the check's fault enumeration exercises (after the repair: every damage class is a miss).

  Section "repaired defects": the old `path.Join` key scheme with its proved collisions, and the facts
  about `path.Clean` (kept because they are what made the old scheme's partial theorem work).
-/
import GV.Model.Cache
import GV.Proofs.PathClean
import GV.Proofs.CacheKey

namespace GV.Props.C20
open GV.PathClean GV.Cache

/-! ## the key -/

/-- Go string quoting (`%#v` of a string) is injective on ALL byte strings, for any `unicode.IsPrint` -/
theorem quote_injective (ip : Nat → Bool) (s s' : Str) (h : quote ip s = quote ip s') : s = s' :=
  GV.Cache.quote_injective ip s s' h

/-- KEY INJECTIVITY (full strength): the cache key determines the configuration (GOOS, GOARCH, GOROOT,
    GOPATH, build tags incl. nil/empty, version) and the import path -/
theorem key_injective (ip : Nat → Bool) (c c' : Cfg) (p p' : Str) (h : packageKey ip c p = packageKey ip c' p') :
    c = c' ∧ p = p' := GV.Cache.packageKey_injective ip c c' p p' h

theorem cachedPath_injective {P : Type} (E : Env P) (c c' : Cfg) (p p' : Str)
    (hinj : ∀ k k', E.h k = E.h k' → k = k') (h : cachedPath E c p = cachedPath E c' p') : c = c' ∧ p = p' := by
  rw [cachedPath_eq, cachedPath_eq] at h
  exact key_injective E.isPrint c c' p p' (hinj _ _ h)

/-! ## repaired defects: the `path.Join` key scheme (before fixes/C20-key-without-path-clean.patch) -/

theorem clean_idempotent (s : Str) : clean (clean s) = clean s := GV.PathClean.clean_idempotent s

/-- a cleaned rooted path is "/" or "/" followed by elements none of which is empty, "." or ".." -/
theorem clean_rooted_no_dot_elements (s : Str) (h : s.head? = some 47) :
    clean s = [47] ∨ ∃ t, clean s = 47 :: t ∧ ∀ e ∈ splitSlash t, Good e := by
  obtain ⟨g, hc, hg⟩ := clean_rooted s h
  cases g with
  | nil => left; simpa [joinSlash] using hc
  | cons e es =>
    right
    refine ⟨joinSlash (e :: es), hc, ?_⟩
    rw [split_join e es (fun x hx => (hg x hx).2)]
    intro x hx; exact (hg x hx).1

theorem clean_id_of_good (s : Str) (hs : s ≠ []) (h : ∀ e ∈ splitSlash s, Good e) : clean s = s :=
  GV.PathClean.clean_id_of_good s hs h

/-- STATED, NOT PROVED: the literal byte/index transcription of path.Clean agrees with the element-level
    model. Tied by the check: exhaustively for all strings over {'/', '.', 'a'} up to length 7 (quick) / 9
    (thorough) plus random strings, both against Go's real `path.Clean`. Since the repair no cache code
    depends on `path.Clean`. -/
def CleanBytesAgrees : Prop := ∀ s : Str, cleanBytes s = clean s

def allPrint : Nat → Bool := fun _ => true

/-- the old scheme's injectivity (false) -/
def OldKeyInjective : Prop := ∀ c p c' p', packageKeyOld allPrint c p = packageKeyOld allPrint c' p' → c = c' ∧ p = p'

def linux : Str := [108, 105, 110, 117, 120]
def js : Str := [106, 115]
def math : Str := [109, 97, 116, 104]
/-- GOROOT "/r/a", GOPATH "/../g" -/
def witnessA : Cfg := ⟨linux, js, [47, 114, 47, 97], [47, 46, 46, 47, 103], none, [49]⟩
/-- GOROOT "/r/b", GOPATH "/../g" -/
def witnessB : Cfg := ⟨linux, js, [47, 114, 47, 98], [47, 46, 46, 47, 103], none, [49]⟩
/-- build tags ["a/../b"] -/
def witnessC : Cfg := ⟨linux, js, [47, 114], [47, 103], some [[97, 47, 46, 46, 47, 98]], [49]⟩
/-- build tags ["c/../b"] -/
def witnessD : Cfg := ⟨linux, js, [47, 114], [47, 103], some [[99, 47, 46, 46, 47, 98]], [49]⟩

theorem old_witness_collision : packageKeyOld allPrint witnessA math = packageKeyOld allPrint witnessB math := by decide

theorem old_witness_tags_collision : packageKeyOld allPrint witnessC math = packageKeyOld allPrint witnessD math := by decide

/-- with `path.Join`, GOPATH "/../g" swallowed the last element of GOROOT: two configurations, one key -/
theorem old_key_injective_counterexample : ¬ OldKeyInjective := by
  intro h
  have := (h witnessA math witnessB math old_witness_collision).1
  exact absurd this (by decide)

theorem old_key_injective_tags_counterexample : ¬ OldKeyInjective := by
  intro h
  have := (h witnessC math witnessD math old_witness_tags_collision).1
  exact absurd this (by decide)

/-- the same witnesses have different keys now -/
example : packageKey allPrint witnessA math ≠ packageKey allPrint witnessB math ∧
    packageKey allPrint witnessC math ≠ packageKey allPrint witnessD math := by decide

/-- the key has no '/'-delimited element that is empty, "." or ".." (decidable) -/
abbrev Benign (ip : Nat → Bool) (c : Cfg) (p : Str) : Prop := ∀ e ∈ splitSlash (packageKey ip c p), Good e

theorem packageKey_ne_nil (ip : Nat → Bool) (c : Cfg) (p : Str) : packageKey ip c p ≠ [] := by simp [packageKey, litPackage]

/-- what did hold for the old scheme: injective on keys that `path.Clean` leaves alone -/
theorem old_key_injective_partial (ip : Nat → Bool) (c c' : Cfg) (p p' : Str) (hb : Benign ip c p) (hb' : Benign ip c' p')
    (h : packageKeyOld ip c p = packageKeyOld ip c' p') : c = c' ∧ p = p' := by
  rw [packageKeyOld_eq, packageKeyOld_eq,
    GV.PathClean.clean_id_of_good _ (packageKey_ne_nil ip c p) hb,
    GV.PathClean.clean_id_of_good _ (packageKey_ne_nil ip c' p') hb'] at h
  exact key_injective ip c c' p p' h

/-- GOROOT "/usr/local/go", GOPATH "/root/go", tags ["netgo", "a\"b"], import path "unicode/utf8" -/
def realistic : Cfg := ⟨linux, js, [47, 117, 115, 114, 47, 108, 111, 99, 97, 108, 47, 103, 111], [47, 114, 111, 111, 116, 47, 103, 111],
  some [[110, 101, 116, 103, 111], [97, 34, 98]], [49, 46, 50, 48]⟩

example : Benign allPrint realistic [117, 110, 105, 99, 111, 100, 101, 47, 117, 116, 102, 56] := by decide

example : ¬ Benign allPrint witnessA math ∧ ¬ Benign allPrint witnessC math := by decide

/-! ## Load -/

section
variable {P : Type} (E : Env P)

/-- the package under test is never cached: Load misses and Store does nothing -/
theorem test_pkg_never_cached (bc : BuildCache) (p : Str) (h : isTestPackage bc p = true) (t : Time) (fs : FS)
    (sfx : Str) (chunks : List Bytes) :
    load E bc p t fs = none ∧ storeSteps E bc p sfx chunks = [] ∧ storeStepsFail E bc p sfx chunks = [] := by
  simp [load, storeSteps, storeStepsFail, h]

theorem missing_is_miss (bc : BuildCache) (p : Str) (t : Time) (fs : FS) (h : fs (cachedPath E bc.cfg p) = none) :
    load E bc p t fs = none := by
  unfold load; split <;> simp [h]

/-- whatever is at the path: if the envelope does not open, the outcome is a miss (no error, no partial payload) -/
theorem damage_is_miss (bc : BuildCache) (p : Str) (t : Time) (fs : FS) (b : Bytes)
    (h : fs (cachedPath E bc.cfg p) = some b) (hd : E.openE b = none) : load E bc p t fs = none := by
  unfold load; split <;> simp [h, hd]

/-- an entry older than the sources is a miss -/
theorem stale_is_miss (bc : BuildCache) (p : Str) (t t0 : Time) (pl : P) (fs : FS) (b : Bytes)
    (h : fs (cachedPath E bc.cfg p) = some b) (ho : E.openE b = some (t0, pl)) (hs : t > t0) : load E bc p t fs = none := by
  unfold load; split <;> simp [h, ho, hs]

/-- for EVERY file system state (hence after every history of stores, loads, crashes and damage): Load
    returns a payload only for a package that is not under test, whose file opens to that payload, with an
    entry that is not older than the sources -/
theorem load_sound (bc : BuildCache) (p : Str) (t : Time) (fs : FS) (pl : P) (h : load E bc p t fs = some pl) :
    isTestPackage bc p = false ∧ ∃ b t0, fs (cachedPath E bc.cfg p) = some b ∧ E.openE b = some (t0, pl) ∧ ¬ t > t0 := by
  unfold load at h
  split at h
  · cases h
  · next hnt =>
    refine ⟨by simpa using hnt, ?_⟩
    split at h
    · cases h
    · next b hb =>
      split at h
      · cases h
      · next t0 pl' ho =>
        split at h
        · cases h
        · next hst =>
          injection h with h
          subst h
          exact ⟨b, t0, hb, ho, hst⟩

/-- Load is a function of what the bytes at the path OPEN to and of nothing else: whatever replaced the stored
    bytes (damage, another writer), the time that decides freshness is the one INSIDE the envelope of the bytes
    that are there now, and the payload returned is the one sealed with that time. -/
theorem load_depends_only_on_envelope (bc : BuildCache) (p : Str) (t : Time) (fs : FS) (b' : Bytes) :
    load E bc p t (fs.set (cachedPath E bc.cfg p) (some b')) =
      (if isTestPackage bc p then none else
        match E.openE b' with
        | none => none
        | some (t0', pl') => if t > t0' then none else some pl') := by
  unfold load
  simp only [FS.set, if_true]
  rfl

/-- MODELLING ASSUMPTION about the real envelope (not a theorem; probed by the check on every run): the build
    time is sealed TOGETHER with the payload under the checksum, i.e. bytes that open are exactly the sealed form
    of what they open to (an idealised checksum: no damaged file opens). A format that keeps the time outside the
    checksummed part violates it. -/
def Authentic : Prop := ∀ b x, E.openE b = some x → b = E.sealE x

/-- under `Authentic`: a Load that hits read a byte-exact sealed entry, and its own sealed time is not older than
    the sources -/
theorem load_hit_is_exact_seal (hauth : Authentic E) (bc : BuildCache) (p : Str) (t : Time) (fs : FS) (pl : P)
    (h : load E bc p t fs = some pl) :
    ∃ t0, fs (cachedPath E bc.cfg p) = some (E.sealE (t0, pl)) ∧ ¬ t > t0 := by
  obtain ⟨_, b, t0, hb, ho, hst⟩ := load_sound E bc p t fs pl h
  exact ⟨t0, by rw [hb, hauth b (t0, pl) ho], hst⟩

/-- under `Authentic`: after the entry sealed at `t0` has been replaced by ANY other bytes, a Load with sources
    newer than `t0` misses unless those bytes are a complete sealed entry with a later time of its own (i.e. a
    genuine newer Store); in particular damage never turns a stale entry into a fresh one, and bytes that are not
    a sealed entry are a miss for every source time -/
theorem damaged_never_fresh (hauth : Authentic E) (bc : BuildCache) (p : Str) (t : Time) (fs : FS) (b' : Bytes) :
    (∀ x, b' ≠ E.sealE x) → load E bc p t (fs.set (cachedPath E bc.cfg p) (some b')) = none := by
  intro hne
  rw [load_depends_only_on_envelope]
  split
  · rfl
  · cases ho : E.openE b' with
    | none => rfl
    | some x => exact absurd (hauth b' x ho) (hne x)

/-! ## Store is read-only on the package being stored (frame property of `Sources.Write`) -/

/-- STORE PRESERVES ITS INPUT. `prepareFile` filters the free-floating comment groups of the shallow COPY into a
    fresh backing array; every slice of the build state that does not live in that fresh array — in particular
    the `Comments` of the file the current build goes on to compile — denotes the same groups afterwards, and the
    copy holds exactly the free-floating groups. (The rest of the model is functional: `store` returns a new file
    system and cannot touch its payload argument.) -/
theorem store_preserves_input (h : Heap) (comments : Slice) (attached : Nat → Bool) (fresh : Nat)
    (hfresh : fresh ≠ comments.arr) :
    (∀ s : Slice, s.arr ≠ fresh → s.view (prepareComments h comments attached fresh).1 = s.view h) ∧
    comments.view (prepareComments h comments attached fresh).1 = comments.view h ∧
    (prepareComments h comments attached fresh).2.view (prepareComments h comments attached fresh).1
      = (comments.view h).filter (fun cg => !attached cg) := by
  refine ⟨?_, ?_, ?_⟩
  · intro s hs
    simp [prepareComments, Slice.view, Heap.set, hs]
  · simp [prepareComments, Slice.view, Heap.set, Ne.symm hfresh]
  · simp [prepareComments, Slice.view, Heap.set]

/-- the in-place variant (`floating := file.Comments[:0]`) does NOT have the frame property: with Comments =
    [attached 1, floating 2, attached 3] the original file ends up with [2, 2, 3] — the attached group 1 (a doc
    comment, e.g. one carrying //go:linkname) is gone and the floating group 2 is duplicated -/
theorem inplace_filter_damages_input :
    ¬ (∀ (h : Heap) (comments : Slice) (attached : Nat → Bool),
        comments.view (prepareCommentsInPlace h comments attached).1 = comments.view h) := by
  intro hall
  have := hall (fun _ => [1, 2, 3]) ⟨0, 3⟩ (fun cg => cg != 2)
  revert this
  decide

/-! ## Store: steps, crash atomicity -/

theorem run_append (fs : FS) (a b : List Step) : run fs (a ++ b) = run (run fs a) b := by
  simp [run, List.foldl_append]

/-- steps that only touch the temp file -/
def OnlyTmp (tmp : Str) : Step → Prop
  | .mkdir _ => True
  | .createTemp t => t = tmp
  | .write t _ => t = tmp
  | .close _ => True
  | .rename _ _ => False
  | .remove t => t = tmp

theorem exec_onlyTmp (fs : FS) (tmp : Str) (s : Step) (h : OnlyTmp tmp s) (q : Str) (hq : q ≠ tmp) : exec fs s q = fs q := by
  cases s <;> simp_all [exec, OnlyTmp, FS.set]

theorem run_onlyTmp (fs : FS) (tmp : Str) (l : List Step) (h : ∀ s ∈ l, OnlyTmp tmp s) (q : Str) (hq : q ≠ tmp) :
    run fs l q = fs q := by
  induction l generalizing fs with
  | nil => rfl
  | cons s l ih =>
    simp only [run, List.foldl_cons] at ih ⊢
    rw [ih (exec fs s) (fun x hx => h x (by simp [hx])), exec_onlyTmp fs tmp s (h s (by simp)) q hq]

theorem run_writes (fs : FS) (tmp : Str) (acc : Bytes) (chunks : List Bytes) (h : fs tmp = some acc) :
    run fs (chunks.map (Step.write tmp)) tmp = some (acc ++ chunks.flatten) := by
  induction chunks generalizing fs acc with
  | nil => simpa [run] using h
  | cons c cs ih =>
    simp only [List.map_cons, run, List.foldl_cons] at ih ⊢
    have : exec fs (Step.write tmp c) tmp = some (acc ++ c) := by simp [exec, FS.set, h]
    rw [ih _ (acc ++ c) this]
    simp

/-- the temp name differs from EVERY final name: final names have the fixed length of the hash output,
    `os.CreateTemp` appends a non-empty suffix -/
theorem temp_ne_final (L : Nat) (hlen : ∀ k, (E.h k).length = L) (k k' : Str) (sfx : Str) (hs : sfx ≠ []) :
    E.h k ++ sfx ≠ E.h k' := by
  intro h
  have := congrArg List.length h
  rw [List.length_append, hlen, hlen] at this
  have : sfx.length = 0 := by omega
  exact hs (List.eq_nil_of_length_eq_zero this)

/-- the steps of Store before the rename -/
def preSteps (tmp final : Str) (chunks : List Bytes) : List Step :=
  (Step.mkdir final :: Step.createTemp tmp :: chunks.map (Step.write tmp)) ++ [Step.close tmp]

theorem preSteps_onlyTmp (tmp final : Str) (chunks : List Bytes) : ∀ s ∈ preSteps tmp final chunks, OnlyTmp tmp s := by
  intro s hs
  simp [preSteps] at hs
  rcases hs with hs | hs | hs | hs
  · subst hs; trivial
  · subst hs; rfl
  · obtain ⟨c, _, rfl⟩ := hs; rfl
  · subst hs; trivial

theorem run_preSteps_tmp (fs : FS) (tmp final : Str) (chunks : List Bytes) :
    run fs (preSteps tmp final chunks) tmp = some chunks.flatten := by
  unfold preSteps
  rw [run_append]
  have h1 : run fs (Step.mkdir final :: Step.createTemp tmp :: chunks.map (Step.write tmp)) tmp = some chunks.flatten := by
    have : run fs (Step.mkdir final :: Step.createTemp tmp :: chunks.map (Step.write tmp))
        = run (exec (exec fs (Step.mkdir final)) (Step.createTemp tmp)) (chunks.map (Step.write tmp)) := by
      simp [run]
    rw [this, run_writes _ tmp [] chunks (by simp [exec, FS.set])]
    simp
  simpa [run, exec] using h1

theorem storeSteps_eq (bc : BuildCache) (p sfx : Str) (chunks : List Bytes) (hnt : isTestPackage bc p = false) :
    storeSteps E bc p sfx chunks
      = preSteps (cachedPath E bc.cfg p ++ sfx) (cachedPath E bc.cfg p) chunks
          ++ [Step.rename (cachedPath E bc.cfg p ++ sfx) (cachedPath E bc.cfg p)] := by
  simp [storeSteps, hnt, preSteps]

/-- CRASH ATOMICITY. After ANY prefix of Store's step sequence (a crash between two steps), every path that
    has the length of a final name holds what it held before, except that the entry's own final path may
    hold the complete new entry instead; after the whole sequence it does hold the complete new entry. -/
theorem crash_atomic (L : Nat) (hlen : ∀ k, (E.h k).length = L) (bc : BuildCache) (p sfx : Str) (t : Time) (pl : P)
    (chunks : List Bytes) (hs : sfx ≠ []) (hc : chunks.flatten = E.sealE (t, pl)) (fs : FS)
    (pre : List Step) (hp : pre <+: storeSteps E bc p sfx chunks) :
    (∀ q, q.length = L → q ≠ cachedPath E bc.cfg p → run fs pre q = fs q) ∧
    (run fs pre (cachedPath E bc.cfg p) = fs (cachedPath E bc.cfg p) ∨
     run fs pre (cachedPath E bc.cfg p) = some (E.sealE (t, pl))) ∧
    (isTestPackage bc p = false → pre = storeSteps E bc p sfx chunks →
      run fs pre (cachedPath E bc.cfg p) = some (E.sealE (t, pl))) := by
  by_cases hnt : isTestPackage bc p = true
  · have : storeSteps E bc p sfx chunks = [] := by simp [storeSteps, hnt]
    rw [this] at hp
    have : pre = [] := List.prefix_nil.mp hp
    subst this
    simp [run, hnt]
  have hnt : isTestPackage bc p = false := by simpa using hnt
  rw [storeSteps_eq E bc p sfx chunks hnt] at hp ⊢
  generalize hfin : cachedPath E bc.cfg p = final at *
  have hfl : final.length = L := by rw [← hfin, cachedPath_eq]; exact hlen _
  have htmp : ∀ q, q.length = L → q ≠ final ++ sfx := by
    intro q hq h
    have := congrArg List.length h
    rw [List.length_append, hq, hfl] at this
    exact hs (List.eq_nil_of_length_eq_zero (by omega))
  rcases List.prefix_concat_iff.mp hp with hfull | hpre
  · -- the complete sequence, rename included
    subst hfull
    rw [run_append]
    have hrun := run_preSteps_tmp fs (final ++ sfx) final chunks
    refine ⟨?_, ?_, ?_⟩
    · intro q hq hne
      simp only [run, List.foldl_cons, List.foldl_nil, exec, FS.set]
      rw [if_neg (htmp q hq), if_neg hne]
      exact run_onlyTmp fs _ _ (preSteps_onlyTmp _ _ _) q (htmp q hq)
    · right
      simp only [run, List.foldl_cons, List.foldl_nil, exec, FS.set]
      rw [if_neg (htmp final hfl)]
      simp only [if_true]
      simp only [run] at hrun
      rw [hrun, hc]
    · intro _ _
      simp only [run, List.foldl_cons, List.foldl_nil, exec, FS.set]
      rw [if_neg (htmp final hfl)]
      simp only [if_true]
      simp only [run] at hrun
      rw [hrun, hc]
  · -- a proper prefix: only the temp file was touched
    have hall : ∀ s ∈ pre, OnlyTmp (final ++ sfx) s := fun s hs' =>
      preSteps_onlyTmp _ _ _ s (hpre.subset hs')
    refine ⟨?_, ?_, ?_⟩
    · intro q hq _
      exact run_onlyTmp fs _ _ hall q (htmp q hq)
    · left
      exact run_onlyTmp fs _ _ hall final (htmp final hfl)
    · intro _ heq
      exfalso
      have := congrArg List.length heq
      have hle := hpre.length_le
      simp at this
      omega

/-- a Store whose serialisation fails (cache.go:157-162) never changes a final path, at any crash point -/
theorem failed_store_keeps_final (L : Nat) (hlen : ∀ k, (E.h k).length = L) (bc : BuildCache) (p sfx : Str)
    (chunks : List Bytes) (hs : sfx ≠ []) (fs : FS) (pre : List Step) (hp : pre <+: storeStepsFail E bc p sfx chunks) :
    ∀ q, q.length = L → run fs pre q = fs q := by
  intro q hq
  by_cases hnt : isTestPackage bc p = true
  · have : storeStepsFail E bc p sfx chunks = [] := by simp [storeStepsFail, hnt]
    rw [this] at hp
    have : pre = [] := List.prefix_nil.mp hp
    subst this
    rfl
  have hnt : isTestPackage bc p = false := by simpa using hnt
  have hfl : (cachedPath E bc.cfg p).length = L := by rw [cachedPath_eq]; exact hlen _
  have htmp : q ≠ cachedPath E bc.cfg p ++ sfx := by
    intro h
    have := congrArg List.length h
    rw [List.length_append, hq, hfl] at this
    exact hs (List.eq_nil_of_length_eq_zero (by omega))
  apply run_onlyTmp fs (cachedPath E bc.cfg p ++ sfx) pre _ q htmp
  intro s hs'
  have := hp.subset hs'
  simp [storeStepsFail, hnt] at this
  rcases this with h | h | h | h
  · subst h; trivial
  · subst h; rfl
  · obtain ⟨c, _, rfl⟩ := h; rfl
  · subst h; rfl

/-- transparency at model level: what a complete Store wrote is what a fresh-enough Load returns -/
theorem store_then_load (L : Nat) (hlen : ∀ k, (E.h k).length = L) (hopen : ∀ x, E.openE (E.sealE x) = some x)
    (bc : BuildCache) (p : Str) (t0 t : Time) (pl : P) (fs : FS)
    (hnt : isTestPackage bc p = false) (hfresh : ¬ t > t0) :
    load E bc p t (store E bc p t0 pl fs) = some pl := by
  have h := (crash_atomic E L hlen bc p [48] t0 pl [E.sealE (t0, pl)] (by simp) (by simp) fs
    (storeSteps E bc p [48] [E.sealE (t0, pl)]) (List.prefix_refl _)).2.2 hnt rfl
  unfold load store
  simp [hnt, h, hopen, hfresh]

/-! ## histories of Stores (complete or crashed) and provenance of what Load returns -/

/-- one Store event: the first `upto` steps are executed (`upto ≥` number of steps = complete) -/
structure StoreEv (P : Type) where
  bc : BuildCache
  p : Str
  t : Time
  pl : P
  sfx : Str
  chunks : List Bytes
  upto : Nat

def StoreEv.WF (E : Env P) (ev : StoreEv P) : Prop := ev.sfx ≠ [] ∧ ev.chunks.flatten = E.sealE (ev.t, ev.pl)

def runEv (fs : FS) (ev : StoreEv P) : FS := run fs ((storeSteps E ev.bc ev.p ev.sfx ev.chunks).take ev.upto)

def runHist (fs : FS) (evs : List (StoreEv P)) : FS := evs.foldl (runEv E) fs

/-- every file with a final name was completely written by one of the Stores of the history -/
def Prov (L : Nat) (evs : List (StoreEv P)) (fs : FS) : Prop :=
  ∀ q b, q.length = L → fs q = some b →
    ∃ ev ∈ evs, cachedPath E ev.bc.cfg ev.p = q ∧ b = E.sealE (ev.t, ev.pl) ∧ isTestPackage ev.bc ev.p = false

theorem prov_step (L : Nat) (hlen : ∀ k, (E.h k).length = L) (done : List (StoreEv P)) (fs : FS) (ev : StoreEv P)
    (hwf : ev.WF E) (hp : Prov E L done fs) : Prov E L (done ++ [ev]) (runEv E fs ev) := by
  intro q b hq hb
  have hca := crash_atomic E L hlen ev.bc ev.p ev.sfx ev.t ev.pl ev.chunks hwf.1 hwf.2 fs
    ((storeSteps E ev.bc ev.p ev.sfx ev.chunks).take ev.upto) (List.take_prefix _ _)
  unfold runEv at hb
  by_cases hqe : q = cachedPath E ev.bc.cfg ev.p
  · subst hqe
    rcases hca.2.1 with h | h
    · rw [h] at hb
      obtain ⟨e, he, h1, h2, h3⟩ := hp _ b hq hb
      exact ⟨e, by simp [he], h1, h2, h3⟩
    · rw [h] at hb
      injection hb with hb
      by_cases hnt : isTestPackage ev.bc ev.p = true
      · -- a test package executes no step, so the file is the old one
        have hnil : storeSteps E ev.bc ev.p ev.sfx ev.chunks = [] := by simp [storeSteps, hnt]
        have hsame : run fs ((storeSteps E ev.bc ev.p ev.sfx ev.chunks).take ev.upto) (cachedPath E ev.bc.cfg ev.p)
            = fs (cachedPath E ev.bc.cfg ev.p) := by rw [hnil]; simp [run]
        rw [hsame] at h
        obtain ⟨e, he, h1, h2, h3⟩ := hp _ _ hq h
        exact ⟨e, by simp [he], h1, by rw [← hb]; exact h2, h3⟩
      · exact ⟨ev, by simp, rfl, hb.symm, by simpa using hnt⟩
  · rw [hca.1 q hq hqe] at hb
    obtain ⟨e, he, h1, h2, h3⟩ := hp q b hq hb
    exact ⟨e, by simp [he], h1, h2, h3⟩

theorem prov_hist (L : Nat) (hlen : ∀ k, (E.h k).length = L) (done evs : List (StoreEv P)) (fs : FS)
    (hwf : ∀ ev ∈ evs, ev.WF E) (hp : Prov E L done fs) : Prov E L (done ++ evs) (runHist E fs evs) := by
  induction evs generalizing done fs with
  | nil => simpa [runHist] using hp
  | cons ev evs ih =>
    have := ih (done ++ [ev]) (runEv E fs ev) (fun e he => hwf e (by simp [he]))
      (prov_step E L hlen done fs ev (hwf ev (by simp)) hp)
    simpa [runHist] using this

/-- PROVENANCE (full strength). Starting from an empty cache, after any history of Stores — each complete
    or cut off at any step — a Load that returns a payload returns the payload of a Store of the history
    made under the SAME configuration and import path (given the hash is injective on the two keys), with
    an entry that is not older than the sources; neither is the package under test. -/
theorem load_provenance (L : Nat) (hlen : ∀ k, (E.h k).length = L) (hopen : ∀ x, E.openE (E.sealE x) = some x)
    (evs : List (StoreEv P)) (hwf : ∀ ev ∈ evs, ev.WF E) (bc : BuildCache) (p : Str) (t : Time) (pl : P)
    (hinj : ∀ ev ∈ evs, E.h (packageKey E.isPrint ev.bc.cfg ev.p) = E.h (packageKey E.isPrint bc.cfg p) →
      packageKey E.isPrint ev.bc.cfg ev.p = packageKey E.isPrint bc.cfg p)
    (h : load E bc p t (runHist E FS.empty evs) = some pl) :
    ∃ ev ∈ evs, ev.bc.cfg = bc.cfg ∧ ev.p = p ∧ ev.pl = pl ∧ ¬ t > ev.t ∧
      isTestPackage ev.bc ev.p = false ∧ isTestPackage bc p = false := by
  obtain ⟨hnt, b, t0, hb, ho, hst⟩ := load_sound E bc p t _ pl h
  have hprov := prov_hist E L hlen [] evs FS.empty hwf (by intro q b _ hb; simp [FS.empty] at hb)
  simp only [List.nil_append] at hprov
  have hql : (cachedPath E bc.cfg p).length = L := by rw [cachedPath_eq]; exact hlen _
  obtain ⟨ev, he, h1, h2, h3⟩ := hprov _ b hql hb
  rw [h2, hopen] at ho
  injection ho with ho
  injection ho with ht hpl
  rw [cachedPath_eq, cachedPath_eq] at h1
  obtain ⟨hc, hp⟩ := key_injective E.isPrint _ _ _ _ (hinj ev he h1)
  exact ⟨ev, he, hc, hp, hpl, by rw [ht]; exact hst, h3, hnt⟩

/-- AD-HOC PACKAGES. The key does not contain the source set, so an entry is only valid for the same sources if the
    import path identifies them. `Session.BuildFiles` (build.go: `gopherjs build/run x.go`) gives every ad-hoc
    package the import path "main" and keeps it out of the cache by loading with `SrcModTime = now + 1h`
    (build.go:918-921): every entry was stored with a build time `≤ now`, so the sources are always newer. This
    is that rule: after any history of Stores (complete or crashed) whose times are `≤ now`, a Load with a source
    time `> now` misses, whatever is stored under the shared path. -/
theorem adhoc_never_loaded (L : Nat) (hlen : ∀ k, (E.h k).length = L) (hopen : ∀ x, E.openE (E.sealE x) = some x)
    (evs : List (StoreEv P)) (hwf : ∀ ev ∈ evs, ev.WF E) (bc : BuildCache) (p : Str) (now t : Time)
    (hinj : ∀ ev ∈ evs, E.h (packageKey E.isPrint ev.bc.cfg ev.p) = E.h (packageKey E.isPrint bc.cfg p) →
      packageKey E.isPrint ev.bc.cfg ev.p = packageKey E.isPrint bc.cfg p)
    (hpast : ∀ ev ∈ evs, ev.t ≤ now) (hfuture : t > now) :
    load E bc p t (runHist E FS.empty evs) = none := by
  cases h : load E bc p t (runHist E FS.empty evs) with
  | none => rfl
  | some pl =>
    obtain ⟨ev, he, _, _, _, hnt, _, _⟩ := load_provenance E L hlen hopen evs hwf bc p t pl hinj h
    have := hpast ev he
    exact absurd (Int.lt_of_le_of_lt this hfuture) hnt

end

end GV.Props.C20
