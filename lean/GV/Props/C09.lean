import GV.Model.Types
import GV.Spec.GoTypes
import GV.Proofs.MethodSet
import GV.Model.C09Receiver
import GV.Spec.C09MethodValue

/-!
  C09 — dynamic types: identity, assertions, method sets, interface equality.
  Model: GV.Model.Types (types.js / prelude.js as they are).  Spec: GV.Spec.GoTypes (Go spec / go/types).
  Full-strength statements that are FALSE of the current code are `def … : Prop` (not claimed) with a proved
  `…_counterexample…` and the strongest proved `…_partial` next to them.
-/
namespace GV.Props.C09
open GV.Types GV.Spec.GoTypes

/-! ## 1. `named_distinct`: every `$newType` call yields a new type object, whatever its string -/

theorem modify_size (s : St) (i : Nat) (f : TypeObj → TypeObj) : (s.modify i f).size = s.size := by
  simp [St.modify, St.size]

theorem modify_cache (s : St) (i : Nat) (f : TypeObj → TypeObj) : (s.modify i f).cache = s.cache := rfl

theorem initType_size (s : St) (id : Nat) (c : Ctor) : (initType s id c).size = s.size := by
  cases c <;> simp [initType, modify_size]

theorem initType_cache (s : St) (id : Nat) (c : Ctor) : (initType s id c).cache = s.cache := by
  cases c <;> rfl

/-- the id returned by `$newType` is not the id of any existing object, and it exists afterwards -/
theorem newType_fresh (s : St) (kind : Nat) (str : Str) (named : Bool) (pkg : Str) :
    s.size ≤ (newType s kind str named pkg).2 ∧ (newType s kind str named pkg).2 < (newType s kind str named pkg).1.size := by
  unfold newType
  split <;> simp [St.size] <;> omega

theorem newType_size (s : St) (kind : Nat) (str : Str) (named : Bool) (pkg : Str) :
    s.size < (newType s kind str named pkg).1.size := by
  have := newType_fresh s kind str named pkg; omega

theorem size_mono_canon (s : St) (c : Ctor) : s.size ≤ (canon s c).1.size := by
  unfold canon
  split
  · exact Nat.le_refl _
  · simp only [initType_size]
    have := newType_size s (kindOf c) (strOf s c) false []
    simp only [St.size] at *
    omega

theorem size_mono_methodSetSt (s : St) (t : Nat) : s.size ≤ (methodSetSt s t).size := by
  unfold methodSetSt
  generalize (methodSetAux s t).2 = l
  induction l generalizing s with
  | nil => exact Nat.le_refl _
  | cons a r ih => exact Nat.le_trans (size_mono_canon s (.ptr a)) (ih _)

theorem size_mono_assert (s : St) (d : Option Nat) (t : Nat) : s.size ≤ (assertType s d t).1.size := by
  unfold assertType
  have := size_mono_methodSetSt s
  split
  · exact Nat.le_refl _
  · split
    · exact Nat.le_refl _
    · dsimp only
      split
      · exact Nat.le_refl _
      · split <;> simp only [St.size] at * <;> exact this _

/-- everything a program can do to the type machinery -/
inductive Op
  | newT (kind : Nat) (str : Str) (named : Bool) (pkg : Str)
  | canon (c : Ctor)
  | init (id : Nat) (c : Ctor)
  | methods (id : Nat) (ms : List Method)
  | mset (t : Nat)
  | assert (d : Option Nat) (t : Nat)

def runOp (s : St) : Op → St
  | .newT k str n p => (newType s k str n p).1
  | .canon c => (canon s c).1
  | .init id c => initType s id c
  | .methods id ms => setMethods s id ms
  | .mset t => methodSetSt s t
  | .assert d t => (assertType s d t).1

theorem size_mono_runOp (s : St) (o : Op) : s.size ≤ (runOp s o).size := by
  cases o with
  | newT k str n p => exact Nat.le_of_lt (newType_size s k str n p)
  | canon c => exact size_mono_canon s c
  | init id c => simp [runOp, initType_size]
  | methods id ms => simp [runOp, setMethods, modify_size]
  | mset t => exact size_mono_methodSetSt s t
  | assert d t => exact size_mono_assert s d t

theorem size_mono_runOps (s : St) (ops : List Op) : s.size ≤ (ops.foldl runOp s).size := by
  induction ops generalizing s with
  | nil => exact Nat.le_refl _
  | cons o r ih => exact Nat.le_trans (size_mono_runOp s o) (ih _)

/-- `named_distinct`: two type declarations (two `$newType` calls, with ANY operations in between and ANY
    strings — e.g. two local types both printed `main.L`) never share their run-time type object. -/
theorem named_distinct (s : St) (k1 : Nat) (str1 : Str) (n1 : Bool) (p1 : Str) (ops : List Op)
    (k2 : Nat) (str2 : Str) (n2 : Bool) (p2 : Str) :
    (newType s k1 str1 n1 p1).2 ≠ (newType (ops.foldl runOp (newType s k1 str1 n1 p1).1) k2 str2 n2 p2).2 := by
  have h1 := newType_fresh s k1 str1 n1 p1
  have h2 := size_mono_runOps (newType s k1 str1 n1 p1).1 ops
  have h3 := newType_fresh (ops.foldl runOp (newType s k1 str1 n1 p1).1) k2 str2 n2 p2
  omega

/-! ## 2. `canon_identity`: the canonicalising caches -/

/-- cache invariant: every cached id denotes an existing object and no id is cached twice (under any key of any cache) -/
def WF (s : St) : Prop := s.cache.Pairwise (fun a b => a.2 ≠ b.2) ∧ ∀ p ∈ s.cache, p.2 < s.size

theorem lookup_mem {α β : Type} [BEq α] (k : α) (l : List (α × β)) (v : β) (h : l.lookup k = some v) :
    ∃ k', (k', v) ∈ l := by
  induction l with
  | nil => simp [List.lookup] at h
  | cons p t ih =>
    obtain ⟨k0, v0⟩ := p
    simp only [List.lookup] at h
    split at h
    · exact ⟨k0, by simp_all⟩
    · obtain ⟨k', hk⟩ := ih h
      exact ⟨k', List.mem_cons_of_mem _ hk⟩

theorem lookup_val_inj {α β : Type} [BEq α] [LawfulBEq α] (l : List (α × β))
    (hp : l.Pairwise (fun a b => a.2 ≠ b.2)) (k1 k2 : α) (v : β)
    (h1 : l.lookup k1 = some v) (h2 : l.lookup k2 = some v) : k1 = k2 := by
  induction l with
  | nil => simp [List.lookup] at h1
  | cons p t ih =>
    obtain ⟨k0, v0⟩ := p
    rw [List.pairwise_cons] at hp
    simp only [List.lookup] at h1 h2
    split at h1 <;> split at h2
    · simp_all
    · obtain ⟨k', hk⟩ := lookup_mem _ _ _ h2
      have := hp.1 _ hk
      simp_all
    · obtain ⟨k', hk⟩ := lookup_mem _ _ _ h1
      have := hp.1 _ hk
      simp_all
    · exact ih hp.2 h1 h2

theorem WF_init : WF init := by
  constructor
  · decide
  · decide

theorem newType_cache_vals (s : St) (kind : Nat) (str : Str) (named : Bool) (pkg : Str) :
    ∀ p ∈ (newType s kind str named pkg).1.cache, p ∈ s.cache ∨ (p.2 = s.size ∧ (newType s kind str named pkg).2 = s.size + 1) := by
  unfold newType
  split
  · intro p hp
    simp only [List.mem_cons] at hp
    rcases hp with rfl | hp
    · right; simp
    · left; exact hp
  · intro p hp; left; exact hp

theorem WF_newType (s : St) (h : WF s) (kind : Nat) (str : Str) (named : Bool) (pkg : Str) :
    WF (newType s kind str named pkg).1 := by
  unfold newType
  split
  · refine ⟨?_, ?_⟩
    · show List.Pairwise _ (((cPtr, dec (s.size + 1)), s.size) :: s.cache)
      rw [List.pairwise_cons]
      refine ⟨?_, h.1⟩
      intro p hp
      have := h.2 p hp
      simp only
      omega
    · intro p hp
      simp only [List.mem_cons] at hp
      simp only [St.size, List.length_append, List.length_cons, List.length_nil]
      rcases hp with rfl | hp
      · simp only [St.size]; omega
      · have := h.2 p hp
        simp only [St.size] at this
        omega
  · refine ⟨h.1, ?_⟩
    intro p hp
    have := h.2 p hp
    simp only [St.size, List.length_append, List.length_cons, List.length_nil] at *
    omega

theorem WF_canon (s : St) (h : WF s) (c : Ctor) : WF (canon s c).1 := by
  unfold canon
  split
  · exact h
  · have hw := WF_newType s h (kindOf c) (strOf s c) false []
    have hf := newType_fresh s (kindOf c) (strOf s c) false []
    have hv := newType_cache_vals s (kindOf c) (strOf s c) false []
    refine ⟨?_, ?_⟩
    · rw [initType_cache]
      simp only
      rw [List.pairwise_cons]
      refine ⟨?_, hw.1⟩
      intro p hp
      simp only
      rcases hv p hp with hin | ⟨h1, h2⟩
      · have := h.2 p hin
        omega
      · omega
    · intro p hp
      rw [initType_cache] at hp
      rw [initType_size]
      simp only [List.mem_cons] at hp
      rcases hp with rfl | hp
      · exact hf.2
      · exact hw.2 p hp

theorem canon_lookup (s : St) (c : Ctor) : (canon s c).1.cache.lookup (ckey c) = some (canon s c).2 := by
  unfold canon
  split
  · rename_i id h; exact h
  · rw [initType_cache]
    simp [List.lookup]

theorem canon_id_lt (s : St) (h : WF s) (c : Ctor) : (canon s c).2 < (canon s c).1.size := by
  have hw := WF_canon s h c
  obtain ⟨k', hk⟩ := lookup_mem _ _ _ (canon_lookup s c)
  exact hw.2 _ hk

/-- Two successive constructor calls return the same type object exactly when they use the same cache with the
    same key string. (So `canon_identity` reduces to: key equality ⇔ Go type identity.) -/
theorem canon_same_iff_key (s : St) (h : WF s) (c1 c2 : Ctor) :
    (canon (canon s c1).1 c2).2 = (canon s c1).2 ↔ ckey c2 = ckey c1 := by
  have hw := WF_canon s h c1
  have hl := canon_lookup s c1
  have hlt := canon_id_lt s h c1
  generalize (canon s c1).1 = s1 at *
  generalize (canon s c1).2 = id1 at *
  constructor
  · intro he
    unfold canon at he
    split at he
    · rename_i id2 h2
      simp only at he
      subst he
      exact lookup_val_inj _ hw.1 _ _ _ h2 hl
    · simp only at he
      have := newType_fresh s1 (kindOf c2) (strOf s1 c2) false []
      omega
  · intro hk
    unfold canon
    rw [hk, hl]

/-! ### key strings are injective for arrays, maps, pointers, slices, channels, functions -/

theorem dec_inj {a b : Nat} (h : dec a = dec b) : a = b := by
  have ha := @Nat.ofDigitChars_ten_toDigits a
  have hb := @Nat.ofDigitChars_ten_toDigits b
  unfold dec at h
  rw [h] at ha
  omega

theorem dec_digit {n : Nat} {c : Char} (h : c ∈ dec n) : c.isDigit = true :=
  Nat.isDigit_of_mem_toDigits (by decide) (by decide) h

theorem dollar_not_dec (n : Nat) : '$' ∉ dec n := fun h => by have := dec_digit h; simp [Char.isDigit] at this
theorem comma_not_dec (n : Nat) : ',' ∉ dec n := fun h => by have := dec_digit h; simp [Char.isDigit] at this
theorem dec_ne_nil (n : Nat) : dec n ≠ [] := Nat.toDigits_ne_nil

/-- splitting at the first separator is unambiguous -/
theorem append_sep_inj {c : Char} : ∀ {a a' b b' : Str}, c ∉ a → c ∉ a' → a ++ c :: b = a' ++ c :: b' → a = a' ∧ b = b'
  | [], [], _, _, _, _, h => by simp_all
  | [], x :: a', _, _, _, h', h => by
    simp only [List.nil_append, List.cons_append, List.cons.injEq] at h
    simp_all
  | x :: a, [], _, _, h', _, h => by
    simp only [List.nil_append, List.cons_append, List.cons.injEq] at h
    simp_all
  | x :: a, y :: a', b, b', h1, h2, h => by
    simp only [List.cons_append, List.cons.injEq] at h
    have := @append_sep_inj c a a' b b' (by simp_all) (by simp_all) h.2
    simp_all

theorem arrayKey_inj {e n e' n' : Nat} (h : arrayKey e n = arrayKey e' n') : e = e' ∧ n = n' := by
  have := append_sep_inj (dollar_not_dec e) (dollar_not_dec e') h
  exact ⟨dec_inj this.1, dec_inj this.2⟩

theorem mapKey_inj {e n e' n' : Nat} (h : mapKey e n = mapKey e' n') : e = e' ∧ n = n' := arrayKey_inj h

theorem sep_not_joinSep {c : Char} : ∀ (l : List Str), (∀ x ∈ l, c ∉ x) → ∀ {d : Char}, d ≠ c → (∀ x ∈ l, d ∉ x) → d ∉ joinSep c l
  | [], _, _, _, _ => by simp [joinSep]
  | [x], _, _, _, h => by simpa [joinSep] using h
  | x :: y :: r, h1, d, hd, h2 => by
    have ih := sep_not_joinSep (y :: r) (fun z hz => h1 z (List.mem_cons_of_mem _ hz)) hd (fun z hz => h2 z (List.mem_cons_of_mem _ hz))
    simp only [joinSep, List.mem_append, List.mem_cons, not_or]
    exact ⟨h2 x (by simp), hd, ih⟩

/-- `Array.prototype.join` is injective on lists of non-empty strings that do not contain the separator -/
theorem joinSep_inj {c : Char} : ∀ (l l' : List Str), (∀ x ∈ l, c ∉ x ∧ x ≠ []) → (∀ x ∈ l', c ∉ x ∧ x ≠ []) →
    joinSep c l = joinSep c l' → l = l'
  | [], [], _, _, _ => rfl
  | [], [y], _, h', h => by simp [joinSep] at h; exact absurd h (h' y (by simp)).2
  | [], y :: z :: r, _, _, h => by simp [joinSep] at h
  | [x], [], h0, _, h => by simp [joinSep] at h; exact absurd h (h0 x (by simp)).2
  | [x], [y], _, _, h => by simp [joinSep] at h; simp [h]
  | [x], y :: z :: r, h0, _, h => by
    simp only [joinSep] at h
    have := (h0 x (by simp)).1
    rw [h] at this
    simp at this
  | x :: z :: r, [], _, _, h => by simp [joinSep] at h
  | x :: z :: r, [y], _, h', h => by
    simp only [joinSep] at h
    have := (h' y (by simp)).1
    rw [← h] at this
    simp at this
  | x :: z :: r, y :: w :: q, h0, h', h => by
    simp only [joinSep] at h
    have hs := append_sep_inj (h0 x (by simp)).1 (h' y (by simp)).1 h
    have ih := joinSep_inj (z :: r) (w :: q) (fun a ha => h0 a (List.mem_cons_of_mem _ ha))
      (fun a ha => h' a (List.mem_cons_of_mem _ ha)) hs.2
    rw [hs.1, ih]

theorem decs_clean (c : Char) (hc : c.isDigit = false) (l : List Nat) : ∀ x ∈ l.map dec, c ∉ x ∧ x ≠ [] := by
  intro x hx
  simp only [List.mem_map] at hx
  obtain ⟨n, _, rfl⟩ := hx
  exact ⟨fun h => by have := dec_digit h; simp_all, dec_ne_nil n⟩

theorem map_dec_inj : ∀ {l l' : List Nat}, l.map dec = l'.map dec → l = l'
  | [], [], _ => rfl
  | [], _ :: _, h => by simp at h
  | _ :: _, [], h => by simp at h
  | a :: l, b :: l', h => by
    simp only [List.map_cons, List.cons.injEq] at h
    rw [dec_inj h.1, map_dec_inj h.2]

theorem dollar_not_joined (l : List Nat) : '$' ∉ joinSep ',' (l.map dec) :=
  sep_not_joinSep _ (fun x hx => (decs_clean ',' (by decide) l x hx).1) (by decide)
    (fun x hx => (decs_clean '$' (by decide) l x hx).1)

theorem boolStr_inj {a b : Bool} (h : boolStr a = boolStr b) : a = b := by
  cases a <;> cases b <;> simp [boolStr] at h <;> rfl

theorem funcKey_inj {ps rs ps' rs' : List Nat} {v v' : Bool} (h : funcKey ps rs v = funcKey ps' rs' v') :
    ps = ps' ∧ rs = rs' ∧ v = v' := by
  unfold funcKey at h
  have h1 := append_sep_inj (dollar_not_joined ps) (dollar_not_joined ps') h
  have h2 := append_sep_inj (dollar_not_joined rs) (dollar_not_joined rs') h1.2
  refine ⟨?_, ?_, boolStr_inj h2.2⟩
  · exact map_dec_inj (joinSep_inj _ _ (decs_clean ',' (by decide) ps) (decs_clean ',' (by decide) ps') h1.1)
  · exact map_dec_inj (joinSep_inj _ _ (decs_clean ',' (by decide) rs) (decs_clean ',' (by decide) rs') h2.1)

/-! ### structs: the repaired key (length-prefixed names, tags and package path; all flags) is injective -/

theorem colon_not_dec (n : Nat) : ':' ∉ dec n := fun h => by have := dec_digit h; simp [Char.isDigit] at this

/-- a length-prefixed string can be split off unambiguously -/
theorem lenStr_inj {x x' r r' : Str} (h : lenStr x ++ r = lenStr x' ++ r') : x = x' ∧ r = r' := by
  simp only [lenStr, List.append_assoc, List.cons_append] at h
  have h1 := append_sep_inj (colon_not_dec _) (colon_not_dec _) h
  have hl : x.length = x'.length := dec_inj h1.1
  exact List.append_inj h1.2 hl

/-- a run of digits followed by a non-digit can be split off unambiguously -/
theorem digits_inj : ∀ {a a' b b' : Str} {c c' : Char}, (∀ x ∈ a, x.isDigit = true) → (∀ x ∈ a', x.isDigit = true) →
    c.isDigit = false → c'.isDigit = false → a ++ c :: b = a' ++ c' :: b' → a = a' ∧ c = c' ∧ b = b'
  | [], [], _, _, _, _, _, _, _, _, h => by simp_all
  | [], y :: a', _, _, _, _, _, h2, hc, _, h => by
    simp only [List.nil_append, List.cons_append, List.cons.injEq] at h
    have := h2 y (by simp); rw [← h.1] at this; simp_all
  | x :: a, [], _, _, _, _, h1, _, _, hc', h => by
    simp only [List.nil_append, List.cons_append, List.cons.injEq] at h
    have := h1 x (by simp); rw [h.1] at this; simp_all
  | x :: a, y :: a', b, b', c, c', h1, h2, hc, hc', h => by
    simp only [List.cons_append, List.cons.injEq] at h
    have := @digits_inj a a' b b' c c' (fun z hz => h1 z (by simp [hz])) (fun z hz => h2 z (by simp [hz])) hc hc' h.2
    simp_all

theorem flagE_inj {a b : Bool} (h : (if a then 'E' else 'e') = (if b then 'E' else 'e')) : a = b := by
  cases a <;> cases b <;> simp_all
theorem flagX_inj {a b : Bool} (h : (if a then 'X' else 'x') = (if b then 'X' else 'x')) : a = b := by
  cases a <;> cases b <;> simp_all

theorem fieldKey_inj {f g : Field} {r r' : Str} (h : fieldKey f ++ r = fieldKey g ++ r') : f = g ∧ r = r' := by
  simp only [fieldKey, List.append_assoc, List.cons_append] at h
  have h1 := lenStr_inj h
  have h2 := digits_inj (fun x hx => dec_digit hx) (fun x hx => dec_digit hx)
    (by cases f.embedded <;> decide) (by cases g.embedded <;> decide) h1.2
  have h3 := h2.2.2
  simp only [List.cons.injEq] at h3
  have h4 := lenStr_inj h3.2
  refine ⟨?_, h4.2⟩
  cases f; cases g
  simp only [Field.mk.injEq]
  exact ⟨h1.1, flagE_inj h2.2.1, flagX_inj h3.1, dec_inj h2.1, h4.1⟩

theorem fieldKey_ne_nil (f : Field) : fieldKey f ≠ [] := by
  simp only [fieldKey, lenStr, List.append_assoc]
  intro h
  have := congrArg List.length h
  simp at this

theorem fieldKeys_inj : ∀ {fs gs : List Field}, (fs.map fieldKey).flatten = (gs.map fieldKey).flatten → fs = gs
  | [], [], _ => rfl
  | [], g :: gs, h => by
    simp only [List.map_nil, List.flatten_nil, List.map_cons, List.flatten_cons] at h
    have := fieldKey_ne_nil g
    cases hk : fieldKey g with
    | nil => exact absurd hk this
    | cons a b => rw [hk] at h; simp at h
  | f :: fs, [], h => by
    simp only [List.map_nil, List.flatten_nil, List.map_cons, List.flatten_cons] at h
    have := fieldKey_ne_nil f
    cases hk : fieldKey f with
    | nil => exact absurd hk this
    | cons a b => rw [hk] at h; simp at h
  | f :: fs, g :: gs, h => by
    simp only [List.map_cons, List.flatten_cons] at h
    have h1 := fieldKey_inj h
    rw [h1.1, fieldKeys_inj h1.2]

theorem structKey_inj {p p' : Str} {fs fs' : List Field} (h : structKey p fs = structKey p' fs') :
    fs = fs' ∧ keyPkg p fs = keyPkg p' fs' := by
  unfold structKey at h
  have h1 := lenStr_inj h
  exact ⟨fieldKeys_inj h1.2, h1.1⟩

theorem fieldIdentical_iff (p p' : Str) (f g : Field) :
    fieldIdentical p p' f g = true ↔ f = g ∧ (f.exported = true ∨ p = p') := by
  cases f; cases g
  simp only [fieldIdentical, Bool.and_eq_true, beq_iff_eq, Bool.or_eq_true, Field.mk.injEq]
  constructor
  · rintro ⟨⟨⟨⟨⟨h1, h2⟩, h3⟩, h4⟩, h5⟩, h6⟩; exact ⟨⟨h1, h2, h5, h3, h4⟩, h6⟩
  · rintro ⟨⟨h1, h2, h5, h3, h4⟩, h6⟩; exact ⟨⟨⟨⟨⟨h1, h2⟩, h3⟩, h4⟩, h5⟩, h6⟩

theorem fieldsIdentical_iff (p p' : Str) : ∀ (fs gs : List Field),
    fieldsIdentical p p' fs gs = true ↔ fs = gs ∧ (fs.any (fun f => !f.exported) = true → p = p')
  | [], [] => by simp [fieldsIdentical]
  | [], _ :: _ => by simp [fieldsIdentical]
  | _ :: _, [] => by simp [fieldsIdentical]
  | f :: fs, g :: gs => by
    simp only [fieldsIdentical, Bool.and_eq_true, fieldIdentical_iff, fieldsIdentical_iff p p' fs gs,
      List.cons.injEq, List.any_cons, Bool.or_eq_true, Bool.not_eq_true']
    constructor
    · rintro ⟨⟨rfl, h1⟩, rfl, h2⟩
      refine ⟨⟨rfl, rfl⟩, ?_⟩
      rintro (h | h)
      · rcases h1 with h1 | h1
        · simp_all
        · exact h1
      · exact h2 h
    · rintro ⟨⟨rfl, rfl⟩, h⟩
      refine ⟨⟨rfl, ?_⟩, rfl, fun hh => h (Or.inr hh)⟩
      cases he : f.exported
      · exact Or.inr (h (Or.inl he))
      · exact Or.inl rfl

/-- struct key equality ⇔ Go identity of the two struct types -/
theorem structKey_iff_identical (p p' : Str) (fs fs' : List Field) :
    structKey p' fs' = structKey p fs ↔ fieldsIdentical p' p fs' fs = true := by
  rw [fieldsIdentical_iff]
  constructor
  · intro h
    have := structKey_inj h
    refine ⟨this.1, fun ha => ?_⟩
    have h2 := this.2
    rw [this.1] at h2 ha
    simpa [keyPkg, ha] using h2
  · rintro ⟨rfl, h⟩
    unfold structKey keyPkg
    cases ha : fs'.any (fun f => !f.exported)
    · rfl
    · rw [h ha]

/-! ### interfaces: the key is injective when package paths and method names avoid the separators -/

def mcore (m : Method) : Str := m.pkg ++ ',' :: (m.name ++ ',' :: dec m.typ)

/-- Go identifiers and import paths never contain `,` or `$` -/
def CleanMethod (m : Method) : Prop := ',' ∉ m.pkg ∧ '$' ∉ m.pkg ∧ ',' ∉ m.name ∧ '$' ∉ m.name

instance : DecidablePred CleanMethod := fun m => by unfold CleanMethod; infer_instance

theorem mcore_inj {m n : Method} (hm : CleanMethod m) (hn : CleanMethod n) (h : mcore m = mcore n) : m = n := by
  have h1 := append_sep_inj hm.1 hn.1 h
  have h2 := append_sep_inj hm.2.2.1 hn.2.2.1 h1.2
  cases m; cases n
  simp only [Method.mk.injEq]
  exact ⟨h2.1, h1.1, dec_inj h2.2⟩

theorem mcore_clean {m : Method} (hm : CleanMethod m) : '$' ∉ mcore m ∧ mcore m ≠ [] := by
  constructor
  · have := dollar_not_dec m.typ
    simp only [mcore, List.mem_append, List.mem_cons, not_or]
    exact ⟨hm.2.1, by decide, hm.2.2.2, by decide, this⟩
  · simp [mcore]

theorem map_mcore_inj : ∀ {ms ns : List Method}, (∀ m ∈ ms, CleanMethod m) → (∀ m ∈ ns, CleanMethod m) →
    ms.map mcore = ns.map mcore → ms = ns
  | [], [], _, _, _ => rfl
  | [], _ :: _, _, _, h => by simp at h
  | _ :: _, [], _, _, h => by simp at h
  | m :: ms, n :: ns, h1, h2, h => by
    simp only [List.map_cons, List.cons.injEq] at h
    rw [mcore_inj (h1 m (by simp)) (h2 n (by simp)) h.1,
      map_mcore_inj (fun x hx => h1 x (by simp [hx])) (fun x hx => h2 x (by simp [hx])) h.2]

theorem ifaceKey_inj {ms ns : List Method} (h1 : ∀ m ∈ ms, CleanMethod m) (h2 : ∀ m ∈ ns, CleanMethod m)
    (h : ifaceKey ms = ifaceKey ns) : ms = ns := by
  apply map_mcore_inj h1 h2
  apply joinSep_inj _ _ _ _ h
  · intro x hx
    simp only [List.mem_map] at hx
    obtain ⟨m, hm, rfl⟩ := hx
    exact mcore_clean (h1 m hm)
  · intro x hx
    simp only [List.mem_map] at hx
    obtain ⟨m, hm, rfl⟩ := hx
    exact mcore_clean (h2 m hm)

/-- constructors whose cache key is injective: all of them; for interface types under the syntactic side condition that
    package paths and method names contain no `,`/`$` (true of every Go identifier and import path) -/
def KeyInjective : Ctor → Prop
  | .iface ms => ∀ m ∈ ms, CleanMethod m
  | _ => True

instance : DecidablePred KeyInjective := fun c => by cases c <;> unfold KeyInjective <;> infer_instance

/-- same cache key ⇔ identical in Go, for every pair of constructor calls -/
theorem key_iff_identical (c1 c2 : Ctor) (h1 : KeyInjective c1) (h2 : KeyInjective c2) :
    ckey c2 = ckey c1 ↔ goIdentical c2 c1 = true := by
  cases c1 <;> cases c2 <;> simp only [KeyInjective] at h1 h2 <;>
    simp only [ckey, goIdentical, Prod.mk.injEq, Bool.and_eq_true, beq_iff_eq, Bool.or_eq_true]
  case array.array =>
    constructor
    · rintro ⟨_, h⟩; exact arrayKey_inj h
    · rintro ⟨rfl, rfl⟩; exact ⟨trivial, rfl⟩
  case map.map =>
    constructor
    · rintro ⟨_, h⟩; exact mapKey_inj h
    · rintro ⟨rfl, rfl⟩; exact ⟨trivial, rfl⟩
  case ptr.ptr =>
    constructor
    · rintro ⟨_, h⟩; exact dec_inj h
    · rintro rfl; exact ⟨trivial, rfl⟩
  case slice.slice =>
    constructor
    · rintro ⟨_, h⟩; exact dec_inj h
    · rintro rfl; exact ⟨trivial, rfl⟩
  case func.func =>
    constructor
    · rintro ⟨_, h⟩; have := funcKey_inj h; exact ⟨⟨this.1, this.2.1⟩, this.2.2⟩
    · rintro ⟨⟨rfl, rfl⟩, rfl⟩; exact ⟨trivial, rfl⟩
  case chan.chan e so ro e' so' ro' =>
    constructor
    · rintro ⟨hs, h⟩
      have := dec_inj h
      subst this
      revert hs
      cases so <;> cases ro <;> cases so' <;> cases ro' <;> simp [cChan, cSendChan, cRecvChan]
    · rintro ⟨⟨rfl, rfl⟩, h⟩
      refine ⟨?_, rfl⟩
      cases so' <;> cases ro <;> cases ro' <;> simp_all
  case struct.struct p fs p' fs' =>
    constructor
    · rintro ⟨_, h⟩; exact (structKey_iff_identical p p' fs fs').mp h
    · intro h; exact ⟨trivial, (structKey_iff_identical p p' fs fs').mpr h⟩
  case iface.iface ms ns =>
    constructor
    · rintro ⟨_, h⟩; exact ifaceKey_inj h2 h1 h
    · rintro rfl; exact ⟨trivial, rfl⟩
  all_goals
    constructor
    · rintro ⟨hs, _⟩
      exfalso; revert hs
      simp only [cArray, cFunc, cIface, cMap, cStruct, cPtr, cSlice, cChan, cSendChan, cRecvChan]
      repeat' split
      all_goals decide
    · intro h; cases h

/-- `canon_identity` at full strength for every constructor (structs included since the key repair; interfaces under the
    syntactic condition `CleanMethod`): two successive constructor calls yield the same run-time type object iff the two
    types are identical in Go. -/
theorem canon_identity (s : St) (h : WF s) (c1 c2 : Ctor) (h1 : KeyInjective c1) (h2 : KeyInjective c2) :
    (canon (canon s c1).1 c2).2 = (canon s c1).2 ↔ goIdentical c2 c1 = true :=
  (canon_same_iff_key s h c1 c2).trans (key_iff_identical c1 c2 h1 h2)

/-- the unconditional statement (NOT claimed): false only for interface method lists whose package path or method name
    contains `,` or `$` — impossible for Go programs -/
def canon_identity_full : Prop :=
  ∀ s, WF s → ∀ c1 c2, ((canon (canon s c1).1 c2).2 = (canon s c1).2 ↔ goIdentical c2 c1 = true)

theorem canon_identity_counterexample_ifacename : ¬ canon_identity_full := fun h => by
  have := h init WF_init (.iface [{ name := lit "M", pkg := lit "a,b", typ := 20 }])
    (.iface [{ name := lit "b,M", pkg := lit "a", typ := 20 }])
  revert this; decide

example : KeyInjective (.func [1, 16] [0] true) ∧ KeyInjective (.array 16 3) ∧
    KeyInjective (.iface [{ name := lit "m", pkg := lit "a/b", typ := 20 }]) := by
  refine ⟨trivial, trivial, ?_⟩; unfold KeyInjective; decide
example : WF (canon init (.map 16 1)).1 := WF_canon _ WF_init _

def fT (emb : Bool) : Field := { name := ['T'], embedded := emb, exported := true, typ := 1, tag := [] }
def fTag (n : String) (t : Nat) (tag : String) : Field :=
  { name := n.toList, embedded := false, exported := false, typ := t, tag := tag.toList }

/-! #### repaired defects (round 2): the three collisions of the old key `name,typ.id,tag` joined by `$` -/

/-- old key: `struct{ T }` and `struct{ T T }` collide; the repaired key separates them -/
theorem old_structKey_collision_embedded :
    structKeyOld [fT true] = structKeyOld [fT false] ∧ structKey [] [fT true] ≠ structKey [] [fT false] := by decide
/-- old key: ``struct{ a int `x$b,1,` }`` and ``struct{ a int `x`; b int }`` collide -/
theorem old_structKey_collision_tag :
    structKeyOld [fTag "a" 1 "x$b,1,"] = structKeyOld [fTag "a" 1 "x", fTag "b" 1 ""] ∧
    structKey (lit "p") [fTag "a" 1 "x$b,1,"] ≠ structKey (lit "p") [fTag "a" 1 "x", fTag "b" 1 ""] := by decide
/-- old key ignores the package of non-exported field names -/
theorem old_structKey_collision_pkgpath :
    structKey (lit "p") [fTag "x" 1 ""] ≠ structKey (lit "q") [fTag "x" 1 ""] := by decide

/-! ## 3. `methodset_correct` -/

/-- unconditional statement (NOT claimed: false today): `$methodSet` computes the Go method set of every type -/
def methodset_correct_full : Prop :=
  ∀ (s : St) (t : Nat) (m : Method), m ∈ methodSet s t ↔ m ∈ specMethodSet s (ptrOfM s) t

/-- witness heaps: `func() int` is type 21; each struct declaration allocates (pointer id, struct id) -/
def mM (n : String) (pkg : String := "") : Method := { name := n.toList, pkg := pkg.toList, typ := 21 }
def emb (n : String) (t : Nat) : Field := { name := n.toList, embedded := true, exported := true, typ := t, tag := [] }
def decl (s : St) (str : String) (kind : Nat := kStruct) : St := (newType s kind str.toList true (lit "main")).1
def base0 : St := (canon init (.func [] [1] false)).1

/-- `type A struct{}; func (A) M() int; type B struct{}; func (B) M() int; type S struct{ A; B }` -/
def wAmb : St :=
  let s := decl (decl (decl base0 "main.A") "main.B") "main.S"      -- A=23 B=25 S=27
  let s := setMethods (setMethods s 23 [mM "M"]) 25 [mM "M"]
  initType (initType (initType s 23 (.struct [] [])) 25 (.struct [] [])) 27 (.struct [] [emb "A" 23, emb "B" 25])

/-- witness: the ambiguous selector `S.M` is in the run-time method set (Go: excluded) -/
theorem methodset_counterexample_ambiguous : ¬ methodset_correct_full := fun h => by
  have := h wAmb 27 (mM "M"); revert this; decide

/-- `type E struct{}; func (E) M() int; type T struct{ E }; func (*T) M() int` -/
def wPtrShadow : St :=
  let s := decl (decl base0 "main.E") "main.T"       -- E=23, *T=24, T=25
  let s := setMethods (setMethods s 23 [mM "M"]) 24 [mM "M"]
  initType (initType s 23 (.struct [] [])) 25 (.struct [] [emb "E" 23])

/-- witness: `(*T).M` hides the promoted `E.M` in Go, so `T`'s method set is empty; the run-time set contains `M` -/
theorem methodset_counterexample_ptrshadow : ¬ methodset_correct_full := fun h => by
  have := h wPtrShadow 25 (mM "M"); revert this; decide

/-- `type E struct{}; func (E) M() int; type T struct{ M int; E }` -/
def wFieldHide : St :=
  let s := decl (decl base0 "main.E") "main.T"
  let s := setMethods s 23 [mM "M"]
  initType (initType s 23 (.struct [] [])) 25
    (.struct [] [{ name := ['M'], embedded := false, exported := true, typ := 1, tag := [] }, emb "E" 23])

/-- witness: the field `T.M` hides the promoted method `E.M` in Go; `$methodSet` ignores fields -/
theorem methodset_counterexample_fieldhide : ¬ methodset_correct_full := fun h => by
  have := h wFieldHide 25 (mM "M"); revert this; decide

/-- `p.E1` with `m()` of package p, `q.E2` with `m()` of package q, `struct{ E1; E2 }` -/
def wPkgName : St :=
  let s := decl (decl (decl base0 "p.E1") "q.E2") "p.S"
  let s := setMethods (setMethods s 23 [mM "m" "p"]) 25 [mM "m" "q"]
  initType (initType (initType s 23 (.struct [] [])) 25 (.struct [] [])) 27 (.struct [] [emb "E1" 23, emb "E2" 25])

/-- witness: `base` is keyed by the bare name, so `q.m` is lost although `p.m` and `q.m` are different selectors -/
theorem methodset_counterexample_pkgname : ¬ methodset_correct_full := fun h => by
  have := h wPkgName 27 (mM "m" "q"); revert this; decide

/-- **`methodset_correct`** — the general theorem (proved in `GV.Proofs.MethodSet`): for every heap `s`, every type `t` and
    every set `U` of types that contains where the walk starts (`t`, or `T` for `t = *T`) and is closed under embedding,
    if the declarations in `U` are clean (`CleanOn`: well-formed embedding, one package per method name, no field named like
    a method, pointer-receiver method names not reused) and no selector is ambiguous at its depth (`WalkClean`: no diamond,
    no method name declared twice at one depth), then `$methodSet(t)` is exactly Go's method set of `t` — including
    promotion through embedded fields by depth, shadowing, and pointer indirection. Both hypotheses are decidable. -/
theorem methodset_correct (s : St) (t : Nat) (U : List Nat) (h : CleanOn s U)
    (hstart : (startEnt s t).typ ∈ U) (hw : WalkClean s (s.size + 1) [startEnt s t] []) :
    ∀ m, m ∈ methodSet s t ↔ m ∈ specMethodSet s (ptrOfM s) t :=
  methodset_correct_clean s t U h hstart hw

/-- a non-trivial universe satisfying the hypotheses: `type E struct{}; func (E) M() int; func (E) N() int;
    type P struct{}; func (*P) Q() int; type T struct{ E; *P }; func (T) M() int` — `T.M` shadows `E.M` by depth,
    `N` is promoted by value, `Q` through the embedded pointer -/
def wClean : St :=
  let s := decl (decl (decl base0 "main.E") "main.P") "main.T"      -- E=23, *P=24, P=25, T=27
  let s := setMethods (setMethods (setMethods s 23 [mM "M", mM "N"]) 24 [mM "Q"]) 27 [mM "M"]
  initType (initType (initType s 23 (.struct [] [])) 25 (.struct [] [])) 27 (.struct [] [emb "E" 23, emb "P" 24])

example : CleanOn wClean [27, 23, 25] ∧ (startEnt wClean 27).typ ∈ [27, 23, 25] ∧
    WalkClean wClean (wClean.size + 1) [startEnt wClean 27] [] ∧ (methodSet wClean 27).length = 3 := by
  refine ⟨⟨by decide, by decide, by decide, by decide, by decide, by decide⟩, by decide, by decide, by decide⟩

/-! #### repaired defects (round 2): the former witnesses now agree with Go -/

/-- `type X struct{}; func (X) M() int; type L struct{ X }; type W struct{ L }; { type L struct{ W } }`: both `L` print as
    `main.L`; `seen` is keyed by type id now, so the promoted `M` is found -/
def wSeen : St :=
  let s := decl (decl (decl (decl base0 "main.X") "main.L") "main.W") "main.L"     -- X=23 L=25 W=27 L'=29
  let s := setMethods s 23 [mM "M"]
  initType (initType (initType (initType s 23 (.struct [] [])) 25 (.struct [] [emb "X" 23])) 27 (.struct [] [emb "L" 25]))
    29 (.struct [] [emb "W" 27])
theorem repaired_seen_by_id : methodSet wSeen 29 = specMethodSet wSeen (ptrOfM wSeen) 29 := by decide

/-- `type T struct{}; func (T) toString() int`: `base` no longer inherits `Object.prototype` -/
def wProto : St :=
  initType (setMethods (decl base0 "main.T") 23 [mM "toString" "main"]) 23 (.struct [] [])
theorem repaired_proto_names : methodSet wProto 23 = [mM "toString" "main"] := by decide

/-- `type T struct{}; func (T) M() int; type Q *T`: a defined pointer type has no methods -/
def wNamedPtr : St :=
  let s := decl (decl base0 "main.T") "main.Q" kPtr    -- T=23, Q=24
  initType (initType (setMethods s 23 [mM "M"]) 23 (.struct [] [])) 24 (.ptr 23)
theorem repaired_defined_pointer : methodSet wNamedPtr 24 = [] := by decide

/-! ## 4. `assert_correct`: every SEQUENCE of assertions answers as Go does -/

/-- unconditional statement (NOT claimed: false wherever a method set is wrong, see section 3) -/
def assert_correct_full : Prop :=
  ∀ (s : St) (seq : List (Option Nat × Nat)), assertSeq s seq = seq.map fun p => assertS s (ptrOfM s) p.1 p.2

/-- witness: the ambiguity heap with `interface{ M() int }` (= type 28) -/
theorem assert_counterexample_methodset : ¬ assert_correct_full := fun h => by
  have := h (canon wAmb (.iface [mM "M"])).1 [(some 27, 28)]; revert this; decide

/-- what a fresh (un-memoised) evaluation of the loop in `$assertType` answers -/
def computeOk (s : St) (v t : Nat) : Bool := (firstMissing (methodSet s v) (s.get t).methods).isNone

/-- `$methodSet` never has to create a pointer type on the fly (`$ptrType(e.typ)` finds `e.typ.ptr`) -/
def NoLazyPtr (s : St) : Prop := ∀ v, v < s.size → (methodSetAux s v).2 = []

instance (s : St) : Decidable (NoLazyPtr s) := by unfold NoLazyPtr; infer_instance

/-- every memo entry (keyed by interface id and dynamic type id) is what a fresh evaluation gives -/
def MemoSound (s : St) (memo : List ((Nat × Nat) × Bool)) : Prop :=
  ∀ t v ok, memo.lookup (t, v) = some ok → computeOk s v t = ok

def withMemo (s : St) (a : List ((Nat × Nat) × Bool)) (b : List ((Nat × Nat) × Str)) : St :=
  { s with implementedBy := a, missingMethodFor := b }

theorem msLoop_memo (s : St) (a : List ((Nat × Nat) × Bool)) (b : List ((Nat × Nat) × Str)) :
    ∀ (f : Nat) (cur : List Ent) (seen : List Nat) (base : List Method) (al : List Nat),
      msLoop (withMemo s a b) f cur seen base al = msLoop s f cur seen base al := by
  intro f
  induction f with
  | zero => intros; rfl
  | succ f ih =>
    intro cur seen base al
    cases cur with
    | nil => rfl
    | cons e r =>
      simp only [msLoop]
      have : msVisit (withMemo s a b) = msVisit s := rfl
      rw [this]
      exact ih _ _ _ _

theorem methodSetAux_memo (s : St) (a : List ((Nat × Nat) × Bool)) (b : List ((Nat × Nat) × Str)) (v : Nat) :
    methodSetAux (withMemo s a b) v = methodSetAux s v := by
  unfold methodSetAux
  have h1 : (withMemo s a b).get = s.get := rfl
  have h2 : (withMemo s a b).size = s.size := rfl
  simp only [h1, h2, msLoop_memo]

/-- one assertion, with the memo tables generalised: the heap part of the state is untouched, the answer is the fresh
    evaluation, and the memo stays sound -/
theorem assertType_step (s : St) (hlazy : NoLazyPtr s)
    (a : List ((Nat × Nat) × Bool)) (b : List ((Nat × Nat) × Str)) (hm : MemoSound s a)
    (v t : Nat) (hv : v < s.size) (hk : (s.get t).kind = kInterface) :
    ∃ a' b', (assertType (withMemo s a b) (some v) t).1 = withMemo s a' b' ∧ MemoSound s a' ∧
      (assertType (withMemo s a b) (some v) t).2.1 = computeOk s v t := by
  unfold assertType
  have hg : (withMemo s a b).get = s.get := rfl
  simp only [hg, hk, ne_eq, not_true_eq_false, if_false]
  have hi : (withMemo s a b).implementedBy = a := rfl
  rw [hi]
  cases hl : a.lookup (t, v) with
  | some ok =>
    refine ⟨a, b, rfl, hm, ?_⟩
    exact (hm t v ok hl).symm
  | none =>
    have hms : methodSet (withMemo s a b) v = methodSet s v := by unfold methodSet; rw [methodSetAux_memo]
    have hst : methodSetSt (withMemo s a b) v = withMemo s a b := by
      unfold methodSetSt; rw [methodSetAux_memo, hlazy v hv]; rfl
    simp only [hms, hst]
    have sound_cons : ∀ ok, computeOk s v t = ok → MemoSound s (((t, v), ok) :: a) := by
      intro ok hok t' v' ok' hl'
      simp only [List.lookup] at hl'
      split at hl'
      · rename_i heq
        have heq' : (t', v') = (t, v) := by simpa using heq
        simp only [Prod.mk.injEq] at heq'
        simp only [Option.some.injEq] at hl'
        rw [heq'.1, heq'.2, ← hl']; exact hok
      · exact hm t' v' ok' hl'
    cases hf : firstMissing (methodSet s v) (s.get t).methods with
    | none =>
      refine ⟨_, _, rfl, sound_cons true (by simp [computeOk, hf]), ?_⟩
      simp [computeOk, hf]
    | some nm =>
      refine ⟨_, _, rfl, sound_cons false (by simp [computeOk, hf]), ?_⟩
      simp [computeOk, hf]

/-- **`assert_correct`**: for EVERY sequence of assertions to interface types, started from any sound memo, every answer
    equals Go's — no matter how types are printed (the memo is keyed by type id since the repair). Hypotheses: no
    on-the-fly pointer types (`NoLazyPtr`, decidable), and method sets that agree with Go's on the interfaces asked —
    discharged by `methodset_correct` for the types it covers. -/
theorem assert_correct (s : St) (hlazy : NoLazyPtr s)
    (hms : ∀ v t, v < s.size → computeOk s v t = implementsS s (ptrOfM s) v t)
    (seq : List (Option Nat × Nat))
    (hseq : ∀ p ∈ seq, (s.get p.2).kind = kInterface ∧ ∀ v, p.1 = some v → v < s.size) :
    ∀ (a : List ((Nat × Nat) × Bool)) (b : List ((Nat × Nat) × Str)), MemoSound s a →
      assertSeq (withMemo s a b) seq = seq.map fun p => assertS s (ptrOfM s) p.1 p.2 := by
  induction seq with
  | nil => intros; rfl
  | cons p r ih =>
    intro a b hm
    obtain ⟨d, t⟩ := p
    have hp := hseq (d, t) (by simp)
    have ihr := ih (fun q hq => hseq q (List.mem_cons_of_mem _ hq))
    cases d with
    | none =>
      simp only [assertSeq, List.map_cons]
      have : assertType (withMemo s a b) none t = (withMemo s a b, (false, [])) := rfl
      rw [this]
      simp only [ihr a b hm]
      rfl
    | some v =>
      have hv := hp.2 v rfl
      obtain ⟨a', b', h1, h2, h3⟩ := assertType_step s hlazy a b hm v t hv hp.1
      have hs : assertS s (ptrOfM s) (some v) t = implementsS s (ptrOfM s) v t := by
        have := hp.1
        simp only at this
        simp [assertS, this]
      simp only [assertSeq, List.map_cons]
      rw [h1, h3, ihr a' b' h2, hms v t hv, hs]

/-- the non-interface case of `$assertType`: constructor identity, i.e. (by `canon_identity`/`named_distinct`) type identity -/
theorem assert_concrete (s : St) (v t : Nat) (hk : (s.get t).kind ≠ kInterface) :
    (assertType s (some v) t).2.1 = (v == t) ∧ (assertType s (some v) t).1 = s ∧ (assertType s none t).2.1 = false := by
  unfold assertType
  simp [hk]

example : NoLazyPtr wClean ∧ MemoSound wClean [] := by
  refine ⟨by decide, ?_⟩
  intro t v ok h; simp [List.lookup] at h

/-! #### repaired defect (round 2): memo poisoning between equally printed types -/

/-- two declarations both printed `main.L` (L=23 embeds X with `N() int`, L'=27 does not), interface{ N() int } = 28 -/
def wMemo : St :=
  let s := decl (decl (decl base0 "main.L") "main.X") "main.L"       -- L=23 X=25 L'=27
  let s := setMethods s 25 [mM "N"]
  let s := initType (initType (initType s 23 (.struct [] [emb "X" 25])) 25 (.struct [] [])) 27 (.struct [] [])
  (canon s (.iface [mM "N"])).1

theorem repaired_memo_by_id :
    assertSeq wMemo [(some 23, 28), (some 27, 28), (some 23, 28)] = [true, false, true] ∧
    assertSeq wMemo [(some 27, 28), (some 23, 28)] = [false, true] := by decide

/-! ## 5. `iface_eq`: `$interfaceIsEqual` is Go's `==` on interface values -/

/-- unconditional statement (NOT claimed: false only while a defined slice/map/func type is still uninitialised) -/
def iface_eq_full : Prop := ∀ (s : St) (a b : Val), ifaceEqual s a b = ifaceEqS s a b

/-- the stored `comparable` flag of every non-composite type object is right: `false` exactly for slices, maps and
    functions. `$newType` sets `true`, `init` of these three kinds sets `false`; arrays and structs compute theirs on
    demand since the repair, so nothing is required of them. -/
def LeafFlagsOk (s : St) : Prop :=
  ∀ t, t < s.size → (s.get t).kind ≠ kArray → (s.get t).kind ≠ kStruct →
    (s.get t).comparable = !decide ((s.get t).kind = kSlice ∨ (s.get t).kind = kMap ∨ (s.get t).kind = kFunc)

instance (s : St) : Decidable (LeafFlagsOk s) := by unfold LeafFlagsOk; infer_instance

theorem get_oob (s : St) (t : Nat) (h : s.size ≤ t) : s.get t = dflt := by
  simp only [St.get, St.size] at *
  simp [List.getD, List.getElem?_eq_none h]

/-- the on-demand flag is Go's comparability -/
theorem comparableM_eq (s : St) (h : LeafFlagsOk s) : ∀ (f t : Nat), comparableM s f t = comparableS s f t
  | 0, _ => rfl
  | f + 1, t => by
    unfold comparableM comparableS
    by_cases ha : (s.get t).kind = kArray
    · simp [ha, kArray, kSlice, kMap, kFunc, comparableM_eq s h f]
    · by_cases hs : (s.get t).kind = kStruct
      · simp only [hs, kStruct, kArray, kSlice, kMap, kFunc]
        simp [comparableM_eq s h f]
      · by_cases ht : t < s.size
        · have := h t ht ha hs
          by_cases hl : (s.get t).kind = kSlice ∨ (s.get t).kind = kMap ∨ (s.get t).kind = kFunc
          · simp [ha, hs, hl, this]
          · simp [ha, hs, hl, this]
        · have := get_oob s t (by omega)
          simp [this, dflt, kArray, kStruct, kSlice, kMap, kFunc]

theorem eq_models_agree (s : St) (h : LeafFlagsOk s) : ∀ (a b : Val) (t : Nat), valEqual s a b t = eqS s a b t := by
  have hh := comparableM_eq s h (s.size + 1)
  apply valEqual.induct s (motive_1 := fun a b t => valEqual s a b t = eqS s a b t)
    (motive_2 := fun as bs ts => listEqualStruct s as bs ts = eqStructS s as bs ts)
    (motive_3 := fun as bs t => listEqualArr s as bs t = eqArrS s as bs t)
  all_goals (intros; simp_all +zetaDelta [valEqual, eqS, listEqualStruct, eqStructS, listEqualArr, eqArrS])

/-- **`iface_eq`**: for ALL values (nested structs, arrays, interfaces) `$interfaceIsEqual` gives Go's verdict, including the
    "comparing uncomparable type" panic, on every heap whose slice/map/func types have been initialised -/
theorem iface_eq (s : St) (h : LeafFlagsOk s) (a b : Val) : ifaceEqual s a b = ifaceEqS s a b :=
  eq_models_agree s h a b 0

/-- why the hypothesis: a defined slice type whose `init` has not run yet still carries `comparable = true` -/
theorem iface_eq_counterexample_uninitialised : ¬ iface_eq_full := fun h => by
  have := h (decl base0 "main.S" kSlice) (.iface 22 (.ref 0)) (.iface 22 (.ref 0))
  revert this; decide

/-! #### repaired defect (round 2): the flag computed before the field types were initialised -/

/-- `type A struct{ b B }; type B struct{ s []int }`, `A.init` runs before `B.init` (declaration order) -/
def wCmp : St :=
  let s0 := (canon init (.slice 1)).1                       -- []int = 21
  let s := decl (decl s0 "main.A") "main.B"                 -- A=23 B=25
  let fld (n : String) (t : Nat) : Field := { name := n.toList, embedded := false, exported := false, typ := t, tag := [] }
  initType (initType s 23 (.struct (lit "main") [fld "b" 25])) 25 (.struct (lit "main") [fld "s" 21])

theorem repaired_comparable_on_demand : LeafFlagsOk wCmp ∧
    ifaceEqual wCmp (.iface 23 (.tuple [.tuple [.ref 0]])) (.iface 23 (.tuple [.tuple [.ref 0]])) = .panic := by decide

/-! ## 6. method values bind their receiver (`makeReceiver` + `$methodVal`) -/

section MethodValues
open GV.Recv GV.Spec.MethodValue

/-- **method values bind a COPY** — unconditional since repair 28d396a: for every operand, every embedding path (any mix of
    value and pointer embedding, any depth), every receiver kind and all heaps (at binding time / at call time) the emitted
    receiver makes `f := x.M; …; f()` behave as Go: value receivers see the receiver as it was when the method value was
    evaluated, pointer receivers share it, and a nil pointer on the path panics when Go does. -/
theorem methodvalue_full (body : V → Int) (h0 h1 : Heap) (op : Operand) (path : List Step) (pr : Bool) (k : Kind) :
    jsMethodValue body h0 h1 op path pr k = goMethodValue body h0 h1 op path pr := by
  unfold jsMethodValue goMethodValue jsBind goBind makeReceiver
  cases pr <;> cases k <;> cases hl : lastIsPtr op path <;> simp_all

/-- the rule itself: the result of a value-receiver method value does not depend on anything that happens to the heap after
    the method value was evaluated — along ANY embedding path -/
theorem methodvalue_binds_copy (body : V → Int) (h0 h1 h1' : Heap) (op : Operand) (path : List Step) (k : Kind) :
    jsMethodValue body h0 h1 op path false k = jsMethodValue body h0 h1' op path false k := by
  rw [methodvalue_full body h0 h1 op path false k, methodvalue_full body h0 h1' op path false k]
  unfold goMethodValue goBind
  simp only [Bool.false_eq_true, if_false]
  cases (start op).bind (resolve h0 · path) <;> rfl

def bodyInt : V → Int | .int n => n | _ => -1

/-- forwarding methods (types.js `synthesizeMethod`): a promoted pointer-receiver method is always invoked on something that
    carries it — the field's object, or the field's address for array/int/… fields embedded by value -/
theorem forwarder_receiver_has_method (r : FieldRep) : hasPtrMethods (forwarderRecv true r) = true := by
  cases r <;> rfl

/-! #### repaired defects (rounds 6-7): non-struct value receiver through a pointer; forwarder handing a wrapped value -/

/-- old scheme: `type N int; func (n N) Val() int; p := &n (=1); f := p.Val; *p = 2; f()` gave 2 (Go: 1) -/
theorem repaired_methodvalue_through_pointer :
    callBound bodyInt [.int 0, .int 2] (jsBindOld [.int 0, .int 1] (.ptr 1) [] false .basic) = .val 2 ∧
    jsMethodValue bodyInt [.int 0, .int 1] [.int 0, .int 2] (.ptr 1) [] false .basic = .val 1 ∧
    (makeReceiverOld true false .basic).wrap = false ∧ (makeReceiver true false .basic).wrap = true := by decide

/-- old forwarder (before 80acc7c): pointer-receiver methods of array/int/… fields embedded by value got a wrapped VALUE,
    which does not carry them (`v[m.prop] is not a function`) -/
theorem repaired_forwarder_counterexample : hasPtrMethods (forwarderRecvOld true .native) = false := rfl


/-- the emitted shape the structure tie compares: `$clone` is present exactly when the METHOD has a value receiver of
    struct or array type — whatever the operand and the path (`isPointer`) are -/
theorem clone_iff (isPointer pr : Bool) (k : Kind) :
    (makeReceiver isPointer pr k).clone = true ↔ (pr = false ∧ k ≠ .basic) := by
  cases isPointer <;> cases pr <;> cases k <;> simp [makeReceiver]

/-- why the tie matters: deciding the clone from the type of the receiver EXPRESSION instead (no clone when it is a
    pointer) breaks the rule for struct receivers reached through a pointer -/
def jsBindNoCloneThroughPtr (h0 : Heap) (op : Operand) (path : List Step) : Option Bound :=
  if lastIsPtr op path then (resolveToPtr h0 op path).map .ptrval
  else ((start op).bind (resolve h0 · path)).map fun l => .copy (read h0 l)

def bodyFst : V → Int | .tup (.int n :: _) => n | _ => -1

theorem clone_from_operand_type_is_wrong :
    callBound bodyFst [.int 0, .tup [.int 2]] (jsBindNoCloneThroughPtr [.int 0, .tup [.int 1]] (.ptr 1) []) ≠
    goMethodValue bodyFst [.int 0, .tup [.int 1]] [.int 0, .tup [.int 2]] (.ptr 1) [] false := by decide

example : jsMethodValue bodyFst [.int 0, .tup [.ptr 2], .tup [.tup [.int 3]]] [.int 0, .tup [.ptr 2], .tup [.tup [.int 4]]]
      (.ptr 1) [.ptr 0, .val 0] false .struct = .val 3 := by decide

end MethodValues

/-! ## 7. `$interfaceIsEqual`: reflexivity, and independence of object identity -/

section IfaceRefl

mutual
/-- the dynamic value contains no NaN, and every interface-typed component (at any depth) holds a value of a comparable
    dynamic type -/
def reflOK (s : St) : Val → Nat → Bool
  | .tuple vs, t =>
    if (s.get t).kind = kArray then reflArr s vs (s.get t).elem else reflStruct s vs ((s.get t).fields.map (·.typ))
  | .iface ta va, _ => comparableM s (s.size + 1) ta && reflOK s va ta
  | .flt x, _ => x.isSome
  | .cplx a b, _ => a.isSome && b.isSome
  | .ifaceNil, _ => true
  | .num _, _ => true
  | .pair _ _, _ => true
  | .str _, _ => true
  | .ref _, _ => true
def reflArr (s : St) : List Val → Nat → Bool
  | a :: as, t => reflOK s a t && reflArr s as t
  | [], _ => true
def reflStruct (s : St) : List Val → List Nat → Bool
  | a :: as, t :: ts => reflOK s a t && reflStruct s as ts
  | _, _ => true
end

theorem valEqual_refl_iff (s : St) : ∀ (a b : Val) (t : Nat), a = b → (valEqual s a b t = .tt ↔ reflOK s a t = true) := by
  apply valEqual.induct s (motive_1 := fun a b t => a = b → (valEqual s a b t = .tt ↔ reflOK s a t = true))
    (motive_2 := fun as bs ts => as = bs → (listEqualStruct s as bs ts = .tt ↔ reflStruct s as ts = true))
    (motive_3 := fun as bs t => as = bs → (listEqualArr s as bs t = .tt ↔ reflArr s as t = true))
  all_goals (intros; simp_all +zetaDelta [valEqual, listEqualStruct, listEqualArr, reflOK, reflArr, reflStruct, EqRes.ofBool])
  case case10 => rename_i b _ _; cases b <;> simp
  case case11 => rename_i d _ _; intro _; cases d <;> simp
  case case14 => rename_i x _ _ _ _ _ _ _ _ _ _ _; cases x <;> simp_all
  case case17 =>
    rename_i l ts h1 h2
    cases l <;> cases ts
    · simp [listEqualStruct, reflStruct]
    · simp [listEqualStruct, reflStruct]
    · simp [listEqualStruct, reflStruct]
    · exact absurd rfl (h1 _ _ _ _ _ _ rfl rfl rfl)
  case case20 =>
    rename_i l t h1 h2
    cases l
    · simp [listEqualArr, reflArr]
    · exact absurd rfl (h1 _ _)

/-- **`ifaceEq_refl_iff`**: comparing an interface value with itself is `true` exactly when its dynamic value is of a
    comparable type (at every interface-typed component, recursively) and contains no NaN — otherwise it is `false` (NaN) or
    the "comparing uncomparable type" panic, never `true`. -/
theorem ifaceEq_refl_iff (s : St) (a : Val) : ifaceEqual s a a = .tt ↔ reflOK s a 0 = true :=
  valEqual_refl_iff s a a 0 rfl

/-- the same statement with the box opened: `x == x` for `x` holding `v` of dynamic type `t` -/
theorem ifaceEq_refl_boxed (s : St) (t : Nat) (v : Val) :
    ifaceEqual s (.iface t v) (.iface t v) = .tt ↔ (comparableM s (s.size + 1) t = true ∧ reflOK s v t = true) := by
  rw [ifaceEq_refl_iff]; simp [reflOK]

/-- a boxed interface value as the run time has it: an object identity, a dynamic type, a value -/
structure Boxed where
  id : Nat
  typ : Nat
  v : Val

/-- `$interfaceIsEqual` on boxed values (prelude.js:566-581): the object identities are not consulted -/
def ifaceEqualBoxed (s : St) (a b : Boxed) : EqRes := ifaceEqual s (.iface a.typ a.v) (.iface b.typ b.v)

/-- **`ifaceEq_identity_irrelevant`**: the verdict depends on (dynamic type, value) only — two boxings of the same value
    behave exactly like one box compared with itself, whatever the object identities are -/
theorem ifaceEq_identity_irrelevant (s : St) (a b a' b' : Boxed)
    (ha : a.typ = a'.typ ∧ a.v = a'.v) (hb : b.typ = b'.typ ∧ b.v = b'.v) :
    ifaceEqualBoxed s a b = ifaceEqualBoxed s a' b' := by
  unfold ifaceEqualBoxed; rw [ha.1, ha.2, hb.1, hb.2]

/-- why the tie probes `$interfaceIsEqual(x, x)` with ONE object: an identity fast path (`if (a === b) return true`) is not
    identity-irrelevant — a boxed NaN equals itself under it, and an uncomparable value no longer panics -/
def ifaceEqualFastPath (s : St) (a b : Boxed) : EqRes := if a.id = b.id then .tt else ifaceEqualBoxed s a b

theorem identity_fast_path_is_wrong :
    ifaceEqualFastPath init ⟨1, 13, .flt none⟩ ⟨1, 13, .flt none⟩ ≠ ifaceEqualBoxed init ⟨1, 13, .flt none⟩ ⟨2, 13, .flt none⟩ ∧
    ifaceEqualBoxed init ⟨1, 13, .flt none⟩ ⟨1, 13, .flt none⟩ = .ff ∧
    ifaceEqualBoxed (canon init (.slice 1)).1 ⟨1, 21, .ref 0⟩ ⟨1, 21, .ref 0⟩ = .panic := by decide

example : reflOK init (.iface 13 (.flt (some 1))) 0 = true ∧ reflOK init (.iface 13 (.flt none)) 0 = false := by decide

end IfaceRefl

end GV.Props.C09
