import GV.Model.Types
import GV.Spec.GoTypes
namespace GV.Props.C09
end GV.Props.C09
