import GV.Model.Link
import GV.Model.Linkname
import GV.Proofs.LinkDeps
import GV.Proofs.LinkInit
import GV.Proofs.LinkBoot
import GV.Proofs.LinknameLemmas
import GV.Props.C17

/-!
  Property C10 — packages are linked and initialised in Go order; linknames resolve.

  The theorems are about ALL acyclic import graphs, ALL suspension schedules, ALL file listings and ALL directive
  texts. What is trusted rather than proved: go/types' `InitOrder` (hypothesis `Respects` of `var_order`), the
  faithfulness of the models (checked by checks/c10.py against the real code on every run).
-/
namespace GV.Props.C10
open GV.Link GV.Linkname GV.Proofs.LinkDeps GV.Proofs.LinknameLemmas

/-! ## 1. `ImportDependencies` -/

section Deps
variable {α : Type} [DecidableEq α]

/-- The invariant of the result: no duplicates, closed under imports, nobody imports a later package. -/
theorem deps_inv (imports : α → List α) (rank : α → Nat) (hac : Acyclic imports rank) (fuel : Nat) (runtime main : α)
    (hrt : rank runtime < fuel) (hmn : rank main < fuel) (hnomain : ¬ Reach imports runtime main) :
    Inv imports (importDependencies imports fuel runtime main) ∧
    ∃ ext, importDependencies imports fuel runtime main = collect imports fuel [] runtime ++ ext ++ [main] ∧
      (∀ x ∈ ext, ∃ q ∈ imports main, Reach imports q x) ∧
      (∀ q ∈ imports main, q ∈ collect imports fuel [] runtime ++ ext) := by
  have hnil : Inv imports ([] : List α) := ⟨List.nodup_nil, (fun a ha => absurd ha List.not_mem_nil), List.Pairwise.nil⟩
  obtain ⟨e0, he0, hinv0, hm0, hr0⟩ := collect_spec imports rank hac fuel [] runtime hrt hnil
  have hr : ∀ q ∈ imports main, rank q < fuel := fun q hq => by have := hac main q hq; omega
  obtain ⟨e1, he1, hinv1, hm1, hr1⟩ := foldl_spec imports fuel rank
    (fun d p hp hd => collect_spec imports rank hac fuel d p hp hd) (imports main) _ hr hinv0
  have hnot : main ∉ collect imports fuel [] runtime ++ e1 := by
    intro h
    rcases List.mem_append.mp h with h | h
    · exact hnomain ((collect_nil_mem imports rank hac fuel runtime hrt main).mp h)
    · obtain ⟨q, hq, hrq⟩ := hr1 main h
      have h1 := reach_rank hac hrq
      have h2 := hac main q hq
      omega
  have heq : importDependencies imports fuel runtime main = collect imports fuel [] runtime ++ e1 ++ [main] := by
    unfold importDependencies; simp only []; rw [he1]
  refine ⟨?_, e1, heq, hr1, hm1⟩
  rw [heq]
  exact inv_snoc hinv1 hnot hm1

/-- **deps_nodup** — every package is listed at most once. -/
theorem deps_nodup (imports : α → List α) (rank : α → Nat) (hac : Acyclic imports rank) (fuel : Nat) (runtime main : α)
    (hrt : rank runtime < fuel) (hmn : rank main < fuel) (hnomain : ¬ Reach imports runtime main) :
    (importDependencies imports fuel runtime main).Nodup :=
  (deps_inv imports rank hac fuel runtime main hrt hmn hnomain).1.nodup

/-- **deps_mem_iff** — exactly the packages reachable from `runtime` or from the main package are listed. -/
theorem deps_mem_iff (imports : α → List α) (rank : α → Nat) (hac : Acyclic imports rank) (fuel : Nat) (runtime main : α)
    (hrt : rank runtime < fuel) (hmn : rank main < fuel) (hnomain : ¬ Reach imports runtime main) (x : α) :
    x ∈ importDependencies imports fuel runtime main ↔ (Reach imports runtime x ∨ Reach imports main x) := by
  obtain ⟨hinv, ext, heq, hext, himp⟩ := deps_inv imports rank hac fuel runtime main hrt hmn hnomain
  constructor
  · intro hx
    rw [heq] at hx
    rcases List.mem_append.mp hx with h | h
    · rcases List.mem_append.mp h with h | h
      · exact Or.inl ((collect_nil_mem imports rank hac fuel runtime hrt x).mp h)
      · obtain ⟨q, hq, hrq⟩ := hext x h
        exact Or.inr (Reach.step hq hrq)
    · simp only [List.mem_singleton] at h; subst h; exact Or.inr (Reach.refl _)
  · intro hx
    have hmain : main ∈ importDependencies imports fuel runtime main := by rw [heq]; simp
    have hrtm : runtime ∈ importDependencies imports fuel runtime main := by
      rw [heq]
      exact List.mem_append_left _ (List.mem_append_left _
        ((collect_nil_mem imports rank hac fuel runtime hrt runtime).mpr (Reach.refl _)))
    rcases hx with h | h
    · exact closed_reach hinv.closed hrtm h
    · exact closed_reach hinv.closed hmain h

/-- **deps_topological** — every package comes after all the packages it imports. -/
theorem deps_topological (imports : α → List α) (rank : α → Nat) (hac : Acyclic imports rank) (fuel : Nat) (runtime main : α)
    (hrt : rank runtime < fuel) (hmn : rank main < fuel) (hnomain : ¬ Reach imports runtime main)
    (pre post : List α) (p : α) (h : importDependencies imports fuel runtime main = pre ++ p :: post) :
    ∀ q ∈ imports p, q ∈ pre :=
  inv_split hac (deps_inv imports rank hac fuel runtime main hrt hmn hnomain).1 h

/-- **deps_runtime_first** — the list starts with the dependency closure of `runtime` (exactly the packages
    reachable from it), itself in topological order. -/
theorem deps_runtime_first (imports : α → List α) (rank : α → Nat) (hac : Acyclic imports rank) (fuel : Nat) (runtime main : α)
    (hrt : rank runtime < fuel) (hmn : rank main < fuel) (hnomain : ¬ Reach imports runtime main) :
    ∃ rest, importDependencies imports fuel runtime main = collect imports fuel [] runtime ++ rest ∧
      ∀ x, x ∈ collect imports fuel [] runtime ↔ Reach imports runtime x := by
  obtain ⟨_, ext, heq, _, _⟩ := deps_inv imports rank hac fuel runtime main hrt hmn hnomain
  exact ⟨ext ++ [main], by rw [heq, List.append_assoc], collect_nil_mem imports rank hac fuel runtime hrt⟩

/-- **deps_main_last** — the main package is the last one. -/
theorem deps_main_last (imports : α → List α) (fuel : Nat) (runtime main : α) :
    (importDependencies imports fuel runtime main).getLast? = some main := by
  unfold importDependencies; simp

/-- the hypotheses are satisfiable by a non-trivial graph (diamond with a shared dependency and `runtime`) -/
example : importDependencies (fun p => if p = 4 then [3, 2] else if p = 3 then [1, 0] else if p = 2 then [1] else if p = 1 then [0] else [])
    5 0 4 = [0, 1, 3, 2, 4] := by decide

end Deps

/-! ## 1b. The `$init` protocol -/

section Init
variable {α : Type} [DecidableEq α]
open GV.Proofs.LinkInit

/-- What the property demands of the event trace `T` of a program run. -/
def InitOrderOK (G : Prog α) (sched : α → Nat → Nat) (runtime main : α) (T : List (Ev α)) : Prop :=
  -- every package is initialised at most once, and an initialisation that started also completes
  (∀ p, T.count (Ev.enter p) ≤ 1 ∧ T.count (Ev.done p) = T.count (Ev.enter p)) ∧
  -- every body item (variable initialiser, init function, main.main) of an initialised package runs exactly once
  (∀ p i, T.count (Ev.begin p i) = if Ev.enter p ∈ T ∧ i < G.nitems p then 1 else 0) ∧
  -- exactly the packages reachable from `runtime` or from the main package are initialised
  (∀ p, Ev.enter p ∈ T ↔ (Reach G.imports runtime p ∨ Reach G.imports main p)) ∧
  -- a body item of `p` begins only after the initialisation of every import of `p` has COMPLETED …
  (∀ pre p i post, T = pre ++ Ev.begin p i :: post → ∀ q ∈ G.imports p, Ev.done q ∈ pre) ∧
  -- … and completion of a package means that all its body items have finished
  (∀ pre p post, T = pre ++ Ev.done p :: post → ∀ i, i < G.nitems p → Ev.fin p i ∈ pre) ∧
  -- nothing overtakes a suspended initialiser: between the begin and the end of an item there are only its own
  -- suspensions
  (∀ pre q i post, T = pre ++ Ev.begin q i :: post →
    ∃ post', post = List.replicate (sched q i) Ev.yield ++ Ev.fin q i :: post')

/-- **machine_eq_direct** — the state machine (explicit stack of `$init` activations, self-replacement, resumption),
    started as the emitted program starts it, runs to an empty stack and its trace is `programTrace`. -/
theorem machine_eq_direct (G : Prog α) (sched : α → Nat → Nat) (rank : α → Nat) (hac : Acyclic G.imports rank)
    (fuel : Nat) (runtime main : α) (hr0 : rank runtime < fuel) (hr1 : rank main < fuel) :
    ∃ n m, (steps G sched m (call G (steps G sched n (bootState G runtime)) main)).stack = [] ∧
      (steps G sched m (call G (steps G sched n (bootState G runtime)) main)).trace
        = programTrace G sched fuel runtime main := by
  obtain ⟨n, m, h⟩ := machine_program G sched fuel runtime main rank hac hr0 hr1
  exact ⟨n, m, by rw [h], by rw [h]⟩

/-- **init_once_after_imports** — for every acyclic import graph and EVERY suspension schedule `sched` (each body
    item may suspend any number of times), the run of the `$init` protocol AS THE EMITTED PROGRAM STARTS IT — the
    `runtime` phase on the synchronous machine `stepsSync`, where a suspension would lose the continuation, then
    `$go($mainPkg.$init)` on the resumable machine — initialises each reachable package exactly once, runs each of its
    body items exactly once and only after the initialisation of all the packages it imports has completed, and
    nothing overtakes a suspended initialiser.
    `hsync` (the initialisers in the dependency closure of `runtime` do not suspend) is USED by the proof and is
    necessary (`boot_sync_needs_hsync`); for the real code it is a regenerated fact checked on every run
    (`GV.Props.C10Env.runtime_closure_nonblocking`). -/
theorem init_once_after_imports (G : Prog α) (sched : α → Nat → Nat) (rank : α → Nat) (hac : Acyclic G.imports rank)
    (fuel : Nat) (runtime main : α) (hr0 : rank runtime < fuel) (hr1 : rank main < fuel)
    (hsync : ∀ p, Reach G.imports runtime p → ∀ i, sched p i = 0) :
    ∃ n m, (steps G sched m (call G (stepsSync G sched n (bootState G runtime)) main)).stack = [] ∧
      InitOrderOK G sched runtime main (steps G sched m (call G (stepsSync G sched n (bootState G runtime)) main)).trace := by
  obtain ⟨n, m, h⟩ := GV.Proofs.LinkBoot.boot_sync_program G sched fuel runtime main rank hac hr0 hr1 hsync
  refine ⟨n, m, by rw [h], ?_⟩
  rw [h]
  obtain ⟨a, b, c, d, e⟩ := init_once_after_imports_rec G sched fuel runtime main rank hac hr0 hr1
  exact ⟨a, b, c, d, e, no_overtaking_program G sched fuel runtime main⟩

/-- **boot_sync_needs_hsync** — the hypothesis cannot be dropped: if an initialiser of the `runtime` closure
    suspended, the synchronous boot call would lose it and the main package would be initialised without it
    (concrete program: package 1 imports package 0 = runtime, whose only item suspends once). -/
theorem boot_sync_needs_hsync :
    ¬ ∃ n m, (steps GV.Proofs.LinkBoot.cexG GV.Proofs.LinkBoot.cexSched m
        (call GV.Proofs.LinkBoot.cexG (stepsSync GV.Proofs.LinkBoot.cexG GV.Proofs.LinkBoot.cexSched n
          (bootState GV.Proofs.LinkBoot.cexG 0)) 1)).trace
      = programTrace GV.Proofs.LinkBoot.cexG GV.Proofs.LinkBoot.cexSched 2 0 1 :=
  GV.Proofs.LinkBoot.boot_sync_needs_hsync

/-! ### the await rule -/

theorem unwind_always (st : List (Frame α)) : unwind (awaitsAlways (α := α)) st = none := by
  induction st with
  | nil => rfl
  | cons f rest ih =>
    cases rest with
    | nil => rfl
    | cons g r => simp only [unwind, awaitsAlways, if_true]; exact ih

/-- with the code's rule (every import initialiser call is awaited) the machine with the explicit await rule is the
    machine `step` -/
theorem stepA_always (G : Prog α) (sched : α → Nat → Nat) (s : State α) :
    stepA G sched awaitsAlways s = step G sched s := by
  unfold stepA
  split
  · rename_i h; simp [step, h]
  · split
    · simp only [unwind_always]
    · rfl

theorem stepsA_always (G : Prog α) (sched : α → Nat → Nat) : ∀ n (s : State α),
    stepsA G sched awaitsAlways n s = steps G sched n s := by
  intro n
  induction n with
  | zero => intro s; rfl
  | succ n ih => intro s; simp only [stepsA, steps, stepA_always, ih]

/-- **init_complete_before_importer_even_if_suspending** — the machine that carries the await rule explicitly, with the
    rule of the code (`importInitializer` always awaits), for EVERY acyclic import graph and EVERY suspension schedule:
    the run ends, and whenever a body item of a package `p` begins, every package `q` that `p` imports has returned
    from its `$init` and every one of `q`'s own items has finished — however often and wherever below `q` something
    suspended in between. (The induction over the import DAG is `GV.Proofs.LinkInit.begin_spec`/`done_spec`.) -/
theorem init_complete_before_importer_even_if_suspending (G : Prog α) (sched : α → Nat → Nat) (rank : α → Nat)
    (hac : Acyclic G.imports rank) (fuel : Nat) (runtime main : α) (hr0 : rank runtime < fuel) (hr1 : rank main < fuel)
    (hsync : ∀ p, Reach G.imports runtime p → ∀ i, sched p i = 0) :
    ∃ n m, (stepsA G sched awaitsAlways m (call G (stepsSync G sched n (bootState G runtime)) main)).stack = [] ∧
      ∀ pre p i post,
        (stepsA G sched awaitsAlways m (call G (stepsSync G sched n (bootState G runtime)) main)).trace
          = pre ++ Ev.begin p i :: post →
        ∀ q ∈ G.imports p, Ev.done q ∈ pre ∧ ∀ j, j < G.nitems q → Ev.fin q j ∈ pre := by
  obtain ⟨n, m, hstack, hok⟩ := init_once_after_imports G sched rank hac fuel runtime main hr0 hr1 hsync
  refine ⟨n, m, by rw [stepsA_always]; exact hstack, ?_⟩
  rw [stepsA_always]
  obtain ⟨_, _, _, hd, he, _⟩ := hok
  intro pre p i post hT q hq
  have hdone := hd pre p i post hT q hq
  refine ⟨hdone, ?_⟩
  obtain ⟨a, b, hab⟩ := List.append_of_mem hdone
  intro j hj
  have := he a q (b ++ Ev.begin p i :: post) (by rw [hT, hab]; simp) j hj
  rw [hab]; exact List.mem_append_left _ this

/-- the chain 2 → 1 → 0 (`runtime` = 9 apart): only package 0's initialiser suspends -/
def chainG : Prog Nat :=
  { imports := fun p => if p = 2 then [1] else if p = 1 then [0] else [], nitems := fun p => if p = 9 then 0 else 1 }
def chainSched : Nat → Nat → Nat := fun p _ => if p = 0 then 1 else 0

/-- **await_only_if_directly_blocking_counterexample** — the rule "await an import only if ITS OWN initialisers can
    suspend" (which does not look at that package's imports) breaks the property on the chain main(2) → mid(1) →
    leaf(0) where only the leaf suspends: mid awaits leaf, but main does not await mid, so main's item begins (and the
    run of main ends) although neither leaf's item has finished nor mid has been initialised. -/
theorem await_only_if_directly_blocking_counterexample :
    (stepsA chainG chainSched (awaitsIfDirectlyBlocking chainG chainSched) 12
        (call chainG (steps chainG chainSched 2 (bootState chainG 9)) 2)).stack = [] ∧
    Ev.begin 2 0 ∈ (stepsA chainG chainSched (awaitsIfDirectlyBlocking chainG chainSched) 12
        (call chainG (steps chainG chainSched 2 (bootState chainG 9)) 2)).trace ∧
    Ev.fin 0 0 ∉ (stepsA chainG chainSched (awaitsIfDirectlyBlocking chainG chainSched) 12
        (call chainG (steps chainG chainSched 2 (bootState chainG 9)) 2)).trace ∧
    Ev.done 1 ∉ (stepsA chainG chainSched (awaitsIfDirectlyBlocking chainG chainSched) 12
        (call chainG (steps chainG chainSched 2 (bootState chainG 9)) 2)).trace := by
  decide

/-- the same chain under the code's rule: everything completes in order -/
example : (stepsA chainG chainSched awaitsAlways 14
      (call chainG (steps chainG chainSched 2 (bootState chainG 9)) 2)).trace
    = [Ev.enter 9, Ev.done 9, Ev.enter 2, Ev.enter 1, Ev.enter 0, Ev.begin 0 0, Ev.yield, Ev.fin 0 0, Ev.done 0,
       Ev.begin 1 0, Ev.fin 1 0, Ev.done 1, Ev.begin 2 0, Ev.fin 2 0, Ev.done 2] := by decide

/-- **init_suspension_invisible** — the schedule changes nothing but the suspensions themselves: with the `yield`
    events removed, the trace equals the trace of the run in which nothing ever suspends. -/
theorem init_suspension_invisible (G : Prog α) (sched : α → Nat → Nat) (fuel : Nat) (runtime main : α) :
    (programTrace G sched fuel runtime main).filter (fun e => decide (e ≠ Ev.yield))
      = (programTrace G (fun _ _ => 0) fuel runtime main).filter (fun e => decide (e ≠ Ev.yield)) :=
  programTrace_sched_irrelevant G sched fuel runtime main

/-- **no_overtaking** (stated on its own) -/
theorem no_overtaking (G : Prog α) (sched : α → Nat → Nat) (fuel : Nat) (runtime main : α)
    (pre : List (Ev α)) (q : α) (i : Nat) (post : List (Ev α))
    (h : programTrace G sched fuel runtime main = pre ++ Ev.begin q i :: post) :
    ∃ post', post = List.replicate (sched q i) Ev.yield ++ Ev.fin q i :: post' :=
  no_overtaking_program G sched fuel runtime main pre q i post h

/-- the hypotheses are satisfiable by a non-trivial program: a diamond over `runtime` where the items of the
    non-runtime packages suspend -/
example : ∃ (G : Prog Nat) (sched : Nat → Nat → Nat) (rank : Nat → Nat),
    Acyclic G.imports rank ∧ rank 0 < 5 ∧ rank 3 < 5 ∧ (∀ p, Reach G.imports 0 p → ∀ i, sched p i = 0) ∧
    (programTrace G sched 5 0 3).length = 36 := by
  refine ⟨⟨fun p => if p = 3 then [1, 2] else if p = 2 then [1, 0] else if p = 1 then [0] else [], fun _ => 2⟩,
    fun p _ => if p = 0 then 0 else 2, id, ?_, by decide, by decide, ?_, by decide⟩
  · intro p q hq
    simp only at hq
    split at hq
    · simp only [List.mem_cons, List.not_mem_nil, or_false] at hq; simp only [id]; omega
    · split at hq
      · simp only [List.mem_cons, List.not_mem_nil, or_false] at hq; simp only [id]; omega
      · split at hq
        · simp only [List.mem_cons, List.not_mem_nil, or_false] at hq; simp only [id]; omega
        · simp at hq
  · intro p hp
    have : p = 0 := by
      cases hp with
      | refl => rfl
      | step hq _ => simp at hq
    subst this
    intro i; simp

end Init

/-! ## 2. Variable order -/

/-- **var_order** — `varDecls` (decls.go:215-248) emits the synthetic zero initialisers before `InitOrder`. If
    the zero initialisers refer to nothing and `InitOrder` (go/types, trusted) respects the dependencies, so does
    the emitted sequence — and additionally every dependency on a variable without initialiser is satisfied. -/
theorem var_order (deps : String → List String) (zeros initOrder : List String)
    (hz : ∀ z ∈ zeros, deps z = []) (hI : Respects deps initOrder) :
    Respects deps (zeros ++ initOrder) := by
  intro pre v post hl d hd hne hmem
  rcases List.append_eq_append_iff.mp hl with ⟨a', h1, h2⟩ | ⟨c', h1, h2⟩
  · -- pre = zeros ++ a', initOrder = a' ++ v :: post
    rw [h1]
    rcases List.mem_append.mp hmem with h | h
    · exact List.mem_append_left _ h
    · exact List.mem_append_right _ (hI a' v post h2 d hd hne h)
  · -- zeros = pre ++ c', c' ++ initOrder = v :: post
    cases c' with
    | nil =>
      simp only [List.nil_append] at h2
      simp only [List.append_nil] at h1
      rw [← h1]
      rcases List.mem_append.mp hmem with h | h
      · exact h
      · exact absurd (hI [] v post (by simpa using h2.symm) d hd hne h) List.not_mem_nil
    | cons c cs =>
      simp only [List.cons_append, List.cons.injEq] at h2
      have hvz : v ∈ zeros := by rw [h1, ← h2.1]; simp
      rw [hz v hvz] at hd
      exact absurd hd List.not_mem_nil

/-- the selection rule of the Go specification, used by the driver to predict traces, respects the dependencies -/
theorem spec_var_order_aux (deps : String → List String) :
    ∀ (fuel : Nat) (pending pre : List String) (v : String) (post : List String),
      specVarOrder deps fuel pending = pre ++ v :: post →
      ∀ d ∈ deps v, d ≠ v → d ∈ pending → d ∈ pre := by
  intro fuel
  induction fuel with
  | zero => intro pending pre v post h; simp [specVarOrder] at h
  | succ fuel ih =>
    intro pending pre v post h d hd hne hpend
    unfold specVarOrder at h
    split at h
    · rename_i v0 hfind
      cases pre with
      | nil =>
        simp only [List.nil_append, List.cons.injEq] at h
        have hready := List.find?_some hfind
        rw [h.1] at hready
        unfold ready at hready
        have := (List.all_eq_true.mp hready) d hd
        simp only [Bool.or_eq_true, Bool.not_eq_true', beq_iff_eq] at this
        rcases this with h1 | h1
        · have : pending.contains d = true := List.contains_iff_mem.mpr hpend
          rw [this] at h1; exact absurd h1 (by decide)
        · exact absurd h1 hne
      | cons x pre' =>
        simp only [List.cons_append, List.cons.injEq] at h
        by_cases hdx : d = v0
        · rw [hdx, h.1]; exact List.mem_cons_self
        · have hp' : d ∈ pending.filter (· != v0) := by
            rw [List.mem_filter]; exact ⟨hpend, by simpa using hdx⟩
          exact List.mem_cons_of_mem _ (ih _ pre' v post h.2 d hd hne hp')
    · simp at h

/-- **spec_var_order_respects** -/
theorem spec_var_order_respects (deps : String → List String) (fuel : Nat) (pending : List String)
    (hsub : ∀ x ∈ specVarOrder deps fuel pending, x ∈ pending) :
    Respects deps (specVarOrder deps fuel pending) := by
  intro pre v post h d hd hne hmem
  exact spec_var_order_aux deps fuel pending pre v post h d hd hne (hsub d hmem)

/-! ## 3. File order and import order -/

theorem ge_trans (a b c : String) : decide (b ≤ a) = true → decide (c ≤ b) = true → decide (c ≤ a) = true := by
  simp only [decide_eq_true_eq]; exact fun h1 h2 => String.le_trans h2 h1

theorem ge_total (a b : String) : (decide (b ≤ a) || decide (a ≤ b)) = true := by
  simp only [Bool.or_eq_true, decide_eq_true_eq]; exact String.le_total b a

theorem ge_antisymm (a b : String) : decide (b ≤ a) = true → decide (a ≤ b) = true → a = b := by
  simp only [decide_eq_true_eq]; exact fun h1 h2 => String.le_antisymm h2 h1

/-- **file_order** — the order in which the files (hence the `init` functions, `initCalls`) are processed depends
    only on the set of file names, not on the order in which the files were listed. -/
theorem file_order (l₁ l₂ : List String) (h : l₁.Perm l₂) : sortFiles l₁ = sortFiles l₂ :=
  GV.Props.C17.sort_perm_invariant _ ge_trans ge_total ge_antisymm l₁ l₂ h

/-- **file_order_any_sort** — `sort.Slice` is not a stable sort and its algorithm is unspecified; ANY permutation of
    the listing that is sorted by descending name is the model's `sortFiles`. -/
theorem file_order_any_sort (l r : List String) (hperm : r.Perm l) (hsorted : r.Pairwise (fun a b => b ≤ a)) :
    r = sortFiles l := by
  apply List.Perm.eq_of_pairwise (le := fun a b => decide (b ≤ a) = true)
  · intro a b _ _ hab hba; exact ge_antisymm a b hab hba
  · exact hsorted.imp (fun h => by simpa using h)
  · exact List.pairwise_mergeSort ge_trans ge_total l
  · exact hperm.trans (List.mergeSort_perm l _).symm

/-- **sort_perm** — the model of `Sources.Sort` only reorders: the result is a permutation of the files handed in. -/
theorem sort_perm (l : List String) : (sortFiles l).Perm l := List.mergeSort_perm l _

/-- **sort_sorted** — the result is sorted by file name (descending); for distinct names strictly so, i.e. the
    position of every file is determined by its name alone. -/
theorem sort_sorted (l : List String) :
    (sortFiles l).Pairwise (fun a b => b ≤ a) ∧ (l.Nodup → (sortFiles l).Pairwise (fun a b => b < a)) := by
  have h : (sortFiles l).Pairwise (fun a b => b ≤ a) :=
    (List.pairwise_mergeSort ge_trans ge_total l).imp (fun h => by simpa using h)
  refine ⟨h, fun hn => ?_⟩
  have hn' : (sortFiles l).Nodup := (sort_perm l).nodup_iff.mpr hn
  have hboth := h.and hn'
  exact hboth.imp (fun ⟨hle, hne⟩ => by
    apply Decidable.byContradiction
    intro hnlt
    exact hne (String.le_antisymm (String.not_lt.mp hnlt) hle))

/-- **sort_input_order_independent** — for every list of (distinct) file names and every order in which the very same
    files are handed to the compiler (`gopherjs build a.go c.go b.go`, a directory listing, test files appended, …) the
    processing order is the same. -/
theorem sort_input_order_independent (l₁ l₂ : List String) (_hd : l₁.Nodup) (h : l₁.Perm l₂) :
    sortFiles l₁ = sortFiles l₂ := file_order l₁ l₂ h

theorem flatMap_congr' {β γ : Type} (l : List β) (f g : β → List γ) (h : ∀ x ∈ l, f x = g x) :
    l.flatMap f = l.flatMap g := by
  induction l with
  | nil => rfl
  | cons a as ih =>
    simp only [List.flatMap_cons]
    rw [h a List.mem_cons_self, ih (fun x hx => h x (List.mem_cons_of_mem _ hx))]

theorem find_by_name {fs : List File} (hn : (fs.map (·.name)).Nodup) {a : File} (ha : a ∈ fs) :
    fs.find? (fun f => f.name == a.name) = some a := by
  induction fs with
  | nil => cases ha
  | cons x xs ih =>
    simp only [List.map_cons, List.nodup_cons] at hn
    rw [List.find?_cons]
    by_cases hx : x.name = a.name
    · have : x = a := by
        rcases List.mem_cons.mp ha with h | h
        · exact h.symm
        · exact absurd (hx ▸ List.mem_map_of_mem (f := (·.name)) h) hn.1
      subst this
      simp
    · have hax : a ∈ xs := by
        rcases List.mem_cons.mp ha with h | h
        · exact absurd (by rw [h]) hx
        · exact h
      have hb : (x.name == a.name) = false := by simpa using hx
      simp only [hb]
      exact ih hn.2 hax

/-- **init_calls_order** — the sequence of `init()` calls of a package (files in `Sources.Sort` order, the `init`s of
    a file in source order) depends only on the SET of files, not on the order in which they were listed. -/
theorem init_calls_order (fs₁ fs₂ : List File) (h : fs₁.Perm fs₂) (hn : (fs₁.map (·.name)).Nodup) :
    initCalls fs₁ = initCalls fs₂ := by
  have hn2 : (fs₂.map (·.name)).Nodup := (h.map (·.name)).nodup_iff.mp hn
  unfold initCalls
  rw [file_order _ _ (h.map (·.name))]
  apply flatMap_congr'
  intro n _
  have : fs₁.find? (fun f => f.name == n) = fs₂.find? (fun f => f.name == n) := by
    cases h1 : fs₁.find? (fun f => f.name == n) with
    | some a =>
      have ha := List.mem_of_find?_eq_some h1
      have hp := List.find?_some h1
      have hname : a.name = n := by simpa using hp
      rw [← hname]
      exact (find_by_name hn2 (h.subset ha)).symm
    | none =>
      symm
      rw [List.find?_eq_none] at h1 ⊢
      intro x hx
      exact h1 x (h.symm.subset hx)
  rw [this]

/-- **import_order** — the import initialisers are called in an order that depends only on the set of imported paths -/
theorem import_order (l₁ l₂ : List String) (h : l₁.Perm l₂) : sortImports l₁ = sortImports l₂ :=
  GV.Props.C17.sort_perm_invariant _ GV.Props.C17.string_le_trans GV.Props.C17.string_le_total
    GV.Props.C17.string_le_antisymm l₁ l₂ h

/-! ## 4. go:linkname -/

/-- `readLinknameFromComment` yields a link exactly for a two-argument directive whose arguments differ. -/
theorem read_link_iff (pkg c : Text) (l : Link) :
    readLinkname pkg c = .link l ↔
      (hasPrefix directivePrefix c = true ∧ ∃ kw loc ext, fields c = [kw, loc, ext] ∧ loc ≠ ext ∧
        l = ⟨⟨pkg, loc⟩, ⟨(splitTarget ext).1, (splitTarget ext).2⟩⟩) := by
  unfold readLinkname
  cases hp : hasPrefix directivePrefix c
  · simp
  · simp only [Bool.not_true, Bool.false_eq_true, if_false, true_and]
    split
    · rename_i a b heq
      constructor
      · intro h; cases h
      · rintro ⟨kw, loc, ext, hf, _, _⟩; rw [heq] at hf; simp at hf
    · rename_i kw loc ext heq
      by_cases he : loc = ext
      · rw [if_pos (by simpa using he)]
        constructor
        · intro h; cases h
        · rintro ⟨kw', loc', ext', hf, hne, _⟩
          rw [heq] at hf; simp only [List.cons.injEq, and_true] at hf
          exact absurd (by rw [← hf.2.1, ← hf.2.2]; exact he) hne
      · rw [if_neg (by simpa using he)]
        constructor
        · intro h; simp only [Read.link.injEq] at h; exact ⟨kw, loc, ext, heq, he, h.symm⟩
        · rintro ⟨kw', loc', ext', hf, _, hl⟩
          rw [heq] at hf; simp only [List.cons.injEq, and_true] at hf
          rw [hl, ← hf.2.1, ← hf.2.2]
    · rename_i hne2 hne3
      constructor
      · intro h; cases h
      · rintro ⟨kw, loc, ext, hf, _, _⟩; exact absurd hf (hne3 kw loc ext)

/-- **linkname_parse** — the decision table of `ParseGoLinknames` for one comment, stated outright. -/
theorem linkname_parse (pkg : Text) (uns : Bool) (lookup : Text → Node) (c : Text) :
    -- accepted exactly for: a two-argument directive, in a file importing unsafe, on a function without body
    (∀ l, decide pkg uns lookup c = .accept l ↔
      (readLinkname pkg c = .link l ∧ uns = true ∧ lookup l.reference.name = .func false)) ∧
    -- without `unsafe`: rejected
    (decide pkg uns lookup c = .errUnsafe ↔ (∃ l, readLinkname pkg c = .link l) ∧ uns = false) ∧
    -- variables and types: rejected except the mitigated names
    (decide pkg uns lookup c = .errNotFunc ↔
      ∃ l, readLinkname pkg c = .link l ∧ uns = true ∧
        (lookup l.reference.name = .typeSpec ∨ lookup l.reference.name = .valueSpec) ∧ isMitigatedVar l.reference = false) ∧
    -- a local body: rejected except in the mitigated packages
    (decide pkg uns lookup c = .errInsert ↔
      ∃ l, readLinkname pkg c = .link l ∧ uns = true ∧ lookup l.reference.name = .func true ∧ isMitigatedInsert l.reference = false) ∧
    -- wrong number of arguments: rejected; one argument / self reference / other comments: ignored
    (decide pkg uns lookup c = .errUsage ↔ readLinkname pkg c = .usage) ∧
    ((readLinkname pkg c = .notDirective ∨ readLinkname pkg c = .ignored) → decide pkg uns lookup c = .skip) := by
  unfold GV.Linkname.decide
  cases hr : readLinkname pkg c <;> cases uns <;> simp
  all_goals (rename_i l; cases hl : lookup l.reference.name <;> simp [hl])
  all_goals (try (rename_i b; cases b <;> simp))
  all_goals (try (cases hm : isMitigatedInsert l.reference <;> simp [hm]))
  all_goals (try (cases hm : isMitigatedVar l.reference <;> simp [hm]))
  all_goals (try simp_all)

/-- the raw split (linkname.go:60-68): `importPath.name` is cut at the first dot after the last slash -/
theorem splitExt_spec (dir last name : Text)
    (hdir : dir = [] ∨ ∃ d, dir = d ++ ['/'])
    (hlast1 : '/' ∉ last) (hlast2 : '.' ∉ last) (hname : '/' ∉ name) :
    splitExt (dir ++ last ++ '.' :: name) = (dir ++ last, name) := by
  have htail : '/' ∉ last ++ '.' :: name := by
    intro h
    rcases List.mem_append.mp h with h | h
    · exact hlast1 h
    · rcases List.mem_cons.mp h with h | h
      · exact absurd h (by decide)
      · exact hname h
  unfold splitExt
  rcases hdir with hd | ⟨d, hd⟩
  · subst hd
    simp only [List.nil_append]
    rw [lastIndexOf_none '/' _ htail]
    simp only [List.drop_zero, Nat.zero_add]
    rw [indexOf_append '.' last name hlast2]
    simp
  · subst hd
    have e : d ++ ['/'] ++ last ++ '.' :: name = d ++ '/' :: (last ++ '.' :: name) := by simp
    rw [e, lastIndexOf_append '/' d _ htail]
    simp only []
    have e2 : (d ++ '/' :: (last ++ '.' :: name)).drop (d.length + 1) = last ++ '.' :: name := by
      have : d ++ '/' :: (last ++ '.' :: name) = (d ++ ['/']) ++ (last ++ '.' :: name) := by simp
      rw [this, List.drop_left' (by simp)]
    rw [e2, indexOf_append '.' last name hlast2]
    simp only []
    have e3 : d ++ '/' :: (last ++ '.' :: name) = (d ++ ['/'] ++ last) ++ '.' :: name := by simp
    rw [e3]
    refine Prod.ext ?_ ?_
    · simp only []
      rw [List.take_left' (by simp; omega)]
    · simp only []
      have : (d ++ ['/'] ++ last) ++ '.' :: name = (d ++ ['/'] ++ last ++ ['.']) ++ name := by simp
      rw [this, List.drop_left' (by simp; omega)]

/-- gc's spelling of the last path element inside a symbol name: every dot is written `%2e` -/
def escDots (t : Text) : Text := t.flatMap fun c => if c = '.' then ['%', '2', 'e'] else [c]

theorem pathUnescape_cons (c : Char) (hc : c ≠ '%') (t : Text) :
    pathUnescape (c :: t) = (pathUnescape t).map (c :: ·) := by
  match t with
  | [] => simp [pathUnescape, hc]
  | [a] => simp [pathUnescape, hc]
  | a :: b :: rest => simp [pathUnescape, hc]

theorem pathUnescape_append (a b : Text) (ha : '%' ∉ a) :
    pathUnescape (a ++ b) = (pathUnescape b).map (a ++ ·) := by
  induction a with
  | nil => simp
  | cons x xs ih =>
    have hx : x ≠ '%' := fun h => ha (by simp [h])
    have hxs : '%' ∉ xs := fun h => ha (List.mem_cons_of_mem _ h)
    rw [List.cons_append, pathUnescape_cons x hx, ih hxs]
    cases pathUnescape b <;> simp

theorem pathUnescape_dot (t : Text) : pathUnescape ('%' :: '2' :: 'e' :: t) = (pathUnescape t).map ('.' :: ·) := by
  have h2 : hexVal '2' = some 2 := by decide
  have he : hexVal 'e' = some 14 := by decide
  rw [pathUnescape]
  simp only [if_true, h2, he]

theorem pathUnescape_escDots (t : Text) (ht : '%' ∉ t) : pathUnescape (escDots t) = some t := by
  induction t with
  | nil => simp [escDots, pathUnescape]
  | cons x xs ih =>
    have hx : x ≠ '%' := fun h => ht (by simp [h])
    have hxs : '%' ∉ xs := fun h => ht (List.mem_cons_of_mem _ h)
    have ih' := ih hxs
    unfold escDots at ih' ⊢
    simp only [List.flatMap_cons]
    by_cases hd : x = '.'
    · subst hd
      simp only [if_true, List.cons_append, List.nil_append]
      rw [pathUnescape_dot, ih']; rfl
    · simp only [hd, if_false, List.cons_append, List.nil_append]
      rw [pathUnescape_cons x hx, ih']; rfl

theorem escDots_not_mem (t : Text) (c : Char) (hc : c ∉ t) (h1 : c ≠ '%') (h2 : c ≠ '2') (h3 : c ≠ 'e') :
    c ∉ escDots t := by
  unfold escDots
  intro h
  rw [List.mem_flatMap] at h
  obtain ⟨x, hx, hcx⟩ := h
  by_cases hd : x = '.'
  · simp only [hd, if_true, List.mem_cons, List.not_mem_nil, or_false] at hcx
    rcases hcx with h | h | h
    · exact h1 h
    · exact h2 h
    · exact h3 h
  · simp only [hd, if_false, List.mem_singleton] at hcx
    exact hc (hcx ▸ hx)

theorem escDots_no_dot (t : Text) : '.' ∉ escDots t := by
  unfold escDots
  intro h
  rw [List.mem_flatMap] at h
  obtain ⟨x, _, hcx⟩ := h
  by_cases hd : x = '.'
  · simp only [hd, if_true, List.mem_cons, List.not_mem_nil, or_false] at hcx
    rcases hcx with h | h | h <;> exact absurd h (by decide)
  · simp only [hd, if_false, List.mem_singleton] at hcx
    exact hd hcx.symm

/-- **linkname_split** — full strength. The target `importpath.name` of a directive names package `dir ++ last`
    (`dir` = the path up to and including the last slash, `last` = the last element) and symbol `name` when it is
    spelled the way the gc toolchain spells it: the path as it is, except that every dot of the LAST element is written
    `%2e` (`escDots`); earlier elements may contain dots and slashes; `name` may contain dots (`Type.method`,
    `(*Type).method`) but no slash. Literal `%` characters in the path are outside the statement (gc spells them `%25`). -/
theorem linkname_split (dir last name : Text)
    (hdir : dir = [] ∨ ∃ d, dir = d ++ ['/'])
    (hpct1 : '%' ∉ dir) (hpct2 : '%' ∉ last) (hlast : '/' ∉ last) (hname : '/' ∉ name) :
    splitTarget (dir ++ escDots last ++ '.' :: name) = (dir ++ last, name) := by
  unfold splitTarget
  rw [splitExt_spec dir (escDots last) name hdir
    (escDots_not_mem last '/' hlast (by decide) (by decide) (by decide)) (escDots_no_dot last) hname]
  simp only []
  rw [pathUnescape_append dir _ hpct1, pathUnescape_escDots last hpct2]
  rfl

/-- a last element without dots is spelled as it is -/
theorem escDots_of_no_dot (t : Text) (h : '.' ∉ t) : escDots t = t := by
  induction t with
  | nil => rfl
  | cons x xs ih =>
    have hx : x ≠ '.' := fun e => h (by simp [e])
    have hxs : '.' ∉ xs := fun e => h (List.mem_cons_of_mem _ e)
    have := ih hxs
    unfold escDots at this ⊢
    simp only [List.flatMap_cons, hx, if_false, List.cons_append, List.nil_append, this]

/-- **linkname_split_plain** — the common case: no dot in the last path element, the path is written verbatim -/
theorem linkname_split_plain (dir last name : Text)
    (hdir : dir = [] ∨ ∃ d, dir = d ++ ['/'])
    (hpct1 : '%' ∉ dir) (hpct2 : '%' ∉ last) (hlast : '/' ∉ last) (hdot : '.' ∉ last) (hname : '/' ∉ name) :
    splitTarget (dir ++ last ++ '.' :: name) = (dir ++ last, name) := by
  have := linkname_split dir last name hdir hpct1 hpct2 hlast hname
  rwa [escDots_of_no_dot last hdot] at this

/-- **linkname_dotted_package** — the former finding, now positive: a package whose last path element contains a dot
    is named by the gc spelling and the call resolves to it. (The plain spelling `m/pk.v2.impl` names package `m/pk`,
    symbol `v2.impl` — exactly as with gc, where that symbol does not exist either.) -/
theorem linkname_dotted_package :
    readLinkname "m".toList "//go:linkname f m/pk%2ev2.impl".toList
      = .link ⟨⟨"m".toList, "f".toList⟩, ⟨"m/pk.v2".toList, "impl".toList⟩⟩ ∧
    callTarget [⟨⟨"m".toList, "f".toList⟩, ⟨"m/pk.v2".toList, "impl".toList⟩⟩]
      [⟨"m/pk.v2".toList, "impl".toList⟩] ⟨"m".toList, "f".toList⟩ false = some ⟨"m/pk.v2".toList, "impl".toList⟩ ∧
    splitTarget "m/pk.v2.impl".toList = ("m/pk".toList, "v2.impl".toList) := by
  decide

/-- `IsMethod` on a name whose part before the first dot is `recv` -/
theorem isMethod_split (pkg recv m : Text) (h : '.' ∉ recv) :
    isMethod ⟨pkg, recv ++ '.' :: m⟩ =
      some (if (Decidable.decide (recv.length > 2) && recv.head? == some '(' && recv.getLast? == some ')') = true
            then (recv.drop 1).take (recv.length - 2) else recv, m) := by
  unfold isMethod
  simp only [indexOf_append '.' recv m h]
  have e1 : (recv ++ '.' :: m).take recv.length = recv := List.take_left' rfl
  have e2 : (recv ++ '.' :: m).drop (recv.length + 1) = m := by
    have : recv ++ '.' :: m = (recv ++ ['.']) ++ m := by simp
    rw [this, List.drop_left' (by simp)]
  simp only [e1, e2]

/-- **ismethod_value** — `importpath.Type.name` -/
theorem ismethod_value (pkg typ name : Text) (h1 : '.' ∉ typ) (h2 : typ.head? ≠ some '(') :
    isMethod (symbolNew pkg (.value typ) name) = some (typ, name) := by
  have e : symbolNew pkg (.value typ) name = ⟨pkg, typ ++ '.' :: name⟩ := by simp [symbolNew]
  rw [e, isMethod_split pkg typ name h1]
  have h3 : (typ.head? == some '(') = false := by simpa using h2
  simp [h3]

/-- **ismethod_pointer** — `importpath.(*Type).name`: the receiver is reported as `*Type` -/
theorem ismethod_pointer (pkg typ name : Text) (h1 : '.' ∉ typ) :
    isMethod (symbolNew pkg (.pointer typ) name) = some ('*' :: typ, name) := by
  have p1 : "(*".toList = ['(', '*'] := by decide
  have p2 : ").".toList = [')', '.'] := by decide
  have e : symbolNew pkg (.pointer typ) name = ⟨pkg, ('(' :: '*' :: (typ ++ [')'])) ++ '.' :: name⟩ := by
    simp [symbolNew, p1, p2]
  have hno : '.' ∉ ('(' :: '*' :: (typ ++ [')'])) := by
    intro h
    simp only [List.mem_cons, List.mem_append, List.not_mem_nil, or_false] at h
    rcases h with h | h | h | h
    · exact absurd h (by decide)
    · exact absurd h (by decide)
    · exact h1 h
    · exact absurd h (by decide)
  rw [e, isMethod_split pkg _ name hno]
  have hl2 : ('(' :: '*' :: (typ ++ [')'])).getLast? = some ')' := by
    rw [show ('(' :: '*' :: (typ ++ [')'])) = ('(' :: '*' :: typ) ++ [')'] by simp]
    exact List.getLast?_concat
  have hlen : ('(' :: '*' :: (typ ++ [')'])).length = typ.length + 3 := by simp
  rw [hl2, hlen]
  have hc : (Decidable.decide (typ.length + 3 > 2) && ('(' :: '*' :: (typ ++ [')'])).head? == some '(' && some ')' == some ')') = true := by
    simp
  rw [if_pos hc]
  have : (('(' :: '*' :: (typ ++ [')'])).drop 1).take (typ.length + 3 - 2) = '*' :: typ := by
    simp only [List.drop_succ_cons, List.drop_zero]
    rw [show ('*' :: (typ ++ [')'])) = ('*' :: typ) ++ [')'] by simp]
    exact List.take_left' (by simp)
  rw [this]

/-- **ismethod_func** — a plain function name is not a method -/
theorem ismethod_func (pkg name : Text) (h : '.' ∉ name) : isMethod (symbolNew pkg .none name) = none := by
  unfold isMethod symbolNew
  simp only []
  rw [indexOf_none '.' name h]

/-! ### resolution -/

/-- **linkname_resolves** — full strength: a function declared through go:linkname calls exactly the implementation
    it names, whether it is called from inside the declaring package or (an exported one) from another package.
    `huniq`: no other declaration of the program has the same symbol string (symbol names are unique, symbol.go). -/
theorem linkname_resolves (all : List Link) (decls : List Sym) (ref impl : Sym) (samePackage : Bool)
    (hf : findImplementation all ref = some impl) (hmem : impl ∈ decls)
    (huniq : ∀ d ∈ decls, d.str = impl.str → d = impl) :
    callTarget all decls ref samePackage = some impl := by
  unfold callTarget resolve
  simp only [hf]
  have himpl : isImplementation all impl = true := by
    unfold findImplementation at hf
    cases hfi : all.find? (fun l => l.reference == ref) with
    | none => simp [hfi] at hf
    | some l =>
      simp only [hfi, Option.map_some, Option.some.injEq] at hf
      unfold isImplementation
      rw [List.any_eq_true]
      exact ⟨l, List.mem_of_find?_eq_some hfi, by simp [hf]⟩
  have hin : impl ∈ decls.filter (isImplementation all) := by
    rw [List.mem_filter]; exact ⟨hmem, himpl⟩
  cases hres : (decls.filter (isImplementation all)).find? (fun d => d.str == impl.str) with
  | none =>
    have := List.find?_eq_none.mp hres impl hin
    simp at this
  | some d =>
    have hd := List.find?_some hres
    have hdm := List.mem_of_find?_eq_some hres
    rw [List.mem_filter] at hdm
    rw [huniq d hdm.1 (by simpa using hd)]

/-! ### errors of all files of a package -/

theorem parsePackage_foldl (fs : List FileResult) : ∀ (acc : FileResult),
    fs.foldl (fun acc f => (⟨acc.links ++ f.links, acc.errs ++ f.errs⟩ : FileResult)) acc
      = ⟨acc.links ++ fs.flatMap (·.links), acc.errs ++ fs.flatMap (·.errs)⟩ := by
  induction fs with
  | nil => intro acc; simp
  | cons f fs ih => intro acc; simp only [List.foldl_cons, ih, List.flatMap_cons, List.append_assoc]

/-- the accumulated error list is the concatenation of the per-file error lists, in processing order -/
theorem parsePackage_errs (fs : List FileResult) : (parsePackage fs).errs = fs.flatMap (·.errs) := by
  unfold parsePackage; rw [parsePackage_foldl]; simp

/-- **linkname_errors_any_file** — the package is rejected iff SOME file has an unsupported directive. -/
theorem linkname_errors_any_file (fs : List FileResult) :
    packageRejected fs = true ↔ ∃ f ∈ fs, f.errs ≠ [] := by
  unfold packageRejected
  rw [parsePackage_errs]
  simp only [Bool.not_eq_true', List.isEmpty_eq_false_iff, ne_eq, List.flatMap_eq_nil_iff]
  constructor
  · intro h
    apply Classical.byContradiction
    intro hn
    exact h (fun f hf => Classical.byContradiction fun hne => hn ⟨f, hf, hne⟩)
  · rintro ⟨f, hf, hne⟩ hall; exact hne (hall f hf)

/-- **linkname_errors_position_independent** — whether the package is rejected does not depend on the order in which
    its files are processed (on the position of the offending file in the file order): for every permutation. -/
theorem linkname_errors_position_independent (fs₁ fs₂ : List FileResult) (h : fs₁.Perm fs₂) :
    packageRejected fs₁ = packageRejected fs₂ := by
  rw [Bool.eq_iff_iff, linkname_errors_any_file, linkname_errors_any_file]
  exact ⟨fun ⟨f, hf, hne⟩ => ⟨f, h.subset hf, hne⟩, fun ⟨f, hf, hne⟩ => ⟨f, h.symm.subset hf, hne⟩⟩

/-- **linkname_errors_overwriting_counterexample** — the fold that overwrites the error per file (not the code) accepts
    a package whose offending file is not processed last, and its verdict depends on the file order. -/
theorem linkname_errors_overwriting_counterexample :
    let bad : FileResult := ⟨[], [.errNotFunc]⟩
    let clean : FileResult := ⟨[], []⟩
    (parsePackageOverwriting [bad, clean]).errs = [] ∧ (parsePackageOverwriting [clean, bad]).errs ≠ [] ∧
    packageRejected [bad, clean] = true ∧ packageRejected [clean, bad] = true := by
  decide

/-! ### `GoLinknameSet.Add` -/

/-- **linkset_add_no_conflict** — when no reference is named twice, `Add` records every directive in both maps and
    returns no error. -/
theorem linkset_add_no_conflict (es : List Link) : ∀ (s : LinkSet),
    (s.byReference ++ es).Pairwise (fun a b => a.reference ≠ b.reference) →
    s.add es = (⟨s.byImplementation ++ es, s.byReference ++ es⟩, false) := by
  induction es with
  | nil => intro s _; simp [LinkSet.add]
  | cons e es ih =>
    intro s h
    unfold LinkSet.add
    have hno : s.byReference.any (fun l => l.reference == e.reference) = false := by
      rw [List.any_eq_false]
      intro a ha
      have := (List.pairwise_append.mp h).2.2 a ha e List.mem_cons_self
      simpa using this
    simp only [hno, Bool.false_eq_true, if_false]
    have h' : ((s.byReference ++ [e]) ++ es).Pairwise (fun a b => a.reference ≠ b.reference) := by
      simpa using h
    have := ih ⟨s.byImplementation ++ [e], s.byReference ++ [e]⟩ h'
    simpa using this

/-- **program_linkset_no_conflict** — for a program in which every reference has one directive, the set the linker
    works with is simply the list of all directives in link order: this is what `resolve`/`findImplementation` take
    as `all`. -/
theorem program_linkset_no_conflict (pkgs : List (List Link))
    (h : pkgs.flatten.Pairwise (fun a b => a.reference ≠ b.reference)) :
    programLinkSet pkgs = ⟨pkgs.flatten, pkgs.flatten⟩ := by
  unfold programLinkSet
  suffices H : ∀ (s : LinkSet), (s.byReference ++ pkgs.flatten).Pairwise (fun a b => a.reference ≠ b.reference) →
      pkgs.foldl (fun s l => (s.add l).1) s = ⟨s.byImplementation ++ pkgs.flatten, s.byReference ++ pkgs.flatten⟩ by
    simpa using H ⟨[], []⟩ (by simpa using h)
  clear h
  induction pkgs with
  | nil => intro s _; simp
  | cons l ls ih =>
    intro s hs
    simp only [List.foldl_cons, List.flatten_cons]
    have h1 : (s.byReference ++ l).Pairwise (fun a b => a.reference ≠ b.reference) := by
      rw [List.flatten_cons, ← List.append_assoc] at hs
      exact (List.pairwise_append.mp hs).1
    rw [linkset_add_no_conflict l s h1]
    have h2 : ((s.byReference ++ l) ++ ls.flatten).Pairwise (fun a b => a.reference ≠ b.reference) := by
      simpa [List.flatten_cons] using hs
    have := ih ⟨s.byImplementation ++ l, s.byReference ++ l⟩ h2
    simpa using this

/-- **linkset_conflict_first_wins** — with a second directive for the same reference the FIRST one stays in force, an
    error is returned (which compiler.go:137 discards) and the remaining directives of that package are not recorded
    as references (tied to the real linker by a program in checks/c10.py). -/
theorem linkset_conflict_first_wins :
    let f : Sym := ⟨"m".toList, "f".toList⟩
    let g : Sym := ⟨"m".toList, "g".toList⟩
    let i1 : Sym := ⟨"m/lib".toList, "impl1".toList⟩
    let i2 : Sym := ⟨"m/lib".toList, "impl2".toList⟩
    let i3 : Sym := ⟨"m/lib".toList, "impl3".toList⟩
    (LinkSet.add ⟨[], []⟩ [⟨f, i1⟩, ⟨f, i2⟩, ⟨g, i3⟩]) = (⟨[⟨f, i1⟩, ⟨f, i2⟩], [⟨f, i1⟩]⟩, true) := by
  decide

/-! ### repaired defects (about the scheme BEFORE the two `fix:` patches fixes/C10-*.patch)

* Before "export bodyless go:linkname functions through $pkg" a cross-package call of an exported bodyless
  reference found `$pkg.<Name>` undefined. -/

/-- the old scheme: `$pkg.<Name>` was never assigned for a bodyless function -/
def callTargetBeforeFix (all : List Link) (decls : List Sym) (ref : Sym) (samePackage : Bool) : Option Sym :=
  if samePackage then resolve all decls ref else none

theorem old_scheme_exported_counterexample :
    callTargetBeforeFix [⟨⟨"m/pa".toList, "Rev".toList⟩, ⟨"m/pb".toList, "revimpl".toList⟩⟩]
      [⟨"m/pb".toList, "revimpl".toList⟩] ⟨"m/pa".toList, "Rev".toList⟩ false = none := by decide

/-- Before "accept the gc spelling of escaped import paths" the package part was not unescaped: the raw split of the
    gc spelling names the non-existent package `m/pk%2ev2`, and the plain spelling is cut at the wrong dot. -/
theorem old_scheme_dotted_counterexample :
    splitExt "m/pk%2ev2.impl".toList = ("m/pk%2ev2".toList, "impl".toList) ∧
    splitExt "gopkg.in/yaml.v2.F".toList = ("gopkg.in/yaml".toList, "v2.F".toList) := by decide

/-- the hypotheses of `linkname_resolves` are satisfiable by a non-trivial program -/
example : callTarget
    [⟨⟨"m/pa".toList, "ref".toList⟩, ⟨"m/x.y/pb".toList, "(*T).m".toList⟩⟩]
    [⟨"m/pa".toList, "ref".toList⟩, ⟨"m/x.y/pb".toList, "(*T).m".toList⟩]
    ⟨"m/pa".toList, "ref".toList⟩ false = some ⟨"m/x.y/pb".toList, "(*T).m".toList⟩ := by decide

end GV.Props.C10
