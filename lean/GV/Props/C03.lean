import GV.Model.Sched
import GV.Spec.GoChanRefine
import GV.Proofs.ChanInv
import GV.Model.SchedInv
/-
  GV.Props.C03 — channels, select and the goroutine scheduler (compiler/prelude/goroutines.js).

  All theorems quantify over ARBITRARY event sequences `evs` run from the initial runtime state
  (any number of goroutines, channels, capacities and steps; every nondeterministic choice is part of the events).

  Proved at full strength: `chan_shape`, `fifo_conservation`, `select_choice_ready`, `pick_in_range`.
  False of the current code, negation proved with a concrete witness + strongest partial statement:
  `close_semantics` (select-send entry throws inside `$close`), `nil_never_proceeds` (`close(nil)` marks
  `$chanNil` closed), `chan_shape_design` (the design's "recvQ ≠ [] → sendQ = []" is too strong: one select may
  queue a receive and a send entry on the same channel).
  Stated, NOT proved (kept as `def … : Prop`, validated at run time on every state the correspondence visits by the
  executable `globalInv`): `no_lost_wakeup`, `awake_count`, `refines_go`.
-/
namespace GV.Props.C03
open GV.Chan GV.Sched GV.Proofs.ChanInv GV.SchedInv

def reach (evs : List Event) : State := runAll GV.Sched.init evs

/-! ## queue shape -/

/-- buffer bounded by the capacity; queued receivers only on an empty buffer; queued senders only on a full
    buffer; the nil channel never holds anything. -/
theorem chan_shape (evs : List Event) : ∀ ch ∈ (reach evs).chans,
    ch.buf.length ≤ ch.cap ∧ (ch.recvQ ≠ [] → ch.buf = []) ∧ (ch.sendQ ≠ [] → ch.buf.length = ch.cap) ∧
    (ch.isNil = true → ch.sendQ = [] ∧ ch.recvQ = [] ∧ ch.buf = []) := by
  intro ch hm
  have h := allInv_mem (runAll_inv evs _ init_inv) hm
  refine ⟨h.buf_le, h.recv_buf, fun hs => Nat.le_antisymm h.buf_le (h.send_full hs), fun hn => ?_⟩
  have := h.nil_empty hn
  exact ⟨this.1, this.2.1, this.2.2.1⟩

/-- the design's stronger clause (a channel never has queued receivers and queued senders at once) -/
def chan_shape_design : Prop := ∀ evs : List Event, ∀ ch ∈ (reach evs).chans, ch.recvQ ≠ [] → ch.sendQ = []

/-- `select { case <-c: case c <- 1: }` on an unbuffered channel queues both entries (harmless: they belong
    to the same goroutine and are removed together) -/
theorem chan_shape_design_counterexample : ¬ chan_shape_design := by
  intro h
  have := h [.spawn, .makechan 0, .select [.recv 1, .send 1 1] 0]
  revert this; decide

/-! ## FIFO conservation -/

/-- For every channel: (values handed to receivers so far) ++ (buffer) = the values that entered the channel
    (pushed by `$send`, handed to a queued receiver, or pulled from the head of the sender queue), in order:
    nothing lost, duplicated or reordered. For an unbuffered channel the buffer is empty, so every value that
    entered has been received: sends complete only by hand-off. -/
theorem fifo_conservation (evs : List Event) : ∀ ch ∈ (reach evs).chans,
    ch.hRecv ++ ch.buf = ch.hCommit ∧ (ch.cap = 0 → ch.hRecv = ch.hCommit) := by
  intro ch hm
  have h := allInv_mem (runAll_inv evs _ init_inv) hm
  refine ⟨h.fifo, fun h0 => ?_⟩
  have hb : ch.buf = [] := List.eq_nil_of_length_eq_zero (Nat.le_zero.mp (h0 ▸ h.buf_le))
  have := h.fifo; rw [hb, List.append_nil] at this; exact this

/-! ## select -/

/-- a communication clause that can proceed in state `s` (goroutines.js:314, 322) -/
def caseReady (s : State) : Case → Prop
  | .dflt => False
  | .recv c => (getC s c).recvReady = true
  | .send c _ => (getC s c).sendReady = true

theorem scan_ready_sound (s : State) (cases : List Case) : ∀ (i : Nat), ∀ j ∈ (scan s cases i).1,
    ∃ k, j = i + k ∧ k < cases.length ∧ caseReady s (cases.getD k .dflt) := by
  induction cases with
  | nil => intro i j hj; simp [scan] at hj
  | cons c rest ih =>
    intro i j hj
    have lift : j ∈ (scan s rest (i + 1)).1 → ∃ k, j = i + k ∧ k < (c :: rest).length ∧ caseReady s ((c :: rest).getD k .dflt) := by
      intro hj'
      obtain ⟨k, h1, h2, h3⟩ := ih (i + 1) j hj'
      exact ⟨k + 1, by omega, by simp; omega, by simpa using h3⟩
    unfold scan at hj
    generalize hr : scan s rest (i + 1) = r at hj lift
    obtain ⟨rd, dsel, thr⟩ := r
    cases c with
    | dflt => simp only at hj; exact lift hj
    | recv c' =>
      simp only at hj
      split at hj
      · next hrd =>
        rcases List.mem_cons.mp hj with h | h
        · exact ⟨0, by omega, by simp, by simpa [caseReady] using hrd⟩
        · exact lift h
      · exact lift hj
    | send c' v =>
      simp only at hj
      split at hj
      · exact lift hj
      · simp only at hj
        split at hj
        · next hrd =>
          rcases List.mem_cons.mp hj with h | h
          · exact ⟨0, by omega, by simp, by simpa [caseReady] using hrd⟩
          · exact lift h
        · exact lift hj

theorem pick_in_range (pick len : Nat) (h : 0 < len) : pickIndex pick len < len := by
  unfold pickIndex
  have : 2 * (pick % 12) + 1 < 24 := by omega
  apply Nat.div_lt_of_lt_mul
  calc (2 * (pick % 12) + 1) * len < 24 * len := Nat.mul_lt_mul_of_pos_right this h

/-- `select_choice ⊆ ready`: whatever `Math.random` returns, the case `$select` runs is one whose communication
    can proceed, and it is an index of the clause list. -/
theorem select_choice_ready (s : State) (cases : List Case) (pick : Nat) :
    let ready := (scan s cases 0).1
    ready ≠ [] →
      let i := ready.getD (pickIndex pick ready.length) 0
      i ∈ ready ∧ i < cases.length ∧ caseReady s (cases.getD i .dflt) := by
  intro ready hne
  have hlen : 0 < ready.length := List.length_pos_iff.mpr hne
  have hlt := pick_in_range pick ready.length hlen
  have hmem : ready.getD (pickIndex pick ready.length) 0 ∈ ready := by
    rw [List.getD_eq_getElem?_getD, List.getElem?_eq_getElem hlt]; simp
  obtain ⟨k, h1, h2, h3⟩ := scan_ready_sound s cases 0 _ hmem
  have hk : ready.getD (pickIndex pick ready.length) 0 = k := by omega
  exact ⟨hmem, by omega, by rw [hk]; exact h3⟩

/-! ## close -/

/-- what Go demands of `close(c)` executed by the running goroutine on an open, non-nil channel: the closer
    proceeds, the channel is closed and nobody stays queued on it. -/
def CloseOK (s : State) (c : Nat) : Prop :=
  (step s (.close c)).2 = .ok ∧ (getC (step s (.close c)).1 c).closed = true ∧
  (getC (step s (.close c)).1 c).sendQ = [] ∧ (getC (step s (.close c)).1 c).recvQ = []

def close_semantics : Prop := ∀ (evs : List Event) (c : Nat),
  (reach evs).cur ≠ none → c < (reach evs).chans.length → (getC (reach evs) c).isNil = false →
  (getC (reach evs) c).closed = false → CloseOK (reach evs) c

/-- the 3-event witness (after the set-up `go; make(chan,0); go`): g0 blocks in `select { case c <- 5: case <-nil: }`,
    the scheduler runs g1, g1 closes c — the CLOSER gets "send on closed channel". -/
theorem close_semantics_counterexample : ¬ close_semantics := by
  intro h
  have := h [.spawn, .makechan 0, .spawn, .select [.send 1 5, .recv 0] 0, .next] 1 (by decide) (by decide) (by decide) (by decide)
  revert this; unfold CloseOK; decide

/-- no `$select` send entry is queued on channel `c` -/
abbrev NoSelectSend (s : State) (c : Nat) : Prop := ∀ e ∈ (getC s c).sendQ, e.sel = none

theorem closeSenders_plain : ∀ (n : Nat) (s : State) (c : Nat), c < s.chans.length →
    (∀ e ∈ (getC s c).sendQ, e.sel = none) → (getC s c).sendQ.length ≤ n →
    (closeSenders n s c).2 = false ∧ (getC (closeSenders n s c).1 c).sendQ = [] ∧
    (getC (closeSenders n s c).1 c).closed = (getC s c).closed ∧
    (closeSenders n s c).1.chans.length = s.chans.length := by
  intro n; induction n with
  | zero =>
    intro s c _ _ hl
    unfold closeSenders
    exact ⟨rfl, List.eq_nil_of_length_eq_zero (Nat.le_zero.mp hl), rfl, rfl⟩
  | succ n ih =>
    intro s c hc hp hl
    unfold closeSenders; simp only
    split
    · next heq => exact ⟨rfl, heq, rfl, rfl⟩
    · next e sq heq =>
      have he : e.sel = none := hp e (by rw [heq]; simp)
      have hf : fireSend (setC s c { getC s c with sendQ := sq }) c e true
          = some (schedule (setG (setC s c { getC s c with sendQ := sq }) e.gid
              { getG (setC s c { getC s c with sendQ := sq }) e.gid with wake := .sent true }) e.gid) := by
        unfold fireSend; simp only [he]
      rw [hf]; simp only
      have hch : ∀ x : State, x.chans = (setC s c { getC s c with sendQ := sq }).chans →
          getC x c = { getC s c with sendQ := sq } := by
        intro x hx; simp [getC_def, hx, hc]
      have hx := hch _ (by simp : (schedule (setG (setC s c { getC s c with sendQ := sq }) e.gid
              { getG (setC s c { getC s c with sendQ := sq }) e.gid with wake := .sent true }) e.gid).chans = _)
      have := ih (schedule (setG (setC s c { getC s c with sendQ := sq }) e.gid
              { getG (setC s c { getC s c with sendQ := sq }) e.gid with wake := .sent true }) e.gid) c
        (by simp; exact hc)
        (by rw [hx]; intro e' he'; exact hp e' (by rw [heq]; simp [he']))
        (by rw [hx]; rw [heq] at hl; simp at hl ⊢; omega)
      rw [hx] at this
      refine ⟨this.1, this.2.1, this.2.2.1, ?_⟩
      rw [this.2.2.2]; simp

theorem closeRecvs_empties : ∀ (n : Nat) (s : State) (c : Nat), (getC s c).recvQ.length ≤ n →
    (getC (closeRecvs n s c) c).recvQ = [] := by
  intro n; induction n with
  | zero => intro s c hl; simp only [closeRecvs]; exact List.eq_nil_of_length_eq_zero (Nat.le_zero.mp hl)
  | succ n ih =>
    intro s c hl
    unfold closeRecvs; simp only
    split
    · next heq => exact heq
    · next e rq heq =>
      apply ih
      have hc : c < s.chans.length := by
        apply Decidable.byContradiction; intro hn
        have : getC s c = Chan.nil := by
          simp [getC_def, List.getD_eq_getElem?_getD, List.getElem?_eq_none (Nat.le_of_not_lt hn)]
        rw [this] at heq; cases heq
      have hg : getC (setC s c { getC s c with recvQ := rq }) c = { getC s c with recvQ := rq } := by
        simp [getC_def, hc]
      have h1 := (fireRecv_shrinks (setC s c { getC s c with recvQ := rq }) e 0 false c).recvQ.length_le
      rw [← getC_def, ← getC_def, hg] at h1
      dsimp only at h1
      rw [heq] at hl; simp at hl; omega

theorem closeRecvs_keeps (n : Nat) (s : State) (c : Nat) :
    (getC (closeRecvs n s c) c).sendQ.length ≤ (getC s c).sendQ.length := by
  have := (closeRecvs_shrinks n s c c).sendQ.length_le
  simpa [getC_def] using this

/-- **close_semantics_partial**: for every history, closing an open non-nil channel on which no `$select` send
    entry is queued lets the closer proceed, marks the channel closed and leaves nobody queued on it. -/
theorem close_semantics_partial (evs : List Event) (c : Nat)
    (hcur : (reach evs).cur ≠ none) (hc : c < (reach evs).chans.length)
    (hopen : (getC (reach evs) c).closed = false) (hsel : NoSelectSend (reach evs) c) :
    CloseOK (reach evs) c := by
  generalize reach evs = s at *
  unfold CloseOK step
  cases hcu : s.cur with
  | none => exact absurd hcu hcur
  | some g =>
    simp only [validChan, hc, decide_true, if_true]
    unfold doClose; simp only [hopen]
    have hlen : c < (setC s c { getC s c with closed := true }).chans.length := by simp; exact hc
    have hg : getC (setC s c { getC s c with closed := true }) c = { getC s c with closed := true } := by
      simp [getC_def, hc]
    have := closeSenders_plain (getC s c).sendQ.length (setC s c { getC s c with closed := true }) c hlen
      (by rw [hg]; exact hsel) (by rw [hg]; exact Nat.le_refl _)
    generalize hcs : closeSenders (getC s c).sendQ.length (setC s c { getC s c with closed := true }) c = r at this
    obtain ⟨s2, thr⟩ := r
    simp only at this
    obtain ⟨h1, h2, h3, _⟩ := this
    subst h1
    simp only [Bool.false_eq_true, if_false]
    refine ⟨trivial, ?_, ?_, closeRecvs_empties _ _ _ (Nat.le_refl _)⟩
    · have := (closeRecvs_shrinks (getC s2 c).recvQ.length s2 c c).closedMono
      rw [hg] at h3
      exact this h3
    · have := closeRecvs_keeps (getC s2 c).recvQ.length s2 c
      rw [h2] at this; exact List.eq_nil_of_length_eq_zero (Nat.le_zero.mp this)

/-- the hypotheses of `close_semantics_partial` are satisfiable by a non-trivial state: two plain senders and
    then a closer on an unbuffered channel -/
example : ∃ evs c, (reach evs).cur ≠ none ∧ c < (reach evs).chans.length ∧ (getC (reach evs) c).closed = false ∧
    NoSelectSend (reach evs) c ∧ (getC (reach evs) c).sendQ.length = 2 :=
  ⟨[.spawn, .makechan 0, .spawn, .spawn, .send 1 7, .next, .send 1 8, .next], 1, by decide, by decide, by decide, by decide, by decide⟩

/-! ## nil channels -/

/-- operations on a nil channel never proceed: the goroutine blocks -/
def nil_never_proceeds : Prop := ∀ (evs : List Event) (c v : Nat),
  (reach evs).cur ≠ none → c < (reach evs).chans.length → (getC (reach evs) c).isNil = true →
  (step (reach evs) (.recv c)).2 = .blocked ∧ (step (reach evs) (.send c v)).2 = .blocked

/-- `close(nil)` does not panic and marks the shared `$chanNil` closed: the next receive on a nil channel proceeds
    (into a TypeError) -/
theorem nil_never_proceeds_counterexample : ¬ nil_never_proceeds := by
  intro h
  have := h [.spawn, .close 0] 0 1 (by decide) (by decide) (by decide)
  revert this; decide

/-- **nil_never_proceeds_partial**: in every history in which the nil channel object has not been closed,
    receive and send on a nil channel block (and, by `chan_shape`, leave no queue entry: they can never be woken). -/
theorem nil_never_proceeds_partial (evs : List Event) (c v : Nat)
    (hcur : (reach evs).cur ≠ none) (hc : c < (reach evs).chans.length) (hnil : (getC (reach evs) c).isNil = true)
    (hopen : (getC (reach evs) c).closed = false) :
    (step (reach evs) (.recv c)).2 = .blocked ∧ (step (reach evs) (.send c v)).2 = .blocked := by
  have hinv : ChanInv (getC (reach evs) c) := runAll_inv evs _ init_inv c
  generalize reach evs = s at *
  have hq := hinv.nil_empty hnil
  unfold step
  cases hcu : s.cur with
  | none => exact absurd hcu hcur
  | some g =>
    simp only [validChan, hc, decide_true, if_true]
    constructor
    · unfold doRecv; simp only [hq.1]
      unfold recvTail; simp only [hq.2.2.1, hopen]; simp
    · unfold doSend; simp only [hopen, hq.2.1, hq.2.2.1, hq.2.2.2]; simp

example : ∃ evs, (reach evs).cur ≠ none ∧ (getC (reach evs) 0).isNil = true ∧ (getC (reach evs) 0).closed = false :=
  ⟨[.spawn, .makechan 1, .send 1 3], by decide, by decide, by decide⟩

/-! ## stated, not proved (validated on every visited state by the correspondence run, see `globalInv`) -/

/-- no_lost_wakeup (bookkeeping half) — NOT proved; checked on every state visited by the correspondence runs -/
def no_lost_wakeup : Prop := ∀ evs : List Event, entriesOwned (reach evs) = true ∧ schedOK (reach evs) = true
/-- awake_count — NOT proved; checked on every state visited by the correspondence runs -/
def awake_count : Prop := ∀ evs : List Event, countersOK (reach evs) = true
/-- refines_go — NOT proved: every step of the model is a step of GV.Spec.GoChan unless one of the two recorded
    defects fires; `GV.Spec.GoChanRefine.verdict` decides it per step and is evaluated on every step the
    correspondence runs execute -/
def refines_go : Prop := ∀ (evs : List Event) (ev : Event),
  (∀ c, ev = .close c → NoSelectSend (reach evs) c ∧ (getC (reach evs) c).isNil = false) →
  (getC (reach evs) 0).closed = false →
  GV.Spec.GoChanRefine.verdict (reach evs) ev (step (reach evs) ev).2 (step (reach evs) ev).1 = none

/-- the invariants hold on a non-trivial reachable state (blocked select with two entries, a runnable goroutine) -/
example : globalInv (reach [.spawn, .makechan 0, .spawn, .select [.send 1 5, .recv 1] 0]) = true := by decide

end GV.Props.C03
