import GV.Model.Sched
import GV.Spec.GoChanRefine
import GV.Proofs.ChanInv
import GV.Model.SchedInv
import GV.Proofs.SchedInv
import GV.Proofs.SchedLive
/-
  GV.Props.C03 — channels, select and the goroutine scheduler (compiler/prelude/goroutines.js, with the two
  round-2 repairs: the `$select` send entry takes `closed`; `close(nil)` panics).

  All theorems quantify over ARBITRARY event sequences `evs` run from the initial runtime state
  (any number of goroutines, channels, capacities and steps; every nondeterministic choice is part of the events).

  Proved at full strength: `chan_shape`, `fifo_conservation`, `select_choice_ready`, `select_default`,
  `close_semantics` (incl. the wake results), `nil_never_proceeds`, `no_lost_wakeup` (queue entries ↔ sleeping
  goroutines, run queue), `awake_count`, `deadlock_report_iff`.
  `chan_shape_design` (the design's "recvQ ≠ [] → sendQ = []") is too strong — counterexample proved.
  `blocked_not_possible` (liveness half of no_lost_wakeup: a sleeping goroutine's operation is not currently possible).
  Stated, NOT proved: `refines_go` (decided per step by `GV.Spec.GoChanRefine.verdict` on every step the
  correspondence executes).
-/
namespace GV.Props.C03
open GV.Chan GV.Sched GV.Proofs.ChanInv GV.SchedInv GV.Proofs.SchedInv GV.Proofs.SchedLive

def reach (evs : List Event) : State := runAll GV.Sched.init evs

/-! ## queue shape -/

/-- buffer bounded by the capacity; queued receivers only on an empty buffer; queued senders only on a full
    buffer; a closed channel has no queued goroutine; the nil channel never holds anything and is never closed. -/
theorem chan_shape (evs : List Event) : ∀ ch ∈ (reach evs).chans,
    ch.buf.length ≤ ch.cap ∧ (ch.recvQ ≠ [] → ch.buf = []) ∧ (ch.sendQ ≠ [] → ch.buf.length = ch.cap) ∧
    (ch.closed = true → ch.sendQ = [] ∧ ch.recvQ = []) ∧
    (ch.isNil = true → ch.sendQ = [] ∧ ch.recvQ = [] ∧ ch.buf = [] ∧ ch.closed = false) := by
  intro ch hm
  have h := allInv_mem (runAll_inv evs _ init_inv) hm
  have hce : CE ch := allCE_mem (runAll_ce evs _ init_ce) hm
  refine ⟨h.buf_le, h.recv_buf, fun hs => Nat.le_antisymm h.buf_le (h.send_full hs), hce, fun hn => ?_⟩
  have := h.nil_empty hn
  exact ⟨this.1, this.2.1, this.2.2.1, h.nil_open hn⟩

/-- the design's stronger clause (a channel never has queued receivers and queued senders at once) -/
def chan_shape_design : Prop := ∀ evs : List Event, ∀ ch ∈ (reach evs).chans, ch.recvQ ≠ [] → ch.sendQ = []

/-- `select { case <-c: case c <- 1: }` on an unbuffered channel queues both entries (harmless: they belong
    to the same goroutine and are removed together) -/
theorem chan_shape_design_counterexample : ¬ chan_shape_design := by
  intro h
  have := h [.spawn, .makechan 0, .select [.recv 1, .send 1 1] 0]
  revert this; decide

/-! ## FIFO conservation -/

/-- For every channel: (values handed to receivers so far) ++ (buffer) = the values that entered the channel
    (pushed by `$send`, handed to a queued receiver, or pulled from the head of the sender queue), in order:
    nothing lost, duplicated or reordered. For an unbuffered channel the buffer is empty, so every value that
    entered has been received: sends complete only by hand-off. -/
theorem fifo_conservation (evs : List Event) : ∀ ch ∈ (reach evs).chans,
    ch.hRecv ++ ch.buf = ch.hCommit ∧ (ch.cap = 0 → ch.hRecv = ch.hCommit) := by
  intro ch hm
  have h := allInv_mem (runAll_inv evs _ init_inv) hm
  refine ⟨h.fifo, fun h0 => ?_⟩
  have hb : ch.buf = [] := List.eq_nil_of_length_eq_zero (Nat.le_zero.mp (h0 ▸ h.buf_le))
  have := h.fifo; rw [hb, List.append_nil] at this; exact this

/-! ## select -/

/-- a communication clause that can proceed in state `s` (goroutines.js:314, 322) -/
def caseReady (s : State) : Case → Prop
  | .dflt => False
  | .recv c => (getC s c).recvReady = true
  | .send c _ => (getC s c).sendReady = true

theorem scan_ready_sound (s : State) (cases : List Case) : ∀ (i : Nat), ∀ j ∈ (scan s cases i).1,
    ∃ k, j = i + k ∧ k < cases.length ∧ caseReady s (cases.getD k .dflt) := by
  induction cases with
  | nil => intro i j hj; simp [scan] at hj
  | cons c rest ih =>
    intro i j hj
    have lift : j ∈ (scan s rest (i + 1)).1 → ∃ k, j = i + k ∧ k < (c :: rest).length ∧ caseReady s ((c :: rest).getD k .dflt) := by
      intro hj'
      obtain ⟨k, h1, h2, h3⟩ := ih (i + 1) j hj'
      exact ⟨k + 1, by omega, by simp; omega, by simpa using h3⟩
    unfold scan at hj
    generalize hr : scan s rest (i + 1) = r at hj lift
    obtain ⟨rd, dsel, thr⟩ := r
    cases c with
    | dflt => simp only at hj; exact lift hj
    | recv c' =>
      simp only at hj
      split at hj
      · next hrd =>
        rcases List.mem_cons.mp hj with h | h
        · exact ⟨0, by omega, by simp, by simpa [caseReady] using hrd⟩
        · exact lift h
      · exact lift hj
    | send c' v =>
      simp only at hj
      split at hj
      · exact lift hj
      · simp only at hj
        split at hj
        · next hrd =>
          rcases List.mem_cons.mp hj with h | h
          · exact ⟨0, by omega, by simp, by simpa [caseReady] using hrd⟩
          · exact lift h
        · exact lift hj

theorem pick_in_range (pick len : Nat) (h : 0 < len) : pickIndex pick len < len := by
  unfold pickIndex
  have : 2 * (pick % 12) + 1 < 24 := by omega
  apply Nat.div_lt_of_lt_mul
  calc (2 * (pick % 12) + 1) * len < 24 * len := Nat.mul_lt_mul_of_pos_right this h

/-- `select_choice ⊆ ready`: whatever `Math.random` returns, the case `$select` runs is one whose communication
    can proceed, and it is an index of the clause list. -/
theorem select_choice_ready (s : State) (cases : List Case) (pick : Nat) :
    let ready := (scan s cases 0).1
    ready ≠ [] →
      let i := ready.getD (pickIndex pick ready.length) 0
      i ∈ ready ∧ i < cases.length ∧ caseReady s (cases.getD i .dflt) := by
  intro ready hne
  have hlen : 0 < ready.length := List.length_pos_iff.mpr hne
  have hlt := pick_in_range pick ready.length hlen
  have hmem : ready.getD (pickIndex pick ready.length) 0 ∈ ready := by
    rw [List.getD_eq_getElem?_getD, List.getElem?_eq_getElem hlt]; simp
  obtain ⟨k, h1, h2, h3⟩ := scan_ready_sound s cases 0 _ hmem
  have hk : ready.getD (pickIndex pick ready.length) 0 = k := by omega
  exact ⟨hmem, by omega, by rw [hk]; exact h3⟩

/-- the default index reported by the scan is a default clause -/
theorem scan_default (s : State) (cases : List Case) : ∀ (i0 i : Nat), (scan s cases i0).2.1 = some i →
    i0 ≤ i ∧ cases.getD (i - i0) .dflt = .dflt := by
  induction cases with
  | nil => intro i0 i h; simp [scan] at h
  | cons c rest ih =>
    intro i0 i h
    unfold scan at h
    generalize hr : scan s rest (i0 + 1) = r at h
    obtain ⟨rd, dsel, thr⟩ := r
    have lift : dsel = some i → i0 ≤ i ∧ (c :: rest).getD (i - i0) .dflt = .dflt := by
      intro hd
      have := ih (i0 + 1) i (by rw [hr]; exact hd)
      refine ⟨by omega, ?_⟩
      have e : i - i0 = (i - (i0 + 1)) + 1 := by omega
      rw [e]; simpa using this.2
    cases c with
    | dflt =>
      simp only at h
      cases dsel with
      | none => simp only [Option.some.injEq] at h; subst h; simp
      | some j => exact lift (by simpa using h)
    | recv c' => simp only at h; exact lift h
    | send c' v =>
      simp only at h
      split at h
      · exact lift h
      · exact lift h

/-- `select_default`: with no ready case the default clause is taken without touching the state; with no ready
    case and no default the goroutine blocks; with a ready case the default is never taken
    (`select_choice_ready`: the chosen clause is a ready communication). -/
theorem select_default (s : State) (g : Nat) (cases : List Case) (pick : Nat)
    (hready : (scan s cases 0).1 = []) (hthr : (scan s cases 0).2.2 = false) :
    (∀ i, (scan s cases 0).2.1 = some i → cases.getD i .dflt = .dflt ∧ doSelect s g cases pick = (s, .selected i none)) ∧
    ((scan s cases 0).2.1 = none → (doSelect s g cases pick).2 = .blocked) := by
  have hdef := scan_default s cases 0
  unfold doSelect
  generalize scan s cases 0 = r at hready hthr hdef
  obtain ⟨ready, dsel, thr⟩ := r
  simp only at hready hthr
  subst hready; subst hthr
  constructor
  · intro i hi
    simp only at hi; subst hi
    have hd : cases.getD i .dflt = .dflt := by simpa using (hdef i rfl).2
    refine ⟨hd, ?_⟩
    have hd' : cases[i]?.getD Case.dflt = Case.dflt := by simpa [List.getD_eq_getElem?_getD] using hd
    simp [hd']
  · intro hn
    simp only at hn; subst hn
    simp

/-! ## sent values are snapshots -/

/-- a receive that meets a queued sender on an empty buffer (rendezvous, or the hand-over of a blocked select
    send) gets exactly the value stored in that queue entry -/
theorem recv_delivers_queued_value (s : State) (g c : Nat) (e : Entry) (sq : List Entry) (hc : c < s.chans.length)
    (hq : (getC s c).sendQ = e :: sq) (hb : (getC s c).buf = []) : (doRecv s g c).2 = .recvd e.val true := by
  unfold doRecv; simp only
  split
  · next e' sq' heq =>
    rw [hq] at heq
    obtain ⟨h1, h2⟩ := List.cons.inj heq
    subst h1; subst h2
    have hsh := fireSend_shrinks (setC s c { getC s c with sendQ := sq }) e false c
    have hfr := (fireSend_frame s c { getC s c with sendQ := sq } rfl e false).1 c hc
    have hg : getC (setC s c { getC s c with sendQ := sq }) c = { getC s c with sendQ := sq } := by simp [getC_def, hc]
    rw [← getC_def, ← getC_def, hg] at hsh
    generalize fireSend (setC s c { getC s c with sendQ := sq }) e false = s1 at hsh hfr ⊢
    have hbuf : (getC s1 c).buf = [] := by rw [hsh.buf]; exact hb
    unfold recvTail; simp only
    have hg1 : getC (setC s1 c { getC s1 c with buf := (getC s1 c).buf ++ [e.val], hCommit := (getC s1 c).hCommit ++ [e.val] }) c
        = { getC s1 c with buf := (getC s1 c).buf ++ [e.val], hCommit := (getC s1 c).hCommit ++ [e.val] } := by
      simp [getC_def, hfr.1]
    rw [hg1]; simp [hbuf]
  · next heq => rw [hq] at heq; cases heq

/-- **send_value_snapshot**: the channel machinery stores VALUES. In every history, every queued send entry —
    plain or select case — carries exactly the value of the send operation its goroutine is suspended in (the
    operation is fixed while the goroutine sleeps), a receiver that takes a queued sender's value gets exactly that
    value (`recv_delivers_queued_value`), and what receivers got plus what is buffered is exactly what was committed
    (`fifo_conservation`). Values of the model are immutable, so nothing the sender does after initiating a send can
    change what is delivered. What this does NOT cover: that the COMPILER hands `$send` / `$select` a private copy
    of a struct or array value — that is the structure tie `compiled-send-clone` and the snapshot programs of the check. -/
theorem send_value_snapshot (evs : List Event) :
    (∀ k e, e ∈ (getC (reach evs) k).sendQ →
      match e.sel, (getG (reach evs) e.gid).blocked with
      | none, some (.send c v) => c = k ∧ v = e.val
      | some i, some (.select cs) => cs.getD i .dflt = .send k e.val
      | _, _ => False) ∧
    (∀ ch ∈ (reach evs).chans, ch.hRecv ++ ch.buf = ch.hCommit) := by
  have h : GInv (reach evs) := runAll_ginv evs _ init_ginv
  refine ⟨?_, fun ch hm => (fifo_conservation evs ch hm).1⟩
  generalize reach evs = s at *
  intro k e he
  have hm := (h.own k true e (by rw [ents_send]; exact he)).mtch
  cases hs : e.sel <;> cases hb : (getG s e.gid).blocked with
  | none => simp [Match, hs, hb] at hm
  | some b =>
    cases b <;> simp [Match, hs, hb, caseOf] at hm ⊢ <;> first | exact hm | exact ⟨hm.1, hm.2⟩

/-! ## close -/

/-- **close_semantics** (full strength, repaired runtime): for every history, `close(c)` by the running goroutine on
    an open non-nil channel lets the closer proceed, closes the channel, leaves nobody queued on it, makes every
    queued receiver runnable with (zero,false) and every queued sender — plain or select case — runnable with the
    "send on closed channel" panic pending in ITS OWN goroutine; goroutines that were awake are untouched. -/
theorem close_semantics (evs : List Event) (c : Nat)
    (hcur : (reach evs).cur ≠ none) (hc : c < (reach evs).chans.length)
    (hnn : (getC (reach evs) c).isNil = false) (hopen : (getC (reach evs) c).closed = false) :
    (step (reach evs) (.close c)).2 = .ok ∧ CloseSpec (reach evs) (step (reach evs) (.close c)).1 c := by
  have hg : GInv (reach evs) := runAll_ginv evs _ init_ginv
  generalize reach evs = s at *
  unfold step
  cases hcu : s.cur with
  | none => exact absurd hcu hcur
  | some g =>
    simp only [validChan, hc, decide_true, if_true]
    exact doClose_spec s c hg hc hnn hopen

/-- later sends on a closed channel panic, later receives drain the buffer and then yield (zero,false) -/
theorem closed_later_ops (s : State) (g c v : Nat) (hcl : (getC s c).closed = true) (hq : (getC s c).sendQ = [])
    (hnn : (getC s c).isNil = false) :
    doSend s g c v = (s, .panic .sendClosed) ∧
    ((getC s c).buf = [] → doRecv s g c = (s, .recvd 0 false)) ∧
    (∀ x b, (getC s c).buf = x :: b → (doRecv s g c).2 = .recvd x true) := by
  refine ⟨by unfold doSend; simp [hcl], ?_, ?_⟩
  · intro hb; unfold doRecv recvTail; simp [hq, hb, hcl, hnn]
  · intro x b hb; unfold doRecv recvTail; simp [hq, hb]

/-! ## nil channels -/

/-- **nil_never_proceeds** (full strength, repaired runtime): in every history, receive and send on a nil channel
    block (and by `chan_shape` leave no queue entry, so nothing can ever wake them), `close` panics with
    "close of nil channel" without changing anything, and the nil channel object is never closed. -/
theorem nil_never_proceeds (evs : List Event) (c v : Nat)
    (hcur : (reach evs).cur ≠ none) (hc : c < (reach evs).chans.length) (hnil : (getC (reach evs) c).isNil = true) :
    (step (reach evs) (.recv c)).2 = .blocked ∧ (step (reach evs) (.send c v)).2 = .blocked ∧
    step (reach evs) (.close c) = (reach evs, .panic .closeNil) ∧
    (getC (reach evs) c).recvReady = false ∧ (getC (reach evs) c).sendReady = false := by
  have hinv : ChanInv (getC (reach evs) c) := runAll_inv evs _ init_inv c
  generalize reach evs = s at *
  have hq := hinv.nil_empty hnil
  have hopen := hinv.nil_open hnil
  unfold step
  cases hcu : s.cur with
  | none => exact absurd hcu hcur
  | some g =>
    simp only [validChan, hc, decide_true, if_true]
    refine ⟨?_, ?_, ?_, ?_, ?_⟩
    · unfold doRecv; simp only [hq.1]
      unfold recvTail; simp only [hq.2.2.1, hopen]; simp
    · unfold doSend; simp only [hopen, hq.2.1, hq.2.2.1, hq.2.2.2]; simp
    · unfold doClose; simp [hnil]
    · simp [Chan.recvReady, hq.1, hq.2.2.1, hopen]
    · simp [Chan.sendReady, hq.2.1, hq.2.2.1, hq.2.2.2]

/-! ## wake-up bookkeeping and liveness counters -/

/-- **no_lost_wakeup** (bookkeeping): in every history, every queue entry belongs to a goroutine of the table
    that is asleep, has not exited, and is suspended in exactly the operation (plain send/receive on that channel
    with that value, or that case of its select) the entry stands for; no closure is queued twice; goroutines in
    `$scheduled` are awake, alive and listed once; the running goroutine is awake, alive and not in `$scheduled`.
    Consequently (`wake_removes_all_entries`) a woken goroutine has no entry left in ANY queue: a select's
    entries are removed from all queues when one fires. -/
theorem no_lost_wakeup (evs : List Event) :
    (∀ k snd e, e ∈ ents (reach evs) k snd → Owned (reach evs) k snd e) ∧
    (∀ k snd, ((ents (reach evs) k snd).map key).Nodup) ∧
    (∀ g ∈ (reach evs).scheduled, g < (reach evs).gs.length ∧ (getG (reach evs) g).asleep = false ∧ (getG (reach evs) g).exit = false) ∧
    (reach evs).scheduled.Nodup ∧
    (∀ g, (reach evs).cur = some g → (getG (reach evs) g).asleep = false ∧ g ∉ (reach evs).scheduled) := by
  have h : GInv (reach evs) := runAll_ginv evs _ init_ginv
  exact ⟨h.own, h.nodup, h.sched, h.schedNodup, fun g hc => ⟨(h.cur g hc).2.1, (h.cur g hc).2.2.2⟩⟩

/-- a goroutine that is not asleep (running, runnable, freshly woken) owns no queue entry anywhere -/
theorem wake_removes_all_entries (evs : List Event) (g : Nat) (hawake : (getG (reach evs) g).asleep = false) :
    ∀ k snd e, e ∈ ents (reach evs) k snd → e.gid ≠ g := by
  have h : GInv (reach evs) := runAll_ginv evs _ init_ginv
  generalize reach evs = s at *
  intro k snd e he hg
  have := (h.own k snd e he).asleep
  rw [hg, hawake] at this; cases this

/-- **awake_count**: `$awakeGoroutines` = number of goroutines that are not asleep (running or runnable; exited
    goroutines are asleep) + pending `$setTimeout` callbacks; `$totalGoroutines` = goroutines that have not exited. -/
theorem awake_count (evs : List Event) :
    (reach evs).awake = ((awakeCount (reach evs).gs + userTimers (reach evs).timers : Nat) : Int) ∧
    (reach evs).total = ((aliveCount (reach evs).gs : Nat) : Int) :=
  ⟨(runAll_ginv evs _ init_ginv).awake, (runAll_ginv evs _ init_ginv).total⟩

/-- **deadlock_report_iff**: when a goroutine goes to sleep (goroutines.js:145-159 — every blocking operation ends
    there) in a state whose successor satisfies the counter invariant (every reachable state does, `awake_count`),
    "all goroutines are asleep" is reported iff main has not finished, every goroutine is asleep and no
    `$setTimeout` callback is pending — i.e. iff nothing can ever proceed. -/
theorem deadlock_report_iff (t : State) (g : Nat) (hlt : g < t.gs.length) (he : (getG t g).exit = false)
    (ha : (getG t g).asleep = true) (hpost : GInv (endSlice t g)) :
    ((endSlice t g).deadlocks = t.deadlocks + 1 ↔
      (t.mainFinished = false ∧ (∀ x ∈ (endSlice t g).gs, x.asleep = true) ∧ userTimers (endSlice t g).timers = 0)) ∧
    ((endSlice t g).deadlocks = t.deadlocks ∨ (endSlice t g).deadlocks = t.deadlocks + 1) := by
  have hA := hpost.awake
  obtain ⟨f1, f2, f3, _⟩ := endSlice_sleep_fields t g hlt he ha
  generalize endSlice t g = u at *
  rw [f1]
  have hzero : t.awake - 1 = 0 ↔ ((∀ x ∈ u.gs, x.asleep = true) ∧ userTimers u.timers = 0) := by
    rw [← f2, hA]
    constructor
    · intro h0
      have h1 : awakeCount u.gs = 0 ∧ userTimers u.timers = 0 := by omega
      refine ⟨?_, h1.2⟩
      intro x hx
      have := (List.countP_eq_zero.mp h1.1) x hx
      simpa using this
    · intro ⟨h1, h2⟩
      have : awakeCount u.gs = 0 := List.countP_eq_zero.mpr (fun x hx => by simp [h1 x hx])
      omega
  unfold deadlocksAfter
  cases hm : t.mainFinished
  · by_cases h0 : t.awake - 1 = 0
    · have := hzero.mp h0
      simp [h0, this.2]; exact this.1
    · have : ¬((∀ x ∈ u.gs, x.asleep = true) ∧ userTimers u.timers = 0) := fun h => h0 (hzero.mpr h)
      simp [h0]; intro h1 h2; exact this ⟨h1, h2⟩
  · simp

/-- communication clause `k` of sleeping goroutine `g` cannot proceed now: its channel is nil, or it is open and
    (send) the buffer is full and no OTHER goroutine waits to receive / (receive) the buffer is empty and no OTHER
    goroutine waits to send (a select's own entries on the other queue do not count: a goroutine cannot
    rendezvous with itself) -/
def NotPossible (s : State) (g : Nat) : Case → Prop
  | .dflt => True
  | .send c _ => (getC s c).isNil = true ∨
      ((getC s c).closed = false ∧ (getC s c).buf.length = (getC s c).cap ∧ ∀ e ∈ (getC s c).recvQ, e.gid = g)
  | .recv c => (getC s c).isNil = true ∨
      ((getC s c).closed = false ∧ (getC s c).buf = [] ∧ ∀ e ∈ (getC s c).sendQ, e.gid = g)

/-- **no_lost_wakeup** (liveness half): in every history, every goroutine that is asleep (and has not exited) is
    suspended in an operation that is NOT currently possible — a plain send/receive, or a select ALL of whose
    clauses are not possible. So no goroutine sleeps through a wake-up it was entitled to. -/
theorem blocked_not_possible (evs : List Event) (g : Nat) (hlt : g < (reach evs).gs.length)
    (ha : (getG (reach evs) g).asleep = true) (he : (getG (reach evs) g).exit = false) :
    match (getG (reach evs) g).blocked with
    | none => False
    | some (.send c v) => NotPossible (reach evs) g (.send c v)
    | some (.recv c) => NotPossible (reach evs) g (.recv c)
    | some (.select cs) => ∀ i, NotPossible (reach evs) g (cs.getD i .dflt) := by
  have hcmp : Cmp (reach evs) := (runAll_both evs _ init_ginv init_cmp).2
  have hinv : AllInv (reach evs).chans := runAll_inv evs _ init_inv
  have hce : AllCE (reach evs).chans := runAll_ce evs _ init_ce
  have hp := hcmp g hlt ha he
  generalize reach evs = s at *
  have sendCase : ∀ c v, (∃ e ∈ ents s c true, e.gid = g) → (getC s c).isNil = false → NotPossible s g (.send c v) := by
    intro c v ⟨e, hm, hg⟩ _
    rw [ents_send] at hm
    have hne : (getC s c).sendQ ≠ [] := List.ne_nil_of_mem hm
    have hi : ChanInv (getC s c) := hinv c
    have hopen : (getC s c).closed = false := by
      cases hcl : (getC s c).closed with
      | false => rfl
      | true => exact absurd ((hce c) hcl).1 hne
    exact Or.inr ⟨hopen, Nat.le_antisymm hi.buf_le (hi.send_full hne), fun e2 h2 => by rw [← hi.mixed e hm e2 h2]; exact hg⟩
  have recvCase : ∀ c, (∃ e ∈ ents s c false, e.gid = g) → (getC s c).isNil = false → NotPossible s g (.recv c) := by
    intro c ⟨e, hm, hg⟩ _
    rw [ents_recv] at hm
    have hne : (getC s c).recvQ ≠ [] := List.ne_nil_of_mem hm
    have hi : ChanInv (getC s c) := hinv c
    have hopen : (getC s c).closed = false := by
      cases hcl : (getC s c).closed with
      | false => rfl
      | true => exact absurd ((hce c) hcl).2 hne
    exact Or.inr ⟨hopen, hi.recv_buf hne, fun e1 h1 => by rw [hi.mixed e1 h1 e hm]; exact hg⟩
  cases hb : (getG s g).blocked with
  | none => rw [hb] at hp; exact hp
  | some b =>
    rw [hb] at hp
    cases b with
    | send c v =>
      simp only
      cases hn : (getC s c).isNil with
      | true => exact Or.inl hn
      | false => exact sendCase c v (hp.2 hn) hn
    | recv c =>
      simp only
      cases hn : (getC s c).isNil with
      | true => exact Or.inl hn
      | false => exact recvCase c (hp.2 hn) hn
    | select cs =>
      simp only
      intro i
      cases hk : cs.getD i .dflt with
      | dflt => trivial
      | send c v =>
        cases hn : (getC s c).isNil with
        | true => exact Or.inl hn
        | false =>
          obtain ⟨e, hm, hg, _⟩ := ((hp i).1 c v hk).2 hn
          exact sendCase c v ⟨e, hm, hg⟩ hn
      | recv c =>
        cases hn : (getC s c).isNil with
        | true => exact Or.inl hn
        | false =>
          obtain ⟨e, hm, hg, _⟩ := ((hp i).2 c hk).2 hn
          exact recvCase c ⟨e, hm, hg⟩ hn

/-! ## stated, not proved -/

/-- refines_go — NOT proved: every step of the model is a step of GV.Spec.GoChan;
    `GV.Spec.GoChanRefine.verdict` decides it per step and is evaluated on every step the correspondence runs execute -/
def refines_go : Prop := ∀ (evs : List Event) (ev : Event),
  GV.Spec.GoChanRefine.verdict (reach evs) ev (step (reach evs) ev).2 (step (reach evs) ev).1 = none

/-- the executable invariants hold on a non-trivial reachable state (blocked select with two entries, a runnable goroutine) -/
example : globalInv (reach [.spawn, .makechan 0, .spawn, .select [.send 1 5, .recv 1] 0]) = true := by decide

/-- regression of the two repaired defects at model level: the closer proceeds and the selector is woken with the
    pending panic; `close(nil)` panics and leaves `$chanNil` open -/
example : (step (reach [.spawn, .makechan 0, .spawn, .select [.send 1 5, .recv 0] 0, .next]) (.close 1)).2 = .ok := by decide
example : (step (reach [.spawn]) (.close 0)).2 = .panic .closeNil := by decide

end GV.Props.C03
