import GV.Model.JSInt
import GV.Model.Num64
import GV.Model.NumScheme
import GV.Spec.Num
import GV.Proofs.Num
import GV.Proofs.Num64

/-!
  GV.Props.C06 — fixed-width integer arithmetic is exact.

  Operands are the canonical JS representatives `x y : Int` with `InRange τ x`; the specification is evaluated on
  `bv τ x = BitVec.ofInt τ.bits x` (a bijection between in-range integers and bit vectors: `valOf_bv`), so every
  theorem quantifies over ALL operand values of the type.
-/
set_option linter.unusedSimpArgs false

namespace GV.Props.C06
open GV.JSInt GV.Num64 GV.NumScheme GV.Spec.Num GV.Proofs.Num GV.Proofs.Num64

/-- the value of a type as a bit vector -/
abbrev bv (τ : ITy) (x : Int) : BitVec τ.bits := BitVec.ofInt τ.bits x

/-- what the specification demands, rendered as an emitted-expression outcome (canonical number, never -0) -/
def specRes (τ : ITy) (r : Option (BitVec τ.bits)) : Res :=
  match r with
  | some v => .ok (.int (valOf τ.signed v))
  | none => .panic

/-- in-range integers are exactly the values of bit vectors -/
theorem valOf_bv (τ : ITy) (x : Int) (hx : InRange τ x) : valOf τ.signed (bv τ x) = x := by
  cases τ <;> simp only [valOf, bv, ITy.signed, BitVec.toInt_ofInt, BitVec.toNat_ofInt, if_true, if_false, Bool.false_eq_true] <;>
    simp only [InRange, ITy.signed, ITy.bits, Int.bmod_def, Nat.reducePow, Nat.reduceSub, Int.reducePow, Int.reduceNeg, if_true, if_false,
      Bool.false_eq_true, Int.cast_ofNat_Int] at * <;> omega

theorem valOf_inRange (τ : ITy) (a : BitVec τ.bits) : InRange τ (valOf τ.signed a) := by
  have h1 := a.le_toInt; have h2 := a.toInt_lt; have h3 := a.isLt
  cases τ <;> simp only [InRange, valOf, ITy.signed, ITy.bits, if_true, if_false, Bool.false_eq_true] at * <;>
    first | exact ⟨h1, h2⟩ | exact ⟨Int.natCast_nonneg _, by exact_mod_cast h3⟩

theorem bv_valOf (τ : ITy) (a : BitVec τ.bits) : bv τ (valOf τ.signed a) = a := by
  cases τ <;> simp [bv, valOf, ITy.signed]

set_option hygiene false in
/-- normalisation used by the per-operator proofs: spec side to integer arithmetic via the `BitVec` lemmas
    (phase 1, widths still symbolic), then scheme side and numerals (phase 2). Expects `ex ey hx hy`. -/
macro "c06_norm" : tactic => `(tactic| (
  simp only [bv, valOf, ITy.signed, if_true, if_false, Bool.false_eq_true, reduceIte] at ex ey
  simp only [schemeBin, schemeUn, specBin, specUn, specRes, bv, valOf, ITy.signed, BitVec.toInt_add, BitVec.toInt_sub, BitVec.toInt_mul,
    BitVec.toInt_neg, BitVec.toNat_add, BitVec.toNat_sub, BitVec.toNat_mul, BitVec.toNat_neg, BitVec.toInt_not, BitVec.toNat_not,
    if_true, if_false, Bool.false_eq_true, reduceIte,
    Int.natCast_add, Int.natCast_mul, Int.natCast_emod, imul_eq, mul_toInt, ex, ey]
  simp only [InRange, ITy.signed, ITy.bits, fixNumber, fix8s, fix8u, fix16s,
    fix16u, fix32s, fix32u, Int.bmod_def, toInt32, toUint32, bnot, Res.ok.injEq, JSNum.int.injEq,
    Nat.reducePow, Nat.reduceSub,
    Nat.reduceAdd, Nat.reduceDiv, Int.reducePow, Int.reduceNeg, if_true, if_false, Bool.false_eq_true, reduceIte,
    Int.natCast_pow, Int.cast_ofNat_Int] at *))

/-! ### Binary arithmetic -/

theorem add_correct (τ : ITy) (x y : Int) (hx : InRange τ x) (hy : InRange τ y) :
    schemeBin τ .add x y = specRes τ (specBin τ.signed .add (bv τ x) (bv τ y)) := by
  have ex := valOf_bv τ x hx; have ey := valOf_bv τ y hy
  cases τ <;> c06_norm <;> omega

theorem sub_correct (τ : ITy) (x y : Int) (hx : InRange τ x) (hy : InRange τ y) :
    schemeBin τ .sub x y = specRes τ (specBin τ.signed .sub (bv τ x) (bv τ y)) := by
  have ex := valOf_bv τ x hx; have ey := valOf_bv τ y hy
  cases τ <;> c06_norm <;> omega

theorem mul_correct (τ : ITy) (x y : Int) (hx : InRange τ x) (hy : InRange τ y) :
    schemeBin τ .mul x y = specRes τ (specBin τ.signed .mul (bv τ x) (bv τ y)) := by
  have ex := valOf_bv τ x hx; have ey := valOf_bv τ y hy
  cases τ <;> c06_norm <;> omega

/-! ### Division and remainder -/

theorem bv_eq_zero (τ : ITy) (y : Int) (hy : InRange τ y) : bv τ y = 0 ↔ y = 0 := by
  constructor
  · intro h
    have := valOf_bv τ y hy
    rw [h] at this
    cases τ <;> simpa [valOf, ITy.signed] using this.symm
  · intro h; subst h; cases τ <;> simp [bv]

theorem tdiv_range (x y B : Int) (hx : -B ≤ x ∧ x < B) (hne : ¬(x = -B ∧ y = -1)) :
    -B ≤ x.tdiv y ∧ x.tdiv y < B := by
  have hb := tdiv_bounds x y
  refine ⟨by omega, ?_⟩
  by_cases hq : x.tdiv y = B
  · exfalso
    have hxB : x = -B := by omega
    have hna : (x.tdiv y).natAbs = x.natAbs := by omega
    rcases tdiv_natAbs_eq x y hna (by omega) with h1 | h1
    · rw [h1, Int.tdiv_one] at hq; omega
    · exact hne ⟨hxB, h1⟩
  · omega

theorem unsigned_range (τ : ITy) (x : Int) (hs : τ.signed = false) (hx : InRange τ x) : 0 ≤ x ∧ x < 4294967296 := by
  cases τ <;> simp only [ITy.signed] at hs <;> try cases hs
  all_goals (simp only [InRange, ITy.signed, ITy.bits, Bool.false_eq_true, if_false, Nat.reducePow, Int.reducePow] at hx; omega)

theorem signed_range (τ : ITy) (x : Int) (hs : τ.signed = true) (hx : InRange τ x) : -2147483648 ≤ x ∧ x < 2147483648 := by
  cases τ <;> simp only [ITy.signed] at hs <;> try cases hs
  all_goals (simp only [InRange, ITy.signed, ITy.bits, if_true, Nat.reducePow, Nat.reduceSub, Int.reducePow] at hx; omega)

/-- operand pairs on which the emitted `/` is wrong today (DESIGN.md section 7): int8/int16 `MIN / -1` -/
def QuoExcluded (τ : ITy) (x y : Int) : Prop :=
  (τ = .int8 ∨ τ = .int16) ∧ x = -(2 ^ (τ.bits - 1) : Int) ∧ y = -1

instance (τ : ITy) (x y : Int) : Decidable (QuoExcluded τ x y) := by unfold QuoExcluded; exact inferInstance

theorem quo_correct_partial (τ : ITy) (x y : Int) (hx : InRange τ x) (hy : InRange τ y) (hex : ¬ QuoExcluded τ x y) :
    schemeBin τ .quo x y = specRes τ (specBin τ.signed .quo (bv τ x) (bv τ y)) := by
  have ex := valOf_bv τ x hx; have ey := valOf_bv τ y hy
  have hz := bv_eq_zero τ y hy
  by_cases hy0 : y = 0
  · subst hy0
    have hb : bv τ 0 = 0 := hz.2 rfl
    simp only [schemeBin, JSInt.div, specBin, hb, specRes, if_true]
  · have hb : ¬ bv τ y = 0 := fun h => hy0 (hz.1 h)
    simp only [schemeBin, JSInt.div, hy0, specBin, hb, specRes, if_false]
    cases hs : τ.signed
    · -- unsigned: Nat division
      have hx0 : 0 ≤ x := (unsigned_range τ x hs hx).1
      have hy1 : 0 < y := by have := (unsigned_range τ y hs hy).1; omega
      simp only [hs, valOf, if_false, Bool.false_eq_true, reduceIte] at ex ey ⊢
      rw [BitVec.toNat_udiv, Int.natCast_ediv, ex, ey, Int.tdiv_eq_ediv_of_nonneg hx0, fix32u]
      have h1 : 0 ≤ x / y := Int.ediv_nonneg hx0 (by omega)
      have h2 : x / y ≤ x := Int.ediv_le_self y hx0
      have h3 : x < 4294967296 := (unsigned_range τ x hs hx).2
      rw [toUint32_id ⟨h1, by omega⟩]
    · simp only [hs, valOf, if_true, reduceIte] at ex ey ⊢
      rw [BitVec.toInt_sdiv, ex, ey, fix32s]
      cases τ <;> simp only [ITy.signed] at hs <;> try cases hs
      · have := tdiv_range x y 128 (by simpa [InRange, ITy.signed, ITy.bits] using hx) (by intro h; exact hex ⟨Or.inl rfl, by simpa [ITy.bits] using h.1, h.2⟩)
        simp only [ITy.bits, Int.bmod_def, toInt32, Nat.reducePow, Res.ok.injEq, JSNum.int.injEq]; omega
      · have := tdiv_range x y 32768 (by simpa [InRange, ITy.signed, ITy.bits] using hx) (by intro h; exact hex ⟨Or.inr rfl, by simpa [ITy.bits] using h.1, h.2⟩)
        simp only [ITy.bits, Int.bmod_def, toInt32, Nat.reducePow, Res.ok.injEq, JSNum.int.injEq]; omega
      · simp only [ITy.bits, toInt32_eq_bmod]
      · simp only [ITy.bits, toInt32_eq_bmod]

/-- operand pairs on which the emitted `%` is wrong today: negative dividend, zero result (JS gives -0) -/
def RemExcluded (x y : Int) : Prop := x < 0 ∧ Int.tmod x y = 0

instance (x y : Int) : Decidable (RemExcluded x y) := by unfold RemExcluded; exact inferInstance

theorem rem_correct_partial (τ : ITy) (x y : Int) (hx : InRange τ x) (hy : InRange τ y) (hex : ¬ RemExcluded x y) :
    schemeBin τ .rem x y = specRes τ (specBin τ.signed .rem (bv τ x) (bv τ y)) := by
  have ex := valOf_bv τ x hx; have ey := valOf_bv τ y hy
  have hz := bv_eq_zero τ y hy
  by_cases hy0 : y = 0
  · subst hy0
    have hb : bv τ 0 = 0 := hz.2 rfl
    simp only [schemeBin, JSInt.rem, specBin, hb, specRes, if_true]
  · have hb : ¬ bv τ y = 0 := fun h => hy0 (hz.1 h)
    have hne : ¬ (Int.tmod x y = 0 ∧ x < 0) := fun h => hex ⟨h.2, h.1⟩
    simp only [schemeBin, JSInt.rem, hy0, hne, specBin, hb, specRes, if_false]
    cases hs : τ.signed
    · have hx0 : 0 ≤ x := (unsigned_range τ x hs hx).1
      simp only [hs, valOf, if_false, Bool.false_eq_true, reduceIte] at ex ey ⊢
      rw [BitVec.toNat_umod, Int.natCast_emod, ex, ey, Int.tmod_eq_emod_of_nonneg hx0]
    · simp only [hs, valOf, if_true, reduceIte] at ex ey ⊢
      rw [BitVec.toInt_srem, ex, ey]

/-! ### Unary operators -/

theorem toNat_bv (τ : ITy) (x : Int) : ((bv τ x).toNat : Int) = x % (2 ^ τ.bits : Nat) := by
  simp only [bv, BitVec.toNat_ofInt]
  exact Int.toNat_of_nonneg (Int.emod_nonneg _ (by have := Nat.two_pow_pos τ.bits; omega))

theorem neg_toInt (x : Int) : (JSInt.neg x).toInt = -x := by
  unfold JSInt.neg; split
  · next h => subst h; rfl
  · rfl

/-- operands on which the emitted unary minus is wrong today: signed types at 0 (JS -0) and at the minimum (not wrapped) -/
def NegExcluded (τ : ITy) (x : Int) : Prop :=
  τ.signed = true ∧ (x = 0 ∨ x = -(2 ^ (τ.bits - 1) : Int))

instance (τ : ITy) (x : Int) : Decidable (NegExcluded τ x) := by unfold NegExcluded; exact inferInstance

theorem neg_correct_partial (τ : ITy) (x : Int) (hx : InRange τ x) (hex : ¬ NegExcluded τ x) :
    schemeUn τ .neg x = .int (valOf τ.signed (specUn .neg (bv τ x))) := by
  have ex := valOf_bv τ x hx
  cases τ <;>
    simp only [bv, valOf, ITy.signed, if_true, if_false, Bool.false_eq_true, reduceIte] at ex <;>
    simp only [schemeUn, specUn, bv, valOf, ITy.signed, BitVec.toInt_neg, BitVec.toNat_neg, if_true, if_false, Bool.false_eq_true, reduceIte,
      Int.natCast_emod, neg_toInt, ex] <;>
    simp only [NegExcluded, InRange, ITy.signed, ITy.bits, fixNumber, fix8u, fix16u, fix32u, Int.bmod_def, toUint32, JSNum.int.injEq, JSInt.neg,
      Nat.reducePow, Nat.reduceSub, Nat.reduceAdd, Nat.reduceDiv, Int.reducePow, Int.reduceNeg, if_true, if_false, Bool.false_eq_true,
      reduceIte, Int.cast_ofNat_Int, true_and, false_and, not_false_eq_true, not_or] at * <;>
    first
      | (rw [if_neg hex.1]; simp only [JSNum.int.injEq]; omega)
      | omega

theorem not_correct (τ : ITy) (x : Int) (hx : InRange τ x) :
    schemeUn τ .not x = .int (valOf τ.signed (specUn .not (bv τ x))) := by
  have ex := valOf_bv τ x hx
  have en := toNat_bv τ x
  cases τ <;>
    simp only [bv, valOf, ITy.signed, if_true, if_false, Bool.false_eq_true, reduceIte] at ex en <;>
    simp only [schemeUn, specUn, bv, valOf, ITy.signed, BitVec.toInt_not, BitVec.toNat_not, if_true, if_false, Bool.false_eq_true, reduceIte, en] <;>
    simp only [InRange, ITy.signed, ITy.bits, fixNumber, fix8s, fix8u, fix16s, fix16u, fix32s, fix32u, Int.bmod_def, toInt32, toUint32, bnot,
      JSNum.int.injEq, Nat.reducePow, Nat.reduceSub, Nat.reduceAdd, Nat.reduceDiv, Int.reducePow, Int.reduceNeg, if_true, if_false,
      Bool.false_eq_true, reduceIte, Int.cast_ofNat_Int] at * <;>
    omega

/-! ### fixNumber, conversions, comparisons -/

/-- the value range wrap of a type -/
def wrap (τ : ITy) (v : Int) : Int := if τ.signed then v.bmod (2 ^ τ.bits) else v % (2 ^ τ.bits : Nat)

/-- `fixNumber` (expressions.go:1363-1384) is the two's-complement wrap, for EVERY integer argument -/
theorem fixNumber_wrap (τ : ITy) (v : Int) : fixNumber τ v = wrap τ v := by
  cases τ <;>
    simp only [wrap, fixNumber, fix8s, fix8u, fix16s, fix16u, fix32s, fix32u, ITy.signed, ITy.bits, Int.bmod_def, toInt32, toUint32,
      Nat.reducePow, Nat.reduceAdd, Nat.reduceDiv, if_true, if_false, Bool.false_eq_true, reduceIte, Int.cast_ofNat_Int] <;>
    omega

theorem wrap_inRange (τ : ITy) (v : Int) : InRange τ (wrap τ v) := by
  cases τ <;>
    simp only [wrap, InRange, ITy.signed, ITy.bits, Int.bmod_def, Nat.reducePow, Nat.reduceSub, Nat.reduceAdd, Nat.reduceDiv, Int.reducePow,
      Int.reduceNeg, if_true, if_false, Bool.false_eq_true, reduceIte, Int.cast_ofNat_Int] <;>
    omega

theorem valOf_ofInt (τ : ITy) (v : Int) : valOf τ.signed (BitVec.ofInt τ.bits v) = wrap τ v := by
  cases hs : τ.signed
  · simp only [valOf, wrap, hs, Bool.false_eq_true, if_false, BitVec.toNat_ofInt]
    exact Int.toNat_of_nonneg (Int.emod_nonneg _ (by have := Nat.two_pow_pos τ.bits; omega))
  · simp only [valOf, wrap, hs, if_true, BitVec.toInt_ofInt]

/-- conversions between the non-64-bit integer types: truncate / sign-extend / zero-extend (every ordered pair) -/
theorem conv_correct (src dst : ITy) (x : Int) (hx : InRange src x) :
    conv dst x = valOf dst.signed (specConv src.signed (bv src x) dst.bits) := by
  have ex := valOf_bv src x hx
  rw [conv, fixNumber_wrap]
  cases hs : src.signed
  · simp only [hs, valOf, Bool.false_eq_true, if_false] at ex
    simp only [specConv, hs, Bool.false_eq_true, if_false]
    cases hd : dst.signed
    · simp only [valOf, wrap, hd, Bool.false_eq_true, if_false, BitVec.toNat_setWidth, Int.natCast_emod, ex, Int.natCast_pow]
    · simp only [valOf, wrap, hd, if_true, BitVec.toInt_setWidth, ex]
  · simp only [hs, valOf, if_true] at ex
    simp only [specConv, hs, if_true, BitVec.signExtend, ex]
    exact (valOf_ofInt dst x).symm

/-- comparisons: `===`, `<`, … on the canonical representatives decide the Go comparison -/
theorem cmp_correct (τ : ITy) (op : CmpOp) (x y : Int) (hx : InRange τ x) (hy : InRange τ y) :
    schemeCmp op x y = specCmp τ.signed op (bv τ x) (bv τ y) := by
  have ex := valOf_bv τ x hx; have ey := valOf_bv τ y hy
  have hne : (bv τ x = bv τ y) ↔ x = y := ⟨fun h => by rw [← ex, ← ey, h], fun h => by rw [h]⟩
  have hbeq : (bv τ x == bv τ y) = decide (x = y) := by
    by_cases h : x = y
    · simp [h]
    · have : ¬ bv τ x = bv τ y := fun h' => h (hne.1 h')
      simp [h, this]
  cases hs : τ.signed <;> simp only [hs, valOf, Bool.false_eq_true, if_false, if_true] at ex ey
  · have hx0 := (unsigned_range τ x hs hx).1; have hy0 := (unsigned_range τ y hs hy).1
    have e1 : ((bv τ x).toNat < (bv τ y).toNat) ↔ x < y := by omega
    have e2 : ((bv τ x).toNat ≤ (bv τ y).toNat) ↔ x ≤ y := by omega
    have e3 : ((bv τ y).toNat < (bv τ x).toNat) ↔ y < x := by omega
    have e4 : ((bv τ y).toNat ≤ (bv τ x).toNat) ↔ y ≤ x := by omega
    cases op <;> simp only [schemeCmp, specCmp, hs, Bool.false_eq_true, if_false, BitVec.ult, BitVec.ule, bne, hbeq, e1, e2, e3, e4,
      GT.gt, GE.ge]
  · cases op <;> simp only [schemeCmp, specCmp, hs, if_true, BitVec.slt, BitVec.sle, bne, hbeq, ex, ey, GT.gt, GE.ge]

/-! ### Assembly: `scheme_correct`, the proved negations of its full-strength form, `repr_inv`, `exact_doubles` -/

/-- the arithmetic operators whose scheme is proved against the spec below; the bitwise operators and the shifts are
    stated (`bitwise_correct_full`, `shift_correct_full`) but NOT claimed — they are covered by the differential runs only -/
def isArith : BinOp → Bool
  | .add | .sub | .mul | .quo | .rem => true
  | _ => false

/-- operand sets on which the emitted code is wrong today (each witnessed by a proved counterexample below) -/
def BinExcluded (τ : ITy) (op : BinOp) (x y : Int) : Prop :=
  (op = .quo ∧ QuoExcluded τ x y) ∨ (op = .rem ∧ RemExcluded x y)

instance (τ : ITy) (op : BinOp) (x y : Int) : Decidable (BinExcluded τ op x y) := by unfold BinExcluded; exact inferInstance

/-- FULL-STRENGTH statement (not claimed; false today, see the counterexamples) -/
def scheme_correct_full : Prop :=
  ∀ (τ : ITy) (op : BinOp) (x y : Int), InRange τ x → InRange τ y →
    schemeBin τ op x y = specRes τ (specBin τ.signed op (bv τ x) (bv τ y))

/-- `int8(-128) / int8(-1)`: the scheme yields 128, the spec -128 (DESIGN.md section 7) -/
theorem quo_min_counterexample : ¬ scheme_correct_full := fun h => by
  have := h .int8 .quo (-128) (-1) (by decide) (by decide)
  revert this; decide

/-- `int32(-4) % 2`: the scheme yields JS `-0`, the spec 0 -/
theorem rem_negzero_counterexample : ¬ scheme_correct_full := fun h => by
  have := h .int32 .rem (-4) 2 (by decide) (by decide)
  revert this; decide

/-- the strongest provable form for + - * / %: all types, all in-range operands outside the two defect classes -/
theorem scheme_correct_partial (τ : ITy) (op : BinOp) (x y : Int) (hx : InRange τ x) (hy : InRange τ y)
    (hop : isArith op = true) (hex : ¬ BinExcluded τ op x y) :
    schemeBin τ op x y = specRes τ (specBin τ.signed op (bv τ x) (bv τ y)) := by
  cases op <;> simp only [isArith] at hop <;> try cases hop
  · exact add_correct τ x y hx hy
  · exact sub_correct τ x y hx hy
  · exact mul_correct τ x y hx hy
  · exact quo_correct_partial τ x y hx hy (fun h => hex (Or.inl ⟨rfl, h⟩))
  · exact rem_correct_partial τ x y hx hy (fun h => hex (Or.inr ⟨rfl, h⟩))

/-- the hypothesis of `scheme_correct_partial` is satisfiable by non-trivial operands (a wrapping product, a negative quotient) -/
example : ¬ BinExcluded .int8 .mul 100 100 ∧ ¬ BinExcluded .int16 .quo (-32768) 3 ∧ ¬ BinExcluded .int32 .rem (-7) 2 := by decide

/-- FULL-STRENGTH unary statement (not claimed) -/
def scheme_un_correct_full : Prop :=
  ∀ (τ : ITy) (op : UnOp) (x : Int), InRange τ x → schemeUn τ op x = .int (valOf τ.signed (specUn op (bv τ x)))

/-- `-int32(MinInt32)`: the scheme yields 2147483648 (outside the type), the spec wraps to MinInt32 -/
theorem neg_min_counterexample : ¬ scheme_un_correct_full := fun h => by
  have := h .int32 .neg (-2147483648) (by decide)
  revert this; decide

/-- `-int8(0)`: the scheme yields JS `-0` -/
theorem neg_zero_counterexample : ¬ scheme_un_correct_full := fun h => by
  have := h .int8 .neg 0 (by decide)
  revert this; decide

theorem scheme_un_correct_partial (τ : ITy) (op : UnOp) (x : Int) (hx : InRange τ x) (hex : op = .neg → ¬ NegExcluded τ x) :
    schemeUn τ op x = .int (valOf τ.signed (specUn op (bv τ x))) := by
  cases op
  · exact neg_correct_partial τ x hx (hex rfl)
  · exact not_correct τ x hx

example : ¬ NegExcluded .int8 (-127) ∧ ¬ NegExcluded .uint32 0 ∧ ¬ NegExcluded .int32 2147483647 := by decide

/-- FULL-STRENGTH shift statement (NOT claimed: false for constant counts ≥ 32 on negative signed operands and for
    negative counts; the remaining cases are not proved here, only sampled) -/
def shift_correct_full : Prop :=
  ∀ (τ : ITy) (op : ShOp) (c : Bool) (x n : Int), InRange τ x →
    some (schemeShift τ op c x n) = (specShiftInt τ.signed op (bv τ x) n).map (valOf τ.signed)

/-- `int8(-1) >> 32` with a constant count is folded to 0; Go gives -1 -/
theorem shr_const_count_counterexample : ¬ shift_correct_full := fun h => by
  have := h .int8 .shr true (-1) 32 (by decide)
  revert this; decide

/-- `int32(1) << n` with `n = -1` computes -2147483648 instead of panicking -/
theorem shift_negative_count_counterexample : ¬ shift_correct_full := fun h => by
  have := h .int32 .shl false 1 (-1) (by decide)
  revert this; decide

/-- FULL-STRENGTH statement for & | ^ &^ (NOT claimed, not proved: covered by the exhaustive 8-bit and grid runs) -/
def bitwise_correct_full : Prop :=
  ∀ (τ : ITy) (op : BinOp) (x y : Int), isArith op = false → InRange τ x → InRange τ y →
    schemeBin τ op x y = specRes τ (specBin τ.signed op (bv τ x) (bv τ y))

/-- canonical-representative invariant: an outcome is a panic or a number in the range of the type that is not `-0` -/
def Canonical (τ : ITy) : Res → Prop
  | .ok (.int v) => InRange τ v
  | .ok .negZero => False
  | .panic => True

instance (τ : ITy) (r : Res) : Decidable (Canonical τ r) := by
  cases r with
  | panic => exact isTrue trivial
  | ok v => cases v with
    | int v => unfold Canonical; exact inferInstance
    | negZero => exact isFalse (fun h => h)

theorem specRes_canonical (τ : ITy) (r : Option (BitVec τ.bits)) : Canonical τ (specRes τ r) := by
  cases r with
  | none => trivial
  | some v => exact valOf_inRange τ v

/-- `repr_inv`: results of + - * / % (outside the defect classes), of unary operators and of conversions are canonical
    representatives again, so they can be operands of the next operation (all three operand shapes) -/
theorem repr_inv (τ : ITy) (op : BinOp) (x y : Int) (hx : InRange τ x) (hy : InRange τ y)
    (hop : isArith op = true) (hex : ¬ BinExcluded τ op x y) : Canonical τ (schemeBin τ op x y) := by
  rw [scheme_correct_partial τ op x y hx hy hop hex]; exact specRes_canonical τ _

theorem repr_inv_un (τ : ITy) (op : UnOp) (x : Int) (hx : InRange τ x) (hex : op = .neg → ¬ NegExcluded τ x) :
    Canonical τ (.ok (schemeUn τ op x)) := by
  rw [scheme_un_correct_partial τ op x hx hex]; exact valOf_inRange τ _

theorem repr_inv_conv (dst : ITy) (x : Int) : InRange dst (conv dst x) := by
  rw [conv, fixNumber_wrap]; exact wrap_inRange dst x

/-- `fixNumber` yields a canonical representative for EVERY integer argument (so every scheme that ends in a
    fix-up — all shifts, `^`, `&^`, `+`, `-`, 8/16-bit `*` — returns an in-range number, never `-0`) -/
theorem repr_inv_fixNumber (τ : ITy) (v : Int) : InRange τ (fixNumber τ v) := by
  rw [fixNumber_wrap]; exact wrap_inRange τ v

/-- the invariant fails without the exclusions: the witnesses above leave the range or produce `-0` -/
theorem repr_inv_counterexample :
    ¬ Canonical .int8 (schemeBin .int8 .quo (-128) (-1)) ∧ ¬ Canonical .int32 (schemeBin .int32 .rem (-4) 2) ∧
    ¬ Canonical .int16 (.ok (schemeUn .int16 .neg (-32768))) ∧ ¬ Canonical .int (.ok (schemeUn .int .neg 0)) := by decide

/-- `exact_doubles`: every intermediate JS number of every binary scheme, on in-range operands, is an integer of
    magnitude ≤ 2^53 (so IEEE double arithmetic is exact on it) -/
theorem exact_doubles (τ : ITy) (op : BinOp) (x y : Int) (hx : InRange τ x) (hy : InRange τ y) :
    ∀ v ∈ schemeBinInter τ op x y, -two53 ≤ v ∧ v ≤ two53 := by
  have h32 : -2147483648 ≤ x ∧ x < 4294967296 ∧ -2147483648 ≤ y ∧ y < 4294967296 := by
    cases hs : τ.signed
    · have := unsigned_range τ x hs hx; have := unsigned_range τ y hs hy; omega
    · have := signed_range τ x hs hx; have := signed_range τ y hs hy; omega
  have hi32 : ∀ v, -two53 ≤ toInt32 v ∧ toInt32 v ≤ two53 := fun v => by
    have := toInt32_range v; unfold two53; omega
  intro v hv
  cases op <;> simp only [schemeBinInter] at hv
  · simp only [List.mem_singleton] at hv; subst hv; unfold two53; omega
  · simp only [List.mem_singleton] at hv; subst hv; unfold two53; omega
  · -- mul: 8/16-bit products are < 2^32; 32-bit products go through Math.imul
    cases τ <;> simp only [List.mem_singleton] at hv <;> subst hv <;>
      first
        | exact hi32 _
        | (simp only [InRange, ITy.signed, ITy.bits, if_true, if_false, Bool.false_eq_true, Nat.reduceSub, Int.reducePow, Int.reduceNeg] at hx hy
           unfold two53
           have h1 := Int.mul_le_mul_of_natAbs_le (x := x) (y := y) (s := 65536) (t := 65536) (by omega) (by omega)
           have h2 := Int.mul_le_mul_of_natAbs_le (x := -x) (y := y) (s := 65536) (t := 65536) (by omega) (by omega)
           rw [Int.neg_mul] at h2
           omega)
  · -- quo
    by_cases hy0 : y = 0
    · simp [JSInt.div, hy0] at hv
    · simp only [JSInt.div, hy0, if_false, List.mem_singleton] at hv; subst hv
      have := tdiv_bounds x y; unfold two53; omega
  · -- rem
    by_cases hy0 : y = 0
    · simp [JSInt.rem, hy0] at hv
    · by_cases hz : x.tmod y = 0 ∧ x < 0
      · simp only [JSInt.rem, hy0, hz, and_self, if_true, if_false, List.mem_singleton, JSNum.toInt] at hv; subst hv; simp [two53]
      · simp only [JSInt.rem, hy0, hz, if_false, List.mem_singleton, JSNum.toInt] at hv; subst hv
        have h1 := Int.natAbs_tmod x y
        have h2 : (x.tmod y).natAbs ≤ x.natAbs := by rw [h1]; exact Nat.mod_le _ _
        unfold two53; omega
  · simp only [List.mem_singleton] at hv; rw [hv]; unfold band; exact hi32 _
  · simp only [List.mem_singleton] at hv; rw [hv]; unfold bor; exact hi32 _
  · simp only [List.mem_singleton] at hv; rw [hv]; unfold bxor; exact hi32 _
  · simp only [List.mem_cons, List.mem_singleton, List.not_mem_nil, or_false] at hv
    rcases hv with hv | hv <;> rw [hv]
    · have := toInt32_range y; unfold bnot two53; omega
    · unfold band; exact hi32 _

/-- why `$imul` is needed: the plain product of two 32-bit operands is not an exact double -/
theorem exact_doubles_plain_mul_fails : ∃ x y : Int, InRange .uint32 x ∧ InRange .uint32 y ∧ ¬ (x * y ≤ two53) :=
  ⟨4294967295, 4294967295, by decide, by decide, by decide⟩

/-! ### 64-bit integers: constructor, inline schemes, `$mul64`, `$flatten64` -/

/-- the constructor (types.js:103-119) normalises ANY pair of integers to a canonical pair … -/
theorem mk64_canon (s : Bool) (h l : Int) : Canon s (mk64 s h l) := by
  cases s <;> simp only [Canon, mk64, toInt32, toUint32, if_true, if_false, Bool.false_eq_true] <;> (try split) <;> omega

theorem add64_correct (s : Bool) (x y : W64) :
    (scheme64Bin s .add x y).map toBV = some (toBV x + toBV y) := by
  simp only [scheme64Bin, Option.map]; rw [toBV_mk64]
  simp only [toBV, flatten64, ← BitVec.ofInt_add]
  congr 1; apply ofInt64_congr; congr 1; omega

theorem sub64_correct (s : Bool) (x y : W64) :
    (scheme64Bin s .sub x y).map toBV = some (toBV x - toBV y) := by
  simp only [scheme64Bin, Option.map]; rw [toBV_mk64]
  simp only [toBV, flatten64, BitVec.sub_eq_add_neg, ← BitVec.ofInt_neg, ← BitVec.ofInt_add]
  congr 1; apply ofInt64_congr; congr 1; omega

theorem neg64_correct (s : Bool) (x : W64) : toBV (scheme64Un s .neg x) = - toBV x := by
  simp only [scheme64Un]; rw [toBV_mk64]
  simp only [toBV, flatten64, ← BitVec.ofInt_neg]
  apply ofInt64_congr; congr 1; omega

/-- the value a canonical pair denotes, as a Go value -/
theorem valOf_toBV (s : Bool) (x : W64) (hx : Canon s x) : valOf s (toBV x) = flatten64 x := by
  cases s <;> simp only [Canon, if_true, if_false, Bool.false_eq_true] at hx <;>
    simp only [valOf, toBV, flatten64, BitVec.toInt_ofInt, BitVec.toNat_ofInt, Int.bmod_def, Nat.reducePow, Int.cast_ofNat_Int,
      if_true, if_false, Bool.false_eq_true] <;> omega

/-- `$flatten64`: for a canonical pair whose value has magnitude ≤ 2^53 the two intermediates are exact doubles:
    `$high * 4294967296` is a 32-bit integer scaled by a power of two, and the sum is the value itself -/
theorem flatten64_exact (s : Bool) (x : W64) (hx : Canon s x) (hv : -two53 ≤ valOf s (toBV x) ∧ valOf s (toBV x) ≤ two53) :
    flatten64 x = valOf s (toBV x) ∧ (-two53 ≤ flatten64 x ∧ flatten64 x ≤ two53) ∧
    (∃ k : Int, x.high * 4294967296 = k * 4294967296 ∧ -4294967296 < k ∧ k < 4294967296) := by
  rw [valOf_toBV s x hx] at hv
  refine ⟨(valOf_toBV s x hx).symm, hv, x.high, rfl, ?_⟩
  cases s <;> simp only [Canon, if_true, if_false, Bool.false_eq_true] at hx <;> omega

/-- … denoting `high * 2^32 + low` modulo 2^64 -/
theorem mk64_value (s : Bool) (h l : Int) : toBV (mk64 s h l) = BitVec.ofInt 64 (h * 4294967296 + l) := toBV_mk64 s h l

/-- `$mul64` (numeric.js:79-116): the 16-bit-limb product is the 64-bit wrap-around product, for all canonical operands,
    and the result is canonical -/
theorem mul64_correct (s : Bool) (x y : W64) (hx : Canon s x) (hy : Canon s y) :
    toBV (mul64 s x y) = toBV x * toBV y ∧ Canon s (mul64 s x y) := by
  refine ⟨?_, mk64_canon s _ _⟩
  unfold mul64
  simp only []
  rw [toBV_mk64]
  simp only [toBV, ← BitVec.ofInt_mul]
  apply ofInt64_congr
  exact mul64_words x y hx.2 hy.2

/-- `scheme64Bin … .mul` is `$mul64` -/
theorem mul64_scheme (s : Bool) (x y : W64) (hx : Canon s x) (hy : Canon s y) :
    (scheme64Bin s .mul x y).map toBV = some (toBV x * toBV y) := by
  simp only [scheme64Bin, Option.map, (mul64_correct s x y hx hy).1]

/-- FULL-STRENGTH statements for the remaining 64-bit helpers (NOT claimed, not proved here; the model is tied to the
    real helpers on the boundary grid, all shift counts 0..130 and random patterns, and compared with this spec) -/
def div64_correct_full : Prop :=
  ∀ (s : Bool) (x y : W64) (r : Bool), Canon s x → Canon s y →
    (div64 s x y r).map toBV = specBin s (if r then .rem else .quo) (toBV x) (toBV y)

def shift64_correct_full : Prop :=
  ∀ (s : Bool) (op : ShOp) (x : W64) (n : Nat), Canon s x →
    toBV (scheme64Shift s op x n) = specShift s op (toBV x) n

/-! ### the executable form of the shift specification -/

theorem ediv_big (x q : Int) (hq : 0 < q) (h : -q ≤ x ∧ x < q) : x / q = if x < 0 then -1 else 0 := by
  split
  · have := (Int.ediv_emod_unique hq (a := x) (q := -1) (r := x + q)).2 ⟨by omega, by omega, by omega⟩
    exact this.1
  · exact Int.ediv_eq_zero_of_lt (by omega) h.2

theorem pow_le_int {a b : Nat} (h : a ≤ b) : (2 : Int) ^ a ≤ (2 : Int) ^ b := by
  have := Nat.pow_le_pow_right (by omega : 0 < 2) h
  exact_mod_cast this

/-- the driver evaluates the shift spec on a clamped count (`GV.Driver.C06.clamp`); this does not change its value:
    a shift by any count ≥ w equals the shift by w (0, or the sign fill for `>>` on signed operands) -/
theorem specShift_clamp {w : Nat} (s : Bool) (op : ShOp) (a : BitVec w) (n : Nat) :
    specShift s op a n = specShift s op a (if n ≥ w then w else n) := by
  by_cases h : n ≥ w
  · simp only [h, if_true]
    cases op
    · simp only [specShift]
      rw [BitVec.shiftLeft_eq_zero h, BitVec.shiftLeft_eq_zero (Nat.le_refl w)]
    · cases s
      · simp only [specShift, Bool.false_eq_true, if_false]
        rw [BitVec.ushiftRight_eq_zero h, BitVec.ushiftRight_eq_zero (Nat.le_refl w)]
      · simp only [specShift, if_true]
        apply BitVec.eq_of_toInt_eq
        rw [BitVec.toInt_sshiftRight, BitVec.toInt_sshiftRight, Int.shiftRight_eq_div_pow, Int.shiftRight_eq_div_pow]
        have h1 := a.le_toInt; have h2 := a.toInt_lt
        have p1 : (2 : Int) ^ (w - 1) ≤ (2 : Int) ^ w := pow_le_int (by omega)
        have p2 : (2 : Int) ^ w ≤ (2 : Int) ^ n := pow_le_int h
        have p0 : (0 : Int) < (2 : Int) ^ (w - 1) := by have := Nat.two_pow_pos (w - 1); exact_mod_cast this
        rw [Int.natCast_pow, Int.natCast_pow]
        simp only [Int.cast_ofNat_Int]
        rw [ediv_big a.toInt ((2 : Int) ^ n) (by omega) (by constructor <;> omega), ediv_big a.toInt ((2 : Int) ^ w) (by omega) (by constructor <;> omega)]
  · simp only [h, if_false]

end GV.Props.C06
