import GV.Model.JSInt
import GV.Model.Num64
import GV.Model.NumScheme
import GV.Spec.Num
import GV.Model.F32
import GV.Proofs.Num
import GV.Proofs.Num64
import GV.Proofs.NumBits
import GV.Proofs.Shift64
import GV.Proofs.Div64

/-!
  GV.Props.C06 — fixed-width integer arithmetic is exact.

  Operands are the canonical JS representatives `x y : Int` with `InRange τ x`; the specification is evaluated on
  `bv τ x = BitVec.ofInt τ.bits x` (a bijection between in-range integers and bit vectors: `valOf_bv`), so every
  theorem quantifies over ALL operand values of the type.
-/
set_option linter.unusedSimpArgs false

namespace GV.Props.C06
open GV.JSInt GV.Num64 GV.NumScheme GV.Spec.Num GV.Proofs.Num GV.Proofs.Num64 GV.Proofs.NumBits

/-- the value of a type as a bit vector -/
abbrev bv (τ : ITy) (x : Int) : BitVec τ.bits := BitVec.ofInt τ.bits x

/-- what the specification demands, rendered as an emitted-expression outcome (canonical number, never -0) -/
def specRes (τ : ITy) (r : Option (BitVec τ.bits)) : Res :=
  match r with
  | some v => .ok (.int (valOf τ.signed v))
  | none => .panic

/-- in-range integers are exactly the values of bit vectors -/
theorem valOf_bv (τ : ITy) (x : Int) (hx : InRange τ x) : valOf τ.signed (bv τ x) = x := by
  cases τ <;> simp only [valOf, bv, ITy.signed, BitVec.toInt_ofInt, BitVec.toNat_ofInt, if_true, if_false, Bool.false_eq_true] <;>
    simp only [InRange, ITy.signed, ITy.bits, Int.bmod_def, Nat.reducePow, Nat.reduceSub, Int.reducePow, Int.reduceNeg, if_true, if_false,
      Bool.false_eq_true, Int.cast_ofNat_Int] at * <;> omega

theorem valOf_inRange (τ : ITy) (a : BitVec τ.bits) : InRange τ (valOf τ.signed a) := by
  have h1 := a.le_toInt; have h2 := a.toInt_lt; have h3 := a.isLt
  cases τ <;> simp only [InRange, valOf, ITy.signed, ITy.bits, if_true, if_false, Bool.false_eq_true] at * <;>
    first | exact ⟨h1, h2⟩ | exact ⟨Int.natCast_nonneg _, by exact_mod_cast h3⟩

theorem bv_valOf (τ : ITy) (a : BitVec τ.bits) : bv τ (valOf τ.signed a) = a := by
  cases τ <;> simp [bv, valOf, ITy.signed]

set_option hygiene false in
/-- normalisation used by the per-operator proofs: spec side to integer arithmetic via the `BitVec` lemmas
    (phase 1, widths still symbolic), then scheme side and numerals (phase 2). Expects `ex ey hx hy`. -/
macro "c06_norm" : tactic => `(tactic| (
  simp only [bv, valOf, ITy.signed, if_true, if_false, Bool.false_eq_true, reduceIte] at ex ey
  simp only [schemeBin, schemeUn, specBin, specUn, specRes, bv, valOf, ITy.signed, BitVec.toInt_add, BitVec.toInt_sub, BitVec.toInt_mul,
    BitVec.toInt_neg, BitVec.toNat_add, BitVec.toNat_sub, BitVec.toNat_mul, BitVec.toNat_neg, BitVec.toInt_not, BitVec.toNat_not,
    if_true, if_false, Bool.false_eq_true, reduceIte,
    Int.natCast_add, Int.natCast_mul, Int.natCast_emod, imul_eq, mul_toInt, ex, ey]
  simp only [InRange, ITy.signed, ITy.bits, fixNumber, fix8s, fix8u, fix16s,
    fix16u, fix32s, fix32u, Int.bmod_def, toInt32, toUint32, bnot, Res.ok.injEq, JSNum.int.injEq,
    Nat.reducePow, Nat.reduceSub,
    Nat.reduceAdd, Nat.reduceDiv, Int.reducePow, Int.reduceNeg, if_true, if_false, Bool.false_eq_true, reduceIte,
    Int.natCast_pow, Int.cast_ofNat_Int] at *))


/-! ### Binary arithmetic -/

theorem add_correct (τ : ITy) (x y : Int) (hx : InRange τ x) (hy : InRange τ y) :
    schemeBin τ .add x y = specRes τ (specBin τ.signed .add (bv τ x) (bv τ y)) := by
  have ex := valOf_bv τ x hx; have ey := valOf_bv τ y hy
  cases τ <;> c06_norm <;> omega

theorem sub_correct (τ : ITy) (x y : Int) (hx : InRange τ x) (hy : InRange τ y) :
    schemeBin τ .sub x y = specRes τ (specBin τ.signed .sub (bv τ x) (bv τ y)) := by
  have ex := valOf_bv τ x hx; have ey := valOf_bv τ y hy
  cases τ <;> c06_norm <;> omega

theorem mul_correct (τ : ITy) (x y : Int) (hx : InRange τ x) (hy : InRange τ y) :
    schemeBin τ .mul x y = specRes τ (specBin τ.signed .mul (bv τ x) (bv τ y)) := by
  have ex := valOf_bv τ x hx; have ey := valOf_bv τ y hy
  cases τ <;> c06_norm <;> omega


/-! ### Division and remainder -/

theorem bv_eq_zero (τ : ITy) (y : Int) (hy : InRange τ y) : bv τ y = 0 ↔ y = 0 := by
  constructor
  · intro h
    have := valOf_bv τ y hy
    rw [h] at this
    cases τ <;> simpa [valOf, ITy.signed] using this.symm
  · intro h; subst h; cases τ <;> simp [bv]

theorem tdiv_range (x y B : Int) (hx : -B ≤ x ∧ x < B) (hne : ¬(x = -B ∧ y = -1)) :
    -B ≤ x.tdiv y ∧ x.tdiv y < B := by
  have hb := tdiv_bounds x y
  refine ⟨by omega, ?_⟩
  by_cases hq : x.tdiv y = B
  · exfalso
    have hxB : x = -B := by omega
    have hna : (x.tdiv y).natAbs = x.natAbs := by omega
    rcases tdiv_natAbs_eq x y hna (by omega) with h1 | h1
    · rw [h1, Int.tdiv_one] at hq; omega
    · exact hne ⟨hxB, h1⟩
  · omega

theorem unsigned_range (τ : ITy) (x : Int) (hs : τ.signed = false) (hx : InRange τ x) : 0 ≤ x ∧ x < 4294967296 := by
  cases τ <;> simp only [ITy.signed] at hs <;> try cases hs
  all_goals (simp only [InRange, ITy.signed, ITy.bits, Bool.false_eq_true, if_false, Nat.reducePow, Int.reducePow] at hx; omega)

theorem signed_range (τ : ITy) (x : Int) (hs : τ.signed = true) (hx : InRange τ x) : -2147483648 ≤ x ∧ x < 2147483648 := by
  cases τ <;> simp only [ITy.signed] at hs <;> try cases hs
  all_goals (simp only [InRange, ITy.signed, ITy.bits, if_true, Nat.reducePow, Nat.reduceSub, Int.reducePow] at hx; omega)


/-! ### Unary operators -/

theorem toNat_bv (τ : ITy) (x : Int) : ((bv τ x).toNat : Int) = x % (2 ^ τ.bits : Nat) := by
  simp only [bv, BitVec.toNat_ofInt]
  exact Int.toNat_of_nonneg (Int.emod_nonneg _ (by have := Nat.two_pow_pos τ.bits; omega))

theorem neg_toInt (x : Int) : (JSInt.neg x).toInt = -x := by
  unfold JSInt.neg; split
  · next h => subst h; rfl
  · rfl


theorem not_correct (τ : ITy) (x : Int) (hx : InRange τ x) :
    schemeUn τ .not x = .int (valOf τ.signed (specUn .not (bv τ x))) := by
  have ex := valOf_bv τ x hx
  have en := toNat_bv τ x
  cases τ <;>
    simp only [bv, valOf, ITy.signed, if_true, if_false, Bool.false_eq_true, reduceIte] at ex en <;>
    simp only [schemeUn, specUn, bv, valOf, ITy.signed, BitVec.toInt_not, BitVec.toNat_not, if_true, if_false, Bool.false_eq_true, reduceIte, en] <;>
    simp only [InRange, ITy.signed, ITy.bits, fixNumber, fix8s, fix8u, fix16s, fix16u, fix32s, fix32u, Int.bmod_def, toInt32, toUint32, bnot,
      JSNum.int.injEq, Nat.reducePow, Nat.reduceSub, Nat.reduceAdd, Nat.reduceDiv, Int.reducePow, Int.reduceNeg, if_true, if_false,
      Bool.false_eq_true, reduceIte, Int.cast_ofNat_Int] at * <;>
    omega

/-! ### fixNumber, conversions, comparisons -/

/-- the value range wrap of a type -/
def wrap (τ : ITy) (v : Int) : Int := if τ.signed then v.bmod (2 ^ τ.bits) else v % (2 ^ τ.bits : Nat)

/-- `fixNumber` (expressions.go:1363-1384) is the two's-complement wrap, for EVERY integer argument -/
theorem fixNumber_wrap (τ : ITy) (v : Int) : fixNumber τ v = wrap τ v := by
  cases τ <;>
    simp only [wrap, fixNumber, fix8s, fix8u, fix16s, fix16u, fix32s, fix32u, ITy.signed, ITy.bits, Int.bmod_def, toInt32, toUint32,
      Nat.reducePow, Nat.reduceAdd, Nat.reduceDiv, if_true, if_false, Bool.false_eq_true, reduceIte, Int.cast_ofNat_Int] <;>
    omega

theorem wrap_inRange (τ : ITy) (v : Int) : InRange τ (wrap τ v) := by
  cases τ <;>
    simp only [wrap, InRange, ITy.signed, ITy.bits, Int.bmod_def, Nat.reducePow, Nat.reduceSub, Nat.reduceAdd, Nat.reduceDiv, Int.reducePow,
      Int.reduceNeg, if_true, if_false, Bool.false_eq_true, reduceIte, Int.cast_ofNat_Int] <;>
    omega

theorem valOf_ofInt (τ : ITy) (v : Int) : valOf τ.signed (BitVec.ofInt τ.bits v) = wrap τ v := by
  cases hs : τ.signed
  · simp only [valOf, wrap, hs, Bool.false_eq_true, if_false, BitVec.toNat_ofInt]
    exact Int.toNat_of_nonneg (Int.emod_nonneg _ (by have := Nat.two_pow_pos τ.bits; omega))
  · simp only [valOf, wrap, hs, if_true, BitVec.toInt_ofInt]

/-- conversions between the non-64-bit integer types: truncate / sign-extend / zero-extend (every ordered pair) -/
theorem conv_correct (src dst : ITy) (x : Int) (hx : InRange src x) :
    conv dst x = valOf dst.signed (specConv src.signed (bv src x) dst.bits) := by
  have ex := valOf_bv src x hx
  rw [conv, fixNumber_wrap]
  cases hs : src.signed
  · simp only [hs, valOf, Bool.false_eq_true, if_false] at ex
    simp only [specConv, hs, Bool.false_eq_true, if_false]
    cases hd : dst.signed
    · simp only [valOf, wrap, hd, Bool.false_eq_true, if_false, BitVec.toNat_setWidth, Int.natCast_emod, ex, Int.natCast_pow]
    · simp only [valOf, wrap, hd, if_true, BitVec.toInt_setWidth, ex]
  · simp only [hs, valOf, if_true] at ex
    simp only [specConv, hs, if_true, BitVec.signExtend, ex]
    exact (valOf_ofInt dst x).symm

/-- comparisons: `===`, `<`, … on the canonical representatives decide the Go comparison -/
theorem cmp_correct (τ : ITy) (op : CmpOp) (x y : Int) (hx : InRange τ x) (hy : InRange τ y) :
    schemeCmp op x y = specCmp τ.signed op (bv τ x) (bv τ y) := by
  have ex := valOf_bv τ x hx; have ey := valOf_bv τ y hy
  have hne : (bv τ x = bv τ y) ↔ x = y := ⟨fun h => by rw [← ex, ← ey, h], fun h => by rw [h]⟩
  have hbeq : (bv τ x == bv τ y) = decide (x = y) := by
    by_cases h : x = y
    · simp [h]
    · have : ¬ bv τ x = bv τ y := fun h' => h (hne.1 h')
      simp [h, this]
  cases hs : τ.signed <;> simp only [hs, valOf, Bool.false_eq_true, if_false, if_true] at ex ey
  · have hx0 := (unsigned_range τ x hs hx).1; have hy0 := (unsigned_range τ y hs hy).1
    have e1 : ((bv τ x).toNat < (bv τ y).toNat) ↔ x < y := by omega
    have e2 : ((bv τ x).toNat ≤ (bv τ y).toNat) ↔ x ≤ y := by omega
    have e3 : ((bv τ y).toNat < (bv τ x).toNat) ↔ y < x := by omega
    have e4 : ((bv τ y).toNat ≤ (bv τ x).toNat) ↔ y ≤ x := by omega
    cases op <;> simp only [schemeCmp, specCmp, hs, Bool.false_eq_true, if_false, BitVec.ult, BitVec.ule, bne, hbeq, e1, e2, e3, e4,
      GT.gt, GE.ge]
  · cases op <;> simp only [schemeCmp, specCmp, hs, if_true, BitVec.slt, BitVec.sle, bne, hbeq, ex, ey, GT.gt, GE.ge]


/-! ### Division, remainder, unary minus (full strength after the fixes C06-quo-fixup, C06-rem-fixup, C06-unary-minus) -/

theorem wrap_id (τ : ITy) (v : Int) (h : InRange τ v) : wrap τ v = v := by
  cases τ <;>
    simp only [wrap, InRange, ITy.signed, ITy.bits, Int.bmod_def, Nat.reducePow, Nat.reduceSub, Nat.reduceAdd, Nat.reduceDiv, Int.reducePow,
      Int.reduceNeg, if_true, if_false, Bool.false_eq_true, reduceIte, Int.cast_ofNat_Int] at * <;>
    omega

/-- `wrap` only looks at the argument modulo 2^w -/
theorem wrap_congr (τ : ITy) {u v : Int} (h : u % ((2 ^ τ.bits : Nat) : Int) = v % ((2 ^ τ.bits : Nat) : Int)) : wrap τ u = wrap τ v := by
  unfold wrap
  cases τ.signed
  · simpa using h
  · simp only [if_true]; rw [← Int.emod_bmod u, h, Int.emod_bmod]

theorem inRange_unsigned_le (τ : ITy) (x v : Int) (hs : τ.signed = false) (hx : InRange τ x) (h : 0 ≤ v ∧ v ≤ x) : InRange τ v := by
  cases τ <;> simp only [ITy.signed] at hs <;> try cases hs
  all_goals (simp only [InRange, ITy.signed, ITy.bits, Bool.false_eq_true, if_false, Int.reducePow] at *; omega)

theorem inRange_signed_between (τ : ITy) (x v : Int) (hs : τ.signed = true) (hx : InRange τ x)
    (h : (0 ≤ x → 0 ≤ v ∧ v ≤ x) ∧ (x ≤ 0 → x ≤ v ∧ v ≤ 0)) : InRange τ v := by
  cases τ <;> simp only [ITy.signed] at hs <;> try cases hs
  all_goals (simp only [InRange, ITy.signed, ITy.bits, if_true, Nat.reduceSub, Int.reducePow] at *; omega)

theorem quo_correct (τ : ITy) (x y : Int) (hx : InRange τ x) (hy : InRange τ y) :
    schemeBin τ .quo x y = specRes τ (specBin τ.signed .quo (bv τ x) (bv τ y)) := by
  have ex := valOf_bv τ x hx; have ey := valOf_bv τ y hy
  have hz := bv_eq_zero τ y hy
  by_cases hy0 : y = 0
  · subst hy0
    have hb : bv τ 0 = 0 := hz.2 rfl
    simp only [schemeBin, JSInt.div, specBin, hb, specRes, if_true]
  · have hb : ¬ bv τ y = 0 := fun h => hy0 (hz.1 h)
    simp only [schemeBin, JSInt.div, hy0, specBin, hb, specRes, if_false]
    rw [fixNumber_wrap]
    cases hs : τ.signed
    · have hx0 : 0 ≤ x := (unsigned_range τ x hs hx).1
      have hy1 : 0 < y := by have := (unsigned_range τ y hs hy).1; omega
      simp only [hs, valOf, if_false, Bool.false_eq_true] at ex ey ⊢
      rw [BitVec.toNat_udiv, Int.natCast_ediv, ex, ey, Int.tdiv_eq_ediv_of_nonneg hx0]
      have h1 : 0 ≤ x / y := Int.ediv_nonneg hx0 (by omega)
      have h2 : x / y ≤ x := Int.ediv_le_self y hx0
      rw [wrap_id τ _ (inRange_unsigned_le τ x _ hs hx ⟨h1, h2⟩)]
    · simp only [hs, valOf, if_true] at ex ey ⊢
      rw [BitVec.toInt_sdiv, ex, ey]
      simp only [wrap, hs, if_true]

theorem tmod_between (x y : Int) :
    (0 ≤ x → 0 ≤ x.tmod y ∧ x.tmod y ≤ x) ∧ (x ≤ 0 → x ≤ x.tmod y ∧ x.tmod y ≤ 0) := by
  have h1 := Int.natAbs_tmod x y
  have h2 : (x.tmod y).natAbs ≤ x.natAbs := by rw [h1]; exact Nat.mod_le _ _
  constructor
  · intro h; have := Int.tmod_nonneg y h; omega
  · intro h
    have h3 := Int.tmod_nonneg y (show 0 ≤ -x by omega)
    rw [Int.neg_tmod] at h3
    omega

theorem rem_correct (τ : ITy) (x y : Int) (hx : InRange τ x) (hy : InRange τ y) :
    schemeBin τ .rem x y = specRes τ (specBin τ.signed .rem (bv τ x) (bv τ y)) := by
  have ex := valOf_bv τ x hx; have ey := valOf_bv τ y hy
  have hz := bv_eq_zero τ y hy
  by_cases hy0 : y = 0
  · subst hy0
    have hb : bv τ 0 = 0 := hz.2 rfl
    simp only [schemeBin, JSInt.rem, specBin, hb, specRes, if_true]
  · have hb : ¬ bv τ y = 0 := fun h => hy0 (hz.1 h)
    have hr : ∃ r, JSInt.rem x y = some r ∧ r.toInt = x.tmod y := by
      unfold JSInt.rem; rw [if_neg hy0]
      by_cases hzr : x.tmod y = 0 ∧ x < 0
      · rw [if_pos hzr]; exact ⟨_, rfl, by simp [JSNum.toInt, hzr.1]⟩
      · rw [if_neg hzr]; exact ⟨_, rfl, rfl⟩
    obtain ⟨r, hr1, hr2⟩ := hr
    simp only [schemeBin, hr1, hr2, specBin, hb, specRes, if_false]
    rw [fixNumber_wrap]
    cases hs : τ.signed
    · have hx0 : 0 ≤ x := (unsigned_range τ x hs hx).1
      have hb := (tmod_between x y).1 hx0
      rw [wrap_id τ _ (inRange_unsigned_le τ x _ hs hx hb)]
      simp only [hs, valOf, if_false, Bool.false_eq_true] at ex ey ⊢
      rw [BitVec.toNat_umod, Int.natCast_emod, ex, ey, Int.tmod_eq_emod_of_nonneg hx0]
    · rw [wrap_id τ _ (inRange_signed_between τ x _ hs hx (tmod_between x y))]
      simp only [hs, valOf, if_true] at ex ey ⊢
      rw [BitVec.toInt_srem, ex, ey]

theorem neg_correct (τ : ITy) (x : Int) (hx : InRange τ x) :
    schemeUn τ .neg x = .int (valOf τ.signed (specUn .neg (bv τ x))) := by
  have ex := valOf_bv τ x hx
  simp only [schemeUn, neg_toInt, specUn]
  rw [fixNumber_wrap]
  cases hs : τ.signed
  · simp only [hs, valOf, Bool.false_eq_true, if_false] at ex ⊢
    have h4 := (bv τ x).isLt
    rw [BitVec.toNat_neg]
    have : wrap τ (-x) = (-x) % ((2 ^ τ.bits : Nat) : Int) := by simp only [wrap, hs, Bool.false_eq_true, if_false]
    rw [this]
    congr 1
    generalize (bv τ x).toNat = k at *
    generalize 2 ^ τ.bits = m at *
    subst ex
    rw [Int.natCast_emod, Int.natCast_sub (by omega), Int.sub_emod, Int.emod_self, Int.zero_sub,
      Int.emod_eq_of_lt (Int.natCast_nonneg k) (by exact_mod_cast h4)]
  · simp only [hs, valOf, if_true] at ex ⊢
    rw [BitVec.toInt_neg, ex]
    simp only [wrap, hs, if_true]


/-! ### Bitwise operators & | ^ &^ -/

theorem bits_le (τ : ITy) : τ.bits ≤ 32 ∧ 0 < τ.bits := by cases τ <;> simp [ITy.bits]

/-- the operators that are not arithmetic: & | ^ &^ -/
def isArith : BinOp → Bool
  | .add | .sub | .mul | .quo | .rem => true
  | _ => false

theorem bitwise_correct (τ : ITy) (op : BinOp) (x y : Int) (hop : isArith op = false) (hx : InRange τ x) (hy : InRange τ y) :
    schemeBin τ op x y = specRes τ (specBin τ.signed op (bv τ x) (bv τ y)) := by
  have ex := valOf_bv τ x hx; have ey := valOf_bv τ y hy
  obtain ⟨hw, h0⟩ := bits_le τ
  have hin := valOf_inRange τ
  generalize bv τ x = a at *; generalize bv τ y = b at *
  cases hs : τ.signed <;> simp only [hs, valOf, Bool.false_eq_true, if_false, if_true] at ex ey hin <;> subst ex <;> subst ey
  · have hwr : ∀ v, wrap τ v = v % ((2 ^ τ.bits : Nat) : Int) := fun v => by simp only [wrap, hs, Bool.false_eq_true, if_false]
    cases op <;> simp only [isArith] at hop <;> try cases hop
    · simp only [schemeBin, hs, specBin, specRes, valOf, Bool.false_eq_true, if_false]
      rw [band_toNat, fix32u, toUint32_setWidth hw]
    · simp only [schemeBin, hs, specBin, specRes, valOf, Bool.false_eq_true, if_false]
      rw [bor_toNat, fix32u, toUint32_setWidth hw]
    · simp only [schemeBin, hs, specBin, specRes, valOf, Bool.false_eq_true, if_false]
      rw [bxor_toNat, fixNumber_wrap, hwr, setWidth_toInt_emod hw]
    · simp only [schemeBin, hs, specBin, specRes, valOf, Bool.false_eq_true, if_false]
      rw [bandnot_toNat, fixNumber_wrap, hwr, setWidth_toInt_emod hw]
  · cases op <;> simp only [isArith] at hop <;> try cases hop
    · simp only [schemeBin, hs, specBin, specRes, valOf, if_true]
      rw [band_toInt hw]
    · simp only [schemeBin, hs, specBin, specRes, valOf, if_true]
      rw [bor_toInt hw]
    · simp only [schemeBin, hs, specBin, specRes, valOf, if_true]
      rw [bxor_toInt hw, fixNumber_wrap, wrap_id τ _ (hin _)]
    · simp only [schemeBin, hs, specBin, specRes, valOf, if_true]
      rw [bandnot_toInt hw h0, fixNumber_wrap, wrap_id τ _ (hin _)]

/-! ### the executable form of the shift specification -/

theorem ediv_big (x q : Int) (hq : 0 < q) (h : -q ≤ x ∧ x < q) : x / q = if x < 0 then -1 else 0 := by
  split
  · have := (Int.ediv_emod_unique hq (a := x) (q := -1) (r := x + q)).2 ⟨by omega, by omega, by omega⟩
    exact this.1
  · exact Int.ediv_eq_zero_of_lt (by omega) h.2

theorem pow_le_int {a b : Nat} (h : a ≤ b) : (2 : Int) ^ a ≤ (2 : Int) ^ b := by
  have := Nat.pow_le_pow_right (by omega : 0 < 2) h
  exact_mod_cast this

/-- the driver evaluates the shift spec on a clamped count (`GV.Driver.C06.clamp`); this does not change its value:
    a shift by any count ≥ w equals the shift by w (0, or the sign fill for `>>` on signed operands) -/
theorem specShift_clamp {w : Nat} (s : Bool) (op : ShOp) (a : BitVec w) (n : Nat) :
    specShift s op a n = specShift s op a (if n ≥ w then w else n) := by
  by_cases h : n ≥ w
  · simp only [h, if_true]
    cases op
    · simp only [specShift]
      rw [BitVec.shiftLeft_eq_zero h, BitVec.shiftLeft_eq_zero (Nat.le_refl w)]
    · cases s
      · simp only [specShift, Bool.false_eq_true, if_false]
        rw [BitVec.ushiftRight_eq_zero h, BitVec.ushiftRight_eq_zero (Nat.le_refl w)]
      · simp only [specShift, if_true]
        apply BitVec.eq_of_toInt_eq
        rw [BitVec.toInt_sshiftRight, BitVec.toInt_sshiftRight, Int.shiftRight_eq_div_pow, Int.shiftRight_eq_div_pow]
        have h1 := a.le_toInt; have h2 := a.toInt_lt
        have p1 : (2 : Int) ^ (w - 1) ≤ (2 : Int) ^ w := pow_le_int (by omega)
        have p2 : (2 : Int) ^ w ≤ (2 : Int) ^ n := pow_le_int h
        have p0 : (0 : Int) < (2 : Int) ^ (w - 1) := by have := Nat.two_pow_pos (w - 1); exact_mod_cast this
        rw [Int.natCast_pow, Int.natCast_pow]
        simp only [Int.cast_ofNat_Int]
        rw [ediv_big a.toInt ((2 : Int) ^ n) (by omega) (by constructor <;> omega), ediv_big a.toInt ((2 : Int) ^ w) (by omega) (by constructor <;> omega)]
  · simp only [h, if_false]



/-! ### Shifts by any non-negative count (constant or variable, any count type; a 64-bit count arrives through `$flatten64`) -/

theorem toInt32_emod_dvd (z m : Int) (hm : m ∣ 4294967296) : toInt32 z % m = z % m := by
  rw [← Int.emod_emod_of_dvd (toInt32 z) hm, toInt32_emod, Int.emod_emod_of_dvd z hm]

theorem pow_dvd_2_32 (τ : ITy) : (((2 ^ τ.bits : Nat) : Int)) ∣ 4294967296 := by
  cases τ <;> simp only [ITy.bits] <;> decide

theorem valOf_emod (τ : ITy) (a : BitVec τ.bits) :
    valOf τ.signed a % ((2 ^ τ.bits : Nat) : Int) = (a.toNat : Int) % ((2 ^ τ.bits : Nat) : Int) := by
  cases hs : τ.signed
  · simp only [valOf, Bool.false_eq_true, if_false]
  · simp only [valOf, if_true]; rw [BitVec.toInt_eq_toNat_bmod, Int.bmod_emod]

theorem valOf_shl (τ : ITy) (a : BitVec τ.bits) (n : Nat) :
    valOf τ.signed (a <<< n) = wrap τ ((a.toNat : Int) * 2 ^ n) := by
  cases hs : τ.signed
  · simp only [valOf, wrap, hs, Bool.false_eq_true, if_false, BitVec.toNat_shiftLeft, Nat.shiftLeft_eq, Int.natCast_emod,
      Int.natCast_mul, Int.natCast_pow, Int.cast_ofNat_Int]
  · simp only [valOf, wrap, hs, if_true, BitVec.toInt_shiftLeft, Nat.shiftLeft_eq, Int.natCast_mul, Int.natCast_pow,
      Int.cast_ofNat_Int]

theorem fixNumber_zero (τ : ITy) : fixNumber τ 0 = 0 := by
  rw [fixNumber_wrap]; apply wrap_id
  cases τ <;> simp [InRange, ITy.signed, ITy.bits]

theorem shl_case_lt (τ : ITy) (a : BitVec τ.bits) (n : Nat) (hn : n < 32) :
    fixNumber τ (shl (valOf τ.signed a) n) = valOf τ.signed (a <<< n) := by
  rw [fixNumber_wrap, valOf_shl]
  apply wrap_congr
  have hd := pow_dvd_2_32 τ
  unfold shl
  rw [shiftCount_lit n hn, toInt32_emod_dvd _ _ hd, Int.mul_emod, toInt32_emod_dvd _ _ hd, valOf_emod, ← Int.mul_emod]

theorem shl_case_ge (τ : ITy) (a : BitVec τ.bits) (n : Nat) (hn : 32 ≤ n) :
    (0 : Int) = valOf τ.signed (a <<< n) := by
  rw [valOf_shl]
  have hw := (bits_le τ).1
  have e : (2 : Int) ^ n = 2 ^ (n - τ.bits) * ((2 ^ τ.bits : Nat) : Int) := by
    simp only [Int.natCast_pow, Int.cast_ofNat_Int]; rw [← Int.pow_add]; congr 1; omega
  have h0 : ((a.toNat : Int) * 2 ^ n) % ((2 ^ τ.bits : Nat) : Int) = 0 % ((2 ^ τ.bits : Nat) : Int) := by
    rw [e, ← Int.mul_assoc, Int.mul_emod_left, Int.zero_emod]
  rw [wrap_congr τ h0]
  symm; apply wrap_id
  cases τ <;> simp [InRange, ITy.signed, ITy.bits]

theorem ediv_between (X p : Int) (hp : 0 < p) :
    (0 ≤ X → 0 ≤ X / p ∧ X / p ≤ X) ∧ (X ≤ 0 → X ≤ X / p ∧ X / p ≤ 0) := by
  constructor
  · intro h; exact ⟨Int.ediv_nonneg h (by omega), Int.ediv_le_self p h⟩
  · intro h
    refine ⟨Int.le_ediv_of_mul_le hp ?_, ?_⟩
    · have := Int.mul_le_mul_of_nonpos_left (a := X) (b := p) (c := 1) h (by omega)
      omega
    · by_cases h0 : X = 0
      · subst h0; simp
      · have := Int.ediv_neg_of_neg_of_pos (show X < 0 by omega) hp; omega

theorem two_pow_pos_int (n : Nat) : (0 : Int) < 2 ^ n := by
  have := Nat.two_pow_pos n; exact_mod_cast this

/-- signed `>>` by k ≤ 31 on an int32 value is floor division -/
theorem sar_small (X : Int) (k : Nat) (hk : k < 32) (hX : -2147483648 ≤ X ∧ X < 2147483648) : sar X k = X / 2 ^ k := by
  unfold sar; rw [shiftCount_lit k hk, toInt32_id hX]

theorem ediv_pow_ge31 (X : Int) (n : Nat) (hn : 31 ≤ n) (hX : -2147483648 ≤ X ∧ X < 2147483648) : X / 2 ^ n = X / 2 ^ 31 := by
  have p2 : (2 : Int) ^ 31 ≤ (2 : Int) ^ n := pow_le_int hn
  have e31 : (2 : Int) ^ 31 = 2147483648 := by decide
  rw [ediv_big X ((2 : Int) ^ n) (two_pow_pos_int n) (by constructor <;> omega),
    ediv_big X ((2 : Int) ^ 31) (two_pow_pos_int 31) (by constructor <;> omega)]

theorem sshr_case (τ : ITy) (hs : τ.signed = true) (a : BitVec τ.bits) (n k : Nat) (hk : k < 32) (hkn : k = n ∨ (k = 31 ∧ 31 ≤ n)) :
    fixNumber τ (sar a.toInt k) = (a.sshiftRight n).toInt := by
  have hin := valOf_inRange τ a
  simp only [valOf, hs, if_true] at hin
  have hX := signed_range τ a.toInt hs hin
  rw [sar_small _ k hk hX, BitVec.toInt_sshiftRight, Int.shiftRight_eq_div_pow, Int.natCast_pow, Int.cast_ofNat_Int]
  have e : a.toInt / 2 ^ k = a.toInt / 2 ^ n := by
    rcases hkn with h | ⟨h1, h2⟩
    · rw [h]
    · rw [h1, ediv_pow_ge31 _ n h2 hX]
  rw [e, fixNumber_wrap]
  exact wrap_id τ _ (inRange_signed_between τ a.toInt _ hs hin (ediv_between _ _ (two_pow_pos_int n)))

theorem ushr_case_lt (τ : ITy) (hs : τ.signed = false) (a : BitVec τ.bits) (n : Nat) (hn : n < 32) :
    fixNumber τ (shr (a.toNat : Int) n) = ((a >>> n).toNat : Int) := by
  have hin := valOf_inRange τ a
  simp only [valOf, hs, Bool.false_eq_true, if_false] at hin
  have hX := unsigned_range τ _ hs hin
  unfold shr
  rw [shiftCount_lit n hn, toUint32_id hX, BitVec.toNat_ushiftRight, Nat.shiftRight_eq_div_pow, Int.natCast_ediv, Int.natCast_pow,
    Int.cast_ofNat_Int, fixNumber_wrap]
  exact wrap_id τ _ (inRange_unsigned_le τ _ _ hs hin ((ediv_between _ _ (two_pow_pos_int n)).1 hX.1))

theorem ushr_case_ge (τ : ITy) (a : BitVec τ.bits) (n : Nat) (hn : 32 ≤ n) : (0 : Int) = ((a >>> n).toNat : Int) := by
  have hw := (bits_le τ).1
  rw [BitVec.toNat_ushiftRight, Nat.shiftRight_eq_div_pow]
  have : a.toNat < 2 ^ n := Nat.lt_of_lt_of_le a.isLt (Nat.pow_le_pow_right (by omega) (by omega))
  rw [Nat.div_eq_of_lt this]; rfl

/-- `shift_correct`: every shift scheme (constant or variable count) equals the specification for EVERY non-negative count,
    including counts ≥ the width and counts ≥ 2^32 (64-bit count types) -/
theorem shift_correct (τ : ITy) (op : ShOp) (c : Bool) (x : Int) (n : Nat) (hx : InRange τ x) :
    schemeShift τ op c x n = valOf τ.signed (specShift τ.signed op (bv τ x) n) := by
  have ex := valOf_bv τ x hx
  generalize bv τ x = a at *
  subst ex
  have hcast : ((n : Int) ≥ 32) ↔ 32 ≤ n := by omega
  have hcast' : ((n : Int) < 32) ↔ n < 32 := by omega
  cases op
  · -- shl
    simp only [schemeShift, specShift, jsShift, hcast, hcast', reduceCtorEq, false_and, if_false]
    by_cases hn : n < 32
    · have h1 : ¬ 32 ≤ n := by omega
      cases c <;> simp only [hn, h1, if_true, if_false, Bool.false_eq_true] <;> exact shl_case_lt τ a n hn
    · have h1 : 32 ≤ n := by omega
      cases c <;> simp only [hn, h1, if_true, if_false, Bool.false_eq_true, fixNumber_zero] <;> exact shl_case_ge τ a n h1
  · -- shr
    cases hs : τ.signed
    · simp only [schemeShift, specShift, jsShift, hs, hcast, hcast', Bool.false_eq_true, and_false, if_false, valOf]
      by_cases hn : n < 32
      · have h1 : ¬ 32 ≤ n := by omega
        cases c <;> simp only [hn, h1, if_true, if_false, Bool.false_eq_true] <;> exact ushr_case_lt τ hs a n hn
      · have h1 : 32 ≤ n := by omega
        cases c <;> simp only [hn, h1, if_true, if_false, Bool.false_eq_true, fixNumber_zero] <;> exact ushr_case_ge τ a n h1
    · simp only [schemeShift, specShift, jsShift, hs, hcast, hcast', and_self, if_true, valOf]
      by_cases hn : n < 32
      · have h1 : ¬ 32 ≤ n := by omega
        have hm : jsMin (n : Int) 31 = ((n : Nat) : Int) := by unfold jsMin; split <;> omega
        cases c <;> simp only [hn, h1, hm, if_true, if_false, Bool.false_eq_true] <;>
          exact sshr_case τ hs a n n hn (Or.inl rfl)
      · have h1 : 32 ≤ n := by omega
        have hm : jsMin (n : Int) 31 = ((31 : Nat) : Int) := by unfold jsMin; split <;> omega
        cases c <;> simp only [hn, h1, hm, if_true, if_false, Bool.false_eq_true] <;>
          exact sshr_case τ hs a n 31 (by omega) (Or.inr ⟨rfl, by omega⟩)

/-! ### Assembly: `scheme_correct` (every operator, full strength), `repr_inv`, the documented difference for negative counts -/

/-- `scheme_correct`: for every non-64-bit integer type, every binary operator and ALL in-range operand values the emitted
    expression computes what the Go specification demands (including the divide-by-zero panic). The operand shape (constant,
    variable, sub-expression) does not enter: all three render the same JS number, and sub-expression results are canonical
    again by `repr_inv`. -/
theorem scheme_correct (τ : ITy) (op : BinOp) (x y : Int) (hx : InRange τ x) (hy : InRange τ y) :
    schemeBin τ op x y = specRes τ (specBin τ.signed op (bv τ x) (bv τ y)) := by
  cases op
  · exact add_correct τ x y hx hy
  · exact sub_correct τ x y hx hy
  · exact mul_correct τ x y hx hy
  · exact quo_correct τ x y hx hy
  · exact rem_correct τ x y hx hy
  · exact bitwise_correct τ .and x y rfl hx hy
  · exact bitwise_correct τ .or x y rfl hx hy
  · exact bitwise_correct τ .xor x y rfl hx hy
  · exact bitwise_correct τ .andNot x y rfl hx hy

theorem scheme_un_correct (τ : ITy) (op : UnOp) (x : Int) (hx : InRange τ x) :
    schemeUn τ op x = .int (valOf τ.signed (specUn op (bv τ x))) := by
  cases op
  · exact neg_correct τ x hx
  · exact not_correct τ x hx

/-- DOCUMENTED, PERMITTED DIFFERENCE (property C01 lists "shifting by a negative count does not panic"): for a negative count of a
    signed count type Go panics (`specShiftInt … = none`), the emitted code computes the JS shift, which masks the count with 31. -/
theorem shift_negative_count_documented (τ : ITy) (op : ShOp) (x n : Int) (hn : n < 0) (a : BitVec τ.bits) :
    schemeShift τ op false x n = fixNumber τ (jsShift τ op x n) ∧ specShiftInt τ.signed op a n = none := by
  refine ⟨?_, by simp [specShiftInt, hn]⟩
  have hm : jsMin n 31 = n := by unfold jsMin; split <;> omega
  have h32 : n < 32 := by omega
  unfold schemeShift
  simp only [Bool.false_eq_true, if_false, hm, h32, if_true]
  split
  · next h => obtain ⟨h1, h2⟩ := h; subst h1; simp only [jsShift, h2, if_true]
  · rfl


/-- canonical-representative invariant: an outcome is a panic or a number in the range of the type that is not `-0` -/
def Canonical (τ : ITy) : Res → Prop
  | .ok (.int v) => InRange τ v
  | .ok .negZero => False
  | .panic => True

instance (τ : ITy) (r : Res) : Decidable (Canonical τ r) := by
  cases r with
  | panic => exact isTrue trivial
  | ok v => cases v with
    | int v => unfold Canonical; exact inferInstance
    | negZero => exact isFalse (fun h => h)

theorem specRes_canonical (τ : ITy) (r : Option (BitVec τ.bits)) : Canonical τ (specRes τ r) := by
  cases r with
  | none => trivial
  | some v => exact valOf_inRange τ v

/-- `repr_inv`: every binary scheme result is a panic or a canonical representative (in range, not `-0`) — all operators,
    all in-range operands -/
theorem repr_inv (τ : ITy) (op : BinOp) (x y : Int) (hx : InRange τ x) (hy : InRange τ y) : Canonical τ (schemeBin τ op x y) := by
  rw [scheme_correct τ op x y hx hy]; exact specRes_canonical τ _

theorem repr_inv_un (τ : ITy) (op : UnOp) (x : Int) (hx : InRange τ x) : Canonical τ (.ok (schemeUn τ op x)) := by
  rw [scheme_un_correct τ op x hx]; exact valOf_inRange τ _

theorem repr_inv_conv (dst : ITy) (x : Int) : InRange dst (conv dst x) := by
  rw [conv, fixNumber_wrap]; exact wrap_inRange dst x

/-- `fixNumber` yields a canonical representative for EVERY integer argument (so every scheme that ends in a
    fix-up — all shifts, `^`, `&^`, `+`, `-`, 8/16-bit `*` — returns an in-range number, never `-0`) -/
theorem repr_inv_fixNumber (τ : ITy) (v : Int) : InRange τ (fixNumber τ v) := by
  rw [fixNumber_wrap]; exact wrap_inRange τ v

/-- shift results are canonical for EVERY count (also the negative ones of the documented difference) -/
theorem repr_inv_shift (τ : ITy) (op : ShOp) (c : Bool) (x n : Int) : InRange τ (schemeShift τ op c x n) := by
  have h0 : InRange τ 0 := by cases τ <;> simp [InRange, ITy.signed, ITy.bits]
  unfold schemeShift
  repeat' split
  all_goals first | exact repr_inv_fixNumber τ _ | exact h0

/-! ### Repaired defects: the schemes before the fixes C06-unary-minus, C06-quo-fixup, C06-rem-fixup, C06-shr-const-count
    violated the specification at these witnesses (DESIGN.md section 7 and round 1 of this check) -/

theorem neg_min_counterexample_v0 :
    schemeNegV0 .int32 (-2147483648) ≠ .int (valOf true (specUn .neg (bv .int32 (-2147483648)))) := by decide

theorem neg_zero_counterexample_v0 : schemeNegV0 .int8 0 = .negZero := by decide

theorem quo_min_counterexample_v0 :
    schemeQuoV0 .int8 (-128) (-1) = .ok (.int 128) ∧ specRes .int8 (specBin true .quo (bv .int8 (-128)) (bv .int8 (-1))) = .ok (.int (-128)) := by
  decide

theorem rem_negzero_counterexample_v0 : schemeRemV0 (-4) 2 = .ok .negZero := by decide

theorem shr_const_count_counterexample_v0 :
    schemeShiftConstV0 .int8 .shr (-1) 32 = 0 ∧ valOf true (specShift true .shr (bv .int8 (-1)) 32) = -1 := by decide

/-- `exact_doubles`: every intermediate JS number of every binary scheme, on in-range operands, is an integer of
    magnitude ≤ 2^53 (so IEEE double arithmetic is exact on it) -/
theorem exact_doubles (τ : ITy) (op : BinOp) (x y : Int) (hx : InRange τ x) (hy : InRange τ y) :
    ∀ v ∈ schemeBinInter τ op x y, -two53 ≤ v ∧ v ≤ two53 := by
  have h32 : -2147483648 ≤ x ∧ x < 4294967296 ∧ -2147483648 ≤ y ∧ y < 4294967296 := by
    cases hs : τ.signed
    · have := unsigned_range τ x hs hx; have := unsigned_range τ y hs hy; omega
    · have := signed_range τ x hs hx; have := signed_range τ y hs hy; omega
  have hi32 : ∀ v, -two53 ≤ toInt32 v ∧ toInt32 v ≤ two53 := fun v => by
    have := toInt32_range v; unfold two53; omega
  intro v hv
  cases op <;> simp only [schemeBinInter] at hv
  · simp only [List.mem_singleton] at hv; subst hv; unfold two53; omega
  · simp only [List.mem_singleton] at hv; subst hv; unfold two53; omega
  · -- mul: 8/16-bit products are < 2^32; 32-bit products go through Math.imul
    cases τ <;> simp only [List.mem_singleton] at hv <;> subst hv <;>
      first
        | exact hi32 _
        | (simp only [InRange, ITy.signed, ITy.bits, if_true, if_false, Bool.false_eq_true, Nat.reduceSub, Int.reducePow, Int.reduceNeg] at hx hy
           unfold two53
           have h1 := Int.mul_le_mul_of_natAbs_le (x := x) (y := y) (s := 65536) (t := 65536) (by omega) (by omega)
           have h2 := Int.mul_le_mul_of_natAbs_le (x := -x) (y := y) (s := 65536) (t := 65536) (by omega) (by omega)
           rw [Int.neg_mul] at h2
           omega)
  · -- quo
    by_cases hy0 : y = 0
    · simp [JSInt.div, hy0] at hv
    · simp only [JSInt.div, hy0, if_false, List.mem_singleton] at hv; subst hv
      have := tdiv_bounds x y; unfold two53; omega
  · -- rem
    by_cases hy0 : y = 0
    · simp [JSInt.rem, hy0] at hv
    · by_cases hz : x.tmod y = 0 ∧ x < 0
      · simp only [JSInt.rem, hy0, hz, and_self, if_true, if_false, List.mem_singleton, JSNum.toInt] at hv; subst hv; simp [two53]
      · simp only [JSInt.rem, hy0, hz, if_false, List.mem_singleton, JSNum.toInt] at hv; subst hv
        have h1 := Int.natAbs_tmod x y
        have h2 : (x.tmod y).natAbs ≤ x.natAbs := by rw [h1]; exact Nat.mod_le _ _
        unfold two53; omega
  · simp only [List.mem_singleton] at hv; rw [hv]; unfold band; exact hi32 _
  · simp only [List.mem_singleton] at hv; rw [hv]; unfold bor; exact hi32 _
  · simp only [List.mem_singleton] at hv; rw [hv]; unfold bxor; exact hi32 _
  · simp only [List.mem_cons, List.mem_singleton, List.not_mem_nil, or_false] at hv
    rcases hv with hv | hv <;> rw [hv]
    · have := toInt32_range y; unfold bnot two53; omega
    · unfold band; exact hi32 _

/-- why `$imul` is needed: the plain product of two 32-bit operands is not an exact double -/
theorem exact_doubles_plain_mul_fails : ∃ x y : Int, InRange .uint32 x ∧ InRange .uint32 y ∧ ¬ (x * y ≤ two53) :=
  ⟨4294967295, 4294967295, by decide, by decide, by decide⟩


/-! ### 64-bit integers: constructor, inline schemes, `$mul64`, `$flatten64` -/

/-- the constructor (types.js:103-119) normalises ANY pair of integers to a canonical pair … -/
theorem mk64_canon (s : Bool) (h l : Int) : Canon s (mk64 s h l) := by
  cases s <;> simp only [Canon, mk64, toInt32, toUint32, if_true, if_false, Bool.false_eq_true] <;> (try split) <;> omega

theorem add64_correct (s : Bool) (x y : W64) :
    (scheme64Bin s .add x y).map toBV = some (toBV x + toBV y) := by
  simp only [scheme64Bin, Option.map]; rw [toBV_mk64]
  simp only [toBV, flatten64, ← BitVec.ofInt_add]
  congr 1; apply ofInt64_congr; congr 1; omega

theorem sub64_correct (s : Bool) (x y : W64) :
    (scheme64Bin s .sub x y).map toBV = some (toBV x - toBV y) := by
  simp only [scheme64Bin, Option.map]; rw [toBV_mk64]
  simp only [toBV, flatten64, BitVec.sub_eq_add_neg, ← BitVec.ofInt_neg, ← BitVec.ofInt_add]
  congr 1; apply ofInt64_congr; congr 1; omega

theorem neg64_correct (s : Bool) (x : W64) : toBV (scheme64Un s .neg x) = - toBV x := by
  simp only [scheme64Un]; rw [toBV_mk64]
  simp only [toBV, flatten64, ← BitVec.ofInt_neg]
  apply ofInt64_congr; congr 1; omega

/-- the value a canonical pair denotes, as a Go value -/
theorem valOf_toBV (s : Bool) (x : W64) (hx : Canon s x) : valOf s (toBV x) = flatten64 x := by
  cases s <;> simp only [Canon, if_true, if_false, Bool.false_eq_true] at hx <;>
    simp only [valOf, toBV, flatten64, BitVec.toInt_ofInt, BitVec.toNat_ofInt, Int.bmod_def, Nat.reducePow, Int.cast_ofNat_Int,
      if_true, if_false, Bool.false_eq_true] <;> omega

/-- `$flatten64`: for a canonical pair whose value has magnitude ≤ 2^53 the two intermediates are exact doubles:
    `$high * 4294967296` is a 32-bit integer scaled by a power of two, and the sum is the value itself -/
theorem flatten64_exact (s : Bool) (x : W64) (hx : Canon s x) (hv : -two53 ≤ valOf s (toBV x) ∧ valOf s (toBV x) ≤ two53) :
    flatten64 x = valOf s (toBV x) ∧ (-two53 ≤ flatten64 x ∧ flatten64 x ≤ two53) ∧
    (∃ k : Int, x.high * 4294967296 = k * 4294967296 ∧ -4294967296 < k ∧ k < 4294967296) := by
  rw [valOf_toBV s x hx] at hv
  refine ⟨(valOf_toBV s x hx).symm, hv, x.high, rfl, ?_⟩
  cases s <;> simp only [Canon, if_true, if_false, Bool.false_eq_true] at hx <;> omega

/-- … denoting `high * 2^32 + low` modulo 2^64 -/
theorem mk64_value (s : Bool) (h l : Int) : toBV (mk64 s h l) = BitVec.ofInt 64 (h * 4294967296 + l) := toBV_mk64 s h l

/-- `$mul64` (numeric.js:79-116): the 16-bit-limb product is the 64-bit wrap-around product, for all canonical operands,
    and the result is canonical -/
theorem mul64_correct (s : Bool) (x y : W64) (hx : Canon s x) (hy : Canon s y) :
    toBV (mul64 s x y) = toBV x * toBV y ∧ Canon s (mul64 s x y) := by
  refine ⟨?_, mk64_canon s _ _⟩
  unfold mul64
  simp only []
  rw [toBV_mk64]
  simp only [toBV, ← BitVec.ofInt_mul]
  apply ofInt64_congr
  exact mul64_words x y hx.2 hy.2

/-- `scheme64Bin … .mul` is `$mul64` -/
theorem mul64_scheme (s : Bool) (x y : W64) (hx : Canon s x) (hy : Canon s y) :
    (scheme64Bin s .mul x y).map toBV = some (toBV x * toBV y) := by
  simp only [scheme64Bin, Option.map, (mul64_correct s x y hx hy).1]


/-! ### 64-bit shifts: `$shiftLeft64`, `$shiftRightInt64`, `$shiftRightUint64` for EVERY count -/

/-- `shift64_correct`: the three shift helpers (numeric.js:37-77) equal the `BitVec 64` shifts for every canonical operand and
    every non-negative count (0, < 32, < 64, ≥ 64; a 64-bit count arrives through `$flatten64`), and return canonical pairs -/
theorem shift64_correct (s : Bool) (op : ShOp) (x : W64) (n : Nat) (hx : Canon s x) :
    toBV (scheme64Shift s op x n) = specShift s op (toBV x) n ∧ Canon s (scheme64Shift s op x n) := by
  constructor
  · cases op
    · exact GV.Proofs.Shift64.shl64_correct s x hx n
    · cases s
      · simp only [scheme64Shift, specShift, Bool.false_eq_true, if_false]
        exact GV.Proofs.Shift64.shrU64_correct x hx n
      · simp only [scheme64Shift, specShift, if_true]
        exact GV.Proofs.Shift64.shrS64_correct x hx n
  · cases op
    · simp only [scheme64Shift, shiftLeft64]
      repeat' split
      all_goals first | exact hx | exact mk64_canon s _ _
    · cases s
      · simp only [scheme64Shift, shiftRightUint64, Bool.false_eq_true, if_false]
        repeat' split
        all_goals first | exact hx | exact mk64_canon false _ _
      · simp only [scheme64Shift, shiftRightInt64, if_true]
        repeat' split
        all_goals first | exact hx | exact mk64_canon true _ _

/-! ### `$div64` -/

/-- `div64_correct`: `$div64` (numeric.js:118-177) is Go's truncated division (`returnRemainder = false`) / remainder (`true`) on
    `BitVec 64`, for ALL canonical operands of int64 (`s = true`) and uint64: it throws exactly when the divisor is zero,
    `MinInt64 / -1` wraps, the remainder takes the sign of the dividend; the result is a canonical pair.
    (Proof: `GV.Proofs.Div64` — the first loop terminates within the model's fuel and doubles |y| without overflow (`norm_spec`),
    the second loop keeps `|x| = q * (|y| * 2^m) + r`, `r < |y| * 2^m` (`loop_spec`), so the registers end with |x| / |y| and
    |x| % |y| (`magnitude_spec`); signs by `tdiv_abs`, `tmod_abs`.) -/
theorem div64_correct (s : Bool) (x y : W64) (r : Bool) (hx : Canon s x) (hy : Canon s y) :
    (div64 s x y r).map toBV = specBin s (if r then .rem else .quo) (toBV x) (toBV y) ∧
    (∀ z, div64 s x y r = some z → Canon s z) := by
  refine ⟨GV.Proofs.Div64.div64_correct s x y r hx hy, ?_⟩
  intro z hzz
  by_cases h0 : y.high = 0 ∧ y.low = 0
  · simp [div64, h0] at hzz
  · rw [GV.Proofs.Div64.div64_eq s x y r h0] at hzz
    split at hzz <;> (cases hzz; exact mk64_canon s _ _)

/-- termination of the first loop of `$div64` (numeric.js:148-152): on the magnitude of any canonical non-zero divisor the loop
    stops by itself — the model's 64 units of fuel are never used up (the second loop runs exactly n+1 times by construction) -/
theorem div64_norm_terminates (s : Bool) (y : W64) (hy : Canon s y) (hy0 : ¬ (y.high = 0 ∧ y.low = 0)) (xh xl : Int) :
    0 < (div64Norm 64 xh xl (magnitude y.high y.low).1 (magnitude y.high y.low).2 0).2.2.2 := by
  have hyl := hy.2
  have hyh : -2147483648 ≤ y.high ∧ y.high < 4294967296 := by
    have := hy.1; cases s <;> simp only [if_true, if_false, Bool.false_eq_true] at this <;> omega
  obtain ⟨myc, myv⟩ := GV.Proofs.Div64.magnitude_spec' y.high y.low hyh hyl
  apply GV.Proofs.Div64.div64Norm_fuel 64 xh xl _ _ 0 (by omega) myc.1 myc.2
  have : GV.Proofs.Div64.val (magnitude y.high y.low).1 (magnitude y.high y.low).2 =
      (magnitude y.high y.low).1 * 4294967296 + (magnitude y.high y.low).2 := rfl
  rw [← this, myv]
  simp only [Nat.sub_self, Int.pow_zero]
  split <;> omega

/-! ### float32: every operation is rounded, whatever the operand shape (abstract `$fround`) -/

section F32
open GV.F32
variable {D F : Type}

/-- `f32_nested`: the double computed by the emitted code for ANY float32 expression tree holds exactly the float32 value the Go
    specification defines (each operation rounded to single precision) — for every operand shape, because a sub-expression operand
    is itself emitted as `$fround(…)`. Only `$fround ∘ emb = id` on float32 values is used; the IEEE operations stay opaque. -/
theorem f32_nested (R : Rounding D F) (op : Op → D → D → D) (e : Expr F) : emit R op e = R.emb (evalSpec R op e) := by
  induction e with
  | val f => rfl
  | bin o a b iha ihb => simp only [emit, evalSpec, iha, ihb]

/-- storing / comparing / converting the result (`$fround` again, or reading the double as a float32) gives the specified value -/
theorem f32_nested_value (R : Rounding D F) (op : Op → D → D → D) (e : Expr F) : R.rnd (emit R op e) = evalSpec R op e := by
  rw [f32_nested, R.idem]

/-- rounding only the outermost operation is NOT equivalent (so the table obligation `f32_records_fround` is not vacuous): in the
    toy rounding Int → Int with `emb f = 4 f`, `rnd d = ⌊d / 4⌋` and an operation whose exact result falls between representable
    values, `(a + b) + c` differs -/
theorem f32_outer_only_differs :
    ∃ (R : Rounding Int Int) (op : Op → Int → Int → Int) (e : Expr Int), emitOuterOnly R op e ≠ R.emb (evalSpec R op e) := by
  refine ⟨⟨fun d => d / 4, fun f => 4 * f, fun f => by omega⟩, fun _ x y => x + y + 3,
    .bin .add (.bin .add (.val 1) (.val 1)) (.val 1), ?_⟩
  decide

end F32

end GV.Props.C06
