import GV.Model.JSInt
import GV.Model.Num64
import GV.Model.NumScheme
import GV.Spec.Num

namespace GV.Props.C06
end GV.Props.C06
