import GV.Props.C01
import GV.Generated.Keywords

/-!
  C01 — obligations over facts re-extracted from /repo on every run (GV/Generated/Keywords.lean is written by
  checks/c01.py: `reservedKeywords` through the hook `compiler.VerifC16ReservedKeywords`, `usedUnqualified` by scanning the
  JavaScript templates — string literals with statement / expression punctuation — of compiler/*.go for identifiers that
  are JavaScript globals or special names and are written unqualified: not after `.`, `$` or a format verb).
  If a keyword is deleted from compiler.go, or a template starts using another global unqualified, these no longer check.
-/
namespace GV.Props.C01
open GV.Generated

/-- ECMAScript 2015+ reserved words, future reserved words (also strict-mode ones), literals, and the two names strict
    mode forbids as binding identifiers -/
def esReserved : List String :=
  ["await", "break", "case", "catch", "class", "const", "continue", "debugger", "default", "delete", "do", "else", "enum",
   "export", "extends", "false", "finally", "for", "function", "if", "import", "in", "instanceof", "new", "null", "return",
   "super", "switch", "this", "throw", "true", "try", "typeof", "var", "void", "while", "with", "yield",
   "let", "static", "implements", "interface", "package", "private", "protected", "public", "arguments", "eval"]

/-- unqualified globals that are NOT reserved in the unchanged tree: the recorded findings -/
def knownMissing : List String := ["console", "Number", "Uint8Array", "DataView"]

/-- **reserved_covers_es** — every ECMAScript reserved word is in the list the code seeds the root context with -/
theorem reserved_covers_es : esReserved.all (fun w => reservedKeywords.contains w) = true := by decide

/-- the model's list (`GV.Names.reserved`, which `names_distinct_plain` is about) is exactly the extracted one -/
theorem reserved_model_exact :
    GV.Names.reserved.all (fun r => reservedKeywordBytes.contains r) = true ∧
    reservedKeywordBytes.all (fun r => GV.Names.reserved.contains r) = true := by decide

/-- full strength (NOT claimed): every identifier the generated code uses unqualified is reserved -/
def reserved_covers_used_full : Prop := usedUnqualified.all (fun w => reservedKeywords.contains w) = true

/-- … it fails: `console` (println), `Number`, `Uint8Array`, `DataView` are used unqualified and can be shadowed -/
theorem reserved_misses_console : "console" ∈ usedUnqualified ∧ "console" ∉ reservedKeywords := by decide

theorem reserved_covers_used_counterexample : ¬ reserved_covers_used_full := by
  unfold reserved_covers_used_full
  decide

/-- **reserved_covers_used_partial** — apart from the recorded ones, every unqualified identifier is reserved -/
theorem reserved_covers_used_partial :
    usedUnqualified.all (fun w => knownMissing.contains w || reservedKeywords.contains w) = true := by decide

/-- the exclusion is not vacuous: `arguments`, `this`, `undefined` are used unqualified and are reserved -/
example : "arguments" ∈ usedUnqualified ∧ "this" ∈ usedUnqualified ∧ "undefined" ∈ usedUnqualified ∧
    "arguments" ∈ reservedKeywords ∧ "this" ∈ reservedKeywords ∧ "undefined" ∈ reservedKeywords := by decide

end GV.Props.C01
