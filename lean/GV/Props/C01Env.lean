import GV.Props.C01
import GV.Generated.Keywords

/-!
  C01 — obligations over facts re-extracted from /repo on every run (GV/Generated/Keywords.lean is written by
  checks/c01.py):
    * `rootSeeded`       names with `allVars[name] > 0` in a fresh root function context (`newRootCtx`, probed through the
                         hook for every candidate name);
    * `reservedKeywords` the keyword list (`compiler.VerifC16ReservedKeywords`);
    * `usedUnqualified`  identifiers that are JavaScript globals (static list ∪ the own properties of Node's global object)
                         or special names and occur UNQUALIFIED — not after `.`, `$` or a format verb — in the JavaScript
                         templates of the code generator (string literals of compiler/**/*.go).
  If a keyword is deleted, or a template starts using another global by its bare name, these no longer check.
-/
namespace GV.Props.C01
open GV.Generated

/-- ECMAScript 2015+ reserved words, future reserved words (also strict-mode ones), literals, and the two names strict
    mode forbids as binding identifiers -/
def esReserved : List String :=
  ["await", "break", "case", "catch", "class", "const", "continue", "debugger", "default", "delete", "do", "else", "enum",
   "export", "extends", "false", "finally", "for", "function", "if", "import", "in", "instanceof", "new", "null", "return",
   "super", "switch", "this", "throw", "true", "try", "typeof", "var", "void", "while", "with", "yield",
   "let", "static", "implements", "interface", "package", "private", "protected", "public", "arguments", "eval"]

/-- **reserved_covers_es** — every ECMAScript reserved word is seeded into the root context -/
theorem reserved_covers_es : esReserved.all (fun w => rootSeeded.contains w) = true := by decide

/-- the model's list (`GV.NamesPlain.reservedAll`, which `names_distinct_plain` is about) is exactly the extracted one -/
theorem reserved_model_exact :
    GV.NamesPlain.reservedAll.all (fun r => rootSeededBytes.contains r) = true ∧
    rootSeededBytes.all (fun r => GV.NamesPlain.reservedAll.contains r) = true := by decide

/-- **reserved_covers_used** (full strength since the repair `fixes/C01-reserve-globals.patch`) — every identifier the
    generated code uses unqualified is seeded into the root context, hence (`names_distinct_plain`) never handed out to a
    Go object: no Go identifier can shadow a global the generated code relies on. -/
theorem reserved_covers_used : usedUnqualified.all (fun w => rootSeeded.contains w) = true := by decide

/-- REPAIRED DEFECT — the keyword list alone does not cover them: `console` (println) is used unqualified and is not a
    keyword; it is reserved through `reservedGlobals` now. -/
theorem keywords_alone_miss_console :
    "console" ∈ usedUnqualified ∧ "console" ∉ reservedKeywords ∧ "console" ∈ rootSeeded := by decide

/-- **escape_cutoff_is_loop_body** — `EscapingObjects` (compiler/internal/analysis/escape.go), which decides which captured /
    address-taken variables an enclosing loop body must box (`x = [x]`) so that every iteration gets its own instance, stops
    looking outwards at the scope of a nested loop's BODY — not at the scope of the whole `for` / `range` statement. The
    header variables of a nested loop (for-init variable, range key / value) therefore belong to the ENCLOSING loop body and are
    re-boxed each time the enclosing loop runs the nested statement again: one variable per execution of the statement
    (Go ≤ 1.21 semantics), which is what the driver's reference semantics (`GV.Driver.C01`, kind-10 actions) implements and
    the generated nested-capture programs observe. -/
theorem escape_cutoff_is_loop_body :
    escapeCutoffs = [("FuncLit", "n.Type"), ("ForStmt", "n.Body"), ("RangeStmt", "n.Body")] := by decide

/-- a template leaves an unsigned 32-bit result normalised (non-negative JS number) when it is the `… >>> 0` form or goes through
    `fixNumber` (which appends `>>> 0` for unsigned 32-bit types and masks the narrower ones) -/
def normalisedTemplate (e : String × String × String × Bool) : Bool :=
  e.2.2.2 || ["(%e %t %e) >>> 0"].contains e.2.2.1

/-- **unsigned_bitops_normalised** — "int, uint and uintptr are 32 bits wide": JavaScript's `&`, `|`, `^`, `~` yield SIGNED
    32-bit numbers, so every template `translateExpr` emits for `&`, `|`, `&^`, `^` on an unsigned operand type must
    re-normalise the result; a bare `x & mask` is negative whenever bit 31 survives (`0xDEADBEEF & 0xFFFF0000` = -559087616).
    Every `return` of those branches that can be reached for an unsigned type (guard `unsigned`, or no guard) is normalised,
    and the `&` / `|` branch has exactly the two templates below (no special case for constant operands). -/
theorem unsigned_bitops_normalised :
    (bitopTemplates.filter (fun e => e.2.1 == "unsigned" || e.1 != "AND,OR")).all normalisedTemplate = true ∧
    bitopTemplates.filter (fun e => e.1 == "AND,OR") =
      [("AND,OR", "unsigned", "(%e %t %e) >>> 0", false), ("AND,OR", "any", "%e %t %e", false)] := by decide

/-- the obligation is not vacuous -/
example : "arguments" ∈ usedUnqualified ∧ "this" ∈ usedUnqualified ∧ "undefined" ∈ usedUnqualified ∧
    "Uint8Array" ∈ usedUnqualified := by decide

end GV.Props.C01
