import GV.Model.Dce
import GV.Spec.Dce
