/-
  GV.Props.C05 — dead-code elimination never changes behaviour: the selection logic.

  Model: GV.Model.Dce (`select`, transcription of compiler/internal/dce/selector.go as driven by
  compiler.go:141-156; the inclusion order is the order of the list, the discipline of the pending list is
  the parameter `pick`).  Spec: GV.Spec.Dce (`Live`, the least set containing the roots and closed under
  "every non-empty filter occurs among the dependency names of members").

  All theorems are for ALL declaration lists (no bound, no uniqueness assumption on names or ids), all
  inclusion orders and all pending-list disciplines.

  NOT proved here (checked by the correspondence runs of checks/c05.py instead): that the translator records
  every dependency (`DeclareDCEDep` call sites) and that the filter names of filters.go identify a dependency
  with the declaration it refers to.
-/
import GV.Model.Dce
import GV.Spec.Dce
import GV.Proofs.Dce
import GV.Model.DceNames
import GV.Proofs.DceNames

namespace GV.Props.C05
open GV.Dce GV.Spec.Dce

/-- [EQ] The work-list selector selects exactly the least closed set. -/
theorem select_lfp (pick : Pick) (ds : List Decl) (d : Decl) : d ∈ select pick ds ↔ Live ds d :=
  GV.Proofs.Dce.select_spec pick ds d

/-- soundness: everything selected is forced by the roots and the recorded dependencies
(nothing is kept without a reason) -/
theorem select_sound (pick : Pick) (ds : List Decl) (d : Decl) (h : d ∈ select pick ds) : Live ds d :=
  (select_lfp pick ds d).1 h

/-- completeness: everything the closure rule demands is selected (nothing needed is dropped) -/
theorem select_complete (pick : Pick) (ds : List Decl) (d : Decl) (h : Live ds d) : d ∈ select pick ds :=
  (select_lfp pick ds d).2 h

/-- `Live` really is the least closed set — and therefore so is the selection. -/
theorem live_is_least_closed (pick : Pick) (ds : List Decl) :
    Closed ds (· ∈ select pick ds) ∧ ∀ L : Decl → Prop, Closed ds L → ∀ d, d ∈ select pick ds → L d := by
  constructor
  · have hc := live_closed ds
    exact ⟨fun d hd hr => select_complete pick ds d (hc.roots d hd hr),
      fun e he hf => select_complete pick ds e (hc.step e he fun f hff =>
        let ⟨d, hd, hdep⟩ := hf f hff
        ⟨d, select_sound pick ds d hd, hdep⟩)⟩
  · intro L hL d hd
    exact live_least ds L hL d (select_sound pick ds d hd)

/-- roots (alive, unnamed, go:linkname implementations) are always selected -/
theorem select_roots (pick : Pick) (ds : List Decl) (d : Decl) (hd : d ∈ ds) (hr : IsRoot d) : d ∈ select pick ds :=
  select_complete pick ds d ((live_closed ds).roots d hd hr)

/-- only included declarations are selected -/
theorem select_subset (pick : Pick) (ds : List Decl) (d : Decl) (h : d ∈ select pick ds) : d ∈ ds :=
  live_mem (select_sound pick ds d h)

/-- [IND] The selected set does not depend on the order in which declarations are included (nor on
multiplicity), nor on the discipline of the pending list (LIFO in the code). -/
theorem select_order_independent (pick₁ pick₂ : Pick) (ds₁ ds₂ : List Decl) (h : ∀ d, d ∈ ds₁ ↔ d ∈ ds₂) (d : Decl) :
    d ∈ select pick₁ ds₁ ↔ d ∈ select pick₂ ds₂ := by
  rw [select_lfp, select_lfp]
  exact live_congr h d

/-- the same for permutations of the inclusion order -/
theorem select_perm (pick₁ pick₂ : Pick) (ds₁ ds₂ : List Decl) (h : ds₁.Perm ds₂) (d : Decl) :
    d ∈ select pick₁ ds₁ ↔ d ∈ select pick₂ ds₂ :=
  select_order_independent pick₁ pick₂ ds₁ ds₂ (fun _ => h.mem_iff) d

/-- `mark` leaves a declaration as it is or sets its `alive` flag -/
def MarksMore (mark : Decl → Decl) : Prop := ∀ d, mark d = d ∨ mark d = { d with alive := true }

/-- Marking more declarations alive never removes one from the selection. -/
theorem select_monotone_alive (pick₁ pick₂ : Pick) (mark : Decl → Decl) (hm : MarksMore mark) (ds : List Decl)
    (d : Decl) (h : d ∈ select pick₁ ds) : mark d ∈ select pick₂ (ds.map mark) := by
  have hobj : ∀ x, (mark x).obj = x.obj := by intro x; rcases hm x with h | h <;> rw [h]
  have hmeth : ∀ x, (mark x).meth = x.meth := by intro x; rcases hm x with h | h <;> rw [h]
  have hdeps : ∀ x, (mark x).deps = x.deps := by intro x; rcases hm x with h | h <;> rw [h]
  have hroot : ∀ x, IsRoot x → IsRoot (mark x) := by
    intro x hr
    rcases hm x with h | h
    · rw [h]; exact hr
    · rw [h]; exact Or.inl (by simp [Decl.isAlive])
  apply select_complete
  apply select_sound pick₁ ds d h (fun x => Live (ds.map mark) (mark x))
  constructor
  · intro x hx hr
    exact (live_closed _).roots _ (List.mem_map_of_mem hx) (hroot x hr)
  · intro e he hf
    apply (live_closed _).step _ (List.mem_map_of_mem he)
    intro f hff
    have hff' : IsFilter e f := by
      refine ⟨hff.1, ?_⟩
      have h2 := hff.2
      rw [hobj, hmeth] at h2
      exact h2
    obtain ⟨x, hx, hdep⟩ := hf f hff'
    exact ⟨mark x, hx, by rw [hdeps]; exact hdep⟩

/-- `e` has the single DCE name `n` -/
def NamedExactly (e : Decl) (n : Name) : Prop :=
  n ≠ "" ∧ ((e.obj = n ∧ e.meth = "") ∨ (e.obj = "" ∧ e.meth = n))

/-- The hinge of "nothing still needed is removed": for every selected `d` and every dependency name `n`
recorded for `d`, every declaration named exactly `n` is selected. -/
theorem select_closed (pick : Pick) (ds : List Decl) (d e : Decl) (n : Name)
    (hd : d ∈ select pick ds) (hn : n ∈ d.deps) (he : e ∈ ds) (hname : NamedExactly e n) : e ∈ select pick ds := by
  apply select_complete
  apply (live_closed ds).step e he
  intro f hf
  refine ⟨d, select_sound pick ds d hd, ?_⟩
  rcases hname.2 with ⟨h1, h2⟩ | ⟨h1, h2⟩
  · rcases hf.2 with h | h
    · rw [h, h1]; exact hn
    · rw [h2] at h; exact absurd h hf.1
  · rcases hf.2 with h | h
    · rw [h1] at h; exact absurd h hf.1
    · rw [h, h2]; exact hn

/-- two-filter declarations (unexported methods): selected as soon as BOTH names are depended upon by selected
declarations (receiver type alive and the method signature used somewhere) -/
theorem select_closed_two (pick : Pick) (ds : List Decl) (d₁ d₂ e : Decl)
    (h₁ : d₁ ∈ select pick ds) (h₂ : d₂ ∈ select pick ds) (ho : e.obj ∈ d₁.deps) (hm : e.meth ∈ d₂.deps)
    (he : e ∈ ds) : e ∈ select pick ds := by
  apply select_complete
  apply (live_closed ds).step e he
  intro f hf
  rcases hf.2 with h | h
  · exact ⟨d₁, select_sound pick ds d₁ h₁, by rw [h]; exact ho⟩
  · exact ⟨d₂, select_sound pick ds d₂ h₂, by rw [h]; exact hm⟩

/-- ... and NOT selected (unless a root) while one of its names is depended upon by no selected declaration:
the selection is exact, not merely safe. -/
theorem select_exact (pick : Pick) (ds : List Decl) (e : Decl) (f : Name) (hf : IsFilter e f) (hr : ¬ IsRoot e)
    (hno : ∀ d, d ∈ select pick ds → f ∉ d.deps) : e ∉ select pick ds := by
  intro he
  have hl := select_sound pick ds e he
  -- the set "selected and different from e" is closed, contradicting minimality
  have := hl (fun x => x ∈ select pick ds ∧ x ≠ e) ⟨
    fun d hd hroot => ⟨select_roots pick ds d hd hroot, fun h => hr (h ▸ hroot)⟩,
    fun x hx hfx => by
      refine ⟨select_complete pick ds x ((live_closed ds).step x hx fun g hg =>
        let ⟨d, hd, hdep⟩ := hfx g hg
        ⟨d, select_sound pick ds d hd.1, hdep⟩), ?_⟩
      intro hxe
      subst hxe
      obtain ⟨d, hd, hdep⟩ := hfx f hf
      exact hno d hd.1 hdep⟩
  exact this.2 rfl

/-- The property's reference variant: with every declaration forced alive nothing is eliminated. -/
theorem select_all_alive (pick : Pick) (ds : List Decl) (hall : ∀ d, d ∈ ds → d.alive = true) (d : Decl) :
    d ∈ select pick ds ↔ d ∈ ds :=
  ⟨select_subset pick ds d, fun hd => select_roots pick ds d hd (Or.inl (by simp [Decl.isAlive, hall d hd]))⟩

/-- ... and the normal selection is always a subset of the all-alive one (DCE only removes). -/
theorem select_subset_all_alive (pick₁ pick₂ : Pick) (ds : List Decl) (d : Decl) (h : d ∈ select pick₁ ds) :
    { d with alive := true } ∈ select pick₂ (ds.map fun x => { x with alive := true }) :=
  select_monotone_alive pick₁ pick₂ (fun x => { x with alive := true }) (fun _ => Or.inr rfl) ds d h

/-! ### names only matter up to an injective renaming that keeps the empty name

The selector compares names for equality and against `""` only; the correspondence run interns the (long) filter
strings of the real archives before handing them to the model, which is justified by the following theorem. -/

/-- rename all filter and dependency names of a declaration -/
def rename (ρ : Name → Name) (d : Decl) : Decl :=
  { d with obj := ρ d.obj, meth := ρ d.meth, deps := d.deps.map ρ }

theorem select_renaming (pick₁ pick₂ : Pick) (ρ : Name → Name) (hinj : ∀ a b, ρ a = ρ b → a = b)
    (hempty : ∀ a, ρ a = "" ↔ a = "") (ds : List Decl) (d : Decl) :
    rename ρ d ∈ select pick₁ (ds.map (rename ρ)) ↔ d ∈ select pick₂ ds := by
  rw [select_lfp, select_lfp]
  have hroot : ∀ x, IsRoot (rename ρ x) ↔ IsRoot x := by
    intro x
    have : (rename ρ x).isAlive = x.isAlive := by
      simp only [Decl.isAlive, Decl.unnamed, rename]
      have hb : ∀ a : Name, (ρ a == "") = (a == "") := by
        intro a
        by_cases h : a = ""
        · subst h
          have := (hempty "").2 rfl
          rw [this]
        · have h' : ρ a ≠ "" := fun hh => h ((hempty a).1 hh)
          rw [beq_eq_false_iff_ne.2 h, beq_eq_false_iff_ne.2 h']
      rw [hb, hb]
    simp only [IsRoot, this]
    rfl
  have hreninj : ∀ a b, rename ρ a = rename ρ b → a = b := by
    intro a b h
    cases a; cases b
    simp only [rename, Decl.mk.injEq] at h ⊢
    obtain ⟨h1, h2, h3, h4, h5, h6⟩ := h
    refine ⟨h1, h2, h3, hinj _ _ h4, hinj _ _ h5, ?_⟩
    exact (List.map_inj_right hinj).1 h6
  constructor
  · intro hl
    have := hl (fun x => ∃ y, x = rename ρ y ∧ Live ds y) ⟨
      fun x hx hr => by
        obtain ⟨y, hy, rfl⟩ := List.mem_map.1 hx
        exact ⟨y, rfl, (live_closed ds).roots y hy ((hroot y).1 hr)⟩,
      fun e' he' hf => by
        obtain ⟨e, he, rfl⟩ := List.mem_map.1 he'
        refine ⟨e, rfl, (live_closed ds).step e he ?_⟩
        intro f hff
        have hfil : IsFilter (rename ρ e) (ρ f) := by
          refine ⟨fun h => hff.1 ((hempty f).1 h), ?_⟩
          rcases hff.2 with h | h
          · exact Or.inl (by rw [h]; rfl)
          · exact Or.inr (by rw [h]; rfl)
        obtain ⟨d', ⟨y, rfl, hy⟩, hdep⟩ := hf (ρ f) hfil
        refine ⟨y, hy, ?_⟩
        simp only [rename, List.mem_map] at hdep
        obtain ⟨a, ha, hab⟩ := hdep
        rw [← hinj _ _ hab]; exact ha⟩
    obtain ⟨y, hy, hly⟩ := this
    rw [hreninj d y hy]; exact hly
  · intro hl
    apply hl (fun x => Live (ds.map (rename ρ)) (rename ρ x))
    constructor
    · intro x hx hr
      exact (live_closed _).roots _ (List.mem_map_of_mem hx) ((hroot x).2 hr)
    · intro e he hf
      apply (live_closed _).step _ (List.mem_map_of_mem he)
      intro g hg
      have hg2 : g = ρ e.obj ∨ g = ρ e.meth := hg.2
      have : ∃ f, g = ρ f ∧ IsFilter e f := by
        rcases hg2 with h | h
        · exact ⟨e.obj, h, fun h0 => hg.1 (by rw [h, h0]; exact (hempty "").2 rfl), Or.inl rfl⟩
        · exact ⟨e.meth, h, fun h0 => hg.1 (by rw [h, h0]; exact (hempty "").2 rfl), Or.inr rfl⟩
      obtain ⟨f, rfl, hff⟩ := this
      obtain ⟨x, hx, hdep⟩ := hf f hff
      exact ⟨rename ρ x, hx, List.mem_map_of_mem hdep⟩

/-! A concrete, non-trivial instance: `main` depends on type `A` and on the unexported signature `m()`;
`A.m` (both names available) is selected, `A.n` (signature never used) is not. -/

def exMain : Decl := ⟨0, true, false, "p.main", "", ["p.A", "p.m()"]⟩
def exAm : Decl := ⟨1, false, false, "p.A", "p.m()", ["p.A"]⟩
def exAn : Decl := ⟨2, false, false, "p.A", "p.n()", ["p.A"]⟩

example (pick : Pick) : exAm ∈ select pick [exMain, exAm, exAn] := by
  have hmain : exMain ∈ select pick [exMain, exAm, exAn] :=
    select_roots pick _ exMain (by simp) (Or.inl (by decide))
  exact select_closed_two pick _ exMain exMain exAm hmain hmain (by decide) (by decide) (by simp)

example (pick : Pick) : exAn ∉ select pick [exMain, exAm, exAn] := by
  apply select_exact pick _ exAn "p.n()" ⟨by decide, Or.inr rfl⟩
  · intro h; rcases h with h | h <;> revert h <;> decide
  · intro d hd
    have hmem := select_subset pick _ d hd
    simp only [List.mem_cons, List.mem_nil_iff, or_false] at hmem
    rcases hmem with h | h | h <;> subst h <;> decide

/-! ### filter names (GV.Model.DceNames: the grammar of filters.go over type terms, at token level)

DCE matches dependencies with declarations by comparing name strings.  On the term language of
GV.Model.DceNames (basic, named-with-nest-and-type-arguments, pointer, slice, array, chan, map, func with
variadic parameters and 0/1/many results) two names are equal ONLY IF the terms are equal; the identifications
that filters.go makes on purpose are exactly the information that is absent from the terms:
channel direction, parameter names, the receiver of a method filter, type-parameter names, struct tags
(`method_filter_eq_iff` states the receiver / parameter-name case).  Not modelled: struct, interface and union
types, the `[...]` recursion marker; atoms are taken as indivisible (see the header of GV.Model.DceNames). -/

section FilterNames
open GV.DceNames

/-- Two types are rendered to the same filter text only if they are the same type term. -/
theorem filter_names_injective (t₁ t₂ : Ty) (h : t₁.render = t₂.render) : t₁ = t₂ :=
  (ty_prefix t₁ t₂ [] [] (by simpa using h) follow_nil follow_nil).1

/-- Object filters (`pkg.Name[nest; args]`): equal only for the same object, the same nest arguments and the same
type arguments — an instance is never confused with another instance or with the generic (dropping or
reordering type arguments changes the name). -/
theorem object_filter_injective (p₁ n₁ p₂ n₂ : String) (ne₁ a₁ ne₂ a₂ : TyList)
    (h : objectFilter p₁ n₁ ne₁ a₁ = objectFilter p₂ n₂ ne₂ a₂) : p₁ = p₂ ∧ n₁ = n₂ ∧ ne₁ = ne₂ ∧ a₁ = a₂ := by
  have := filter_names_injective _ _ h
  simpa using this

/-- Method filters (`pkg.name(params) results`): equal only for the same package, method name, parameter types
(incl. variadic marker) and result types. -/
theorem method_filter_injective (p₁ n₁ p₂ n₂ : String) (ps₁ rs₁ ps₂ rs₂ : TyList)
    (h : methodFilter p₁ n₁ ps₁ rs₁ = methodFilter p₂ n₂ ps₂ rs₂) : p₁ = p₂ ∧ n₁ = n₂ ∧ ps₁ = ps₂ ∧ rs₁ = rs₂ := by
  unfold methodFilter at h
  rw [render_func, render_func] at h
  simp only [List.tail_cons, List.cons.injEq, Tok.obj.injEq] at h
  obtain ⟨⟨hp, hn⟩, h⟩ := h
  have hf : (Ty.func ps₁ rs₁).render = (Ty.func ps₂ rs₂).render := by
    rw [render_func, render_func, h.2]
  have := filter_names_injective _ _ hf
  simp only [Ty.func.injEq] at this
  exact ⟨hp, hn, this.1, this.2⟩

/-- An object filter is never a method filter (a method filter continues with "(", an object filter ends or
continues with "["): a type or function cannot be kept alive by a method signature or vice versa. -/
theorem object_filter_ne_method_filter (p₁ n₁ p₂ n₂ : String) (ne a ps rs : TyList) :
    objectFilter p₁ n₁ ne a ≠ methodFilter p₂ n₂ ps rs := by
  unfold objectFilter methodFilter
  rw [render_named, render_func]
  simp only [List.tail_cons, ne_eq, List.cons.injEq, not_and]
  intro _
  unfold bracket
  split <;> simp

/-- what the compiler knows about an unexported method when it names it -/
structure GoMethod where
  recvPkg : String
  recvName : String
  recvArgs : TyList
  pkg : String
  name : String
  paramNames : List String
  params : TyList
  results : TyList

/-- filters.go:60-79: the method filter uses package, name and signature types only -/
def GoMethod.filter (m : GoMethod) : List Tok := methodFilter m.pkg m.name m.params m.results

/-- The documented identification, stated exactly: two unexported methods share a method filter iff they agree
on package, name, parameter types and result types — whatever their receivers and parameter names are
(README: "we don't look at the receiver for an unexported method"). -/
theorem method_filter_eq_iff (m₁ m₂ : GoMethod) :
    m₁.filter = m₂.filter ↔ m₁.pkg = m₂.pkg ∧ m₁.name = m₂.name ∧ m₁.params = m₂.params ∧ m₁.results = m₂.results := by
  constructor
  · exact method_filter_injective _ _ _ _ _ _ _ _
  · rintro ⟨h1, h2, h3, h4⟩
    simp [GoMethod.filter, h1, h2, h3, h4]

/-- instance: `Box[int]` and `Box[string]`, `m(int) int` and `m(...int) int` get different names -/
example : objectFilter "p" "Box" .nil (.cons (.basic "int") .nil) ≠ objectFilter "p" "Box" .nil (.cons (.basic "string") .nil) := by
  intro h
  have := object_filter_injective _ _ _ _ _ _ _ _ h
  simp at this

example : methodFilter "p" "m" (.cons (.basic "int") .nil) (.cons (.basic "int") .nil) ≠
    methodFilter "p" "m" (.variadic (.basic "int")) (.cons (.basic "int") .nil) := by
  intro h
  have := method_filter_injective _ _ _ _ _ _ _ _ h
  simp at this

end FilterNames

end GV.Props.C05
