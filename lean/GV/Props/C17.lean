import GV.Model.Order

/-!
  C17 — reproducible builds: every iteration whose order the Go runtime or the environment chooses
  is erased before it can reach the output. One theorem per *class* of map-range site; the sites of
  the real code are extracted on every run and checked against the audited table in C17Env.
-/
namespace GV.Props.C17
open GV.Order

/-- **sort_perm_invariant** (class S, "collect then sort") — sorting erases the input order: two
    permutations of the same keys sort to the same list, for any total, transitive, antisymmetric order. -/
theorem sort_perm_invariant {α : Type} (le : α → α → Bool)
    (trans : ∀ a b c : α, le a b → le b c → le a c)
    (total : ∀ a b : α, le a b || le b a)
    (antisymm : ∀ a b : α, le a b → le b a → a = b)
    (l₁ l₂ : List α) (h : l₁.Perm l₂) : l₁.mergeSort le = l₂.mergeSort le := by
  apply List.Perm.eq_of_pairwise (le := fun a b => le a b = true)
  · intro a b _ _ hab hba; exact antisymm a b hab hba
  · exact List.pairwise_mergeSort trans total l₁
  · exact List.pairwise_mergeSort trans total l₂
  · exact ((List.mergeSort_perm l₁ le).trans h).trans (List.mergeSort_perm l₂ le).symm

theorem string_le_trans (a b c : String) : decide (a ≤ b) = true → decide (b ≤ c) = true → decide (a ≤ c) = true := by
  simp only [decide_eq_true_eq]; exact String.le_trans

theorem string_le_total (a b : String) : (decide (a ≤ b) || decide (b ≤ a)) = true := by
  simp only [Bool.or_eq_true, decide_eq_true_eq]; exact String.le_total a b

theorem string_le_antisymm (a b : String) : decide (a ≤ b) = true → decide (b ≤ a) = true → a = b := by
  simp only [decide_eq_true_eq]; exact String.le_antisymm

/-- the instance used by the code: `sort.Strings` -/
theorem sortedKeys_perm_invariant (l₁ l₂ : List String) (h : l₁.Perm l₂) : sortedKeys l₁ = sortedKeys l₂ :=
  sort_perm_invariant _ string_le_trans string_le_total string_le_antisymm l₁ l₂ h

/-- **fold_perm_invariant** (class K, "key-independent updates": map copies, set insertions, per-element
    mutation) — folding updates that commute pairwise over any permutation gives the same state. -/
theorem fold_perm_invariant {σ α : Type} (f : σ → α → σ) (l₁ l₂ : List α) (h : l₁.Perm l₂)
    (comm : ∀ x ∈ l₁, ∀ y ∈ l₁, ∀ z, f (f z x) y = f (f z y) x) (init : σ) :
    l₁.foldl f init = l₂.foldl f init :=
  List.Perm.foldl_eq' h comm init

/-- class K instance: copying a map entry by entry (`for k, v := range m { m2[k] = v }`) — stores to
    distinct keys commute, so the resulting lookup function does not depend on the iteration order. -/
theorem store_comm {κ ν : Type} [DecidableEq κ] (m : κ → Option ν) (k₁ k₂ : κ) (v₁ v₂ : ν) (hne : k₁ ≠ k₂) :
    (fun k => if k = k₂ then some v₂ else (if k = k₁ then some v₁ else m k))
      = (fun k => if k = k₁ then some v₁ else (if k = k₂ then some v₂ else m k)) := by
  funext k
  by_cases h1 : k = k₁
  · by_cases h2 : k = k₂
    · exact absurd (h1.symm.trans h2) hne
    · simp only [h1, if_true]; rw [if_neg (fun h => h2 (h1.trans h))]
  · simp only [h1, if_false]

/-- **all_perm_invariant** (class C, commutative reduction: `allExhausted`). -/
theorem all_perm_invariant {α : Type} (p : α → Bool) (l₁ l₂ : List α) (h : l₁.Perm l₂) : l₁.all p = l₂.all p := by
  rw [Bool.eq_iff_iff]; simp only [List.all_eq_true]
  exact ⟨fun H x hx => H x (h.symm.subset hx), fun H x hx => H x (h.subset hx)⟩

/-- **finish_sorted_order_independent** — after the fix, `Collector.Finish` does not depend on the map
    iteration order: for every oracle that returns *some permutation* of the key list (what Go's map
    iteration does), every use relation, fuel and start state, the result (hence every instance id) is the
    one obtained with the identity oracle. -/
theorem finish_sorted_order_independent (uses : String → Inst → List (String × Inst))
    (oracle : List String → List String) (horacle : ∀ ks, (oracle ks).Perm ks) (fuel : Nat) (s : Sets) :
    finishSorted uses oracle fuel s = finishSorted uses id fuel s := by
  unfold finishSorted
  have : (fun ks => sortedKeys (oracle ks)) = (fun ks => sortedKeys (id ks)) := by
    funext ks; exact sortedKeys_perm_invariant _ _ (horacle ks)
  rw [this]

/-! ### the defect that was repaired (fix: 4dcd407): with the raw map order the ids depend on it -/

/-- use relation of the witness program: `b.F[int]` instantiates `a.Box[[]int]`, `c.G[int]` instantiates
    `a.Box[map[int]int]`, both from generic code only -/
def witnessUses : String → Inst → List (String × Inst)
  | "b", ("F", "int") => [("a", ("Box", "[]int"))]
  | "c", ("G", "int") => [("a", ("Box", "map[int]int"))]
  | _, _ => []

def witnessStart : Sets :=
  [{ pkg := "b", insts := [("F", "int")], cursor := 0 }, { pkg := "c", insts := [("G", "int")], cursor := 0 }]

/-- Full-strength statement for the *unfixed* code — false. -/
def finish_maporder_independent : Prop :=
  ∀ (uses : String → Inst → List (String × Inst)) (o₁ o₂ : List String → List String),
    (∀ ks, (o₁ ks).Perm ks) → (∀ ks, (o₂ ks).Perm ks) → ∀ fuel s p i,
      idOf (finishMapOrder uses o₁ fuel s) p i = idOf (finishMapOrder uses o₂ fuel s) p i

theorem finish_maporder_counterexample : ¬ finish_maporder_independent := by
  intro h
  have := h witnessUses id List.reverse (fun _ => List.Perm.refl _) (fun ks => List.reverse_perm ks) 4 witnessStart
    "a" ("Box", "[]int")
  revert this
  decide

/-- and on the same witness the fixed code gives one answer for both orders (instance of the theorem above) -/
example : idOf (finishSorted witnessUses id 4 witnessStart) "a" ("Box", "[]int")
        = idOf (finishSorted witnessUses List.reverse 4 witnessStart) "a" ("Box", "[]int") := by
  rw [finish_sorted_order_independent witnessUses List.reverse (fun ks => List.reverse_perm ks)]

/-! ### several projects in one build session (build/build.go `Session.BuildProject`)

  `UpToDateArchives` (and the parsed `sources`) are filled while a project is compiled; an archive is compiled for ONE
  project — its whole-program context `ctx` (set of generic instances, type context, analysis facts) is an input of
  `compile`. The repaired `BuildProject` starts every project from empty maps. -/

section Session
variable {Ctx A K : Type} [DecidableEq K] (compile : Ctx → K → A)

/-- `compilePackage` over the sorted sources of a project: an archive already in the map is reused, otherwise compiled
    in the context of the CURRENT project and remembered. -/
def compilePkgs (ctx : Ctx) : List K → List (K × A) → List (K × A)
  | [], c => c
  | p :: ps, c =>
    match List.lookup p c with
    | some _ => compilePkgs ctx ps c
    | none => compilePkgs ctx ps ((p, compile ctx p) :: c)

/-- the code before the repair: the session's archive map is carried from project to project -/
def buildOld (archives : List (K × A)) (proj : Ctx × List K) : List (K × A) × List (Option A) :=
  let c := compilePkgs compile proj.1 proj.2 archives
  (c, proj.2.map (fun p => List.lookup p c))

/-- the repaired code: `s.UpToDateArchives = make(...)` first -/
def buildNew (_archives : List (K × A)) (proj : Ctx × List K) : List (K × A) × List (Option A) :=
  buildOld compile [] proj

/-- the archive map after a sequence of projects -/
def runNew (archives : List (K × A)) : List (Ctx × List K) → List (K × A)
  | [] => archives
  | p :: ps => runNew (buildNew compile archives p).1 ps

theorem compilePkgs_lookup (ctx : Ctx) (ps : List K) (c : List (K × A)) (q : K) :
    List.lookup q (compilePkgs compile ctx ps c) =
      match List.lookup q c with
      | some a => some a
      | none => if q ∈ ps then some (compile ctx q) else none := by
  induction ps generalizing c with
  | nil => simp only [compilePkgs]; cases List.lookup q c <;> simp
  | cons p ps ih =>
    simp only [compilePkgs]
    cases hp : List.lookup p c with
    | some a =>
      simp only [ih]
      cases hq : List.lookup q c with
      | some b => rfl
      | none =>
        have hne : q ≠ p := by intro h; rw [h, hp] at hq; cases hq
        simp [hne]
    | none =>
      simp only [ih, List.lookup_cons]
      by_cases hqp : q = p
      · subst hqp; simp [hp]
      · have : (q == p) = false := by simpa using hqp
        simp only [this]
        cases List.lookup q c <;> simp [hqp]

/-- **session_independent** — the archives a project is linked from do not depend on the projects built earlier in the
    same session (any number, any contents). -/
theorem session_independent (earlier : List (Ctx × List K)) (start : List (K × A)) (proj : Ctx × List K) :
    (buildNew compile (runNew compile start earlier) proj).2 = (buildNew compile [] proj).2 := rfl

/-- **session_project_context** — and every package of the project is compiled in the project's OWN context. -/
theorem session_project_context (archives : List (K × A)) (proj : Ctx × List K) :
    (buildNew compile archives proj).2 = proj.2.map (fun p => some (compile proj.1 p)) := by
  unfold buildNew buildOld
  apply List.map_congr_left
  intro p hp
  rw [compilePkgs_lookup]
  simp [hp]

end Session

/-- the defect that was repaired: with the carried map the second project gets the archive compiled for the first one's
    context (witness: `lib` shared by two commands that instantiate its generics differently) -/
theorem old_session_counterexample :
    -- packages: 0 = lib, 1 = cmda, 2 = cmdb; contexts: 10 = {Box[int]}, 20 = {Box[string]}; archive = (package, context)
    let compile : Nat → Nat → Nat × Nat := fun ctx p => (p, ctx)
    let a := buildOld compile [] (10, [1, 0])
    (buildOld compile a.1 (20, [2, 0])).2 = [some (2, 20), some (0, 10)] ∧
    (buildNew compile a.1 (20, [2, 0])).2 = [some (2, 20), some (0, 20)] := by
  decide

end GV.Props.C17
