/-
  GV.Props.C04 — every used generic instantiation exists and is distinct (the collection part of property C04).

  `collect` (GV.Model.Inst) transcribes typeparams.Collector: `Scan` seeds the per-package instance sets from non-generic
  code, `Finish`/`propagate` walk every collected instance's declaration with its resolver until all sets are exhausted;
  the id of an instance is its position in its package's set.  `Reach` (GV.Spec.Inst) is the least set of instances of
  the program.  For ALL abstract programs:

    collect_sound              everything collected is an instance of the program
    collect_complete           if the collector terminates (all sets exhausted within the fuel), every instance is collected
    collect_exact              … so the collected set IS the least set
    ids_injective / ids_positions / ids_stable    ids identify instances, are positions, and never change once given
    collect_order_independent  the SET does not depend on the order in which packages are visited nor on the seed order
    subst_compose / subst_closed   substitution of nest + own parameters composes and closes

  Hypotheses: `WellScoped` (Go's scoping rules) and `LocalFree` (no type declared inside a generic function occurs inside
  another type).  Without `LocalFree` completeness is FALSE of the code (`collect_complete_full_counterexample`, the
  compiler panics on the witness: known finding C04-local-type-as-type-argument).
-/
import GV.Proofs.Inst
import GV.Proofs.InstTerm

namespace GV.Props.C04
open GV.Inst

variable {P : Prog}

/-! ### facts about the instances of a program -/

/-- functions, methods and types with methods are never nested: their instances have no nesting arguments -/
theorem reach_nest_nil (ws : P.WellScoped) : ∀ {i : Inst}, Reach P i →
    ((P.defs i.obj).isSig = true ∨ (P.defs i.obj).methods ≠ []) → i.nest = [] := by
  intro i h
  induction h with
  | seed _ _ => intro _; rfl
  | @use d N θ c τ b _ _ he _ _ =>
    intro hc
    cases b with
    | false => simp [nestFor]
    | true =>
      have := ws.inScope d c τ he
      rcases hc with hc | hc
      · simp [this.1] at hc
      · exact absurd this.2 hc
  | @localDecl g N θ c _ _ he _ _ =>
    intro hc
    have := ws.decls g c he
    rcases hc with hc | hc
    · simp [this.1] at hc
    · exact absurd this.2 hc
  | @method t N θ m _ hm ih =>
    intro _
    exact ih (Or.inr (by intro h; rw [h] at hm; cases hm))

theorem reach_lfree (lf : P.LocalFree) : ∀ {i : Inst}, Reach P i → lfreeL i.nest = true ∧ lfreeL i.args = true := by
  intro i h
  induction h with
  | seed he _ => exact ⟨rfl, lf.seeds _ he⟩
  | @use d N θ c τ b _ _ he _ ih =>
    refine ⟨?_, lfreeL_map_substS ih.1 ih.2 (lf.defs d _ he)⟩
    unfold nestFor
    cases b <;> simp
    · rfl
    · split
      · exact ih.2
      · exact ih.1
  | localDecl _ _ _ _ ih => exact ⟨ih.2, rfl⟩
  | method _ _ ih => exact ih

/-- every instance of the program is closed (no type parameter left) -/
theorem reach_closed : ∀ {i : Inst}, Reach P i → closedL i.args = true ∧ (closedL i.nest = true) := by
  intro i h
  induction h with
  | seed _ hc => exact ⟨hc, rfl⟩
  | @use d N θ c τ b _ _ _ hc ih =>
    refine ⟨hc, ?_⟩
    unfold nestFor
    cases b <;> simp
    · rfl
    · split
      · exact ih.1
      · exact ih.2
  | localDecl _ _ _ _ ih => exact ⟨rfl, ih.1⟩
  | method _ _ ih => exact ih

/-! ### the collector's discoveries are exactly the specification's steps -/

theorem mem_instancesOf {o : Nat} {a n : List Ty} {j : Inst} :
    j ∈ instancesOf P o a n ↔ a.any (Ty.genericC P.mentions) = false ∧ (j = ⟨o, n, a⟩ ∨ ∃ m ∈ (P.defs o).methods, j = ⟨m, n, a⟩) := by
  unfold instancesOf
  cases h : a.any (Ty.genericC P.mentions) with
  | true => simp
  | false =>
    simp only [Bool.false_eq_true, if_false, List.mem_cons, List.mem_map, true_and]
    constructor
    · rintro (h | ⟨m, hm, rfl⟩)
      · exact Or.inl h
      · exact Or.inr ⟨m, hm, rfl⟩
    · rintro (h | ⟨m, hm, rfl⟩)
      · exact Or.inl h
      · exact Or.inr ⟨m, hm, rfl⟩

/-- the context with which `discover` walks the declaration of an instance of the program -/
def ctxOf (P : Prog) (o : Nat) (N θ : List Ty) : Ctx := ⟨N, θ, if (P.defs o).isSig then θ else N, true⟩

theorem discover_eq (ws : P.WellScoped) {o : Nat} {N θ : List Ty} (hr : Reach P ⟨o, N, θ⟩) :
    discover P ⟨o, N, θ⟩ = if (P.defs o).isSig = true ∨ (P.defs o).hasNode = true
      then (P.defs o).events.flatMap (visit P (ctxOf P o N θ)) else [] := by
  unfold discover ctxOf
  simp only
  cases hs : (P.defs o).isSig with
  | true =>
    have hN : N = [] := reach_nest_nil ws hr (Or.inl hs)
    subst hN; simp
  | false =>
    cases hn : (P.defs o).hasNode <;> simp

theorem closed_of_not_generic {l : List Ty} (hl : lfreeL l = true) (h : l.any (Ty.genericC P.mentions) = false) : closedL l = true := by
  rw [any_generic_eq hl] at h; simpa using h

theorem not_generic_of_closed {l : List Ty} (hl : lfreeL l = true) (h : closedL l = true) : l.any (Ty.genericC P.mentions) = false := by
  rw [any_generic_eq hl, h]; rfl

theorem visit_sound (lf : P.LocalFree) {o : Nat} {N θ : List Ty} (hr : Reach P ⟨o, N, θ⟩) (hs : P.scanned o)
    {e : Event} (he : e ∈ (P.defs o).events) {j : Inst} (hj : j ∈ visit P (ctxOf P o N θ) e) : Reach P j := by
  have hlf := reach_lfree lf hr
  cases e with
  | use c τ b =>
    have hτ : lfreeL τ = true := lf.defs o _ he
    simp only [visit, ctxOf, if_true] at hj
    rw [map_substC_eq hτ] at hj
    obtain ⟨hng, hcase⟩ := mem_instancesOf.mp hj
    have hcl := closed_of_not_generic (lfreeL_map_substS hlf.1 hlf.2 hτ) hng
    have base : Reach P ⟨c, nestFor P o N θ b, τ.map (Ty.substS N θ)⟩ := Reach.use hr hs he hcl
    have hnest : nestFor P o N θ b = (if b = true then (if (P.defs o).isSig = true then θ else N) else []) := rfl
    rw [hnest] at base
    rcases hcase with rfl | ⟨m, hm, rfl⟩
    · exact base
    · exact Reach.method base hm
  | decl c =>
    simp only [visit, ctxOf, Bool.true_and] at hj
    split at hj
    · rename_i hlen
      obtain ⟨_, hcase⟩ := mem_instancesOf.mp hj
      have hne : θ ≠ [] := by intro h; subst h; simp at hlen
      have base : Reach P ⟨c, θ, []⟩ := Reach.localDecl hr hs he hne
      rcases hcase with rfl | ⟨m, hm, rfl⟩
      · exact base
      · exact Reach.method base hm
    · cases hj

theorem discover_sound (ws : P.WellScoped) (lf : P.LocalFree) {i : Inst} (hr : Reach P i) {j : Inst} (hj : j ∈ discover P i) :
    Reach P j := by
  obtain ⟨o, N, θ⟩ := i
  rw [discover_eq ws hr] at hj
  split at hj
  · rename_i hs
    obtain ⟨e, he, hv⟩ := List.mem_flatMap.mp hj
    exact visit_sound lf hr hs he hv
  · cases hj

theorem seed_sound (lf : P.LocalFree) {j : Inst} (hj : j ∈ P.seeds.flatMap (visit P seedCtx)) : Reach P j := by
  obtain ⟨e, he, hv⟩ := List.mem_flatMap.mp hj
  cases e with
  | use c τ b =>
    have hτ : lfreeL τ = true := lf.seeds _ he
    have hnil : (if b = true then ([] : List Ty) else []) = [] := by cases b <;> rfl
    simp only [visit, seedCtx, Bool.false_eq_true, if_false, hnil] at hv
    obtain ⟨hng, hcase⟩ := mem_instancesOf.mp hv
    have base : Reach P ⟨c, [], τ⟩ := Reach.seed he (closed_of_not_generic hτ hng)
    rcases hcase with rfl | ⟨m, hm, rfl⟩
    · exact base
    · exact Reach.method base hm
  | decl c => simp [visit, seedCtx] at hv

/-! ### soundness and completeness -/

theorem collectWith_some {order : List Nat → List Nat} {fuel : Nat} {s : St} (h : collectWith P order fuel = some s) :
    s = finishWith P order fuel (seedState P) ∧ allExhausted s = true := by
  unfold collectWith at h
  simp only at h
  split at h
  · rename_i hex
    cases h
    exact ⟨rfl, hex⟩
  · cases h

/-- **collect_sound** — everything the collector puts into a set is an instance of the program. -/
theorem collect_sound (ws : P.WellScoped) (lf : P.LocalFree) (order : List Nat → List Nat) (fuel : Nat) (s : St)
    (h : collectWith P order fuel = some s) : ∀ q, ∀ i ∈ s.insts q, Reach P i := by
  obtain ⟨rfl, _⟩ := collectWith_some h
  apply all_finishWith (Reach P) (fun i hi j hj => discover_sound ws lf hi hj)
  intro q j hj
  rcases addAll_mem_inv (P := P) hj with hj | hj
  · cases hj
  · exact seed_sound lf hj

/-- **collect_complete** — if the collector terminates with all sets exhausted (`collectWith … = some s`; the closure is
    finite — go/types rejects polymorphic recursion), every instance of the program has been collected. -/
theorem collect_complete (ws : P.WellScoped) (lf : P.LocalFree) (order : List Nat → List Nat) (fuel : Nat) (s : St)
    (h : collectWith P order fuel = some s) : ∀ i, Reach P i → s.mem P i := by
  obtain ⟨hs, hex⟩ := collectWith_some h
  have hinv : Inv P s := hs ▸ inv_finishWith order fuel inv_seedState
  have hclosed := closed_of_exhausted hinv hex
  have hseed : ∀ j ∈ P.seeds.flatMap (visit P seedCtx), s.mem P j := by
    intro j hj
    rw [hs]
    exact (finishWith_le order fuel _).memP (addAll_mem St.empty _ j hj)
  -- the instance and the methods of its type are present together
  suffices hall : ∀ i, Reach P i → s.mem P i ∧ ∀ m ∈ (P.defs i.obj).methods, s.mem P ⟨m, i.nest, i.args⟩ from
    fun i hi => (hall i hi).1
  intro i hi
  induction hi with
  | @seed c τ b he hc =>
    have hτ : lfreeL τ = true := lf.seeds _ he
    have hnil : (if b = true then ([] : List Ty) else []) = [] := by cases b <;> rfl
    have hin : ∀ j, j ∈ instancesOf P c τ [] → j ∈ P.seeds.flatMap (visit P seedCtx) := by
      intro j hj
      refine List.mem_flatMap.mpr ⟨_, he, ?_⟩
      simpa only [visit, seedCtx, Bool.false_eq_true, if_false, hnil] using hj
    have hng := not_generic_of_closed (P := P) hτ hc
    exact ⟨hseed _ (hin _ (mem_instancesOf.mpr ⟨hng, Or.inl rfl⟩)),
      fun m hm => hseed _ (hin _ (mem_instancesOf.mpr ⟨hng, Or.inr ⟨m, hm, rfl⟩⟩))⟩
  | @use d N θ c τ b hr hs he hc ih =>
    have hτ : lfreeL τ = true := lf.defs d _ he
    have hin : ∀ j, j ∈ instancesOf P c (τ.map (Ty.substS N θ)) (nestFor P d N θ b) → j ∈ discover P ⟨d, N, θ⟩ := by
      intro j hj
      rw [discover_eq ws hr, if_pos (show _ ∨ _ from hs)]
      refine List.mem_flatMap.mpr ⟨_, he, ?_⟩
      simp only [visit, ctxOf, if_true]
      rw [map_substC_eq hτ]
      exact hj
    have hlf := reach_lfree lf hr
    have hng := not_generic_of_closed (P := P) (lfreeL_map_substS hlf.1 hlf.2 hτ) hc
    exact ⟨hclosed _ ih.1 _ (hin _ (mem_instancesOf.mpr ⟨hng, Or.inl rfl⟩)),
      fun m hm => hclosed _ ih.1 _ (hin _ (mem_instancesOf.mpr ⟨hng, Or.inr ⟨m, hm, rfl⟩⟩))⟩
  | @localDecl g N θ c hr hs he hne ih =>
    have hin : ∀ j, j ∈ instancesOf P c [] θ → j ∈ discover P ⟨g, N, θ⟩ := by
      intro j hj
      rw [discover_eq ws hr, if_pos (show _ ∨ _ from hs)]
      refine List.mem_flatMap.mpr ⟨_, he, ?_⟩
      have hlen : 0 < θ.length := List.length_pos_iff.mpr hne
      have hdec : decide (θ.length > 0) = true := by simpa using hlen
      simp only [visit, ctxOf, Bool.true_and]
      split
      · exact hj
      · rename_i hn; exact absurd hdec hn
    have hng : ([] : List Ty).any (Ty.genericC P.mentions) = false := rfl
    exact ⟨hclosed _ ih.1 _ (hin _ (mem_instancesOf.mpr ⟨hng, Or.inl rfl⟩)),
      fun m hm => hclosed _ ih.1 _ (hin _ (mem_instancesOf.mpr ⟨hng, Or.inr ⟨m, hm, rfl⟩⟩))⟩
  | @method t N θ m _ hm ih =>
    refine ⟨ih.2 m hm, ?_⟩
    intro m' hm'
    have := (ws.methods t m hm).2.1
    simp only at hm'
    rw [this] at hm'
    cases hm'

/-- **collect_exact** — the collected set is the least set of instances of the program. -/
theorem collect_exact (ws : P.WellScoped) (lf : P.LocalFree) (order : List Nat → List Nat) (fuel : Nat) (s : St)
    (h : collectWith P order fuel = some s) : ∀ i, s.mem P i ↔ Reach P i :=
  fun i => ⟨fun hi => collect_sound ws lf order fuel s h _ i hi, collect_complete ws lf order fuel s h i⟩

/-! ### termination -/

/-- `finiteClosure`: all instances of the program lie in a finite universe (go/types rejects instantiation cycles, which is
    the only way for the closure to be infinite) -/
def finiteClosure (P : Prog) (U : List Inst) : Prop := ∀ i, Reach P i → i ∈ U

/-- the order must visit every package that has a set (any permutation does; so does `sort.Strings`) -/
def coversKeys (order : List Nat → List Nat) : Prop := ∀ ks k, k ∈ ks → k ∈ order ks

theorem sortedOrder_covers : coversKeys sortedOrder := by
  intro ks k hk; unfold sortedOrder; exact List.mem_mergeSort.mpr hk

theorem seedState_sound (lf : P.LocalFree) : ∀ q, ∀ j ∈ (seedState P).insts q, Reach P j := by
  intro q j hj
  rcases addAll_mem_inv (P := P) hj with hj | hj
  · cases hj
  · exact seed_sound lf hj

/-- **collect_terminates** — if the closure is finite, the collector exhausts all sets with any fuel above `|U|`
    (at most one round of `Finish` per instance of the universe): termination is derived, not assumed. -/
theorem collect_terminates (ws : P.WellScoped) (lf : P.LocalFree) (U : List Inst) (hU : finiteClosure P U)
    (order : List Nat → List Nat) (hord : coversKeys order) (fuel : Nat) (hf : U.length < fuel) :
    ∃ s, collectWith P order fuel = some s := by
  have hex := finishWith_exhausts (fun i hi j hj => discover_sound ws lf hi hj) U hU order hord fuel (seedState P)
    inv_seedState (seedState_sound lf) (Nat.lt_of_lt_of_le hf (Nat.le_add_right _ _))
  exact ⟨finishWith P order fuel (seedState P), by unfold collectWith; simp only [hex, if_true]⟩

/-- **collect_total** — for a program with a finite closure the collector (with the code's sorted package order and any
    sufficient fuel) returns exactly the least set of instances: existence, soundness and completeness with no
    termination hypothesis. -/
theorem collect_total (ws : P.WellScoped) (lf : P.LocalFree) (U : List Inst) (hU : finiteClosure P U) (fuel : Nat)
    (hf : U.length < fuel) : ∃ s, collect P fuel = some s ∧ ∀ i, s.mem P i ↔ Reach P i := by
  obtain ⟨s, hs⟩ := collect_terminates ws lf U hU sortedOrder sortedOrder_covers fuel hf
  exact ⟨s, hs, collect_exact ws lf sortedOrder fuel s hs⟩

/-! ### ids -/

/-- **ids_injective** — within one package set (hence within one object), two instances with the same id are the same
    instance; equal instances trivially have equal ids (`idOf` is a function).  No hypothesis on the program. -/
theorem ids_injective (s : St) (i j : Inst) (a : Nat) (hi : idOf P s i = some a) (hj : idOf P s j = some a)
    (hp : P.pkgOf i = P.pkgOf j) : i = j := by
  unfold idOf at hi hj
  simp only at hi hj
  split at hi
  · rename_i hmi
    split at hj
    · rename_i hmj
      cases hi; rw [← hp] at hj hmj
      have hidx : (s.insts (P.pkgOf i)).idxOf j = (s.insts (P.pkgOf i)).idxOf i := by simpa using hj
      have h1 := List.getElem_idxOf (List.idxOf_lt_length_of_mem hmi)
      have h2 := List.getElem_idxOf (List.idxOf_lt_length_of_mem hmj)
      simp only [hidx] at h2
      rw [← h1, ← h2]
    · cases hj
  · cases hi

/-- the id is the position of the instance in its package's list -/
theorem ids_positions (s : St) (i : Inst) (a : Nat) (hi : idOf P s i = some a) : (s.insts (P.pkgOf i))[a]? = some i := by
  unfold idOf at hi
  simp only at hi
  split at hi
  · rename_i hm
    cases hi
    rw [List.getElem?_eq_getElem (List.idxOf_lt_length_of_mem hm), List.getElem_idxOf]
  · cases hi

theorem idOf_le {s s' : St} (hle : Le s s') (i : Inst) (a : Nat) (hi : idOf P s i = some a) : idOf P s' i = some a := by
  unfold idOf at hi ⊢
  simp only at hi ⊢
  split at hi
  · rename_i hm
    cases hi
    obtain ⟨r, hr⟩ := hle (P.pkgOf i)
    rw [← hr, if_pos (List.mem_append_left _ hm), List.idxOf_append, if_pos hm]
  · cases hi

/-- **ids_stable** — an id handed out at any moment (after seeding, or during propagation) is the final id: the rest of
    the collection only appends. -/
theorem ids_stable (order : List Nat → List Nat) (fuel : Nat) (s : St) (h : collectWith P order fuel = some s)
    (i : Inst) (a : Nat) (hi : idOf P (seedState P) i = some a) : idOf P s i = some a := by
  obtain ⟨rfl, _⟩ := collectWith_some h
  exact idOf_le (finishWith_le order fuel _) i a hi

/-- the lists never contain an instance twice (so position = id is well defined) -/
theorem insts_nodup (order : List Nat → List Nat) (fuel : Nat) (s : St) (h : collectWith P order fuel = some s) :
    ∀ q, (s.insts q).Nodup := by
  obtain ⟨rfl, _⟩ := collectWith_some h
  exact (inv_finishWith order fuel inv_seedState).nodup

/-! ### independence of the visiting order -/

theorem reach_seeds_congr {S' : List Event} (h : ∀ e, e ∈ S' → e ∈ P.seeds) :
    ∀ {i : Inst}, Reach ⟨P.defs, S'⟩ i → Reach P i := by
  intro i hi
  induction hi with
  | seed he hc => exact Reach.seed (h _ he) hc
  | use _ hs he hc ih => exact Reach.use ih hs he hc
  | localDecl _ hs he hne ih => exact Reach.localDecl ih hs he hne
  | method _ hm ih => exact Reach.method ih hm

/-- **collect_order_independent** — the SET of collected instances depends neither on the order in which `Finish` visits
    the packages (`order`, `order'` arbitrary) nor on the order in which the seeds are met (`S'` any list with the same
    elements as `P.seeds`), nor on the fuel.  (The ids do depend on it; see C17.) -/
theorem collect_order_independent (ws : P.WellScoped) (lf : P.LocalFree) (S' : List Event) (hS : ∀ e, e ∈ S' ↔ e ∈ P.seeds)
    (order order' : List Nat → List Nat) (fuel fuel' : Nat) (s s' : St)
    (h : collectWith P order fuel = some s) (h' : collectWith ⟨P.defs, S'⟩ order' fuel' = some s') :
    ∀ i, s.mem P i ↔ s'.mem ⟨P.defs, S'⟩ i := by
  have ws' : Prog.WellScoped ⟨P.defs, S'⟩ := ⟨ws.inScope, ws.methods, ws.decls, ws.sigNode⟩
  have lf' : Prog.LocalFree ⟨P.defs, S'⟩ := ⟨fun e he => lf.seeds e ((hS e).mp he), lf.defs⟩
  intro i
  rw [collect_exact ws lf order fuel s h i, collect_exact ws' lf' order' fuel' s' h' i]
  constructor
  · intro hi
    have : Reach ⟨(⟨P.defs, S'⟩ : Prog).defs, P.seeds⟩ i := hi
    exact reach_seeds_congr (P := ⟨P.defs, S'⟩) (fun e he => (hS e).mpr he) this
  · exact reach_seeds_congr (fun e he => (hS e).mp he)

/-! ### substitution -/

/-- **subst_compose** — substituting the nest + own parameters of an instance `(N, θ)` whose arguments are themselves
    terms over the parameters of an outer instance `(N', θ')`, and then the outer ones, is one substitution with the
    composed lists (the `Resolver` chain for types nested in generic functions). -/
theorem subst_compose (N θ N' θ' : List Ty) (t : Ty) (h : t.inRange N.length θ.length = true) :
    (t.substS N θ).substS N' θ' = t.substS (N.map (Ty.substS N' θ')) (θ.map (Ty.substS N' θ')) :=
  substS_compose N θ N' θ' t h

/-- on terms without function-local types the code's substitution IS Go's substitution, so it composes as well -/
theorem subst_compose_code (N θ N' θ' : List Ty) (t : Ty) (h : t.inRange N.length θ.length = true) (ht : t.lfree = true)
    (hN : lfreeL N = true) (hθ : lfreeL θ = true) :
    (t.substC N θ).substC N' θ' = t.substC (N.map (Ty.substC N' θ')) (θ.map (Ty.substC N' θ')) := by
  rw [substC_eq_substS N θ t ht, substC_eq_substS N' θ' _ (lfree_substS hN hθ t ht), map_substC_eq hN, map_substC_eq hθ,
    substC_eq_substS _ _ t ht]
  exact substS_compose N θ N' θ' t h

/-- **subst_closed** — closed arguments for all parameters give a closed type -/
theorem subst_closed (N θ : List Ty) (t : Ty) (hN : closedL N = true) (hθ : closedL θ = true)
    (h : t.inRange N.length θ.length = true) : (t.substS N θ).closed = true :=
  substS_closed hN hθ t h

/-! ### a value of type-parameter type is represented exactly as a value of its type argument -/

/-- **unwrap_param** — in the instance `(N, θ)` a clause `case T_i:` unwraps the interface payload iff the type argument
    `θ[i]` is a non-interface type: the representation decision is the one of the type argument. -/
theorem unwrap_param (ia : Nat → Bool) (N θ : List Ty) (i : Nat) (a : Ty) (h : θ[i]? = some a) :
    unwrapIn ia N θ (.own i) = a.unwraps ia := by
  simp [unwrapIn, Ty.substS, h]

theorem unwrap_nest_param (ia : Nat → Bool) (N θ : List Ty) (i : Nat) (a : Ty) (h : N[i]? = some a) :
    unwrapIn ia N θ (.nest i) = a.unwraps ia := by
  simp [unwrapIn, Ty.substS, h]

/-- **unwrap_subst_commutes** — for every term that is not a bare parameter (`[]T`, `Box[T]`, `map[K]V`, atoms …)
    substitution does not change the decision: it can be taken before or after substituting. -/
theorem unwrap_subst_commutes (ia : Nat → Bool) (N θ : List Ty) (t : Ty) (h : t.isParam = false) :
    unwrapIn ia N θ t = t.unwraps ia := by
  cases t <;> simp_all [unwrapIn, Ty.substS, Ty.unwraps, Ty.isParam]

/-- the decision taken on the RAW parameter (what the translation would do without the resolver) is wrong for every
    non-interface type argument: it answers "do not unwrap" -/
theorem unwrap_raw_wrong (ia : Nat → Bool) (N θ : List Ty) (i : Nat) (a : Ty) (h : θ[i]? = some a) (ha : a.unwraps ia = true) :
    (Ty.own i).unwraps ia ≠ unwrapIn ia N θ (.own i) := by
  rw [unwrap_param ia N θ i a h, ha]; simp [Ty.unwraps]

/-! ### substitution is a homomorphism: every constructor attribute survives instantiation -/

/-- **subst_preserves_shape** — substituting type arguments never changes the constructor at a non-parameter position
    nor its attributes (channel direction, array length, variadicity / arity, struct field names, tags, embeddedness —
    all carried by the attribute code of `con`), and the components are substituted pointwise. -/
theorem subst_preserves_shape (N θ : List Ty) (t : Ty) (h : t.isParam = false) : (t.substS N θ).root = t.root := by
  cases t <;> simp_all [Ty.substS, Ty.root, Ty.isParam]

theorem subst_con_components (N θ : List Ty) (g : Nat) (a : Ty) :
    (Ty.con g a).substS N θ = .con g (a.substS N θ) := rfl

theorem subst_list_pointwise (N θ : List Ty) (h t : Ty) :
    (Ty.tcons h t).substS N θ = .tcons (h.substS N θ) (t.substS N θ) := rfl

/-- the code's substitution (subst.go as it is) has the same property -/
theorem subst_preserves_shape_code (N θ : List Ty) (t : Ty) (h : t.isParam = false) : (t.substC N θ).root = t.root := by
  cases t <;> simp_all [Ty.substC, Ty.root, Ty.isParam]

/-- **subst_identity_commutes** — an instantiated composite type is identical to a concrete spelling `con g' c` exactly
    when the attributes agree and the substituted components are the concrete components: identity can be decided
    before or after substitution, attribute by attribute. -/
theorem subst_identity_commutes (N θ : List Ty) (g g' : Nat) (a c : Ty) :
    (Ty.con g a).substS N θ = .con g' c ↔ g = g' ∧ a.substS N θ = c := by
  simp [Ty.substS]

/-- in particular `<-chan T`, `chan<- T` and `chan T` stay three different types in every instantiation -/
theorem subst_keeps_directions_apart (N θ : List Ty) (a b : Ty) (g g' : Nat) (h : g ≠ g') :
    (Ty.con g a).substS N θ ≠ (Ty.con g' b).substS N θ := by
  simp [Ty.substS, h]

/-- full strength for an arbitrary substitution function (NOT a theorem: see the counterexample) -/
def rebuild_preserves_shape : Prop :=
  ∀ (N θ : List Ty) (t : Ty), t.isParam = false → (t.substRebuild N θ).root = t.root

/-- **subst_sendrecv_counterexample** — rebuilding a substituted channel with `SendRecv` is not shape preserving:
    `<-chan T` instantiated with `int` becomes `chan int` … -/
theorem subst_sendrecv_counterexample : ¬ rebuild_preserves_shape := by
  intro h
  have := h [] [.basic 0] (.con dirRecv (.tcons (.own 0) .tnil)) rfl
  revert this
  decide

/-- … and is identical to the instantiation of `chan T`, which it must not be (type switches, assertions, `==` on
    interfaces and map keys then confuse the two) -/
theorem subst_sendrecv_conflates :
    (Ty.con dirRecv (.tcons (.own 0) .tnil)).substRebuild [] [.basic 0] = (Ty.con dirBoth (.tcons (.own 0) .tnil)).substRebuild [] [.basic 0] ∧
    (Ty.con dirRecv (.tcons (.own 0) .tnil)).substS [] [.basic 0] ≠ (Ty.con dirBoth (.tcons (.own 0) .tnil)).substS [] [.basic 0] := by
  decide

/-! ### the full-strength statement is false of the code: a type declared in a generic function used as a type argument -/

/-- full strength: completeness for every well-scoped program (NOT claimed) -/
def collect_complete_full : Prop :=
  ∀ (P : Prog) (order : List Nat → List Nat) (fuel : Nat) (s : St), P.WellScoped →
    collectWith P order fuel = some s → ∀ i, Reach P i → s.mem P i

/-- `type Box[T any] struct{…}; func F[T any]() { type cell struct{ v T }; _ = Box[cell]{} }; func main() { F[int]() }` -/
def witness : Prog where
  defs := fun n => match n with
    | 0 => { pkg := 0, isSig := false, hasNode := true, mentions := false, methods := [], events := [] }          -- Box
    | 1 => { pkg := 0, isSig := true, hasNode := true, mentions := false, methods := [],
             events := [.decl 2, .use 0 [.lnamed 2 .tnil (.tcons (.own 0) .tnil)] false] }                        -- F
    | 2 => { pkg := 0, isSig := false, hasNode := false, mentions := true, methods := [], events := [] }          -- cell
    | _ => default
  seeds := [.use 1 [.basic 0] false]

/-- `Box[cell]` inside `F[int]`: an instance of the program … -/
def witnessInst : Inst := ⟨0, [], [.lnamed 2 .tnil (.tcons (.basic 0) .tnil)]⟩

theorem witness_wellScoped : witness.WellScoped := by
  refine ⟨?_, ?_, ?_, ?_⟩
  · intro d c τ h
    match d with
    | 0 => simp [witness] at h
    | 1 => simp [witness] at h
    | 2 => simp [witness] at h
    | n + 3 => simp [witness] at h; cases h
  · intro t m h
    match t with
    | 0 => simp [witness] at h
    | 1 => simp [witness] at h
    | 2 => simp [witness] at h
    | n + 3 => simp [witness] at h; cases h
  · intro d c h
    match d with
    | 0 => simp [witness] at h
    | 1 =>
      simp [witness] at h
      subst h
      simp [witness]
    | 2 => simp [witness] at h
    | n + 3 => simp [witness] at h; cases h
  · intro d h
    match d with
    | 0 => simp [witness] at h
    | 1 => simp [witness]
    | 2 => simp [witness] at h
    | n + 3 => simp [witness] at h; cases h

theorem witness_reach : Reach witness witnessInst := by
  have h1 : Reach witness ⟨1, [], [.basic 0]⟩ := Reach.seed (b := false) (by simp [witness]) rfl
  have h2 := Reach.use (c := 0) (τ := [.lnamed 2 .tnil (.tcons (.own 0) .tnil)]) (b := false) h1 (Or.inl rfl)
    (by simp [witness]) rfl
  exact h2

/-- **collect_complete_full_counterexample** — … that the collector never adds (`isGeneric` keeps regarding `cell` as
    generic because its underlying type mentions `T`; the real compiler then panics with "requesting ID of instance
    Box<cell> that hasn't been added to the set"). -/
theorem collect_complete_full_counterexample : ¬ collect_complete_full := by
  intro h
  have hex : allExhausted (finishWith witness id 10 (seedState witness)) = true := by decide
  have hc : collectWith witness id 10 = some (finishWith witness id 10 (seedState witness)) := by
    unfold collectWith; simp only [hex, if_true]
  have := h witness id 10 _ witness_wellScoped hc witnessInst witness_reach
  revert this
  decide

/-! ### … and so is soundness: a local type that does not mention the type parameter is conflated -/

/-- full strength: soundness for every well-scoped program (NOT claimed) -/
def collect_sound_full : Prop :=
  ∀ (P : Prog) (order : List Nat → List Nat) (fuel : Nat) (s : St), P.WellScoped →
    collectWith P order fuel = some s → ∀ q, ∀ i ∈ s.insts q, Reach P i

/-- `type Box[T any] struct{…}; func F[T any]() { type tag struct{}; _ = Box[tag]{} }; func main() { F[int]() }` -/
def witness2 : Prog where
  defs := fun n => match n with
    | 0 => { pkg := 0, isSig := false, hasNode := true, mentions := false, methods := [], events := [] }          -- Box
    | 1 => { pkg := 0, isSig := true, hasNode := true, mentions := false, methods := [],
             events := [.decl 2, .use 0 [.lnamed 2 .tnil (.tcons (.own 0) .tnil)] false] }                        -- F
    | 2 => { pkg := 0, isSig := false, hasNode := false, mentions := false, methods := [], events := [] }         -- tag
    | _ => default
  seeds := [.use 1 [.basic 0] false]

/-- what the collector records for `Box[tag]` inside `F[int]`: the nesting argument `int` of `tag` is lost, so the same
    instance would serve `F[string]` too -/
def witness2Inst : Inst := ⟨0, [], [.lnamed 2 .tnil .tnil]⟩

theorem witness2_wellScoped : witness2.WellScoped := by
  refine ⟨?_, ?_, ?_, ?_⟩
  · intro d c τ h
    match d with
    | 0 => simp [witness2] at h
    | 1 => simp [witness2] at h
    | 2 => simp [witness2] at h
    | n + 3 => simp [witness2] at h; cases h
  · intro t m h
    match t with
    | 0 => simp [witness2] at h
    | 1 => simp [witness2] at h
    | 2 => simp [witness2] at h
    | n + 3 => simp [witness2] at h; cases h
  · intro d c h
    match d with
    | 0 => simp [witness2] at h
    | 1 =>
      simp [witness2] at h
      subst h
      simp [witness2]
    | 2 => simp [witness2] at h
    | n + 3 => simp [witness2] at h; cases h
  · intro d h
    match d with
    | 0 => simp [witness2] at h
    | 1 => simp [witness2]
    | 2 => simp [witness2] at h
    | n + 3 => simp [witness2] at h; cases h

/-- in the specification `Box` is only ever instantiated with the `tag` OF `F[int]`, and `F` only with `int` -/
theorem witness2_reach_shape : ∀ {i : Inst}, Reach witness2 i →
    (i.obj = 1 → i.args = [.basic 0]) ∧ (i.obj = 0 → i.args = [.lnamed 2 .tnil (.tcons (.basic 0) .tnil)]) := by
  intro i h
  induction h with
  | @seed c τ b he _ =>
    simp [witness2] at he
    obtain ⟨rfl, rfl, _⟩ := he
    exact ⟨fun _ => rfl, fun h => absurd h (by decide)⟩
  | @use d N θ c τ b _ _ he _ ih =>
    match d with
    | 0 => simp [witness2] at he
    | 1 =>
      simp [witness2] at he
      obtain ⟨rfl, rfl, _⟩ := he
      have hθ : θ = [.basic 0] := ih.1 rfl
      subst hθ
      exact ⟨fun h => absurd h (by simp), fun _ => rfl⟩
    | 2 => simp [witness2] at he
    | n + 3 => simp [witness2] at he; cases he
  | @localDecl g N θ c _ _ he _ _ =>
    match g with
    | 0 => simp [witness2] at he
    | 1 =>
      simp [witness2] at he
      subst he
      exact ⟨fun h => absurd h (by simp), fun h => absurd h (by simp)⟩
    | 2 => simp [witness2] at he
    | n + 3 => simp [witness2] at he; cases he
  | @method t N θ m _ hm _ =>
    match t with
    | 0 => simp [witness2] at hm
    | 1 => simp [witness2] at hm
    | 2 => simp [witness2] at hm
    | n + 3 => simp [witness2] at hm; cases hm

/-- **collect_sound_full_counterexample** — the collector records `Box<tag>` without `tag`'s nesting argument: an
    instance that is not an instance of the program (Go has one `Box[tag]` per instantiation of `F`).  The real compiler
    then asks for `tag<T;>` while translating it and panics. -/
theorem collect_sound_full_counterexample : ¬ collect_sound_full := by
  intro h
  have hex : allExhausted (finishWith witness2 id 10 (seedState witness2)) = true := by decide
  have hc : collectWith witness2 id 10 = some (finishWith witness2 id 10 (seedState witness2)) := by
    unfold collectWith; simp only [hex, if_true]
  have hmem : witness2Inst ∈ (finishWith witness2 id 10 (seedState witness2)).insts 0 := by decide
  have hr := h witness2 id 10 _ witness2_wellScoped hc 0 witness2Inst hmem
  have := (witness2_reach_shape hr).2 rfl
  revert this
  decide

/-- the hypotheses of the theorems are satisfiable by a non-trivial program: a generic function calling a generic
    function of another package with a grown argument, a generic type with a method, a type declared in a generic function -/
def sample : Prog where
  defs := fun n => match n with
    | 0 => { pkg := 0, isSig := true, hasNode := true, mentions := false, methods := [],
             events := [.decl 4, .use 1 [.slice (.own 0)] false, .use 2 [.own 0, .basic 1] false] }   -- main.F[T]
    | 1 => { pkg := 1, isSig := true, hasNode := true, mentions := false, methods := [], events := [] }          -- p1.G[T]
    | 2 => { pkg := 1, isSig := false, hasNode := true, mentions := false, methods := [3],
             events := [.use 2 [.own 1, .own 0] false] }                                                 -- p1.B[T,U] struct{ p *B[U,T] }
    | 3 => { pkg := 1, isSig := true, hasNode := true, mentions := false, methods := [],
             events := [.use 1 [.map (.own 1) (.own 0)] false] }                                         -- (B[T,U]).M
    | 4 => { pkg := 0, isSig := false, hasNode := false, mentions := true, methods := [], events := [] }         -- local type of F
    | _ => default
  seeds := [.use 0 [.basic 0] false]

example : sample.LocalFree := by
  refine ⟨?_, ?_⟩
  · intro e he; simp [sample] at he; subst he; rfl
  · intro d e he
    match d with
    | 0 => simp [sample] at he; rcases he with rfl | rfl | rfl <;> rfl
    | 1 => simp [sample] at he
    | 2 => simp [sample] at he; subst he; rfl
    | 3 => simp [sample] at he; subst he; rfl
    | 4 => simp [sample] at he
    | n + 5 => simp [sample] at he; cases he

example : ∃ s, collectWith sample id 10 = some s ∧ s.mem sample ⟨3, [], [.basic 1, .basic 0]⟩ ∧
    idOf sample s ⟨1, [], [.map (.basic 0) (.basic 1)]⟩ = some 6 := by
  have hex : allExhausted (finishWith sample id 10 (seedState sample)) = true := by decide
  refine ⟨finishWith sample id 10 (seedState sample), ?_, ?_, ?_⟩
  · unfold collectWith; simp only [hex, if_true]
  · decide
  · decide

end GV.Props.C04
