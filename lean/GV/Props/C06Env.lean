import GV.Model.NumOpTable
import GV.Generated.OpTable
import GV.Props.C06

/-!
  C06 — obligations over the operator table re-extracted from /repo on every run (GV/Generated/OpTable.lean is written by
  checks/c06.py from `gvh_c06 optable`, a go/ast walk of the CURRENT compiler/expressions.go).
  If a format string, a guard, a case list or a path of the numeric branches of translateExpr / translateConversion / fixNumber
  changes, `optable_known` no longer checks: the schemes proved correct in GV.Props.C06 are then not the code's schemes, and the
  check runs its widened search (exhaustive 8-bit pairs, the full constant/boundary grid for the affected operators).
-/
namespace GV.Props.C06
open GV.NumOpTable GV.JSInt GV.NumScheme

/-- the table extracted from the current source is exactly the table that GV.Model.NumScheme transcribes -/
theorem optable_known : GV.Generated.opTable = knownEntries := by rfl

/-- hence every extracted entry is one of the known shapes (each annotated with the NumScheme definition and the theorem of
    GV.Props.C06 that covers it), and no known shape has disappeared -/
theorem optable_member : ∀ e ∈ GV.Generated.opTable, ∃ k ∈ known, k.1 = e := by
  intro e he
  rw [optable_known] at he
  simpa [knownEntries] using he

/-- integer multiplication: `$imul` for the signed and for the unsigned 32-bit kinds unconditionally; the plain `%e * %e` + fixNumber
    pattern is reached only after both 32-bit case lists have returned, i.e. for 8/16-bit kinds (and floats) -/
theorem mul_patterns : mulGuards =
    [("(basic.Kind()) in {types.Int32, types.Int}", "return fc.formatParenExpr(\"$imul(%e, %e)\", e.X, e.Y)"),
     ("(basic.Kind()) in {types.Uint32, types.Uint, types.Uintptr}", "return fc.formatParenExpr(\"$imul(%e, %e) >>> 0\", e.X, e.Y)"),
     ("after switch (basic.Kind()) {types.Int32, types.Int | types.Uint32, types.Uint, types.Uintptr}",
      "return fc.fixNumber(fc.formatExpr(\"%e * %e\", e.X, e.Y), basic)")] := by decide

/-- a plain `x * c` on 32-bit operands is NOT one of the proved shapes, also for a "small" constant factor: with |c| < 2^22 and an
    unsigned 32-bit x the exact product exceeds 2^53, so the JS double is not exact (the premise of `exact_doubles` fails) -/
theorem small_const_mul_inexact :
    ∃ x c : Int, InRange .uint32 x ∧ -4194304 < c ∧ c < 4194304 ∧ ¬ (x * c ≤ two53) :=
  ⟨4294967295, 4194303, by decide, by decide, by decide, by decide⟩

/-- `f32_records_fround`: in the table extracted from the current source every float32 arithmetic operation is emitted through
    `fixNumber`, and `fixNumber(Float32)` is `$fround(%s)`:
    `+ -` : one record for all kinds, `fixNumber("%e %t %e")`;
    `*`   : the fall-through record after the 32-bit integer kinds, `fixNumber("%e * %e")`;
    `/`   : the record guarded by `basic.Kind() == types.Float32`, `fixNumber("%e / %e")` (the only unrounded float record is float64's);
    and there is no record outside the known sections (no special path in front of the operator switch that could translate a
    float32 operand differently). With `GV.Props.C06.f32_nested` this is "rounded after EVERY float32 operation, for every
    operand shape". -/
theorem f32_records_fround :
    arithRecords GV.Generated.opTable =
      [("token.ADD, token.SUB", "", "return fc.fixNumber(fc.formatExpr(\"%e %t %e\", e.X, e.Op, e.Y), basic)"),
       ("token.MUL", "(basic.Kind()) in {types.Int32, types.Int}", "return fc.formatParenExpr(\"$imul(%e, %e)\", e.X, e.Y)"),
       ("token.MUL", "(basic.Kind()) in {types.Uint32, types.Uint, types.Uintptr}", "return fc.formatParenExpr(\"$imul(%e, %e) >>> 0\", e.X, e.Y)"),
       ("token.MUL", "after switch (basic.Kind()) {types.Int32, types.Int | types.Uint32, types.Uint, types.Uintptr}",
        "return fc.fixNumber(fc.formatExpr(\"%e * %e\", e.X, e.Y), basic)"),
       ("token.QUO", "isInteger(basic)", "stmt: q := fc.newLocalVariable(\"_q\")"),
       ("token.QUO", "isInteger(basic)",
        "return fc.formatExpr(`(%1s = %2e / %3e, (%1s === %1s && %1s !== 1/0 && %1s !== -1/0) ? %4s : $throwRuntimeError(\"integer divide by zero\"))`, q, e.X, e.Y, fc.fixNumber(fc.formatExpr(\"%s\", q), basic))"),
       ("token.QUO", "!(isInteger(basic)) && basic.Kind() == types.Float32", "return fc.fixNumber(fc.formatExpr(\"%e / %e\", e.X, e.Y), basic)"),
       ("token.QUO", "!(isInteger(basic)) && !(basic.Kind() == types.Float32)", "return fc.formatExpr(\"%e / %e\", e.X, e.Y)")] ∧
    fixFloat32 GV.Generated.opTable = ["return fc.formatExpr(\"$fround(%s)\", value)"] ∧
    otherSections GV.Generated.opTable = [] := by
  refine ⟨by rfl, by rfl, by rfl⟩

end GV.Props.C06
