import GV.Model.NumOpTable
import GV.Generated.OpTable
import GV.Props.C06

/-!
  C06 — obligations over the operator table re-extracted from /repo on every run (GV/Generated/OpTable.lean is written by
  checks/c06.py from `gvh_c06 optable`, a go/ast walk of the CURRENT compiler/expressions.go).
  If a format string, a guard, a case list or a path of the numeric branches of translateExpr / translateConversion / fixNumber
  changes, `optable_known` no longer checks: the schemes proved correct in GV.Props.C06 are then not the code's schemes, and the
  check runs its widened search (exhaustive 8-bit pairs, the full constant/boundary grid for the affected operators).
-/
namespace GV.Props.C06
open GV.NumOpTable GV.JSInt GV.NumScheme

/-- the table extracted from the current source is exactly the table that GV.Model.NumScheme transcribes -/
theorem optable_known : GV.Generated.opTable = knownEntries := by rfl

/-- hence every extracted entry is one of the known shapes (each annotated with the NumScheme definition and the theorem of
    GV.Props.C06 that covers it), and no known shape has disappeared -/
theorem optable_member : ∀ e ∈ GV.Generated.opTable, ∃ k ∈ known, k.1 = e := by
  intro e he
  rw [optable_known] at he
  simpa [knownEntries] using he

/-- integer multiplication: `$imul` for the signed and for the unsigned 32-bit kinds unconditionally; the plain `%e * %e` + fixNumber
    pattern is reached only after both 32-bit case lists have returned, i.e. for 8/16-bit kinds (and floats) -/
theorem mul_patterns : mulGuards =
    [("(basic.Kind()) in {types.Int32, types.Int}", "return fc.formatParenExpr(\"$imul(%e, %e)\", e.X, e.Y)"),
     ("(basic.Kind()) in {types.Uint32, types.Uint, types.Uintptr}", "return fc.formatParenExpr(\"$imul(%e, %e) >>> 0\", e.X, e.Y)"),
     ("after switch (basic.Kind()) {types.Int32, types.Int | types.Uint32, types.Uint, types.Uintptr}",
      "return fc.fixNumber(fc.formatExpr(\"%e * %e\", e.X, e.Y), basic)")] := by decide

/-- a plain `x * c` on 32-bit operands is NOT one of the proved shapes, also for a "small" constant factor: with |c| < 2^22 and an
    unsigned 32-bit x the exact product exceeds 2^53, so the JS double is not exact (the premise of `exact_doubles` fails) -/
theorem small_const_mul_inexact :
    ∃ x c : Int, InRange .uint32 x ∧ -4194304 < c ∧ c < 4194304 ∧ ¬ (x * c ≤ two53) :=
  ⟨4294967295, 4194303, by decide, by decide, by decide, by decide⟩

end GV.Props.C06
