import GV.Props.C08
import GV.Generated.StackLimit

/-!
  C08 — obligation over a fact re-extracted from /repo on every run: GV/Generated/StackLimit.lean is written by
  checks/c08.py from the `Error.stackTraceLimit` assignment of compiler/prelude/prelude.js (`none` = Infinity).
  The emulation model reads the JS stack depth exactly (`getStackDepth s d = off + d + 2` for every d); this holds
  for every depth iff V8 keeps an unbounded number of frames (`depth_observable_iff`). If the limit is finite the
  theorems about `emu` stop applying to the code for stacks deeper than the limit.
-/
namespace GV.Props.C08
open GV.Defer

/-- the depth test of `$recover` is sound for every depth: the prelude asks V8 for unbounded stack traces -/
theorem stack_trace_limit_unbounded : GV.Generated.C08.stackTraceLimit = none := by decide

/-- hence the stack depth is observable exactly at every depth in the code as extracted -/
theorem stack_depth_observable (d : Nat) : observedLines GV.Generated.C08.stackTraceLimit d = d + 1 :=
  (depth_observable_iff _).2 stack_trace_limit_unbounded d

end GV.Props.C08
