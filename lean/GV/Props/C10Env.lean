import GV.Generated.RuntimeInit

/-!
  C10 — obligation over facts re-extracted from /repo on every run. `GV/Generated/RuntimeInit.lean` is written by
  checks/c10.py from the archives the real compiler produced: for every package in the dependency closure of
  `runtime` (closure computed by the model's `collect` over the archives' import lists) the number of initialisers
  (non-import declarations with `InitCode`) and the number of those that contain a suspension point (`$blk` in the
  emitted init code, or `Decl.Blocking`).

  This discharges, for the real code, the hypothesis `hsync` of `GV.Props.C10.init_once_after_imports`: the emitted
  program calls `$packages["runtime"].$init()` synchronously, which is only correct when no initialiser of that
  closure can suspend (`GV.Props.C10.boot_sync_needs_hsync`).
-/
namespace GV.Props.C10Env
open GV.Generated.RuntimeInit

/-- no initialiser of the `runtime` closure contains a suspension point -/
theorem runtime_closure_nonblocking : ∀ e ∈ facts, e.2.2 = 0 := by decide

/-- the extraction saw the `runtime` package itself -/
theorem runtime_closure_has_runtime : "runtime" ∈ facts.map (·.1) := by decide

end GV.Props.C10Env
