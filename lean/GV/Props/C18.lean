import GV.Model.BuildTags

/-!
  C18 — source files are selected by the documented build constraints.
  The theorems are stated for the configuration `userCtx documented userTags` (and `stdCtx`);
  `GV/Props/C18Env.lean` proves on every run that the facts extracted from the code are `documented`.
-/
namespace GV.Props.C18
open GV.BuildTags

/-- The documented set of satisfied tags for user packages (the property's statement):
    js, ecmascript, gc, the always-on tags, go1.1 … go1.20, plus the command-line tags. -/
def Satisfied (userTags : List Tag) (t : Tag) : Prop :=
  t ∈ [Tag.named "js", Tag.named "ecmascript", Tag.named "gc", Tag.named "netgo", Tag.named "purego",
       Tag.named "math_big_pure_go", Tag.named "gopherjs"]
  ∨ (∃ n, 1 ≤ n ∧ n ≤ 20 ∧ t = Tag.rel n)
  ∨ t ∈ userTags

theorem mem_releaseTagsUpTo (N : Nat) (t : Tag) :
    t ∈ releaseTagsUpTo N ↔ ∃ n, 1 ≤ n ∧ n ≤ N ∧ t = Tag.rel n := by
  unfold releaseTagsUpTo
  simp only [List.mem_map, List.mem_range]
  constructor
  · rintro ⟨i, hi, rfl⟩; exact ⟨i + 1, by omega, by omega, rfl⟩
  · rintro ⟨n, h1, h2, rfl⟩; exact ⟨n - 1, by omega, by congr; omega⟩

theorem named_not_release (N : Nat) (s : String) : Tag.named s ∉ releaseTagsUpTo N := by
  rw [mem_releaseTagsUpTo]; rintro ⟨n, _, _, h⟩; cases h

/-- **matchTag_documented** — for user packages go/build's tag test, as configured by GopherJS,
    answers `true` exactly on the documented tag set ∪ the command-line tags (every tag name, every
    release number, every user tag list). `boringcrypto` is go/build's alias and is excluded here;
    see `matchTag_boringcrypto`. -/
theorem matchTag_documented (userTags : List Tag) (t : Tag) (hb : t ≠ Tag.named "boringcrypto") :
    matchTag (userCtx documented userTags) t = true ↔ Satisfied userTags t := by
  unfold Satisfied
  cases t with
  | rel n =>
    simp only [matchTag, userCtx, documented, List.contains_eq_mem, List.mem_append, List.mem_map,
      Bool.or_eq_true, decide_eq_true_eq, mem_releaseTagsUpTo, List.mem_cons, List.not_mem_nil,
      reduceCtorEq, and_false, exists_false, or_false, false_or]
    constructor
    · rintro (h | h)
      · exact Or.inr h
      · exact Or.inl h
    · rintro (h | h)
      · exact Or.inr h
      · exact Or.inl h
  | named s =>
    have hs : s ≠ "boringcrypto" := fun h => hb (by rw [h])
    have hu : unixOS.contains "js" = false := by decide
    by_cases h1 : s = "js"
    · subst h1; simp [matchTag, userCtx, documented]
    by_cases h2 : s = "ecmascript"
    · subst h2; simp [matchTag, userCtx, documented]
    by_cases h3 : s = "gc"
    · subst h3; simp [matchTag, userCtx, documented]
    have hu' : ¬ ("js" ∈ unixOS) := by decide
    simp [matchTag, userCtx, documented, hs, hu', h1, h2, h3, named_not_release]
    constructor
    · rintro (h | h)
      · exact Or.inr h
      · exact Or.inl h
    · rintro (h | h)
      · exact Or.inr h
      · exact Or.inl h

/-- executable form of the documented set -/
def satisfiedB (userTags : List Tag) (t : Tag) : Bool :=
  match t with
  | .rel n => (1 ≤ n && n ≤ 20) || userTags.contains t
  | .named s => ["js", "ecmascript", "gc", "netgo", "purego", "math_big_pure_go", "gopherjs"].contains s
                  || userTags.contains t

theorem satisfiedB_iff (u : List Tag) (t : Tag) : satisfiedB u t = true ↔ Satisfied u t := by
  unfold Satisfied satisfiedB
  cases t with
  | rel n =>
    simp only [Bool.or_eq_true, Bool.and_eq_true, decide_eq_true_eq, List.contains_eq_mem, List.mem_cons,
      reduceCtorEq, List.not_mem_nil, or_false, false_or, Tag.rel.injEq]
    constructor
    · rintro (⟨a, b⟩ | h)
      · exact Or.inl ⟨n, a, b, rfl⟩
      · exact Or.inr h
    · rintro (⟨m, a, b, rfl⟩ | h)
      · exact Or.inl ⟨a, b⟩
      · exact Or.inr h
  | named s =>
    simp only [Bool.or_eq_true, List.contains_eq_mem, decide_eq_true_eq, List.mem_cons, Tag.named.injEq,
      List.not_mem_nil, or_false, reduceCtorEq, and_false, exists_false, false_or]

theorem eval_congr (env1 env2 : Tag → Bool) (e : Expr) (h : ∀ t, e.mentions t = true → env1 t = env2 t) :
    e.eval env1 = e.eval env2 := by
  induction e with
  | tag t => exact h t (by simp [Expr.mentions])
  | not e ih => simp only [Expr.eval]; rw [ih (fun t ht => h t (by simpa [Expr.mentions] using ht))]
  | and a b iha ihb =>
    simp only [Expr.eval]
    rw [iha (fun t ht => h t (by simp [Expr.mentions, ht])), ihb (fun t ht => h t (by simp [Expr.mentions, ht]))]
  | or a b iha ihb =>
    simp only [Expr.eval]
    rw [iha (fun t ht => h t (by simp [Expr.mentions, ht])), ihb (fun t ht => h t (by simp [Expr.mentions, ht]))]

theorem matchTag_eq_satisfiedB (u : List Tag) (t : Tag) (hb : t ≠ Tag.named "boringcrypto") :
    matchTag (userCtx documented u) t = satisfiedB u t := by
  have h1 := matchTag_documented u t hb
  have h2 := satisfiedB_iff u t
  cases ha : matchTag (userCtx documented u) t <;> cases hc : satisfiedB u t <;> simp_all

/-- **eval_documented** — every constraint expression (any nesting of !, &&, ||) that does not use
    go/build's `boringcrypto` alias evaluates, under GopherJS's configuration, exactly as it does
    under the documented tag set. -/
theorem eval_documented (u : List Tag) (e : Expr) (hb : e.mentions (Tag.named "boringcrypto") = false) :
    e.eval (matchTag (userCtx documented u)) = e.eval (satisfiedB u) := by
  apply eval_congr
  intro t ht
  apply matchTag_eq_satisfiedB
  rintro rfl
  rw [ht] at hb; cases hb

/-- **no_later_release** — `go1.n` for n > 20 is satisfied only if given on the command line. -/
theorem no_later_release (u : List Tag) (n : Nat) (h : 20 < n) :
    matchTag (userCtx documented u) (Tag.rel n) = true ↔ Tag.rel n ∈ u := by
  rw [matchTag_documented u _ (by intro h; cases h)]
  unfold Satisfied
  constructor
  · rintro (h' | ⟨m, _, h2, h3⟩ | h')
    · simp at h'
    · cases h3; omega
    · exact h'
  · exact fun h' => Or.inr (Or.inr h')

theorem release_upto (u : List Tag) (n : Nat) (h1 : 1 ≤ n) (h2 : n ≤ 20) :
    matchTag (userCtx documented u) (Tag.rel n) = true := by
  rw [matchTag_documented u _ (by intro h; cases h)]
  exact Or.inr (Or.inl ⟨n, h1, h2, rfl⟩)

/-- **cgo_never** — the `cgo` tag is never satisfied by the configuration itself … -/
theorem cgo_tag (u : List Tag) :
    matchTag (userCtx documented u) (Tag.named "cgo") = true ↔ Tag.named "cgo" ∈ u := by
  rw [matchTag_documented u _ (by decide)]
  unfold Satisfied
  constructor
  · rintro (h' | ⟨m, _, _, h3⟩ | h')
    · simp at h'
    · cases h3
    · exact h'
  · exact fun h' => Or.inr (Or.inr h')

/-- … and a file that imports "C" is never selected, whatever its constraints, name and the user tags. -/
theorem cgo_files_never (u : List Tag) (f : SrcFile) (h : f.importsC = true) :
    selectedGo (userCtx documented u) f = false := by
  simp [selectedGo, h, userCtx, documented]

theorem cgo_files_never_std (u : List Tag) (f : SrcFile) (h : f.importsC = true) :
    selectedGo (stdCtx documented u) f = false := by
  simp [selectedGo, h, userCtx, stdCtx, documented]

/-- **selected_iff** (decision logic stated outright) — a file of a user package takes part in the build
    exactly when it is a visible non-test .go file without cgo whose name suffix rule and whose
    `//go:build` expression (or every legacy `+build` line) hold under the documented tag set. -/
theorem selected_iff (u : List Tag) (f : SrcFile)
    (hb : ∀ e, (f.goBuild = some e ∨ e ∈ f.plusBuild) → e.mentions (Tag.named "boringcrypto") = false) :
    selectedGo (userCtx documented u) f = true ↔
      (f.hidden = false ∧ f.isGo = true ∧ f.isTest = false ∧ goodOSArch (userCtx documented u) f.parts = true ∧
       (match f.goBuild with
        | some e => e.eval (satisfiedB u) = true
        | none => ∀ e ∈ f.plusBuild, e.eval (satisfiedB u) = true) ∧
       f.importsC = false) := by
  have hc : (userCtx documented u).cgoEnabled = false := rfl
  unfold selectedGo shouldBuild
  rw [hc]
  cases hg : f.goBuild with
  | some e =>
    simp only [Bool.and_eq_true, Bool.not_eq_true', Bool.or_false]
    rw [eval_documented u e (hb e (Or.inl hg))]
    constructor
    · rintro ⟨⟨⟨⟨⟨a, b⟩, c⟩, d⟩, e'⟩, g⟩; exact ⟨a, b, c, d, e', g⟩
    · rintro ⟨a, b, c, d, e', g⟩; exact ⟨⟨⟨⟨⟨a, b⟩, c⟩, d⟩, e'⟩, g⟩
  | none =>
    simp only [Bool.and_eq_true, Bool.not_eq_true', Bool.or_false, List.all_eq_true]
    have hall : (∀ x ∈ f.plusBuild, x.eval (matchTag (userCtx documented u)) = true) ↔
        (∀ x ∈ f.plusBuild, x.eval (satisfiedB u) = true) := by
      constructor
      · intro h x hx; rw [← eval_documented u x (hb x (Or.inr hx))]; exact h x hx
      · intro h x hx; rw [eval_documented u x (hb x (Or.inr hx))]; exact h x hx
    rw [hall]
    constructor
    · rintro ⟨⟨⟨⟨⟨a, b⟩, c⟩, d⟩, e'⟩, g⟩; exact ⟨a, b, c, d, e', g⟩
    · rintro ⟨a, b, c, d, e', g⟩; exact ⟨⟨⟨⟨⟨a, b⟩, c⟩, d⟩, e'⟩, g⟩

/-- **user_tags_monotone** — adding a command-line tag changes the evaluation only of expressions that
    mention it (or, for `goexperiment.boringcrypto`, its go/build alias `boringcrypto`). -/
theorem user_tag_irrelevant (fx : Facts) (u : List Tag) (t : Tag) (e : Expr)
    (h1 : e.mentions t = false)
    (h2 : t = Tag.named "goexperiment.boringcrypto" → e.mentions (Tag.named "boringcrypto") = false) :
    e.eval (matchTag (userCtx fx (t :: u))) = e.eval (matchTag (userCtx fx u)) := by
  apply eval_congr
  intro t' ht'
  have hne : t' ≠ t := by rintro rfl; rw [ht'] at h1; cases h1
  cases t' with
  | rel n =>
    simp [matchTag, userCtx, hne]
  | named s =>
    by_cases hbc : s = "boringcrypto"
    · subst hbc
      have : t ≠ Tag.named "goexperiment.boringcrypto" := by
        intro h; rw [h2 h] at ht'; cases ht'
      have h3 : Tag.named "goexperiment.boringcrypto" ≠ t := fun h => this h.symm
      simp [matchTag, userCtx, h3]
    · simp [matchTag, userCtx, hne, hbc]

/-- **std_as_wasm** — for standard-library packages the same matcher runs with GOOS=js, GOARCH=wasm:
    `wasm` is satisfied and `ecmascript` is not (unless given on the command line). -/
theorem std_wasm (u : List Tag) : matchTag (stdCtx documented u) (Tag.named "wasm") = true := by
  simp [matchTag, stdCtx, userCtx, documented]

theorem std_not_ecmascript (u : List Tag) :
    matchTag (stdCtx documented u) (Tag.named "ecmascript") = true ↔ Tag.named "ecmascript" ∈ u := by
  have hu' : ¬ ("js" ∈ unixOS) := by decide
  simp [matchTag, stdCtx, userCtx, documented, hu', named_not_release]

theorem user_not_wasm (u : List Tag) :
    matchTag (userCtx documented u) (Tag.named "wasm") = true ↔ Tag.named "wasm" ∈ u := by
  have hu' : ¬ ("js" ∈ unixOS) := by decide
  simp [matchTag, userCtx, documented, hu', named_not_release]

/-- non-vacuity: a concrete file that is selected, one that is not -/
example : selectedGo (userCtx documented [])
    { hidden := false, isGo := true, isIncJS := false, isTest := false, parts := some ["js"],
      goBuild := some (.and (.tag (.named "gopherjs")) (.not (.tag (.rel 21)))), plusBuild := [], importsC := false } = true := by
  decide
example : selectedGo (userCtx documented [])
    { hidden := false, isGo := true, isIncJS := false, isTest := false, parts := some ["js", "wasm"],
      goBuild := none, plusBuild := [], importsC := false } = false := by
  decide

end GV.Props.C18
