/-
  GV.Props.C11 — Go and JavaScript values convert as documented and round-trip.

  Models: GV.Model.Utf16 (the two transcoding loops), GV.Model.JsConv (`$externalize`, `$internalize`, wrapper cache),
  GV.Model.CbGuard (`$send/$recv/$block/$schedule`).  Spec: GV.Spec.JsTable (documented table of js/js.go, round-trip
  domain), GV.Spec.Utf8 (Unicode).
-/
import GV.Model.JsConv
import GV.Model.CbGuard
import GV.Spec.JsTable
import GV.Proofs.Utf16
import GV.Proofs.JsConv
import GV.Proofs.JsRoundtrip
import GV.Proofs.CbGuard
import GV.Proofs.CbHist
import GV.Proofs.JsSlice
import GV.Proofs.JsTagKey

namespace GV.Props.C11
open GV.JsConv GV.Utf16 GV.Utf8 GV.Spec.JsTable GV.Spec.Utf8

/-! ## strings -/

/-- **utf16_roundtrip** — `$internalize($externalize(s, $String), $String) = s` for every well-formed UTF-8 byte string
    (any scalar values, including non-BMP ones, which travel as surrogate pairs). -/
theorem utf16_roundtrip (s : List Nat) (h : ValidUtf8 s) : internalizeString (externalizeString s) = s := by
  obtain ⟨rs, hs, rfl⟩ := h
  rw [GV.Proofs.Utf16.externalize_valid rs hs, GV.Proofs.Utf16.internalize_valid rs hs]

/-- **utf16_roundtrip_converse** — `$externalize($internalize(u, $String), $String) = u` for every JavaScript string
    without lone surrogates. -/
theorem utf16_roundtrip_converse (u : List Nat) (h : ValidUtf16 u) : externalizeString (internalizeString u) = u := by
  obtain ⟨rs, hs, rfl⟩ := h
  rw [GV.Proofs.Utf16.internalize_valid rs hs, GV.Proofs.Utf16.externalize_valid rs hs]

example : ValidUtf8 [0x61, 0xF0, 0x9F, 0x98, 0x80] := ⟨[0x61, 0x1F600], by decide, by decide⟩

/-- an invalid byte (any byte ≥ 0x80 that does not start a well-formed sequence here: alone) becomes U+FFFD; the
    conversion is therefore not injective on arbitrary Go strings and such strings do not round-trip. -/
theorem externalize_invalid_byte (b : Nat) (h1 : 0x80 ≤ b) (h2 : b < 256) : externalizeString [b] = [0xFFFD] := by
  have hd : decodeRune [b] 0 = (0xFFFD, 1) := by
    unfold decodeRune
    simp only [charCodeAt, List.getElem?_cons_zero]
    have hn : ([b] : List Nat)[0 + 1]? = none := by simp
    rw [hn]
    by_cases hc : b < 0xC0
    · exact GV.Props.C14.core_cont b _ _ _ h1 hc
    · exact GV.Props.C14.core_bad1 b none _ _ (by omega) rfl
  rw [GV.Proofs.Utf16.externalizeString_eq]
  simp [extLoop, hd, unitsOf]

/-- a lone low surrogate becomes U+FFFD (EF BF BD) -/
theorem internalize_lone_low (l : Nat) (h : 0xDC00 ≤ l ∧ l ≤ 0xDFFF) : internalizeString [l] = [0xEF, 0xBF, 0xBD] := by
  rw [GV.Proofs.Utf16.internalizeString_eq, GV.Proofs.Utf16.intLoop_cons_low l [] (by omega)]
  rw [GV.Props.C14.encode_nonscalar (l : Int) (by unfold isScalar; simp; omega)]
  simp [intLoop]

/-- a high surrogate at the END of a JavaScript string becomes the four bytes F0 80 80 80 — not U+FFFD and not
    valid UTF-8 (`charCodeAt` past the end is NaN and `$encodeRune(NaN)` takes the 4-byte branch). -/
theorem internalize_lone_high_end (h : Nat) (hh : 0xD800 ≤ h ∧ h ≤ 0xDBFF) : internalizeString [h] = [0xF0, 0x80, 0x80, 0x80] := by
  rw [GV.Proofs.Utf16.internalizeString_eq]
  simp [intLoop, hh, encodeRuneNaN]

/-- a high surrogate followed by ANY unit consumes that unit (there is no test that it is a low surrogate): the
    pair becomes the single rune `(h - 0xD800) * 0x400 + l - 0xDC00 + 0x10000`; e.g. "\uD800a" becomes U+2461. -/
theorem internalize_high_then_any (h l : Nat) (rest : List Nat) (hh : 0xD800 ≤ h ∧ h ≤ 0xDBFF) :
    internalizeString (h :: l :: rest) =
      encodeRune (((h : Int) - 0xD800) * 0x400 + (l : Int) - 0xDC00 + 0x10000) ++ internalizeString rest := by
  rw [GV.Proofs.Utf16.internalizeString_eq, GV.Proofs.Utf16.internalizeString_eq, GV.Proofs.Utf16.intLoop_cons_high h l rest hh]

example : internalizeString [0xD800, 0x61] = [0xE2, 0x91, 0xA1] := by decide

/-! ## scalars and 64-bit integers -/

/-- **roundtrip_scalar** — every documented scalar (bool, integers in range, 64-bit integers with |v| ≤ 2^53, floats by
    token identity — NaN, ±Inf, `-0`, every finite token —, well-formed UTF-8 strings) round-trips. -/
theorem roundtrip_scalar (τ : Ty) (v : GoVal) (h : RTScalar τ v) :
    ∃ j, externalize τ v = .ok j ∧ internalize τ j = .ok v :=
  GV.Proofs.JsConv.roundtrip_scalar τ v h

/-- the sign of zero is kept: `-0` externalizes to `-0` and internalizes (`$parseFloat`) to `-0`. -/
theorem roundtrip_negzero :
    (externalize .f64 (.num .negZero)).bind (internalize .f64) = .ok (.num .negZero) := by rfl

/-- **mk64_exact** — `new $Uint64(0, n)` represents `n mod 2^64` for EVERY integer-valued double n (no bound), and
    `new $Int64(0, n)` the same residue with the high word read as signed. -/
theorem mk64_exact (n : Int) :
    (∃ hi lo, mk64 false (.int n) = .i64 hi lo ∧ hi * 4294967296 + (lo : Int) = n % 18446744073709551616) ∧
    (∃ hi lo, mk64 true (.int n) = .i64 hi lo ∧ (hi * 4294967296 + (lo : Int)) % 18446744073709551616 = n % 18446744073709551616) :=
  GV.Proofs.JsConv.mk64_exact n

/-- **roundtrip64_exact** — a 64-bit value round-trips exactly when it is a double (`roundInt v = v`), in
    particular whenever |v| ≤ 2^53. -/
theorem roundtrip64_exact (signed : Bool) (hi : Int) (lo : Nat) (hlo : lo < 4294967296)
    (hhi : if signed then -2147483648 ≤ hi ∧ hi ≤ 2147483647 else 0 ≤ hi ∧ hi ≤ 4294967295)
    (hex : roundInt (hi * 4294967296 + (lo : Int)) = hi * 4294967296 + (lo : Int)) :
    (externalize (if signed then .i64 else .u64) (.i64 hi lo)).bind (internalize (if signed then .i64 else .u64)) = .ok (.i64 hi lo) :=
  GV.Proofs.JsConv.roundtrip64_exact signed hi lo hlo hhi hex

/-- **roundtrip64_beyond** — what happens beyond 2^53: the value is rounded to the nearest double (ties to even) and
    read back modulo 2^64: `math.MaxUint64` comes back as 0, `math.MaxInt64` as `math.MinInt64`, 2^53+1 as 2^53. -/
theorem roundtrip64_beyond :
    (externalize .u64 (.i64 4294967295 4294967295)).bind (internalize .u64) = .ok (.i64 0 0) ∧
    (externalize .i64 (.i64 2147483647 4294967295)).bind (internalize .i64) = .ok (.i64 (-2147483648) 0) ∧
    (externalize .i64 (.i64 2097152 1)).bind (internalize .i64) = .ok (.i64 2097152 0) := by
  refine ⟨?_, ?_, ?_⟩ <;> rfl

/-! ## composites: round trip by structural induction -/

/-- **roundtrip** — for every (τ, v) of the documented domain (`GV.Proofs.JsConv.RT`: bool, in-range integers, 64-bit integers
    with |v| ≤ 2^53, floats incl. NaN and `-0`, valid UTF-8 strings; nil and non-nil slices — numeric element kinds travel
    as typed arrays of the documented class —, arrays, nil and non-nil string-keyed maps with distinct well-formed keys,
    structs whose unexported fields hold their zero value; nested to any depth),
    `$internalize($externalize(v, τ), τ) = v`. By induction on the value. -/
theorem roundtrip (τ : Ty) (v : GoVal) (h : GV.Proofs.JsConv.RT τ v) :
    ∃ j, externalize τ v = .ok j ∧ internalize τ j = .ok v :=
  GV.Proofs.JsConv.roundtrip τ v h

/-- nil ↔ null for maps (and slices) -/
theorem roundtrip_nilmap (e : Ty) : (externalize (.map e) .nil).bind (internalize (.map e)) = .ok .nil := by
  simp [externalize, internalize, Except.bind]

/-- the domain is inhabited by non-trivial nested values: a struct holding a map of typed-array slices, an array, `-0`,
    and an unexported field -/
example : GV.Proofs.JsConv.RT
    (.struct [⟨[65], true⟩, ⟨[98], false⟩, ⟨[67], true⟩] [.map (.slice (.int .i8)), .str, .arr 2 .f64])
    (.struct [.map [[107]] [.slice [.num (.int (-128)), .num (.int 127)]], .str [], .arr [.num .negZero, .num .nan]]) := by
  simp [GV.Proofs.JsConv.RT, GV.Proofs.JsConv.RTList, GV.Proofs.JsConv.RTFields, GV.Proofs.JsConv.domTy, GV.Proofs.JsConv.domTys,
    RTScalar, inRange, zeroVal]
  exact ⟨[107], by decide, by decide⟩

/-! ## slices: the window of the backing array handed to JavaScript -/

/-- **sliceToNative_window** — for EVERY slice `{backing, offset, len, cap}` satisfying the slice invariant (`len ≤ cap`,
    `offset + cap ≤ backing.length`; established by `new T(array)` and preserved by `$subslice`), `$sliceToNativeArray` yields
    exactly `len` elements, the i-th being `backing[offset + i]` — whatever the capacity and however long the backing array
    is. This is the list of elements that `GoVal.slice` stands for in `externalize`. -/
theorem sliceToNative_window {α : Type} (s : GV.JsSlice.SliceRep α) (h : s.Inv) :
    (GV.JsSlice.sliceToNative s).length = s.length ∧
    ∀ i, i < s.length → (GV.JsSlice.sliceToNative s)[i]? = s.backing[s.offset + i]? :=
  GV.Proofs.JsSlice.sliceToNative_window s h

theorem slice_invariant {α : Type} (a : List α) :
    (GV.JsSlice.ofArray a).Inv ∧
    ∀ (s t : GV.JsSlice.SliceRep α) (lo hi mx : Nat), s.Inv → GV.JsSlice.subslice s lo hi mx = some t → t.Inv :=
  ⟨GV.Proofs.JsSlice.ofArray_inv a, GV.Proofs.JsSlice.subslice_inv⟩

/-- the "spans the whole backing array" fast path keyed on the SLICE's capacity is refuted by `buf[:2:2]` of a 5-element
    array: it hands out all 5 elements. -/
theorem sliceToNative_fastpath_counterexample :
    let s : GV.JsSlice.SliceRep Nat := ⟨[1, 2, 3, 4, 5], 0, 2, 2⟩
    s.Inv ∧ GV.JsSlice.sliceToNativeFast s = [1, 2, 3, 4, 5] ∧ GV.JsSlice.sliceToNative s = [1, 2] := by
  refine ⟨by simp [GV.JsSlice.SliceRep.Inv], by decide, by decide⟩

/-! ## the documented table -/

/-- **documented_table (Go → JavaScript)** — for every row of the table, a non-nil Go value of that type class arrives as
    a JavaScript value of the documented class (structs wrapping a `*js.Object` in their first field excepted, as the
    package comment says). -/
theorem documented_table_ext (τ : Ty) (v : GoVal) (j : JsVal) (c : JsClass)
    (hdoc : docJsClass τ = some c) (hx : externalize τ v = .ok j) (hnn : j ≠ .null) (hs : searchJs τ v = none) :
    classOf j = c :=
  GV.Proofs.JsConv.documented_table_ext τ v j c hdoc hx hnn hs

/-- **documented_table (JavaScript → `any`)** — `Interface()` of a JavaScript value of a documented class yields the
    documented Go dynamic type. -/
theorem documented_table_back (j : JsVal) (g : GoVal) (τ : Ty)
    (hdoc : docBack (classOf j) = some τ) (hw : ∀ id, j ≠ .wrapper id) (hi : internIface j = .ok g) :
    ∃ w, g = .iface τ w :=
  GV.Proofs.JsConv.documented_table_back j g τ hdoc hw hi

/-! ## exposed functions -/

/-- **wrapper_call_spec** — calling the JavaScript wrapper of a Go `func(x τ) τ` with behaviour `f` on `j` internalizes the
    argument by τ, applies `f`, externalizes the result by τ ("receive converted arguments, return converted results"). -/
theorem wrapper_call_spec (τ : Ty) (f : GoVal → R GoVal) (j : JsVal) :
    callWrapper [τ] [τ] false (fun a => match a with | [x] => (f x).map (fun r => [r]) | _ => .error .illTyped) [j]
      = (internalize τ j).bind (fun x => (f x).bind (externalize τ)) := by
  unfold callWrapper
  simp only [internArgs, List.headD, List.tail]
  cases h : internalize τ j with
  | error e => simp [bind, Except.bind]
  | ok x => cases hf : f x <;> simp [bind, Except.bind, Except.map, hf]

/-- **wrapper_stable** — along any history of externalisations, starting from any cache state, the same Go function
    always yields the same JavaScript wrapper. -/
theorem wrapper_stable (c : WrapCache) (h : List Nat) (f w1 w2 : Nat)
    (h1 : (f, w1) ∈ runHistory c h) (h2 : (f, w2) ∈ runHistory c h) : w1 = w2 :=
  GV.Proofs.JsConv.wrapper_stable c h f w1 w2 h1 h2

/-- **wrapper_injective** — and distinct Go functions never share a wrapper (from the empty cache). -/
theorem wrapper_injective (h : List Nat) (f1 f2 w : Nat)
    (h1 : (f1, w) ∈ runHistory WrapCache.empty h) (h2 : (f2, w) ∈ runHistory WrapCache.empty h) : f1 = f2 :=
  GV.Proofs.JsConv.wrapper_injective h f1 f2 w h1 h2

/-! ## js-tagged struct fields: the property accessor emitted for a `js:"…"` tag -/

/-- **tag_key_spec** — for every tag that is valid UTF-8 (runes `rs`), whatever `unicode.IsLetter/IsDigit/IsPrint` say
    (provided non-printable runes are in the BMP: `\u%04X` prints more than four digits beyond it), the accessor emitted by
    `formatJSStructTagVal` — dot notation or bracket notation with a `template.JSEscapeString` literal — denotes the
    property whose name is the UTF-16 transcoding of the tag, i.e. exactly the name `$externalize(tag, $String)` yields
    for `obj.Get(tag)`, and what JavaScript code sees. -/
theorem tag_key_spec (T : GV.JsTagKey.Tables) (rs : List Nat) (hs : ∀ r ∈ rs, isScalar (r : Int) = true)
    (hp : ∀ r ∈ rs, r > 0xFFFF → T.isPrint r = true) :
    GV.JsTagKey.keyName (GV.JsTagKey.tagKey T rs) = some (externalizeString ((rs.map encodeScalar).flatten)) := by
  rw [GV.Proofs.Utf16.externalize_valid rs hs]
  exact GV.Proofs.JsTagKey.tagKey_name T rs
    (fun r hr => ((GV.Proofs.Utf16.isScalar_iff r).mp (hs r hr)).1) hp

/-- C14's `encodeString` (the literal for a GO string: one code unit per BYTE) is the WRONG encoder for a property name:
    the literal it emits denotes the tag's bytes (C14 `literal_roundtrip`), not its UTF-16 form. -/
theorem tag_key_byte_escaped_denotes_bytes (bytes : List Nat) (hb : ∀ b ∈ bytes, b < 256) :
    GV.StrLit.jsStringValue (GV.StrLit.encodeString bytes) = some bytes :=
  GV.Props.C14.literal_roundtrip bytes hb

/-- the variant that builds the bracket key with `encodeString` is refuted by `js:"ö-"`: the accessor denotes the
    mojibake name C3 B6 2D instead of F6 2D. -/
theorem tag_key_byte_escaped_counterexample :
    let T : GV.JsTagKey.Tables := ⟨fun r => r == 0xF6, fun _ => false, fun _ => true⟩
    GV.JsTagKey.keyName (GV.JsTagKey.tagKeyBytes T [0xF6, 0x2D] [0xC3, 0xB6, 0x2D]) = some [0xC3, 0xB6, 0x2D] ∧
    GV.JsTagKey.keyName (GV.JsTagKey.tagKey T [0xF6, 0x2D]) = some [0xF6, 0x2D] ∧
    externalizeString [0xC3, 0xB6, 0x2D] = [0xF6, 0x2D] := by
  decide

/-! ## the callback guard -/
open GV.CbGuard

/-- the operation is executed inside a JavaScript callback -/
abbrev byCallback : Ev → Prop
  | .send g _ => g = none
  | .recv g => g = none
  | .select g _ _ => g = none
  | .dequeue => False

/-- **callback_guard** (full strength) — whenever an operation executed in a JavaScript callback raises "cannot block in
    JavaScript callback", the channel queues, the buffer, the run queue and the counters are exactly what they were:
    for `$send`, `$recv` and `$select` (any cases, any random choice), from every state. -/
theorem callback_guard (s : St) (e : Ev) (hc : s.cur = none) (hcb : byCallback e)
    (h : (step s e).1 = .errCannotBlock) : (step s e).2 = s := by
  have hs : ({ s with cur := none } : St) = s := by cases s; simp_all
  cases e with
  | send g v =>
    simp only [byCallback] at hcb; subst hcb
    simp only [step, hs] at h ⊢
    rw [GV.Proofs.CbGuard.send_guard s v hc h]; exact hs
  | recv g =>
    simp only [byCallback] at hcb; subst hcb
    simp only [step, hs] at h ⊢
    rw [GV.Proofs.CbGuard.recv_guard s hc h]; exact hs
  | select g pick cs =>
    simp only [byCallback] at hcb; subst hcb
    simp only [step, hs] at h ⊢
    rw [GV.Proofs.CbGuard.select_guard s cs pick hc h]; exact hs
  | dequeue => exact absurd hcb (by simp [byCallback])

/-- a send that has to block: channel open, no waiting receiver, buffer full -/
abbrev sendBlocks (s : St) : Prop := s.chan.closed = false ∧ s.chan.recvQ = [] ∧ ¬ s.chan.buffer.length < s.chan.capacity

/-- a receive that has to block: nothing queued or buffered, channel open -/
abbrev recvBlocks (s : St) : Prop := s.chan.sendQ = [] ∧ s.chan.buffer = [] ∧ s.chan.closed = false

/-- **callback_guard_raised** — and the documented error IS raised when a callback has to block -/
theorem callback_guard_raised (s : St) (v : Nat) (hc : s.cur = none) :
    (sendBlocks s → send s v = (.errCannotBlock, s)) ∧ (recvBlocks s → recv s = (.errCannotBlock, s)) := by
  constructor
  · intro ⟨h1, h2, h3⟩
    simp [send, h1, h2, h3, canBlock, hc]
  · intro ⟨h1, h2, h3⟩
    simp [recv, pullSender, h1, h2, h3, canBlock, hc]

example : sendBlocks (init 0) ∧ recvBlocks (init 0) ∧ (init 0).cur = none := by decide

/-- **scheduler_never_calls_noGoroutine** [INV] — for every history of sends, receives, selects (by goroutines or inside
    callbacks, any random choices) and scheduler iterations from the initial state, no queue entry is ever owned by
    `$noGoroutine`, `$noGoroutine` is never on `$scheduled`, and `$runScheduled` never dies with
    `TypeError: r is not a function`. -/
theorem scheduler_never_calls_noGoroutine (cap : Nat) (es : List Ev) :
    Out.typeErrorNotAFunction ∉ (run (init cap) es).1 ∧ GV.Proofs.CbGuard.Inv (run (init cap) es).2 :=
  GV.Proofs.CbGuard.run_inv es (init cap) ⟨by simp [init], by simp [init], by simp [init]⟩

/-- the former witness {callback send, goroutine receive, dequeue} is harmless now: error, the goroutine blocks, nothing to run -/
theorem callback_guard_witness :
    (run (init 0) [.send none 7, .recv (some 1), .dequeue]).1 = [.errCannotBlock, .blocked, .idle] ∧
    (run (init 0) [.select none 0 [.send 5, .recv], .recv (some 1), .send (some 2) 4, .dequeue]).1
      = [.errCannotBlock, .blocked, .done, .resumed 1] := by
  decide

/-! ### `$curGoroutine` over whole histories (real `$go` / `$goroutine` / `$runScheduled`) -/

/-- **cur_reset_after_every_activation** — (a) every activation of a goroutine ends with `$curGoroutine = $noGoroutine`,
    whether the goroutine returns, blocks or dies of an unrecovered panic (the reset sits in the `finally` of `$goroutine`);
    (b) hence after EVERY event of EVERY history of JavaScript-side events — `go` from a callback (running the scheduler at
    once, with goroutines that send, receive, select, return or panic), sends / receives / selects in callbacks, timers
    firing `$runScheduled` — control is back in JavaScript with `$curGoroutine = $noGoroutine`. -/
theorem cur_reset_after_every_activation :
    (∀ (h : GV.CbHist.HSt) (g : Nat), (GV.CbHist.activate h g).2.base.cur = none) ∧
    (∀ (cap : Nat) (es : List GV.CbHist.HEv), (GV.CbHist.run (GV.CbHist.init cap) es).2.base.cur = none) :=
  ⟨GV.Proofs.CbHist.activate_cur, fun cap es => GV.Proofs.CbHist.run_cur es (GV.CbHist.init cap) rfl⟩

/-- **callback_block_rejected** — after any history (including ones in which goroutines died of unrecovered panics that
    JavaScript survived), a send / receive / select executed in a JavaScript callback that has to block raises
    "cannot block in JavaScript callback" and leaves the whole state — queues, buffer, run queue, timers, counters — as it was. -/
theorem callback_block_rejected (cap : Nat) (es : List GV.CbHist.HEv) :
    let h := (GV.CbHist.run (GV.CbHist.init cap) es).2
    (∀ v, h.base.chan.closed = false → h.base.chan.recvQ = [] → ¬ h.base.chan.buffer.length < h.base.chan.capacity →
      GV.CbHist.sendC h v = (.op .errCannotBlock, h)) ∧
    (h.base.chan.sendQ = [] → h.base.chan.buffer = [] → h.base.chan.closed = false →
      GV.CbHist.recvC h = (.op .errCannotBlock, h)) ∧
    (∀ cs pick, sendOnClosed h.base cs = false → choose h.base cs pick = none →
      GV.CbHist.selectC h cs pick = (.op .errCannotBlock, h)) :=
  GV.Proofs.CbHist.blocked_rejected _ (GV.Proofs.CbHist.run_cur es (GV.CbHist.init cap) rfl)

/-- the history of the demo: a goroutine started from a callback panics (JavaScript catches), then a callback receives:
    rejected, nothing queued; a goroutine started afterwards still runs -/
example : (GV.CbHist.run (GV.CbHist.init 0) [.go [.panic], .cbRecv, .go [.send 5], .cbRecv]).1
    = [.threw, .op .errCannotBlock, .ok, .op (.value 5)] := by decide

/-! ### repaired defects (the scheme before fixes/C11-callback-guard.patch) -/

/-- with the old `$send` (enqueue first, `$block()` checks afterwards) the statement was false: the entry survived -/
theorem callback_guard_old_counterexample :
    ¬ (∀ (s : St) (v : Nat), s.cur = none → sendBlocks s → sendOld s v = (.errCannotBlock, s)) := by
  intro h
  have := h (init 0) 7 rfl (by decide)
  revert this
  decide

end GV.Props.C11
