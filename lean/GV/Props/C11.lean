import GV.Model.JsConv
import GV.Model.CbGuard
import GV.Spec.JsTable
import GV.Props.C14

namespace GV.Props.C11
open GV.JsConv GV.Utf16

end GV.Props.C11
