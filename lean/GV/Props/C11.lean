/-
  GV.Props.C11 — Go and JavaScript values convert as documented and round-trip.

  Models: GV.Model.Utf16 (the two transcoding loops), GV.Model.JsConv (`$externalize`, `$internalize`, wrapper cache),
  GV.Model.CbGuard (`$send/$recv/$block/$schedule`).  Spec: GV.Spec.JsTable (documented table of js/js.go, round-trip
  domain), GV.Spec.Utf8 (Unicode).
-/
import GV.Model.JsConv
import GV.Model.CbGuard
import GV.Spec.JsTable
import GV.Proofs.Utf16
import GV.Proofs.JsConv

namespace GV.Props.C11
open GV.JsConv GV.Utf16 GV.Utf8 GV.Spec.JsTable GV.Spec.Utf8

/-! ## strings -/

/-- **utf16_roundtrip** — `$internalize($externalize(s, $String), $String) = s` for every well-formed UTF-8 byte string
    (any scalar values, including non-BMP ones, which travel as surrogate pairs). -/
theorem utf16_roundtrip (s : List Nat) (h : ValidUtf8 s) : internalizeString (externalizeString s) = s := by
  obtain ⟨rs, hs, rfl⟩ := h
  rw [GV.Proofs.Utf16.externalize_valid rs hs, GV.Proofs.Utf16.internalize_valid rs hs]

/-- **utf16_roundtrip_converse** — `$externalize($internalize(u, $String), $String) = u` for every JavaScript string
    without lone surrogates. -/
theorem utf16_roundtrip_converse (u : List Nat) (h : ValidUtf16 u) : externalizeString (internalizeString u) = u := by
  obtain ⟨rs, hs, rfl⟩ := h
  rw [GV.Proofs.Utf16.internalize_valid rs hs, GV.Proofs.Utf16.externalize_valid rs hs]

example : ValidUtf8 [0x61, 0xF0, 0x9F, 0x98, 0x80] := ⟨[0x61, 0x1F600], by decide, by decide⟩

/-- an invalid byte (any byte ≥ 0x80 that does not start a well-formed sequence here: alone) becomes U+FFFD; the
    conversion is therefore not injective on arbitrary Go strings and such strings do not round-trip. -/
theorem externalize_invalid_byte (b : Nat) (h1 : 0x80 ≤ b) (h2 : b < 256) : externalizeString [b] = [0xFFFD] := by
  have hd : decodeRune [b] 0 = (0xFFFD, 1) := by
    unfold decodeRune
    simp only [charCodeAt, List.getElem?_cons_zero]
    have hn : ([b] : List Nat)[0 + 1]? = none := by simp
    rw [hn]
    by_cases hc : b < 0xC0
    · exact GV.Props.C14.core_cont b _ _ _ h1 hc
    · exact GV.Props.C14.core_bad1 b none _ _ (by omega) rfl
  rw [GV.Proofs.Utf16.externalizeString_eq]
  simp [extLoop, hd, unitsOf]

/-- a lone low surrogate becomes U+FFFD (EF BF BD) -/
theorem internalize_lone_low (l : Nat) (h : 0xDC00 ≤ l ∧ l ≤ 0xDFFF) : internalizeString [l] = [0xEF, 0xBF, 0xBD] := by
  rw [GV.Proofs.Utf16.internalizeString_eq, GV.Proofs.Utf16.intLoop_cons_low l [] (by omega)]
  rw [GV.Props.C14.encode_nonscalar (l : Int) (by unfold isScalar; simp; omega)]
  simp [intLoop]

/-- a high surrogate at the END of a JavaScript string becomes the four bytes F0 80 80 80 — not U+FFFD and not
    valid UTF-8 (`charCodeAt` past the end is NaN and `$encodeRune(NaN)` takes the 4-byte branch). -/
theorem internalize_lone_high_end (h : Nat) (hh : 0xD800 ≤ h ∧ h ≤ 0xDBFF) : internalizeString [h] = [0xF0, 0x80, 0x80, 0x80] := by
  rw [GV.Proofs.Utf16.internalizeString_eq]
  simp [intLoop, hh, encodeRuneNaN]

/-- a high surrogate followed by ANY unit consumes that unit (there is no test that it is a low surrogate): the
    pair becomes the single rune `(h - 0xD800) * 0x400 + l - 0xDC00 + 0x10000`; e.g. "\uD800a" becomes U+2461. -/
theorem internalize_high_then_any (h l : Nat) (rest : List Nat) (hh : 0xD800 ≤ h ∧ h ≤ 0xDBFF) :
    internalizeString (h :: l :: rest) =
      encodeRune (((h : Int) - 0xD800) * 0x400 + (l : Int) - 0xDC00 + 0x10000) ++ internalizeString rest := by
  rw [GV.Proofs.Utf16.internalizeString_eq, GV.Proofs.Utf16.internalizeString_eq, GV.Proofs.Utf16.intLoop_cons_high h l rest hh]

example : internalizeString [0xD800, 0x61] = [0xE2, 0x91, 0xA1] := by decide

/-! ## scalars and 64-bit integers -/

/-- **roundtrip_scalar** — every documented scalar (bool, integers in range, 64-bit integers with |v| ≤ 2^53, floats by
    token identity — NaN, ±Inf, every finite token — except `-0`, well-formed UTF-8 strings) round-trips. -/
theorem roundtrip_scalar (τ : Ty) (v : GoVal) (h : RTScalar τ v) (hz : v ≠ .num .negZero) :
    ∃ j, externalize τ v = .ok j ∧ internalize τ j = .ok v :=
  GV.Proofs.JsConv.roundtrip_scalar τ v h hz

/-- the sign of zero IS lost: `-0` externalizes to `-0` and internalizes (`parseFloat(String(-0))`) to `+0`. -/
theorem roundtrip_negzero :
    (externalize .f64 (.num .negZero)).bind (internalize .f64) = .ok (.num (.int 0)) := by rfl

/-- **mk64_exact** — `new $Uint64(0, n)` represents `n mod 2^64` for EVERY integer-valued double n (no bound), and
    `new $Int64(0, n)` the same residue with the high word read as signed. -/
theorem mk64_exact (n : Int) :
    (∃ hi lo, mk64 false (.int n) = .i64 hi lo ∧ hi * 4294967296 + (lo : Int) = n % 18446744073709551616) ∧
    (∃ hi lo, mk64 true (.int n) = .i64 hi lo ∧ (hi * 4294967296 + (lo : Int)) % 18446744073709551616 = n % 18446744073709551616) :=
  GV.Proofs.JsConv.mk64_exact n

/-- **roundtrip64_exact** — a 64-bit value round-trips exactly when it is a double (`roundInt v = v`), in
    particular whenever |v| ≤ 2^53. -/
theorem roundtrip64_exact (signed : Bool) (hi : Int) (lo : Nat) (hlo : lo < 4294967296)
    (hhi : if signed then -2147483648 ≤ hi ∧ hi ≤ 2147483647 else 0 ≤ hi ∧ hi ≤ 4294967295)
    (hex : roundInt (hi * 4294967296 + (lo : Int)) = hi * 4294967296 + (lo : Int)) :
    (externalize (if signed then .i64 else .u64) (.i64 hi lo)).bind (internalize (if signed then .i64 else .u64)) = .ok (.i64 hi lo) :=
  GV.Proofs.JsConv.roundtrip64_exact signed hi lo hlo hhi hex

/-- **roundtrip64_beyond** — what happens beyond 2^53: the value is rounded to the nearest double (ties to even) and
    read back modulo 2^64: `math.MaxUint64` comes back as 0, `math.MaxInt64` as `math.MinInt64`, 2^53+1 as 2^53. -/
theorem roundtrip64_beyond :
    (externalize .u64 (.i64 4294967295 4294967295)).bind (internalize .u64) = .ok (.i64 0 0) ∧
    (externalize .i64 (.i64 2147483647 4294967295)).bind (internalize .i64) = .ok (.i64 (-2147483648) 0) ∧
    (externalize .i64 (.i64 2097152 1)).bind (internalize .i64) = .ok (.i64 2097152 0) := by
  refine ⟨?_, ?_, ?_⟩ <;> rfl

/-! ## composites: round trip by structural induction -/

/-- the inductive round-trip domain (GV.Proofs.JsConv.RT): bool, in-range integers, 64-bit integers with |v| ≤ 2^53,
    floats, valid UTF-8 strings, nil slices, and slices — nested to any depth — of such values (numeric element kinds
    travel as typed arrays of the documented class, all others as Arrays). -/
def roundtrip_full : Prop :=
  ∀ (τ : Ty) (v : GoVal), GV.Proofs.JsConv.RT τ v → ∃ j, externalize τ v = .ok j ∧ internalize τ j = .ok v

/-- the full statement is FALSE: `-0` (witness `float64(-0)`). -/
theorem roundtrip_counterexample_negzero : ¬ roundtrip_full := by
  intro h
  obtain ⟨j, h1, h2⟩ := h .f64 (.num .negZero) (by simp [GV.Proofs.JsConv.RT, RTScalar])
  have : j = .num .negZero := by
    have : externalize .f64 (.num .negZero) = .ok (.num .negZero) := by rfl
    rw [this] at h1; cases h1; rfl
  subst this
  have : internalize .f64 (.num .negZero) = .ok (.num (.int 0)) := by rfl
  rw [this] at h2
  cases h2

/-- the full statement is FALSE also for the nil map (witness `map[string]bool(nil)`): it comes back empty, not nil. -/
theorem roundtrip_counterexample_nilmap :
    ¬ (∃ j, externalize (.map .bool) .nil = .ok j ∧ internalize (.map .bool) j = .ok .nil) := by
  intro ⟨j, h1, h2⟩
  have : externalize (.map .bool) .nil = .ok .null := by rfl
  rw [this] at h1; cases h1
  have : internalize (.map .bool) .null = .ok (.map [] []) := by rfl
  rw [this] at h2
  cases h2

theorem roundtrip_nilmap (e : Ty) : (externalize (.map e) .nil).bind (internalize (.map e)) = .ok (.map [] []) := by
  simp [externalize, internalize, Except.bind]

/-- **roundtrip** (`roundtrip_partial`) — for every (τ, v) of the inductive domain that contains no `-0` (`clean`,
    decidable), `$internalize($externalize(v, τ), τ) = v`; by induction on the value (slices nested to any depth).
    String-keyed maps and structs with exported fields are NOT covered by this theorem (see `roundtrip_maps_structs`);
    they are covered by the differential run only. -/
theorem roundtrip (τ : Ty) (v : GoVal) (h : GV.Proofs.JsConv.RT τ v) (hc : GV.Proofs.JsConv.clean τ v = true) :
    ∃ j, externalize τ v = .ok j ∧ internalize τ j = .ok v :=
  GV.Proofs.JsConv.roundtrip τ v h hc

example : GV.Proofs.JsConv.RT (.slice (.slice (.int .i8))) (.slice [.slice [.num (.int (-128)), .num (.int 127)], .nil]) ∧
    GV.Proofs.JsConv.clean (.slice (.slice (.int .i8))) (.slice [.slice [.num (.int (-128)), .num (.int 127)], .nil]) = true := by
  simp [GV.Proofs.JsConv.RT, GV.Proofs.JsConv.RTList, GV.Proofs.JsConv.domTy, GV.Proofs.JsConv.clean, GV.Proofs.JsConv.cleanList,
    RTScalar, inRange]

/-- the remaining part of the round-trip clause, stated and NOT proved here: non-nil string-keyed maps with distinct
    well-formed keys and structs (exported fields; unexported fields holding their zero value) over round-tripping
    element values round-trip. -/
def roundtrip_maps_structs : Prop :=
  (∀ (e : Ty) (ks : List (List Nat)) (vs : List GoVal), ks.length = vs.length → ks.Nodup → (∀ k ∈ ks, ValidUtf8 k) →
      (∀ v ∈ vs, ∃ j, externalize e v = .ok j ∧ internalize e j = .ok v) →
      ∃ j, externalize (.map e) (.map ks vs) = .ok j ∧ internalize (.map e) j = .ok (.map ks vs)) ∧
  (∀ (flds : List Fld) (tys : List Ty) (fs : List GoVal), flds.length = tys.length → tys.length = fs.length →
      (flds.map (·.name)).Nodup → searchJs (.struct flds tys) (.struct fs) = none → wrapJs (.struct flds tys) .null = none →
      (∀ i (hi : i < fs.length) (h1 : i < flds.length) (h2 : i < tys.length),
        if flds[i].exported then ∃ j, externalize tys[i] fs[i] = .ok j ∧ internalize tys[i] j = .ok fs[i] else fs[i] = zeroVal tys[i]) →
      ∃ j, externalize (.struct flds tys) (.struct fs) = .ok j ∧ internalize (.struct flds tys) j = .ok (.struct fs))

/-! ## the documented table -/

/-- **documented_table (Go → JavaScript)** — for every row of the table, a non-nil Go value of that type class arrives as
    a JavaScript value of the documented class (structs wrapping a `*js.Object` in their first field excepted, as the
    package comment says). -/
theorem documented_table_ext (τ : Ty) (v : GoVal) (j : JsVal) (c : JsClass)
    (hdoc : docJsClass τ = some c) (hx : externalize τ v = .ok j) (hnn : j ≠ .null) (hs : searchJs τ v = none) :
    classOf j = c :=
  GV.Proofs.JsConv.documented_table_ext τ v j c hdoc hx hnn hs

/-- **documented_table (JavaScript → `any`)** — `Interface()` of a JavaScript value of a documented class yields the
    documented Go dynamic type. -/
theorem documented_table_back (j : JsVal) (g : GoVal) (τ : Ty)
    (hdoc : docBack (classOf j) = some τ) (hw : ∀ id, j ≠ .wrapper id) (hi : internIface j = .ok g) :
    ∃ w, g = .iface τ w :=
  GV.Proofs.JsConv.documented_table_back j g τ hdoc hw hi

/-! ## exposed functions -/

/-- **wrapper_call_spec** — calling the JavaScript wrapper of a Go `func(x τ) τ` with behaviour `f` on `j` internalizes the
    argument by τ, applies `f`, externalizes the result by τ ("receive converted arguments, return converted results"). -/
theorem wrapper_call_spec (τ : Ty) (f : GoVal → R GoVal) (j : JsVal) :
    callWrapper [τ] [τ] false (fun a => match a with | [x] => (f x).map (fun r => [r]) | _ => .error .illTyped) [j]
      = (internalize τ j).bind (fun x => (f x).bind (externalize τ)) := by
  unfold callWrapper
  simp only [internArgs, List.headD, List.tail]
  cases h : internalize τ j with
  | error e => simp [bind, Except.bind]
  | ok x => cases hf : f x <;> simp [bind, Except.bind, Except.map, hf]

/-- **wrapper_stable** — along any history of externalisations, starting from any cache state, the same Go function
    always yields the same JavaScript wrapper. -/
theorem wrapper_stable (c : WrapCache) (h : List Nat) (f w1 w2 : Nat)
    (h1 : (f, w1) ∈ runHistory c h) (h2 : (f, w2) ∈ runHistory c h) : w1 = w2 :=
  GV.Proofs.JsConv.wrapper_stable c h f w1 w2 h1 h2

/-- **wrapper_injective** — and distinct Go functions never share a wrapper (from the empty cache). -/
theorem wrapper_injective (h : List Nat) (f1 f2 w : Nat)
    (h1 : (f1, w) ∈ runHistory WrapCache.empty h) (h2 : (f2, w) ∈ runHistory WrapCache.empty h) : f1 = f2 :=
  GV.Proofs.JsConv.wrapper_injective h f1 f2 w h1 h2

/-! ## the callback guard -/
open GV.CbGuard

/-- the full statement of the property's last clause: a send that has to block inside a JavaScript callback raises the
    documented error AND leaves channel queues, run queue and counters unchanged. NOT claimed. -/
def callback_guard_full : Prop :=
  ∀ (s : St) (v : Nat), s.cur = none → sendBlocks s → send s v = (.errCannotBlock, s)

/-- FALSE today: `$send` enqueues before `$block()` checks. Witness: unbuffered channel, send 7 in a callback. -/
theorem callback_guard_counterexample : ¬ callback_guard_full := by
  intro h
  have := h (init 0) 7 rfl (by decide)
  revert this
  decide

/-- the 3-event witness {callback send, goroutine receive, dequeue}: the error is raised, the receiver then gets the
    value of the failed send, `$noGoroutine` is scheduled, and `$runScheduled` dies with `TypeError: r is not a function`. -/
theorem callback_guard_witness :
    (run (init 0) [.send none 7, .recv (some 1), .dequeue]).1 = [.errCannotBlock, .value 7, .typeErrorNotAFunction] := by
  decide

/-- **callback_guard_partial** — the documented error IS raised, and the only change to the state is the one surviving
    `$sendQueue` entry owned by `$noGoroutine` (buffer, receive queue, run queue, counters are untouched). -/
theorem callback_guard_partial (s : St) (v : Nat) (hc : s.cur = none) (hb : sendBlocks s) :
    send s v = (.errCannotBlock, { s with chan := { s.chan with sendQ := s.chan.sendQ ++ [(none, v)] } }) := by
  obtain ⟨h1, h2, h3⟩ := hb
  unfold send
  simp [h1, h2, h3, block, hc]

theorem callback_guard_partial_recv (s : St) (hc : s.cur = none) (hb : recvBlocks s) :
    recv s = (.errCannotBlock, { s with chan := { s.chan with recvQ := s.chan.recvQ ++ [none] } }) := by
  obtain ⟨h1, h2, h3⟩ := hb
  unfold recv
  simp [h1, h2, h3, block, hc]

example : sendBlocks (init 0) ∧ (init 0).cur = none := by decide

/-- **callback_guard_damage** — after ANY failed callback send on a channel with nothing else queued, the next goroutine
    that receives gets the value and `$noGoroutine` lands on the run queue. -/
theorem callback_guard_damage (s : St) (v g : Nat) (hb : sendBlocks s) (hq : s.chan.sendQ = []) (hbuf : s.chan.buffer = []) :
    let s1 := (step s (.send none v)).2
    (step s1 (.recv (some g))).1 = .value v ∧ none ∈ (step s1 (.recv (some g))).2.scheduled := by
  obtain ⟨h1, h2, h3⟩ := hb
  have hcap : s.chan.capacity = 0 := by rw [hbuf] at h3; simpa using h3
  simp [step, send, recv, block, schedule, h1, h2, hcap, hq, hbuf]

end GV.Props.C11
