/-
  GV.Props.C19 — "Source maps are complete, in range and point at the right Go lines".

  Model: GV.Model.SrcMap (transcription of internal/sourcemapx/{hint,filter}.go and of the output buffer of
  compiler/utils.go). Specification: GV.Spec.SrcMap (text positions, expected output, expected mappings).

  A *stream* is a list of items: code chunks free of the magic byte 0x08 and hints with arbitrary payloads of
  at most 0xFFFF bytes (`Item.WF`). An *admissible chunking* into `Write` calls is a list of item lists
  (`chunks : List (List Item)`): every Write call receives the rendering of some items, so a hint is never
  split; code may be split at any byte because `code (a ++ b)` and `code a, code b` render to the same bytes
  (`code_split`). The stream of a chunking is `chunks.flatten`.

  Column units: the filter counts columns in BYTES of the UTF-8 output; a source-map consumer counts UTF-16
  code units. `columns_units` shows they agree under `AsciiBeforeHints` (every byte between the last newline
  and a hint is < 0x80) and `columns_units_needs_ascii` shows the hypothesis cannot be dropped. The check tests
  `AsciiBeforeHints` on every emitted file.

  Repaired in round 2 (patches fixes/C19-*.patch; the model mirrors the repaired code): the first-line column shift of
  JS mappings (`offset_js` is now full strength; the old scheme is kept under "repaired defects"), the position of `if`
  statements, the misspelt prelude file name. Still recorded: switch-tag evaluation and the call of a function literal are
  written under a pending `token.NoPos`; `every_setpos_reported_counterexample` is the buffer-level mechanism.
-/
import GV.Proofs.SrcMap
import GV.Proofs.SrcMapPath
import GV.Props.C16

namespace GV.Props.C19
open GV.SrcMap GV.Proofs.SrcMap
open GV.Spec.SrcMap (Item codeBytes posOf lineCount colOf mappings placeAt utf16Units lastLine)

/-! ### wire format -/

/-- `hint_roundtrip`: WriteTo produces magic, big-endian size, payload; ReadHint on that (followed by anything)
    gives the payload back and reports header + |payload| bytes. -/
theorem hint_roundtrip (h rest : Bytes) (hh : h.length ≤ 0xFFFF) :
    writeTo h = some (enc h) ∧ readHint (enc h ++ rest) = .ok (h, 3 + h.length) ∧
    findHint (enc h ++ rest) = some 0 := by
  refine ⟨?_, ?_, ?_⟩
  · have : ¬ h.length > 0xFFFF := by omega
    simp [writeTo, this]
  · rw [readHint_enc, Nat.add_comm]
  · simp [enc, findHint]

/-- payloads longer than 0xFFFF are refused by WriteTo (the size field could not hold them) -/
theorem writeTo_too_long (h : Bytes) (hh : 0xFFFF < h.length) : writeTo h = none := by
  simp [writeTo, hh]

/-- every byte of an encoded hint is a byte when the payload bytes are and the size fits 16 bits -/
theorem enc_bytes (h : Bytes) (hh : h.length ≤ 0xFFFF) (hb : ∀ b ∈ h, b < 256) : ∀ b ∈ enc h, b < 256 := by
  intro b hbm
  simp only [enc, List.mem_cons] at hbm
  rcases hbm with rfl | rfl | rfl | hm
  · simp [magic]
  · omega
  · omega
  · exact hb b hm

/-- `payload_magic_safe`: whatever the payload bytes are (0x08 included), a hint at the head of the input is
    consumed as ONE hint: one mapping at the current position, no output, and the scan resumes behind it. -/
theorem payload_magic_safe (st : St) (h r : Bytes) :
    write st (enc h ++ r) = (write st r).hintAt st h :=
  write_hint_append st h r

/-- number of hints of a stream -/
def hintCount : List Item → Nat
  | [] => 0
  | .code _ :: tl => hintCount tl
  | .hint _ :: tl => hintCount tl + 1

theorem modelMaps_length (st : St) (items : List Item) : (modelMaps st items).length = hintCount items := by
  induction items generalizing st with
  | nil => rfl
  | cons it tl ih => cases it <;> simp [modelMaps, hintCount, ih]

/-- consequence: exactly one mapping per hint, however many magic bytes the payloads contain -/
theorem one_mapping_per_hint (chunks : List (List Item)) (wf : ∀ ch ∈ chunks, WFs ch) (st : St) :
    (writeAll st (chunks.map render)).maps.length = hintCount chunks.flatten := by
  rw [writeAll_render chunks wf]
  have wfl : WFs chunks.flatten := by
    intro it hit
    obtain ⟨ch, hch, hin⟩ := List.mem_flatten.mp hit
    exact wf ch hch it hin
  rw [write_render' _ wfl, modelMaps_length]

example : (write init (render [.code [65], .hint [8, 8, 8], .code [66]])).maps = [⟨1, 1, [8, 8, 8]⟩] := by
  have wf : WFs [.code [65], .hint [8, 8, 8], .code [66]] := by
    intro it hit
    simp only [List.mem_cons, List.not_mem_nil, or_false] at hit
    rcases hit with rfl | rfl | rfl <;> decide
  rw [write_render' _ wf]; rfl

/-! ### the three headline theorems -/

theorem wfs_flatten {chunks : List (List Item)} (wf : ∀ ch ∈ chunks, WFs ch) : WFs chunks.flatten := by
  intro it hit
  obtain ⟨ch, hch, hin⟩ := List.mem_flatten.mp hit
  exact wf ch hch it hin

/-- `chunking_independent` [IND]: folding `write` over ANY admissible chunking gives the same state, output bytes,
    mappings, byte count and (absence of) panic as one `write` of the whole stream. -/
theorem chunking_independent (chunks : List (List Item)) (wf : ∀ ch ∈ chunks, WFs ch) (st : St) :
    writeAll st (chunks.map render) = write st (render chunks.flatten) :=
  writeAll_render chunks wf st

/-- two admissible chunkings of the same byte stream are indistinguishable -/
theorem chunking_independent' (cs1 cs2 : List (List Item)) (w1 : ∀ ch ∈ cs1, WFs ch) (w2 : ∀ ch ∈ cs2, WFs ch)
    (same : render cs1.flatten = render cs2.flatten) (st : St) :
    writeAll st (cs1.map render) = writeAll st (cs2.map render) := by
  rw [writeAll_render cs1 w1, writeAll_render cs2 w2, same]

/-- code may be cut at any byte: both sides are the same bytes, so "one byte per Write call" is admissible -/
theorem code_split (a b : Bytes) (tl : List Item) :
    render (.code (a ++ b) :: tl) = render (.code a :: .code b :: tl) := by
  simp [render]

/-- `hints_removed` [EQ]: for every stream and every admissible chunking the bytes that reach the underlying writer
    are exactly the code bytes in order — no hint byte, nothing else dropped or added —, no panic occurs, and the
    `n` values returned add up to the number of bytes written into the filter. -/
theorem hints_removed (chunks : List (List Item)) (wf : ∀ ch ∈ chunks, WFs ch) (st : St) :
    (writeAll st (chunks.map render)).out = codeBytes chunks.flatten ∧
    (writeAll st (chunks.map render)).err = none ∧
    (writeAll st (chunks.map render)).n = (render chunks.flatten).length := by
  rw [writeAll_render chunks wf, write_render' _ (wfs_flatten wf)]
  exact ⟨rfl, rfl, rfl⟩

/-- the output is free of the magic byte -/
theorem output_magic_free (chunks : List (List Item)) (wf : ∀ ch ∈ chunks, WFs ch) (st : St) :
    ∀ b ∈ (writeAll st (chunks.map render)).out, b ≠ magic := by
  rw [(hints_removed chunks wf st).1]
  have key : ∀ items : List Item, WFs items → ∀ b ∈ codeBytes items, b ≠ magic := by
    intro items
    induction items with
    | nil => intro _ b hb; simp [codeBytes] at hb
    | cons it tl ih =>
      intro w b hb
      have wtl : WFs tl := fun x hx => w x (by simp [hx])
      cases it with
      | code c =>
        simp only [codeBytes, List.mem_append] at hb
        rcases hb with hb | hb
        · exact (w (.code c) (by simp)) b hb
        · exact ih wtl b hb
      | hint h => exact ih wtl b (by simpa [codeBytes] using hb)
  exact key _ (wfs_flatten wf)

/-- `positions_exact`: on a filter that has so far written `pre`, the mappings reported for any stream under any
    admissible chunking are, in order, one per hint, at
      (1 + number of newlines, number of bytes since the last newline)
    of the OUTPUT written up to the point where the hint stood — i.e. the position of the next code byte. -/
theorem positions_exact (pre : Bytes) (chunks : List (List Item)) (wf : ∀ ch ∈ chunks, WFs ch) :
    (writeAll (stOf pre) (chunks.map render)).maps = (mappings pre chunks.flatten).map toMapping ∧
    (writeAll (stOf pre) (chunks.map render)).st = stOf (pre ++ codeBytes chunks.flatten) := by
  rw [writeAll_render chunks wf, write_render' _ (wfs_flatten wf)]
  exact ⟨modelMaps_stOf _ _, advance_stOf _ _⟩

/-- the fresh filter is the state of the empty output -/
theorem init_is_empty : init = stOf [] := rfl

/-- `positions_exact` for a fresh filter -/
theorem positions_exact_init (chunks : List (List Item)) (wf : ∀ ch ∈ chunks, WFs ch) :
    (writeAll init (chunks.map render)).maps = (mappings [] chunks.flatten).map toMapping :=
  (positions_exact [] chunks wf).1

-- the hypotheses are satisfiable by a non-trivial stream, chunked one byte per call outside the hint
example : ∃ chunks : List (List Item), chunks = [[.code [65]], [.code [10]], [.code [66], .hint [1, 8, 0]], [.code [67]]] ∧
    (∀ ch ∈ chunks, WFs ch) ∧
    (writeAll init (chunks.map render)).out = [65, 10, 66, 67] ∧
    (writeAll init (chunks.map render)).maps = [⟨2, 1, [1, 8, 0]⟩] := by
  have wf : ∀ ch ∈ ([[.code [65]], [.code [10]], [.code [66], .hint [1, 8, 0]], [.code [67]]] : List (List Item)), WFs ch := by
    intro ch hch it hit
    simp only [List.mem_cons, List.not_mem_nil, or_false] at hch
    rcases hch with rfl | rfl | rfl | rfl <;>
      simp only [List.mem_cons, List.not_mem_nil, or_false] at hit <;>
      (try rcases hit with rfl | rfl) <;> (try subst hit) <;> decide
  refine ⟨_, rfl, wf, ?_⟩
  rw [(hints_removed _ wf init).1, init_is_empty, (positions_exact [] _ wf).1]
  exact ⟨rfl, rfl⟩

/-! ### byte columns vs UTF-16 columns -/

/-- every byte between the last newline and each hint is ASCII -/
def AsciiBeforeHints (pre : Bytes) : List Item → Prop
  | [] => True
  | .code c :: tl => AsciiBeforeHints (pre ++ c) tl
  | .hint _ :: tl => (∀ b ∈ lastLine pre, b < 0x80) ∧ AsciiBeforeHints pre tl

/-- the mappings a consumer that counts columns in UTF-16 code units expects -/
def mappings16 (pre : Bytes) : List Item → List (Nat × Nat × Bytes)
  | [] => []
  | .code c :: tl => mappings16 (pre ++ c) tl
  | .hint h :: tl => (1 + lineCount pre, utf16Units (lastLine pre), h) :: mappings16 pre tl

theorem utf16Units_ascii (l : Bytes) (h : ∀ b ∈ l, b < 0x80) : utf16Units l = l.length := by
  induction l with
  | nil => rfl
  | cons b tl ih =>
    have hb : b < 0x80 := h b (by simp)
    have htl : ∀ x ∈ tl, x < 0x80 := fun x hx => h x (by simp [hx])
    have h1 : ¬ (0x80 ≤ b ∧ b < 0xC0) := by omega
    have h2 : ¬ (0xF0 ≤ b) := by omega
    simp only [utf16Units, h1, h2, if_false, ih htl, List.length_cons]
    omega

/-- `columns_units`: under `AsciiBeforeHints` the byte columns the filter reports are the UTF-16 columns -/
theorem columns_units (pre : Bytes) (items : List Item) (ha : AsciiBeforeHints pre items) :
    mappings pre items = mappings16 pre items := by
  induction items generalizing pre with
  | nil => rfl
  | cons it tl ih =>
    cases it with
    | code c => exact ih (pre ++ c) ha
    | hint h =>
      obtain ⟨h1, h2⟩ := ha
      simp only [mappings, mappings16, ih pre h2, posOf]
      have : colOf pre = utf16Units (lastLine pre) := by
        rw [utf16Units_ascii _ h1]; simp [colOf, lastLine]
      rw [this]

/-- the hypothesis cannot be dropped: after the two bytes of U+00B7 the byte column is 2, the UTF-16 column 1 -/
theorem columns_units_needs_ascii : ¬ ∀ pre items, mappings pre items = mappings16 pre items := by
  intro h
  have := h [0xC2, 0xB7] [.hint []]
  revert this
  decide

/-! ### offsetting of prelude / .inc.js mappings -/

theorem colOf_append (pre x : Bytes) :
    colOf (pre ++ x) = if lineCount x = 0 then colOf pre + colOf x else colOf x := by
  induction x generalizing pre with
  | nil => simp [lineCount, colOf]
  | cons b tl ih =>
    have e1 : pre ++ b :: tl = (pre ++ [b]) ++ tl := by simp
    have e2 : b :: tl = [b] ++ tl := rfl
    have hl : lineCount (b :: tl) = (if b = 10 then 1 else 0) + lineCount tl := by
      unfold lineCount
      by_cases hb : b = 10 <;> simp [hb]; omega
    have h1 : colOf [b] = if b = 10 then 0 else 1 := by
      have := colOf_snoc [] b
      simpa [colOf] using this
    rw [e1, ih (pre ++ [b]), hl, colOf_snoc]
    have h2 := ih [b]
    rw [← e2] at h2
    rw [h2, h1]
    by_cases hb : b = 10 <;> by_cases h0 : lineCount tl = 0 <;> simp [hb, h0] <;> omega

/-- where text positions end up when a text `x` is appended to output `pre` (this is what makes `placeAt` the
    specification of the offsetting): lines shift by the lines of `pre`; the column shifts by the column of `pre`
    only while still on the first line of `x`. -/
theorem placeAt_correct (pre x : Bytes) : posOf (pre ++ x) = placeAt (posOf pre) (posOf x) := by
  have hl : lineCount (pre ++ x) = lineCount pre + lineCount x := by simp [lineCount, List.count_append]
  have hc := colOf_append pre x
  simp only [posOf, placeAt, hl, hc]
  refine Prod.ext (by simp; omega) ?_
  simp only
  by_cases h0 : lineCount x = 0
  · simp [h0]
  · have : ¬ (1 + lineCount x = 1) := by omega
    simp [h0]

/-- what the property demands of the JS offsetting: the mapping of an isolated file, whose text is written when the
    filter is in state `st`, must point at where that text really is -/
def offsetJSSpec (st : St) (m : JSMapping) : JSMapping :=
  let p := placeAt (st.line + 1, st.column) (m.genLine, m.genColumn)
  { m with genLine := p.1, genColumn := p.2 }

/-- `offset_js` (full strength since the repair C19-js-first-line-column): every mapping of an isolated JS file
    (generated lines are 1-based) is moved to where its text really is: lines shift by the current line, and on the
    first line only the column shifts by the current column. -/
theorem offset_js (st : St) (m : JSMapping) (h1 : 1 ≤ m.genLine) : offsetJS st m = offsetJSSpec st m := by
  cases m with
  | mk l c o =>
    simp only [offsetJS, offsetJSSpec, placeAt] at *
    by_cases hl : l = 1
    · simp [hl]; omega
    · simp [hl]; omega

example : offsetJS ⟨1, 12⟩ ⟨1, 0, "helper.inc.js:1:0"⟩ = ⟨2, 12, "helper.inc.js:1:0"⟩ := rfl
example : offsetJS ⟨7, 12⟩ ⟨3, 4, "x"⟩ = ⟨10, 4, "x"⟩ := rfl

/-- end to end: a JS text `js` written after output `pre`; an isolated mapping that points at the byte at offset `k` of
    `js` is moved by `offsetJS` to the position of that byte in `pre ++ js`. -/
theorem offset_js_points_at_text (pre js : Bytes) (k : Nat) (orig : String) :
    offsetJS (stOf pre) ⟨(posOf (js.take k)).1, (posOf (js.take k)).2, orig⟩ =
      ⟨(posOf (pre ++ js.take k)).1, (posOf (pre ++ js.take k)).2, orig⟩ := by
  rw [offset_js _ _ (by simp [posOf]), placeAt_correct]
  simp only [offsetJSSpec, stOf, placeAt, posOf]
  congr 1
  omega

/-! ### the pending position of a function context (compiler/utils.go:44-118) -/

/-- a pending position is written exactly once, immediately before the next bytes written (`Write`), and is no
    longer pending afterwards -/
theorem pending_flushed_by_write (pack : Nat → Bytes) (c : Ctx) (p : Nat) (b : Bytes) :
    ((c.setPos p).write pack b).output = c.output ++ enc (pack p) ++ b ∧
    ((c.setPos p).write pack b).posAvail = false := by
  simp [Ctx.setPos, Ctx.write, Ctx.writePos]

/-- without a pending position `Write` appends the bytes and nothing else -/
theorem write_without_pending (pack : Nat → Bytes) (c : Ctx) (b : Bytes) (h : c.posAvail = false) :
    (c.write pack b).output = c.output ++ b ∧ (c.write pack b).posAvail = false := by
  simp [Ctx.write, Ctx.writePos, h]

/-- of several positions set without output in between only the last one is written -/
theorem setPos_last_wins (pack : Nat → Bytes) (c : Ctx) (p q : Nat) (b : Bytes) :
    (((c.setPos p).setPos q).write pack b).output = c.output ++ enc (pack q) ++ b := by
  simp [Ctx.setPos, Ctx.write, Ctx.writePos]

/-- full-strength statement about the pending position (NOT claimed: false of the code as it is): every position
    handed to `SetPos` before some output is written into the buffer as a hint. -/
def every_setpos_reported : Prop :=
  ∀ (pack : Nat → Bytes) (c : Ctx) (p q : Nat) (b : Bytes),
    ∃ pre post, (((c.setPos p).setPos q).write pack b).output = pre ++ enc (pack p) ++ post

/-- witness: a second `SetPos` before any output replaces the first. `SetPos` is unchanged by the round-2 repairs, so this
    stays true of the code: it is how the evaluation of a `switch` tag still loses its position (translateStmt sets the
    position of the switch, the synthetic assignment `_1 := tag` sets `token.NoPos` right after), and it was how `if`
    statements lost theirs before the repair C19-if-stmt-nopos gave the synthetic clause the position of its `if`.
    What does hold is `alternating_positions_reported` / `stmts_all_mapped` below. -/
theorem every_setpos_reported_counterexample : ¬ every_setpos_reported := by
  intro h
  obtain ⟨pre, post, h⟩ := h (fun n => [n]) Ctx.empty 1 0 []
  rw [setPos_last_wins] at h
  simp only [Ctx.empty, enc, List.nil_append, List.append_nil, List.length_cons, List.length_nil] at h
  have hl := congrArg List.length h
  simp only [List.length_cons, List.length_nil, List.length_append] at hl
  have hpre : pre = [] := List.eq_nil_of_length_eq_zero (by omega)
  have hpost : post = [] := List.eq_nil_of_length_eq_zero (by omega)
  subst hpre hpost
  simp at h

/-- `Printf` with a pending position: the hint comes first, BEFORE the indentation of the line (so the generated
    column of a statement in non-minified output is the start of the line, its code follows after the tabs) -/
theorem printf_hint_first (pack : Nat → Bytes) (c : Ctx) (p : Nat) (s : Bytes) :
    ((c.setPos p).printf pack s).output =
      c.output ++ enc (pack p) ++ List.replicate c.indent 9 ++ s ++ [nl] ++ c.delayed ∧
    ((c.setPos p).printf pack s).posAvail = false := by
  simp [Ctx.setPos, Ctx.printf, Ctx.write, Ctx.writePos]

/-- `CatchOutput`: the enclosing buffer is restored untouched and no position stays pending: a position still
    pending at the end of the callback is flushed into the caught bytes -/
theorem catch_restores (pack : Nat → Bytes) (c : Ctx) (caps : List Bytes) (k : Nat) (body : List Op) :
    (Ctx.step pack c caps (.catch k body)).1.output = c.output ∧
    (Ctx.step pack c caps (.catch k body)).1.posAvail = false := by
  simp only [Ctx.step, Ctx.writePos]
  constructor
  · trivial
  · split <;> simp_all

/-- end to end for one statement: if the buffer so far is the rendering of well-formed items and a position `p` is
    pending, then after writing the statement's code (free of the magic byte) the filter reports, as the LAST mapping,
    the payload of `p` at exactly the position where the first byte of that code stands in the filtered output. -/
theorem stmt_position_exact (pack : Nat → Bytes) (c : Ctx) (items : List Item) (wf : WFs items)
    (hout : c.output = render items) (p : Nat) (hp : (pack p).length ≤ 0xFFFF)
    (code : Bytes) (hcode : ∀ b ∈ code, b ≠ magic) :
    let out := ((c.setPos p).write pack code).output
    (write init out).out = codeBytes items ++ code ∧
    (write init out).maps = (mappings [] items).map toMapping ++
      [⟨(posOf (codeBytes items)).1, (posOf (codeBytes items)).2, pack p⟩] := by
  have hr : ((c.setPos p).write pack code).output = render (items ++ [.hint (pack p), .code code]) := by
    rw [(pending_flushed_by_write pack c p code).1, hout, render_append]
    simp [render]
  have wf2 : WFs (items ++ [.hint (pack p), .code code]) := by
    intro it hit
    simp only [List.mem_append, List.mem_cons, List.not_mem_nil, or_false] at hit
    rcases hit with h | rfl | rfl
    · exact wf it h
    · exact hp
    · exact hcode
  have hm : ∀ (pre : Bytes) (its : List Item), mappings pre (its ++ [.hint (pack p), .code code]) =
      mappings pre its ++ [((posOf (pre ++ codeBytes its)).1, (posOf (pre ++ codeBytes its)).2, pack p)] := by
    intro pre its
    induction its generalizing pre with
    | nil => simp [mappings, codeBytes]
    | cons it tl ih =>
      cases it with
      | code cc => simp only [List.cons_append, mappings, codeBytes, ih, List.append_assoc]
      | hint hh => simp only [List.cons_append, mappings, codeBytes, ih]
  simp only [hr]
  rw [init_is_empty, write_render' _ wf2, modelMaps_stOf, hm]
  simp [codeBytes_append, codeBytes, toMapping]


/-- positions set alternately with output are ALL reported: a script `SetPos p₁; Write b₁; SetPos p₂; Write b₂; …`
    leaves `hint p₁, b₁, hint p₂, b₂, …` in the buffer and nothing pending. -/
def runPairs (pack : Nat → Bytes) (c : Ctx) : List (Nat × Bytes) → Ctx
  | [] => c
  | (p, b) :: tl => runPairs pack ((c.setPos p).write pack b) tl

def pairItems (pack : Nat → Bytes) : List (Nat × Bytes) → List Item
  | [] => []
  | (p, b) :: tl => .hint (pack p) :: .code b :: pairItems pack tl

theorem alternating_positions_reported (pack : Nat → Bytes) (c : Ctx) (l : List (Nat × Bytes)) :
    (runPairs pack c l).output = c.output ++ render (pairItems pack l) ∧
    ((runPairs pack c l).posAvail = true → l = [] ∧ c.posAvail = true) := by
  induction l generalizing c with
  | nil => simp [runPairs, pairItems, render]
  | cons x tl ih =>
    obtain ⟨p, b⟩ := x
    obtain ⟨h1, h2⟩ := ih ((c.setPos p).write pack b)
    have hw := pending_flushed_by_write pack c p b
    refine ⟨?_, ?_⟩
    · simp only [runPairs, h1, hw.1, pairItems, render, List.append_assoc]
    · intro h
      have := (h2 h).2
      rw [hw.2] at this
      cases this

/-- … and, through the filter: one mapping per statement, each at the position where that statement's bytes start
    in the filtered output. -/
theorem stmts_all_mapped (pack : Nat → Bytes) (l : List (Nat × Bytes))
    (hp : ∀ x ∈ l, (pack x.1).length ≤ 0xFFFF) (hb : ∀ x ∈ l, ∀ b ∈ x.2, b ≠ magic) :
    (write init (runPairs pack Ctx.empty l).output).maps = (mappings [] (pairItems pack l)).map toMapping ∧
    (write init (runPairs pack Ctx.empty l).output).maps.length = l.length := by
  have wf : WFs (pairItems pack l) := by
    induction l with
    | nil => intro it hit; simp [pairItems] at hit
    | cons x tl ih =>
      obtain ⟨p, b⟩ := x
      intro it hit
      simp only [pairItems, List.mem_cons] at hit
      rcases hit with rfl | rfl | hit
      · exact hp (p, b) (by simp)
      · exact hb (p, b) (by simp)
      · exact ih (fun y hy => hp y (by simp [hy])) (fun y hy => hb y (by simp [hy])) it hit
  have hout := (alternating_positions_reported pack Ctx.empty l).1
  simp only [Ctx.empty, List.nil_append] at hout
  have hout' : (runPairs pack Ctx.empty l).output = render (pairItems pack l) := hout
  rw [hout', init_is_empty, write_render' _ wf, modelMaps_stOf]
  refine ⟨rfl, ?_⟩
  rw [← modelMaps_stOf, modelMaps_length]
  clear wf hout hout' hp hb
  induction l with
  | nil => rfl
  | cons x tl ih => obtain ⟨p, b⟩ := x; simp [pairItems, hintCount, ih]

/-! ### minified code: `removeWhitespace` keeps the mappings (bridge to C16)

  C16 proves (`GV.Props.C16.rw_items`, `rw_hints`, `rw_total`) that on every well-formed item sequence the byte-level
  scanner `removeWhitespace` is the item-level algorithm `rwItems`, which copies hints untouched and in order. Here that
  result is carried through the hint filter: the filter reports the same payload sequence for the minified bytes as for
  the original bytes. Hypothesis `Bridge`: the magic byte occurs only in hints (not inside string literals or comments)
  and the two size bytes of a hint are bytes. -/

/-- an item of C16's lexical model as an item of the hint stream -/
def toSrc : GV.JsTokens.Item → Item
  | .hint bs => .hint (bs.drop 3)
  | it => .code it.bytes

/-- no 0x08 outside hints; hint header bytes are bytes -/
def Bridge : GV.JsTokens.Item → Prop
  | .hint bs => ∃ hi lo payload, bs = 8 :: hi :: lo :: payload ∧ payload.length = hi * 256 + lo ∧ lo < 256 ∧ hi < 256
  | it => ∀ b ∈ it.bytes, b ≠ magic

theorem render_toSrc (its : List GV.JsTokens.Item) (hb : ∀ it ∈ its, Bridge it) :
    render (its.map toSrc) = GV.JsTokens.flatten its ∧ WFs (its.map toSrc) ∧
    (modelMaps init (its.map toSrc)).map (·.payload) = (GV.JsTokens.hintsOf its).map (·.drop 3) := by
  suffices h : ∀ st, render (its.map toSrc) = GV.JsTokens.flatten its ∧ WFs (its.map toSrc) ∧
      (modelMaps st (its.map toSrc)).map (·.payload) = (GV.JsTokens.hintsOf its).map (·.drop 3) from h init
  induction its with
  | nil => intro st; exact ⟨rfl, fun it hit => by simp at hit, rfl⟩
  | cons it tl ih =>
    intro st
    have htl : ∀ x ∈ tl, Bridge x := fun x hx => hb x (by simp [hx])
    have hit := hb it (by simp)
    cases it with
    | hint bs =>
      obtain ⟨hi, lo, payload, rfl, hlen, hlo, hhi⟩ := hit
      obtain ⟨r1, r2, r3⟩ := ih htl st
      have e1 : payload.length / 256 = hi := by omega
      have e2 : payload.length % 256 = lo := by omega
      refine ⟨?_, ?_, ?_⟩
      · simp [toSrc, render, enc, GV.JsTokens.flatten, GV.JsTokens.Item.bytes, r1, e1, e2, magic]
      · intro x hx
        simp only [List.map_cons, List.mem_cons, toSrc] at hx
        rcases hx with rfl | hx
        · show (List.drop 3 (8 :: hi :: lo :: payload)).length ≤ 0xFFFF
          simp; omega
        · exact r2 x hx
      · simp [toSrc, modelMaps, GV.JsTokens.hintsOf, r3]
    | ws c =>
      obtain ⟨r1, r2, r3⟩ := ih htl (advance st (GV.JsTokens.Item.ws c).bytes)
      exact ⟨by simp [toSrc, render, GV.JsTokens.flatten, r1],
        fun x hx => by
          simp only [List.map_cons, List.mem_cons, toSrc] at hx
          rcases hx with rfl | hx
          · exact hit
          · exact r2 x hx,
        by simp [toSrc, modelMaps, GV.JsTokens.hintsOf, r3]⟩
    | comment body =>
      obtain ⟨r1, r2, r3⟩ := ih htl (advance st (GV.JsTokens.Item.comment body).bytes)
      exact ⟨by simp [toSrc, render, GV.JsTokens.flatten, r1],
        fun x hx => by
          simp only [List.map_cons, List.mem_cons, toSrc] at hx
          rcases hx with rfl | hx
          · exact hit
          · exact r2 x hx,
        by simp [toSrc, modelMaps, GV.JsTokens.hintsOf, r3]⟩
    | str body =>
      obtain ⟨r1, r2, r3⟩ := ih htl (advance st (GV.JsTokens.Item.str body).bytes)
      exact ⟨by simp [toSrc, render, GV.JsTokens.flatten, r1],
        fun x hx => by
          simp only [List.map_cons, List.mem_cons, toSrc] at hx
          rcases hx with rfl | hx
          · exact hit
          · exact r2 x hx,
        by simp [toSrc, modelMaps, GV.JsTokens.hintsOf, r3]⟩
    | ch c =>
      obtain ⟨r1, r2, r3⟩ := ih htl (advance st (GV.JsTokens.Item.ch c).bytes)
      exact ⟨by simp [toSrc, render, GV.JsTokens.flatten, r1],
        fun x hx => by
          simp only [List.map_cons, List.mem_cons, toSrc] at hx
          rcases hx with rfl | hx
          · exact hit
          · exact r2 x hx,
        by simp [toSrc, modelMaps, GV.JsTokens.hintsOf, r3]⟩

/-- the item-level algorithm only drops items and keeps the hints in order -/
theorem rwItems_sub : ∀ (its : List GV.JsTokens.Item) (prev : Nat) (o : List GV.JsTokens.Item),
    GV.JsTokens.rwItems prev its = some o →
    (∀ it ∈ o, it ∈ its) ∧ GV.JsTokens.hintsOf o = GV.JsTokens.hintsOf its := by
  intro its
  induction its with
  | nil => intro prev o h; simp [GV.JsTokens.rwItems] at h; subst h; exact ⟨fun _ h => h, rfl⟩
  | cons it tl ih =>
    intro prev o h
    cases it with
    | ws c =>
      simp only [GV.JsTokens.rwItems] at h
      split at h
      · cases h
      · obtain ⟨a, b⟩ := ih _ _ h
        exact ⟨fun x hx => by simp [a x hx], by simp [GV.JsTokens.hintsOf, b]⟩
      · cases hr : GV.JsTokens.rwItems c tl with
        | none => simp [hr] at h
        | some o' =>
          simp [hr] at h; subst h
          obtain ⟨a, b⟩ := ih _ _ hr
          exact ⟨fun x hx => by
            simp only [List.mem_cons] at hx ⊢
            rcases hx with rfl | hx
            · exact Or.inl rfl
            · exact Or.inr (a x hx), by simp [GV.JsTokens.hintsOf, b]⟩
    | comment body =>
      simp only [GV.JsTokens.rwItems] at h
      obtain ⟨a, b⟩ := ih _ _ h
      exact ⟨fun x hx => by simp [a x hx], by simp [GV.JsTokens.hintsOf, b]⟩
    | hint bs =>
      simp only [GV.JsTokens.rwItems] at h
      cases hr : GV.JsTokens.rwItems prev tl with
      | none => simp [hr] at h
      | some o' =>
        simp [hr] at h; subst h
        obtain ⟨a, b⟩ := ih _ _ hr
        exact ⟨fun x hx => by
          simp only [List.mem_cons] at hx ⊢
          rcases hx with rfl | hx
          · exact Or.inl rfl
          · exact Or.inr (a x hx), by simp [GV.JsTokens.hintsOf, b]⟩
    | str body =>
      simp only [GV.JsTokens.rwItems] at h
      cases hr : GV.JsTokens.rwItems 34 tl with
      | none => simp [hr] at h
      | some o' =>
        simp [hr] at h; subst h
        obtain ⟨a, b⟩ := ih _ _ hr
        exact ⟨fun x hx => by
          simp only [List.mem_cons] at hx ⊢
          rcases hx with rfl | hx
          · exact Or.inl rfl
          · exact Or.inr (a x hx), by simp [GV.JsTokens.hintsOf, b]⟩
    | ch y =>
      simp only [GV.JsTokens.rwItems] at h
      split at h
      · cases h
      · cases hr : GV.JsTokens.rwItems y tl with
        | none => simp [hr] at h
        | some o' =>
          simp [hr] at h; subst h
          obtain ⟨a, b⟩ := ih _ _ hr
          exact ⟨fun x hx => by
            simp only [List.mem_cons] at hx ⊢
            rcases hx with rfl | hx
            · exact Or.inl rfl
            · exact Or.inr (a x hx), by simp [GV.JsTokens.hintsOf, b]⟩

/-- `minify_keeps_mappings`: for every well-formed item sequence whose 0x08 bytes all belong to hints, whatever
    `removeWhitespace` returns is filtered without panic and yields the same payload sequence — the same Go positions and
    identifiers, in the same order — as the non-minified bytes. (That it does return something on well-formed generated
    code is `GV.Props.C16.rw_total`.) -/
theorem minify_keeps_mappings (its : List GV.JsTokens.Item) (hok : GV.JsTokens.itemsOK its = true)
    (hb : ∀ it ∈ its, Bridge it) (o : Bytes) (ho : GV.Minify.removeWhitespace (GV.JsTokens.flatten its) true = some o) :
    (write init o).err = none ∧
    (write init o).maps.map (·.payload) = (write init (GV.JsTokens.flatten its)).maps.map (·.payload) := by
  rw [GV.Props.C16.rw_items its hok] at ho
  cases hr : GV.JsTokens.rwItems 0 its with
  | none => simp [hr] at ho
  | some its' =>
    simp [hr] at ho
    subst ho
    obtain ⟨hsub, hh⟩ := rwItems_sub its 0 its' hr
    have hb' : ∀ it ∈ its', Bridge it := fun it hit => hb it (hsub it hit)
    obtain ⟨a1, a2, a3⟩ := render_toSrc its' hb'
    obtain ⟨b1, b2, b3⟩ := render_toSrc its hb
    rw [← a1, ← b1, write_render' _ a2, write_render' _ b2]
    exact ⟨rfl, by simp only [a3, b3, hh]⟩

/-! ### names of original files: `Filter.normalizePath` (filter.go:202-231)

  Model `GV.SrcMapPath.normalizePath` (the code as it is since the repair c63a0c1); specification
  `GV.Spec.SrcMapPath.name` over path components: the name is "/" + the path relative to `<root>/src` of the first root
  (GOPATH workspaces in order, then GOROOT) that contains the file by components, else the last component. The scheme
  before the repair (`normalizePathOld`), its counterexamples and its partial theorem are in "repaired defects" below. -/

section NormalizePath
open GV.PathClean GV.SrcMapPath GV.Proofs.SrcMapPath

/-- `normalize_full` (full strength): for ALL roots and files `normalizePath` names the file as the component
    specification demands — whatever string prefixes the roots are of one another or of the file. -/
theorem normalize_full (goroot gopath file : List Nat) :
    normalizePath false goroot gopath file =
      GV.Spec.SrcMapPath.name ((splitList gopath ++ [goroot]).map clean) file :=
  fixed_eq_spec goroot gopath file

/-- the demanded name resolves: a file named through root r is `<r>/src` + name again -/
theorem name_resolves (root file : List Nat) (rest : List (List Nat))
    (h : GV.Spec.SrcMapPath.below root file = some rest) :
    file = (if root = [47] then [] else root) ++ [47, 115, 114, 99] ++ (47 :: joinSlash rest) :=
  eq_of_below root file rest h

/-- with `--localmap` the name is the file itself -/
theorem normalize_localmap (goroot gopath file : List Nat) : normalizePath true goroot gopath file = file := by
  simp [normalizePath]

-- regression witnesses of the repaired defect, now named correctly: sibling of GOROOT -> "m.go", module cache -> "f.go",
-- GOPATH that has GOROOT as a string prefix -> "/d/m.go"
example : normalizePath false [47,120,47,103,111] [47,121] [47,120,47,103,111,45,119,47,97,112,112,47,109,46,103,111] = [109,46,103,111] := by decide
example : normalizePath false [47,120,47,103,111] [47,121] [47,121,47,112,107,103,47,109,111,100,47,97,47,102,46,103,111] = [102,46,103,111] := by decide
example : normalizePath false [47,120,47,103,111] [47,120,47,103,111,45,119]
    [47,120,47,103,111,45,119,47,115,114,99,47,100,47,109,46,103,111] = [47,100,47,109,46,103,111] := by decide

end NormalizePath

/-! ### the FileSet is part of the filter state

  compiler.WritePkgCode installs each package's own FileSet (`w.FileSet = pkg.FileSet`) before writing that package's code,
  and position numbers start again at 1 in every FileSet. `writeSeq` is one filter fed with a sequence of segments
  (FileSet, Write calls). -/

/-- what must be reported for a sequence of segments written after output `pre` -/
def specSeq (decode : Bytes → Nat) (pre : Bytes) : List (FileSetSpec × List (List Item)) → List RMapping
  | [] => []
  | (fs, chs) :: tl =>
    (mappings pre chs.flatten).map (fun m => (⟨m.1, m.2.1, resolve fs (decode m.2.2)⟩ : RMapping)) ++
      specSeq decode (pre ++ codeBytes chs.flatten) tl

def codeSeq : List (FileSetSpec × List (List Item)) → Bytes
  | [] => []
  | (_, chs) :: tl => codeBytes chs.flatten ++ codeSeq tl

/-- `mapping_uses_current_fileset`: for every sequence of (FileSet, admissible chunking of a stream) segments, every hint
    is reported at its exact output position AND resolved in the FileSet that is installed when the hint is written —
    never in the FileSet (or a file) of an earlier segment; the output is the code of all segments. -/
theorem mapping_uses_current_fileset (decode : Bytes → Nat) (pre : Bytes)
    (segs : List (FileSetSpec × List (List Item))) (wf : ∀ s ∈ segs, ∀ ch ∈ s.2, WFs ch) :
    (writeSeq decode (stOf pre) (segs.map fun s => (s.1, s.2.map render))).2 = specSeq decode pre segs ∧
    (writeSeq decode (stOf pre) (segs.map fun s => (s.1, s.2.map render))).1 = codeSeq segs := by
  induction segs generalizing pre with
  | nil => exact ⟨rfl, rfl⟩
  | cons s tl ih =>
    obtain ⟨fs, chs⟩ := s
    have wfh : ∀ ch ∈ chs, WFs ch := wf (fs, chs) (by simp)
    have wft : ∀ s ∈ tl, ∀ ch ∈ s.2, WFs ch := fun x hx => wf x (by simp [hx])
    obtain ⟨pm, pst⟩ := positions_exact pre chs wfh
    have hout := (hints_removed chs wfh (stOf pre)).1
    obtain ⟨i1, i2⟩ := ih (pre ++ codeBytes chs.flatten) wft
    simp only [List.map_cons, writeSeq, specSeq, codeSeq, pm, pst, hout, i1, i2, List.map_map]
    simp [toMapping, Function.comp_def]

/-- the stale-cache variant is NOT equivalent: with `runtime.go` (50 bytes) cached from the first segment, position 5 of the
    next package's FileSet (file `dep.go`) is attributed to `runtime.go` -/
theorem stale_cache_counterexample :
    ¬ ∀ segs : List (FileSetSpec × List Nat), resolveSeqStale none segs = resolveSeq segs := by
  intro h
  have := h [([⟨"runtime.go", 50, 10⟩], [5]), ([⟨"dep.go", 20, 10⟩], [5])]
  revert this
  decide

/-! ### repaired defects (theorems about the code as it was before the round-2 repairs) -/

/-- `defaultJSMappingCallback` before the repair C19-js-first-line-column: the test was `GeneratedLine == 0` -/
def offsetJS_before_repair (st : St) (m : JSMapping) : JSMapping :=
  let col := if m.genLine = 0 then m.genColumn + st.column else m.genColumn
  { m with genLine := m.genLine + st.line, genColumn := col }

/-- the old scheme left a first-line mapping of a JS text written at column 12 at its isolated column -/
theorem offset_js_counterexample_before_repair :
    ¬ ∀ (st : St) (m : JSMapping), 1 ≤ m.genLine → offsetJS_before_repair st m = offsetJSSpec st m := by
  intro h
  have := h ⟨1, 12⟩ ⟨1, 0, "helper.inc.js:1:0"⟩ (by decide)
  revert this
  decide

/-! #### `normalizePath` before the repair c63a0c1 (bare `strings.HasPrefix`, fixed cut of 4 bytes) -/

section NormalizePathOld
open GV.PathClean GV.SrcMapPath GV.Proofs.SrcMapPath

/-- `normalize_partial_before_repair`: the old code names the file as demanded whenever GOROOT is in clean form, no root is "/", and
    the FIRST root (in the code's order) that is a string prefix of the file really has the file inside its src directory
    (`FirstMatchReal`: no bare string-prefix match such as /x/go vs /x/go-work/…, no file of a root outside src). -/
theorem normalize_partial_before_repair (goroot gopath file : List Nat) (hc : clean goroot = goroot)
    (h : FirstMatchReal (codeRoots goroot gopath) file) :
    normalizePathOld false goroot gopath file =
      some (GV.Spec.SrcMapPath.name ((splitList gopath ++ [goroot]).map clean) file) :=
  asis_eq_spec_of_real goroot gopath file hc h

-- "/x/go", "/x/go-w", "/x/go-w/src/d/m.go", "/y", "/x/go-w/app/m.go", "/y/pkg/mod/a/f.go", "/y/a"
abbrev sGo : List Nat := [47,120,47,103,111]
abbrev sGoW : List Nat := [47,120,47,103,111,45,119]
abbrev sGoWFile : List Nat := [47,120,47,103,111,45,119,47,115,114,99,47,100,47,109,46,103,111]
abbrev sY : List Nat := [47,121]
abbrev sSibling : List Nat := [47,120,47,103,111,45,119,47,97,112,112,47,109,46,103,111]
abbrev sModCache : List Nat := [47,121,47,112,107,103,47,109,111,100,47,97,47,102,46,103,111]
abbrev sShort : List Nat := [47,121,47,97]

/-- the full-strength statement for the old code (false) -/
def normalize_full_before_repair : Prop :=
  ∀ goroot gopath file : List Nat, clean goroot = goroot →
    normalizePathOld false goroot gopath file =
      some (GV.Spec.SrcMapPath.name ((splitList gopath ++ [goroot]).map clean) file)

/-- witness 1: GOROOT=/x/go, GOPATH=/y, a module-mode project /x/go-w/app/m.go (sibling of GOROOT whose path starts with
    the GOROOT string) is named "pp/m.go" instead of "m.go" -/
theorem normalize_counterexample_sibling :
    normalizePathOld false sGo sY sSibling = some [112,112,47,109,46,103,111] ∧
    GV.Spec.SrcMapPath.name ((splitList sY ++ [sGo]).map clean) sSibling = [109,46,103,111] := by decide

theorem normalize_counterexample : ¬ normalize_full_before_repair := by
  intro h
  have := h sGo sY sSibling (by decide)
  rw [normalize_counterexample_sibling.1, normalize_counterexample_sibling.2] at this
  exact absurd this (by decide)

/-- witness 2: a module-cache file $GOPATH/pkg/mod/a/f.go is named "/mod/a/f.go" (4 bytes cut blindly), demanded "f.go" -/
theorem normalize_counterexample_modcache :
    normalizePathOld false sGo sY sModCache = some [47,109,111,100,47,97,47,102,46,103,111] ∧
    GV.Spec.SrcMapPath.name ((splitList sY ++ [sGo]).map clean) sModCache = [102,46,103,111] := by decide

/-- witness 3: a file name shorter than root + 4 makes the code panic (slice bounds out of range) -/
theorem normalize_counterexample_panic : normalizePathOld false sGo sY sShort = none := by decide

/-- the hypothesis of the partial theorem is satisfiable in the very configuration where roots are string prefixes of
    one another: GOROOT=/x/go, GOPATH=/x/go-w, file /x/go-w/src/d/m.go — GOPATH is tested first and really contains the
    file, so the name is "/d/m.go" (testing GOROOT first would give "/src/d/m.go") -/
theorem normalize_prefix_roots_ok :
    clean sGo = sGo ∧ FirstMatchReal (codeRoots sGo sGoW) sGoWFile ∧
    normalizePathOld false sGo sGoW sGoWFile = some [47,100,47,109,46,103,111] := by
  refine ⟨by decide, ⟨?_, ?_⟩, by decide⟩
  · intro r hr
    have : r = sGoW ∨ r = sGo := by
      have hcr : codeRoots sGo sGoW = [sGoW, sGo] := by decide
      rw [hcr] at hr; simpa using hr
    rcases this with rfl | rfl <;> decide
  · intro r hr
    have hcr : (codeRoots sGo sGoW).find? (hasPrefix sGoWFile) = some sGoW := by decide
    rw [hcr] at hr
    injection hr with hr; subst hr
    exact List.isPrefixOf_iff_prefix.mp (by decide)


end NormalizePathOld

end GV.Props.C19
