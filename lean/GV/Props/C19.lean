/-
  GV.Props.C19 — "Source maps are complete, in range and point at the right Go lines".

  Model: GV.Model.SrcMap (transcription of internal/sourcemapx/{hint,filter}.go and of the output buffer of
  compiler/utils.go). Specification: GV.Spec.SrcMap (text positions, expected output, expected mappings).

  A *stream* is a list of items: code chunks free of the magic byte 0x08 and hints with arbitrary payloads of
  at most 0xFFFF bytes (`Item.WF`). An *admissible chunking* into `Write` calls is a list of item lists
  (`chunks : List (List Item)`): every Write call receives the rendering of some items, so a hint is never
  split; code may be split at any byte because `code (a ++ b)` and `code a, code b` render to the same bytes
  (`code_split`). The stream of a chunking is `chunks.flatten`.

  Column units: the filter counts columns in BYTES of the UTF-8 output; a source-map consumer counts UTF-16
  code units. `columns_units` shows they agree under `AsciiBeforeHints` (every byte between the last newline
  and a hint is < 0x80) and `columns_units_needs_ascii` shows the hypothesis cannot be dropped. The check tests
  `AsciiBeforeHints` on every emitted file.

  Known defect (transcribed as it is, see `offset_js_counterexample`): `defaultJSMappingCallback` compares the
  1-based generated line of a decoded mapping with 0, so the column shift for the first line is never applied.
-/
import GV.Proofs.SrcMap

namespace GV.Props.C19
open GV.SrcMap GV.Proofs.SrcMap
open GV.Spec.SrcMap (Item codeBytes posOf lineCount colOf mappings placeAt utf16Units lastLine)

/-! ### wire format -/

/-- `hint_roundtrip`: WriteTo produces magic, big-endian size, payload; ReadHint on that (followed by anything)
    gives the payload back and reports header + |payload| bytes. -/
theorem hint_roundtrip (h rest : Bytes) (hh : h.length ≤ 0xFFFF) :
    writeTo h = some (enc h) ∧ readHint (enc h ++ rest) = .ok (h, 3 + h.length) ∧
    findHint (enc h ++ rest) = some 0 := by
  refine ⟨?_, ?_, ?_⟩
  · have : ¬ h.length > 0xFFFF := by omega
    simp [writeTo, this]
  · rw [readHint_enc, Nat.add_comm]
  · simp [enc, findHint]

/-- payloads longer than 0xFFFF are refused by WriteTo (the size field could not hold them) -/
theorem writeTo_too_long (h : Bytes) (hh : 0xFFFF < h.length) : writeTo h = none := by
  simp [writeTo, hh]

/-- every byte of an encoded hint is a byte when the payload bytes are and the size fits 16 bits -/
theorem enc_bytes (h : Bytes) (hh : h.length ≤ 0xFFFF) (hb : ∀ b ∈ h, b < 256) : ∀ b ∈ enc h, b < 256 := by
  intro b hbm
  simp only [enc, List.mem_cons] at hbm
  rcases hbm with rfl | rfl | rfl | hm
  · simp [magic]
  · omega
  · omega
  · exact hb b hm

/-- `payload_magic_safe`: whatever the payload bytes are (0x08 included), a hint at the head of the input is
    consumed as ONE hint: one mapping at the current position, no output, and the scan resumes behind it. -/
theorem payload_magic_safe (st : St) (h r : Bytes) :
    write st (enc h ++ r) = (write st r).hintAt st h :=
  write_hint_append st h r

/-- number of hints of a stream -/
def hintCount : List Item → Nat
  | [] => 0
  | .code _ :: tl => hintCount tl
  | .hint _ :: tl => hintCount tl + 1

theorem modelMaps_length (st : St) (items : List Item) : (modelMaps st items).length = hintCount items := by
  induction items generalizing st with
  | nil => rfl
  | cons it tl ih => cases it <;> simp [modelMaps, hintCount, ih]

/-- consequence: exactly one mapping per hint, however many magic bytes the payloads contain -/
theorem one_mapping_per_hint (chunks : List (List Item)) (wf : ∀ ch ∈ chunks, WFs ch) (st : St) :
    (writeAll st (chunks.map render)).maps.length = hintCount chunks.flatten := by
  rw [writeAll_render chunks wf]
  have wfl : WFs chunks.flatten := by
    intro it hit
    obtain ⟨ch, hch, hin⟩ := List.mem_flatten.mp hit
    exact wf ch hch it hin
  rw [write_render' _ wfl, modelMaps_length]

example : (write init (render [.code [65], .hint [8, 8, 8], .code [66]])).maps = [⟨1, 1, [8, 8, 8]⟩] := by
  have wf : WFs [.code [65], .hint [8, 8, 8], .code [66]] := by
    intro it hit
    simp only [List.mem_cons, List.not_mem_nil, or_false] at hit
    rcases hit with rfl | rfl | rfl <;> decide
  rw [write_render' _ wf]; rfl

/-! ### the three headline theorems -/

theorem wfs_flatten {chunks : List (List Item)} (wf : ∀ ch ∈ chunks, WFs ch) : WFs chunks.flatten := by
  intro it hit
  obtain ⟨ch, hch, hin⟩ := List.mem_flatten.mp hit
  exact wf ch hch it hin

/-- `chunking_independent` [IND]: folding `write` over ANY admissible chunking gives the same state, output bytes,
    mappings, byte count and (absence of) panic as one `write` of the whole stream. -/
theorem chunking_independent (chunks : List (List Item)) (wf : ∀ ch ∈ chunks, WFs ch) (st : St) :
    writeAll st (chunks.map render) = write st (render chunks.flatten) :=
  writeAll_render chunks wf st

/-- two admissible chunkings of the same byte stream are indistinguishable -/
theorem chunking_independent' (cs1 cs2 : List (List Item)) (w1 : ∀ ch ∈ cs1, WFs ch) (w2 : ∀ ch ∈ cs2, WFs ch)
    (same : render cs1.flatten = render cs2.flatten) (st : St) :
    writeAll st (cs1.map render) = writeAll st (cs2.map render) := by
  rw [writeAll_render cs1 w1, writeAll_render cs2 w2, same]

/-- code may be cut at any byte: both sides are the same bytes, so "one byte per Write call" is admissible -/
theorem code_split (a b : Bytes) (tl : List Item) :
    render (.code (a ++ b) :: tl) = render (.code a :: .code b :: tl) := by
  simp [render]

/-- `hints_removed` [EQ]: for every stream and every admissible chunking the bytes that reach the underlying writer
    are exactly the code bytes in order — no hint byte, nothing else dropped or added —, no panic occurs, and the
    `n` values returned add up to the number of bytes written into the filter. -/
theorem hints_removed (chunks : List (List Item)) (wf : ∀ ch ∈ chunks, WFs ch) (st : St) :
    (writeAll st (chunks.map render)).out = codeBytes chunks.flatten ∧
    (writeAll st (chunks.map render)).err = none ∧
    (writeAll st (chunks.map render)).n = (render chunks.flatten).length := by
  rw [writeAll_render chunks wf, write_render' _ (wfs_flatten wf)]
  exact ⟨rfl, rfl, rfl⟩

/-- the output is free of the magic byte -/
theorem output_magic_free (chunks : List (List Item)) (wf : ∀ ch ∈ chunks, WFs ch) (st : St) :
    ∀ b ∈ (writeAll st (chunks.map render)).out, b ≠ magic := by
  rw [(hints_removed chunks wf st).1]
  have key : ∀ items : List Item, WFs items → ∀ b ∈ codeBytes items, b ≠ magic := by
    intro items
    induction items with
    | nil => intro _ b hb; simp [codeBytes] at hb
    | cons it tl ih =>
      intro w b hb
      have wtl : WFs tl := fun x hx => w x (by simp [hx])
      cases it with
      | code c =>
        simp only [codeBytes, List.mem_append] at hb
        rcases hb with hb | hb
        · exact (w (.code c) (by simp)) b hb
        · exact ih wtl b hb
      | hint h => exact ih wtl b (by simpa [codeBytes] using hb)
  exact key _ (wfs_flatten wf)

/-- `positions_exact`: on a filter that has so far written `pre`, the mappings reported for any stream under any
    admissible chunking are, in order, one per hint, at
      (1 + number of newlines, number of bytes since the last newline)
    of the OUTPUT written up to the point where the hint stood — i.e. the position of the next code byte. -/
theorem positions_exact (pre : Bytes) (chunks : List (List Item)) (wf : ∀ ch ∈ chunks, WFs ch) :
    (writeAll (stOf pre) (chunks.map render)).maps = (mappings pre chunks.flatten).map toMapping ∧
    (writeAll (stOf pre) (chunks.map render)).st = stOf (pre ++ codeBytes chunks.flatten) := by
  rw [writeAll_render chunks wf, write_render' _ (wfs_flatten wf)]
  exact ⟨modelMaps_stOf _ _, advance_stOf _ _⟩

/-- the fresh filter is the state of the empty output -/
theorem init_is_empty : init = stOf [] := rfl

/-- `positions_exact` for a fresh filter -/
theorem positions_exact_init (chunks : List (List Item)) (wf : ∀ ch ∈ chunks, WFs ch) :
    (writeAll init (chunks.map render)).maps = (mappings [] chunks.flatten).map toMapping :=
  (positions_exact [] chunks wf).1

-- the hypotheses are satisfiable by a non-trivial stream, chunked one byte per call outside the hint
example : ∃ chunks : List (List Item), chunks = [[.code [65]], [.code [10]], [.code [66], .hint [1, 8, 0]], [.code [67]]] ∧
    (∀ ch ∈ chunks, WFs ch) ∧
    (writeAll init (chunks.map render)).out = [65, 10, 66, 67] ∧
    (writeAll init (chunks.map render)).maps = [⟨2, 1, [1, 8, 0]⟩] := by
  have wf : ∀ ch ∈ ([[.code [65]], [.code [10]], [.code [66], .hint [1, 8, 0]], [.code [67]]] : List (List Item)), WFs ch := by
    intro ch hch it hit
    simp only [List.mem_cons, List.not_mem_nil, or_false] at hch
    rcases hch with rfl | rfl | rfl | rfl <;>
      simp only [List.mem_cons, List.not_mem_nil, or_false] at hit <;>
      (try rcases hit with rfl | rfl) <;> (try subst hit) <;> decide
  refine ⟨_, rfl, wf, ?_⟩
  rw [(hints_removed _ wf init).1, init_is_empty, (positions_exact [] _ wf).1]
  exact ⟨rfl, rfl⟩

/-! ### byte columns vs UTF-16 columns -/

/-- every byte between the last newline and each hint is ASCII -/
def AsciiBeforeHints (pre : Bytes) : List Item → Prop
  | [] => True
  | .code c :: tl => AsciiBeforeHints (pre ++ c) tl
  | .hint _ :: tl => (∀ b ∈ lastLine pre, b < 0x80) ∧ AsciiBeforeHints pre tl

/-- the mappings a consumer that counts columns in UTF-16 code units expects -/
def mappings16 (pre : Bytes) : List Item → List (Nat × Nat × Bytes)
  | [] => []
  | .code c :: tl => mappings16 (pre ++ c) tl
  | .hint h :: tl => (1 + lineCount pre, utf16Units (lastLine pre), h) :: mappings16 pre tl

theorem utf16Units_ascii (l : Bytes) (h : ∀ b ∈ l, b < 0x80) : utf16Units l = l.length := by
  induction l with
  | nil => rfl
  | cons b tl ih =>
    have hb : b < 0x80 := h b (by simp)
    have htl : ∀ x ∈ tl, x < 0x80 := fun x hx => h x (by simp [hx])
    have h1 : ¬ (0x80 ≤ b ∧ b < 0xC0) := by omega
    have h2 : ¬ (0xF0 ≤ b) := by omega
    simp only [utf16Units, h1, h2, if_false, ih htl, List.length_cons]
    omega

/-- `columns_units`: under `AsciiBeforeHints` the byte columns the filter reports are the UTF-16 columns -/
theorem columns_units (pre : Bytes) (items : List Item) (ha : AsciiBeforeHints pre items) :
    mappings pre items = mappings16 pre items := by
  induction items generalizing pre with
  | nil => rfl
  | cons it tl ih =>
    cases it with
    | code c => exact ih (pre ++ c) ha
    | hint h =>
      obtain ⟨h1, h2⟩ := ha
      simp only [mappings, mappings16, ih pre h2, posOf]
      have : colOf pre = utf16Units (lastLine pre) := by
        rw [utf16Units_ascii _ h1]; simp [colOf, lastLine]
      rw [this]

/-- the hypothesis cannot be dropped: after the two bytes of U+00B7 the byte column is 2, the UTF-16 column 1 -/
theorem columns_units_needs_ascii : ¬ ∀ pre items, mappings pre items = mappings16 pre items := by
  intro h
  have := h [0xC2, 0xB7] [.hint []]
  revert this
  decide

/-! ### offsetting of prelude / .inc.js mappings -/

theorem colOf_append (pre x : Bytes) :
    colOf (pre ++ x) = if lineCount x = 0 then colOf pre + colOf x else colOf x := by
  induction x generalizing pre with
  | nil => simp [lineCount, colOf]
  | cons b tl ih =>
    have e1 : pre ++ b :: tl = (pre ++ [b]) ++ tl := by simp
    have e2 : b :: tl = [b] ++ tl := rfl
    have hl : lineCount (b :: tl) = (if b = 10 then 1 else 0) + lineCount tl := by
      unfold lineCount
      by_cases hb : b = 10 <;> simp [hb]; omega
    have h1 : colOf [b] = if b = 10 then 0 else 1 := by
      have := colOf_snoc [] b
      simpa [colOf] using this
    rw [e1, ih (pre ++ [b]), hl, colOf_snoc]
    have h2 := ih [b]
    rw [← e2] at h2
    rw [h2, h1]
    by_cases hb : b = 10 <;> by_cases h0 : lineCount tl = 0 <;> simp [hb, h0] <;> omega

/-- where text positions end up when a text `x` is appended to output `pre` (this is what makes `placeAt` the
    specification of the offsetting): lines shift by the lines of `pre`; the column shifts by the column of `pre`
    only while still on the first line of `x`. -/
theorem placeAt_correct (pre x : Bytes) : posOf (pre ++ x) = placeAt (posOf pre) (posOf x) := by
  have hl : lineCount (pre ++ x) = lineCount pre + lineCount x := by simp [lineCount, List.count_append]
  have hc := colOf_append pre x
  simp only [posOf, placeAt, hl, hc]
  refine Prod.ext (by simp; omega) ?_
  simp only
  by_cases h0 : lineCount x = 0
  · simp [h0]
  · have : ¬ (1 + lineCount x = 1) := by omega
    simp [h0]

/-- what the property demands of the JS offsetting: the mapping of an isolated file, whose text is written when the
    filter is in state `st`, must point at where that text really is -/
def offsetJSSpec (st : St) (m : JSMapping) : JSMapping :=
  let p := placeAt (st.line + 1, st.column) (m.genLine, m.genColumn)
  { m with genLine := p.1, genColumn := p.2 }

/-- full-strength statement (NOT claimed: false of the code as it is) -/
def offset_js_full : Prop := ∀ (st : St) (m : JSMapping), 1 ≤ m.genLine → offsetJS st m = offsetJSSpec st m

/-- witness: a mapping on the first line of an isolated JS file written at column 12 keeps its column -/
theorem offset_js_counterexample : ¬ offset_js_full := by
  intro h
  have := h ⟨1, 12⟩ ⟨1, 0, "helper.inc.js:1:0"⟩ (by decide)
  revert this
  decide

/-- `offset_js` (partial): the offsetting is right for every mapping that is not on the first line of the isolated
    file, and for all mappings when the JS text starts at column 0 (the situation of the prelude and of .inc.js
    files in non-minified builds). -/
theorem offset_js_partial (st : St) (m : JSMapping) (h1 : 1 ≤ m.genLine) (h : st.column = 0 ∨ m.genLine ≠ 1) :
    offsetJS st m = offsetJSSpec st m := by
  have hne : m.genLine ≠ 0 := by omega
  cases m with
  | mk l c o =>
    simp only [offsetJS, offsetJSSpec, placeAt] at *
    simp only [hne, if_false]
    rcases h with h | h
    · by_cases hl : l = 1
      · simp [hl, h]; omega
      · simp [hl]; omega
    · simp [h]; omega

example : ∃ st m, 1 ≤ m.genLine ∧ (st.column = 0 ∨ m.genLine ≠ 1) ∧ st.line = 7 ∧ (offsetJS st m).genLine = 10 :=
  ⟨⟨7, 0⟩, ⟨3, 4, "x"⟩, by decide, by decide, rfl, rfl⟩

/-- the line part of the offsetting is always right -/
theorem offset_js_line (st : St) (m : JSMapping) :
    (offsetJS st m).genLine = (offsetJSSpec st m).genLine := by
  simp only [offsetJS, offsetJSSpec, placeAt]; omega

/-! ### the pending position of a function context (compiler/utils.go:44-118) -/

/-- a pending position is written exactly once, immediately before the next bytes written (`Write`), and is no
    longer pending afterwards -/
theorem pending_flushed_by_write (pack : Nat → Bytes) (c : Ctx) (p : Nat) (b : Bytes) :
    ((c.setPos p).write pack b).output = c.output ++ enc (pack p) ++ b ∧
    ((c.setPos p).write pack b).posAvail = false := by
  simp [Ctx.setPos, Ctx.write, Ctx.writePos]

/-- without a pending position `Write` appends the bytes and nothing else -/
theorem write_without_pending (pack : Nat → Bytes) (c : Ctx) (b : Bytes) (h : c.posAvail = false) :
    (c.write pack b).output = c.output ++ b ∧ (c.write pack b).posAvail = false := by
  simp [Ctx.write, Ctx.writePos, h]

/-- of several positions set without output in between only the last one is written -/
theorem setPos_last_wins (pack : Nat → Bytes) (c : Ctx) (p q : Nat) (b : Bytes) :
    (((c.setPos p).setPos q).write pack b).output = c.output ++ enc (pack q) ++ b := by
  simp [Ctx.setPos, Ctx.write, Ctx.writePos]

/-- full-strength statement about the pending position (NOT claimed: false of the code as it is): every position
    handed to `SetPos` before some output is written into the buffer as a hint. -/
def every_setpos_reported : Prop :=
  ∀ (pack : Nat → Bytes) (c : Ctx) (p q : Nat) (b : Bytes),
    ∃ pre post, (((c.setPos p).setPos q).write pack b).output = pre ++ enc (pack p) ++ post

/-- witness: a second `SetPos` before any output replaces the first (this is how `if` statements lose their position:
    translateStmt sets it, translateBranchingStmt sets `clause.Pos()` = NoPos of the synthetic clause right after). -/
theorem every_setpos_reported_counterexample : ¬ every_setpos_reported := by
  intro h
  obtain ⟨pre, post, h⟩ := h (fun n => [n]) Ctx.empty 1 0 []
  rw [setPos_last_wins] at h
  simp only [Ctx.empty, enc, List.nil_append, List.append_nil, List.length_cons, List.length_nil] at h
  have hl := congrArg List.length h
  simp only [List.length_cons, List.length_nil, List.length_append] at hl
  have hpre : pre = [] := List.eq_nil_of_length_eq_zero (by omega)
  have hpost : post = [] := List.eq_nil_of_length_eq_zero (by omega)
  subst hpre hpost
  simp at h

/-- `Printf` with a pending position: the hint comes first, BEFORE the indentation of the line (so the generated
    column of a statement in non-minified output is the start of the line, its code follows after the tabs) -/
theorem printf_hint_first (pack : Nat → Bytes) (c : Ctx) (p : Nat) (s : Bytes) :
    ((c.setPos p).printf pack s).output =
      c.output ++ enc (pack p) ++ List.replicate c.indent 9 ++ s ++ [nl] ++ c.delayed ∧
    ((c.setPos p).printf pack s).posAvail = false := by
  simp [Ctx.setPos, Ctx.printf, Ctx.write, Ctx.writePos]

/-- `CatchOutput`: the enclosing buffer is restored untouched and no position stays pending: a position still
    pending at the end of the callback is flushed into the caught bytes -/
theorem catch_restores (pack : Nat → Bytes) (c : Ctx) (caps : List Bytes) (k : Nat) (body : List Op) :
    (Ctx.step pack c caps (.catch k body)).1.output = c.output ∧
    (Ctx.step pack c caps (.catch k body)).1.posAvail = false := by
  simp only [Ctx.step, Ctx.writePos]
  constructor
  · trivial
  · split <;> simp_all

/-- end to end for one statement: if the buffer so far is the rendering of well-formed items and a position `p` is
    pending, then after writing the statement's code (free of the magic byte) the filter reports, as the LAST mapping,
    the payload of `p` at exactly the position where the first byte of that code stands in the filtered output. -/
theorem stmt_position_exact (pack : Nat → Bytes) (c : Ctx) (items : List Item) (wf : WFs items)
    (hout : c.output = render items) (p : Nat) (hp : (pack p).length ≤ 0xFFFF)
    (code : Bytes) (hcode : ∀ b ∈ code, b ≠ magic) :
    let out := ((c.setPos p).write pack code).output
    (write init out).out = codeBytes items ++ code ∧
    (write init out).maps = (mappings [] items).map toMapping ++
      [⟨(posOf (codeBytes items)).1, (posOf (codeBytes items)).2, pack p⟩] := by
  have hr : ((c.setPos p).write pack code).output = render (items ++ [.hint (pack p), .code code]) := by
    rw [(pending_flushed_by_write pack c p code).1, hout, render_append]
    simp [render]
  have wf2 : WFs (items ++ [.hint (pack p), .code code]) := by
    intro it hit
    simp only [List.mem_append, List.mem_cons, List.not_mem_nil, or_false] at hit
    rcases hit with h | rfl | rfl
    · exact wf it h
    · exact hp
    · exact hcode
  have hm : ∀ (pre : Bytes) (its : List Item), mappings pre (its ++ [.hint (pack p), .code code]) =
      mappings pre its ++ [((posOf (pre ++ codeBytes its)).1, (posOf (pre ++ codeBytes its)).2, pack p)] := by
    intro pre its
    induction its generalizing pre with
    | nil => simp [mappings, codeBytes]
    | cons it tl ih =>
      cases it with
      | code cc => simp only [List.cons_append, mappings, codeBytes, ih, List.append_assoc]
      | hint hh => simp only [List.cons_append, mappings, codeBytes, ih]
  simp only [hr]
  rw [init_is_empty, write_render' _ wf2, modelMaps_stOf, hm]
  simp [codeBytes_append, codeBytes, toMapping]

end GV.Props.C19
