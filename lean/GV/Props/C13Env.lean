import GV.Props.C13
import GV.Generated.CaseRanges

/-!
  C13 — obligations over facts re-extracted on every run: GV/Generated/CaseRanges.lean is written by checks/c13.py
  from `unicode.CaseRanges` / `unicode.TurkishCase` of the GOROOT the compiler builds against (dumped by the harness
  binary gvh_c13). `to_eq_scan` needs the table to be sorted and non-overlapping; that is decided here for the real
  tables, together with the constants the model hard-codes.
-/
namespace GV.Props.C13
open GV.CaseMap

theorem case_ranges_sorted : Sorted GV.Generated.caseRanges := (sortedB_iff _).mp (by decide +kernel)

theorem turkish_case_sorted : Sorted GV.Generated.turkishCase := (sortedB_iff _).mp (by decide)

/-- the constants of package unicode the model hard-codes -/
theorem unicode_constants :
    GV.Generated.maxRune = MaxRune ∧ GV.Generated.upperLower = UpperLower ∧ GV.Generated.maxCase = MaxCase ∧
    GV.Generated.replacementChar = ReplacementChar := by decide

/-- every range lies within the rune space (so `rune(cr.Lo)`, `rune(cr.Hi)` do not wrap) -/
theorem case_ranges_in_rune_space :
    (GV.Generated.caseRanges ++ GV.Generated.turkishCase).all (fun cr => decide ((cr.hi : Int) ≤ MaxRune)) = true := by decide +kernel

/-- on the real tables the override's binary search is the linear scan, for every rune and case -/
theorem real_to_eq_scan (c r : Int) :
    to c r GV.Generated.caseRanges.toArray = toSpec c r GV.Generated.caseRanges :=
  to_eq_scan GV.Generated.caseRanges.toArray (by simpa using case_ranges_sorted) c r

theorem real_turkish_eq_scan (c r : Int) :
    to c r GV.Generated.turkishCase.toArray = toSpec c r GV.Generated.turkishCase :=
  to_eq_scan GV.Generated.turkishCase.toArray (by simpa using turkish_case_sorted) c r

end GV.Props.C13
