import GV.Model.Augment
import GV.Spec.Augment

namespace GV.Props.C12
open GV.Augment

theorem get_erase_self {β : Type} (k : String) (m : List (String × β)) : GV.Augment.get k (erase k m) = none := by
  unfold GV.Augment.get erase
  induction m with
  | nil => rfl
  | cons p m ih =>
    simp only [List.filter]
    split
    · rename_i h
      simp only [List.find?]
      have : (p.1 == k) = false := by simpa using h
      simp only [this]
      exact ih
    · exact ih

/-- `delete(overrides, "init")` (build.go:182): whatever the overlays declare, `init` is not in the table -/
theorem init_never_overridden (overlays : List File) : GV.Augment.get "init" (overridesOf overlays) = none := by
  unfold overridesOf
  exact get_erase_self _ _

end GV.Props.C12
