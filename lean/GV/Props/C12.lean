import GV.Proofs.Augment
import GV.Proofs.AugmentOrig
import GV.Proofs.AugmentOverlay

/-
  C12 — standard-library overlays merge exactly as the directives say.

  Model: `GV.Augment` (GV/Model/Augment.lean), a transcription of build.go:170-597.
  Specification: `GV.Spec.Augment` (doc/pargma.md + build.go:149-169 + the property statement).
  All theorems quantify over ALL file lists (no bound); `fileNoNil` = "the file came out of the parser"
  (no nil slots), which is the only hypothesis on the original files.
-/
namespace GV.Props.C12
open GV.Augment GV.Spec.Augment

/-- what a result file declares: entries in order, blank names dropped, constant values erased -/
def declared (f : File) : List Entry := ((entries f).filter notBlank).map noVal

/-- what a result file declares, with the constant values -/
def declaredV (f : File) : List Entry := (entries f).filter notBlank

/-! ### `init` is never overridden -/

/-- `delete(overrides, "init")` (build.go:182): whatever the overlays declare, `init` is not in the table -/
theorem init_never_overridden (overlays : List File) :
    GV.Augment.get "init" (overridesOf overlays) = none := by
  unfold overridesOf
  exact get_erase_self _ _

/-- hence an original `func init()` is left alone (not removed, not renamed, no change flagged) -/
theorem init_function_kept (overlays : List File) (fn : Func) (hn : fn.name = "init") (hr : fn.sig.recvKey = "") :
    origDecl (overridesOf overlays) (some (.func fn)) = (some (.func fn), false) := by
  have hk : funcKey fn = "init" := by simp [funcKey, hr, hn]
  simp [origDecl, hk, init_never_overridden, hr]

/-- A method key is never the key `init`: `FuncKey` of a method is `<recv>.<name>` (astutil.go:102-107). -/
theorem funcKey_method_ne_init (fn : Func) (h : fn.sig.recvKey ≠ "") : funcKey fn ≠ "init" := by
  intro hk
  simp only [funcKey, h, ne_eq, not_false_eq_true, if_true] at hk
  have hl := congrArg String.toList hk
  simp only [String.toList_append] at hl
  have hmem : '.' ∈ "init".toList := by
    rw [← hl]; simp
  revert hmem
  decide

/-- The `init` exception concerns the FuncKey `init` (package-level `func init()`) ONLY. A METHOD named `init`
(key `T.init`) is an ordinary method: the table holds for it exactly what the last overlay declaration of
`T.init` says — plain replacement, keep-original and override-signature all apply. -/
theorem method_named_init_overridable (overlays : List File) (fn : Func) (h : fn.sig.recvKey ≠ "") :
    GV.Augment.get (funcKey fn) (overridesOf overlays)
      = ((overlayRules overlays).reverse.find? (fun p => p.1 == funcKey fn)).map (fun p => toInfo p.2) := by
  have hk := funcKey_method_ne_init fn h
  rw [overrides_agree overlays (funcKey fn)]
  have : (funcKey fn == "init") = false := by simpa using hk
  simp only [ruleFor, this, Bool.false_eq_true, if_false, Option.map_map]
  rfl

/-- overlay `func (t *T) init() {…}` (no directive) -/
def initMethodOverlay : File :=
  { doc := [], comments := [], decls := [some (.func
      { id := 1, name := "init", dirs := [], doc := [], sig := ⟨2, "T", [], []⟩, bsels := [], bcms := [] })] }

/-- original `func (t T) init() {…}` -/
def initMethodOriginal : Func :=
  { id := 3, name := "init", dirs := [], doc := [], sig := ⟨4, "T", [], []⟩, bsels := [], bcms := [] }

/-- concrete instance: the overlay's method `T.init` is in the table and the original `T.init` is removed,
while an original package-level `func init()` in the same package stays -/
example : GV.Augment.get "T.init" (overridesOf [initMethodOverlay]) = some {} ∧
    origDecl (overridesOf [initMethodOverlay]) (some (.func initMethodOriginal)) = (none, true) ∧
    origDecl (overridesOf [initMethodOverlay])
      (some (.func { initMethodOriginal with sig := ⟨4, "", [], []⟩ }))
      = (some (.func { initMethodOriginal with sig := ⟨4, "", [], []⟩ }), false) := by decide

/-! ### names, provenance, order -/

/-- The override table built by the code = the documented rules (last overlay declaration of a name wins,
`init` excluded). -/
theorem overrides_table (overlays : List File) : Agree (overridesOf overlays) (overlayRules overlays) :=
  overrides_agree overlays

/-- **merge_names**: for every import path and all overlay / original files, the declarations of the merged
package (per file, in order, with the identity of the declaring node, the signature identity of functions and
the initialiser identity of variables) are exactly: the overlay declarations that are not purged and not
`override-signature` carriers, then for each original file its declarations whose name the overlay does not
declare, `_gopherjs_original_f` for `keep-original` functions, the original body under the overlay's signature
for `override-signature`, minus the methods of purged types that the overlay does not declare — nothing else. -/
theorem merge_names (ip : String) (overlays originals : List File)
    (ho : ∀ f ∈ originals, fileNoNil f = true) :
    (merge ip overlays originals).1.map declared = (expected overlays originals).map (·.map noVal) := by
  rw [merge_fst, collectOverlays_snd]
  simp only [expected, List.map_append, List.map_map]
  congr 1
  · apply List.map_congr_left
    intro f _
    exact overlay_entries [] f
  · apply List.map_congr_left
    intro f hf
    simp only [Function.comp, declared]
    rw [original_entries _ _ (overrides_agree overlays) _
      (by rw [fileNoNil_augmentOriginalImports]; exact ho f hf)]
    rw [expectedOriginal_augmentOriginalImports]

/-- **order_preserved**: the surviving declarations of an original file are a sublist, in the original order,
of its declarations (identity of the declaring nodes). -/
theorem order_preserved (ip : String) (overlays : List File) (f : File) (hf : fileNoNil f = true) :
    ((declared (augmentOriginalFile (overridesOf overlays) (augmentOriginalImports ip f))).map (·.id)).Sublist
      ((entries f).map (·.id)) := by
  have h := original_entries _ _ (overrides_agree overlays) (augmentOriginalImports ip f)
    (by rw [fileNoNil_augmentOriginalImports]; exact hf)
  unfold declared
  rw [h, expectedOriginal_augmentOriginalImports]
  have hid : ((expectedOriginal (overlayRules overlays) f).map noVal).map (·.id)
      = (expectedOriginal (overlayRules overlays) f).map (·.id) := by
    simp [List.map_map, Function.comp, noVal]
  rw [hid]
  exact expectedOriginal_ids_sublist _ _

/-- **values_untouched** (variables): a variable that survives in an original file is the same declaration
with the same initialiser (same expression in the multi-value context, same result index of the same call in
the single-call context). -/
theorem values_untouched (ip : String) (overlays : List File) (f : File) (hf : fileNoNil f = true) :
    ∀ e ∈ entries (augmentOriginalFile (overridesOf overlays) (augmentOriginalImports ip f)),
      e.kind = Kind.var → e.name ≠ "_" → e ∈ entries f := by
  intro e he hk hn
  have h := original_entries _ _ (overrides_agree overlays) (augmentOriginalImports ip f)
    (by rw [fileNoNil_augmentOriginalImports]; exact hf)
  rw [expectedOriginal_augmentOriginalImports] at h
  have hmem : noVal e ∈ ((entries (augmentOriginalFile (overridesOf overlays)
      (augmentOriginalImports ip f))).filter notBlank).map noVal := by
    apply List.mem_map_of_mem
    simp [List.mem_filter, he, notBlank, hn]
  rw [h] at hmem
  obtain ⟨e', he', heq⟩ := List.mem_map.mp hmem
  have hk' : e'.kind = Kind.var := by
    have : (noVal e').kind = (noVal e).kind := by rw [heq]
    simpa [noVal, hk] using this
  have hin : e' ∈ entries f := expectedOriginal_nonfunc_mem _ _ e' he' (by simp [hk'])
  have h1 : noVal e' = e' := var_entries_noVal f e' hin (by simp [hk'])
  have h2 : noVal e = e := var_entries_noVal _ e he (by simp [hk])
  have : e = e' := by rw [← h1, ← h2, heq]
  rw [this]; exact hin

/-! ### constants: the full statement is false today -/

/-- Full-strength statement (NOT claimed): the merged package declares the expected entries *with the
constant values the constants had in their original declaration*. -/
def ConstValuesUntouched : Prop :=
  ∀ (ip : String) (overlays originals : List File), (∀ f ∈ originals, fileNoNil f = true) →
    (merge ip overlays originals).1.map declaredV = expected overlays originals

def nm (id : Nat) (n : String) : Option Name := some ⟨id, n⟩
def lit (id a b : Nat) : Option Val := some ⟨id, a, b, []⟩

/-- original `const ( A = iota * 10; B; C; D )` -/
def witnessOriginal : File :=
  { doc := [], comments := [], decls := [some (.gen .const [] [] [
      some (.value [nm 1 "A"] [lit 2 10 0] [] [] []),
      some (.value [nm 3 "B"] [] [] [] []),
      some (.value [nm 4 "C"] [] [] [] []),
      some (.value [nm 5 "D"] [] [] [] [])])] }

/-- overlay `const B = 1000` -/
def witnessOverlay : File :=
  { doc := [], comments := [], decls := [some (.gen .const [] [] [some (.value [nm 6 "B"] [lit 7 0 1000] [] [] [])])] }

/-- the model reproduces the defect: after the merge `C = 10`, `D = 20` -/
theorem witness_model_values :
    ((merge "p" [witnessOverlay] [witnessOriginal]).1.flatMap declaredV).map (fun e => (e.name, e.cval))
      = [("B", some 1000), ("A", some 0), ("C", some 10), ("D", some 20)] := by decide

/-- the specification demands `C = 20`, `D = 30` -/
theorem witness_spec_values :
    ((expected [witnessOverlay] [witnessOriginal]).flatten).map (fun e => (e.name, e.cval))
      = [("B", some 1000), ("A", some 0), ("C", some 20), ("D", some 30)] := by decide

/-- **counterexample**: overriding one spec of an `iota` group shifts the later constants (build.go:403-429,
543-580 delete the spec). -/
theorem const_values_counterexample : ¬ ConstValuesUntouched := by
  intro h
  have := h "p" [witnessOverlay] [witnessOriginal] (by decide)
  revert this
  decide

/-- original `const ( A = 5; B; C )`, overlay `const A = 1` -/
def witnessFirstOriginal : File :=
  { doc := [], comments := [], decls := [some (.gen .const [] [] [
      some (.value [nm 1 "A"] [lit 2 0 5] [] [] []),
      some (.value [nm 3 "B"] [] [] [] []),
      some (.value [nm 4 "C"] [] [] [] [])])] }

def witnessFirstOverlay : File :=
  { doc := [], comments := [], decls := [some (.gen .const [] [] [some (.value [nm 6 "A"] [lit 7 0 1] [] [] [])])] }

/-- second witness: when the spec carrying the expression list is overridden, the following
implicit-repetition specs are left without an initialiser (`none` = go/types "missing init expr") -/
theorem const_orphaned_counterexample :
    ((merge "p" [witnessFirstOverlay] [witnessFirstOriginal]).1.flatMap declaredV).map (fun e => (e.name, e.cval))
      = [("A", some 1), ("B", none), ("C", none)]
    ∧ ((expected [witnessFirstOverlay] [witnessFirstOriginal]).flatten).map (fun e => (e.name, e.cval))
      = [("A", some 1), ("B", some 5), ("C", some 5)] := by decide

/-- every const group of the file carries its own, `iota`-free expressions (no implicit repetition) -/
def ConstGroupsSelfContained (f : File) : Prop :=
  ∀ dirs doc specs, some (Decl.gen Tok.const dirs doc specs) ∈ f.decls → ∀ s ∈ specs.filterMap id, s.iotaFree

/-- **values_untouched_const_partial**: for original files whose const groups have no `iota` and no implicit
repetition, the merged file declares exactly the expected entries WITH their constant values. -/
theorem values_untouched_const_partial (ip : String) (overlays : List File) (f : File)
    (hf : fileNoNil f = true) (hc : ConstGroupsSelfContained (augmentOriginalImports ip f)) :
    declaredV (augmentOriginalFile (overridesOf overlays) (augmentOriginalImports ip f))
      = expectedOriginal (overlayRules overlays) f := by
  unfold declaredV
  rw [original_entries_exact _ _ (overrides_agree overlays) _
    (by rw [fileNoNil_augmentOriginalImports]; exact hf) hc]
  exact expectedOriginal_augmentOriginalImports _ _ _

/-- the hypothesis is satisfiable by a non-trivial file: `const ( X = 1; Y = 2 )` with `Y` overridden -/
example : ∃ f : File, fileNoNil f = true ∧ ConstGroupsSelfContained f ∧
    (entries (augmentOriginalFile [("Y", {})] f)).map (·.name) = ["X"] := by
  refine ⟨{ doc := [], comments := [], decls := [some (.gen .const [] [] [
      some (.value [nm 1 "X"] [lit 2 0 1] [] [] []),
      some (.value [nm 3 "Y"] [lit 4 0 2] [] [] [])])] }, by decide, ?_, by decide⟩
  intro dirs doc specs hmem s hs
  simp only [List.mem_cons, List.mem_nil_iff, or_false] at hmem
  injection hmem with hmem
  injection hmem with _ _ _ hspecs
  subst hspecs
  simp only [List.filterMap, id, List.mem_cons, List.mem_nil_iff, or_false] at hs
  rcases hs with rfl | rfl <;> simp [Spec.iotaFree, nm, lit]

/-- **values_untouched_const_partial**, group-level and sharper: in ONE const group `pre ++ post`, if no name
of the prefix `pre` is overridden and every spec of the suffix `post` (from the first touched spec on) carries
its own `iota`-free expressions, the surviving constants keep exactly their values — `iota` and implicit
repetition inside the untouched prefix are fine. -/
theorem values_untouched_const_group (ov : Overrides) (dirs : List String) (doc : List Cm)
    (pre post : List (Option Spec))
    (hd : declNoNil (some (.gen Tok.const dirs doc (pre ++ post))) = true)
    (hpre : ∀ s ∈ pre, ∀ names values d t c, s = some (Spec.value names values d t c) →
      ∀ n ∈ names.filterMap id, has n.n ov = false)
    (hi : ∀ s ∈ post.filterMap id, s.iotaFree) :
    (optDeclEntries (origDecl ov (some (.gen Tok.const dirs doc (pre ++ post)))).1).filter notBlank
      = (Decl.entries (.gen Tok.const dirs doc (pre ++ post))).filter (fun e => !(has e.name ov) && notBlank e) :=
  origDecl_const_prefix ov dirs doc pre post hd hpre hi

/-! ### imports -/

/-- what `pruneImports` must do with one import of a file -/
def importRule (f : File) (i : ImportSpec) : Option ImportSpec :=
  if importName i = "" ∨ importName i ∈ fileSels f then some i
  else if isDirectiveImport f i then some { i with name := some "_" } else none

/-- **imports_pruned**: a file left with only imports and no `//go:linkname` directive is emptied; otherwise an
import survives iff it is blank or dot (or unnameable), or its name is the base of a remaining selector
expression whose base does not resolve to a file-local object (`fileSels`: a local variable, parameter, receiver,
field or same-file declaration spelled like the import does NOT keep it alive — input contract of the model), or it is
`unsafe` / `embed` with a matching `//go:linkname ` / `//go:embed ` directive in the file (then renamed `_`).
Hypotheses: import names of the file are pairwise distinct (Go requires it) and import specs are distinct
nodes. The package name of an import is guessed as in build.go:463-469 (`importName`). -/
theorem imports_pruned (f : File)
    (hNames : (((importsOf f).map importName).filter (· ≠ "")).Nodup)
    (hIds : ((importsOf f).map (·.id)).Nodup) :
    importsOf (pruneImports f) =
      if (isOnlyImports f && !hasLinkname f) = true then [] else (importsOf f).filterMap (importRule f) := by
  split
  · rename_i h; exact importsOf_pruneImports_only f h
  · rename_i h
    have h' : (isOnlyImports f && !hasLinkname f) = false := by simpa using h
    exact importsOf_pruneImports f hNames hIds h'

/-- pruning imports never touches a declaration -/
theorem imports_pruned_keeps_declarations (f : File) : entries (pruneImports f) = entries f :=
  entries_pruneImports f

/-- `sync` → `nosync` exactly for the listed packages, keeping the name `sync` -/
theorem nosync_substitution (ip : String) (f : File) :
    importsOf (augmentOriginalImports ip f) =
      if nosyncPackages.contains ip then
        (importsOf f).map fun i =>
          if i.path == "sync" then { i with name := some (i.name.getD "sync"), path := nosyncPath } else i
      else importsOf f := by
  unfold augmentOriginalImports
  split
  · rw [importsOf_mapImports]
    induction importsOf f with
    | nil => rfl
    | cons i l ih =>
      by_cases hp : (i.path == "sync") = true
      · simp only [List.filterMap_cons, List.map_cons, hp, if_true]
        exact congrArg _ ih
      · simp only [List.filterMap_cons, List.map_cons, hp]
        exact congrArg _ ih
  · rfl

end GV.Props.C12
