/-
  GV.Props.C02 — suspending and resuming a goroutine is invisible to the program.

  Models: `GV.Model.Ctrl` (MiniGo + reference semantics), `GV.Model.Flat` (`flatten`, the switch-case machine with
  and without suspension), `GV.Model.Blocking` (propagation loop of `PropagateAnalysis`).
  All theorems quantify over every program of the modelled fragment (if / else-if chains, `for` with optional
  condition and post statement, labelled and unlabelled break / continue, switch, return, blocks, calls), every
  interpretation of the opaque primitives, every store and every suspension schedule; no `sorry`, no axioms beyond
  the standard three.  Not modelled: `goto`, deferred calls, expression-level flattening (`&&`, `||`, argument order).
-/
import GV.Model.Ctrl
import GV.Model.Flat
import GV.Model.Blocking
import GV.Proofs.Blocking
import GV.Proofs.FlatCorrect
import GV.Proofs.FlatLabels
import GV.Proofs.Segment
import GV.Proofs.FlatTop
import GV.Proofs.RunF
import GV.Model.RetDefer
import GV.Proofs.RetDefer
import GV.Proofs.AndOr
import GV.Model.Escape

namespace GV.Props.C02
open GV.Ctrl GV.Flat GV.Blocking GV.RetDefer

/-! ### Blocking analysis -/

/-- **propagate_lfp** — for EVERY visiting order of the pending call edges (package order, function order, Go map
    iteration order; fresh for each pass), the set computed by the propagation loop of `PropagateAnalysis`
    is the least set that contains the intrinsic marks and is closed under "calls a blocking callee". -/
theorem propagate_lfp (g : Graph) (ord : Nat → List Edge → List Edge) (hperm : ∀ i p, (ord i p).Perm p) :
    (∀ v, v ∈ blocking ord g ↔ Reach g v) ∧
    Closed g (fun v => v ∈ blocking ord g) ∧
    (∀ S : Nat → Prop, Closed g S → ∀ v, v ∈ blocking ord g → S v) := by
  have inv : Inv g g.intrinsic g.edges :=
    ⟨fun v hv => Reach.base hv, fun v hv => hv, fun e he => he, fun e he => .inl he⟩
  have h := propagate_spec g ord hperm (g.edges.length + 1) 0 g.intrinsic g.edges inv (Nat.lt_succ_self _)
  obtain ⟨h1, h2, h3⟩ := h
  have cl : Closed g (fun v => v ∈ blocking ord g) := ⟨h2, h3⟩
  refine ⟨fun v => ⟨h1 v, fun hr => reach_least g _ cl v hr⟩, cl, ?_⟩
  intro S hS v hv
  exact reach_least g S hS v (h1 v hv)

/-- order independence as a corollary -/
theorem propagate_order_irrelevant (g : Graph) (o1 o2 : Nat → List Edge → List Edge)
    (h1 : ∀ i p, (o1 i p).Perm p) (h2 : ∀ i p, (o2 i p).Perm p) :
    ∀ v, v ∈ blocking o1 g ↔ v ∈ blocking o2 g := by
  intro v
  rw [(propagate_lfp g o1 h1).1 v, (propagate_lfp g o2 h2).1 v]

/-- **stops_early_underapprox** — ANY iteration scheme whose marks are sound (only functions that can really block) but
    which stops at a set that is not closed under "calls a blocking callee" misses a function that can block: the least
    fixed point over the WHOLE program is the only sound stopping point. -/
theorem stops_early_underapprox (g : Graph) (S : Nat → Prop) (hsound : ∀ v, S v → Reach g v)
    (hnot : ¬ Closed g S) : ∃ v, Reach g v ∧ ¬ S v := by
  apply Classical.byContradiction
  intro hno
  apply hnot
  have hall : ∀ v, Reach g v → S v := by
    intro v hv
    apply Classical.byContradiction
    intro hs
    exact hno ⟨v, hv, hs⟩
  exact ⟨fun v hv => hall v (Reach.base hv), fun a b hab hb => hall a (Reach.step hab (hsound b hb))⟩

/-- the seeded scenario: package 0 = main (imports lib), package 1 = lib; function 0 = yield (blocks intrinsically),
    1 = checkpoint, 2 = (*W).Step — all in main, declared callers first —, 3 = the instance lib.Apply[*main.W], analysed
    in lib, calling Step through its type parameter -/
def seededGraph : PGraph :=
  { g := ⟨[0], [(2, 1), (1, 0), (3, 2)]⟩
    pkg := fun f => if f = 3 then 1 else 0
    imports := fun p q => p == 0 && q == 1 }

/-- **partial_iteration_unsound** — the scheme that revisits only changed packages and their importers stops before the
    global fixed point: on the seeded scenario it never revisits `lib`, so the instance (3) is not marked although it
    reaches the suspending function; the real loop (every visiting order) marks it. -/
theorem partial_iteration_unsound :
    Reach seededGraph.g 3 ∧ 3 ∉ blockingDep seededGraph ∧ 3 ∈ blocking idOrd seededGraph.g ∧
    ¬ Closed seededGraph.g (fun v => v ∈ blockingDep seededGraph) := by
  refine ⟨?_, by decide, by decide, ?_⟩
  · exact .step (b := 2) (by decide) (.step (b := 1) (by decide) (.step (b := 0) (by decide) (.base (by decide))))
  · intro h
    have := h.2 3 2 (by decide) (by decide)
    revert this
    decide

/-! ### Flattening -/

/-- **flatten_labels_nodup** — `caseCounter` never hands out a case number twice: the labels of the flattened code of
    ANY function body are pairwise distinct (so `switch ($s)` has exactly one landing point per `$s`). -/
theorem flatten_labels_nodup (body : Stmt) : (labels (flatten body)).Nodup :=
  flatten_labels_nodup_aux body

/-- **block_compile** (decomposition step 1) — the block-compilation lemma for the switch-case machine WITHOUT
    suspension: wherever the flattened code of a statement `s` sits inside a code list with distinct labels, running it
    from a store `st` in which the reference semantics gives `(g, st')` reaches exactly the continuation the completion
    signal `g` selects (`K`: fall through / `$s = endCase` / post statement and `$s = beginCase` / function return). -/
theorem block_compile (E : Env σ) (code : List Instr) (hnd : (labels code).Nodup)
    {s : Stmt} {st : σ} {g : Sig} {st' : σ} (hev : Eval E s st g st')
    (ctx : Ctx) (n : Nat) (pre k : List Instr) (o : σ)
    (hcode : code = pre ++ ((flat ctx s n).1 ++ k)) (hk : K E code ctx k o g st') :
    Exec E code ((flat ctx s n).1 ++ k) st o :=
  (block_both E code hnd hev).1 ctx n pre k o hcode hk

/-- **segmentation** (decomposition step 2) — suspending at a `case N:` boundary (save `$f`, return, `$restore`,
    re-enter through `switch ($s)`, possibly many times for one call) is the identity on (store, `$s`, `$r`):
    whatever the machine without suspension computes from a code suffix, the machine under ANY schedule computes too,
    provided the primitives keep the store inside the saved part (`EnvStable`, see `saved_complete`). -/
theorem segmentation (E : Env σ) (forget : σ → σ) (sched : Nat → Nat → σ → Nat) (code : List Instr)
    (hnd : (labels code).Nodup) (hE : EnvStable E forget)
    {suf : List Instr} {st o : σ} (h : Exec E code suf st o) (hsuf : ∃ pr, code = pr ++ suf)
    (hst : forget st = st) (k : Nat) : RunS E forget sched code suf st none false k o :=
  segmentation_aux E forget sched code hnd hE h hsuf hst k

/-- **flatten_correct** — for every function body, every interpretation of the primitives, every initial store and
    EVERY schedule (any subset of the dynamic call occurrences suspends, each any number of times), running
    `flatten body` with save/restore of the frame ends in exactly the final store (which includes the output trace
    and the result variables) of the reference semantics of `body`. -/
theorem flatten_correct (E : Env σ) (forget : σ → σ) (hE : EnvStable E forget) (sched : Nat → Nat → σ → Nat)
    (body : Stmt) {st : σ} {g : Sig} {st' : σ} (hev : Eval E body st g st') (hg : g = .normal ∨ g = .ret)
    (hst : forget st = st) :
    RunS E forget sched (flatten body) (flatten body) st none false 0 st' :=
  segmentation E forget sched (flatten body) (flatten_labels_nodup body) hE
    (flatten_exec E body (flatten_labels_nodup body) hev hg) ⟨[], rfl⟩ hst 0

/-- **machine_exec_sound** — the executable machine the driver runs (`runF`, fuel-indexed) only produces runs of the
    relational machine `RunS` the theorems are about. -/
theorem machine_exec_sound (E : Env σ) (forget : σ → σ) (sched : Nat → Nat → σ → Nat) (code : List Instr)
    (fuel : Nat) (suf : List Instr) (st : σ) (r : Option (Nat × Nat)) (c : Bool) (k ns : Nat) (o : σ) (k' ns' : Nat)
    (h : runF E forget sched code fuel suf st r c k ns = some (o, k', ns')) :
    RunS E forget sched code suf st r c k o :=
  runF_sound E forget sched code fuel suf st r c k ns o k' ns' h

/-- **interp_sound** — the fuel-indexed reference interpreter the driver runs only produces derivable results. -/
theorem interp_sound (E : Env σ) (fuel : Nat) (s : Stmt) (st : σ) (g : Sig) (st' : σ)
    (h : evalF E fuel s st = some (g, st')) : Eval E s st g st' :=
  evalF_sound E fuel s st g st' h

/-- **erase_correct** — P versus P′: inserting calls that do not change the store (the `yield(site)` statements and the
    yields inside leaf callees) does not change the reference semantics; so "P′ under every schedule = P" follows
    from `flatten_correct` applied to P′. -/
theorem erase_correct (E : Env σ) (isY : Nat → Bool) (hY : ∀ f st, isY f = true → E.call f st = st)
    {s : Stmt} {st : σ} {g : Sig} {st' : σ} (h : Eval E s st g st') : Eval E (eraseCalls isY s) st g st' :=
  eval_erase E isY hY h

/-! ### The saved frame -/

/-- concrete store: the locals of this invocation and everything else (heap, globals, output trace) -/
structure LStore (G : Type) where
  loc : Nat → Nat
  glob : G

/-- save `$f = {…saved…}` / `$restore`: a local that is not in the saved list comes back undefined (0) -/
def forgetVars (saved : List Nat) (s : LStore G) : LStore G :=
  { s with loc := fun v => if v ∈ saved then s.loc v else 0 }

/-- the primitives of the function assign only locals in `W` (`fc.localVars`: every JS variable the translation of the
    function allocates with `newVariable`, utils.go:284-327) -/
structure WritesOnly (E : Env (LStore G)) (W : List Nat) : Prop where
  act : ∀ a s v, v ∉ W → (E.act a s).loc v = s.loc v
  cond : ∀ c s v, v ∉ W → (E.cond c s).2.loc v = s.loc v
  call : ∀ f s v, v ∉ W → (E.call f s).loc v = s.loc v

/-- the saved list of the model: parameters and every allocated local (functions.go:288-304) -/
def savedVars (params W : List Nat) : List Nat := params ++ W

theorem forgetVars_fix {saved : List Nat} {s : LStore G} :
    forgetVars saved s = s ↔ ∀ v, v ∉ saved → s.loc v = 0 := by
  constructor
  · intro h v hv
    have : (forgetVars saved s).loc v = s.loc v := by rw [h]
    simp only [forgetVars, hv, if_false] at this
    exact this.symm
  · intro h
    cases s with
    | mk loc glob =>
      simp only [forgetVars, LStore.mk.injEq, and_true]
      funext v
      by_cases hv : v ∈ saved
      · simp [hv]
      · simp only [hv, if_false]; exact (h v hv).symm

/-- **saved_complete** — every variable assigned in the function is in the saved set, hence the store stays inside
    the part that survives a save/restore round trip (the hypothesis of `segmentation`). -/
theorem saved_complete (E : Env (LStore G)) (params W : List Nat) (hW : WritesOnly E W) :
    (∀ v, v ∈ W → v ∈ savedVars params W) ∧ EnvStable E (forgetVars (savedVars params W)) := by
  refine ⟨fun v hv => List.mem_append_right _ hv, ?_⟩
  have key : ∀ (s s' : LStore G), (∀ v, v ∉ W → s'.loc v = s.loc v) →
      forgetVars (savedVars params W) s = s → forgetVars (savedVars params W) s' = s' := by
    intro s s' hw hs
    rw [forgetVars_fix] at hs ⊢
    intro v hv
    have hvW : v ∉ W := fun h => hv (List.mem_append_right _ h)
    rw [hw v hvW]; exact hs v hv
  exact ⟨fun a s hs => key s _ (hW.act a s) hs, fun c s hs => key s _ (hW.cond c s) hs,
    fun f s hs => key s _ (hW.call f s) hs⟩

/-- **flatten_correct_frame** — `flatten_correct` for the concrete frame: locals outside `params ++ W` are undefined
    at function entry, the primitives write only locals of `W`; then under every schedule the resumable function
    computes the reference result although every suspension drops all unsaved locals. -/
theorem flatten_correct_frame (E : Env (LStore G)) (params W : List Nat) (hW : WritesOnly E W)
    (sched : Nat → Nat → LStore G → Nat) (body : Stmt) {st : LStore G} {g : Sig} {st' : LStore G}
    (hev : Eval E body st g st') (hg : g = .normal ∨ g = .ret)
    (hst : ∀ v, v ∉ savedVars params W → st.loc v = 0) :
    RunS E (forgetVars (savedVars params W)) sched (flatten body) (flatten body) st none false 0 st' :=
  flatten_correct E _ (saved_complete E params W hW).2 sched body hev hg (forgetVars_fix.mpr hst)

/-! ### Why the saved set matters: a local dropped from the frame is observable -/

/-- primitives of the witness: action 0 sets local 0 to 1; calls and conditions do nothing -/
def witnessEnv : Env (LStore Unit) :=
  ⟨fun _ s => { s with loc := fun v => if v = 0 then 1 else s.loc v }, fun _ s => (true, s), fun _ s => s⟩

def witnessBody : Stmt := .seq (.act 0) (.seq (.call 0) .ret)

def zeroStore : LStore Unit := ⟨fun _ => 0, ()⟩

/-- **saved_incomplete_counterexample** — if local 0 is dropped from the saved list, the program `x = 1; f(); return`
    under the schedule "the call suspends once" ends with `x = 0`, while the reference semantics ends with `x = 1`. -/
theorem saved_incomplete_counterexample :
    ∃ o ref : LStore Unit,
      RunS witnessEnv (forgetVars []) (fun _ _ _ => 1) (flatten witnessBody) (flatten witnessBody) zeroStore none false 0 o ∧
      Eval witnessEnv witnessBody zeroStore .ret ref ∧ o.loc 0 = 0 ∧ ref.loc 0 = 1 := by
  have hcode : flatten witnessBody = [.case 0, .act 0, .call 0 1, .ret] := by decide
  refine ⟨forgetVars [] (witnessEnv.act 0 zeroStore), witnessEnv.act 0 zeroStore, ?_, ?_, rfl, rfl⟩
  · rw [hcode]
    refine .case (.act (.callSusp (m := 0) rfl ?_))
    have hs : seek 1 [Instr.case 0, .act 0, .call 0 1, .ret] = [.call 0 1, .ret] := by decide
    rw [hs]
    exact .resumeDone .ret
  · exact .seqN .act (.seqN .call .ret)

/-- the hypotheses of `flatten_correct_frame` are satisfiable by the same program once local 0 is saved -/
example : ∃ o, RunS witnessEnv (forgetVars (savedVars [] [0])) (fun _ _ _ => 1)
    (flatten witnessBody) (flatten witnessBody) zeroStore none false 0 o ∧ o.loc 0 = 1 := by
  refine ⟨witnessEnv.act 0 zeroStore, ?_, rfl⟩
  refine flatten_correct_frame witnessEnv [] [0] ?_ _ witnessBody (.seqN .act (.seqN .call .ret)) (.inr rfl) (fun _ _ => rfl)
  refine ⟨?_, fun _ _ _ _ => rfl, fun _ _ _ _ => rfl⟩
  intro a s v hv
  have : v ≠ 0 := by simpa using hv
  simp [witnessEnv, this]

/-! ### Deferred calls and the blocking `return` (layer `GV.Model.RetDefer`) -/

/-- **return_resume** — a `return` reached while deferred calls suspend is re-executed after every resumption, but only
    returns the value cached in `$24r` when it was first reached: for EVERY schedule of the deferred calls (each may
    suspend any number of times) the function delivers exactly Go's result — unnamed results as they were when the
    `return` statement executed, named results as the deferred calls left them, the store after all deferred calls ran
    LIFO — and it is the only result the protocol can deliver. -/
theorem return_resume (D : DEnv σ V) (forget : σ → σ) (sched : Nat → Nat → σ → Nat) (named : Bool)
    (hD : ∀ d st, forget st = st → forget (D.dcall d st) = D.dcall d st)
    (ds : List Nat) (st : σ) (hst : forget st = st) :
    RunRet D forget sched (.cached (D.retv st)) named st (ds.map .fresh) 0 true (goReturn D named ds st) ∧
    ∀ r, RunRet D forget sched (.cached (D.retv st)) named st (ds.map .fresh) 0 true r → r = goReturn D named ds st := by
  have h := runRet_all D forget sched (.cached (D.retv st)) named (.inr (const_cached D _)) hD st
    (ds.map .fresh) st 0 true hst
  have heq : target D (.cached (D.retv st)) named st (runAll D (ds.map .fresh) st) = goReturn D named ds st := by
    unfold target goReturn
    rw [runAll_fresh]
    rfl
  rw [heq] at h
  exact ⟨h, fun r hr => runRet_det D forget sched _ named hr h⟩

/-- the scheme that re-evaluates the result expression on resumption (no `$24r`) -/
def ReevalCorrect : Prop :=
  ∀ (D : DEnv Nat Nat) (sched : Nat → Nat → Nat → Nat) (ds : List Nat) (st : Nat) (r : Nat × Nat),
    RunRet D id sched .reeval false st (ds.map .fresh) 0 true r → r = goReturn D false ds st

/-- **return_reeval_counterexample** — why the temporary is needed: with deferred call 0 (runs first) setting `x = 99`
    and deferred call 1 suspending once, `return x` re-evaluated at `case n` yields 99; Go returns the old `x = 1`. -/
theorem return_reeval_counterexample : ¬ ReevalCorrect := by
  intro h
  let D : DEnv Nat Nat := ⟨fun d st => if d = 0 then 99 else st, fun st => st⟩
  let sched : Nat → Nat → Nat → Nat := fun _ d _ => if d = 1 then 1 else 0
  have run : RunRet D id sched .reeval false 1 ([0, 1].map .fresh) 0 true (99, 99) := by
    refine .suspend (st' := 99) (es' := [.susp 1 0]) (k' := 2) ?_ ?_
    · exact .freshNow (by rfl) (.freshSusp (m := 0) (by rfl))
    · exact .finish (st' := 99) (k' := 2) (.resumeNow .done)
  have := h D sched [0, 1] 1 (99, 99) run
  simp [goReturn, goDefers, D] at this

/-- a recovered panic in a function with unnamed results: Go returns the zero value -/
def PanicResumeCorrect : Prop :=
  ∀ (D : DEnv Nat Nat) (sched : Nat → Nat → Nat → Nat) (ds : List Nat) (st : Nat) (z u : Nat) (r : Nat × Nat),
    RunRet D id sched (.panicZero z u) false st (ds.map .fresh) 0 true r → r.1 = z

/-- **panic_resume_counterexample** (known finding C02-panic-zero-result-lost-on-resume) — `catch { $s = -1; return 0 }`
    is not re-executed on resumption: one deferred call that suspends once makes the function return `undefined`. -/
theorem panic_resume_counterexample : ¬ PanicResumeCorrect := by
  intro h
  let D : DEnv Nat Nat := ⟨fun _ st => st, fun st => st⟩
  have run : RunRet D id (fun _ _ _ => 1) (.panicZero 0 7) false 5 ([0].map .fresh) 0 true (7, 5) := by
    refine .suspend (st' := 5) (es' := [.susp 0 0]) (k' := 1) (.freshSusp (m := 0) rfl) ?_
    exact .finish (st' := 5) (k' := 1) (.resumeNow .done)
  have := h D (fun _ _ _ => 1) [0] 5 0 7 (7, 5) run
  simp at this

theorem callDef_nosusp (D : DEnv σ V) (sched : Nat → Nat → σ → Nat) (h0 : ∀ k d st, sched k d st = 0) :
    ∀ (ds : List Nat) (st : σ) (k : Nat),
      CallDef D sched st (ds.map .fresh) k (goDefers D ds st, [], false, k + ds.length) := by
  intro ds
  induction ds with
  | nil => intro st k; exact .done
  | cons d ds ih =>
    intro st k
    have := ih (D.dcall d st) (k + 1)
    simp only [List.map_cons, goDefers, List.length_cons]
    rw [show k + (ds.length + 1) = k + 1 + ds.length by omega]
    exact .freshNow (h0 k d st) this

/-- **panic_resume_partial** — the recovered-panic path is right when no deferred call suspends, and for named results
    under every schedule. -/
theorem panic_resume_partial (D : DEnv σ V) (forget : σ → σ) (sched : Nat → Nat → σ → Nat) (z u : V) (ds : List Nat) (st : σ) :
    ((∀ k d st, sched k d st = 0) →
      RunRet D forget sched (.panicZero z u) false st (ds.map .fresh) 0 true (z, goDefers D ds st)) ∧
    ((∀ d st, forget st = st → forget (D.dcall d st) = D.dcall d st) → forget st = st →
      RunRet D forget sched (.panicZero z u) true st (ds.map .fresh) 0 true (goReturn D true ds st)) := by
  constructor
  · intro h0
    have := RunRet.finish (forget := forget) (kind := RetKind.panicZero z u) (named := false) (first := true)
      (callDef_nosusp D sched h0 ds st 0)
    simpa [retNow] using this
  · intro hD hst
    have h := runRet_all D forget sched (.panicZero z u) true (.inl rfl) hD st (ds.map .fresh) st 0 true hst
    have heq : target D (.panicZero z u) true st (runAll D (ds.map .fresh) st) = goReturn D true ds st := by
      unfold target goReturn
      rw [runAll_fresh]
      rfl
    rw [heq] at h
    exact h

/-- the hypothesis "no deferred call suspends" is satisfiable by a non-trivial run -/
example : RunRet (⟨fun _ st => st + 1, fun st => st⟩ : DEnv Nat Nat) id (fun _ _ _ => 0) (.panicZero 0 7) false 5
    ([3, 4].map .fresh) 0 true (0, 7) :=
  (panic_resume_partial _ id _ 0 7 [3, 4] 5).1 (fun _ _ _ => rfl)

/-- **flatten_correct_defer_partial** — a function with deferred calls: the flattened body runs to the `return` under every
    schedule (`flatten_correct`), and from the store `st1` it reaches there the return protocol delivers Go's result under
    every schedule of the deferred calls (`return_resume`).  `pending` reads the frame's `$deferred` stack (pushed by the
    `defer` statements, which are ordinary actions of the body) when the `return` is reached.
    PARTIAL in this precise sense: the two machines are composed at the `return`; that `switch ($s)` with `$s = n` re-enters
    the body's code exactly at the return's own `case n:` is not derived from a combined code list (the resume label of a
    blocking return is not part of `flatten`'s numbering), and panicking bodies are covered by `panic_resume_*` only. -/
theorem flatten_correct_defer_partial (E : Env σ) (D : DEnv σ V) (pending : σ → List Nat) (forget : σ → σ)
    (hE : EnvStable E forget) (hD : ∀ d st, forget st = st → forget (D.dcall d st) = D.dcall d st)
    (sched schedD : Nat → Nat → σ → Nat) (named : Bool)
    (body : Stmt) {st : σ} {g : Sig} {st1 : σ} (hev : Eval E body st g st1) (hg : g = .normal ∨ g = .ret)
    (hst : forget st = st) :
    RunS E forget sched (flatten body) (flatten body) st none false 0 st1 ∧
    RunRet D forget schedD (.cached (D.retv st1)) named st1 ((pending st1).map .fresh) 0 true
      (goReturn D named (pending st1) st1) :=
  ⟨flatten_correct E forget hE sched body hev hg hst,
   (return_resume D forget schedD named hD (pending st1) st1 (eval_stable hE hev hst)).1⟩

/-- **suspend_saves_all_defer_frames** — when the goroutine suspends, EVERY frame on the unwinding path is saved, however
    many of them hold pending defers, provided each such frame's `$deferred` list is somewhere on the goroutine's
    deferStack (it is: callees' lists are above it, nothing is popped while asleep). By induction over the call depth. -/
theorem suspend_saves_all_defer_frames (stack : List Nat) :
    ∀ (frames : List (Option Nat)), (∀ d, some d ∈ frames → d ∈ stack) →
      unwind guardAnywhere stack frames = some frames.length := by
  intro frames
  induction frames with
  | nil => intro _; rfl
  | cons f fs ih =>
    intro h
    have ih' := ih (fun d hd => h d (List.mem_cons_of_mem _ hd))
    cases f with
    | none => simp [unwind, ih']
    | some d =>
      have hm : d ∈ stack := h d (List.mem_cons_self ..)
      simp [unwind, guardAnywhere, hm, ih']

/-- **suspend_top_only_counterexample** — with the guard "my list is the TOP of the deferStack", two nested frames with
    pending defers (inner list 2 above outer list 1) are not both saved: the outer frame throws `null` instead. A single
    frame with defers is unaffected. -/
theorem suspend_top_only_counterexample :
    unwind guardTop [2, 1] [some 2, some 1] = none ∧ unwind guardAnywhere [2, 1] [some 2, some 1] = some 2 ∧
    unwind guardTop [1] [none, some 1] = some 2 := by decide

/-! ### Expression-level flattening -/

/-- **andor_flat** — the flattened `_v = a && b()` (and `a || b()`) with a blocking right operand, embedded anywhere in a
    code list with distinct labels, under EVERY schedule: `a` (with its side effects) is evaluated exactly once — also
    when `b()` suspends and the function is re-entered at `case N` — and `b()` is called iff `a` is true (false for
    `||`); the machine continues after `case K:` in the store Go prescribes. -/
theorem andor_flat (E : Env σ) (forget : σ → σ) (hE : EnvStable E forget) (sched : Nat → Nat → σ → Nat)
    (code : List Instr) (hnd : (labels code).Nodup) (a b setC setV K N : Nat) (pr k : List Instr) (st o : σ)
    (hst : forget st = st) (kk : Nat) :
    (code = pr ++ (andCode a b setC setV K N ++ k) → Exec E code k (andSpec E a b setC setV st) o →
      RunS E forget sched code (andCode a b setC setV K N ++ k) st none false kk o) ∧
    (code = pr ++ (orCode a b setC setV K N ++ k) → Exec E code k (orSpec E a b setC setV st) o →
      RunS E forget sched code (orCode a b setC setV K N ++ k) st none false kk o) :=
  ⟨fun hc hk => segmentation E forget sched code hnd hE (and_exec E code hnd a b setC setV K N pr k hc st o hk) ⟨pr, hc⟩ hst kk,
   fun hc hk => segmentation E forget sched code hnd hE (or_exec E code hnd a b setC setV K N pr k hc st o hk) ⟨pr, hc⟩ hst kk⟩

/-- **args_order** — `f(x, g())` with a blocking later argument is emitted as `_arg = x; _r = g(); …resume…; f(_arg, _r)`
    (utils.go:160-176): under every schedule the earlier argument is evaluated once, before `g()`, and its temporary
    survives the suspensions of `g()` and `f()` (it is a saved local: `EnvStable`): the final store is
    `f (g (evalArg st))`. -/
theorem args_order (E : Env σ) (forget : σ → σ) (hE : EnvStable E forget) (sched : Nat → Nat → σ → Nat)
    (evalArg g f : Nat) (st : σ) (hst : forget st = st) :
    let body : Stmt := .seq (.act evalArg) (.seq (.call g) (.call f))
    RunS E forget sched (flatten body) (flatten body) st none false 0 (E.call f (E.call g (E.act evalArg st))) :=
  flatten_correct E forget hE sched _ (.seqN .act (.seqN .call .call)) (.inl rfl) hst

/-- a simple statement as a statement -/
def simpleStmt : Simple → Stmt
  | .none => .skip
  | .act a => .act a
  | .call f => .call f

/-- `f(e₁, …, eₙ)` after hoisting: every argument evaluation in source order (an action, or a call that may suspend),
    then the call -/
def argsBody (args : List Simple) (f : Nat) : Stmt :=
  args.foldr (fun a s => .seq (simpleStmt a) s) (.call f)

/-- Go: operands are evaluated in lexical left-to-right order -/
def evalArgs (E : Env σ) (args : List Simple) (st : σ) : σ := args.foldl (fun s a => evalSimple E a s) st

theorem argsBody_eval (E : Env σ) (f : Nat) : ∀ (args : List Simple) (st : σ),
    Eval E (argsBody args f) st .normal (E.call f (evalArgs E args st)) := by
  intro args
  induction args with
  | nil => intro st; exact .call
  | cons a as ih =>
    intro st
    have h1 : Eval E (simpleStmt a) st .normal (evalSimple E a st) := by
      cases a with
      | none => exact .skip
      | act x => exact .act
      | call g => exact .call
    exact .seqN h1 (ih _)

/-- **args_order_all** — ANY number of arguments, ANY subset of them suspending (each any number of times): when every
    argument in front of the last blocking one is hoisted into a temporary in source order (utils.go:151-176), the
    flattened call evaluates every argument exactly once, left to right, and then calls `f` — under every schedule. -/
theorem args_order_all (E : Env σ) (forget : σ → σ) (hE : EnvStable E forget) (sched : Nat → Nat → σ → Nat)
    (args : List Simple) (f : Nat) (st : σ) (hst : forget st = st) :
    RunS E forget sched (flatten (argsBody args f)) (flatten (argsBody args f)) st none false 0
      (E.call f (evalArgs E args st)) :=
  flatten_correct E forget hE sched _ (argsBody_eval E f args st) (.inl rfl) hst

/-- hoisting that stops at the FIRST blocking argument leaves a later non-blocking argument `c` inside the final call
    expression, i.e. after the later blocking argument `y2`: the evaluation order becomes a, y1, y2, c -/
def hoistStopsAtFirst (a y1 c y2 : Simple) : List Simple := [a, y1, y2, c]

/-- **args_order_first_only_counterexample** — the two orders differ as soon as `c` and `y2` do not commute
    (here: both append to a trace). -/
theorem args_order_first_only_counterexample :
    ∃ (E : Env (List Nat)) (st : List Nat),
      evalArgs E (hoistStopsAtFirst (.act 0) (.call 1) (.act 2) (.call 3)) st ≠
      evalArgs E [.act 0, .call 1, .act 2, .call 3] st := by
  refine ⟨⟨fun a s => s ++ [a], fun _ s => (true, s), fun f s => s ++ [f]⟩, [], ?_⟩
  decide

/-- **retdefer_exec_sound** is not needed for the theorems; the driver's `runRetF` / `callDefF` mirror `RunRet` / `CallDef`
    clause by clause. -/
theorem callDefF_sound (D : DEnv σ V) (sched : Nat → Nat → σ → Nat) :
    ∀ (fuel : Nat) (st : σ) (es : List DEntry) (k : Nat) (r : σ × List DEntry × Bool × Nat),
      callDefF D sched fuel st es k = some r → CallDef D sched st es k r := by
  intro fuel
  induction fuel with
  | zero => intro st es k r h; simp [callDefF] at h
  | succ n ih =>
    intro st es k r h
    cases es with
    | nil => simp only [callDefF, Option.some.injEq] at h; subst h; exact .done
    | cons e es =>
      cases e with
      | fresh d =>
        simp only [callDefF] at h
        cases hs : sched k d st with
        | zero => rw [hs] at h; exact .freshNow hs (ih _ _ _ _ h)
        | succ m => rw [hs] at h; simp only [Option.some.injEq] at h; subst h; exact .freshSusp hs
      | susp d m =>
        cases m with
        | zero => simp only [callDefF] at h; exact .resumeNow (ih _ _ _ _ h)
        | succ m => simp only [callDefF, Option.some.injEq] at h; subst h; exact .resumeMore

/-! ### Captured variables (layer `GV.Model.Escape`) -/

open GV.Escape in
/-- **captured_cells_shared** — after save / restore, a closure (or `&x` pointer) created by the suspended activation
    and the resumed activation refer to the SAME cell for variable `x` iff `x` is boxed and its (box) reference is
    restored from the frame; an unboxed variable is a different JS variable in the new activation. -/
theorem captured_cells_shared (f : Frame) (saved : Nat → Bool) (newAct : Nat) (hne : newAct ≠ f.act) (x : Nat) :
    (resume f saved newAct).cell x = f.cell x ↔ ∃ b, f.boxOf x = some b ∧ saved x = true := by
  simp only [Frame.cell, resume]
  cases hs : saved x <;> cases hb : f.boxOf x <;> simp [hne]

open GV.Escape in
/-- **captured_write_visible** — what the program observes: a write through the closure is read back by the resumed
    function iff the cells are shared (when the written value differs from the stale one). -/
theorem captured_write_visible (f : Frame) (saved : Nat → Bool) (newAct : Nat) (hne : newAct ≠ f.act) (x : Nat)
    (h : Cell → Nat) (v : Nat) (hv : h ((resume f saved newAct).cell x) ≠ v) :
    write h (f.cell x) v ((resume f saved newAct).cell x) = v ↔ ∃ b, f.boxOf x = some b ∧ saved x = true := by
  rw [← captured_cells_shared f saved newAct hne x]
  unfold write
  constructor
  · intro hw
    by_cases hc : (resume f saved newAct).cell x = f.cell x
    · exact hc
    · rw [if_neg hc] at hw; exact absurd hw hv
  · intro hc; rw [if_pos hc]

open GV.Escape in
/-- **boxing_rule_sufficient** — the rule of escape.go: in a BLOCKING function every captured variable, wherever it is
    declared (parameter, function level, loop header, loop body), is boxed; in any function every captured loop-body
    variable is boxed. -/
theorem boxing_rule_sufficient (site : Site) : boxed true site true = true ∧ boxed false .loopBody true = true := by
  cases site <;> exact ⟨rfl, rfl⟩

open GV.Escape in
/-- the property the rule must have in a blocking function -/
def BoxingRuleOK (rule : Bool → Site → Bool → Bool) : Prop := ∀ site, rule true site true = true

open GV.Escape in
/-- **boxing_header_skipped_counterexample** — the rule "loop-header variables are boxed by the loop" (they are not:
    `translateLoopingStmt` boxes body variables only) leaves a captured `for`-init / `range` variable of a blocking
    function unboxed; by `captured_cells_shared` its closure and the resumed frame then use different cells. -/
theorem boxing_header_skipped_counterexample : BoxingRuleOK boxed ∧ ¬ BoxingRuleOK boxedHeaderSkipped := by
  constructor
  · intro site; cases site <;> rfl
  · intro h; have := h .loopHeader; simp [boxedHeaderSkipped] at this

end GV.Props.C02
