/-
  GV.Props.C02 — suspending and resuming a goroutine is invisible to the program.
-/
import GV.Model.Ctrl
import GV.Model.Flat
import GV.Model.Blocking
import GV.Proofs.Blocking

namespace GV.Props.C02
open GV.Ctrl GV.Flat GV.Blocking

/-- **propagate_lfp** — for EVERY visiting order of the pending call edges (package order, function order, Go map
    iteration order; fresh for each pass), the set computed by the propagation loop of `PropagateAnalysis`
    is the least set that contains the intrinsic marks and is closed under "calls a blocking callee". -/
theorem propagate_lfp (g : Graph) (ord : Nat → List Edge → List Edge) (hperm : ∀ i p, (ord i p).Perm p) :
    (∀ v, v ∈ blocking ord g ↔ Reach g v) ∧
    Closed g (fun v => v ∈ blocking ord g) ∧
    (∀ S : Nat → Prop, Closed g S → ∀ v, v ∈ blocking ord g → S v) := by
  have inv : Inv g g.intrinsic g.edges :=
    ⟨fun v hv => Reach.base hv, fun v hv => hv, fun e he => he, fun e he => .inl he⟩
  have h := propagate_spec g ord hperm (g.edges.length + 1) 0 g.intrinsic g.edges inv (Nat.lt_succ_self _)
  obtain ⟨h1, h2, h3⟩ := h
  have cl : Closed g (fun v => v ∈ blocking ord g) := ⟨h2, h3⟩
  refine ⟨fun v => ⟨h1 v, fun hr => reach_least g _ cl v hr⟩, cl, ?_⟩
  intro S hS v hv
  exact reach_least g S hS v (h1 v hv)

/-- order independence as a corollary -/
theorem propagate_order_irrelevant (g : Graph) (o1 o2 : Nat → List Edge → List Edge)
    (h1 : ∀ i p, (o1 i p).Perm p) (h2 : ∀ i p, (o2 i p).Perm p) :
    ∀ v, v ∈ blocking o1 g ↔ v ∈ blocking o2 g := by
  intro v
  rw [(propagate_lfp g o1 h1).1 v, (propagate_lfp g o2 h2).1 v]

end GV.Props.C02
