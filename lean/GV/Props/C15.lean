import GV.Model.MapKey
import GV.Model.GoMap
import GV.Spec.MapKey

namespace GV.Props.C15
end GV.Props.C15
