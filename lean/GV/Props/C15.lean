/-
  GV.Props.C15 — maps use Go key equality for every comparable key type.

  Model: GV.Model.MapKey (`keyFor` per kind, `$floatKey`, `$idKey`, escaping/joining) and GV.Model.GoMap
  (JS `Map`, emitted operations, range loop).  Spec: GV.Spec.MapKey (Go `==`, abstract finite map).

  Full-strength statement `key_injective_full` is FALSE of the code as it is: three counterexamples are
  proved (`key_injective_counterexample_*`, `not_key_injective`).  `key_injective_partial` proves the
  statement for all key types and values under explicit decidable hypotheses that exclude exactly those.
-/
import GV.Model.MapKey
import GV.Model.GoMap
import GV.Spec.MapKey
import GV.Proofs.MapKeyStr
import GV.Proofs.MapKeyInj
import GV.Proofs.GoMapRefine
import GV.Proofs.GoMapRange
import GV.Proofs.GoMapRangeOnce

namespace GV.Props.C15
open GV.MapKey GV.GoMap GV.Spec.MapKey GV.Proofs.MapKeyStr GV.Proofs.MapKeyInj GV.Proofs.GoMapRefine

/-! ### string level -/

/-- the two `replace` passes of types.js:149,265 are one escaping pass -/
theorem esc_single_pass (s : Str) : esc s = esc1 s := esc_eq_esc1 s

/-- joining escaped component keys with `$` is injective for fixed arity (arbitrary component strings) -/
theorem join_esc_injective (l1 l2 : List Str) (hlen : l1.length = l2.length)
    (h : joinD (l1.map esc) = joinD (l2.map esc)) : l1 = l2 :=
  GV.Proofs.MapKeyStr.join_esc_injective l1 l2 hlen h

theorem decNat_injective (a b : Nat) (h : decNat a = decNat b) : a = b := GV.Proofs.MapKeyStr.decNat_injective a b h
theorem decInt_injective (a b : Int) (h : decInt a = decInt b) : a = b := GV.Proofs.MapKeyStr.decInt_injective a b h

/-- `String(f) = String(g)` exactly when Go says `f == g`, for non-NaN floats -/
theorem numStr_injective (f g : Flt) (hf : f ≠ .nan) (hg : g ≠ .nan) (wf : fwt f = true) (wg : fwt g = true) :
    numStr f = numStr g ↔ fltEq f g = true := GV.Proofs.MapKeyStr.numStr_injective f g hf hg wf wg

/-! ### key equality = Go equality -/

/-- FULL STRENGTH (not claimed — false today): for every key type `τ`, values `a b : τ`, evaluated one after
    the other in any reachable prelude state, the JS Map keys coincide exactly when Go's `a == b`. -/
def key_injective_full : Prop :=
  ∀ (reg : Nat → Str) (shape : Nat → KType) (τ : KType) (a b : KVal) (s1 s2 : KSt),
    wt shape τ a = true → wt shape τ b = true → Inv s1 → Inv s2 → Le (keyFor reg a s1).2 s2 →
    ((keyFor reg a s1).1 = (keyFor reg b s2).1 ↔ goEq a b = true)

/-- PARTIAL (proved, all key types / values / states): if dynamic type strings identify the type and contain
    no `$` (`RegOK`), and neither value holds a complex number with a NaN component or a float array with a NaN
    element (`good`), then the two Map keys coincide exactly when Go's `==` holds (NaN never equal, +0 == -0,
    interfaces by dynamic type identity and value, arrays/structs element-wise, pointers by identity). -/
theorem key_injective_partial (reg : Nat → Str) (hreg : RegOK reg) (shape : Nat → KType) (τ : KType) (a b : KVal)
    (s1 s2 : KSt) (ha : wt shape τ a = true) (hb : wt shape τ b = true) (ga : good a = true) (gb : good b = true)
    (i1 : Inv s1) (i2 : Inv s2) (hle : Le (keyFor reg a s1).2 s2) :
    (keyFor reg a s1).1 = (keyFor reg b s2).1 ↔ goEq a b = true :=
  key_inj reg hreg shape τ a b s1 s2 ha hb ga gb i1 i2 hle

/-- the hypotheses are decidable -/
instance (v : KVal) : Decidable (good v = true) := inferInstance

theorem regOK_dec : RegOK (fun i => 84 :: decNat i) := by
  constructor
  · intro i h
    rcases List.mem_cons.mp h with h | h
    · omega
    · exact no_dollar_decNat i h
  · intro i j h
    exact GV.Proofs.MapKeyStr.decNat_injective i j (List.cons.inj h).2

/-- the hypotheses of `key_injective_partial` are satisfiable by a non-trivial pair: struct keys
    `{"$", interface(T1(NaN)), [2]float{-0, 1.5}}` and `{"$", interface(T1(NaN)), [2]float{+0, 1.5}}`
    (not equal: the NaN inside the interface), and the theorem applies to them. -/
theorem key_injective_partial_sat :
    let reg : Nat → Str := fun i => 84 :: decNat i
    let shape : Nat → KType := fun _ => .float
    let τ : KType := .struct (.cons .string (.cons .iface (.cons (.array .float 2) .nil)))
    let a : KVal := .tuple false (.cons (.str [36]) (.cons (.iface 1 (.float .nan))
      (.cons (.tuple true (.cons (.float (.zero true)) (.cons (.float (.fin 3)) .nil))) .nil)))
    let b : KVal := .tuple false (.cons (.str [36]) (.cons (.iface 1 (.float .nan))
      (.cons (.tuple true (.cons (.float (.zero false)) (.cons (.float (.fin 3)) .nil))) .nil)))
    RegOK reg ∧ wt shape τ a = true ∧ wt shape τ b = true ∧ good a = true ∧ good b = true ∧ Inv KSt.init ∧
      goEq a b = false ∧ (keyFor reg a KSt.init).1 ≠ (keyFor reg b (keyFor reg a KSt.init).2).1 := by
  intro reg shape τ a b
  have hr : RegOK reg := regOK_dec
  have ha : wt shape τ a = true := by decide
  have hb : wt shape τ b = true := by decide
  have ga : good a = true := by decide
  have gb : good b = true := by decide
  have hq : goEq a b = false := by decide
  refine ⟨hr, ha, hb, ga, gb, inv_init, hq, ?_⟩
  intro h
  have := (key_injective_partial reg hr shape τ a b KSt.init _ ha hb ga gb inv_init
    (keyFor_mono reg a KSt.init inv_init).1 (Le.refl _)).mp h
  rw [hq] at this; cases this

/-! ### the three recorded defects, as proved counterexamples of `key_injective_full` -/

def reg0 : Nat → Str := fun i => if i ≤ 2 then [84] else 84 :: decNat i
def shape0 : Nat → KType := fun _ => .int

/-- complex keys with a NaN component collide (types.js:127,136): `complex(NaN, 1)` twice gives `"NaN$1"` twice -/
theorem key_injective_counterexample_complex_nan :
    let a : KVal := .complex .nan (.fin 2)
    wt shape0 .complex a = true ∧ goEq a a = false ∧
      (keyFor reg0 a KSt.init).1 = (keyFor reg0 a (keyFor reg0 a KSt.init).2).1 := by
  refine ⟨by decide, by decide, ?_⟩
  simp [keyFor]

/-- `[1]float64{NaN}` keys collide (types.js:147-151: the Float64Array swallows the `NaN$id` string) -/
theorem key_injective_counterexample_float_array_nan :
    let a : KVal := .tuple true (.cons (.float .nan) .nil)
    wt shape0 (.array .float 1) a = true ∧ goEq a a = false ∧
      (keyFor reg0 a KSt.init).1 = (keyFor reg0 a (keyFor reg0 a KSt.init).2).1 := by
  refine ⟨by decide, by decide, ?_⟩
  simp [keyFor, keysFor, typedArrayCoerce]

/-- interface keys of two distinct dynamic types (ids 1 and 2) with the same type string collide (types.js:46) -/
theorem key_injective_counterexample_iface_type_string :
    let a : KVal := .iface 1 (.int 5)
    let b : KVal := .iface 2 (.int 5)
    wt shape0 .iface a = true ∧ wt shape0 .iface b = true ∧ goEq a b = false ∧
      (keyFor reg0 a KSt.init).1 = (keyFor reg0 b (keyFor reg0 a KSt.init).2).1 := by
  refine ⟨by decide, by decide, by decide, ?_⟩
  simp [keyFor, reg0]

theorem not_key_injective : ¬ key_injective_full := by
  intro h
  have c := key_injective_counterexample_complex_nan
  simp only at c
  have := (h reg0 shape0 .complex _ _ KSt.init _ c.1 c.1 inv_init
    (keyFor_mono reg0 _ KSt.init inv_init).1 (Le.refl _)).mp c.2.2
  rw [c.2.1] at this; cases this

/-! ### `$idKey` and the state -/

/-- `$idKey` gives two objects the same key exactly when they are the same object, in every reachable state -/
theorem idKey_injective (o1 o2 : Nat) (s : KSt) (h : Inv s) :
    (idKey o1 s).1 = (idKey o2 (idKey o1 s).2).1 ↔ o1 = o2 := by
  have := key_injective_partial (fun i => 84 :: decNat i) regOK_dec (fun _ => .int) .ref (.ref o1) (.ref o2) s
    (keyFor (fun i => 84 :: decNat i) (.ref o1) s).2 (by simp [wt]) (by simp [wt]) (by simp [good]) (by simp [good]) h
    (keyFor_mono _ _ s h).1 (Le.refl _)
  simpa [keyFor, goEq] using this

/-- every `keyFor` call keeps the state invariant and only moves the state forward -/
theorem keyFor_state_mono (reg : Nat → Str) (v : KVal) (s : KSt) (h : Inv s) :
    Inv (keyFor reg v s).2 ∧ Le s (keyFor reg v s).2 := keyFor_mono reg v s h

/-! ### histories: the JS `Map` encoding refines the abstract map modulo `==` -/

/-- FULL STRENGTH (not claimed — false today because key equality is): every history gives the same outputs on the
    JS encoding and on the abstract map, for every key type. -/
def map_refines_full : Prop :=
  ∀ (reg : Nat → Str) (shape : Nat → KType) (τ : KType) (ops : List Op),
    (∀ op ∈ ops, match op with
      | .store k _ | .delete k | .index k | .commaOk k => wt shape τ k = true
      | .literal es => ∀ e ∈ es, wt shape τ e.1 = true
      | _ => True) →
    run reg MSt.init ops = runS none ops

/-- witness: `m := make(map[complex128]int); m[NaN+NaNi] = 1; m[NaN+NaNi] = 2; len(m)` is 1 on the JS encoding, 2 in Go -/
theorem map_refines_counterexample : ¬ map_refines_full := by
  intro h
  have := h reg0 shape0 .complex
    [.make, .store (.complex .nan .nan) 1, .store (.complex .nan .nan) 2, .len] (by
      intro op hop
      simp only [List.mem_cons, List.mem_nil_iff, or_false] at hop
      rcases hop with rfl | rfl | rfl | rfl <;> simp [wt, fwt])
  revert this
  decide

/-- PARTIAL (proved, every history): for every key type `τ` and every history of store / overwrite / delete / index /
    comma-ok / len / make / nil-assignment / literal whose keys are values of `τ` covered by `key_injective_partial`,
    starting from any related pair of states, the outputs on the JS encoding equal the outputs on the abstract map
    modulo Go `==`.  In particular from the nil map: reads see an empty map, stores panic. -/
theorem map_refines (reg : Nat → Str) (hreg : RegOK reg) (shape : Nat → KType) (τ : KType) (ops : List Op)
    (hops : ∀ op ∈ ops, OpOK shape τ op) : run reg MSt.init ops = runS none ops :=
  run_refines hreg ops MSt.init none inv_init hops

/-- the same from any reachable pair of related states (the induction behind `map_refines`) -/
theorem map_refines_from (reg : Nat → Str) (hreg : RegOK reg) (shape : Nat → KType) (τ : KType) (ops : List Op)
    (ms : MSt) (gm : GoMapS) (h : RelO reg shape τ ms gm) (hops : ∀ op ∈ ops, OpOK shape τ op) :
    run reg ms ops = runS gm ops :=
  run_refines hreg ops ms gm h hops

/-- a nil map reads as empty, ignores deletes and panics on store — for every key, without any hypothesis -/
theorem map_refines_nil (reg : Nat → Str) (s : KSt) (k : KVal) (v : Int) :
    (step reg ⟨none, s⟩ (.index k)).2 = .val 0 ∧ (step reg ⟨none, s⟩ (.commaOk k)).2 = .valOk 0 false ∧
    (step reg ⟨none, s⟩ .len).2 = .len 0 ∧ (step reg ⟨none, s⟩ (.delete k)).2 = .unit ∧
    (step reg ⟨none, s⟩ (.delete k)).1.m = none ∧
    (step reg ⟨none, s⟩ (.store k v)) = (⟨none, s⟩, .panicNilMap) := by
  simp [step, outOfEntry]

/-- the hypotheses of `map_refines` are satisfiable by a non-trivial history (string-pair keys with separators) -/
example : ∃ ops : List Op, ops.length = 5 ∧
    ∀ op ∈ ops, OpOK (fun _ => KType.int) (.struct (.cons .string (.cons .string .nil))) op :=
  ⟨[.make, .store (.tuple false (.cons (.str [36]) (.cons (.str []) .nil))) 1,
     .store (.tuple false (.cons (.str []) (.cons (.str [36]) .nil))) 2,
     .commaOk (.tuple false (.cons (.str [92]) (.cons (.str [36, 36]) .nil))), .len], rfl, by
    intro op hop
    simp only [List.mem_cons, List.mem_nil_iff, or_false] at hop
    rcases hop with rfl | rfl | rfl | rfl | rfl <;> simp [OpOK, OKKey, wt, wtEach, good, goods, arrElemOK]⟩

/-! ### the range loop (statements.go:211-236), for EVERY loop body that stores into / deletes from the map -/

/-- the visits of one `for k, v := range m` happen at strictly increasing slot positions: no entry (one creation of a
    key) is visited twice; an entry created during the loop is visited at most once per creation -/
theorem range_visits_increasing {σ : Type} (reg : Nat → Str) (body : Body σ) (jm : JMap) (st : KSt) (u : σ) :
    ((range reg body jm st u).visited.map (·.1)).Pairwise (· < ·) :=
  GV.Proofs.GoMapRange.range_visits_increasing reg body jm st u

theorem range_visits_nodup {σ : Type} (reg : Nat → Str) (body : Body σ) (jm : JMap) (st : KSt) (u : σ) :
    ((range reg body jm st u).visited.map (·.1)).Nodup :=
  GV.Proofs.GoMapRange.range_visits_nodup reg body jm st u

/-- an entry deleted before the loop reaches it is never visited: from any loop state in which slot `p` is empty and
    unvisited, the remaining `n` iterations never visit `p`, whatever the body does (deleted slots are never refilled —
    re-inserting the key creates a new slot — and the live iterator only reports live slots) -/
theorem range_skips_deleted {σ : Type} (reg : Nat → Str) (body : Body σ) (p n : Nat) (s : LoopSt σ)
    (hd : s.jm[p]? = some none) (hv : ∀ x ∈ s.visited, x.1 ≠ p) :
    ∀ x ∈ (rangeLoop reg body n s).visited, x.1 ≠ p :=
  GV.Proofs.GoMapRange.rangeLoop_skips_deleted reg body p n s hd hv

/-- every visit reports an entry that is in the map at that moment (`get` re-check), and an iteration whose re-check
    fails visits nothing -/
theorem range_visit_live {σ : Type} (reg : Nat → Str) (body : Body σ) (n : Nat) (s : LoopSt σ) (e : Entry)
    (h : (JMap.next s.jm s.it).1.bind (JMap.get s.jm) = some e) :
    (∃ k, s.jm.get k = some e) ∧
    ∃ s', rangeLoop reg body (n + 1) s = rangeLoop reg body n s' ∧
      s'.visited = s.visited ++ [(((JMap.next s.jm s.it).2.getD 0) - 1, e)] :=
  GV.Proofs.GoMapRange.rangeLoop_visit_live reg body n s e h

theorem count_one_of_nodup_mem : ∀ (l : List Nat) (a : Nat), l.Nodup → a ∈ l → l.count a = 1
  | [], _, _, m => by simp at m
  | x :: l, a, h, m => by
    have hh := List.nodup_cons.mp h
    by_cases c : x = a
    · subst c
      have : List.count x l = 0 := List.count_eq_zero.mpr hh.1
      simp [List.count_cons, this]
    · have : a ∈ l := by
        rcases List.mem_cons.mp m with e | e
        · exact absurd e.symm c
        · exact e
      simp [List.count_cons, c, count_one_of_nodup_mem l a hh.2 this]

/-- FOR EVERY LOOP BODY that keeps the entry at slot `p` (key `k`) in the map — it may overwrite its value, and may
    store and delete any other keys —: that entry is visited exactly once by `for k, v := range m`.
    (At most once: positions increase. At least once: the `_size` snapshot equals the number of live slots at the start;
    every `next()` consumes one distinct slot that was live at the start before reaching `p`, so the budget suffices.) -/
theorem range_spec {σ : Type} (reg : Nat → Str) (body : Body σ) (jm : JMap) (st : KSt) (u : σ) (p : Nat) (k : JKey)
    (hstart : GV.Proofs.GoMapRangeOnce.Keep p k jm)
    (hbody : ∀ (x : Entry) (u' : σ) (jm' : JMap) (st' : KSt), GV.Proofs.GoMapRangeOnce.Keep p k jm' →
      GV.Proofs.GoMapRangeOnce.Keep p k ((body x u').1.foldl (applyMut reg) (jm', st')).1) :
    ((range reg body jm st u).visited.map (·.1)).count p = 1 := by
  apply count_one_of_nodup_mem _ _ (range_visits_nodup reg body jm st u)
  obtain ⟨e, he⟩ := hstart
  exact GV.Proofs.GoMapRangeOnce.reaches reg body p k hbody jm.size _ 0 rfl (Nat.zero_le _) ⟨e, he⟩
    (GV.Proofs.GoMapRangeOnce.liveIn_lt_size jm p (k, e) he)

/-- a read-only loop visits every live entry exactly once (what the digests of the generated programs rely on) -/
theorem range_readonly {σ : Type} (reg : Nat → Str) (f : Entry → σ → σ) (jm : JMap) (st : KSt) (u : σ) (p : Nat) (k : JKey)
    (e : Entry) (h : jm[p]? = some (some (k, e))) :
    ((range reg (fun x u' => ([], f x u')) jm st u).visited.map (·.1)).count p = 1 :=
  range_spec reg _ jm st u p k ⟨e, h⟩ (fun _ _ _ _ hk => hk)

/-- the hypothesis of `range_spec` is satisfiable by a body that really mutates the map: ranging over {a, b, c} with a
    body that deletes `b` and stores a new key `d` keeps slot 0 (key `a`) -/
example : ∃ (body : Body Unit) (jm : JMap), GV.Proofs.GoMapRangeOnce.Keep 0 (.num 1) jm ∧
    (∀ (x : Entry) (u' : Unit) (jm' : JMap) (st' : KSt), GV.Proofs.GoMapRangeOnce.Keep 0 (.num 1) jm' →
      GV.Proofs.GoMapRangeOnce.Keep 0 (.num 1) ((body x u').1.foldl (applyMut (fun _ => [])) (jm', st')).1) :=
  ⟨fun _ _ => ([.delete (.int 2), .store (.int 4) 9], ()),
   [some (.num 1, (.int 1, 1)), some (.num 2, (.int 2, 2)), some (.num 3, (.int 3, 3))],
   ⟨_, rfl⟩, by
    intro x u' jm' st' hk
    obtain ⟨e, he⟩ := hk
    cases jm' with
    | nil => simp at he
    | cons s0 m =>
      simp at he
      subst he
      simp [List.foldl, applyMut, keyFor, JMap.delete, JMap.set, GV.Proofs.GoMapRangeOnce.Keep]⟩

end GV.Props.C15
