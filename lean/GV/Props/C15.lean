/-
  GV.Props.C15 — maps use Go key equality for every comparable key type.

  Model: GV.Model.MapKey (`keyFor` per kind, `$floatKey`, `$idKey`, escaping/joining) and GV.Model.GoMap
  (JS `Map`, emitted operations, range loop) — the code AS REPAIRED by /verif/fixes/C15-complex-nan-key,
  C15-float-array-nan-key, C15-iface-type-id-key.  Spec: GV.Spec.MapKey (Go `==`, abstract finite map).

  Everything is at full strength. What the statements assume, explicitly:
    * `ToStringOK fs` — ECMAScript `Number::toString` on finite non-zero doubles is injective, prints no `$`, and
      never prints "NaN", "Infinity", "-Infinity" or "0" (hypothesis, not an axiom; `halfFs_ok` shows the driver's
      instance meets it);
    * the two values have the map's key type (`wt`), and the prelude state is reachable (`Inv`, preserved by every
      `keyFor` call, true initially);
    * modelling: the dynamic type of an interface value is identified by its `typ.id`; struct types have no blank fields.
-/
import GV.Model.MapKey
import GV.Model.GoMap
import GV.Spec.MapKey
import GV.Proofs.MapKeyStr
import GV.Proofs.MapKeyInj
import GV.Proofs.GoMapRefine
import GV.Proofs.GoMapRange
import GV.Proofs.GoMapRangeOnce
import GV.Model.MapKeyHash

namespace GV.Props.C15
open GV.MapKey GV.GoMap GV.Spec.MapKey GV.Proofs.MapKeyStr GV.Proofs.MapKeyInj GV.Proofs.GoMapRefine

/-! ### string level -/

/-- the two `replace` passes of types.js:149,265 are one escaping pass -/
theorem esc_single_pass (s : Str) : esc s = esc1 s := esc_eq_esc1 s

/-- joining escaped component keys with `$` is injective for fixed arity (arbitrary component strings) -/
theorem join_esc_injective (l1 l2 : List Str) (hlen : l1.length = l2.length)
    (h : joinD (l1.map esc) = joinD (l2.map esc)) : l1 = l2 :=
  GV.Proofs.MapKeyStr.join_esc_injective l1 l2 hlen h

theorem decNat_injective (a b : Nat) (h : decNat a = decNat b) : a = b := GV.Proofs.MapKeyStr.decNat_injective a b h
theorem decInt_injective (a b : Int) (h : decInt a = decInt b) : a = b := GV.Proofs.MapKeyStr.decInt_injective a b h

/-- the stated hypothesis on `Number::toString` (see `GV.Proofs.MapKeyStr.ToStringOK`) -/
abbrev ToStringOK := GV.Proofs.MapKeyStr.ToStringOK

/-- under it, `String(f) = String(g)` exactly when Go says `f == g`, for non-NaN floats -/
theorem numStr_injective {fs : Int → Str} (hfs : ToStringOK fs) (f g : Flt) (hf : f ≠ .nan) (hg : g ≠ .nan)
    (wf : fwt f = true) (wg : fwt g = true) : numStr fs f = numStr fs g ↔ fltEq f g = true :=
  GV.Proofs.MapKeyStr.numStr_injective hfs f g hf hg wf wg

/-- the hypothesis is satisfiable: the exact printing of the multiples of 1/2 (what the driver runs) meets it -/
theorem toStringOK_halfFs : ToStringOK halfFs := halfFs_ok

/-! ### key equality = Go equality -/

/-- FULL STRENGTH: for every key type `τ`, all values `a b : τ` (bool, integers of every width, int64/uint64 pairs,
    floats with NaN / ±0 / ±Inf, complex, strings with arbitrary bytes, pointers and channels, interfaces, arrays,
    structs, nested to any depth, named or not), evaluated one after the other in any reachable prelude state, the two
    JS Map keys coincide EXACTLY when Go's `a == b`: NaN never equal (also inside complex numbers and float arrays),
    +0 == -0, interfaces by dynamic type identity and value, arrays/structs element-wise, pointers by identity. -/
theorem key_injective {fs : Int → Str} (hfs : ToStringOK fs) (shape : Nat → KType) (τ : KType) (a b : KVal)
    (s1 s2 : KSt) (ha : wt shape τ a = true) (hb : wt shape τ b = true)
    (i1 : Inv s1) (i2 : Inv s2) (hle : Le (keyFor fs a s1).2 s2) :
    (keyFor fs a s1).1 = (keyFor fs b s2).1 ↔ goEq a b = true :=
  key_inj hfs shape τ a b s1 s2 ha hb i1 i2 hle

/-- the same for the driver's instance, with no hypothesis on `toString` left -/
theorem key_injective_halfFs (shape : Nat → KType) (τ : KType) (a b : KVal)
    (s1 s2 : KSt) (ha : wt shape τ a = true) (hb : wt shape τ b = true)
    (i1 : Inv s1) (i2 : Inv s2) (hle : Le (keyFor halfFs a s1).2 s2) :
    (keyFor halfFs a s1).1 = (keyFor halfFs b s2).1 ↔ goEq a b = true :=
  key_injective halfFs_ok shape τ a b s1 s2 ha hb i1 i2 hle

/-- the three formerly colliding witnesses now get distinct keys: `complex(NaN, 1)` twice, `[1]float64{NaN}` twice,
    and `T(5)` for two distinct types 1 and 2 (whatever their names are) -/
theorem key_injective_former_witnesses :
    let s0 := KSt.init
    let c : KVal := .complex .nan (.fin 2)
    let a : KVal := .tuple true (.cons (.float .nan) .nil)
    let i1 : KVal := .iface 1 (.int 5)
    let i2 : KVal := .iface 2 (.int 5)
    (keyFor halfFs c s0).1 ≠ (keyFor halfFs c (keyFor halfFs c s0).2).1 ∧
    (keyFor halfFs a s0).1 ≠ (keyFor halfFs a (keyFor halfFs a s0).2).1 ∧
    (keyFor halfFs i1 s0).1 ≠ (keyFor halfFs i2 (keyFor halfFs i1 s0).2).1 := by
  intro s0 c a i1 i2
  have hs := fun v => keyFor_mono halfFs v KSt.init inv_init
  refine ⟨?_, ?_, ?_⟩
  · intro h
    have := (key_injective_halfFs (fun _ => .int) .complex c c s0 _ (by decide) (by decide) inv_init (hs c).1 (Le.refl _)).mp h
    revert this; decide
  · intro h
    have := (key_injective_halfFs (fun _ => .int) (.array .float 1) a a s0 _ (by decide) (by decide) inv_init (hs a).1 (Le.refl _)).mp h
    revert this; decide
  · intro h
    have := (key_injective_halfFs (fun _ => .int) .iface i1 i2 s0 _ (by decide) (by decide) inv_init (hs i1).1 (Le.refl _)).mp h
    revert this; decide

/-! ### repaired defects: the old schemes and why they were wrong (kept as theorems about the OLD code) -/

/-- OLD complex keyFor (types.js:127,136 before the repair): `x.$real + "$" + x.$imag` -/
def oldComplexKey (fs : Int → Str) (re im : Flt) : Str := numStr fs re ++ 36 :: numStr fs im

/-- it did not depend on the evaluation: `complex(NaN, y)` always had the key `"NaN$…"`, although `NaN != NaN` -/
theorem old_complex_nan_collides (fs : Int → Str) (im : Flt) :
    fltEq .nan .nan = false ∧ oldComplexKey fs .nan im = sNaN ++ 36 :: numStr fs im := ⟨rfl, rfl⟩

/-- OLD array keyFor on `[n]float64`: the component key string went through a Float64Array, so `"NaN\$7"` became the
    number NaN and printed as `"NaN"` -/
def oldFloatArrayComponent (f : Flt) (escapedKey : Str) : Str :=
  match f with
  | .nan => sNaN
  | _ => escapedKey

theorem old_float_array_nan_collides (k1 k2 : Str) : oldFloatArrayComponent .nan k1 = oldFloatArrayComponent .nan k2 := rfl

/-- OLD `$ifaceKeyFor`: `c.string + "$" + key`; two distinct types with one name gave one key -/
def oldIfaceKey (typeString : Nat → Str) (tid : Nat) (inner : Str) : Str := typeString tid ++ 36 :: inner

theorem old_iface_type_string_collides (typeString : Nat → Str) (t1 t2 : Nat) (inner : Str)
    (hname : typeString t1 = typeString t2) : oldIfaceKey typeString t1 inner = oldIfaceKey typeString t2 inner := by
  simp [oldIfaceKey, hname]

/-! ### `$idKey` and the state -/

/-- `$idKey` gives two objects the same key exactly when they are the same object, in every reachable state -/
theorem idKey_injective (o1 o2 : Nat) (s : KSt) (h : Inv s) :
    (idKey o1 s).1 = (idKey o2 (idKey o1 s).2).1 ↔ o1 = o2 := by
  have := key_injective_halfFs (fun _ => .int) .ref (.ref o1) (.ref o2) s
    (keyFor halfFs (.ref o1) s).2 (by simp [wt]) (by simp [wt]) h
    (keyFor_mono _ _ s h).1 (Le.refl _)
  simpa [keyFor, goEq] using this

/-- every `keyFor` call keeps the state invariant and only moves the state forward; the initial state satisfies it -/
theorem keyFor_state_mono (fs : Int → Str) (v : KVal) (s : KSt) (h : Inv s) :
    Inv (keyFor fs v s).2 ∧ Le s (keyFor fs v s).2 := keyFor_mono fs v s h

theorem state_inv_init : Inv KSt.init := inv_init

/-! ### histories: the JS `Map` encoding refines the abstract map modulo `==` -/

/-- FULL STRENGTH: for every key type `τ` and EVERY history of store / overwrite / delete / index / comma-ok / len /
    make / nil-assignment / literal / unhashable-store whose keys are values of `τ`, the outputs on the JS encoding equal
    the outputs on the abstract finite map modulo Go `==`, starting from the nil map (which reads as empty and panics
    on store). -/
theorem map_refines {fs : Int → Str} (hfs : ToStringOK fs) (shape : Nat → KType) (τ : KType) (ops : List Op)
    (hops : ∀ op ∈ ops, OpOK shape τ op) : run fs MSt.init ops = runS none ops :=
  run_refines hfs ops MSt.init none inv_init hops

/-- the same from any pair of related states (the induction behind `map_refines`) -/
theorem map_refines_from {fs : Int → Str} (hfs : ToStringOK fs) (shape : Nat → KType) (τ : KType) (ops : List Op)
    (ms : MSt) (gm : GoMapS) (h : RelO fs shape τ ms gm) (hops : ∀ op ∈ ops, OpOK shape τ op) :
    run fs ms ops = runS gm ops :=
  run_refines hfs ops ms gm h hops

/-- a nil map reads as empty, ignores deletes and panics on store — for every key, without any hypothesis -/
theorem map_refines_nil (fs : Int → Str) (s : KSt) (k : KVal) (v : Int) :
    (step fs ⟨none, s⟩ (.index k)).2 = .val 0 ∧ (step fs ⟨none, s⟩ (.commaOk k)).2 = .valOk 0 false ∧
    (step fs ⟨none, s⟩ .len).2 = .len 0 ∧ (step fs ⟨none, s⟩ (.delete k)).2 = .unit ∧
    (step fs ⟨none, s⟩ (.delete k)).1.m = none ∧
    (step fs ⟨none, s⟩ (.store k v)) = (⟨none, s⟩, .panicNilMap) := by
  simp [step, outOfEntry]

/-- the typing hypothesis of `map_refines` is satisfiable by a non-trivial history: complex keys with NaN components
    (the former counterexample) — and the theorem then says `len` is 2, as in Go -/
example : run halfFs MSt.init [.make, .store (.complex .nan .nan) 1, .store (.complex .nan .nan) 2, .len]
    = [.unit, .unit, .unit, .len 2] := by
  rw [map_refines halfFs_ok (fun _ => .int) .complex _ (by
    intro op hop
    simp only [List.mem_cons, List.mem_nil_iff, or_false] at hop
    rcases hop with rfl | rfl | rfl | rfl <;> simp [OpOK, OKKey, wt, fwt])]
  decide

/-! ### the range loop (statements.go:211-236), for EVERY loop body that stores into / deletes from the map -/

/-- the visits of one `for k, v := range m` happen at strictly increasing slot positions: no entry (one creation of a
    key) is visited twice; an entry created during the loop is visited at most once per creation -/
theorem range_visits_increasing {σ : Type} (fs : Int → Str) (body : Body σ) (jm : JMap) (st : KSt) (u : σ) :
    ((range fs body jm st u).visited.map (·.1)).Pairwise (· < ·) :=
  GV.Proofs.GoMapRange.range_visits_increasing fs body jm st u

theorem range_visits_nodup {σ : Type} (fs : Int → Str) (body : Body σ) (jm : JMap) (st : KSt) (u : σ) :
    ((range fs body jm st u).visited.map (·.1)).Nodup :=
  GV.Proofs.GoMapRange.range_visits_nodup fs body jm st u

/-- an entry deleted before the loop reaches it is never visited: from any loop state in which slot `p` is empty and
    unvisited, the remaining `n` iterations never visit `p`, whatever the body does (deleted slots are never refilled —
    re-inserting the key creates a new slot — and the live iterator only reports live slots) -/
theorem range_skips_deleted {σ : Type} (fs : Int → Str) (body : Body σ) (p n : Nat) (s : LoopSt σ)
    (hd : s.jm[p]? = some none) (hv : ∀ x ∈ s.visited, x.1 ≠ p) :
    ∀ x ∈ (rangeLoop fs body n s).visited, x.1 ≠ p :=
  GV.Proofs.GoMapRange.rangeLoop_skips_deleted fs body p n s hd hv

/-- every visit reports an entry that is in the map at that moment (`get` re-check), and an iteration whose re-check
    fails visits nothing -/
theorem range_visit_live {σ : Type} (fs : Int → Str) (body : Body σ) (n : Nat) (s : LoopSt σ) (e : Entry)
    (h : (JMap.next s.jm s.it).1.bind (JMap.get s.jm) = some e) :
    (∃ k, s.jm.get k = some e) ∧
    ∃ s', rangeLoop fs body (n + 1) s = rangeLoop fs body n s' ∧
      s'.visited = s.visited ++ [(((JMap.next s.jm s.it).2.getD 0) - 1, e)] :=
  GV.Proofs.GoMapRange.rangeLoop_visit_live fs body n s e h

theorem count_one_of_nodup_mem : ∀ (l : List Nat) (a : Nat), l.Nodup → a ∈ l → l.count a = 1
  | [], _, _, m => by simp at m
  | x :: l, a, h, m => by
    have hh := List.nodup_cons.mp h
    by_cases c : x = a
    · subst c
      have : List.count x l = 0 := List.count_eq_zero.mpr hh.1
      simp [List.count_cons, this]
    · have : a ∈ l := by
        rcases List.mem_cons.mp m with e | e
        · exact absurd e.symm c
        · exact e
      simp [List.count_cons, c, count_one_of_nodup_mem l a hh.2 this]

/-- FOR EVERY LOOP BODY that keeps the entry at slot `p` (key `k`) in the map — it may overwrite its value, and may
    store and delete any other keys —: that entry is visited exactly once by `for k, v := range m`.
    (At most once: positions increase. At least once: the `_size` snapshot equals the number of live slots at the start;
    every `next()` consumes one distinct slot that was live at the start before reaching `p`, so the budget suffices.) -/
theorem range_spec {σ : Type} (fs : Int → Str) (body : Body σ) (jm : JMap) (st : KSt) (u : σ) (p : Nat) (k : JKey)
    (hstart : GV.Proofs.GoMapRangeOnce.Keep p k jm)
    (hbody : ∀ (x : Entry) (u' : σ) (jm' : JMap) (st' : KSt), GV.Proofs.GoMapRangeOnce.Keep p k jm' →
      GV.Proofs.GoMapRangeOnce.Keep p k ((body x u').1.foldl (applyMut fs) (jm', st')).1) :
    ((range fs body jm st u).visited.map (·.1)).count p = 1 := by
  apply count_one_of_nodup_mem _ _ (range_visits_nodup fs body jm st u)
  obtain ⟨e, he⟩ := hstart
  exact GV.Proofs.GoMapRangeOnce.reaches fs body p k hbody jm.size _ 0 rfl (Nat.zero_le _) ⟨e, he⟩
    (GV.Proofs.GoMapRangeOnce.liveIn_lt_size jm p (k, e) he)

/-- a read-only loop visits every live entry exactly once (what the digests of the generated programs rely on) -/
theorem range_readonly {σ : Type} (fs : Int → Str) (f : Entry → σ → σ) (jm : JMap) (st : KSt) (u : σ) (p : Nat) (k : JKey)
    (e : Entry) (h : jm[p]? = some (some (k, e))) :
    ((range fs (fun x u' => ([], f x u')) jm st u).visited.map (·.1)).count p = 1 :=
  range_spec fs _ jm st u p k ⟨e, h⟩ (fun _ _ _ _ hk => hk)

/-- the hypothesis of `range_spec` is satisfiable by a body that really mutates the map: ranging over {a, b, c} with a
    body that deletes `b` and stores a new key `d` keeps slot 0 (key `a`) -/
example : ∃ (body : Body Unit) (jm : JMap), GV.Proofs.GoMapRangeOnce.Keep 0 (.num 1) jm ∧
    (∀ (x : Entry) (u' : Unit) (jm' : JMap) (st' : KSt), GV.Proofs.GoMapRangeOnce.Keep 0 (.num 1) jm' →
      GV.Proofs.GoMapRangeOnce.Keep 0 (.num 1) ((body x u').1.foldl (applyMut halfFs) (jm', st')).1) :=
  ⟨fun _ _ => ([.delete (.int 2), .store (.int 4) 9], ()),
   [some (.num 1, (.int 1, 1)), some (.num 2, (.int 2, 2)), some (.num 3, (.int 3, 3))],
   ⟨_, rfl⟩, by
    intro x u' jm' st' hk
    obtain ⟨e, he⟩ := hk
    cases jm' with
    | nil => simp at he
    | cons s0 m =>
      simp at he
      subst he
      simp [List.foldl, applyMut, keyFor, JMap.delete, JMap.set, GV.Proofs.GoMapRangeOnce.Keep]⟩

/-! ### every binding form of the range clause is the same walk -/

/-- the visited slots do not depend on the binding form when the body does not use the variables
    (`for range m`, `for _ = range m`, `for _, _ = range m`, `for k := range m { … k unused … }` walk alike) -/
theorem range_forms_same_walk {σ : Type} (fs : Int → Str) (f1 f2 : RangeForm) (g : σ → List Mut × σ) (jm : JMap)
    (st : KSt) (u : σ) :
    rangeForm fs f1 (fun _ _ u' => g u') jm st u = rangeForm fs f2 (fun _ _ u' => g u') jm st u := rfl

/-- `range_spec` for every binding form and every body: an entry the body keeps is visited exactly once -/
theorem range_spec_forms {σ : Type} (fs : Int → Str) (form : RangeForm) (body : FBody σ) (jm : JMap) (st : KSt) (u : σ)
    (p : Nat) (k : JKey) (hstart : GV.Proofs.GoMapRangeOnce.Keep p k jm)
    (hbody : ∀ (kb : Option KVal) (vb : Option Int) (u' : σ) (jm' : JMap) (st' : KSt),
      GV.Proofs.GoMapRangeOnce.Keep p k jm' →
      GV.Proofs.GoMapRangeOnce.Keep p k ((body kb vb u').1.foldl (applyMut fs) (jm', st')).1) :
    ((rangeForm fs form body jm st u).visited.map (·.1)).count p = 1 :=
  range_spec fs _ jm st u p k hstart (fun x u' jm' st' hk => hbody _ _ u' jm' st' hk)

/-- for every binding form and every body: a slot that is empty at the start is never visited; in particular the body
    runs at most once per slot (`range_visits_nodup`) and never for an emptied one (`range_skips_deleted` applies to the
    same `rangeLoop`) -/
theorem range_forms_skip_deleted {σ : Type} (fs : Int → Str) (form : RangeForm) (body : FBody σ) (jm : JMap) (st : KSt)
    (u : σ) (p : Nat) (hd : jm[p]? = some none) :
    ∀ x ∈ (rangeForm fs form body jm st u).visited, x.1 ≠ p :=
  range_skips_deleted fs _ p jm.size _ hd (by simp)

/-- a body that counts its runs and deletes key 2 -/
def countAndDelete2 : FBody Nat := fun _ _ n => ([.delete (.int 2)], n + 1)

/-- COUNTEREXAMPLE for the rejected loop shape ("an unbound range runs the body `_size` times without the re-check"):
    on the map {1, 2}, with a body that deletes entry 2 in its first run, the emitted loop runs the body once (entry 2
    was deleted before it was reached), the plain counting loop runs it twice. -/
theorem seeded_unbound_counterexample :
    let jm : JMap := [some (.num 1, (.int 1, 10)), some (.num 2, (.int 2, 20))]
    (rangeForm halfFs .unbound countAndDelete2 jm KSt.init 0).user = 1 ∧
    (rangeForm halfFs .unbound countAndDelete2 jm KSt.init 0).visited.length = 1 ∧
    (seededUnbound halfFs countAndDelete2 jm KSt.init 0).2.2 = 2 := by
  decide

/-! ### unhashable dynamic key types panic: the comparability decision looks at ALL fields, the key only at non-blank ones -/

section Hash
open GV.Spec.GoComparable GV.MapKeyHash

mutual
/-- the prelude's `typ.comparable` is the Go specification's comparability, for every type of the language
    (named, blank and embedded fields; arrays; slices, maps, funcs; nested to any depth) -/
theorem typComparable_eq_spec : ∀ t : Ty, typComparable t = comparable t
  | .int => rfl
  | .str => rfl
  | .iface => rfl
  | .slice => rfl
  | .map => rfl
  | .func => rfl
  | .arr _ e => by simp only [typComparable, comparable]; exact typComparable_eq_spec e
  | .struct fs => by simp only [typComparable, comparable]; exact fieldsEvery_eq_spec fs
theorem fieldsEvery_eq_spec : ∀ fs : Fields, fieldsEvery fs = allComparable fs
  | .nil => rfl
  | .cons _ t rest => by
    simp only [fieldsEvery, allComparable, typComparable_eq_spec t, fieldsEvery_eq_spec rest]
    cases comparable t <;> simp
end

theorem allComparable_iff : ∀ fs : Fields, allComparable fs = true ↔ ∀ p ∈ Fields.toList fs, comparable p.2 = true
  | .nil => by simp [allComparable, Fields.toList]
  | .cons k t rest => by
    simp only [allComparable, Fields.toList, Bool.and_eq_true, List.mem_cons, allComparable_iff rest]
    constructor
    · rintro ⟨h1, h2⟩ p (rfl | hp)
      · exact h1
      · exact h2 p hp
    · intro h
      exact ⟨h (k, t) (Or.inl rfl), fun p hp => h p (Or.inr hp)⟩

/-- a map operation whose interface key has a struct dynamic type panics ("hash of unhashable type") EXACTLY when
    some field — named, BLANK or embedded — has an unhashable type; recursively through `unhashable_array_iff` and
    this theorem for nested structs and arrays at any depth -/
theorem unhashable_iff_some_field_unhashable (fs : Fields) :
    ifaceKeyOutcome (.struct fs) = .panicUnhashable ↔ ∃ p ∈ Fields.toList fs, ifaceKeyOutcome p.2 = .panicUnhashable := by
  have hO : ∀ t : Ty, ifaceKeyOutcome t = .panicUnhashable ↔ comparable t = false := by
    intro t
    simp only [ifaceKeyOutcome, typComparable_eq_spec]
    cases comparable t <;> simp
  rw [hO]
  simp only [hO, comparable]
  constructor
  · intro h
    apply Classical.byContradiction
    intro hn
    have : allComparable fs = true := (allComparable_iff fs).mpr (by
      intro p hp
      cases hc : comparable p.2 with
      | true => rfl
      | false => exact absurd ⟨p, hp, hc⟩ hn)
    rw [this] at h; cases h
  · rintro ⟨p, hp, hc⟩
    cases ha : allComparable fs with
    | false => rfl
    | true => have := (allComparable_iff fs).mp ha p hp; rw [hc] at this; cases this

theorem unhashable_array_iff (n : Nat) (e : Ty) :
    ifaceKeyOutcome (.arr n e) = .panicUnhashable ↔ ifaceKeyOutcome e = .panicUnhashable := by
  simp only [ifaceKeyOutcome, typComparable]
  exact Iff.rfl

/-- blank fields are skipped in the KEY (their values never matter) but NOT in the comparability decision -/
theorem keyFor_ignores_blank_values_only (t : Ty) (rest : Fields) :
    keyFields (.cons .blank t rest) = keyFields rest ∧
    typComparable (.struct (.cons .blank t rest)) = (typComparable t && typComparable (.struct rest)) ∧
    (comparable t = false → ifaceKeyOutcome (.struct (.cons .blank t rest)) = .panicUnhashable) := by
  refine ⟨rfl, ?_, ?_⟩
  · simp only [typComparable, fieldsEvery]; cases typComparable t <;> simp
  · intro h
    simp [ifaceKeyOutcome, typComparable, fieldsEvery, typComparable_eq_spec, h]

/-- COUNTEREXAMPLE for the rejected variant ("the comparable getter uses the non-blank field list too"):
    `struct{ _ []int; id int }`, `struct{ _ [0]func(); n int }` and a struct nesting the first are unhashable in Go and
    in the code, but hashable for the variant -/
theorem seeded_comparable_counterexample :
    let tagged : Ty := .struct (.cons .blank .slice (.cons .named .int .nil))
    let noCopy : Ty := .struct (.cons .blank (.arr 0 .func) (.cons .named .int .nil))
    let wrapper : Ty := .struct (.cons .named .str (.cons .named tagged .nil))
    (ifaceKeyOutcome tagged = .panicUnhashable ∧ seededComparable tagged = true) ∧
    (ifaceKeyOutcome noCopy = .panicUnhashable ∧ seededComparable noCopy = true) ∧
    (ifaceKeyOutcome wrapper = .panicUnhashable ∧ seededComparable wrapper = true) := by
  decide

/-- a read-like map operation (index, comma-ok, delete) with an interface key of dynamic type `dyn` panics EXACTLY when
    `dyn` is not comparable — whatever the state of the map: nil, empty or populated (the key is hashed before the map
    is looked at) -/
theorem lookup_panics_iff_unhashable (dyn : Ty) (m : MapState) (op : ReadOp) :
    readOp dyn m op = none ↔ comparable dyn = false := by
  simp only [readOp, hashStep, typComparable_eq_spec]
  cases comparable dyn <;> simp

/-- and when it does not panic, a nil map reads as empty -/
theorem nil_map_read_misses (dyn : Ty) (op : ReadOp) (h : comparable dyn = true) : readOp dyn .nil op = some .miss := by
  simp [readOp, hashStep, typComparable_eq_spec, h, helperStep]

/-- COUNTEREXAMPLE for the rejected variant ("hash the key only if the map is non-nil"): on a nil map a slice-typed
    dynamic key reads as a miss, for all three operations, where Go and the code panic -/
theorem seeded_nil_read_counterexample (op : ReadOp) :
    seededReadOp .slice .nil op = some .miss ∧ readOp .slice .nil op = none ∧ comparable .slice = false := by
  cases op <;> decide

end Hash

end GV.Props.C15
