import GV.Model.Minify
import GV.Model.Names
import GV.Spec.JsTokens
import GV.Proofs.MinifyLemmas
import GV.Proofs.TokenLemmas
import GV.Proofs.NamesLemmas

/-!
  GV.Props.C16 — minification preserves behaviour: the two mechanisms.

  (1) `removeWhitespace` (model `GV.Minify`, compiler/utils.go:887-936) against the lexical specification
      `GV.JsTokens`: on every well-formed input it is exactly the item-level algorithm `rwItems` (only whitespace
      and comments are dropped; strings, hints and every other byte are copied untouched, in order), it never reads
      out of bounds, and under `SafeAdjacent` the JavaScript token sequence is unchanged.
  (2) the name allocator (model `GV.Names`, compiler/utils.go:284-327) with minification on: the i-th short names
      are pairwise distinct, stay inside their letter class (lower case = local, upper case = package level), and for
      every history of nested function contexts the names visible at any time are pairwise distinct and never a
      reserved word.
-/
namespace GV.Props.C16
open GV.Minify GV.JsTokens GV.Proofs.Minify GV.Proofs.Tokens

/-! ## removeWhitespace -/

/-- With minification off the code is returned as is. -/
theorem rw_identity (b : List Nat) : removeWhitespace b false = some b := rfl

/-- [EQ] On the bytes of any legal item sequence the scanner IS the item-level algorithm. -/
theorem rw_items (its : List Item) (hok : itemsOK its = true) :
    removeWhitespace (flatten its) true = (rwItems 0 its).map flatten := by
  simp only [itemsOK, Bool.and_eq_true] at hok
  exact rwLoop_items its 0 _ false hok.1 hok.2 (Nat.le_refl _)

/-- `rw_total`: on well-formed generated code the scanner never indexes out of bounds (no panic). -/
theorem rw_total {s : List Nat} (h : GenWF s) : ∃ o, removeWhitespace s true = some o := by
  obtain ⟨its, ⟨hok, hfl⟩, ht⟩ := h
  have hok' := hok
  simp only [itemsOK, Bool.and_eq_true] at hok'
  obtain ⟨o, ho⟩ := rwItems_total its 0 0 hok'.1 ht id
  exact ⟨flatten o, by rw [← hfl, rw_items its hok, ho]; rfl⟩

/-- Only whitespace and comments are dropped: every other byte, every string literal (contents untouched) and every
    hint survives, in the same order — for EVERY well-formed input, without any adjacency assumption. -/
theorem rw_significant {s : List Nat} {its : List Item} (hp : Parse s its) (ht : tailOK 0 its = true) :
    ∃ o its', removeWhitespace s true = some o ∧ flatten its' = o ∧ its'.all Item.ok = true ∧
      significant its' = significant its := by
  obtain ⟨hok, hfl⟩ := hp
  have hok' := hok
  simp only [itemsOK, Bool.and_eq_true] at hok'
  obtain ⟨o, ho⟩ := rwItems_total its 0 0 hok'.1 ht id
  exact ⟨flatten o, o, by rw [← hfl, rw_items its hok, ho]; rfl, rfl, rwItems_ok its 0 o ho hok'.1,
    rwItems_significant its 0 o ho⟩

/-- `rw_hints`: the hint sequence is preserved, and each hint keeps its place among the significant items
    (so it still immediately precedes the same token). -/
theorem rw_hints {s : List Nat} {its : List Item} (hp : Parse s its) (ht : tailOK 0 its = true) :
    ∃ o its', removeWhitespace s true = some o ∧ flatten its' = o ∧ its'.all Item.ok = true ∧
      hintsOf its' = hintsOf its ∧ significant its' = significant its := by
  obtain ⟨o, its', h1, h2, h3, h4⟩ := rw_significant hp ht
  refine ⟨o, its', h1, h2, h3, ?_, h4⟩
  rw [← hints_significant its', h4, hints_significant]

/-- `rw_tokens` [EQ]: for well-formed code whose adjacent tokens are safe, the output parses again and has the
    same token sequence (and the same significant items). -/
theorem rw_tokens {s : List Nat} {its : List Item} (hp : Parse s its) (ht : tailOK 0 its = true)
    (hs : safeAdjacent its = true) :
    ∃ o its', removeWhitespace s true = some o ∧ Parse o its' ∧ tokensOf its' = tokensOf its ∧
      significant its' = significant its := by
  obtain ⟨hok, hfl⟩ := hp
  have hok' := hok
  simp only [itemsOK, Bool.and_eq_true] at hok'
  obtain ⟨o, ho⟩ := rwItems_total its 0 0 hok'.1 ht id
  obtain ⟨h1, h2⟩ := (sim its).1 0 .start false o hs hok'.2 ho (by simp)
  refine ⟨flatten o, o, by rw [← hfl, rw_items its hok, ho]; rfl, ⟨?_, rfl⟩, h1, rwItems_significant its 0 o ho⟩
  simp [itemsOK, rwItems_ok its 0 o ho hok'.1, noSlashStar, h2]

/-- the same, stated with the two predicates of the design -/
theorem rw_tokens_pred {s : List Nat} (hw : GenWF s) (hs : SafeAdjacent s) :
    ∃ its o its', Parse s its ∧ removeWhitespace s true = some o ∧ Parse o its' ∧ tokensOf its' = tokensOf its := by
  obtain ⟨its, hp, ht⟩ := hw
  obtain ⟨o, its', h1, h2, h3, _⟩ := rw_tokens hp ht (hs its hp)
  exact ⟨its, o, its', hp, h1, h2, h3⟩

/-- the hypotheses are satisfiable by non-trivial code: `\tx = a - -b; /* c */ return "s\"/*";\n` with a hint in front -/
def sampleItems : List Item :=
  [.hint [8, 0, 2, 1, 34], .ws 9, .ch 120, .ws 32, .ch 61, .ws 32, .ch 97, .ws 32, .ch 45, .ws 32, .ch 45, .ch 98, .ch 59, .ws 32,
   .comment [32, 99, 32], .ws 32, .ch 114, .ch 101, .ch 116, .ws 32, .str [115, 92, 34, 47, 42], .ch 59, .ws 10]

example : itemsOK sampleItems = true ∧ tailOK 0 sampleItems = true ∧ safeAdjacent sampleItems = true := by decide

/-- `SafeAdjacent` is a real restriction: in `a/**/b` the comment is the only separator and the identifiers merge. -/
theorem unsafe_example : safeAdjacent [.ch 97, .comment [], .ch 98] = false ∧
    tokensOf [.ch 97, .ch 98] ≠ tokensOf [.ch 97, .comment [], .ch 98] := by decide

/-- The parse of a byte string into items is unique, so `tokensOf` is a function of the bytes and
    `rw_tokens` says: tokens (removeWhitespace s) = tokens s. -/
theorem parse_unique (s : List Nat) (a b : List Item) (ha : Parse s a) (hb : Parse s b) : a = b := by
  obtain ⟨ha1, ha2⟩ := ha
  obtain ⟨hb1, hb2⟩ := hb
  simp only [itemsOK, Bool.and_eq_true, noSlashStar] at ha1 hb1
  exact parse_unique_aux a b false ha1.1 hb1.1 ha1.2 hb1.2 (by rw [ha2, hb2])

/-! ## Identifier shortening -/
open GV.Names GV.Proofs.Names

/-- the short-name generator is bijective base 26: reading the name back gives the index (+1) -/
theorem shortChars_decode (off j : Nat) : decodeShort off (shortChars off j []) = j + 1 :=
  decode_shortChars off j

/-- `shortnames_inj`: the i-th candidate names are pairwise distinct (also past 26 and 702 names). -/
theorem shortnames_inj (pkgLevel : Bool) (i j : Nat) (h : shortName pkgLevel i = shortName pkgLevel j) : i = j :=
  shortName_inj' pkgLevel i j h

/-- local names consist of lower-case letters only, package-level names of upper-case letters only -/
theorem shortName_class (pkgLevel : Bool) (i : Nat) :
    ∀ c ∈ shortName pkgLevel i, (if pkgLevel then 65 else 97) ≤ c ∧ c < (if pkgLevel then 65 else 97) + 26 := by
  intro c hc
  have := shortChars_class (if pkgLevel then 65 else 97) i [] c hc
  simpa using this

theorem shortName_ne_nil (pkgLevel : Bool) (i : Nat) : shortName pkgLevel i ≠ [] := by
  intro h
  have := decode_shortChars (if pkgLevel then 65 else 97) i
  unfold shortName at h
  rw [h] at this
  simp [decodeShort] at this

/-- package-level (upper-case) and local (lower-case) short names never clash -/
theorem pkg_local_disjoint (i j : Nat) : shortName true i ≠ shortName false j := by
  intro h
  cases hl : shortName true i with
  | nil => exact shortName_ne_nil true i hl
  | cons c r =>
    have h1 := shortName_class true i c (by rw [hl]; simp)
    have h2 := shortName_class false j c (by rw [← h, hl]; simp)
    simp at h1 h2
    omega

/-- `short_not_reserved`, static part: every reserved word starts with a lower-case letter, so no package-level short
    name is reserved (the lower-case ones that are — `do`, `if`, `in`, `for`, `int`, … — are handled dynamically, by the
    seeding of the root context: see `names_distinct`). -/
theorem short_not_reserved (i : Nat) : shortName true i ∉ reserved := by
  intro h
  have hall : reserved.all (fun w => match w with | c :: _ => decide (97 ≤ c) | [] => false) = true := by decide
  have hw := List.all_eq_true.mp hall _ h
  cases hs : shortName true i with
  | nil => exact shortName_ne_nil true i hs
  | cons c r =>
    rw [hs] at hw
    have := shortName_class true i c (by rw [hs]; simp)
    simp at this hw
    omega

/-- the seeding is needed: the 119th local candidate is the reserved word `do` -/
theorem do_is_a_candidate : shortName false 118 = [100, 111] ∧ [100, 111] ∈ reserved := by
  constructor
  · unfold shortName
    rw [shortChars.eq_def]; simp
    rw [shortChars.eq_def]; simp
  · decide

/-- `names_distinct` [INV]: for EVERY history of nested function contexts (push / pop / allocate in the innermost
    context — any scope tree, any number of names, local or package level), with minification on, at every moment the
    JavaScript names in scope (all package-level names and the locals of all enclosing functions) are pairwise
    distinct, none is a reserved word, package-level names are upper-case and locals lower-case (so they never clash). -/
theorem names_distinct (ops : List Op) (st : NState) (h : runOps true initState ops = some st) :
    (visible st).Nodup ∧ (∀ n ∈ visible st, n ∉ reserved) ∧
    (∀ n ∈ st.pkgNames, isUpper n) ∧ (∀ n ∈ chainLocals st.chain, isLower n) := by
  have hi := inv_run ops initState st inv_init h
  exact ⟨hi.nodup, hi.notres, hi.pkgUpper, hi.locLower⟩

/-- a name handed out is new: it is not in scope before the allocation (so earlier names stay what they were) -/
theorem names_fresh (ops : List Op) (st : NState) (name : Name) (pk : Bool) (c : List Scope) (nm : Name)
    (h : runOps true initState ops = some st) (ha : newVariable true name pk st.chain = some (c, nm)) :
    nm ∉ visible st :=
  (inv_req (inv_run ops initState st inv_init h) ha).2

/-- the hypothesis is satisfiable: a non-empty history runs (the first local of the package context gets the name `a`) -/
example : ∃ st, runOps true initState [.req [120] false] = some st ∧ visible st = [[97]] := by
  obtain ⟨c, hc⟩ := first_local
  have hv := newVariable_min hc
  refine ⟨{ chain := c, pkgNames := [] }, ?_, ?_⟩
  · simp [runOps, stepOp, initState, hc]
  · simp [visible, hv.2.2, chainLocals, rootScope]

/-- The candidate search always finds a free name among the first `size + 1` candidates (pigeonhole over the
    injective `shortName`), so the unbounded Go loop terminates and the model's fuel is never exhausted. -/
theorem firstFree_total (pk : Bool) (m : VarMap) : ∃ nm, firstFree pk m (m.size + 1) 0 = some nm :=
  firstFree_total' pk m

/-- with minification on, an allocation fails only for the empty name (the Go code panics on it) -/
theorem newVariable_total (name : Name) (pk : Bool) (fc : Scope) (parents : List Scope) (h : name ≠ []) :
    ∃ r, newVariable true name pk (fc :: parents) = some r := by
  obtain ⟨nm, hnm⟩ := firstFree_total pk fc.vars
  rw [newVariable]
  simp only [h, if_false, if_true, hnm]
  cases pk <;> simp

/-! ## Repaired defects (round 2)

  (1) `needsSpace` knew only ASCII identifier characters, so the space in `continue Ünique;` was dropped
      (fixes/C16-needsspace-nonascii.patch). The model now mirrors the repaired predicate; the theorems below say
      what the repair buys and what was wrong before.
  (2) `varPtrName` reused, in the second instantiation of a generic function, a pointer-variable name cached by the
      first one without counting it in `allVars` (fixes/C16-varptr-per-context.patch). `names_distinct` needs that
      EVERY name that enters `localVars` was handed out by `newVariable` in that context; histories now contain the
      `ptr` operation (model of the repaired `varPtrName`) and `names_distinct` covers it. -/

/-- every byte the JavaScript tokenizer takes for part of an identifier (incl. bytes >= 0x80) needs a separator -/
theorem ident_needsSpace (c : Nat) (h : isIdentChar c = true) : needsSpace c = true := by
  simp only [isIdentChar, Bool.or_eq_true] at h
  simp only [needsSpace, Bool.or_eq_true]
  rcases h with ((((h | h) | h) | h) | h) | h
  · exact Or.inl (Or.inl (Or.inl (Or.inl (Or.inl (Or.inl h)))))
  · exact Or.inl (Or.inl (Or.inl (Or.inl (Or.inl (Or.inr h)))))
  · exact Or.inl (Or.inl (Or.inl (Or.inl (Or.inr h))))
  · exact Or.inl (Or.inl (Or.inl (Or.inr h)))
  · exact Or.inl (Or.inl (Or.inr h))
  · exact Or.inr h

/-- hence a whitespace byte between two identifier bytes is never dropped: two words (identifiers, keywords,
    numbers) separated by whitespace cannot be merged, whatever bytes they are made of -/
theorem ws_between_idents_kept (p n : Nat) (hp : isIdentChar p = true) (hn : isIdentChar n = true) :
    wsDrop p (some n) = some false := by
  have h1 := ident_needsSpace p hp
  have h2 := ident_needsSpace n hn
  simp [wsDrop, h1, h2]

/-- the old predicate: `e` then space then the first byte of `Ü` (0xC3) — the space was dropped although both
    bytes are identifier bytes, and the two words become one token (`continueÜnique`) -/
theorem old_needsSpace_counterexample :
    isIdentChar 195 = true ∧ needsSpaceOld 195 = false ∧
    ((!needsSpaceOld 101 || !needsSpaceOld 195) && !(101 == 45 && 195 == 45)) = true ∧
    tokensOf [.ch 101, .ch 195] ≠ tokensOf [.ch 101, .ws 32, .ch 195] := by decide

/-- the old `varPtrName` path (append a foreign name to `localVars` without counting it) breaks the allocator
    invariant immediately: the next `newVariable` may hand the same name out again -/
theorem old_varptr_counterexample (nm : Name) (fc : Scope) (ps : List Scope) (h0 : fc.vars.cnt nm = 0) :
    ¬ LC (oldReusePtr nm (fc :: ps)) :=
  old_reuse_breaks nm fc ps h0

/-- the repaired `varPtrName` keeps a name stable: asking again in the same context (or a nested one) returns the
    recorded name and allocates nothing -/
theorem varPtrName_cached (minify : Bool) (v : Nat) (name nm : Name) (chain : List Scope)
    (h : lookupPtr v chain = some nm) : varPtrName minify v name false chain = some (chain, nm) := by
  simp [varPtrName, h]

/-! ## The `.inc.js` wrapper (round 3) -/

/-- the wrapper tail `"\n\t}).call($global);\n"` of `WritePkgCode` loses its leading line break -/
theorem wrapper_tail_stripped :
    removeWhitespace [10, 9, 125, 41, 46, 99, 97, 108, 108, 40, 36, 103, 108, 111, 98, 97, 108, 41, 59, 10] true =
      some [125, 41, 46, 99, 97, 108, 108, 40, 36, 103, 108, 111, 98, 97, 108, 41, 59] := by decide

/-- hence the raw segment before it must end outside a line comment: after `//! x` (no line break) the junction is
    unsafe, after `//! x\n` or after `f();` it is safe -/
theorem junction_examples :
    junctionSafe [47, 47, 33, 32, 120] [125, 41] = false ∧
    junctionSafe [47, 47, 33, 32, 120, 10] [125, 41] = true ∧
    junctionSafe [102, 40, 41, 59] [125, 41] = true := by decide

/-! ## Package-level names allocated from inside a function (round 4)

  `objectName` gives a package-level object that is first mentioned inside a function — in practice a named type
  declared in a function body — its name through the CURRENT context's `newVariable(…, true)`, which counts the name in
  that context and in all its parents. Histories contain this as `Op.obj`, so `names_distinct` covers it: the name is
  in scope (and distinct from every other name in scope) in the function, in the closures nested in it and in the
  package. The clause of the invariant that carries this is `Inv.pkg`: every package-level name is counted in EVERY
  live context. -/

/-- asking again for an object that already has a name returns it and allocates nothing -/
theorem objectName_assigned (minify : Bool) (o : Nat) (name nm : Name) (pk : Bool) (tbl : List (Nat × Name))
    (chain : List Scope) (h : (if pk then tbl.lookup o else lookupObj o chain) = some nm) :
    objectName minify o name pk tbl chain = some (chain, tbl, nm) := by
  simp [objectName, h]

/-- a first request is exactly `newVariable` in the current context -/
theorem objectName_new (minify : Bool) (o : Nat) (name : Name) (tbl : List (Nat × Name)) (chain c : List Scope) (nm : Name)
    (h : tbl.lookup o = none) (hn : newVariable minify name true chain = some (c, nm)) :
    objectName minify o name true tbl chain = some (c, (o, nm) :: tbl, nm) := by
  simp [objectName, h, hn]

/-- the shape of the seeded change: a package-level name counted in the package context only breaks the invariant
    (it is not reserved in the function being translated, whose next package-level allocation may repeat it) -/
theorem root_only_allocation_breaks (nm : Name) (fc p : Scope) (ps : List Scope) (pk : List Name)
    (h0 : fc.vars.cnt nm = 0) : ¬ Inv { chain := allocRootOnly nm (fc :: p :: ps), pkgNames := pk ++ [nm] } :=
  root_only_breaks nm fc p ps pk h0

/-! ## Struct-constructor parameters (round 5)

  The constructor of a struct type is `function(f1_, f2_, …) { if (arguments.length === 0) { this.f1 = <zero value>; … } … }`;
  the zero values refer to package-level variables (the type variables `F`, `X`, `ID`, … under minification). The
  parameters are the only names of that function scope that are not handed out by `newVariable`, so `names_distinct`
  does not speak about them; what keeps them apart from every package-level name is the `_` suffix. -/

/-- a constructor parameter is never one of the generated short names (they consist of letters only) -/
theorem ctorParam_ne_shortName (field : Name) (pk : Bool) (i : Nat) : ctorParam field ≠ shortName pk i := by
  intro h
  have hm : (95 : Nat) ∈ shortName pk i := by rw [← h]; simp [ctorParam]
  have := shortName_class pk i 95 hm
  cases pk <;> simp at this

/-- `ctor_params_disjoint_from_pkg_names`: in every history, with minification on, no struct-constructor parameter
    (whatever the field is called — `F`, `X`, `ID`, …) equals a package-level name, so a constructor never hides a
    package-level variable its zero-value branch reads. -/
theorem ctor_params_disjoint_from_pkg_names (ops : List Op) (st : NState) (h : runOps true initState ops = some st)
    (field : Name) : ctorParam field ∉ st.pkgNames := by
  intro hm
  have hu := (names_distinct ops st h).2.2.1 _ hm 95 (by simp [ctorParam])
  omega

/-- the unsuffixed variant is wrong: the field name `F` IS the sixth package-level short name -/
theorem unsuffixed_ctor_param_counterexample : ctorParamUnsuffixed [70] = shortName true 5 := by
  unfold ctorParamUnsuffixed shortName
  rw [shortChars.eq_def]; simp

/-- Not claimed: the corresponding statement with minification off (`name`, `name$1`, …) needs a side condition on the
    requested names (no Go identifier encodes to another one followed by `$<digits>`); it belongs to C01. -/
def names_distinct_plain : Prop :=
  ∀ (ops : List Op) (st : NState), runOps false initState ops = some st → (visible st).Nodup

end GV.Props.C16
