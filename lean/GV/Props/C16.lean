import GV.Model.Minify
import GV.Model.Names
import GV.Spec.JsTokens
namespace GV.Props.C16
end GV.Props.C16
