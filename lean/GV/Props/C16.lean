import GV.Model.Minify
import GV.Model.Names
import GV.Spec.JsTokens
import GV.Proofs.MinifyLemmas
import GV.Proofs.TokenLemmas
import GV.Proofs.NamesLemmas

/-!
  GV.Props.C16 — minification preserves behaviour: the two mechanisms.

  (1) `removeWhitespace` (model `GV.Minify`, compiler/utils.go:887-936) against the lexical specification
      `GV.JsTokens`: on every well-formed input it is exactly the item-level algorithm `rwItems` (only whitespace
      and comments are dropped; strings, hints and every other byte are copied untouched, in order), it never reads
      out of bounds, and under `SafeAdjacent` the JavaScript token sequence is unchanged.
  (2) the name allocator (model `GV.Names`, compiler/utils.go:284-327) with minification on: the i-th short names
      are pairwise distinct, stay inside their letter class (lower case = local, upper case = package level), and for
      every history of nested function contexts the names visible at any time are pairwise distinct and never a
      reserved word.
-/
namespace GV.Props.C16
open GV.Minify GV.JsTokens GV.Proofs.Minify GV.Proofs.Tokens

/-! ## removeWhitespace -/

/-- With minification off the code is returned as is. -/
theorem rw_identity (b : List Nat) : removeWhitespace b false = some b := rfl

/-- [EQ] On the bytes of any legal item sequence the scanner IS the item-level algorithm. -/
theorem rw_items (its : List Item) (hok : itemsOK its = true) :
    removeWhitespace (flatten its) true = (rwItems 0 its).map flatten := by
  simp only [itemsOK, Bool.and_eq_true] at hok
  exact rwLoop_items its 0 _ false hok.1 hok.2 (Nat.le_refl _)

/-- `rw_total`: on well-formed generated code the scanner never indexes out of bounds (no panic). -/
theorem rw_total {s : List Nat} (h : GenWF s) : ∃ o, removeWhitespace s true = some o := by
  obtain ⟨its, ⟨hok, hfl⟩, ht⟩ := h
  have hok' := hok
  simp only [itemsOK, Bool.and_eq_true] at hok'
  obtain ⟨o, ho⟩ := rwItems_total its 0 0 hok'.1 ht id
  exact ⟨flatten o, by rw [← hfl, rw_items its hok, ho]; rfl⟩

/-- Only whitespace and comments are dropped: every other byte, every string literal (contents untouched) and every
    hint survives, in the same order — for EVERY well-formed input, without any adjacency assumption. -/
theorem rw_significant {s : List Nat} {its : List Item} (hp : Parse s its) (ht : tailOK 0 its = true) :
    ∃ o its', removeWhitespace s true = some o ∧ flatten its' = o ∧ its'.all Item.ok = true ∧
      significant its' = significant its := by
  obtain ⟨hok, hfl⟩ := hp
  have hok' := hok
  simp only [itemsOK, Bool.and_eq_true] at hok'
  obtain ⟨o, ho⟩ := rwItems_total its 0 0 hok'.1 ht id
  exact ⟨flatten o, o, by rw [← hfl, rw_items its hok, ho]; rfl, rfl, rwItems_ok its 0 o ho hok'.1,
    rwItems_significant its 0 o ho⟩

/-- `rw_hints`: the hint sequence is preserved, and each hint keeps its place among the significant items
    (so it still immediately precedes the same token). -/
theorem rw_hints {s : List Nat} {its : List Item} (hp : Parse s its) (ht : tailOK 0 its = true) :
    ∃ o its', removeWhitespace s true = some o ∧ flatten its' = o ∧ its'.all Item.ok = true ∧
      hintsOf its' = hintsOf its ∧ significant its' = significant its := by
  obtain ⟨o, its', h1, h2, h3, h4⟩ := rw_significant hp ht
  refine ⟨o, its', h1, h2, h3, ?_, h4⟩
  rw [← hints_significant its', h4, hints_significant]

/-- `rw_tokens` [EQ]: for well-formed code whose adjacent tokens are safe, the output parses again and has the
    same token sequence (and the same significant items). -/
theorem rw_tokens {s : List Nat} {its : List Item} (hp : Parse s its) (ht : tailOK 0 its = true)
    (hs : safeAdjacent its = true) :
    ∃ o its', removeWhitespace s true = some o ∧ Parse o its' ∧ tokensOf its' = tokensOf its ∧
      significant its' = significant its := by
  obtain ⟨hok, hfl⟩ := hp
  have hok' := hok
  simp only [itemsOK, Bool.and_eq_true] at hok'
  obtain ⟨o, ho⟩ := rwItems_total its 0 0 hok'.1 ht id
  obtain ⟨h1, h2⟩ := (sim its).1 0 .start false o hs hok'.2 ho (by simp)
  refine ⟨flatten o, o, by rw [← hfl, rw_items its hok, ho]; rfl, ⟨?_, rfl⟩, h1, rwItems_significant its 0 o ho⟩
  simp [itemsOK, rwItems_ok its 0 o ho hok'.1, noSlashStar, h2]

/-- the same, stated with the two predicates of the design -/
theorem rw_tokens_pred {s : List Nat} (hw : GenWF s) (hs : SafeAdjacent s) :
    ∃ its o its', Parse s its ∧ removeWhitespace s true = some o ∧ Parse o its' ∧ tokensOf its' = tokensOf its := by
  obtain ⟨its, hp, ht⟩ := hw
  obtain ⟨o, its', h1, h2, h3, _⟩ := rw_tokens hp ht (hs its hp)
  exact ⟨its, o, its', hp, h1, h2, h3⟩

/-- the hypotheses are satisfiable by non-trivial code: `\tx = a - -b; /* c */ return "s\"/*";\n` with a hint in front -/
def sampleItems : List Item :=
  [.hint [8, 0, 2, 1, 34], .ws 9, .ch 120, .ws 32, .ch 61, .ws 32, .ch 97, .ws 32, .ch 45, .ws 32, .ch 45, .ch 98, .ch 59, .ws 32,
   .comment [32, 99, 32], .ws 32, .ch 114, .ch 101, .ch 116, .ws 32, .str [115, 92, 34, 47, 42], .ch 59, .ws 10]

example : itemsOK sampleItems = true ∧ tailOK 0 sampleItems = true ∧ safeAdjacent sampleItems = true := by decide

/-- `SafeAdjacent` is a real restriction: in `a/**/b` the comment is the only separator and the identifiers merge. -/
theorem unsafe_example : safeAdjacent [.ch 97, .comment [], .ch 98] = false ∧
    tokensOf [.ch 97, .ch 98] ≠ tokensOf [.ch 97, .comment [], .ch 98] := by decide

end GV.Props.C16
