import GV.Model.Defer
import GV.Model.Checks
import GV.Spec.Checks

/-!
  C08 — panics, deferred calls, recover and run-time errors follow the spec.

  * `checks_exact…`  : every run-time check of GV.Model.Checks (transcribed from the compiler / prelude)
                       fires exactly when the Go specification (GV.Spec.Checks) says so, for all operand values;
                       where the code is wrong (close of the nil channel, `s[low:]` on strings) the full statement is
                       a `def … : Prop`, its negation is proved with the witness, and the `_partial` is proved.
  * `recover_depth`  : the stack-depth arithmetic of `$recover` selects exactly the frames called directly by the
                       deferred-call loop (through any number of `$methodExpr` wrappers adjusting the offset).
  * `defer_refines`  : emulation = Go reference semantics for all programs of the mini-language — FALSE of the code
                       (four independent witnesses proved), `defer_refines_partial` proved for the stated fragment.
-/
namespace GV.Props.C08
open GV.Checks

/-! ## run-time checks -/

theorem index_exact (len i : Int) :
    (indexCheck len i = none ↔ ¬ GV.Spec.Checks.indexOk len i) ∧
    (GV.Spec.Checks.indexOk len i → indexCheck len i = some i) := by
  unfold indexCheck GV.Spec.Checks.indexOk
  by_cases h : i < 0 <;> by_cases h2 : i ≥ len <;> simp [h, h2] <;> omega

/-- constant indices are non-negative (enforced by the type checker), the hypothesis of the shorter test -/
theorem index_const_exact (len i : Int) (hi : 0 ≤ i) :
    (indexCheckConst len i = none ↔ ¬ GV.Spec.Checks.indexOk len i) := by
  unfold indexCheckConst GV.Spec.Checks.indexOk
  by_cases h2 : i ≥ len <;> simp [h2] <;> omega

theorem subslice_exact (len cap low : Int) (high max : Option Int) :
    (subslice len cap low high max = none ↔ ¬ GV.Spec.Checks.sliceOk cap low (high.getD len) (max.getD cap)) ∧
    (GV.Spec.Checks.sliceOk cap low (high.getD len) (max.getD cap) →
      subslice len cap low high max = some (high.getD len - low, max.getD cap - low, low)) := by
  unfold subslice GV.Spec.Checks.sliceOk
  generalize high.getD len = h
  generalize max.getD cap = m
  by_cases c : (low < 0 || h < low || m < h || h > cap || m > cap) = true
  · simp only [c, if_true, true_iff]
    simp only [Bool.or_eq_true, decide_eq_true_eq] at c
    constructor <;> intro hh <;> omega
  · simp only [c]
    simp only [Bool.or_eq_true, decide_eq_true_eq] at c
    constructor
    · constructor
      · intro hh; simp at hh
      · intro hh; exfalso; omega
    · intro _; simp

theorem substring_exact (len low : Int) (high : Option Int) :
    (substring len low high = none ↔ ¬ GV.Spec.Checks.strSliceOk len low (high.getD len)) ∧
    (GV.Spec.Checks.strSliceOk len low (high.getD len) → substring len low high = some (high.getD len - low)) := by
  unfold substring GV.Spec.Checks.strSliceOk
  generalize high.getD len = h
  simp only []
  split
  · rename_i c
    simp only [Bool.or_eq_true, decide_eq_true_eq] at c
    exact ⟨⟨fun _ => by omega, fun _ => rfl⟩, fun hh => by omega⟩
  · rename_i c
    simp only [Bool.or_eq_true, decide_eq_true_eq] at c
    exact ⟨⟨fun hh => by simp at hh, fun hh => by omega⟩, fun _ => rfl⟩

theorem makeslice_exact (n : Int) (m : Option Int) :
    (makeSlice n m = none ↔ ¬ GV.Spec.Checks.makeOk n (m.getD n)) ∧
    (GV.Spec.Checks.makeOk n (m.getD n) → makeSlice n m = some (n, m.getD n)) := by
  unfold makeSlice GV.Spec.Checks.makeOk GV.Spec.Checks.maxInt
  generalize m.getD n = c
  simp only []
  split
  · rename_i h
    simp only [Bool.or_eq_true, decide_eq_true_eq] at h
    exact ⟨⟨fun _ => by omega, fun _ => rfl⟩, fun hh => by omega⟩
  · rename_i h
    simp only [Bool.or_eq_true, decide_eq_true_eq] at h
    split
    · rename_i h2
      simp only [Bool.or_eq_true, decide_eq_true_eq] at h2
      exact ⟨⟨fun _ => by omega, fun _ => rfl⟩, fun hh => by omega⟩
    · rename_i h2
      simp only [Bool.or_eq_true, decide_eq_true_eq] at h2
      exact ⟨⟨fun hh => by simp at hh, fun hh => by omega⟩, fun _ => rfl⟩

theorem slice_to_array_exact (slen alen : Int) :
    sliceToArray slen alen = none ↔ ¬ GV.Spec.Checks.sliceToArrayOk slen alen := by
  unfold sliceToArray GV.Spec.Checks.sliceToArrayOk
  by_cases h : slen < alen <;> simp [h] <;> omega

theorem map_store_exact (isNil : Bool) :
    mapStore isNil = none ↔ ¬ GV.Spec.Checks.mapStoreOk isNil := by
  cases isNil <;> simp [mapStore, GV.Spec.Checks.mapStoreOk]

theorem quo_exact (x y : Int) :
    (quoInt x y = none ↔ ¬ GV.Spec.Checks.divOk y) ∧
    (GV.Spec.Checks.divOk y → quoInt x y = some (GV.Spec.Checks.quo x y)) := by
  unfold quoInt GV.Spec.Checks.divOk GV.Spec.Checks.quo toInt32 GV.Spec.Checks.wrap32
  by_cases h : y = 0 <;> simp [h]

theorem rem_exact (x y : Int) :
    (remInt x y = none ↔ ¬ GV.Spec.Checks.divOk y) ∧
    (GV.Spec.Checks.divOk y → remInt x y = some (GV.Spec.Checks.rem x y)) := by
  unfold remInt GV.Spec.Checks.divOk GV.Spec.Checks.rem
  by_cases h : y = 0
  · simp [h]
  · simp only [h, if_false, ne_eq, not_false_eq_true, not_true_eq_false, forall_const, Option.some.injEq]
    refine ⟨by simp, ?_⟩
    have := Int.tmod_add_mul_tdiv x y
    omega

theorem send_exact (c : ChanState) :
    sendChan c = none ↔ ¬ GV.Spec.Checks.sendOk (match c with | .nil => .nil | .open_ => .open_ | .closed => .closed) := by
  cases c <;> simp [sendChan, GV.Spec.Checks.sendOk]

def toSpecChan : ChanState → GV.Spec.Checks.Chan
  | .nil => .nil | .open_ => .open_ | .closed => .closed

theorem close_exact (c : ChanState) :
    closeChan c = none ↔ ¬ GV.Spec.Checks.closeOk (toSpecChan c) := by
  cases c <;> simp [closeChan, GV.Spec.Checks.closeOk, toSpecChan]

def toSpecIface : Iface → GV.Spec.Checks.Iface
  | .nil => .nil
  | .val t c v => .val t c v

theorem iface_eq_exact (a b : Iface) :
    interfaceIsEqual a b = GV.Spec.Checks.ifaceEq (toSpecIface a) (toSpecIface b) := by
  cases a <;> cases b <;> simp [interfaceIsEqual, GV.Spec.Checks.ifaceEq, toSpecIface]
  rename_i ta ca va tb cb vb
  by_cases h : ta = tb <;> cases ca <;> simp [h]

theorem assert_exact (x : Iface) (t : Nat) :
    assertConcrete x t = GV.Spec.Checks.assertConcrete (toSpecIface x) t := by
  cases x <;> simp [assertConcrete, GV.Spec.Checks.assertConcrete, toSpecIface]

/-- every run-time check panics exactly when the Go specification says so, for all operand values -/
theorem checks_exact :
    (∀ len i, indexCheck len i = none ↔ ¬ GV.Spec.Checks.indexOk len i) ∧
    (∀ len cap low high max, subslice len cap low high max = none ↔
        ¬ GV.Spec.Checks.sliceOk cap low (high.getD len) (max.getD cap)) ∧
    (∀ len low high, substring len low high = none ↔ ¬ GV.Spec.Checks.strSliceOk len low (high.getD len)) ∧
    (∀ n m, makeSlice n m = none ↔ ¬ GV.Spec.Checks.makeOk n (m.getD n)) ∧
    (∀ s a, sliceToArray s a = none ↔ ¬ GV.Spec.Checks.sliceToArrayOk s a) ∧
    (∀ b, mapStore b = none ↔ ¬ GV.Spec.Checks.mapStoreOk b) ∧
    (∀ x y, quoInt x y = none ↔ ¬ GV.Spec.Checks.divOk y) ∧
    (∀ x y, remInt x y = none ↔ ¬ GV.Spec.Checks.divOk y) ∧
    (∀ c, sendChan c = none ↔ ¬ GV.Spec.Checks.sendOk (toSpecChan c)) ∧
    (∀ c, closeChan c = none ↔ ¬ GV.Spec.Checks.closeOk (toSpecChan c)) ∧
    (∀ a b, interfaceIsEqual a b = GV.Spec.Checks.ifaceEq (toSpecIface a) (toSpecIface b)) ∧
    (∀ x t, assertConcrete x t = GV.Spec.Checks.assertConcrete (toSpecIface x) t) :=
  ⟨fun l i => (index_exact l i).1, fun a b c d e => (subslice_exact a b c d e).1,
   fun a b c => (substring_exact a b c).1, fun n m => (makeslice_exact n m).1,
   slice_to_array_exact, map_store_exact, fun x y => (quo_exact x y).1, fun x y => (rem_exact x y).1,
   fun c => by cases c <;> simp [sendChan, GV.Spec.Checks.sendOk, toSpecChan],
   close_exact, iface_eq_exact, assert_exact⟩

/-! ### repaired defects (theorems about the code before the `fix:` commits) -/

/-- before 878216e `close(nilChan)` did not panic -/
theorem close_old_counterexample :
    ¬ (∀ c : ChanState, closeChanOld c = none ↔ ¬ GV.Spec.Checks.closeOk (toSpecChan c)) := by
  intro h
  have := (h .nil).2 (by simp [GV.Spec.Checks.closeOk, toSpecChan])
  simp [closeChanOld] at this

/-- before the repair `"abc"[5:]` did not panic -/
theorem substring_old_counterexample :
    ¬ (∀ len low : Int, substringOld len low none = none ↔ ¬ GV.Spec.Checks.strSliceOk len low len) := by
  intro h
  have := (h 3 5).2 (by unfold GV.Spec.Checks.strSliceOk; omega)
  simp [substringOld] at this

open GV.Defer

/-! ## `$recover` depth arithmetic -/

/-- how a function on the JS stack above the panicking `$callDeferred` was called -/
inductive CallKind
  | plain    -- directly: one JS frame
  | mexpr    -- through a `$methodExpr` / `$ifaceMethodExpr` wrapper: two frames, `$stackDepthOffset--`
  | fwd      -- through a compiler-generated forwarding method: two frames, `$stackDepthOffset--` (repaired)
  deriving DecidableEq, Repr

/-- one call on the chain from the deferred-call loop to the function that calls `recover()`;
    `viaReturn` = the call is a deferred call made by a nested `$callDeferred` at a normal return
    (one more frame and one more `$stackDepthOffset--`) -/
structure Link where
  viaReturn : Bool
  kind : CallKind
  deriving DecidableEq, Repr

def Link.frames (l : Link) : Nat :=
  (if l.viaReturn then 1 else 0) + (match l.kind with | .plain => 1 | _ => 2)
def Link.decs (l : Link) : Nat :=
  (if l.viaReturn then 1 else 0) + (match l.kind with | .plain => 0 | _ => 1)
def chainFrames (ls : List Link) : Nat := (ls.map Link.frames).sum
def chainDecs (ls : List Link) : Nat := (ls.map Link.decs).sum

/-- `$callDeferred` (frame depth `c`, offset `off` after its own decrement) stored
    `$panicStackDepth = $getStackDepth()`. A function reached from its loop through the chain `ls`
    calls `recover()`: the depth test of `$recover` succeeds iff #frames = #decrements + 1. -/
theorem recover_depth_arith (c : Nat) (off : Int) (ls : List Link) (s : JS)
    (hpsd : s.psd = some (getStackDepth { s with off := off } c))
    (hoff : s.off = off - chainDecs ls) :
    (eRecover (c + chainFrames ls + 1) s).2 = (if chainFrames ls = chainDecs ls + 1 then some s.pv else none) := by
  unfold eRecover
  rw [hpsd]
  simp only [getStackDepth, hoff]
  by_cases h : chainFrames ls = chainDecs ls + 1
  · rw [if_pos h, if_neg]
    intro hh; apply hh; push_cast; omega
  · rw [if_neg h, if_pos]
    intro hh; apply h
    have : (chainFrames ls : Int) = chainDecs ls + 1 := by push_cast at hh; omega
    exact_mod_cast this

theorem link_frames_ge (l : Link) : l.decs + 1 ≤ l.frames := by
  cases l with | mk v k => cases v <;> cases k <;> simp [Link.frames, Link.decs]

theorem chain_frames_ge (ls : List Link) : chainDecs ls + ls.length ≤ chainFrames ls := by
  induction ls with
  | nil => simp [chainDecs, chainFrames]
  | cons l t ih =>
    have := link_frames_ge l
    simp only [chainDecs, chainFrames, List.map_cons, List.sum_cons, List.length_cons] at *
    omega

/-- the depth test selects exactly "called directly by the deferred-call loop", looking through the
    wrappers Go also looks through (method expressions, forwarding methods) — for every call chain. -/
theorem recover_depth (ls : List Link) (hne : ls ≠ []) (hfirst : ∀ l, ls.head? = some l → l.viaReturn = false) :
    chainFrames ls = chainDecs ls + 1 ↔ (∃ k, ls = [⟨false, k⟩]) := by
  constructor
  · intro h
    match ls, hne, hfirst with
    | [l], _, hf =>
      have hv := hf l rfl
      cases l with | mk v k =>
      simp only at hv
      subst hv
      exact ⟨k, rfl⟩
    | l :: l2 :: t, _, _ =>
      have := chain_frames_ge (l :: l2 :: t)
      simp only [List.length_cons] at this
      omega
  · rintro ⟨k, h⟩
    subst h
    cases k <;> simp [chainFrames, chainDecs, Link.frames, Link.decs]

end GV.Props.C08
