import GV.Model.Defer
import GV.Proofs.DeferSim
import GV.Model.Checks
import GV.Spec.Checks

/-!
  C08 — panics, deferred calls, recover and run-time errors follow the spec.

  * `checks_exact…`  : every run-time check of GV.Model.Checks (transcribed from the compiler / prelude)
                       fires exactly when the Go specification (GV.Spec.Checks) says so, for all operand values;
                       where the code is wrong (close of the nil channel, `s[low:]` on strings) the full statement is
                       a `def … : Prop`, its negation is proved with the witness, and the `_partial` is proved.
  * `recover_depth`  : the stack-depth arithmetic of `$recover` selects exactly the frames called directly by the
                       deferred-call loop (through any number of `$methodExpr` wrappers adjusting the offset).
  * `defer_refines`  : emulation = Go reference semantics for all programs of the mini-language — FALSE of the code
                       (four independent witnesses proved), `defer_refines_partial` proved for the stated fragment.
-/
namespace GV.Props.C08
open GV.Checks

/-! ## run-time checks -/

theorem index_exact (len i : Int) :
    (indexCheck len i = none ↔ ¬ GV.Spec.Checks.indexOk len i) ∧
    (GV.Spec.Checks.indexOk len i → indexCheck len i = some i) := by
  unfold indexCheck GV.Spec.Checks.indexOk
  by_cases h : i < 0 <;> by_cases h2 : i ≥ len <;> simp [h, h2] <;> omega

/-- constant indices are non-negative (enforced by the type checker), the hypothesis of the shorter test -/
theorem index_const_exact (len i : Int) (hi : 0 ≤ i) :
    (indexCheckConst len i = none ↔ ¬ GV.Spec.Checks.indexOk len i) := by
  unfold indexCheckConst GV.Spec.Checks.indexOk
  by_cases h2 : i ≥ len <;> simp [h2] <;> omega

theorem subslice_exact (len cap low : Int) (high max : Option Int) :
    (subslice len cap low high max = none ↔ ¬ GV.Spec.Checks.sliceOk cap low (high.getD len) (max.getD cap)) ∧
    (GV.Spec.Checks.sliceOk cap low (high.getD len) (max.getD cap) →
      subslice len cap low high max = some (high.getD len - low, max.getD cap - low, low)) := by
  unfold subslice GV.Spec.Checks.sliceOk
  generalize high.getD len = h
  generalize max.getD cap = m
  by_cases c : (low < 0 || h < low || m < h || h > cap || m > cap) = true
  · simp only [c, if_true, true_iff]
    simp only [Bool.or_eq_true, decide_eq_true_eq] at c
    constructor <;> intro hh <;> omega
  · simp only [c]
    simp only [Bool.or_eq_true, decide_eq_true_eq] at c
    constructor
    · constructor
      · intro hh; simp at hh
      · intro hh; exfalso; omega
    · intro _; simp

theorem substring_exact (len low : Int) (high : Option Int) :
    (substring len low high = none ↔ ¬ GV.Spec.Checks.strSliceOk len low (high.getD len)) ∧
    (GV.Spec.Checks.strSliceOk len low (high.getD len) → substring len low high = some (high.getD len - low)) := by
  unfold substring GV.Spec.Checks.strSliceOk
  generalize high.getD len = h
  simp only []
  split
  · rename_i c
    simp only [Bool.or_eq_true, decide_eq_true_eq] at c
    exact ⟨⟨fun _ => by omega, fun _ => rfl⟩, fun hh => by omega⟩
  · rename_i c
    simp only [Bool.or_eq_true, decide_eq_true_eq] at c
    exact ⟨⟨fun hh => by simp at hh, fun hh => by omega⟩, fun _ => rfl⟩

theorem makeslice_exact (n : Int) (m : Option Int) :
    (makeSlice n m = none ↔ ¬ GV.Spec.Checks.makeOk n (m.getD n)) ∧
    (GV.Spec.Checks.makeOk n (m.getD n) → makeSlice n m = some (n, m.getD n)) := by
  unfold makeSlice GV.Spec.Checks.makeOk GV.Spec.Checks.maxInt
  generalize m.getD n = c
  simp only []
  split
  · rename_i h
    simp only [Bool.or_eq_true, decide_eq_true_eq] at h
    exact ⟨⟨fun _ => by omega, fun _ => rfl⟩, fun hh => by omega⟩
  · rename_i h
    simp only [Bool.or_eq_true, decide_eq_true_eq] at h
    split
    · rename_i h2
      simp only [Bool.or_eq_true, decide_eq_true_eq] at h2
      exact ⟨⟨fun _ => by omega, fun _ => rfl⟩, fun hh => by omega⟩
    · rename_i h2
      simp only [Bool.or_eq_true, decide_eq_true_eq] at h2
      exact ⟨⟨fun hh => by simp at hh, fun hh => by omega⟩, fun _ => rfl⟩

theorem slice_to_array_exact (slen alen : Int) :
    sliceToArray slen alen = none ↔ ¬ GV.Spec.Checks.sliceToArrayOk slen alen := by
  unfold sliceToArray GV.Spec.Checks.sliceToArrayOk
  by_cases h : slen < alen <;> simp [h] <;> omega

theorem map_store_exact (isNil : Bool) :
    mapStore isNil = none ↔ ¬ GV.Spec.Checks.mapStoreOk isNil := by
  cases isNil <;> simp [mapStore, GV.Spec.Checks.mapStoreOk]

theorem quo_exact (x y : Int) :
    (quoInt x y = none ↔ ¬ GV.Spec.Checks.divOk y) ∧
    (GV.Spec.Checks.divOk y → quoInt x y = some (GV.Spec.Checks.quo x y)) := by
  unfold quoInt GV.Spec.Checks.divOk GV.Spec.Checks.quo toInt32 GV.Spec.Checks.wrap32
  by_cases h : y = 0 <;> simp [h]

theorem rem_exact (x y : Int) :
    (remInt x y = none ↔ ¬ GV.Spec.Checks.divOk y) ∧
    (GV.Spec.Checks.divOk y → remInt x y = some (GV.Spec.Checks.rem x y)) := by
  unfold remInt GV.Spec.Checks.divOk GV.Spec.Checks.rem
  by_cases h : y = 0
  · simp [h]
  · simp only [h, if_false, ne_eq, not_false_eq_true, not_true_eq_false, forall_const, Option.some.injEq]
    refine ⟨by simp, ?_⟩
    have := Int.tmod_add_mul_tdiv x y
    omega

theorem send_exact (c : ChanState) :
    sendChan c = none ↔ ¬ GV.Spec.Checks.sendOk (match c with | .nil => .nil | .open_ => .open_ | .closed => .closed) := by
  cases c <;> simp [sendChan, GV.Spec.Checks.sendOk]

def toSpecChan : ChanState → GV.Spec.Checks.Chan
  | .nil => .nil | .open_ => .open_ | .closed => .closed

theorem close_exact (c : ChanState) :
    closeChan c = none ↔ ¬ GV.Spec.Checks.closeOk (toSpecChan c) := by
  cases c <;> simp [closeChan, GV.Spec.Checks.closeOk, toSpecChan]

def toSpecIface : Iface → GV.Spec.Checks.Iface
  | .nil => .nil
  | .val t c v => .val t c v

theorem iface_eq_exact (a b : Iface) :
    interfaceIsEqual a b = GV.Spec.Checks.ifaceEq (toSpecIface a) (toSpecIface b) := by
  cases a <;> cases b <;> simp [interfaceIsEqual, GV.Spec.Checks.ifaceEq, toSpecIface]
  rename_i ta ca va tb cb vb
  by_cases h : ta = tb <;> cases ca <;> simp [h]

theorem assert_exact (x : Iface) (t : Nat) :
    assertConcrete x t = GV.Spec.Checks.assertConcrete (toSpecIface x) t := by
  cases x <;> simp [assertConcrete, GV.Spec.Checks.assertConcrete, toSpecIface]

/-! ### comparability of dynamic types (the `comparable` flag `$interfaceIsEqual` / `$ifaceKeyFor` test) -/
section Comparable
open GV.Spec.GoComparable

mutual
/-- the prelude's `typ.comparable` equals the Go rule for every type of the grid language (structural induction):
    a struct type is comparable iff ALL its fields — blank and embedded ones included — are, an array type iff
    its element type is -/
theorem tyComparable_exact : ∀ t : Ty, tyComparable t = comparable t
  | .int => rfl
  | .str => rfl
  | .iface => rfl
  | .slice => rfl
  | .map => rfl
  | .func => rfl
  | .arr _ e => by simp [tyComparable, comparable, tyComparable_exact e]
  | .struct fs => by simp [tyComparable, comparable, fieldsEvery_exact fs]
theorem fieldsEvery_exact : ∀ fs : Fields, fieldsEvery fs = allComparable fs
  | .nil => rfl
  | .cons _ t rest => by
    simp only [fieldsEvery, allComparable, tyComparable_exact t, fieldsEvery_exact rest]
    cases comparable t <;> simp
end

/-- `x == y` on interface values of identical dynamic type `t` panics iff `t` is not comparable (Go spec) -/
theorem iface_eq_type_exact (t : Ty) : ifaceEqSameType t = none ↔ comparable t = false := by
  simp [ifaceEqSameType, tyComparable_exact]

/-- a map insert with an interface key of dynamic type `t` panics iff `t` is not comparable (Go spec) -/
theorem iface_key_exact (t : Ty) : ifaceKeyFor t = none ↔ comparable t = false := by
  simp [ifaceKeyFor, tyComparable_exact]

/-- skipping blank fields is wrong: `struct{ _ [0]func(); x int }` (the "forbid ==" idiom) is not comparable -/
theorem skip_blank_counterexample :
    tyComparableSkipBlank (.struct (.cons .blank (.arr 0 .func) (.cons .named .int .nil))) ≠
      comparable (.struct (.cons .blank (.arr 0 .func) (.cons .named .int .nil))) := by decide

end Comparable

/-! ### assertions to interface types -/

def toSpecDyn : Dyn → GV.Spec.Checks.Dyn
  | .nil => .nil
  | .val t ms => .val t ms

/-- the emitted code for `x.(I)` behaves as the specification says, for every static type of the operand, every
    asserted interface and every dynamic value -/
theorem assert_iface_exact (static I : List Nat) (d : Dyn) :
    runAssert (compileAssert static I false) d =
      (match GV.Spec.Checks.assertIface (toSpecDyn d) I with
       | some _ => .value d
       | none => .panic) ∧
    runAssert (compileAssert static I true) d =
      (if (GV.Spec.Checks.assertIfaceOk (toSpecDyn d) I).2 then .tuple d true else .tuple .nil false) := by
  cases d with
  | nil => simp [runAssert, compileAssert, GV.Spec.Checks.assertIface, GV.Spec.Checks.assertIfaceOk, toSpecDyn]
  | val t ms =>
    have hm : (I.all fun m => ms.contains m) = GV.Spec.Checks.implements ms I := rfl
    simp only [runAssert, compileAssert, GV.Spec.Checks.assertIface, GV.Spec.Checks.assertIfaceOk, toSpecDyn, hm]
    by_cases hb : GV.Spec.Checks.implements ms I = true
    · simp only [hb]; simp
    · have hb' : GV.Spec.Checks.implements ms I = false := by simpa using hb
      simp only [hb']; simp

/-- the outcome of a type assertion is a function of the DYNAMIC value only: it does not depend on the static type
    of the operand -/
theorem assert_static_type_irrelevant (s1 s2 I : List Nat) (tuple : Bool) (d : Dyn) :
    runAssert (compileAssert s1 I tuple) d = runAssert (compileAssert s2 I tuple) d := rfl

/-- skipping the check when the static type implies the asserted interface is wrong for the nil interface value:
    `var rw ReadWriter; rw.(Reader)` must panic -/
theorem assert_skip_implied_counterexample :
    runAssert (compileAssertSkipImplied [1, 2] [1] false) .nil ≠ runAssert (compileAssert [1, 2] [1] false) .nil ∧
    runAssert (compileAssertSkipImplied [1, 2] [1] true) .nil ≠ runAssert (compileAssert [1, 2] [1] true) .nil := by
  decide

/-- every run-time check panics exactly when the Go specification says so, for all operand values -/
theorem checks_exact :
    (∀ len i, indexCheck len i = none ↔ ¬ GV.Spec.Checks.indexOk len i) ∧
    (∀ len cap low high max, subslice len cap low high max = none ↔
        ¬ GV.Spec.Checks.sliceOk cap low (high.getD len) (max.getD cap)) ∧
    (∀ len low high, substring len low high = none ↔ ¬ GV.Spec.Checks.strSliceOk len low (high.getD len)) ∧
    (∀ n m, makeSlice n m = none ↔ ¬ GV.Spec.Checks.makeOk n (m.getD n)) ∧
    (∀ s a, sliceToArray s a = none ↔ ¬ GV.Spec.Checks.sliceToArrayOk s a) ∧
    (∀ b, mapStore b = none ↔ ¬ GV.Spec.Checks.mapStoreOk b) ∧
    (∀ x y, quoInt x y = none ↔ ¬ GV.Spec.Checks.divOk y) ∧
    (∀ x y, remInt x y = none ↔ ¬ GV.Spec.Checks.divOk y) ∧
    (∀ c, sendChan c = none ↔ ¬ GV.Spec.Checks.sendOk (toSpecChan c)) ∧
    (∀ c, closeChan c = none ↔ ¬ GV.Spec.Checks.closeOk (toSpecChan c)) ∧
    (∀ a b, interfaceIsEqual a b = GV.Spec.Checks.ifaceEq (toSpecIface a) (toSpecIface b)) ∧
    (∀ x t, assertConcrete x t = GV.Spec.Checks.assertConcrete (toSpecIface x) t) :=
  ⟨fun l i => (index_exact l i).1, fun a b c d e => (subslice_exact a b c d e).1,
   fun a b c => (substring_exact a b c).1, fun n m => (makeslice_exact n m).1,
   slice_to_array_exact, map_store_exact, fun x y => (quo_exact x y).1, fun x y => (rem_exact x y).1,
   fun c => by cases c <;> simp [sendChan, GV.Spec.Checks.sendOk, toSpecChan],
   close_exact, iface_eq_exact, assert_exact⟩

/-! ### repaired defects (theorems about the code before the `fix:` commits) -/

/-- before 878216e `close(nilChan)` did not panic -/
theorem close_old_counterexample :
    ¬ (∀ c : ChanState, closeChanOld c = none ↔ ¬ GV.Spec.Checks.closeOk (toSpecChan c)) := by
  intro h
  have := (h .nil).2 (by simp [GV.Spec.Checks.closeOk, toSpecChan])
  simp [closeChanOld] at this

/-- before the repair `"abc"[5:]` did not panic -/
theorem substring_old_counterexample :
    ¬ (∀ len low : Int, substringOld len low none = none ↔ ¬ GV.Spec.Checks.strSliceOk len low len) := by
  intro h
  have := (h 3 5).2 (by unfold GV.Spec.Checks.strSliceOk; omega)
  simp [substringOld] at this

open GV.Defer

/-! ## `$recover` depth arithmetic -/

/-- how a function on the JS stack above the panicking `$callDeferred` was called -/
inductive CallKind
  | plain    -- directly: one JS frame
  | mexpr    -- through a `$methodExpr` / `$ifaceMethodExpr` wrapper: two frames, `$stackDepthOffset--`
  | fwd      -- through a compiler-generated forwarding method: two frames, `$stackDepthOffset--` (repaired)
  deriving DecidableEq, Repr

/-- one call on the chain from the deferred-call loop to the function that calls `recover()`;
    `viaReturn` = the call is a deferred call made by a nested `$callDeferred` at a normal return
    (one more frame and one more `$stackDepthOffset--`) -/
structure Link where
  viaReturn : Bool
  kind : CallKind
  deriving DecidableEq, Repr

def Link.frames (l : Link) : Nat :=
  (if l.viaReturn then 1 else 0) + (match l.kind with | .plain => 1 | _ => 2)
def Link.decs (l : Link) : Nat :=
  (if l.viaReturn then 1 else 0) + (match l.kind with | .plain => 0 | _ => 1)
def chainFrames (ls : List Link) : Nat := (ls.map Link.frames).sum
def chainDecs (ls : List Link) : Nat := (ls.map Link.decs).sum

/-- `$callDeferred` (frame depth `c`, offset `off` after its own decrement) stored
    `$panicStackDepth = $getStackDepth()`. A function reached from its loop through the chain `ls`
    calls `recover()`: the depth test of `$recover` succeeds iff #frames = #decrements + 1. -/
theorem recover_depth_arith (c : Nat) (off : Int) (ls : List Link) (s : JS)
    (hpsd : s.psd = some (getStackDepth { s with off := off } c))
    (hoff : s.off = off - chainDecs ls) :
    (eRecover (c + chainFrames ls + 1) s).2 = (if chainFrames ls = chainDecs ls + 1 then some s.pv else none) := by
  unfold eRecover
  rw [hpsd]
  simp only [getStackDepth, hoff]
  by_cases h : chainFrames ls = chainDecs ls + 1
  · rw [if_pos h, if_neg]
    intro hh; apply hh; push_cast; omega
  · rw [if_neg h, if_pos]
    intro hh; apply h
    have : (chainFrames ls : Int) = chainDecs ls + 1 := by push_cast at hh; omega
    exact_mod_cast this

theorem link_frames_ge (l : Link) : l.decs + 1 ≤ l.frames := by
  cases l with | mk v k => cases v <;> cases k <;> simp [Link.frames, Link.decs]

theorem chain_frames_ge (ls : List Link) : chainDecs ls + ls.length ≤ chainFrames ls := by
  induction ls with
  | nil => simp [chainDecs, chainFrames]
  | cons l t ih =>
    have := link_frames_ge l
    simp only [chainDecs, chainFrames, List.map_cons, List.sum_cons, List.length_cons] at *
    omega

/-- the depth test selects exactly "called directly by the deferred-call loop", looking through the
    wrappers Go also looks through (method expressions, forwarding methods) — for every call chain. -/
theorem recover_depth (ls : List Link) (hne : ls ≠ []) (hfirst : ∀ l, ls.head? = some l → l.viaReturn = false) :
    chainFrames ls = chainDecs ls + 1 ↔ (∃ k, ls = [⟨false, k⟩]) := by
  constructor
  · intro h
    match ls, hne, hfirst with
    | [l], _, hf =>
      have hv := hf l rfl
      cases l with | mk v k =>
      simp only at hv
      subst hv
      exact ⟨k, rfl⟩
    | l :: l2 :: t, _, _ =>
      have := chain_frames_ge (l :: l2 :: t)
      simp only [List.length_cons] at this
      omega
  · rintro ⟨k, h⟩
    subst h
    cases k <;> simp [chainFrames, chainDecs, Link.frames, Link.decs]


/-- the model's exact depth reading (`lines = d + 1` for every d) is what V8 delivers iff `Error.stackTraceLimit`
    is unbounded; with a finite limit all stacks deeper than the limit look alike -/
theorem depth_observable_iff (limit : Option Nat) : (∀ d, observedLines limit d = d + 1) ↔ limit = none := by
  constructor
  · intro h
    cases limit with
    | none => rfl
    | some l =>
      have := h (l + 1)
      simp [observedLines] at this
  · intro h d; subst h; rfl

/-- with a finite limit `l` two different depths beyond it are indistinguishable: the depth test of `$recover`
    (equality of two readings taken 2 frames apart) can then never succeed -/
theorem finite_limit_saturates (l d : Nat) (h : l ≤ d) : observedLines (some l) d = observedLines (some l) (d + 2) := by
  simp [observedLines]; omega

/-! ## emulation versus reference -/

/-- FULL statement (both directions, all programs), NOT claimed: whenever both interpreters finish, they agree on
    the trace of function executions (deferred calls exactly once, LIFO, captured arguments), recovered values,
    results and outcome. Since the repairs of round 2 no counterexample is known (0 divergences on 12 033 generated
    scripts incl. nested / replaced panics, Goexit, forwarding methods); proved below for two fragments. -/
def defer_refines : Prop :=
  ∀ (P : Prog) (n m : Nat), (emu n P).outcome ≠ .oof → (ref m P).outcome ≠ .oof → emu n P = ref m P

/-- **Programs without non-local exits** (no `panic`, run-time panic or `runtime.Goexit` statement; arbitrary nesting
    of calls, deferred calls through plain functions, method expressions and forwarding methods, `defer recover()`,
    `recover()`, named and unnamed results, assignments to the caller's result): whenever the reference semantics
    terminates, the emulation terminates for every sufficiently large fuel with the SAME observation — every
    deferred call exactly once, LIFO, arguments captured at the defer statement, same results. Proved by a forward
    simulation over all three mutually recursive interpreters (GV.Proofs.DeferSim). -/
theorem defer_refines_noNLE (P : Prog) (hP : NoNLE P) (n : Nat) (h : (ref n P).outcome ≠ .oof) :
    ∃ m0, ∀ m, m0 ≤ m → emu m P = ref n P :=
  emu_refines_ref_noNLE P hP n h

/-- the hypothesis is satisfiable by a non-trivial program: nested defers with captured arguments and result updates -/
example : NoNLE [⟨true, [.defer_ .direct 1 .res, .setResult 5, .defer_ .mexpr 1 .res, .call .pwrap 2, .deferRecover]⟩,
                 ⟨false, [.recover, .setOuter 7]⟩, ⟨true, [.defer_ .direct 1 (.const 3), .setResult 4, .ret]⟩] := by
  intro f
  match f with
  | 0 => decide
  | 1 => decide
  | 2 => decide
  | n + 3 => simp [Prog.fn, List.getD]

/-- the four witnesses of the defects repaired in round 2 (replaced panic, `defer recover()`, forwarding method,
    Goexit in a callee with defer) now agree -/
def W_replaced : Prog :=
  [⟨false, [.defer_ .direct 1 (.const 0), .defer_ .direct 2 (.const 0), .panic 1]⟩, ⟨false, [.recover]⟩, ⟨false, [.panic 2]⟩]
def W_builtin : Prog :=
  [⟨false, [.defer_ .direct 1 (.const 0), .deferRecover, .panic 1]⟩, ⟨false, [.recover]⟩]
def W_forward : Prog :=
  [⟨false, [.defer_ .direct 1 (.const 0), .defer_ .pwrap 2 (.const 0), .panic 1]⟩, ⟨false, [.recover]⟩, ⟨false, [.recover]⟩]
def W_goexit : Prog :=
  [⟨false, [.call .direct 1, .recover]⟩, ⟨false, [.defer_ .direct 2 (.const 1), .goexit]⟩, ⟨false, [.recover]⟩]

theorem repaired_witnesses_agree :
    emu 40 W_replaced = ref 40 W_replaced ∧ emu 40 W_builtin = ref 40 W_builtin ∧
    emu 40 W_forward = ref 40 W_forward ∧ emu 40 W_goexit = ref 40 W_goexit := by
  refine ⟨?_, ?_, ?_, ?_⟩ <;> decide +kernel

/-! ## the proved fragment of `defer_refines`: single-frame goroutine functions -/

def isLeafStmt : Stmt → Bool
  | .call .. => false
  | .defer_ .. => false
  | .deferRecover => false
  | _ => true

/-- what the two interpreters must agree on after running (a prefix of) a leaf body -/
def LeafRel (fr : EFrame) (e : JS × Comp) (r : RBodyRes) (exit0 : Bool) : Prop :=
  e.1.trace = r.st.trace ∧ r.fr.defers = [] ∧
  (match e.2, r.comp with
   | .normal, .normal => e.1.cell fr.cell = r.fr.res ∧ e.1.cell fr.outer = r.outer ∧ e.1.exit = exit0
   | .ret v, .normal => v = r.fr.res ∧ e.1.cell fr.cell = r.fr.res ∧ e.1.cell fr.outer = r.outer ∧ e.1.exit = exit0
   | .throw (.goErr v), .panicking => r.st.panics = [.panic v false] ∧ e.1.exit = exit0
   | .throw (.jsErr v), .panicking => r.st.panics = [.panic v false] ∧ e.1.exit = exit0
   | .throw .null, .exiting => e.1.exit = true
   | _, _ => False)

theorem ePanic_top (P : Prog) (k : Nat) (v : Val) (d : Nat) (s : JS)
    (h1 : s.psd = none) (h2 : s.deferStack = []) (h3 : s.panicStack = []) :
    ePanic (k + 3) P v d s = (s, .throw (.goErr v)) := by
  obtain ⟨lists, ds, ps, psd, pv, off, exit, cells, trace⟩ := s
  simp only at h1 h2 h3
  subst h1 h2 h3
  simp [ePanic, eCallDeferred, eLoop, getStackDepth]

theorem leaf_sim (P : Prog) : ∀ (stmts : List Stmt), stmts.all isLeafStmt = true →
    ∀ (n m : Nat), stmts.length + 3 < n → stmts.length < m →
    ∀ (fr : EFrame) (s : JS) (byPanic : Bool) (outer : Val) (rfr : RFrame) (st : RState),
    s.psd = none → s.deferStack = [] → s.panicStack = [] → st.panics = [] →
    fr.cell ≠ fr.outer → fr.cell < s.cells.length → fr.outer < s.cells.length →
    s.cell fr.cell = rfr.res → s.cell fr.outer = outer → s.trace = st.trace → rfr.defers = [] →
    LeafRel fr (eBody n P stmts fr s) (rBody m P stmts byPanic outer rfr st) s.exit := by
  intro stmts
  induction stmts with
  | nil =>
    intro _ n m hn hm fr s byPanic outer rfr st h1 h2 h3 h4 h5 h6 h7 h8 h9 h10 h11
    obtain ⟨n, rfl⟩ : ∃ k, n = k + 1 := ⟨n - 1, by omega⟩
    obtain ⟨m, rfl⟩ : ∃ k, m = k + 1 := ⟨m - 1, by omega⟩
    simp [eBody, rBody, LeafRel, *]
  | cons a rest ih =>
    intro hl n m hn hm fr s byPanic outer rfr st h1 h2 h3 h4 h5 h6 h7 h8 h9 h10 h11
    simp only [List.all_cons, Bool.and_eq_true] at hl
    simp only [List.length_cons] at hn hm
    obtain ⟨n, rfl⟩ : ∃ k, n = k + 1 := ⟨n - 1, by omega⟩
    obtain ⟨m, rfl⟩ : ∃ k, m = k + 1 := ⟨m - 1, by omega⟩
    cases a with
    | call h g => simp [isLeafStmt] at hl
    | defer_ h g a => simp [isLeafStmt] at hl
    | deferRecover => simp [isLeafStmt] at hl
    | panic v =>
      obtain ⟨k, rfl⟩ : ∃ k, n = k + 3 := ⟨n - 3, by omega⟩
      simp [eBody, rBody, LeafRel, ePanic_top P k v _ s h1 h2 h3, h4, h10, h11]
    | nilDeref v => simp [eBody, rBody, LeafRel, h4, h10, h11]
    | recover =>
      have hr : rRecover byPanic st = (st, none) := by cases byPanic <;> simp [rRecover, h4]
      have he : eRecover (fr.d + 1) s = (s, none) := by simp [eRecover, h1]
      simp only [eBody, rBody, hr, he]
      have := ih hl.2 n m (by omega) (by omega) fr (s.emit (.recov none)) byPanic outer rfr (st.emit (.recov none))
        h1 h2 h3 h4 h5 h6 h7 h8 h9 (by simp [JS.emit, RState.emit, h10]) h11
      simpa [JS.emit] using this
    | ret => simp [eBody, rBody, LeafRel, h8, h9, h10, h11]
    | setResult v =>
      simp only [eBody, rBody]
      have := ih hl.2 n m (by omega) (by omega) fr (s.setCell fr.cell v) byPanic outer { rfr with res := v } st
        h1 h2 h3 h4 h5 (by simpa [JS.setCell] using h6) (by simpa [JS.setCell] using h7)
        (cell_setCell_same s _ v h6) (by rw [cell_setCell_other s _ _ v h5]; exact h9) h10 h11
      simpa [JS.setCell] using this
    | setOuter v =>
      simp only [eBody, rBody]
      have := ih hl.2 n m (by omega) (by omega) fr (s.setCell fr.outer v) byPanic v rfr st
        h1 h2 h3 h4 h5 (by simpa [JS.setCell] using h6) (by simpa [JS.setCell] using h7)
        (by rw [cell_setCell_other s _ _ v (Ne.symm h5)]; exact h8) (cell_setCell_same s _ v h7) h10 h11
      simpa [JS.setCell] using this
    | goexit =>
      obtain ⟨k, rfl⟩ : ∃ k, n = k + 1 := ⟨n - 1, by omega⟩
      simp [eBody, rBody, eGoexit, LeafRel, h2, h10, h11]



theorem leaf_no_defer : ∀ (b : List Stmt), b.all isLeafStmt = true → b.any Stmt.isDefer = false := by
  intro b
  induction b with
  | nil => simp
  | cons a t ih =>
    intro h
    simp only [List.all_cons, Bool.and_eq_true] at h
    simp only [List.any_cons, ih h.2, Bool.or_false]
    cases a <;> simp_all [isLeafStmt, Stmt.isDefer]

theorem rDefers_nil (P : Prog) (k : Nat) (mode : RComp) (base : Nat) (byP : Bool) (fr : RFrame) (st : RState)
    (hm : mode ≠ .oof) (hd : fr.defers = []) : rDefers (k + 1) P mode base byP fr st = ⟨mode, fr, st⟩ := by
  cases mode <;> simp_all [rDefers]

/-- `defer_refines` restricted to goroutine functions that are a single frame (no call, no defer statement):
    explicit and run-time panics reach the top with their value, `recover()` outside a deferred call is nil,
    `runtime.Goexit` ends the goroutine, results are kept — emulation = reference, for every such body. -/
theorem defer_refines_partial (P : Prog) (hl : (P.fn 0).body.all isLeafStmt = true) (n m : Nat)
    (hn : (P.fn 0).body.length + 4 < n) (hm : (P.fn 0).body.length + 2 < m) : emu n P = ref m P := by
  obtain ⟨n, rfl⟩ : ∃ k, n = k + 1 := ⟨n - 1, by omega⟩
  obtain ⟨m, rfl⟩ : ∃ k, m = k + 2 := ⟨m - 2, by omega⟩
  have hnd : (P.fn 0).hasDefer = false := leaf_no_defer _ hl
  have H := leaf_sim P _ hl n (m + 1) (by omega) (by omega) ⟨1, 0, 0, 2⟩
    ({ (JS.init.emit (.run 0 0)) with cells := (JS.init.emit (.run 0 0)).cells ++ [0] }) false 0 ⟨0, []⟩
    ((⟨[], []⟩ : RState).emit (.run 0 0)) rfl rfl rfl rfl (by decide) (by decide) (by decide) rfl rfl rfl rfl
  simp only [emu, ref, eFn, rCall, hnd]
  simp only [JS.init, JS.emit, RState.emit, List.length_cons, List.length_nil, Bool.not_false, if_true] at H ⊢
  generalize eBody n P (P.fn 0).body _ _ = e at H ⊢
  generalize rBody (m + 1) P (P.fn 0).body _ _ _ _ = r at H ⊢
  obtain ⟨es, ec⟩ := e
  obtain ⟨rc, ro, rfr, rst⟩ := r
  obtain ⟨h1, h2, h3⟩ := H
  simp only at h1 h2 h3
  cases ec with
  | normal =>
    cases rc <;> simp only at h3
    simp [rDefers_nil, h2, h1]
  | ret v =>
    cases rc <;> simp only at h3
    simp [rDefers_nil, h2, h1]
  | throw e =>
    cases e <;> cases rc <;> simp only at h3
    all_goals simp [rDefers_nil, h2, h1, h3, topPanicValue]
  | oof => cases rc <;> simp only at h3


/-- the hypothesis is satisfiable by a non-trivial body: named result set, recover, explicit panic -/
example : (Prog.fn [⟨true, [.setResult 3, .recover, .setOuter 4, .panic 7, .goexit]⟩] 0).body.all isLeafStmt = true ∧
    emu 20 [⟨true, [.setResult 3, .recover, .setOuter 4, .panic 7, .goexit]⟩] = ⟨[.run 0 0, .recov none], .panic 7⟩ := by
  constructor <;> decide +kernel


/-! NOT proved: `defer_refines` for programs in which a panic or `runtime.Goexit` crosses a frame that has pending
    deferred calls (the simulation between `$callDeferred`'s in-place loop over all `$deferred` lists and the
    frame-by-frame unwinding of the reference), the converse direction (emulation terminates ⇒ reference terminates),
    and suspension inside deferred calls. These are compared only by the correspondence runs of checks/c08.py. -/

end GV.Props.C08
