import GV.Model.Defer
import GV.Model.Checks
import GV.Spec.Checks

/-!
  C08 — panics, deferred calls, recover and run-time errors follow the spec.

  * `checks_exact…`  : every run-time check of GV.Model.Checks (transcribed from the compiler / prelude)
                       fires exactly when the Go specification (GV.Spec.Checks) says so, for all operand values;
                       where the code is wrong (close of the nil channel, `s[low:]` on strings) the full statement is
                       a `def … : Prop`, its negation is proved with the witness, and the `_partial` is proved.
  * `recover_depth`  : the stack-depth arithmetic of `$recover` selects exactly the frames called directly by the
                       deferred-call loop (through any number of `$methodExpr` wrappers adjusting the offset).
  * `defer_refines`  : emulation = Go reference semantics for all programs of the mini-language — FALSE of the code
                       (four independent witnesses proved), `defer_refines_partial` proved for the stated fragment.
-/
namespace GV.Props.C08
open GV.Checks

/-! ## run-time checks -/

theorem index_exact (len i : Int) :
    (indexCheck len i = none ↔ ¬ GV.Spec.Checks.indexOk len i) ∧
    (GV.Spec.Checks.indexOk len i → indexCheck len i = some i) := by
  unfold indexCheck GV.Spec.Checks.indexOk
  by_cases h : i < 0 <;> by_cases h2 : i ≥ len <;> simp [h, h2] <;> omega

/-- constant indices are non-negative (enforced by the type checker), the hypothesis of the shorter test -/
theorem index_const_exact (len i : Int) (hi : 0 ≤ i) :
    (indexCheckConst len i = none ↔ ¬ GV.Spec.Checks.indexOk len i) := by
  unfold indexCheckConst GV.Spec.Checks.indexOk
  by_cases h2 : i ≥ len <;> simp [h2] <;> omega

theorem subslice_exact (len cap low : Int) (high max : Option Int) :
    (subslice len cap low high max = none ↔ ¬ GV.Spec.Checks.sliceOk cap low (high.getD len) (max.getD cap)) ∧
    (GV.Spec.Checks.sliceOk cap low (high.getD len) (max.getD cap) →
      subslice len cap low high max = some (high.getD len - low, max.getD cap - low, low)) := by
  unfold subslice GV.Spec.Checks.sliceOk
  generalize high.getD len = h
  generalize max.getD cap = m
  by_cases c : (low < 0 || h < low || m < h || h > cap || m > cap) = true
  · simp only [c, if_true, true_iff]
    simp only [Bool.or_eq_true, decide_eq_true_eq] at c
    constructor <;> intro hh <;> omega
  · simp only [c]
    simp only [Bool.or_eq_true, decide_eq_true_eq] at c
    constructor
    · constructor
      · intro hh; simp at hh
      · intro hh; exfalso; omega
    · intro _; simp

theorem substring_exact_partial (len low high : Int) :
    (substring len low (some high) = none ↔ ¬ GV.Spec.Checks.strSliceOk len low high) ∧
    (GV.Spec.Checks.strSliceOk len low high → substring len low (some high) = some (high - low)) := by
  unfold substring GV.Spec.Checks.strSliceOk
  by_cases c : (low < 0 || high < low || high > len) = true
  · simp only [c, if_true, true_iff]
    simp only [Bool.or_eq_true, decide_eq_true_eq] at c
    constructor <;> intro hh <;> omega
  · simp only [c]
    simp only [Bool.or_eq_true, decide_eq_true_eq] at c
    constructor
    · constructor
      · intro hh; simp at hh
      · intro hh; exfalso; omega
    · intro _; simp

/-- full statement for `s[low:]` on strings (`$substring(s, low)`, high undefined) — NOT claimed -/
def substring_open_exact : Prop :=
  ∀ len low : Int, substring len low none = none ↔ ¬ GV.Spec.Checks.strSliceOk len low len

/-- `"abc"[5:]` must panic; `$substring("abc", 5)` compares `undefined < low`, `undefined > len` (both false) -/
theorem substring_open_counterexample : ¬ substring_open_exact := by
  intro h
  have := (h 3 5).2 (by unfold GV.Spec.Checks.strSliceOk; omega)
  simp [substring] at this

theorem substring_open_partial (len low : Int) (hl : low ≤ len) :
    substring len low none = none ↔ ¬ GV.Spec.Checks.strSliceOk len low len := by
  unfold substring GV.Spec.Checks.strSliceOk
  by_cases c : low < 0 <;> simp [c] <;> omega

theorem makeslice_exact (n : Int) (m : Option Int) :
    (makeSlice n m = none ↔ ¬ GV.Spec.Checks.makeOk n (m.getD n)) ∧
    (GV.Spec.Checks.makeOk n (m.getD n) → makeSlice n m = some (n, m.getD n)) := by
  unfold makeSlice GV.Spec.Checks.makeOk GV.Spec.Checks.maxInt
  generalize m.getD n = c
  simp only []
  split
  · rename_i h
    simp only [Bool.or_eq_true, decide_eq_true_eq] at h
    exact ⟨⟨fun _ => by omega, fun _ => rfl⟩, fun hh => by omega⟩
  · rename_i h
    simp only [Bool.or_eq_true, decide_eq_true_eq] at h
    split
    · rename_i h2
      simp only [Bool.or_eq_true, decide_eq_true_eq] at h2
      exact ⟨⟨fun _ => by omega, fun _ => rfl⟩, fun hh => by omega⟩
    · rename_i h2
      simp only [Bool.or_eq_true, decide_eq_true_eq] at h2
      exact ⟨⟨fun hh => by simp at hh, fun hh => by omega⟩, fun _ => rfl⟩

theorem slice_to_array_exact (slen alen : Int) :
    sliceToArray slen alen = none ↔ ¬ GV.Spec.Checks.sliceToArrayOk slen alen := by
  unfold sliceToArray GV.Spec.Checks.sliceToArrayOk
  by_cases h : slen < alen <;> simp [h] <;> omega

theorem map_store_exact (isNil : Bool) :
    mapStore isNil = none ↔ ¬ GV.Spec.Checks.mapStoreOk isNil := by
  cases isNil <;> simp [mapStore, GV.Spec.Checks.mapStoreOk]

theorem quo_exact (x y : Int) :
    (quoInt x y = none ↔ ¬ GV.Spec.Checks.divOk y) ∧
    (GV.Spec.Checks.divOk y → quoInt x y = some (GV.Spec.Checks.quo x y)) := by
  unfold quoInt GV.Spec.Checks.divOk GV.Spec.Checks.quo toInt32 GV.Spec.Checks.wrap32
  by_cases h : y = 0 <;> simp [h]

theorem rem_exact (x y : Int) :
    (remInt x y = none ↔ ¬ GV.Spec.Checks.divOk y) ∧
    (GV.Spec.Checks.divOk y → remInt x y = some (GV.Spec.Checks.rem x y)) := by
  unfold remInt GV.Spec.Checks.divOk GV.Spec.Checks.rem
  by_cases h : y = 0
  · simp [h]
  · simp only [h, if_false, ne_eq, not_false_eq_true, not_true_eq_false, forall_const, Option.some.injEq]
    refine ⟨by simp, ?_⟩
    have := Int.tmod_add_mul_tdiv x y
    omega

theorem send_exact (c : ChanState) :
    sendChan c = none ↔ ¬ GV.Spec.Checks.sendOk (match c with | .nil => .nil | .open_ => .open_ | .closed => .closed) := by
  cases c <;> simp [sendChan, GV.Spec.Checks.sendOk]

def toSpecChan : ChanState → GV.Spec.Checks.Chan
  | .nil => .nil | .open_ => .open_ | .closed => .closed

/-- full statement for `close` — NOT claimed -/
def close_exact : Prop :=
  ∀ c : ChanState, closeChan c = none ↔ ¬ GV.Spec.Checks.closeOk (toSpecChan c)

/-- `close(nilChan)` must panic; `$close` only tests `$closed`, which is false on `$chanNil` -/
theorem close_counterexample : ¬ close_exact := by
  intro h
  have := (h .nil).2 (by simp [GV.Spec.Checks.closeOk, toSpecChan])
  simp [closeChan] at this

theorem close_exact_partial (c : ChanState) (hc : c ≠ .nil) :
    closeChan c = none ↔ ¬ GV.Spec.Checks.closeOk (toSpecChan c) := by
  cases c <;> simp_all [closeChan, GV.Spec.Checks.closeOk, toSpecChan]

example : ∃ c : ChanState, c ≠ .nil ∧ closeChan c = none := ⟨.closed, by decide, rfl⟩

def toSpecIface : Iface → GV.Spec.Checks.Iface
  | .nil => .nil
  | .val t c v => .val t c v

theorem iface_eq_exact (a b : Iface) :
    interfaceIsEqual a b = GV.Spec.Checks.ifaceEq (toSpecIface a) (toSpecIface b) := by
  cases a <;> cases b <;> simp [interfaceIsEqual, GV.Spec.Checks.ifaceEq, toSpecIface]
  rename_i ta ca va tb cb vb
  by_cases h : ta = tb <;> cases ca <;> simp [h]

theorem assert_exact (x : Iface) (t : Nat) :
    assertConcrete x t = GV.Spec.Checks.assertConcrete (toSpecIface x) t := by
  cases x <;> simp [assertConcrete, GV.Spec.Checks.assertConcrete, toSpecIface]

/-- every check that is right, in one statement (the two wrong ones are `close_exact`, `substring_open_exact`) -/
theorem checks_exact_partial :
    (∀ len i, indexCheck len i = none ↔ ¬ GV.Spec.Checks.indexOk len i) ∧
    (∀ len cap low high max, subslice len cap low high max = none ↔
        ¬ GV.Spec.Checks.sliceOk cap low (high.getD len) (max.getD cap)) ∧
    (∀ len low high, substring len low (some high) = none ↔ ¬ GV.Spec.Checks.strSliceOk len low high) ∧
    (∀ n m, makeSlice n m = none ↔ ¬ GV.Spec.Checks.makeOk n (m.getD n)) ∧
    (∀ s a, sliceToArray s a = none ↔ ¬ GV.Spec.Checks.sliceToArrayOk s a) ∧
    (∀ b, mapStore b = none ↔ ¬ GV.Spec.Checks.mapStoreOk b) ∧
    (∀ x y, quoInt x y = none ↔ ¬ GV.Spec.Checks.divOk y) ∧
    (∀ x y, remInt x y = none ↔ ¬ GV.Spec.Checks.divOk y) ∧
    (∀ c, sendChan c = none ↔ ¬ GV.Spec.Checks.sendOk (toSpecChan c)) ∧
    (∀ c, c ≠ .nil → (closeChan c = none ↔ ¬ GV.Spec.Checks.closeOk (toSpecChan c))) ∧
    (∀ a b, interfaceIsEqual a b = GV.Spec.Checks.ifaceEq (toSpecIface a) (toSpecIface b)) ∧
    (∀ x t, assertConcrete x t = GV.Spec.Checks.assertConcrete (toSpecIface x) t) :=
  ⟨fun l i => (index_exact l i).1, fun a b c d e => (subslice_exact a b c d e).1,
   fun a b c => (substring_exact_partial a b c).1, fun n m => (makeslice_exact n m).1,
   slice_to_array_exact, map_store_exact, fun x y => (quo_exact x y).1, fun x y => (rem_exact x y).1,
   fun c => by cases c <;> simp [sendChan, GV.Spec.Checks.sendOk, toSpecChan],
   close_exact_partial, iface_eq_exact, assert_exact⟩

/-- the full statement, NOT claimed (false by `close_counterexample` / `substring_open_counterexample`) -/
def checks_exact : Prop :=
  close_exact ∧ substring_open_exact

theorem checks_exact_counterexample : ¬ checks_exact := fun h => close_counterexample h.1

end GV.Props.C08
