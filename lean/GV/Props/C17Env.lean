import GV.Props.C17
import GV.Generated.MapRanges

/-!
  C17 — obligation over facts re-extracted from /repo on every run: every place where a runtime-chosen
  iteration order could matter (range over a map, unstable sort, InstanceMap.Iterate caller) is in the
  audited table below with the class that makes it harmless and the fingerprint of the audited code.
  A new site, or an edit of an audited loop / block, breaks `sites_audited`; the check then searches
  for a non-reproducible build (many fresh compiler processes) before reporting.

  Classes and the theorem that discharges each:
    S  keys/strings collected, then `sort.Strings` in the same block      — `sortedKeys_perm_invariant`
    U  `sort.Slice` by a key that is injective on the slice (file names in a package, import paths)
                                                                          — `sort_perm_invariant` (a sorted
       permutation is unique under an antisymmetric order, whatever the algorithm)
    K  each iteration writes only state indexed by its own key (map copy, set insert, per-element
       mutation)                                                          — `fold_perm_invariant`, `store_comm`
    C  commutative reduction (conjunction)                                — `all_perm_invariant`
    F  one round of a monotone propagation iterated to its fixed point    — least fixed point, order-free
                                                                            (proved in GV.Props.C02 `propagate_lfp`)
    D  generic iterator; its callers are the `iterate` sites              — audited at the callers
    N  no caller outside tests (`InstanceMap.Keys`)                       — cannot reach the output
-/
namespace GV.Props.C17
open GV.Generated

structure Audit where
  kind : String
  file : String
  func : String
  expr : String
  n : Nat
  cls : String
  fingerprint : String      -- of the enclosing block for class S, of the loop / call itself otherwise

def audited : List Audit := [
  ⟨"iterate", "compiler/internal/analysis/info.go", "(*Info).propagateFunctionBlocking", "caller.instCallees.Iterate", 1, "F", "1249cc4ccf"⟩,
  ⟨"iterate", "compiler/internal/typeparams/map.go", "(*InstanceMap[V]).Keys", "im.Iterate", 1, "N", "1b1203693e"⟩,
  ⟨"iterate", "compiler/internal/typeparams/map.go", "(*InstanceMap[V]).String", "im.Iterate", 1, "S", "d962bf7d1f"⟩,
  ⟨"maprange", "build/build.go", "(*Session).BuildFiles", "dirSet", 1, "S", "98c45f4202"⟩,
  ⟨"maprange", "build/build.go", "(*Session).GetSortedSources", "s.sources", 1, "S", "3a2d2ede10"⟩,
  ⟨"maprange", "build/build.go", "pruneImports", "unused", 1, "K", "d390ae73ef"⟩,
  ⟨"maprange", "build/build.go", "pruneImports", "unused", 2, "K", "d2a988515f"⟩,
  ⟨"maprange", "build/build.go", "pruneImports", "unused", 3, "K", "189865247d"⟩,
  ⟨"maprange", "build/context.go", "(simpleCtx).Match", "buildutil.ExpandPatterns(&sc.bctx, args)", 1, "S", "199450e759"⟩,
  ⟨"maprange", "build/context.go", "updateImports", "importPos", 1, "K", "bec483f2a9"⟩,
  ⟨"maprange", "build/context.go", "updateImports", "newImportPos", 1, "S", "5c9c003938"⟩,
  ⟨"maprange", "build/embed.go", "joinEmbedPatternPos", "m1", 1, "K", "c4b1246ad7"⟩,
  ⟨"maprange", "build/embed.go", "joinEmbedPatternPos", "m2", 1, "K", "a377af7698"⟩,
  ⟨"maprange", "compiler/expressions.go", "(*funcContext).translateExpr", "fc.pkgCtx.escapingVars", 1, "S", "95af83d451"⟩,
  ⟨"maprange", "compiler/functions.go", "(*funcContext).nestedFunctionContext", "fc.allVars", 1, "K", "c0ee04be1d"⟩,
  ⟨"maprange", "compiler/internal/analysis/info.go", "(*Info).propagateFunctionBlocking", "caller.literalFuncCallees", 1, "F", "740c7cba2d"⟩,
  ⟨"maprange", "compiler/internal/dce/filters.go", "(*filterGen).pushGenerics", "oldReplacement", 1, "K", "e508651071"⟩,
  ⟨"maprange", "compiler/internal/dce/info.go", "(*Info).getDeps", "id.deps", 1, "S", "0e1b750703"⟩,
  ⟨"maprange", "compiler/internal/typeparams/collect.go", "(*Collector).Finish", "*c.Instances", 1, "S", "753d7a0def"⟩,
  ⟨"maprange", "compiler/internal/typeparams/instance.go", "(PackageInstanceSets).allExhausted", "i", 1, "C", "cb83550086"⟩,
  ⟨"maprange", "compiler/internal/typeparams/map.go", "(*InstanceMap[V]).Iterate", "im.data", 1, "D", "4dfbcebb9b"⟩,
  ⟨"maprange", "compiler/internal/typeparams/map.go", "(*InstanceMap[V]).Iterate", "mapBucket", 1, "D", "1269538cca"⟩,
  ⟨"maprange", "compiler/internal/typeparams/resolver.go", "(*Resolver).String", "r.replacements", 1, "S", "12f63f208d"⟩,
  ⟨"maprange", "compiler/package.go", "newRootCtx", "reservedKeywords", 1, "K", "9d016fd211"⟩,
  ⟨"maprange", "compiler/utils.go", "(*funcContext).handleEscapingVars", "fc.pkgCtx.escapingVars", 1, "K", "de32085f7c"⟩,
  ⟨"unstablesort", "compiler/decls.go", "(*funcContext).importDecls", "sort.Slice(imports)", 1, "U", "f4f24f85cf"⟩,
  ⟨"unstablesort", "compiler/sources/sources.go", "(*Sources).Sort", "sort.Slice(s.Files)", 1, "U", "9b8c1661a0"⟩,
  ⟨"unstablesort", "compiler/sources/sources.go", "SortedSourcesSlice", "sort.Slice(sourcesSlice)", 1, "U", "6c48bff73d"⟩ ]

def siteOK (s : Site) : Bool :=
  audited.any fun a =>
    a.kind == s.kind && a.file == s.file && a.func == s.func && a.expr == s.expr && a.n == s.n &&
    a.fingerprint == (if a.cls == "S" then s.block else s.loop)

/-- every extracted site is audited, with the audited code unchanged -/
theorem sites_audited : sites.all siteOK = true := by decide

/-- and the audit table has no stale rows (every audited site still exists) -/
theorem audit_not_stale :
    audited.all (fun a => sites.any fun s =>
      a.kind == s.kind && a.file == s.file && a.func == s.func && a.expr == s.expr && a.n == s.n) = true := by decide

/-! ### state a build session carries from one project to the next (build/build.go `Session`)

  Audited by reading: `importPaths` and `packages` cache path resolution and package metadata (functions of the file
  system and the build context only, the same for every project); `sources` (ASTs, simplified in place while a project is
  prepared) and `UpToDateArchives` (compiled for one project's instance set) are project-dependent and must start empty
  for every project — then `session_independent` / `session_project_context` apply. A new map field, or a reset that
  disappears from the head of `BuildProject`, breaks these obligations. -/

def sessionAudited : List (String × Bool) :=      -- (field, project-dependent?)
  [("UpToDateArchives", true), ("importPaths", false), ("packages", false), ("sources", true)]

theorem session_fields_audited : sessionMapFields = sessionAudited.map (·.1) := by decide

theorem project_state_reset :
    (sessionAudited.filter (·.2)).all (fun f => sessionResetFields.contains f.1) = true := by decide

end GV.Props.C17
