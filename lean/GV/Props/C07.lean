/-
  GV.Props.C07 — "Arrays and structs are values; pointers, slices and maps alias".

  Slices (model GV.Model.Slice = transcription of prelude.js; spec GV.Spec.Slice = the Go specification):
    subslice_spec, subslice_wf, copy_spec, append_spec, appendSlice_spec, append_fresh_elems
  Values (model GV.Model.Heap = JS objects + `$clone` where `cloneAt`; spec GV.Spec.GoValue = flat Go memory):
    clone_deep, copy_in_place, no_sharing, value_semantics (full strength), cloneAt_newLocation; section "Repaired defects"
-/
import GV.Proofs.SliceAppendSlice
import GV.Proofs.HeapSim
import GV.Proofs.PtrAlias
import GV.Proofs.PtrInPlace

namespace GV.Props.C07
open GV.Slice GV.Spec.Slice

/-! ## Slices -/

/-- `$subslice` panics exactly when Go does, otherwise it returns the Go header: ALL headers, ALL indices,
    2- and 3-index forms, absent `high`/`max`, nil slices. -/
theorem subslice_spec (s : Hdr) (low : Int) (high max : Option Int) :
    (GV.Slice.subslice s low high max = none ↔ ¬ inRange s.len s.cap low high max) ∧
    (∀ r, GV.Slice.subslice s low high max = some r → toGo r = GV.Spec.Slice.subslice (toGo s) low high max) :=
  subslice_spec' s low high max

/-- a subslice of a well-formed header is well-formed (its capacity window stays inside the backing array) -/
theorem subslice_wf {α} (A : Arrays α) (s r : Hdr) (low : Int) (high max : Option Int)
    (hwf : s.wf A) (h : GV.Slice.subslice s low high max = some r) : r.wf A := by
  obtain ⟨h1, h2⟩ := hwf
  unfold GV.Slice.subslice at h
  dsimp only at h
  generalize high.getD (s.len : Int) = hi at h
  generalize max.getD (s.cap : Int) = mx at h
  by_cases hb : low < 0 ∨ hi < low ∨ mx < hi ∨ hi > s.cap ∨ mx > s.cap
  · rw [if_pos hb] at h; simp at h
  · rw [if_neg hb] at h
    by_cases hn : s.isNil = true
    · rw [if_pos hn] at h
      simp only [Option.some.injEq] at h
      subst h
      exact ⟨h1, h2⟩
    · rw [if_neg hn] at h
      simp only [Option.some.injEq] at h
      subst h
      constructor
      · dsimp only; omega
      · dsimp only; omega

/-- `copy(dst, src)` = memmove of `min(len)` elements, correct for overlapping windows in BOTH directions
    (every element representation, all well-formed headers); no other cell of any array changes. -/
theorem copy_spec {α} (k : Kind) (A : Arrays α) (dst src : Hdr)
    (hd : dst.wf A) (hs : src.wf A) (hda : dst.arr < A.length) :
    (copySlice k A dst src).2 = copyCount dst.len src.len ∧
    getArr (copySlice k A dst src).1 dst.arr
      = moveCells (getArr A dst.arr) (getArr A src.arr) dst.off src.off (copyCount dst.len src.len) ∧
    (∀ id, id ≠ dst.arr → getArr (copySlice k A dst src).1 id = getArr A id) :=
  copySlice_spec k A dst src hd hs hda

/-- the loops of `$copyArray` themselves (all offsets, both directions, same or different arrays) -/
theorem copyArray_memmove {α} (srcTyped spine same : Bool) (dst src : List α) (dOff sOff n : Nat)
    (hsame : same = true → src = dst) (hd : dOff + n ≤ dst.length) (hs : sOff + n ≤ src.length) :
    copyArray srcTyped spine same dst src dOff sOff n = moveCells dst src dOff sOff n :=
  copyArray_spec srcTyped spine same dst src dOff sOff n hsame hd hs

/-- `append(s, vals…)`: contents and length as Go; reallocates iff `len + n > cap`; within capacity writes only
    cells `[len, len+n)` behind the window of the shared array; beyond capacity writes no existing array; the result
    is well-formed (`cap ≥ len`). The capacity growth rule itself is implementation-defined in Go. -/
theorem append_spec {α} (k : Kind) (zero : α) (A : Arrays α) (s : Hdr) (vals : List α)
    (hwf : s.wf A) (harr : s.arr < A.length) :
    view (append k zero A s vals).arrays (append k zero A s vals).hdr = view A s ++ vals ∧
    (append k zero A s vals).hdr.len = s.len + vals.length ∧
    (append k zero A s vals).hdr.wf (append k zero A s vals).arrays ∧
    (((append k zero A s vals).hdr.arr ≠ s.arr) ↔ (vals ≠ [] ∧ mustReallocate s.len s.cap vals.length)) ∧
    ((append k zero A s vals).hdr.arr = s.arr →
        (append k zero A s vals).hdr.off = s.off ∧ (append k zero A s vals).hdr.cap = s.cap ∧
        getArr (append k zero A s vals).arrays s.arr
          = moveCells (getArr A s.arr) vals (s.off + s.len) 0 vals.length ∧
        ∀ id, id ≠ s.arr → getArr (append k zero A s vals).arrays id = getArr A id) ∧
    ((append k zero A s vals).hdr.arr ≠ s.arr →
        ∀ id, id < A.length → getArr (append k zero A s vals).arrays id = getArr A id) :=
  append_spec' k zero A s vals hwf harr

/-- `append(s, t...)`: elements of `s` followed by the ORIGINAL elements of `t`, also when `t` is a window of the same
    backing array overlapping the written cells (either direction); reallocation iff `len(s)+len(t) > cap(s)`; within
    capacity only cells `[len, len+n)` behind `s` are written; beyond capacity no existing array is written. -/
theorem appendSlice_spec {α} (k : Kind) (zero : α) (A : Arrays α) (s t : Hdr)
    (hwf : s.wf A) (htw : t.wf A) (harr : s.arr < A.length) (htarr : t.arr < A.length) :
    view (appendSlice k zero A s t).arrays (appendSlice k zero A s t).hdr = view A s ++ view A t ∧
    (appendSlice k zero A s t).hdr.len = s.len + t.len ∧
    (appendSlice k zero A s t).hdr.wf (appendSlice k zero A s t).arrays ∧
    (((appendSlice k zero A s t).hdr.arr ≠ s.arr) ↔ (t.len ≠ 0 ∧ mustReallocate s.len s.cap t.len)) ∧
    ((appendSlice k zero A s t).hdr.arr = s.arr →
        (appendSlice k zero A s t).hdr.off = s.off ∧ (appendSlice k zero A s t).hdr.cap = s.cap ∧
        getArr (appendSlice k zero A s t).arrays s.arr
          = moveCells (getArr A s.arr) (getArr A t.arr) (s.off + s.len) t.off t.len ∧
        ∀ id, id ≠ s.arr → getArr (appendSlice k zero A s t).arrays id = getArr A id) ∧
    ((appendSlice k zero A s t).hdr.arr ≠ s.arr →
        ∀ id, id < A.length → getArr (appendSlice k zero A s t).arrays id = getArr A id) :=
  appendSlice_spec' k zero A s t hwf htw harr htarr

/-- FULL STRENGTH: after `append` the new backing array never shares element OBJECTS with the old one (Go: a
    reallocated array is a copy, so `t := append(s, x); t[0].f = 1` is invisible through `s`) — every element
    representation, every well-formed header, every list of values. -/
theorem append_fresh_elems {α} (k : Kind) (zero : α) (A : Arrays α) (s : Hdr) (vals : List α) (hwf : s.wf A) :
    (append k zero A s vals).reusedElemObjects = false :=
  append_reused k zero A s vals hwf

/-! ## Values -/
open GV.Heap GV.Spec.GoValue

/-- `$clone(v, T)` (= `T.zero()` then `T.copy`) of an array/struct value represents the same Go value — every int cell
    and every reference cell, so pointers, slices, maps, interfaces are SHARED —, its whole array/struct spine consists
    of NEW objects forming a tree, and nothing that existed before is modified: it copies exactly the spine. -/
theorem clone_deep (t : Ty) (ht : isSpine t = true) (H : Heap) (v : Int) (hv : ∀ id ∈ spine t H v, id < H.next) :
    flat t (clone t H v).1 (clone t H v).2 = flat t H v
  ∧ (∀ id ∈ spine t (clone t H v).1 (clone t H v).2, H.next ≤ id ∧ id < (clone t H v).1.next)
  ∧ (spine t (clone t H v).1 (clone t H v).2).Nodup
  ∧ (∀ id, id < H.next → ∀ i, (clone t H v).1.cell id i = H.cell id i)
  ∧ H.next ≤ (clone t H v).1.next :=
  GV.Heap.clone_deep t ht H v hv

/-- `T.copy(dst, src)` (the in-place contexts): `dst` then represents the value of `src`, keeps its own objects
    (pointers to `dst` and to its fields/elements stay valid), and nothing outside `dst`'s spine changes. -/
theorem copy_in_place (t : Ty) (ht : isSpine t = true) (H : Heap) (d s : Int) (hnd : (spine t H d).Nodup)
    (hdj : ∀ x ∈ spine t H d, x ∉ spine t H s) :
    flat t (copyInto t H d s) d = flat t H s ∧ spine t (copyInto t H d s) d = spine t H d ∧
    (copyInto t H d s).next = H.next ∧
    ∀ id, id ∉ spine t H d → ∀ i, (copyInto t H d s).cell id i = H.cell id i :=
  copyInto_correct t ht H d s hnd hdj

/-- OWNERSHIP INVARIANT, by induction over statement sequences: under any clone table that copies at every
    new-location context used by the program, in every reachable JS heap the array/struct spines of all storage
    locations are pairwise disjoint trees of allocated objects (two distinct locations never share an object). -/
theorem no_sharing (tbl : Ctx → Bool) (prog : List Stmt) (h : ∀ s ∈ prog, stmtOK tbl s) :
    Owned (prog.foldl (stepJS tbl) JState.init) :=
  GV.Heap.no_sharing tbl prog h

/-- hence the JS run (references + clone where the table says) and the Go run (flat copied memory) of EVERY program
    of the copy-context language print the same observations, whatever later mutations the program performs. -/
theorem value_semantics_partial (tbl : Ctx → Bool) (prog : List Stmt) (h : ∀ s ∈ prog, stmtOK tbl s) :
    runJS tbl prog = runGo prog :=
  GV.Heap.value_semantics_partial tbl prog h

/-- the translator's table copies at EVERY new-location context -/
theorem cloneAt_newLocation (c : Ctx) (h : c.kind = .newLocation) : cloneAt c = true :=
  GV.Heap.cloneAt_newLocation c h

/-- **value_semantics**, FULL STRENGTH for the translator's clone table: the JS run (references + `$clone` where the
    translator emits one) and the Go run (flat copied memory) of EVERY well-formed program of the copy-context language
    print the same observations. Well-formed = `bind` uses a new-location context, `store` an in-place context whose
    source variable is not the variable being overwritten; no context is excluded any more. -/
theorem value_semantics (prog : List Stmt) (h : ∀ s ∈ prog, wfStmt s) : runJS cloneAt prog = runGo prog :=
  GV.Heap.value_semantics prog h

/-- and the ownership invariant holds in every heap reachable by the translator's table -/
theorem no_sharing_cloneAt (prog : List Stmt) (h : ∀ s ∈ prog, wfStmt s) :
    Owned (prog.foldl (stepJS cloneAt) JState.init) :=
  GV.Heap.no_sharing_cloneAt prog h

/-- the premise of `value_semantics` is satisfiable by a non-trivial program (it uses all formerly excluded contexts) -/
example : ∀ s ∈ ([.decl (.struct [.int, .array 2 (.struct [.int, .ptr .int])]), .setLeaf 0 [1, 1, 0] 5,
     .bind .define (.loc 0 [1]), .bind .arg (.via .result (.loc 1 [0])),
     .store .assign 0 [1, 0] (.loc 2 []), .bind .box (.loc 0 []), .bind .rangeOperand (.loc 0 [1]),
     .bind .methodValue (.loc 0 []), .bind .boundCall (.loc 5 []), .bind .ifaceCall (.loc 3 []),
     .dump 0, .dump 3] : List Stmt), wfStmt s := by
  intro s hs
  simp only [List.mem_cons, List.not_mem_nil, or_false] at hs
  rcases hs with rfl | rfl | rfl | rfl | rfl | rfl | rfl | rfl | rfl | rfl | rfl | rfl <;>
    simp [wfStmt, Ctx.kind, Expr.var]

/-- PARAMETER PASSING COPIES FOR EVERY ARGUMENT EXPRESSION FORM: `e` ranges over ALL expressions of the language —
    a location `x.path`, or any nesting of temporaries around one (`result`: the result of a call that returns stored
    data; `conv`: an identity conversion `T(x)`; `deref`: `*p`; `mapLoad`, `recv`, `unbox`) — and the program around the
    call is arbitrary: whatever the callee does to its parameter and whatever happens to the source afterwards, the JS
    run equals the Go run. (The translator clones in `translateArgs` for every argument, utils.go.) -/
theorem arg_passing_copies (pre post : List Stmt) (e : Expr)
    (hpre : ∀ s ∈ pre, wfStmt s) (hpost : ∀ s ∈ post, wfStmt s) :
    runJS cloneAt (pre ++ .bind .arg e :: post) = runGo (pre ++ .bind .arg e :: post) := by
  apply GV.Heap.value_semantics
  intro s hs
  rcases List.mem_append.1 hs with h | h
  · exact hpre s h
  · rcases List.mem_cons.1 h with rfl | h
    · simp [wfStmt, Ctx.kind]
    · exact hpost s h

/-- RECEIVER-EVALUATION RULE of the table: the receiver of a method value, of `defer x.M()` and of `go x.M()` is copied at
    binding time, the automatic dereference of a pointer operand creates nothing — so (by `value_semantics`) binding
    through a pointer operand, mutating the pointee, then invoking the bound method twice behaves as in Go. -/
theorem bound_receiver_rule :
    cloneAt .methodValue = true ∧ cloneAt .deferRecv = true ∧ cloneAt .goRecv = true ∧ cloneAt .deref = false ∧
    ∀ c ∈ [Ctx.methodValue, Ctx.deferRecv, Ctx.goRecv],
      runJS cloneAt [.decl (.struct [.int]), .setLeaf 0 [0] 1, .bind c (.via .deref (.loc 0 [])), .setLeaf 0 [0] 2,
                     .bind .boundCall (.loc 1 []), .dump 2, .setLeaf 2 [0] 9, .bind .boundCall (.loc 1 []), .dump 3, .dump 0]
        = [[1], [1], [2]] := by
  refine ⟨rfl, rfl, rfl, rfl, ?_⟩
  intro c hc
  simp only [List.mem_cons, List.not_mem_nil, or_false] at hc
  rcases hc with rfl | rfl | rfl <;> decide

/-! ## Pointers (model GV.Model.Ptr: pointer objects = cached `$get/$set` pairs closed over a cell; pointers to
    array/struct storage = the object itself) -/
open GV.Ptr

/-- **pointer identity** `&x == &x`: taking the address of the same variable / field / element / package variable
    again yields the SAME pointer object (the `$ptr`, `$ptr_f`, `$indexPtr` caches) and allocates nothing -/
theorem ptr_identity (P : PHeap) (t : Target) :
    addrCell (addrCell P t).1 t = ((addrCell P t).1, (addrCell P t).2) ∧
    targetOf (addrCell P t).1 (addrCell P t).2 = some t :=
  ⟨addrCell_again P t, addrCell_target P t⟩

/-- Go's `p == q` (JS `===` on pointer objects) holds iff both point at the same cell; the invariant behind it
    (one pointer object per cell) is preserved by taking addresses and by stores -/
theorem ptr_eq_iff (P : PHeap) (hwf : P.wf) (p q : Nat) (t u : Target)
    (hp : targetOf P p = some t) (hq : targetOf P q = some u) : p = q ↔ t = u :=
  GV.Ptr.ptr_eq_iff P hwf p q t u hp hq

theorem ptr_wf_preserved (P : PHeap) (hwf : P.wf) (t : Target) (p : Nat) (v : Int) :
    (addrCell P t).1.wf ∧ (store P p v).wf ∧
    (∀ q u, targetOf P q = some u → targetOf (addrCell P t).1 q = some u) ∧
    (∀ q, targetOf (store P p v) q = targetOf P q) :=
  ⟨addrCell_wf P t hwf, store_wf P p v hwf, fun q u h => addrCell_mono P t u q h, fun q => store_targets P p v q⟩

/-- **alias_semantics**: a write through ANY pointer to a cell is observed through EVERY pointer to the same cell and by
    the variable / field / element / package variable itself; pointers to other cells and all other cells are
    unaffected; a direct assignment to the cell is observed through every pointer to it. -/
theorem alias_semantics (P : PHeap) (p q : Nat) (t : Target) (v : Int)
    (hp : targetOf P p = some t) (hq : targetOf P q = some t) :
    load (store P p v) q = some v ∧ (store P p v).heap.cell t.obj t.slot = v ∧
    (∀ r u, targetOf P r = some u → u ≠ t → load (store P p v) r = load P r) ∧
    (∀ o s, (o, s) ≠ (t.obj, t.slot) → (store P p v).heap.cell o s = P.heap.cell o s) ∧
    load (assignCell P t v) q = some v :=
  ⟨(store_observed P p q t v hp hq).1, (store_observed P p q t v hp hq).2,
   fun r u hr hne => (store_frame P p r t u v hp hr hne).1,
   store_cells P p t v hp,
   assign_observed P q t v hq⟩

/-- an in-place assignment `x = y` of array/struct type keeps every pointer into `x` attached: `x` keeps its objects
    (pointers to `x` and to its array/struct components are those objects) and every leaf cell `x.path` — the target
    of a field / element pointer object — then holds `y.path`. -/
theorem inplace_assignment_keeps_pointers (t : Ty) (ht : isSpine t = true) (H : Heap) (d s : Int)
    (hnd : (spine t H d).Nodup) (hdj : ∀ x ∈ spine t H d, x ∉ spine t H s)
    (p : List Nat) (lt : Ty) (hp : typeAt t p = some lt) (hl : isSpine lt = false) :
    navigate (copyInto t H d s) d p = navigate H s p ∧ spine t (copyInto t H d s) d = spine t H d :=
  inplace_leaf_value t ht H d s hnd hdj p lt hp hl

/-! ## Repaired defects (theorems about the code BEFORE the fix: commits C07-*) -/

/-- before the repair `$growSlice` shared the element objects of a non-empty reallocated slice of array/struct
    elements: witness `s := make([]S, 1, 1); t := append(s, S{})` -/
theorem before_repair_growslice :
    reusedBeforeRepair .spine { arr := 0, off := 0, len := 1, cap := 1, isNil := false } 2 = true := by decide

/-- before the repairs the table did not copy at box / range operand / method-value call / interface dispatch, and
    value semantics failed for each of them (concrete programs in GV.Proofs.HeapSim) -/
theorem before_repair_box : ¬ value_semantics_before_repair := GV.Heap.before_repair_box
theorem before_repair_range : ¬ value_semantics_before_repair := GV.Heap.before_repair_range
theorem before_repair_boundCall : ¬ value_semantics_before_repair := GV.Heap.before_repair_boundCall
theorem before_repair_ifaceCall : ¬ value_semantics_before_repair := GV.Heap.before_repair_ifaceCall

/-- the same four witness programs agree with Go under the repaired table -/
theorem after_repair_witnesses :
    runJS cloneAt cexBox = runGo cexBox ∧ runJS cloneAt cexRange = runGo cexRange ∧
    runJS cloneAt cexBound = runGo cexBound ∧ runJS cloneAt cexIface = runGo cexIface :=
  GV.Heap.after_repair_witnesses

end GV.Props.C07
