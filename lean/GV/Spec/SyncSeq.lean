import GV.Model.NoSync
/-
  GV.Spec.SyncSeq — sequential specification of package sync (Go 1.20 documentation + sync/mutex.go,
  rwmutex.go, waitgroup.go, once.go, map.go, pool.go), for ONE goroutine applying operations to one instance of
  each of Mutex, RWMutex, WaitGroup, Once, Map, Pool.  Written independently of /repo/nosync.

  Outcomes: the operation returns (`ok v`), panics with a recoverable Go panic (`panic`), blocks forever because
  only this goroutine could ever release what it waits for (`block`), or the runtime throws an unrecoverable
  fatal error (`fatal`: "sync: unlock of unlocked mutex", "sync: RUnlock of unlocked RWMutex", …).
  `block` and `fatal` end the history. Pool.Get is nondeterministic: it may return any item that was Put and not
  yet returned, or ignore the pool ("Get may choose to ignore the pool and treat it as empty").
-/
namespace GV.Spec.SyncSeq
open GV.NoSync (Op Val OnceFn)

inductive SOut where
  | ok (v : Val)
  | panic
  | block
  | fatal
  deriving DecidableEq, Repr

def SOut.terminal : SOut → Bool
  | .block => true
  | .fatal => true
  | _ => false

structure Spec where
  mHeld : Bool := false
  writer : Bool := false               -- RWMutex held for writing
  readers : Nat := 0                   -- number of read locks held
  wg : Int := 0                        -- WaitGroup counter
  onceDone : Bool := false
  map : List (Int × Int) := []         -- contents of the Map (a Go map value)
  pool : List Int := []                -- multiset of items available to Get
  deriving DecidableEq, Repr

/-- the alternatives of `Pool.Get` on the items `l`: any one of them is removed and returned -/
def takeAny (l : List Int) : List (Int × List Int) :=
  (List.range l.length).filterMap fun i => (l[i]?).map fun x => (x, l.eraseIdx i)

/-- all outcomes the documentation allows, with the state after each -/
def step (t : Spec) : Op → List (SOut × Spec)
  | .mLock => if t.mHeld then [(.block, t)] else [(.ok .unit, { t with mHeld := true })]
  | .mUnlock => if t.mHeld then [(.ok .unit, { t with mHeld := false })] else [(.fatal, t)]
  | .rwLock => if t.writer ∨ t.readers > 0 then [(.block, t)] else [(.ok .unit, { t with writer := true })]
  | .rwUnlock => if t.writer then [(.ok .unit, { t with writer := false })] else [(.fatal, t)]
  | .rwRLock => if t.writer then [(.block, t)] else [(.ok .unit, { t with readers := t.readers + 1 })]
  | .rwRUnlock => if t.readers = 0 then [(.fatal, t)] else [(.ok .unit, { t with readers := t.readers - 1 })]
  | .wgAdd d => if t.wg + d < 0 then [(.panic, { t with wg := t.wg + d })] else [(.ok .unit, { t with wg := t.wg + d })]
  | .wgDone => if t.wg - 1 < 0 then [(.panic, { t with wg := t.wg - 1 })] else [(.ok .unit, { t with wg := t.wg - 1 })]
  | .wgWait => if t.wg = 0 then [(.ok .unit, t)] else [(.block, t)]
  | .onceDo f =>
    if t.onceDone then [(.ok (.ran 0), t)]
    else match f with
      | .ok => [(.ok (.ran 1), { t with onceDone := true })]
      | .panic => [(.panic, { t with onceDone := true })]      -- "if f panics, Do considers it to have returned"
      | .nest => [(.block, t)]                                  -- "if f calls Do, it will deadlock"
  | .mapLoad k => [(.ok (.loaded (t.map.lookup k) (t.map.lookup k).isSome), t)]
  | .mapStore k v => [(.ok .unit, { t with map := GV.NoSync.goInsert t.map k v })]
  | .mapLoadOrStore k v =>
    match t.map.lookup k with
    | some x => [(.ok (.loaded (some x) true), t)]
    | none => [(.ok (.loaded (some v) false), { t with map := GV.NoSync.goInsert t.map k v })]
  | .mapDelete k => [(.ok .unit, { t with map := GV.NoSync.goDelete t.map k })]
  | .mapRange n =>
    if n < 0 then [(.ok (.pairs (GV.NoSync.sortPairs t.map)), t)]
    else [(.ok (.calls (if t.map.length = 0 then 0 else if n ≤ 1 then 1 else min n.toNat t.map.length)), t)]
  | .poolPut x =>
    match x with
    | none => [(.ok .unit, t)]                                  -- Put(nil) is ignored
    | some x => [(.ok .unit, { t with pool := t.pool ++ [x] })]
  | .poolGet new =>
    (.ok (.item new), t) :: (takeAny t.pool).map fun p => (.ok (.item (some p.1)), { t with pool := p.2 })

/-- does the observed outcome list `os` of history `h` from state `t` lie in the specification?
    (used by the driver to validate this specification against the real package sync) -/
def accepts : Spec → List Op → List SOut → Bool
  | _, [], [] => true
  | t, op :: ops, o :: os =>
    (step t op).any fun p => p.1 == o && (if o.terminal then os.isEmpty else accepts p.2 ops os)
  | _, _, _ => false

end GV.Spec.SyncSeq
