import GV.Model.Augment

/-
  GV.Spec.Augment — what the overlay merge must produce, written from doc/pargma.md, the comment of
  `parseAndAugment` (build.go:149-169) and the statement of property C12, not from the code:

  * every overlay declaration stays, except those carrying `gopherjs:purge` (on the declaration or on the
    individual spec) and the functions carrying `gopherjs:override-signature` (their body-less declaration
    only transports the signature);
  * an original function/method whose key is declared by the overlay is removed; with `keep-original` it
    stays under the name `_gopherjs_original_<name>`; with `override-signature` it stays with the overlay's
    signature (both directives combine);
  * an original type, variable or constant whose name is declared by the overlay is removed;
  * the methods of a type purged by the overlay are removed unless the overlay declares them itself;
  * `init` functions are never overridden;
  * everything else stays, in its original order, with its original initial value.

  The result is described by the list of declared entries per file (blank names declare nothing and
  are left out); constant values are the values the constants had in their original group.
-/
namespace GV.Spec.Augment
open GV.Augment

/-- what the overlay says about one name -/
structure Rule where
  keep : Bool := false
  purge : Bool := false
  sig : Option Sig := none
deriving DecidableEq, Repr, Inhabited

def specPurged (declPurged : Bool) (s : Spec) : Bool := declPurged || s.dirs.contains "purge"

/-- the names an overlay declaration declares, with what its directives say -/
def declRules : Decl → List (String × Rule)
  | .func f =>
    [(funcKey f, { keep := f.dirs.contains "keep-original",
                   sig := if f.dirs.contains "override-signature" then some f.sig else none })]
  | .gen _ dirs _ specs =>
    (specs.filterMap id).flatMap fun s =>
      match s with
      | .type _ name _ _ _ => [(name, { purge := specPurged (dirs.contains "purge") s })]
      | .value names _ _ _ _ => (names.filterMap id).map fun n => (n.n, {})
      | .imp _ => []

def overlayRules (overlays : List File) : List (String × Rule) :=
  overlays.flatMap fun f => (f.decls.filterMap id).flatMap declRules

/-- the rule for a name: the last overlay declaration of it; `init` is never overridden -/
def ruleFor (rules : List (String × Rule)) (k : String) : Option Rule :=
  if k == "init" then none else (rules.reverse.find? (fun p => p.1 == k)).map (·.2)

def notBlank (e : Entry) : Bool := e.name != "_"

/-- entries an overlay declaration contributes to the result -/
def overlayDecl : Decl → List Entry
  | .func f =>
    if f.dirs.contains "purge" || f.dirs.contains "override-signature" then [] else Decl.entries (.func f)
  | .gen tok dirs _ specs =>
    if dirs.contains "purge" then []
    else if tok == .const then constEntries (fun s => !specPurged false s) (specs.filterMap id) 0 []
    else if tok == .imp then []      -- an import declaration declares no package-level name
    else ((specs.filterMap id).filter (fun s => !specPurged false s)).flatMap (Spec.entries tok)

def expectedOverlay (f : File) : List Entry :=
  ((f.decls.filterMap id).flatMap overlayDecl).filter notBlank

/-- entries an original declaration contributes to the result -/
def originalDecl (rules : List (String × Rule)) : Decl → List Entry
  | .func f =>
    match ruleFor rules (funcKey f) with
    | some r =>
      let f1 := if r.keep then { f with name := "_gopherjs_original_" ++ f.name } else f
      let f2 := match r.sig with
        | some s => { f1 with sig := s }
        | none => f1
      if r.keep || r.sig.isSome then Decl.entries (.func f2) else []
    | none =>
      if f.sig.recvKey ≠ "" && ((ruleFor rules f.sig.recvKey).any (·.purge)) then []
      else Decl.entries (.func f)
  | d => (Decl.entries d).filter fun e => (ruleFor rules e.name).isNone

def expectedOriginal (rules : List (String × Rule)) (f : File) : List Entry :=
  ((f.decls.filterMap id).flatMap (originalDecl rules)).filter notBlank

/-- the expected declared entries, per result file (overlay files first) -/
def expected (overlays originals : List File) : List (List Entry) :=
  overlays.map expectedOverlay ++ originals.map (expectedOriginal (overlayRules overlays))

/-! ### vocabulary of the theorems -/

/-- an entry without its constant value (used where the statement is about names, order, provenance) -/
def noVal (e : Entry) : Entry := { e with cval := none }

/-- the override table entry the code must hold for a rule -/
def toInfo (r : Rule) : Info := { keep := r.keep, purge := r.purge, oversig := r.sig }

/-- the table `ov` built by the code says exactly what the overlay rules say -/
def Agree (ov : Overrides) (rules : List (String × Rule)) : Prop :=
  ∀ k, GV.Augment.get k ov = (ruleFor rules k).map toInfo

/-- parsed files contain no nil slots -/
def specNoNil : Option Spec → Bool
  | some (.value names values _ _ _) => names.all Option.isSome && values.all Option.isSome
  | some _ => true
  | none => false

def declNoNil : Option Decl → Bool
  | some (.gen _ _ _ specs) => specs.all specNoNil
  | some _ => true
  | none => false

def fileNoNil (f : File) : Bool := f.decls.all declNoNil

end GV.Spec.Augment
