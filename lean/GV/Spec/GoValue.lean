/-
  GV.Spec.GoValue — Go's value semantics for the copy-context language of GV.Model.Heap, written without
  any heap: a variable of type `t` IS a block of `size t` memory cells (Go spec: "arrays are values",
  "a struct is a sequence of … fields"); assignment, argument passing, return, range, send, map/element/field
  stores, composite-literal elements, interface boxing, value receivers and method values all COPY the block
  (deep along arrays and structs, since those are laid out inline), while a pointer / slice / map / channel /
  func / interface cell is copied as one opaque reference cell.
-/
import GV.Model.Heap

namespace GV.Spec.GoValue
open GV.Heap

structure GState where
  slots : List (Ty × List Int)
  out : List (List Int)

def GState.init : GState := { slots := [], out := [] }

/-- an expression denotes a type and a block of cells; contexts do not change the value -/
def evalGo (slots : List (Ty × List Int)) : Expr → Option (Ty × List Int)
  | .loc x p =>
    match slots[x]? with
    | some (t, cells) => match typeAt t p with
      | some t' => some (t', (cells.drop (offsetAt t p)).take (size t'))
      | none => none
    | none => none
  | .via _ e => evalGo slots e

/-- overwrite cells `[off, off + new.length)` -/
def splice (cells : List Int) (off : Nat) (new : List Int) : List Int :=
  cells.take off ++ new ++ cells.drop (off + new.length)

def zeroCell : Ty → Int
  | .int => 0
  | _ => nilRef

mutual
/-- the zero value: every cell zero / nil -/
def zeroCells : Ty → List Int
  | .struct fs => zeroCellsFields fs
  | .array n t => (List.range n).flatMap (fun _ => zeroCells t)
  | t => [zeroCell t]
def zeroCellsFields : List Ty → List Int
  | [] => []
  | f :: fs => zeroCells f ++ zeroCellsFields fs
end

def stepGo (σ : GState) : Stmt → GState
  | .decl t => { σ with slots := σ.slots ++ [(t, zeroCells t)] }
  | .bind _ e =>
    match evalGo σ.slots e with
    | some (t, cells) => { σ with slots := σ.slots ++ [(t, cells)] }
    | none => σ
  | .store _ x p e =>
    match evalGo σ.slots e with
    | some (t, cells) =>
      match σ.slots[x]? with
      | some (tx, cx) =>
        match typeAt tx p with
        | some t' =>
          if Ty.beq t' t && isSpine t then { σ with slots := σ.slots.set x (tx, splice cx (offsetAt tx p) cells) } else σ
        | none => σ
      | none => σ
    | none => σ
  | .setLeaf x p n =>
    match σ.slots[x]? with
    | some (tx, cx) =>
      match typeAt tx p with
      | some t => if isSpine t then σ else { σ with slots := σ.slots.set x (tx, cx.set (offsetAt tx p) n) }
      | none => σ
    | none => σ
  | .dump x =>
    match σ.slots[x]? with
    | some (_, cells) => { σ with out := σ.out ++ [cells] }
    | none => σ

def runGo (prog : List Stmt) : List (List Int) :=
  (prog.foldl stepGo GState.init).out

end GV.Spec.GoValue
