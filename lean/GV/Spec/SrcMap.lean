/-
  GV.Spec.SrcMap — what property C19 demands of the hint filter, written without reference to the code:
  text positions of a byte string, streams as lists of items, the expected output and mappings.
-/
namespace GV.Spec.SrcMap

abbrev Bytes := List Nat

/-- a stream item: generated code (must not contain the byte 8) or a hint with an arbitrary payload -/
inductive Item where
  | code (c : Bytes)
  | hint (payload : Bytes)
  deriving DecidableEq, Repr

/-- well-formed: code is free of the magic byte, payload size fits 16 bits -/
abbrev Item.WF : Item → Prop
  | .code c => ∀ b ∈ c, b ≠ 8
  | .hint h => h.length ≤ 0xFFFF

/-- number of complete lines in `out` -/
def lineCount (out : Bytes) : Nat := out.count 10

/-- number of bytes after the last newline of `out` (all of it when there is none) -/
def colOf (out : Bytes) : Nat := (out.reverse.takeWhile (· ≠ 10)).length

/-- the position (1-based line, 0-based byte column) of the NEXT byte that would be appended to `out` -/
def posOf (out : Bytes) : Nat × Nat := (1 + lineCount out, colOf out)

/-- the bytes that must reach the output: the code items, in order, nothing else -/
def codeBytes : List Item → Bytes
  | [] => []
  | .code c :: tl => c ++ codeBytes tl
  | .hint _ :: tl => codeBytes tl

/-- the mappings that must be reported, given the output `pre` written before the items:
    one per hint, in order, at the position of the next output byte at the point where the hint stands -/
def mappings (pre : Bytes) : List Item → List (Nat × Nat × Bytes)
  | [] => []
  | .code c :: tl => mappings (pre ++ c) tl
  | .hint h :: tl => ((posOf pre).1, (posOf pre).2, h) :: mappings pre tl

/-- where a position (1-based line l, column c) inside a text ends up when that text is written at the point
    whose position is `at_`: lines shift by the lines before, the first line also shifts by the column. -/
def placeAt (at_ : Nat × Nat) (p : Nat × Nat) : Nat × Nat :=
  (at_.1 - 1 + p.1, if p.1 = 1 then at_.2 + p.2 else p.2)

/-- number of UTF-16 code units a consumer of the source map counts for UTF-8 encoded text:
    one per non-continuation byte, one more for the lead byte of a 4-byte sequence. -/
def utf16Units : Bytes → Nat
  | [] => 0
  | b :: tl => (if 0x80 ≤ b ∧ b < 0xC0 then 0 else if 0xF0 ≤ b then 2 else 1) + utf16Units tl

/-- the bytes after the last newline -/
def lastLine (out : Bytes) : Bytes := (out.reverse.takeWhile (· ≠ 10)).reverse

end GV.Spec.SrcMap
