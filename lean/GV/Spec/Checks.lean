/-
  GV.Spec.Checks — when the Go specification says an operation panics, written from the spec text
  (Index expressions, Slice expressions, Making slices, Assignments to nil maps, Integer operators,
  Conversions from slice to array, Close, Send statements, Type assertions, Comparison operators),
  independently of the GopherJS code. Operands are mathematical integers; `int` is 32 bits wide on
  GopherJS's target (GOARCH=js... wasm-like 32-bit `int`), so max int = 2^31 - 1.
-/
namespace GV.Spec.Checks

def maxInt : Int := 2147483647

/-- `a[i]`: "the index x is in range if 0 <= x < len(a), otherwise it is out of range ... a run-time panic occurs" -/
abbrev indexOk (len i : Int) : Prop := 0 ≤ i ∧ i < len

/-- `a[low:high:max]` on a slice: "0 <= low <= high <= max <= cap(a), otherwise they are out of range";
    the 2-index form has max = cap(a); a missing high defaults to len(a), a missing low to 0. -/
abbrev sliceOk (cap low high max : Int) : Prop := 0 ≤ low ∧ low ≤ high ∧ high ≤ max ∧ max ≤ cap

/-- `s[low:high]` on a string or array: "0 <= low <= high <= len(a)" -/
abbrev strSliceOk (len low high : Int) : Prop := 0 ≤ low ∧ low ≤ high ∧ high ≤ len

/-- `make([]T, n, m)`: "n must be no larger than m ... if n is negative or larger than m at run time, a run-time panic occurs";
    both must be representable as int and the allocation must exist: 0 <= n <= m <= maxInt. -/
abbrev makeOk (n m : Int) : Prop := 0 ≤ n ∧ n ≤ m ∧ m ≤ maxInt

/-- `[N]T(s)` / `(*[N]T)(s)`: "if the length of the slice is less than the length of the array, a run-time panic occurs" -/
abbrev sliceToArrayOk (slen alen : Int) : Prop := alen ≤ slen

/-- `x / y`, `x % y` on integers: "If the divisor is zero at run time, a run-time panic occurs" -/
abbrev divOk (y : Int) : Prop := y ≠ 0

/-- 32-bit two's complement wrap-around ("the result is the same as if computed with unbounded precision and then truncated") -/
def wrap32 (x : Int) : Int := (x + 2147483648) % 4294967296 - 2147483648

/-- truncated division / remainder ("integer division truncates toward zero", `x = q*y + r`, |r| < |y|);
    the only overflow is MinInt / -1 = MinInt -/
def quo (x y : Int) : Int := wrap32 (Int.tdiv x y)
def rem (x y : Int) : Int := x - y * Int.tdiv x y

inductive Chan | nil | open_ | closed
  deriving DecidableEq

/-- `close(c)`: "Closing the nil channel also causes a run-time panic", "closing an already closed channel" too -/
abbrev closeOk (c : Chan) : Prop := c = .open_

/-- `c <- v`: "A send on a closed channel proceeds by causing a run-time panic"; a send on nil blocks forever -/
abbrev sendOk (c : Chan) : Prop := c ≠ .closed

/-- `m[k] = v`: "A nil map ... attempting to write to a nil map causes a run-time panic" -/
abbrev mapStoreOk (isNil : Bool) : Prop := isNil = false

/-- interface value: nil or (dynamic type, is the type comparable, value) -/
inductive Iface | nil | val (typ : Nat) (comparable : Bool) (v : Nat)
  deriving DecidableEq

/-- `x == y` on interface values: "equal if they have identical dynamic types and equal dynamic values or if both
    have value nil"; "a comparison of two interface values with identical dynamic types causes a run-time panic if
    that type is not comparable". `none` = panic. -/
def ifaceEq : Iface → Iface → Option Bool
  | .nil, .nil => some true
  | .nil, .val .. => some false
  | .val .., .nil => some false
  | .val ta ca va, .val tb _ vb =>
    if ta = tb then (if ca then some (va == vb) else none) else some false

/-- `x.(T)` for a concrete T: "asserts that x is not nil and that the dynamic type of x is identical to T",
    "If the type assertion is false, a run-time panic occurs." -/
def assertConcrete : Iface → Nat → Option Nat
  | .nil, _ => none
  | .val t _ v, target => if t = target then some v else none

/-- dynamic content of an interface value for assertions to interface types: nil, or a dynamic type with its method set -/
inductive Dyn | nil | val (typ : Nat) (methods : List Nat)
  deriving DecidableEq, Repr

/-- the dynamic type with method set `ms` implements the interface with methods `I` -/
def implements (ms I : List Nat) : Bool := I.all fun m => ms.contains m

/-- `x.(I)` for an interface type I: "asserts that x is not nil and that the dynamic type of x implements the interface
    I"; "If the type assertion holds, the value of the expression is the value stored in x"; otherwise "a run-time panic
    occurs" (a *runtime.TypeAssertionError). The STATIC type of x does not occur in the rule. `none` = panic. -/
def assertIface (x : Dyn) (I : List Nat) : Option Dyn :=
  match x with
  | .nil => none
  | .val t ms => if implements ms I then some (.val t ms) else none

/-- `v, ok := x.(I)`: "the value of ok is true if the assertion holds. Otherwise it is false and the value of v is the
    zero value for type T. No run-time panic occurs" -/
def assertIfaceOk (x : Dyn) (I : List Nat) : Dyn × Bool :=
  match assertIface x I with
  | some v => (v, true)
  | none => (.nil, false)

end GV.Spec.Checks
