/-
  GV.Spec.Inst — which generic instances a Go program has (specification, written from the Go spec, not from the
  collector): the LEAST set of closed instances that contains the instantiations written in non-generic code and is
  closed under
      instance (d, N, θ)  ∧  the declaration of d instantiates c with τ   ⇒  instance (c, ·, τ[N, θ])
  together with the methods of every instantiated named type and the types declared inside an instantiated generic
  function (each instantiation of the function has its own copy, identified by the function's type arguments).
-/
import GV.Model.Inst

namespace GV.Inst

/-- Go substitution of the type parameters of an instance `(d, N, θ)`: own parameters ↦ θ, parameters of the nesting
    function ↦ N.  A type declared inside a generic function is a different type for every instantiation of that
    function, so its nesting arguments are substituted too. -/
def Ty.substS (N θ : List Ty) : Ty → Ty
  | .basic b => .basic b
  | .own i => (θ[i]?).getD (.own i)
  | .nest i => (N[i]?).getD (.nest i)
  | .free i => .free i
  | .slice t => .slice (substS N θ t)
  | .ptr t => .ptr (substS N θ t)
  | .chan t => .chan (substS N θ t)
  | .map k v => .map (substS N θ k) (substS N θ v)
  | .named o a => .named o (substS N θ a)
  | .con g a => .con g (substS N θ a)
  | .lnamed o a nu => .lnamed o (substS N θ a) (substS N θ nu)
  | .tnil => .tnil
  | .tcons h t => .tcons (substS N θ h) (substS N θ t)

/-- a closed type: no type parameter occurs -/
def Ty.closed : Ty → Bool
  | .basic _ => true
  | .own _ => false
  | .nest _ => false
  | .free _ => false
  | .slice t => closed t
  | .ptr t => closed t
  | .chan t => closed t
  | .map k v => closed k && closed v
  | .named _ a => closed a
  | .con _ a => closed a
  | .lnamed _ a nu => closed a && closed nu
  | .tnil => true
  | .tcons h t => closed h && closed t

def closedL (l : List Ty) : Bool := l.all Ty.closed

/-- the nesting arguments of an instance created from a use inside the instance `(d, N, θ)`: a type declared in a
    function belongs to the function instance it is used in (from the function body: θ; from a sibling local type: N) -/
def nestFor (P : Prog) (d : Nat) (N θ : List Ty) (inScope : Bool) : List Ty :=
  if inScope then (if (P.defs d).isSig then θ else N) else []

/-- a definition whose declaration is walked with the instance's arguments: functions, methods, generic types -/
def Prog.scanned (P : Prog) (d : Nat) : Prop := (P.defs d).isSig = true ∨ (P.defs d).hasNode = true

/-- the instances a program has -/
inductive Reach (P : Prog) : Inst → Prop
  | seed {c τ b} : Event.use c τ b ∈ P.seeds → closedL τ = true → Reach P ⟨c, [], τ⟩
  | use {d N θ c τ b} : Reach P ⟨d, N, θ⟩ → P.scanned d → Event.use c τ b ∈ (P.defs d).events →
      closedL (τ.map (Ty.substS N θ)) = true → Reach P ⟨c, nestFor P d N θ b, τ.map (Ty.substS N θ)⟩
  | localDecl {g N θ c} : Reach P ⟨g, N, θ⟩ → P.scanned g → Event.decl c ∈ (P.defs g).events → θ ≠ [] →
      Reach P ⟨c, θ, []⟩
  | method {t N θ m} : Reach P ⟨t, N, θ⟩ → m ∈ (P.defs t).methods → Reach P ⟨m, N, θ⟩

/-! ### representation of values of type-parameter type inside an instance -/

/-- how a Go value of a type sits in an interface value at run time (compiler/statements.go:146-160, type switch clause
    binding; expressions.go type assertions): a non-interface type is boxed and the clause variable must be bound to the
    payload `.$val`; an interface type is held as it is.  `ia b` says that the atom `b` is an interface type.
    A RAW type parameter has the constraint interface as its underlying type: deciding on it, instead of on the type
    argument, answers "interface". -/
def Ty.unwraps (ia : Nat → Bool) : Ty → Bool
  | .basic b => !ia b
  | .own _ => false
  | .nest _ => false
  | .free _ => false
  | _ => true

/-- the term is a bare type parameter -/
def Ty.isParam : Ty → Bool
  | .own _ => true
  | .nest _ => true
  | .free _ => true
  | _ => false

/-- the decision the per-instance translation must take for a clause `case t:` in the instance `(N, θ)`:
    on the substituted type -/
def unwrapIn (ia : Nat → Bool) (N θ : List Ty) (t : Ty) : Bool := (t.substS N θ).unwraps ia

/-! ### constructor attributes are part of a type's identity -/

/-- the root constructor of a type with everything that belongs to its identity besides the components -/
inductive Root where
  | basic (b : Nat)
  | param
  | slice
  | ptr
  | chan
  | map
  | named (o : Nat)
  | lnamed (o : Nat)
  | con (g : Nat)          -- direction / length / variadicity / field names, tags, embeddedness
  | list
deriving DecidableEq, Repr

def Ty.root : Ty → Root
  | .basic b => .basic b
  | .own _ => .param
  | .nest _ => .param
  | .free _ => .param
  | .slice _ => .slice
  | .ptr _ => .ptr
  | .chan _ => .chan
  | .map _ _ => .map
  | .named o _ => .named o
  | .lnamed o _ _ => .lnamed o
  | .con g _ => .con g
  | .tnil => .list
  | .tcons _ _ => .list

/-- attribute codes of the channel constructors -/
def dirBoth : Nat := 0
def dirRecv : Nat := 1
def dirSend : Nat := 2

/-- a substitution that REBUILDS a directional channel whose element changes as a bidirectional one (what
    `types.NewChan(types.SendRecv, elem)` in subst.go would do): not the code, the refuted alternative -/
def Ty.substRebuild (N θ : List Ty) : Ty → Ty
  | .basic b => .basic b
  | .own i => (θ[i]?).getD (.own i)
  | .nest i => (N[i]?).getD (.nest i)
  | .free i => .free i
  | .slice t => .slice (substRebuild N θ t)
  | .ptr t => .ptr (substRebuild N θ t)
  | .chan t => .chan (substRebuild N θ t)
  | .map k v => .map (substRebuild N θ k) (substRebuild N θ v)
  | .named o a => .named o (substRebuild N θ a)
  | .lnamed o a nu => .lnamed o (substRebuild N θ a) (substRebuild N θ nu)
  | .con g a =>
    let a' := substRebuild N θ a
    if (g = dirRecv ∨ g = dirSend) ∧ a' ≠ a then .con dirBoth a' else .con g a'
  | .tnil => .tnil
  | .tcons h t => .tcons (substRebuild N θ h) (substRebuild N θ t)

/-! ### hypotheses under which the collector is exact -/

/-- no type declared inside a generic function occurs inside a type term -/
def Ty.lfree : Ty → Bool
  | .basic _ => true
  | .own _ => true
  | .nest _ => true
  | .free _ => true
  | .slice t => lfree t
  | .ptr t => lfree t
  | .chan t => lfree t
  | .map k v => lfree k && lfree v
  | .named _ a => lfree a
  | .con _ a => lfree a
  | .lnamed _ _ _ => false
  | .tnil => true
  | .tcons h t => lfree h && lfree t

def lfreeL (l : List Ty) : Bool := l.all Ty.lfree

def Event.lfree : Event → Bool
  | .use _ τ _ => lfreeL τ
  | .decl _ => true

/-- `LocalFree`: types declared inside generic functions are used as values only — never as a type argument or as a
    component of another type.  (The unchanged compiler panics on the excluded programs; see the counterexample.) -/
structure Prog.LocalFree (P : Prog) : Prop where
  seeds : ∀ e ∈ P.seeds, e.lfree = true
  defs : ∀ d, ∀ e ∈ (P.defs d).events, e.lfree = true

/-- `WellScoped`: Go's scoping — an object whose scope contains the use is a type declared inside the function being
    walked: it is not a function and has no methods; methods are functions; a non-generic local type is not a function. -/
structure Prog.WellScoped (P : Prog) : Prop where
  inScope : ∀ d c τ, Event.use c τ true ∈ (P.defs d).events → (P.defs c).isSig = false ∧ (P.defs c).methods = []
  methods : ∀ t m, m ∈ (P.defs t).methods → (P.defs m).isSig = true ∧ (P.defs m).methods = [] ∧ (P.defs t).isSig = false
  decls : ∀ d c, Event.decl c ∈ (P.defs d).events → (P.defs c).isSig = false ∧ (P.defs c).methods = []
  sigNode : ∀ d, (P.defs d).isSig = true → (P.defs d).hasNode = true

end GV.Inst
