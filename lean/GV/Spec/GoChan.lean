/-
  GV.Spec.GoChan — Go's channel semantics (The Go Programming Language Specification: "Channel types",
  "Send statements", "Receive operator", "Select statements", "Close") as a labelled transition system on
  ABSTRACT channels: a bounded FIFO buffer, a closed flag, and the SET of goroutines blocked on it.
  Written from the Go specification, independently of the queue encoding of the GopherJS runtime: there are
  no sender/receiver queues here; which blocked partner completes is a free choice.

  `next a g l` lists every abstract state Go allows after goroutine `g` performs the labelled step `l`
  in abstract state `a` (empty list = Go does not allow that observation).
-/
namespace GV.Spec.GoChan

/-- abstract channel -/
structure AChan where
  isNil : Bool
  cap : Nat
  buf : List Nat
  closed : Bool
deriving DecidableEq, Repr

inductive ACase where
  | dflt | recv (c : Nat) | send (c v : Nat)
deriving DecidableEq, Repr

/-- result of a completed channel operation, as the goroutine will see it -/
inductive ARes where
  | sent                                   -- send completed
  | sendPanic                              -- "send on closed channel"
  | recv (v : Nat) (ok : Bool)
  | sel (i : Nat) (r : Option (Nat × Bool))
deriving DecidableEq, Repr

/-- abstract goroutine -/
inductive AGor where
  | active
  | waitSend (c v : Nat)
  | waitRecv (c : Nat)
  | waitSelect (cases : List ACase)
  /-- the blocked operation has completed (by a partner or by close); the goroutine has not run since -/
  | done (r : ARes)
  | exited
deriving DecidableEq, Repr

structure AState where
  chans : List AChan
  gs : List AGor
deriving DecidableEq, Repr

/-- what the acting goroutine does and observes -/
inductive Label where
  | send (c v : Nat) (r : Option ARes)       -- `none` = blocks
  | recv (c : Nat) (r : Option ARes)
  | close (c : Nat) (panics : Bool)
  | select (cases : List ACase) (r : Option ARes)
  | resume (r : Option ARes)                 -- a goroutine continues after its blocked operation completed
deriving DecidableEq, Repr

def chan (a : AState) (c : Nat) : AChan := a.chans.getD c ⟨true, 0, [], false⟩
def setChan (a : AState) (c : Nat) (ch : AChan) : AState := { a with chans := a.chans.set c ch }
def setGor (a : AState) (g : Nat) (x : AGor) : AState := { a with gs := a.gs.set g x }

def caseIdx : List ACase → Nat → List (Nat × ACase)
  | [], _ => []
  | x :: r, i => (i, x) :: caseIdx r (i + 1)

/-- the ways goroutine state `x` can take a value `v` sent on channel `c`: its completed state(s) -/
def asReceiver (c : Nat) (v : Nat) (ok : Bool) : AGor → List AGor
  | .waitRecv c' => if c' = c then [.done (.recv v ok)] else []
  | .waitSelect cs => (caseIdx cs 0).filterMap fun (i, k) =>
      match k with
      | .recv c' => if c' = c then some (.done (.sel i (some (v, ok)))) else none
      | _ => none
  | _ => []

/-- the ways goroutine state `x` can act as a blocked sender on `c`: (value, completed state) -/
def asSender (c : Nat) : AGor → List (Nat × AGor)
  | .waitSend c' v => if c' = c then [(v, .done .sent)] else []
  | .waitSelect cs => (caseIdx cs 0).filterMap fun (i, k) =>
      match k with
      | .send c' v => if c' = c then some (v, .done (.sel i none)) else none
      | _ => none
  | _ => []

def gorIdx : List AGor → Nat → List (Nat × AGor)
  | [], _ => []
  | x :: r, i => (i, x) :: gorIdx r (i + 1)

/-- every (goroutine, completed state) pair for a blocked receiver on `c` -/
def receivers (a : AState) (c : Nat) (v : Nat) (ok : Bool) : List (Nat × AGor) :=
  (gorIdx a.gs 0).flatMap fun (g, x) => (asReceiver c v ok x).map fun y => (g, y)

def senders (a : AState) (c : Nat) : List (Nat × Nat × AGor) :=
  (gorIdx a.gs 0).flatMap fun (g, x) => (asSender c x).map fun (v, y) => (g, v, y)

/-- "send on `c` can proceed" (closed counts: it proceeds by panicking) -/
def sendReady (a : AState) (c : Nat) : Bool :=
  let ch := chan a c
  !ch.isNil && (ch.closed || !(receivers a c 0 true).isEmpty || decide (ch.buf.length < ch.cap))

def recvReady (a : AState) (c : Nat) : Bool :=
  let ch := chan a c
  !ch.isNil && (ch.closed || !ch.buf.isEmpty || !(senders a c).isEmpty)

/-- outcomes of a non-blocking send of `v` on `c` by an active goroutine: (result, state) -/
def sendNow (a : AState) (c v : Nat) : List (ARes × AState) :=
  let ch := chan a c
  if ch.isNil then []
  else if ch.closed then [(.sendPanic, a)]
  else
    let rs := receivers a c v true
    if !rs.isEmpty then rs.map fun (r, y) => (.sent, setGor a r y)
    else if ch.buf.length < ch.cap then [(.sent, setChan a c { ch with buf := ch.buf ++ [v] })]
    else []

/-- outcomes of a non-blocking receive on `c` -/
def recvNow (a : AState) (c : Nat) : List (ARes × AState) :=
  let ch := chan a c
  if ch.isNil then []
  else
    match ch.buf with
    | v :: b =>
      -- take the oldest buffered value; a blocked sender (if any) moves its value into the freed slot
      let ss := senders a c
      if ss.isEmpty then [(.recv v true, setChan a c { ch with buf := b })]
      else ss.map fun (s, w, y) => (.recv v true, setGor (setChan a c { ch with buf := b ++ [w] }) s y)
    | [] =>
      let ss := senders a c
      if !ss.isEmpty then ss.map fun (s, w, y) => (.recv w true, setGor a s y)   -- rendezvous
      else if ch.closed then [(.recv 0 false, a)]
      else []

def toSel (i : Nat) : ARes → ARes
  | .recv v ok => .sel i (some (v, ok))
  | .sent => .sel i none
  | r => r

/- close: every blocked receiver completes with (zero,false), every blocked sender — plain or select case —
   completes with the panic, in its own goroutine; the closer proceeds. -/
/-- the completed states close may give a goroutine blocked with a case on `c` (identity if none) -/
def closeOpts (c : Nat) : AGor → List AGor
  | .waitRecv c' => if c' = c then [.done (.recv 0 false)] else [.waitRecv c']
  | .waitSend c' v => if c' = c then [.done .sendPanic] else [.waitSend c' v]
  | .waitSelect cs =>
    let o := (caseIdx cs 0).filterMap (fun (i, k) =>
        match k with
        | .recv c' => if c' = c then some (AGor.done (.sel i (some (0, false)))) else none
        | .send c' _ => if c' = c then some (AGor.done .sendPanic) else none
        | .dflt => none)
    if o.isEmpty then [.waitSelect cs] else o
  | x => [x]

def allZip : List AGor → List AGor → (AGor → AGor → Bool) → Bool
  | [], [], _ => true
  | x :: xs, y :: ys, p => p x y && allZip xs ys p
  | _, _, _ => false

/-- every abstract state Go allows after active goroutine `g` performs `l` (all labels but `close`) -/
def next (a : AState) (g : Nat) (l : Label) : List AState :=
  match l with
  | .send c v none =>
    if (chan a c).isNil || (sendNow a c v).isEmpty then [setGor a g (.waitSend c v)] else []
  | .send c v (some r) => (sendNow a c v).filterMap fun (r', a') => if r' = r then some a' else none
  | .recv c none =>
    if (chan a c).isNil || (recvNow a c).isEmpty then [setGor a g (.waitRecv c)] else []
  | .recv c (some r) => (recvNow a c).filterMap fun (r', a') => if r' = r then some a' else none
  | .close _ _ => []
  | .select cases r =>
    let idx := caseIdx cases 0
    let outcomes : List (ARes × AState) := idx.flatMap fun (i, k) =>
      match k with
      | .dflt => []
      | .recv c => (recvNow a c).map fun (r', a') => (toSel i r', a')
      | .send c v => (sendNow a c v).map fun (r', a') => (toSel i r', a')
    match r with
    | some r =>
      if !outcomes.isEmpty then outcomes.filterMap fun (r', a') => if r' = r then some a' else none
      else
        -- nothing can proceed: only the default case
        match idx.find? (fun (_, k) => k == .dflt) with
        | some (i, _) => if r = .sel i none then [a] else []
        | none => []
    | none =>
      if outcomes.isEmpty && !(idx.any fun (_, k) => k == .dflt) then [setGor a g (.waitSelect cases)] else []
  | .resume r =>
    match a.gs.getD g .exited, r with
    | .done r', some r => if r' = r then [setGor a g .active] else []
    | .active, none => [a]
    | _, _ => []

/-- the transition relation: is `a --g:l--> a'` a step of Go's channel semantics? -/
def allowed (a : AState) (g : Nat) (l : Label) (a' : AState) : Bool :=
  match l with
  | .close c panics =>
    let ch := chan a c
    if ch.isNil || ch.closed then panics && a' == a          -- "close of nil channel" / "close of closed channel"
    else !panics && a'.chans == (setChan a c { ch with closed := true }).chans
         && allZip a.gs a'.gs (fun x y => (closeOpts c x).contains y)
  | l => (next a g l).contains a'

/-- can any goroutine ever proceed?  (some goroutine is active or has a completed operation) -/
def someRunnable (a : AState) : Bool :=
  a.gs.any fun x => match x with | .active => true | .done _ => true | _ => false

end GV.Spec.GoChan
