/-
  GV.Spec.JsTokens — lexical structure of the JavaScript sub-language the GopherJS code generator
  emits, written independently of `removeWhitespace`.

  Phase 1 (items): a byte string is a sequence of
    ws c          one whitespace byte (space, tab, newline)
    comment body  `/*` body `*/` (body without `*/`)
    hint bs       a source-map hint `\b`, 16-bit big-endian size, payload (invisible to JavaScript:
                  the source-map filter removes it before the text reaches the engine)
    str body      `"` body `"` where body consists of plain bytes and two-byte escapes `\x`
    ch c          any other byte
  Phase 2 (tokens): the `ch` bytes are grouped into tokens by a maximal-munch automaton:
  words (identifiers/keywords: `[A-Za-z0-9_$]` and non-ASCII bytes), numbers (pp-number style:
  digits, `.`, identifier characters, a sign directly after `e`/`E`), punctuators (ECMAScript table),
  single unknown bytes. Whitespace and comments end a token; hints do not (they are invisible).
  Not in the language: regex literals, template literals, single-quoted strings, `//` comments,
  the punctuators `...` and `?.` (they would be split into their one-byte pieces on both sides).
  Core Lean only.
-/
namespace GV.JsTokens

inductive Item where
  | ws (c : Nat)
  | comment (body : List Nat)
  | hint (bs : List Nat)
  | str (body : List Nat)
  | ch (c : Nat)
  deriving Repr, DecidableEq, Inhabited

/-- the bytes an item stands for -/
def Item.bytes : Item → List Nat
  | .ws c => [c]
  | .comment body => 47 :: 42 :: (body ++ [42, 47])
  | .hint bs => bs
  | .str body => 34 :: (body ++ [34])
  | .ch c => [c]

def flatten : List Item → List Nat
  | [] => []
  | it :: r => it.bytes ++ flatten r

def isWsByte (c : Nat) : Bool := c == 32 || c == 9 || c == 10

/-- body of a string literal: plain bytes (no `"`, no `\`) and escapes `\` + any byte -/
def strBodyOK : List Nat → Bool
  | [] => true
  | c :: r =>
    if c == 34 then false
    else if c == 92 then
      match r with
      | [] => false
      | _ :: r' => strBodyOK r'
    else strBodyOK r

/-- the byte string contains `*/` -/
def hasStarSlash : List Nat → Bool
  | [] => false
  | c :: r => (c == 42 && r.head? == some 47) || hasStarSlash r

/-- hint-aware scan of a comment body: every hint that starts inside the body (magic `\b`, 16-bit size, payload) also
    ends inside it. Otherwise the `*/` that closes the comment for a byte-level scanner lies inside a hint payload,
    while the JavaScript engine — which sees the text with hints removed — finds the end of the comment later. -/
def hintsClosed : Nat → List Nat → Bool
  | _, [] => true
  | 0, _ :: _ => false
  | f + 1, c :: r =>
    if c == 8 then
      match r with
      | hi :: lo :: rest => if rest.length < hi * 256 + lo then false else hintsClosed f (rest.drop (hi * 256 + lo))
      | _ => false
    else hintsClosed f r

/-- well-formedness of one item -/
def Item.ok : Item → Bool
  | .ws c => isWsByte c
  | .comment body => !hasStarSlash body && hintsClosed body.length body
  | .hint bs =>
    match bs with
    | m :: hi :: lo :: payload => m == 8 && payload.length == hi * 256 + lo
    | _ => false
  | .str body => strBodyOK body
  | .ch c => !(isWsByte c || c == 8 || c == 34)

/-- no `ch '/'` directly followed by `ch '*'` (that byte pair is a comment opener, not two items);
    `afterSlash` = the previous item was `ch '/'` -/
def nssGo : Bool → List Item → Bool
  | _, [] => true
  | afterSlash, .ch y :: r => !(afterSlash && y == 42) && nssGo (y == 47) r
  | _, _ :: r => nssGo false r

def noSlashStar (its : List Item) : Bool := nssGo false its

/-- `its` is a legal item sequence -/
def itemsOK (its : List Item) : Bool := its.all Item.ok && noSlashStar its

/-- `its` is THE parse of the byte string `s` (unique, see `GV.Props.C16.parse_unique`) -/
def Parse (s : List Nat) (its : List Item) : Prop := itemsOK its = true ∧ flatten its = s

/-! ### An (unverified) parser producing the item sequence; its result is validated with `Parse`. -/

def lexStr : List Nat → Option (List Nat × List Nat)
  | [] => none
  | c :: r =>
    if c == 34 then some ([], r)
    else if c == 92 then
      match r with
      | [] => none
      | d :: r' => (lexStr r').map fun p => (92 :: d :: p.1, p.2)
    else (lexStr r).map fun p => (c :: p.1, p.2)

def lexComment : List Nat → Option (List Nat × List Nat)
  | [] => none
  | c :: r =>
    if c == 42 && r.head? == some 47 then some ([], r.drop 1)
    else (lexComment r).map fun p => (c :: p.1, p.2)

def lexItems : Nat → List Nat → Option (List Item)
  | _, [] => some []
  | 0, _ :: _ => none
  | f + 1, c :: r =>
    if isWsByte c then (lexItems f r).map (Item.ws c :: ·)
    else if c == 8 then
      match r with
      | hi :: lo :: rest =>
        let n := hi * 256 + lo
        if rest.length < n then none
        else (lexItems f (rest.drop n)).map (Item.hint (8 :: hi :: lo :: rest.take n) :: ·)
      | _ => none
    else if c == 34 then
      match lexStr r with
      | none => none
      | some (body, rest) => (lexItems f rest).map (Item.str body :: ·)
    else if c == 47 && r.head? == some 42 then
      match lexComment (r.drop 1) with
      | none => none
      | some (body, rest) => (lexItems f rest).map (Item.comment body :: ·)
    else (lexItems f r).map (Item.ch c :: ·)

def lex (s : List Nat) : Option (List Item) := lexItems s.length s

/-! ### Phase 2: tokens -/

inductive Tok where
  | word (bs : List Nat)
  | num (bs : List Nat)
  | punct (bs : List Nat)
  | str (body : List Nat)
  | other (c : Nat)
  deriving Repr, DecidableEq, Inhabited

/-- state of the token automaton: the token being built -/
inductive St where
  | start
  | word (acc : List Nat)
  | num (acc : List Nat)
  | punct (acc : List Nat)
  deriving Repr, DecidableEq, Inhabited

def isDigit (c : Nat) : Bool := 48 ≤ c && c ≤ 57

/-- identifier part: ASCII letters, digits, `_`, `$`, and every non-ASCII byte -/
def isIdentChar (c : Nat) : Bool :=
  (97 ≤ c && c ≤ 122) || (65 ≤ c && c ≤ 90) || (48 ≤ c && c ≤ 57) || c == 95 || c == 36 || 128 ≤ c

/-- ECMAScript punctuators (without `...` and `?.`), as byte lists -/
def punctTable : List (List Nat) := [
  [123], [125], [40], [41], [91], [93], [46], [59], [44],                 -- { } ( ) [ ] . ; ,
  [60], [62], [60, 61], [62, 61], [61, 61], [33, 61], [61, 61, 61], [33, 61, 61],  -- < > <= >= == != === !==
  [43], [45], [42], [47], [37], [42, 42], [43, 43], [45, 45],             -- + - * / % ** ++ --
  [60, 60], [62, 62], [62, 62, 62], [38], [124], [94], [33], [126],       -- << >> >>> & | ^ ! ~
  [38, 38], [124, 124], [63, 63], [63], [58], [61],                       -- && || ?? ? : =
  [43, 61], [45, 61], [42, 61], [47, 61], [37, 61], [42, 42, 61],         -- += -= *= /= %= **=
  [60, 60, 61], [62, 62, 61], [62, 62, 62, 61], [38, 61], [124, 61], [94, 61],  -- <<= >>= >>>= &= |= ^=
  [38, 38, 61], [124, 124, 61], [63, 63, 61], [61, 62]                    -- &&= ||= ??= =>
]

def isPunct (bs : List Nat) : Bool := punctTable.contains bs

/-- does the token being built swallow the next byte `y` (maximal munch)? -/
def absorbs : St → Nat → Bool
  | .start, _ => false
  | .word _, y => isIdentChar y
  | .num acc, y => isIdentChar y || y == 46 || ((y == 43 || y == 45) && (acc.getLast? == some 101 || acc.getLast? == some 69))
  | .punct acc, y => isPunct (acc ++ [y]) || (acc == [46] && isDigit y) || (acc == [47] && y == 42)

/-- the state after swallowing `y` (`.5` turns a `.` into a number) -/
def extend : St → Nat → St
  | .start, _ => .start
  | .word acc, y => .word (acc ++ [y])
  | .num acc, y => .num (acc ++ [y])
  | .punct acc, y => if acc == [46] && isDigit y then .num (acc ++ [y]) else .punct (acc ++ [y])

/-- the finished token of a state -/
def flush : St → List Tok
  | .start => []
  | .word acc => [.word acc]
  | .num acc => [.num acc]
  | .punct acc => [.punct acc]

/-- a byte that starts a new token -/
def begin (y : Nat) : List Tok × St :=
  if isDigit y then ([], .num [y])
  else if isIdentChar y then ([], .word [y])
  else if isPunct [y] then ([], .punct [y])
  else ([.other y], .start)

/-- one byte through the automaton: emitted tokens and the new state -/
def step (st : St) (y : Nat) : List Tok × St :=
  if absorbs st y then ([], extend st y)
  else (flush st ++ (begin y).1, (begin y).2)

/-- the token sequence of an item sequence -/
def tokGo : St → List Item → List Tok
  | st, [] => flush st
  | st, .ws _ :: r => flush st ++ tokGo .start r
  | st, .comment _ :: r => flush st ++ tokGo .start r
  | st, .hint _ :: r => tokGo st r
  | st, .str body :: r => flush st ++ .str body :: tokGo .start r
  | st, .ch y :: r => (step st y).1 ++ tokGo (step st y).2 r

def tokensOf (its : List Item) : List Tok := tokGo .start its

/-- tokens of a byte string (through the unverified parser; `none` if it is not in the language) -/
def tokens (s : List Nat) : Option (List Tok) :=
  match lex s with
  | some its => if itemsOK its && flatten its == s then some (tokensOf its) else none
  | none => none

/-- everything except whitespace and comments, in order: the bytes, strings and hints that must survive -/
def significant : List Item → List Item
  | [] => []
  | .ws _ :: r => significant r
  | .comment _ :: r => significant r
  | it :: r => it :: significant r

/-- the hints of an item sequence, in order -/
def hintsOf : List Item → List (List Nat)
  | [] => []
  | .hint bs :: r => bs :: hintsOf r
  | _ :: r => hintsOf r

/-! ### What `removeWhitespace` is allowed to do, at item level (the abstract algorithm). -/

/-- bytes that must stay separated from each other: every identifier byte (`isIdentChar`, incl. bytes >= 0x80)
    and the hint magic -/
def needsSpaceS (c : Nat) : Bool :=
  (97 ≤ c && c ≤ 122) || (65 ≤ c && c ≤ 90) || (48 ≤ c && c ≤ 57) || c == 95 || c == 36 || c == 8 || 128 ≤ c

def Item.first : Item → Nat
  | .ws c => c
  | .comment _ => 47
  | .hint bs => bs.headD 8
  | .str _ => 34
  | .ch c => c

/-- first byte of the rest of the input, if any -/
def nextByte : List Item → Option Nat
  | [] => none
  | it :: _ => some it.first

/-- is a whitespace byte between `prev` and `next` dropped? `none`: the decision would read past the end -/
def dropsWs (prev : Nat) (next : Option Nat) : Option Bool :=
  if !needsSpaceS prev && prev != 45 then some true
  else match next with
    | none => none
    | some n => some ((!needsSpaceS prev || !needsSpaceS n) && !(prev == 45 && n == 45))

/-- item-level whitespace removal: comments go, a whitespace byte stays only between two bytes that need
    a separator or between two minus signs; hints, strings and all other bytes are kept untouched.
    `prev` = last byte written that is not part of a hint. `none` = reads past the end of the input. -/
def rwItems : Nat → List Item → Option (List Item)
  | _, [] => some []
  | prev, .ws c :: r =>
    match dropsWs prev (nextByte r) with
    | none => none
    | some true => rwItems prev r
    | some false => (rwItems c r).map (Item.ws c :: ·)
  | prev, .comment _ :: r => rwItems prev r
  | prev, .hint bs :: r => (rwItems prev r).map (Item.hint bs :: ·)
  | _, .str body :: r => (rwItems 34 r).map (Item.str body :: ·)
  | _, .ch y :: r => if y == 47 && r.isEmpty then none else (rwItems y r).map (Item.ch y :: ·)

/-- the input does not end where the scanner would read one byte past the end: a final whitespace byte must
    follow a byte that is neither `needsSpace` nor `-`, and the input must not end in a lone `/`. -/
def tailOK : Nat → List Item → Bool
  | _, [] => true
  | prev, .ws _ :: r => if r.isEmpty then !needsSpaceS prev && prev != 45 else tailOK prev r
  | prev, .comment _ :: r => tailOK prev r
  | prev, .hint _ :: r => tailOK prev r
  | _, .str _ :: r => tailOK 34 r
  | _, .ch y :: r => if y == 47 && r.isEmpty then false else tailOK y r

/-- `SafeAdjacent`, computed along the scan: whenever the separators between two `ch` bytes are all dropped
    (`pend`), the token built so far (`st`, the automaton state of the OUTPUT) must not swallow the next byte.
    The handled cases (`a b`, `- -`) never get here because their whitespace is kept. -/
def safeGo : Bool → Nat → St → List Item → Bool
  | _, _, _, [] => true
  | _, prev, st, .ws c :: r =>
    match dropsWs prev (nextByte r) with
    | none => true
    | some true => safeGo true prev st r
    | some false => safeGo false c .start r
  | _, prev, st, .comment _ :: r => safeGo true prev st r
  | pend, prev, st, .hint _ :: r => safeGo pend prev st r
  | _, _, _, .str _ :: r => safeGo false 34 .start r
  | pend, _, st, .ch y :: r => !(pend && absorbs st y) && safeGo false y (step st y).2 r

def safeAdjacent (its : List Item) : Bool := safeGo false 0 .start its

/-- `GenWF s`: `s` is well-formed generated code — it parses into items (comments, strings and hints closed,
    no stray `"`), and does not end where the scanner would read past the end. -/
def GenWF (s : List Nat) : Prop := ∃ its, Parse s its ∧ tailOK 0 its = true

/-- `SafeAdjacent s`: no two tokens that `removeWhitespace` brings together merge. -/
def SafeAdjacent (s : List Nat) : Prop := ∀ its, Parse s its → safeAdjacent its = true

/-! ### Concatenation with raw JavaScript (the `.inc.js` path of `WritePkgCode`)

  `WritePkgCode` writes, per `.inc.js` file, `rw(head) ++ raw ++ rw(tail)` where `raw` is esbuild's output (NOT in the
  item language: it may contain `//` comments, regex and template literals) and `head`/`tail` are generated wrapper
  strings. `rw_tokens` speaks about `head` and `tail` separately (each must be `GenWF` on its own). For the
  concatenation one more condition is needed: `rw` removes the leading line break of `tail`, so `raw` must not end
  inside a line comment. -/

/-- the bytes after the last line terminator -/
def lastLine (s : List Nat) : List Nat := (s.reverse.takeWhile fun c => c != 10 && c != 13).reverse

def hasSlashSlash : List Nat → Bool
  | [] => false
  | c :: r => (c == 47 && r.head? == some 47) || hasSlashSlash r

/-- conservative: `raw` ends with a line terminator, or its last line contains no `//` at all -/
def rawEndsOutsideLineComment (raw : List Nat) : Bool :=
  raw.isEmpty || raw.getLast? == some 10 || raw.getLast? == some 13 || !hasSlashSlash (lastLine raw)

/-- precondition for appending the whitespace-stripped segment `nextOut` directly after the raw segment `raw` -/
def junctionSafe (raw nextOut : List Nat) : Bool :=
  rawEndsOutsideLineComment raw || nextOut.head? == some 10 || nextOut.head? == some 13

end GV.JsTokens
