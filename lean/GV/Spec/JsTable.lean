/-
  GV.Spec.JsTable — the conversion table documented in the package comment of /repo/js/js.go (lines 5-23), as data,
  and the domain on which the property demands the round trip to be the identity.  Written from the documentation,
  not from jsmapping.js.

      | Go type               | JavaScript type       | Conversions back to any |
      | bool                  | Boolean               | bool                    |
      | integers and floats   | Number                | float64                 |
      | string                | String                | string                  |
      | []int8                | Int8Array             | []int8                  |
      | []int16               | Int16Array            | []int16                 |
      | []int32, []int        | Int32Array            | []int                   |
      | []uint8               | Uint8Array            | []uint8                 |
      | []uint16              | Uint16Array           | []uint16                |
      | []uint32, []uint      | Uint32Array           | []uint                  |
      | []float32             | Float32Array          | []float32               |
      | []float64             | Float64Array          | []float64               |
      | all other slices      | Array                 | []any                   |
      | arrays                | see slice type        | see slice type          |
      | functions             | Function              | func(...any) *js.Object |
      | time.Time             | Date                  | time.Time               |   (not exercisable here)
      | -                     | instanceof Node       | *js.Object              |   (no DOM here)
      | maps, structs         | instanceof Object     | map[string]any          |
-/
import GV.Model.JsConv
import GV.Spec.Utf8

namespace GV.Spec.JsTable
open GV.JsConv

/-- JavaScript type classes named by the table (plus null / undefined, which the package doc of `Object` mentions) -/
inductive JsClass where
  | boolean | number | string
  | typedArray (c : TA)
  | array | function | object | null | undefined
  deriving DecidableEq, Repr

/-- observable class of a JavaScript value (`typeof` / `constructor`) -/
def classOf : JsVal → JsClass
  | .undef => .undefined
  | .null => .null
  | .bool _ => .boolean
  | .num _ => .number
  | .str _ => .string
  | .typed c _ => .typedArray c
  | .arr _ => .array
  | .obj _ _ => .object
  | .jsfun _ | .gofun _ => .function
  | .wrapper _ => .object

/-- the element classes of the eleven typed-array rows; `none` = "all other slices" -/
def docElemClass : Ty → Option TA
  | .int .i8 => some .i8
  | .int .i16 => some .i16
  | .int .i32 | .int .int => some .i32
  | .int .u8 => some .u8
  | .int .u16 => some .u16
  | .int .u32 | .int .uint => some .u32
  | .f32 => some .f32
  | .f64 => some .f64
  | _ => none

def sliceClass (e : Ty) : JsClass :=
  match docElemClass e with
  | some c => .typedArray c
  | none => .array

/-- column 2: the JavaScript class documented for a non-nil Go value of type τ; `none` = the table has no row
    (pointers, interfaces — which convert by dynamic type —, `*js.Object`, and `[]uintptr`, which the table does not
    mention) -/
def docJsClass : Ty → Option JsClass
  | .bool => some .boolean
  | .int _ | .i64 | .u64 | .f32 | .f64 => some .number
  | .str => some .string
  | .slice (.int .uptr) | .arr _ (.int .uptr) => none
  | .slice e => some (sliceClass e)
  | .arr _ e => some (sliceClass e)
  | .func _ _ _ => some .function
  | .map _ | .struct _ _ => some .object
  | .ptr _ | .iface | .jsobj => none

/-- column 3: the Go dynamic type documented for `Interface()` of a JavaScript value of the given class;
    `none` = not in the table -/
def docBack : JsClass → Option Ty
  | .boolean => some .bool
  | .number => some .f64
  | .string => some .str
  | .typedArray .i8 => some (.slice (.int .i8))
  | .typedArray .i16 => some (.slice (.int .i16))
  | .typedArray .i32 => some (.slice (.int .int))
  | .typedArray .u8 => some (.slice (.int .u8))
  | .typedArray .u16 => some (.slice (.int .u16))
  | .typedArray .u32 => some (.slice (.int .uint))
  | .typedArray .f32 => some (.slice .f32)
  | .typedArray .f64 => some (.slice .f64)
  | .array => some (.slice .iface)
  | .function => some (.func [.slice .iface] [.jsobj] true)
  | .object => some (.map .iface)
  | .null | .undefined => none

/-! ### the round-trip domain -/

/-- range of the non-64-bit integer kinds (GopherJS: `int`/`uint`/`uintptr` are 32 bits) -/
def inRange (k : IK) (n : Int) : Prop :=
  match k with
  | .i8 => -128 ≤ n ∧ n ≤ 127
  | .i16 => -32768 ≤ n ∧ n ≤ 32767
  | .int | .i32 => -2147483648 ≤ n ∧ n ≤ 2147483647
  | .u8 => 0 ≤ n ∧ n ≤ 255
  | .u16 => 0 ≤ n ∧ n ≤ 65535
  | .uint | .u32 | .uptr => 0 ≤ n ∧ n ≤ 4294967295

/-- well-formed UTF-8: the concatenation of the encodings of Unicode scalar values -/
def ValidUtf8 (s : List Nat) : Prop :=
  ∃ rs : List Nat, (∀ r ∈ rs, GV.Spec.Utf8.isScalar (r : Int) = true) ∧ s = (rs.map GV.Spec.Utf8.encodeScalar).flatten

/-- well-formed UTF-16: the concatenation of the encodings of Unicode scalar values (no lone surrogates) -/
def utf16Of (r : Nat) : List Nat :=
  if r < 0x10000 then [r] else [0xD800 + (r - 0x10000) / 0x400, 0xDC00 + (r - 0x10000) % 0x400]

def ValidUtf16 (u : List Nat) : Prop :=
  ∃ rs : List Nat, (∀ r ∈ rs, GV.Spec.Utf8.isScalar (r : Int) = true) ∧ u = (rs.map utf16Of).flatten

/-- the 64-bit values the property calls "within range": the pair is canonical and |value| ≤ 2^53 -/
def small64 (signed : Bool) (hi : Int) (lo : Nat) : Prop :=
  lo < 4294967296 ∧
  (if signed then -2147483648 ≤ hi ∧ hi ≤ 2147483647 else 0 ≤ hi ∧ hi ≤ 4294967295) ∧
  -9007199254740992 ≤ hi * 4294967296 + (lo : Int) ∧ hi * 4294967296 + (lo : Int) ≤ 9007199254740992

/-- documented scalar (type, value) pairs "representable on both sides" -/
def RTScalar : Ty → GoVal → Prop
  | .bool, .bool _ => True
  | .int k, .num (.int n) => inRange k n
  | .i64, .i64 hi lo => small64 true hi lo
  | .u64, .i64 hi lo => small64 false hi lo
  | .f32, .num _ => True
  | .f64, .num _ => True
  | .str, .str s => ValidUtf8 s
  | _, _ => False

end GV.Spec.JsTable
