/-
  GV.Spec.Num — what the Go specification demands of fixed-width integer arithmetic, written with `BitVec w`
  (independent of the generated JavaScript): two's-complement wrap-around for + - * and unary -, ^;
  truncated division and remainder with a run-time panic on a zero divisor (Go spec "Integer operators":
  `x / -1` at the most negative value wraps to itself, the remainder has the sign of the dividend);
  shifts by any non-negative count (`x << n = 0` for n ≥ w, arithmetic right shift for signed operands,
  panic on a negative count); conversions truncate, sign-extend (signed source) or zero-extend (unsigned source).
-/
namespace GV.Spec.Num

inductive BinOp where
  | add | sub | mul | quo | rem | and | or | xor | andNot
  deriving DecidableEq, Repr

inductive ShOp where
  | shl | shr
  deriving DecidableEq, Repr

inductive UnOp where
  | neg | not
  deriving DecidableEq, Repr

inductive CmpOp where
  | eql | neq | lss | leq | gtr | geq
  deriving DecidableEq, Repr

/-- `none` = run-time panic "integer divide by zero" -/
def specBin {w : Nat} (signed : Bool) (op : BinOp) (a b : BitVec w) : Option (BitVec w) :=
  match op with
  | .add => some (a + b)
  | .sub => some (a - b)
  | .mul => some (a * b)
  | .quo => if b = 0 then none else some (if signed then a.sdiv b else a / b)
  | .rem => if b = 0 then none else some (if signed then a.srem b else a % b)
  | .and => some (a &&& b)
  | .or => some (a ||| b)
  | .xor => some (a ^^^ b)
  | .andNot => some (a &&& ~~~b)

/-- shift by a non-negative count of any size -/
def specShift {w : Nat} (signed : Bool) (op : ShOp) (a : BitVec w) (n : Nat) : BitVec w :=
  match op with
  | .shl => a <<< n
  | .shr => if signed then a.sshiftRight n else a >>> n

/-- shift by a count of a signed integer type: `none` = panic "negative shift amount" -/
def specShiftInt {w : Nat} (signed : Bool) (op : ShOp) (a : BitVec w) (n : Int) : Option (BitVec w) :=
  if n < 0 then none else some (specShift signed op a n.toNat)

def specUn {w : Nat} (op : UnOp) (a : BitVec w) : BitVec w :=
  match op with
  | .neg => -a
  | .not => ~~~a

def specCmp {w : Nat} (signed : Bool) (op : CmpOp) (a b : BitVec w) : Bool :=
  match op with
  | .eql => a == b
  | .neq => a != b
  | .lss => if signed then a.slt b else a.ult b
  | .leq => if signed then a.sle b else a.ule b
  | .gtr => if signed then b.slt a else b.ult a
  | .geq => if signed then b.sle a else b.ule a

/-- integer conversion to width `v`: sign-extend / zero-extend / truncate -/
def specConv {w : Nat} (fromSigned : Bool) (a : BitVec w) (v : Nat) : BitVec v :=
  if fromSigned then a.signExtend v else a.setWidth v

/-- the Go value denoted by a bit vector of a signed / unsigned type -/
def valOf {w : Nat} (signed : Bool) (a : BitVec w) : Int :=
  if signed then a.toInt else (a.toNat : Int)

end GV.Spec.Num
