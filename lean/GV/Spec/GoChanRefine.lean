import GV.Model.Sched
import GV.Spec.GoChan
/-
  GV.Spec.GoChanRefine — the abstraction function from runtime states (GV.Model.Sched) to abstract Go states
  (GV.Spec.GoChan) and the translation of model events/observations to Go labels. The abstraction forgets the
  queues, the scheduler list, the counters and timers: a goroutine is "blocked on op" because of its own
  `blocked` field, not because of a queue entry.
-/
namespace GV.Spec.GoChanRefine
open GV.Chan GV.Sched GV.Spec.GoChan

def absCase : Case → ACase
  | .dflt => .dflt
  | .recv c => .recv c
  | .send c v => .send c v

def absWake : Wake → Option ARes
  | .none => none
  | .recv v ok => some (.recv v ok)
  | .sent false => some .sent
  | .sent true => some .sendPanic
  | .sel i r => some (.sel i r)

def absGor (x : Gor) : AGor :=
  if x.exit then .exited
  else if x.asleep then
    match x.blocked with
    | some (.send c v) => .waitSend c v
    | some (.recv c) => .waitRecv c
    | some (.select cs) => .waitSelect (cs.map absCase)
    | none => .exited
  else match absWake x.wake with
    | some r => .done r
    | none => .active

def absChan (ch : Chan) : AChan := ⟨ch.isNil, ch.cap, ch.buf, ch.closed⟩

def abs (s : State) : AState := ⟨s.chans.map absChan, s.gs.map absGor⟩

/-- what the acting goroutine observed, as a Go-level result (`none` = it blocked) -/
def absObs : Obs → Option (Option ARes)
  | .ok => some (some .sent)
  | .recvd v ok => some (some (.recv v ok))
  | .selected i r => some (some (.sel i r))
  | .blocked => some none
  | .panic _ => some (some .sendPanic)
  | _ => none

/-- Go label of a channel event of the running goroutine -/
def label (ev : Event) (o : Obs) : Option Label :=
  match ev, absObs o with
  | .send c v, some r => some (.send c v r)
  | .recv c, some r => some (.recv c r)
  | .close c, some _ => some (.close c (o != .ok))
  | .select cs _, some r => some (.select (cs.map absCase) r)
  | _, _ => none

/-- undo the "goroutine g resumed" part of a post-state: `g` is put back to `done w` -/
def unresume (a : AState) (o : Obs) : AState :=
  match o with
  | .resumed g w => match absWake w with
    | some r => setGor a g (.done r)
    | none => a
  | _ => a

/-- Is the model step `s --ev/o--> s'` allowed by Go's channel semantics?  `none` = allowed,
    `some msg` = what Go demands instead. Steps that do not touch channels (spawn, exit, scheduler) are
    checked for leaving every channel and every other goroutine's abstract state alone. -/
def closeVerdict (a : AState) (c : Nat) (panics : Bool) (a' : AState) : Option String :=
  let ch := chan a c
  if ch.isNil then (if panics then none else some "close-nil-must-panic")
  else if ch.closed then (if panics then none else some "close-closed-must-panic")
  else if panics then some "close-open-must-not-panic"
  else if allowed a 0 (.close c false) a' then none else some "close-wakeups-not-allowed"

def verdict (s : State) (ev : Event) (o : Obs) (s' : State) : Option String :=
  let a := abs s
  let a' := abs s'
  if o == .invalid then none else
  match s.cur, ev with
  | some _, .close c => closeVerdict a c (o != .ok) a'
  | some g, .send .. | some g, .recv .. | some g, .select .. =>
    match label ev o with
    | some l => if allowed a g l a' then none else some "chan-op-not-allowed"
    | none => some "no-label"
  | none, .fire id =>
    match findTimer s.timers id with
    | some (.closeChan c) => closeVerdict a c (match o with | .panic _ => true | _ => false) (unresume a' o)
    | _ => if a'.chans == a.chans then none else some "scheduler-changed-channels"
  | _, _ => if a'.chans.take a.chans.length == a.chans then none else some "non-channel-event-changed-channels"

/-- the runtime must report a deadlock exactly when, after a goroutine went to sleep or exited, main has not
    finished, no goroutine can proceed and no timer callback is pending -/
def deadlockExpected (s s' : State) : Bool :=
  let slept := s.cur.isSome && s'.cur.isNone
  slept && !s'.mainFinished && !(someRunnable (abs s')) &&
    !(s'.timers.any fun t => match t.2 with | .closeChan _ => true | .runSched => false)

def deadlockVerdict (s s' : State) : Option String :=
  let reported := decide (s'.deadlocks > s.deadlocks)
  if reported == deadlockExpected s s' then none
  else some (if reported then "spurious-deadlock-report" else "missing-deadlock-report")

end GV.Spec.GoChanRefine
