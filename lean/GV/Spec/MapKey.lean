/-
  GV.Spec.MapKey — what Go says (language specification, "Comparison operators" and "Map types",
  "For statements with range clause"), written independently of the GopherJS code.

  * `goEq`: Go's `==` on comparable values: NaN is not equal to anything, +0 == -0, complex numbers
    component-wise, interfaces by identical dynamic type and equal dynamic value, arrays and structs
    element-wise; pointers/channels by identity.
  * `AMap`: a finite map modulo `==`: association list holding at most one entry per `==`-class.
-/
import GV.Model.MapKey

namespace GV.Spec.MapKey
open GV.MapKey

/-- Go `==` on float values -/
def fltEq : Flt → Flt → Bool
  | .nan, _ => false
  | _, .nan => false
  | .inf a, .inf b => a == b
  | .zero _, .zero _ => true
  | .fin a, .fin b => a == b
  | _, _ => false

mutual
/-- Go `==` on comparable values of one static type -/
def goEq : KVal → KVal → Bool
  | .bool a, .bool b => a == b
  | .int a, .int b => a == b
  | .i64 h1 l1, .i64 h2 l2 => h1 == h2 && l1 == l2
  | .float a, .float b => fltEq a b
  | .complex r1 i1, .complex r2 i2 => fltEq r1 r2 && fltEq i1 i2
  | .str a, .str b => a == b
  | .ref a, .ref b => a == b
  | .ifaceNil, .ifaceNil => true
  | .iface t1 v1, .iface t2 v2 => t1 == t2 && goEq v1 v2
  | .tuple _ e1, .tuple _ e2 => goEqs e1 e2
  | _, _ => false
def goEqs : KVals → KVals → Bool
  | .nil, .nil => true
  | .cons a as, .cons b bs => goEq a b && goEqs as bs
  | _, _ => false
end

/-! ### the abstract map -/

/-- entries in creation order (the order is not observable in Go; it is kept so that the refinement
    relation is an equality) -/
abbrev AMap := List (KVal × Int)

def AMap.lookup (m : AMap) (k : KVal) : Option (KVal × Int) := m.find? (fun e => goEq e.1 k)

/-- `m[k] = v`: overwrite the entry whose key is `==` to `k` (the stored key becomes `k`), else add one -/
def AMap.insert : AMap → KVal → Int → AMap
  | [], k, v => [(k, v)]
  | e :: m, k, v => if goEq e.1 k then (k, v) :: m else e :: AMap.insert m k v

/-- `delete(m, k)`: no entry `==` to `k` remains -/
def AMap.erase (m : AMap) (k : KVal) : AMap := m.filter (fun e => !goEq e.1 k)

/-- a Go map variable: `none` is the nil map -/
abbrev GoMapS := Option AMap

def stepS (m : GoMapS) : Op → GoMapS × Out
  | .store k v => match m with
    | none => (none, .panicNilMap)
    | some a => (some (a.insert k v), .unit)
  | .delete k => (m.map (·.erase k), .unit)
  | .index k => (m, .val (match m.bind (·.lookup k) with | some e => e.2 | none => 0))
  | .commaOk k => (m, match m.bind (·.lookup k) with | some e => .valOk e.2 true | none => .valOk 0 false)
  | .len => (m, .len (match m with | some a => a.length | none => 0))
  | .make => (some [], .unit)
  | .setNil => (none, .unit)
  | .literal es => (some (es.foldl (fun a e => a.insert e.1 e.2) []), .unit)
  | .unhashable => (m, .panicUnhashable)

def runS : GoMapS → List Op → List Out
  | _, [] => []
  | m, o :: os => let r := stepS m o; r.2 :: runS r.1 os

end GV.Spec.MapKey
