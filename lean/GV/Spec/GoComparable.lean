/-
  GV.Spec.GoComparable — a small language of Go types (the "grid language" of the comparability tie of C08) and the
  Go specification's rule for comparability ("Comparison operators"): slice, map and function types are not
  comparable; "struct types are comparable if all their field types are comparable" — ALL fields, blank (`_`) and
  embedded ones included (blank fields are only *ignored when comparing values*); "array types are comparable if
  their array element types are comparable"; integers, strings and interface types are comparable.
-/
namespace GV.Spec.GoComparable

inductive FieldKind | named | blank | embedded
  deriving DecidableEq, Repr

mutual
inductive Ty
  | int | str | iface
  | slice | map | func
  | arr (n : Nat) (elem : Ty)
  | struct (fields : Fields)
inductive Fields
  | nil
  | cons (k : FieldKind) (t : Ty) (rest : Fields)
end

mutual
/-- Go spec: is the type comparable? -/
def comparable : Ty → Bool
  | .int => true
  | .str => true
  | .iface => true
  | .slice => false
  | .map => false
  | .func => false
  | .arr _ e => comparable e
  | .struct fs => allComparable fs
def allComparable : Fields → Bool
  | .nil => true
  | .cons _ t rest => comparable t && allComparable rest
end

end GV.Spec.GoComparable
