/-
  GV.Spec.GoTypes — what the Go specification demands of run-time types (written from the Go spec and the
  reference algorithm of go/types `NewMethodSet`/`lookupFieldOrMethod`, independently of types.js).

  * Type identity ("Type identity" in the Go spec) of two constructor applications over canonical components.
  * Method sets ("Method sets", "Selectors", "Struct types: promoted methods"): promotion through embedded
    fields by depth, shadowing by shallower *fields or methods*, exclusion of selectors that are ambiguous at the
    shallowest depth (including the same embedded type reached twice), pointer-receiver rule.
  * Interface satisfaction: every interface method (unexported names qualified by package) is in the method set
    with an identical signature.
  * Interface equality: dynamic types identical and values equal; run-time panic if that type is not comparable.

  The spec reads the same heap of type objects as the model (`GV.Types.St.objs`): value-receiver methods of a
  named type `T` are `T.methods`, pointer-receiver methods are the methods of `*T`.
-/
import GV.Model.Types

namespace GV.Spec.GoTypes
open GV.Types

/-! ### type identity -/

def fieldIdentical (p1 p2 : Str) (f g : Field) : Bool :=
  f.name == g.name && f.embedded == g.embedded && f.typ == g.typ && f.tag == g.tag && f.exported == g.exported
    && (f.exported || p1 == p2)       -- non-exported field names from different packages are always different

def fieldsIdentical (p1 p2 : Str) : List Field → List Field → Bool
  | [], [] => true
  | f :: fs, g :: gs => fieldIdentical p1 p2 f g && fieldsIdentical p1 p2 fs gs
  | _, _ => false

/-- Go type identity of two unnamed composite types whose component types are already canonical (equal ids ⇔
    identical types). Interface method lists are in the compiler's canonical (sorted) order. -/
def goIdentical : Ctor → Ctor → Bool
  | .array e n, .array e' n' => e == e' && n == n'
  | .chan e so ro, .chan e' so' ro' => e == e' && so == so' && (so || ro == ro')
  | .func p r v, .func p' r' v' => p == p' && r == r' && v == v'
  | .iface ms, .iface ms' => ms == ms'
  | .map k e, .map k' e' => k == k' && e == e'
  | .ptr e, .ptr e' => e == e'
  | .slice e, .slice e' => e == e'
  | .struct p fs, .struct p' fs' => fieldsIdentical p p' fs fs'
  | _, _ => false

/-- the reference canonicaliser: one type object per identity class -/
structure SSt where
  st : St
  recs : List (Ctor × Nat) := []

def newTypeS (s : SSt) (kind : Nat) (str : Str) (named : Bool) (pkg : Str) : SSt × Nat :=
  let r := newType s.st kind str named pkg
  if kind = kStruct ∨ kind = kArray then ({ st := r.1, recs := (.ptr r.2, r.2 - 1) :: s.recs }, r.2)
  else ({ s with st := r.1 }, r.2)

def canonS (s : SSt) (c : Ctor) : SSt × Nat :=
  match s.recs.find? (fun r => goIdentical r.1 c) with
  | some r => (s, r.2)
  | none =>
    let r := newTypeS s (kindOf c) (strOf s.st c) false []
    ({ st := initType r.1.st r.2 c, recs := (c, r.2) :: r.1.recs }, r.2)

def initS : SSt :=
  let s0 : SSt := { st := { objs := GV.Types.init.objs.take 18, cache := [] } }
  let s1 := (canonS s0 (.iface [])).1
  let r := newTypeS s1 kInterface (lit "error") true []
  let f := canonS r.1 (.func [] [16] false)
  { f.1 with st := initType f.1.st r.2 (.iface [{ name := lit "Error", pkg := [], typ := f.2 }]) }

def ptrOfS (s : SSt) (t : Nat) : Option Nat := (s.recs.find? (fun r => goIdentical r.1 (.ptr t))).map (·.2)

/-! ### method sets (go/types methodset.go) -/

/-- selector identity: name, qualified by the package path when not exported (`pkg = []` for exported names) -/
abbrev SelKey := Str × Str

structure SEnt where
  typ : Nat
  indirect : Bool
  multiples : Bool
deriving DecidableEq, Repr

/-- per-depth table: `none` = collision / not a member of the method set -/
abbrev Tbl := List (SelKey × Option Method)

def Tbl.has (t : Tbl) (k : SelKey) : Bool := t.any (fun e => e.1 == k)

def Tbl.put (t : Tbl) (k : SelKey) (v : Option Method) : Tbl :=
  if t.has k then t.map (fun e => if e.1 == k then (k, v) else e) else t ++ [(k, v)]

/-- `methodSet.addOne` -/
def addOne (t : Tbl) (m : Method) (ptrRecv indirect multiples : Bool) : Tbl :=
  let k : SelKey := (m.name, m.pkg)
  if !multiples && !t.has k && (indirect || !ptrRecv) then t.put k (some m) else t.put k none

def addFieldKey (t : Tbl) (k : SelKey) : Tbl := t.put k none

structure SLevel where
  seen : List Nat
  mset : Tbl
  fset : List SelKey
  next : List SEnt

/-- pointer-receiver methods of the named type `t`, as a function of the heap: the methods of the type object
    that is `*t` (`ptrOf`) -/
def declaredMethods (s : St) (ptrOf : Nat → Option Nat) (t : Nat) : List (Method × Bool) :=
  let o := s.get t
  if o.kind = kInterface then [] else
    o.methods.map (fun m => (m, false)) ++
    (match ptrOf t with | some p => (s.get p).methods.map (fun m => (m, true)) | none => [])

def sVisit (s : St) (ptrOf : Nat → Option Nat) (a : SLevel) (e : SEnt) : SLevel :=
  let o := s.get e.typ
  if o.named && a.seen.contains e.typ then a else
    let a := if o.named then
        { a with seen := e.typ :: a.seen,
                 mset := (declaredMethods s ptrOf e.typ).foldl (fun t mp => addOne t mp.1 mp.2 e.indirect e.multiples) a.mset }
      else a
    if o.kind = kStruct then
      { a with fset := a.fset ++ o.fields.map (fun f => (f.name, if f.exported then [] else o.pkgPath)),
               next := a.next ++ (o.fields.filter (·.embedded)).map fun f =>
                 let ft := s.get f.typ
                 if ft.kind = kPtr ∧ !ft.named then ⟨ft.elem, true, e.multiples⟩ else ⟨f.typ, e.indirect, e.multiples⟩ }
    else if o.kind = kInterface then
      { a with mset := o.methods.foldl (fun t m => addOne t m false true e.multiples) a.mset }
    else a

/-- `consolidateMultiples` -/
def consolidate : List SEnt → List SEnt → List SEnt
  | acc, [] => acc
  | acc, e :: r =>
    if acc.any (fun x => x.typ == e.typ) then
      consolidate (acc.map fun x => if x.typ == e.typ then { x with multiples := true } else x) r
    else consolidate (acc ++ [e]) r

/-- merge one depth into `base`: names found at a shallower depth win; a method whose name is also a field name
    at the same depth is a collision; remaining field names block deeper selectors -/
def mergeLevel (base : Tbl) (mset : Tbl) (fset : List SelKey) : Tbl :=
  let b1 := mset.foldl (fun b e => if b.has e.1 then b else b ++ [(e.1, if fset.contains e.1 then none else e.2)]) base
  fset.foldl (fun b k => if b.has k then b else b ++ [(k, none)]) b1

def sLoop (s : St) (ptrOf : Nat → Option Nat) : Nat → List SEnt → List Nat → Tbl → Tbl
  | 0, _, _, base => base
  | _ + 1, [], _, base => base
  | f + 1, cur, seen, base =>
    let a := cur.foldl (sVisit s ptrOf) { seen := seen, mset := [], fset := [], next := [] }
    sLoop s ptrOf f (consolidate [] a.next) a.seen (mergeLevel base a.mset a.fset)

def specTable (s : St) (ptrOf : Nat → Option Nat) (t : Nat) : Tbl :=
  let o := s.get t
  let isPtr := o.kind = kPtr ∧ !o.named
  if isPtr ∧ (s.get o.elem).kind = kInterface then []
  else sLoop s ptrOf (s.size + 1) [⟨if isPtr then o.elem else t, isPtr, false⟩] [] []

/-- the Go method set of the type object `t` -/
def specMethodSet (s : St) (ptrOf : Nat → Option Nat) (t : Nat) : List Method :=
  (specTable s ptrOf t).filterMap (·.2)

/-- `T implements I` -/
def implementsS (s : St) (ptrOf : Nat → Option Nat) (v i : Nat) : Bool :=
  (s.get i).methods.all fun tm => (specMethodSet s ptrOf v).any fun vm => vm.name == tm.name && vm.pkg == tm.pkg && vm.typ == tm.typ

/-- `x.(T)`: `dyn` = dynamic type of x (`none` for a nil interface value) -/
def assertS (s : St) (ptrOf : Nat → Option Nat) (dyn : Option Nat) (t : Nat) : Bool :=
  match dyn with
  | none => false
  | some v => if (s.get t).kind = kInterface then implementsS s ptrOf v t else v == t

/-- pointer types as the model's heap records them (`elem.ptr`) -/
def ptrOfM (s : St) (t : Nat) : Option Nat := s.cache.lookup (cPtr, dec t)

/-! ### comparability and interface equality -/

/-- Go: a type is comparable unless it is a slice, map, function, or a struct/array containing one.
    Fuel bounds the nesting depth (struct/array nesting is finite: a type cannot contain itself by value). -/
def comparableS (s : St) : Nat → Nat → Bool
  | 0, _ => true
  | f + 1, t =>
    let o := s.get t
    if o.kind = kSlice ∨ o.kind = kMap ∨ o.kind = kFunc then false
    else if o.kind = kArray then comparableS s f o.elem
    else if o.kind = kStruct then o.fields.all fun fl => comparableS s f fl.typ
    else true

mutual
/-- Go `==` on two values of static type `t` (interface-typed operands compare dynamic type, then value) -/
def eqS (s : St) : Val → Val → Nat → EqRes
  | .tuple as, .tuple bs, t =>
    let o := s.get t
    if o.kind = kArray then
      if as.length ≠ bs.length then .ff else eqArrS s as bs o.elem
    else eqStructS s as bs (o.fields.map (·.typ))
  | .ifaceNil, .ifaceNil, _ => .tt
  | .iface ta va, .iface tb vb, _ =>
    if ta ≠ tb then .ff
    else if !comparableS s (s.size + 1) ta then .panic
    else eqS s va vb ta
  | .num a, .num b, _ => .ofBool (a == b)
  | .pair a b, .pair c d, _ => .ofBool (a == c && b == d)
  | .flt a, .flt b, _ => .ofBool (a.isSome && a == b)                         -- NaN != NaN
  | .cplx a b, .cplx c d, _ => .ofBool (a.isSome && b.isSome && a == c && b == d)
  | .str a, .str b, _ => .ofBool (a == b)
  | .ref a, .ref b, _ => .ofBool (a == b)
  | _, _, _ => .ff
def eqArrS (s : St) : List Val → List Val → Nat → EqRes
  | a :: as, b :: bs, t =>
    match eqS s a b t with
    | .tt => eqArrS s as bs t
    | r => r
  | _, _, _ => .tt
def eqStructS (s : St) : List Val → List Val → List Nat → EqRes
  | a :: as, b :: bs, t :: ts =>
    match eqS s a b t with
    | .tt => eqStructS s as bs ts
    | r => r
  | _, _, _ => .tt
end

def ifaceEqS (s : St) (a b : Val) : EqRes := eqS s a b 0

/-! ### diagnosis: which of the recorded defect classes can affect the method set of `t`
    (these are the decidable hypotheses of the `_partial` theorems, evaluated per type) -/

/-- every type reached by the embedding walk, with the depth-level it was reached at -/
def closureLoop (s : St) : Nat → List SEnt → List Nat → List (List SEnt) → List (List SEnt)
  | 0, _, _, acc => acc
  | _ + 1, [], _, acc => acc
  | f + 1, cur, seen, acc =>
    let a := cur.foldl (sVisit s (fun _ => none)) { seen := seen, mset := [], fset := [], next := [] }
    closureLoop s f (consolidate [] a.next) a.seen (acc ++ [cur.filter fun e => !((s.get e.typ).named && seen.contains e.typ)])

def closureLevels (s : St) (t : Nat) : List (List SEnt) :=
  let o := s.get t
  let isPtr := o.kind = kPtr ∧ !o.named
  closureLoop s (s.size + 1) [⟨if isPtr then o.elem else t, isPtr, false⟩] [] []

def dupBy {α : Type} [BEq α] : List α → Bool
  | [] => false
  | x :: r => r.contains x || dupBy r

structure Diag where
  amb : Bool          -- a method name occurs twice at one depth, or an embedded type is reached twice at one depth
  fieldhide : Bool    -- a field name equals a method name somewhere in the closure
  ptrshadow : Bool    -- a pointer-receiver method reached without indirection shares its name with another method
  pkgname : Bool      -- two methods share the name but not the package qualifier
deriving Repr

def diag (s : St) (ptrOf : Nat → Option Nat) (t : Nat) : Diag :=
  let lv := closureLevels s t
  let ents := lv.flatMap id
  let methodsOf (e : SEnt) : List (Method × Bool) :=
    let o := s.get e.typ
    if o.kind = kInterface then o.methods.map (fun m => (m, false))
    else if o.named then declaredMethods s ptrOf e.typ else []
  let allM := ents.flatMap methodsOf
  let names := allM.map (·.1.name)
  let fieldNames := ents.flatMap fun e => let o := s.get e.typ; if o.kind = kStruct then o.fields.map (·.name) else []
  let nextRaw (l : List SEnt) : List Nat := l.flatMap fun e =>
    let o := s.get e.typ
    if o.kind = kStruct then (o.fields.filter (·.embedded)).map (fun f =>
      let ft := s.get f.typ; if ft.kind = kPtr ∧ !ft.named then ft.elem else f.typ) else []
  { amb := lv.any (fun l => dupBy ((l.flatMap methodsOf).map (·.1.name)) || dupBy (nextRaw l)) || ents.any (·.multiples),
    fieldhide := fieldNames.any (fun f => names.contains f),
    ptrshadow := ents.any (fun e => !e.indirect && (methodsOf e).any (fun mp => mp.2 && (names.filter (· == mp.1.name)).length ≥ 2)),
    pkgname := allM.any (fun a => allM.any fun b => a.1.name == b.1.name && a.1.pkg != b.1.pkg) }

end GV.Spec.GoTypes
