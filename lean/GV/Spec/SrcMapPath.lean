/-
  GV.Spec.SrcMapPath — what C19 demands of the name a source map gives to an original file (default, non-localmap
  mode), stated over path COMPONENTS and independently of the string operations of the code:

    the name is "/" + the path of the file relative to the `src` directory of the first root (GOPATH workspaces in their
    order, then GOROOT) that CONTAINS the file; a root contains a file when the components of `<root>/src` are a proper
    prefix of the components of the file. A file inside no root is named by its last component.

  A consumer (`gopherjs serve`, a debugger configured with the roots) opens `<root>/src` + name; `resolves` says that this
  is the file again.
-/
import GV.Model.PathClean

namespace GV.Spec.SrcMapPath
open GV.PathClean (splitSlash joinSlash)

abbrev Str := List Nat

/-- components of `<root>/src`; the root "/" is the empty prefix -/
def srcComponents (root : Str) : List Str := splitSlash ((if root = [47] then [] else root) ++ [47, 115, 114, 99])

/-- the components of `file` below `<root>/src`, if it lies inside -/
def below (root file : Str) : Option (List Str) :=
  let d := srcComponents root
  let f := splitSlash file
  if d.isPrefixOf f && decide (d.length < f.length) then some (f.drop d.length) else none

/-- last component, as `filepath.Base` documents it: "" is ".", trailing slashes are ignored, a path of slashes is "/" -/
def lastComponent (s : Str) : Str :=
  if s = [] then [46]
  else
    let t := (s.reverse.dropWhile (· = 47)).reverse
    let b := (t.reverse.takeWhile (· ≠ 47)).reverse
    if b = [] then [47] else b

/-- the demanded name; `roots` are the cleaned roots in lookup order -/
def name (roots : List Str) (file : Str) : Str :=
  match roots.findSome? (below · file) with
  | some rest => 47 :: joinSlash rest
  | none => lastComponent file

end GV.Spec.SrcMapPath
