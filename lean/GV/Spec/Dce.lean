/-
  GV.Spec.Dce — what dead-code elimination must select, stated without any work list:
  the LEAST set of declarations that contains the roots and is closed under
  "every non-empty filter of e occurs among the dependency names of members ⇒ e is a member".
-/
import GV.Model.Dce

namespace GV.Spec.Dce
open GV.Dce

/-- roots: declarations marked alive (main, init, side-effecting initialisers), declarations without a DCE
name, and implementations referenced by a go:linkname directive (README "Initially alive") -/
def IsRoot (d : Decl) : Prop := d.isAlive = true ∨ d.link = true

/-- `f` is one of the (at most two) non-empty filter names of `e` -/
def IsFilter (e : Decl) (f : Name) : Prop := f ≠ "" ∧ (f = e.obj ∨ f = e.meth)

/-- `L` contains the roots of `ds` and is closed under the selection rule -/
structure Closed (ds : List Decl) (L : Decl → Prop) : Prop where
  roots : ∀ d, d ∈ ds → IsRoot d → L d
  step : ∀ e, e ∈ ds → (∀ f, IsFilter e f → ∃ d, L d ∧ f ∈ d.deps) → L e

/-- the least closed set: the intersection of all closed sets -/
def Live (ds : List Decl) (d : Decl) : Prop := ∀ L : Decl → Prop, Closed ds L → L d

theorem live_closed (ds : List Decl) : Closed ds (Live ds) where
  roots := fun d hd hr L hL => hL.roots d hd hr
  step := fun e he hf L hL => hL.step e he fun f hff =>
    let ⟨d, hd, hdep⟩ := hf f hff
    ⟨d, hd L hL, hdep⟩

theorem live_least (ds : List Decl) (L : Decl → Prop) (hL : Closed ds L) : ∀ d, Live ds d → L d :=
  fun _ h => h L hL

theorem live_mem {ds : List Decl} {d : Decl} (h : Live ds d) : d ∈ ds :=
  h (· ∈ ds) ⟨fun _ hd _ => hd, fun _ he _ => he⟩

/-- `Live` only depends on which declarations are present, not on their order or multiplicity -/
theorem live_congr {ds₁ ds₂ : List Decl} (h : ∀ d, d ∈ ds₁ ↔ d ∈ ds₂) (d : Decl) :
    Live ds₁ d ↔ Live ds₂ d := by
  constructor
  · intro hl L hL
    exact hl L ⟨fun d hd hr => hL.roots d ((h d).1 hd) hr, fun e he hf => hL.step e ((h e).1 he) hf⟩
  · intro hl L hL
    exact hl L ⟨fun d hd hr => hL.roots d ((h d).2 hd) hr, fun e he hf => hL.step e ((h e).2 he) hf⟩

end GV.Spec.Dce

namespace GV.Spec.Dce
open GV.Dce

/-! An executable rendering of the least fixed point by naive (Kleene) iteration, used by the driver as a
second, work-list-free answer stream on real declaration tables.  The theorems are about `Live`. -/

def lfpStep (ds L : List Decl) : List Decl :=
  let avail := L.flatMap (·.deps)
  ds.filter fun e => L.contains e || e.isAlive || e.link ||
    ((e.obj == "" || avail.contains e.obj) && (e.meth == "" || avail.contains e.meth))

def lfpIter : Nat → List Decl → List Decl → List Decl
  | 0, _, L => L
  | n + 1, ds, L =>
    let L' := lfpStep ds L
    if L'.length == L.length then L else lfpIter n ds L'

def lfpExec (ds : List Decl) : List Decl :=
  lfpIter (ds.length + 1) ds (ds.filter fun d => d.isAlive || d.link)

end GV.Spec.Dce
