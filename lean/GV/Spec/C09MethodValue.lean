/-
  GV.Spec.C09MethodValue — Go spec, "Method values": `x.M` is evaluated when the method value is evaluated; for a method with a
  value receiver the receiver `x` (or `*x`, or the promoted embedded field, reached along any embedding path with automatic
  dereferences) is COPIED at that time — a nil pointer on the way panics there; for a pointer receiver the pointer is bound.
-/
import GV.Model.C09Receiver

namespace GV.Spec.MethodValue
open GV.Recv

def goBind (h0 : Heap) (op : Operand) (path : List Step) (pointerReceiver : Bool) : Option Bound :=
  if pointerReceiver then
    if lastIsPtr op path then (resolveToPtr h0 op path).map .ptrval      -- the pointer itself (may be nil)
    else ((start op).bind (resolve h0 · path)).map .ref                    -- `&x.path`
  else ((start op).bind (resolve h0 · path)).map fun l => .copy (read h0 l)   -- a copy of the receiver value, now

def goMethodValue (body : V → Int) (h0 h1 : Heap) (op : Operand) (path : List Step) (pointerReceiver : Bool) : Out :=
  callBound body h1 (goBind h0 op path pointerReceiver)

end GV.Spec.MethodValue
