/-
  GV.Spec.Slice — Go's slice semantics (The Go Programming Language Specification: "Slice expressions",
  "Appending to and copying slices", "Making slices, maps and channels"), written independently of the
  prelude: a slice value is a window (start, len, cap) onto an identified backing array, or nil.
-/
namespace GV.Spec.Slice

/-- abstract Go slice: a window onto backing array `arr` -/
structure GoSlice where
  arr : Nat
  start : Nat
  len : Nat
  cap : Nat
  isNil : Bool
deriving DecidableEq, Repr

/-- "Slice expressions": for slices the indices must satisfy `0 <= low <= high <= max <= cap(a)`;
    a missing high index defaults to `len(a)`, a missing max to `cap(a)`; otherwise a run-time panic occurs. -/
abbrev inRange (len cap : Nat) (low : Int) (high max : Option Int) : Prop :=
  0 ≤ low ∧ low ≤ high.getD len ∧ high.getD len ≤ max.getD cap ∧ max.getD cap ≤ cap

/-- the result shares the operand's backing array, starts at `low`, has length `high - low` and capacity
    `max - low`; "if the sliced operand is a nil slice, the result is a nil slice". -/
def subslice (s : GoSlice) (low : Int) (high max : Option Int) : GoSlice :=
  if s.isNil then s
  else { arr := s.arr, start := s.start + low.toNat, len := (high.getD s.len - low).toNat,
         cap := (max.getD s.cap - low).toNat, isNil := false }

/-- memmove: cells `[dOff, dOff+n)` of `dst` receive the ORIGINAL cells `[sOff, sOff+n)` of `src`;
    every other cell of `dst` is unchanged ("copy … source and destination may overlap"). -/
def moveCells {α} (dst src : List α) (dOff sOff n : Nat) : List α :=
  dst.take dOff ++ (src.drop sOff).take n ++ dst.drop (dOff + n)

/-- `copy(dst, src)` copies `min(len(src), len(dst))` elements -/
def copyCount (dstLen srcLen : Nat) : Nat := min srcLen dstLen

/-- `append(s, x…)`: "If the capacity of s is not large enough to fit the additional values, append
    allocates a new, sufficiently large underlying array … Otherwise, append re-uses the underlying array." -/
abbrev mustReallocate (len cap n : Nat) : Prop := len + n > cap

/-- `make([]T, len, cap)` panics when `len` is negative or larger than `cap` (sizes here are 32-bit ints) -/
abbrev makeOk (length : Int) (capacity : Option Int) : Prop :=
  0 ≤ length ∧ length ≤ capacity.getD length ∧ capacity.getD length ≤ 2147483647

end GV.Spec.Slice
