/-
  GV.Spec.Utf8 — specification of UTF-8 as in the Unicode Standard, Table 3-7
  ("Well-Formed UTF-8 Byte Sequences"), and Go's decoding rule (spec, "For statements with
  range clause": an invalid byte yields U+FFFD and advances by one byte).
  Written independently of the prelude: byte-range table + arithmetic value function,
  no bit operations.
-/
namespace GV.Spec.Utf8

/-- Table 3-7, one predicate per sequence length (rows with the same length are the disjuncts). -/
abbrev wf1 (a : Nat) : Prop := a ≤ 0x7F
abbrev tail (x : Nat) : Prop := 0x80 ≤ x ∧ x ≤ 0xBF
abbrev wf2 (a b : Nat) : Prop := 0xC2 ≤ a ∧ a ≤ 0xDF ∧ tail b
abbrev wf3 (a b c : Nat) : Prop :=
  ((a = 0xE0 ∧ 0xA0 ≤ b ∧ b ≤ 0xBF) ∨ (0xE1 ≤ a ∧ a ≤ 0xEC ∧ tail b) ∨
   (a = 0xED ∧ 0x80 ≤ b ∧ b ≤ 0x9F) ∨ (0xEE ≤ a ∧ a ≤ 0xEF ∧ tail b)) ∧ tail c
abbrev wf4 (a b c d : Nat) : Prop :=
  ((a = 0xF0 ∧ 0x90 ≤ b ∧ b ≤ 0xBF) ∨ (0xF1 ≤ a ∧ a ≤ 0xF3 ∧ tail b) ∨
   (a = 0xF4 ∧ 0x80 ≤ b ∧ b ≤ 0x8F)) ∧ tail c ∧ tail d


/-- scalar values (Table 3-6), arithmetic form -/
def v2 (a b : Nat) : Nat := (a - 0xC0) * 64 + (b - 0x80)
def v3 (a b c : Nat) : Nat := (a - 0xE0) * 4096 + (b - 0x80) * 64 + (c - 0x80)
def v4 (a b c d : Nat) : Nat := (a - 0xF0) * 262144 + (b - 0x80) * 4096 + (c - 0x80) * 64 + (d - 0x80)

/-- Go's decoding step on the remaining bytes: a well-formed sequence → (scalar, length);
    anything else (including the empty remainder, which Go never asks for) → (U+FFFD, 1). -/
def decodeL : List Nat → Nat × Nat
  | [] => (0xFFFD, 1)
  | a :: t =>
    if wf1 a then (a, 1) else
    match t with
    | [] => (0xFFFD, 1)
    | b :: t2 =>
      if wf2 a b then (v2 a b, 2) else
      match t2 with
      | [] => (0xFFFD, 1)
      | c :: t3 =>
        if wf3 a b c then (v3 a b c, 3) else
        match t3 with
        | [] => (0xFFFD, 1)
        | d :: _ => if wf4 a b c d then (v4 a b c d, 4) else (0xFFFD, 1)

def decode (s : List Nat) (pos : Nat) : Nat × Nat := decodeL (s.drop pos)

/-- Unicode scalar values. -/
def isScalar (r : Int) : Bool := 0 ≤ r && r ≤ 0x10FFFF && !(0xD800 ≤ r && r ≤ 0xDFFF)

/-- UTF-8 encoding of a scalar value, arithmetic form (Table 3-6). -/
def encodeScalar (r : Nat) : List Nat :=
  if r < 0x80 then [r]
  else if r < 0x800 then [0xC0 + r / 64, 0x80 + r % 64]
  else if r < 0x10000 then [0xE0 + r / 4096, 0x80 + r / 64 % 64, 0x80 + r % 64]
  else [0xF0 + r / 262144, 0x80 + r / 4096 % 64, 0x80 + r / 64 % 64, 0x80 + r % 64]

/-- Go: `string(rune)` of a non-scalar is "�". -/
def encode (r : Int) : List Nat :=
  if isScalar r then encodeScalar r.toNat else encodeScalar 0xFFFD

/-- `[]rune(s)` / range: repeated `decode` until the end; fuel = length. -/
def runesAux (s : List Nat) : Nat → Nat → List (Nat × Nat)
  | 0, _ => []
  | fuel + 1, i =>
    if i < s.length then
      let d := decode s i
      (i, d.1) :: runesAux s fuel (i + d.2)
    else []

def rangeSpec (s : List Nat) : List (Nat × Nat) := runesAux s s.length 0

end GV.Spec.Utf8
