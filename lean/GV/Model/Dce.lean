/-
  GV.Model.Dce — executable model of GopherJS' dead-code-elimination selector
  (transcription of /repo/compiler/internal/dce/selector.go and the parts of info.go it uses).

  Core Lean only.  Names (filters and dependency names) are strings; the selector only compares them
  for equality and against the empty string.
-/
namespace GV.Dce

abbrev Name := String

/-- What the selector sees of one declaration: `dce.Info` (info.go:12-33) plus the `implementsLink`
argument that `WriteProgramCode` passes to `Include` (compiler.go:141-155).  `id` is the identity of the
declaration (the Go code uses the pointer `*Decl`); the algorithm never looks at it. -/
structure Decl where
  id : Nat
  alive : Bool
  link : Bool
  obj : Name
  meth : Name
  deps : List Name
deriving DecidableEq, Repr

/-- info.go:56-58 `unnamed` -/
def Decl.unnamed (d : Decl) : Bool := d.obj == "" && d.meth == ""

/-- info.go:64-66 `isAlive` -/
def Decl.isAlive (d : Decl) : Bool := d.alive || d.unnamed

/-- selector.go:21-25 `declInfo` (a heap object: both `byFilter` lists of a two-filter declaration point to
the same `declInfo`, whose fields are cleared in place) -/
structure Info where
  decl : Decl
  obj : Name
  meth : Name
deriving Repr

abbrev FMap := List (Name × List Nat)

/-- `s.byFilter[k]` with the `ok` flag -/
def mapFind (k : Name) : FMap → Option (List Nat)
  | [] => none
  | (k', v) :: m => if k' = k then some v else mapFind k m

/-- `s.byFilter[k] = append(s.byFilter[k], i)` -/
def mapAppend (k : Name) (i : Nat) : FMap → FMap
  | [] => [(k, [i])]
  | (k', v) :: m => if k' = k then (k', v ++ [i]) :: m else (k', v) :: mapAppend k i m

/-- `delete(s.byFilter, k)` -/
def mapErase (k : Name) : FMap → FMap
  | [] => []
  | (k', v) :: m => if k' = k then mapErase k m else (k', v) :: mapErase k m

/-- total number of `*declInfo` entries stored in the map (termination measure) -/
def sumLens : FMap → Nat
  | [] => 0
  | (_, v) :: m => v.length + sumLens m

/-- selector.go:13-19 `Selector`; `infos` is the heap of `declInfo` objects, the map stores indices into it. -/
structure Sel where
  byFilter : FMap
  infos : List Info
  pending : List Decl

def Sel.empty : Sel := ⟨[], [], []⟩

/-- selector.go:28-57 `Include` -/
def includeDecl (s : Sel) (d : Decl) : Sel :=
  if d.isAlive then
    { s with pending := s.pending ++ [d] }
  else
    let pending := if d.link then s.pending ++ [d] else s.pending
    let i := s.infos.length
    let bf := if d.obj ≠ "" then mapAppend d.obj i s.byFilter else s.byFilter
    let bf := if d.meth ≠ "" then mapAppend d.meth i bf else bf
    { byFilter := bf, infos := s.infos ++ [⟨d, d.obj, d.meth⟩], pending := pending }

/-- selector.go:83-88: clear the filters of a `declInfo` that equal the dependency just seen -/
def Info.clear (dep : Name) (info : Info) : Info :=
  { info with obj := if info.obj = dep then "" else info.obj,
              meth := if info.meth = dep then "" else info.meth }

/-- selector.go:82-92: body of `for _, info := range infos` -/
def hitInfo (dep : Name) (st : List Info × List Decl) (i : Nat) : List Info × List Decl :=
  match st.1[i]? with
  | none => st
  | some info =>
    let info' := info.clear dep
    let infos' := st.1.set i info'
    if info'.obj = "" ∧ info'.meth = "" then (infos', st.2 ++ [info'.decl]) else (infos', st.2)

/-- selector.go:79-94: body of `for _, dep := range dce.getDeps()` — the filter key is deleted on its first hit -/
def processDep (s : Sel) (dep : Name) : Sel :=
  match mapFind dep s.byFilter with
  | none => s
  | some idxs =>
    let r := idxs.foldl (hitInfo dep) (s.infos, s.pending)
    { byFilter := mapErase dep s.byFilter, infos := r.1, pending := r.2 }

/-- remove the element at position `i` -/
def popAt {α : Type} : Nat → List α → Option (α × List α)
  | _, [] => none
  | 0, x :: xs => some (x, xs)
  | n + 1, x :: xs => (popAt n xs).map fun p => (p.1, x :: p.2)

/-- The discipline of the work list: which pending element is taken next.  selector.go:59-64 `popPending`
takes the last one (`lifo`); the theorems hold for every discipline. -/
abbrev Pick := List Decl → Nat

def lifo : Pick := fun p => p.length - 1
def fifo : Pick := fun _ => 0

def Sel.measure (s : Sel) : Nat := s.pending.length + sumLens s.byFilter

theorem popAt_length {α : Type} : ∀ (i : Nat) (l : List α) (d : α) (r : List α),
    popAt i l = some (d, r) → r.length + 1 = l.length
  | _, [], _, _, h => by simp [popAt] at h
  | 0, x :: xs, d, r, h => by
    simp only [popAt, Option.some.injEq, Prod.mk.injEq] at h
    rw [← h.2]; rfl
  | n + 1, x :: xs, d, r, h => by
    simp only [popAt, Option.map_eq_some_iff] at h
    obtain ⟨p, hp, he⟩ := h
    have := popAt_length n xs p.1 p.2 hp
    simp only [Prod.mk.injEq] at he
    rw [← he.2]; simp only [List.length_cons]; omega

theorem sumLens_filter_le (k : Name) : ∀ m : FMap, sumLens (mapErase k m) ≤ sumLens m
  | [] => Nat.le_refl _
  | (k', v) :: m => by
    have ih := sumLens_filter_le k m
    simp only [mapErase]
    split <;> simp only [sumLens] <;> omega

theorem sumLens_erase (k : Name) : ∀ (m : FMap) (l : List Nat),
    mapFind k m = some l → sumLens (mapErase k m) + l.length ≤ sumLens m
  | [], _, h => by simp [mapFind] at h
  | (k', v) :: m, l, h => by
    simp only [mapFind] at h
    by_cases hk : k' = k
    · simp only [hk, if_true, Option.some.injEq] at h
      have := sumLens_filter_le k m
      simp only [mapErase, hk, if_true, sumLens, h]
      omega
    · simp only [hk, if_false] at h
      have ih := sumLens_erase k m l h
      simp only [mapErase, hk, if_false, sumLens]
      omega

theorem hitInfo_length (dep : Name) (st : List Info × List Decl) (i : Nat) :
    (hitInfo dep st i).2.length ≤ st.2.length + 1 := by
  unfold hitInfo
  split
  · omega
  · simp only []
    split <;> simp only [List.length_append, List.length_cons, List.length_nil] <;> omega

theorem fold_hit_length (dep : Name) : ∀ (l : List Nat) (st : List Info × List Decl),
    (l.foldl (hitInfo dep) st).2.length ≤ st.2.length + l.length
  | [], st => by simp
  | i :: l, st => by
    have h1 := hitInfo_length dep st i
    have h2 := fold_hit_length dep l (hitInfo dep st i)
    simp only [List.foldl_cons, List.length_cons]
    omega

theorem processDep_measure (s : Sel) (dep : Name) : (processDep s dep).measure ≤ s.measure := by
  unfold processDep
  split
  · exact Nat.le_refl _
  · rename_i idxs h
    have h1 := sumLens_erase dep s.byFilter idxs h
    have h2 := fold_hit_length dep idxs (s.infos, s.pending)
    simp only [Sel.measure] at *
    omega

theorem fold_processDep_measure : ∀ (deps : List Name) (s : Sel),
    (deps.foldl processDep s).measure ≤ s.measure
  | [], _ => Nat.le_refl _
  | d :: ds, s => by
    have h1 := processDep_measure s d
    have h2 := fold_processDep_measure ds (processDep s d)
    simp only [List.foldl_cons]
    omega

set_option linter.unusedVariables false in
/-- selector.go:69-96 `AliveDecls`: pop a pending declaration, mark it live, run through its dependencies.
`sel` is the `dceSelection` map (as a list: membership is what matters).  Terminates because every
`declInfo` stored in `byFilter` leaves the map (with its key) the first time the key is hit. -/
def aliveLoop (pick : Pick) (s : Sel) (sel : List Decl) : List Decl :=
  match h : popAt (pick s.pending % s.pending.length) s.pending with
  | none => sel
  | some (d, rest) =>
    aliveLoop pick (d.deps.foldl processDep { s with pending := rest }) (d :: sel)
termination_by s.measure
decreasing_by
  have h1 := popAt_length _ _ _ _ h
  have h2 := fold_processDep_measure d.deps { s with pending := rest }
  simp only [Sel.measure] at *
  omega

/-- compiler.go:141-156: include every declaration (in the given order), then `AliveDecls`. -/
def select (pick : Pick) (ds : List Decl) : List Decl :=
  aliveLoop pick (ds.foldl includeDecl Sel.empty) []

end GV.Dce
